/-
  C04, vertical motion: `move_to_line_up` / `move_to_line_down` land in the n-th line above / below
  (or the first / last line) — and on which column.
-/
import Rl.Lemmas.Motion
set_option linter.unusedVariables false


namespace Rl
open Rl.Spec

/-! ### `findChar` / `rfindChar` on texts without / with an occurrence -/

theorem vm_findChar_none {c : Char} {s : Text} (h : c ∉ s) : findChar c s = none := by
  induction s with
  | nil => rfl
  | cons x t ih =>
    have hx : ¬ x = c := fun e => h (by simp [e])
    have ht : c ∉ t := fun e => h (by simp [e])
    simp [findChar, hx, ih ht]

theorem vm_rfindChar_none {c : Char} {s : Text} (h : c ∉ s) : rfindChar c s = none := by
  induction s with
  | nil => rfl
  | cons x t ih =>
    have hx : ¬ x = c := fun e => h (by simp [e])
    have ht : c ∉ t := fun e => h (by simp [e])
    simp [rfindChar, hx, ih ht]

theorem vm_findChar_append {c : Char} {a : Text} (s : Text) (h : c ∉ a) :
    findChar c (a ++ s) = (findChar c s).map (· + blen a) := by
  induction a with
  | nil => cases hf : findChar c s <;> simp [hf]
  | cons x t ih =>
    have hx : ¬ x = c := fun e => h (by simp [e])
    have ht : c ∉ t := fun e => h (by simp [e])
    simp only [List.cons_append, findChar, hx, beq_iff_eq, if_false, ih ht]
    cases findChar c s with
    | none => rfl
    | some k => simp; omega

theorem vm_rfindChar_append {c : Char} (x : Text) {m : Text} (h : c ∉ m) :
    rfindChar c (x ++ m) = rfindChar c x := by
  induction x with
  | nil => simpa [rfindChar] using vm_rfindChar_none h
  | cons y t ih => simp only [List.cons_append, rfindChar, ih]

theorem vm_rfindChar_snoc (c : Char) (u : Text) : rfindChar c (u ++ [c]) = some (blen u) := by
  induction u with
  | nil => simp [rfindChar]
  | cons y t ih => simp only [List.cons_append, rfindChar, ih, blen_cons]; simp; omega


/-! ### the shape of a line inside the buffer -/

/-- `X` is empty or ends with a line break: the text in front of a line start -/
def vm_Pre (X : Text) : Prop := X = [] ∨ ∃ u, X = u ++ ['\n']
/-- `R` is empty or starts with a line break: the text from a line end on -/
def vm_Suf (R : Text) : Prop := R = [] ∨ ∃ q, R = '\n' :: q

theorem vm_prefix_line (u : Text) : ∃ X a, u = X ++ a ∧ '\n' ∉ a ∧ vm_Pre X := by
  induction u with
  | nil => exact ⟨[], [], rfl, by simp, Or.inl rfl⟩
  | cons c t ih =>
    obtain ⟨X, a, rfl, ha, hX⟩ := ih
    rcases hX with rfl | ⟨w, rfl⟩
    · by_cases hc : c = '\n'
      · subst hc
        exact ⟨['\n'], a, rfl, ha, Or.inr ⟨[], rfl⟩⟩
      · refine ⟨[], c :: a, rfl, ?_, Or.inl rfl⟩
        intro hm
        rcases List.mem_cons.mp hm with h | h
        · exact hc h.symm
        · exact ha h
    · exact ⟨c :: w ++ ['\n'], a, by simp, ha, Or.inr ⟨c :: w, rfl⟩⟩

theorem vm_suffix_line (s : Text) : ∃ m R, s = m ++ R ∧ '\n' ∉ m ∧ vm_Suf R := by
  induction s with
  | nil => exact ⟨[], [], rfl, by simp, Or.inl rfl⟩
  | cons c t ih =>
    by_cases hc : c = '\n'
    · subst hc
      exact ⟨[], '\n' :: t, rfl, by simp, Or.inr ⟨t, rfl⟩⟩
    · obtain ⟨m, R, rfl, hm, hR⟩ := ih
      refine ⟨c :: m, R, rfl, ?_, hR⟩
      intro h
      rcases List.mem_cons.mp h with h | h
      · exact hc h.symm
      · exact hm h

theorem vm_lineStartOf_eq {buf x s : Text} {p : Nat} (hb : buf = x ++ s) (hp : p = blen x) :
    lineStartOf buf p = match rfindChar '\n' x with | some i => i + 1 | none => 0 := by
  subst hb hp
  simp only [lineStartOf, splitAt?, splitAtByte_append]
  cases rfindChar '\n' x <;> rfl

theorem vm_lineEndOf_eq {buf x s : Text} {p : Nat} (hb : buf = x ++ s) (hp : p = blen x) :
    lineEndOf buf p = match findChar '\n' s with | some i => p + i | none => blen buf := by
  subst hb hp
  simp only [lineEndOf, splitAt?, splitAtByte_append]
  cases findChar '\n' s <;> rfl

/-- the start of the line containing a position inside a line-break-free stretch after a line start -/
theorem vm_lineStartOf_in {buf X a b : Text} {p : Nat} (hb : buf = X ++ a ++ b) (hp : p = blen X + blen a)
    (hX : vm_Pre X) (ha : '\n' ∉ a) : lineStartOf buf p = blen X := by
  rw [vm_lineStartOf_eq (x := X ++ a) (s := b) hb (by simp [hp]), vm_rfindChar_append X ha]
  rcases hX with rfl | ⟨u, rfl⟩
  · rfl
  · rw [vm_rfindChar_snoc]; simp [utf8Size_newline]

/-- the end of the line containing a position followed by a line-break-free stretch up to a line end -/
theorem vm_lineEndOf_in {buf Y b R : Text} {p : Nat} (hb : buf = Y ++ b ++ R) (hp : p = blen Y)
    (hR : vm_Suf R) (hb' : '\n' ∉ b) : lineEndOf buf p = blen Y + blen b := by
  rw [vm_lineEndOf_eq (x := Y) (s := b ++ R) (by simp [hb]) hp, vm_findChar_append R hb']
  rcases hR with rfl | ⟨q, rfl⟩
  · simp [findChar, hb]
  · simp [findChar, hp]

/-- `[ds, de)` is a whole line of `buf` with text `line` -/
def vm_Line (buf : Text) (ds de : Nat) (line : Text) : Prop :=
  ∃ X R, buf = X ++ line ++ R ∧ ds = blen X ∧ de = blen X + blen line ∧ '\n' ∉ line ∧ vm_Pre X ∧ vm_Suf R

theorem vm_Line.slice {buf : Text} {ds de : Nat} {line : Text} (h : vm_Line buf ds de line) :
    slice buf ds de = .ok line := by
  obtain ⟨X, R, rfl, rfl, rfl, _, _, _⟩ := h
  exact slice_mid X line R

theorem vm_Line.le {buf : Text} {ds de : Nat} {line : Text} (h : vm_Line buf ds de line) :
    de = ds + blen line := by
  obtain ⟨X, R, rfl, rfl, rfl, _, _, _⟩ := h
  rfl

theorem vm_Line.start_in {buf : Text} {ds de : Nat} {line a b : Text} (h : vm_Line buf ds de line)
    (hl : line = a ++ b) : lineStartOf buf (ds + blen a) = ds := by
  obtain ⟨X, R, hb, rfl, rfl, hn, hX, hR⟩ := h
  subst hl
  exact vm_lineStartOf_in (X := X) (a := a) (b := b ++ R) (by simp [hb]) rfl hX
    (fun hm => hn (by simp [hm]))

theorem vm_Line.end_in {buf : Text} {ds de : Nat} {line a b : Text} (h : vm_Line buf ds de line)
    (hl : line = a ++ b) : lineEndOf buf (ds + blen a) = de := by
  obtain ⟨X, R, hb, rfl, rfl, hn, hX, hR⟩ := h
  subst hl
  have := vm_lineEndOf_in (buf := buf) (Y := X ++ a) (b := b) (R := R) (p := blen X + blen a)
    (by rw [hb]; simp) (by simp) hR
    (fun hm => hn (by simp [hm]))
  rw [this]; simp; omega

theorem vm_Line.isLineStart {buf : Text} {ds de : Nat} {line : Text} (h : vm_Line buf ds de line) :
    IsLineStart buf ds := by
  obtain ⟨X, R, hb, rfl, rfl, hn, hX, hR⟩ := h
  rcases hX with rfl | ⟨u, rfl⟩
  · exact Or.inl rfl
  · exact Or.inr ⟨u, line ++ R, by simp [hb], by simp [utf8Size_newline]⟩

theorem vm_Line.isLineEnd {buf : Text} {ds de : Nat} {line : Text} (h : vm_Line buf ds de line) :
    IsLineEnd buf de := by
  obtain ⟨X, R, hb, rfl, rfl, hn, hX, hR⟩ := h
  rcases hR with rfl | ⟨q, rfl⟩
  · exact Or.inl (by simp [hb])
  · exact Or.inr ⟨X ++ line, q, by simp [hb], by simp⟩

/-- the line around a boundary: `x = X ++ v`, `s = m ++ R`, the line is `v ++ m` -/
theorem vm_line_at {buf x s : Text} (hb : buf = x ++ s) :
    ∃ X v m R, x = X ++ v ∧ s = m ++ R ∧ vm_Pre X ∧ vm_Suf R ∧ '\n' ∉ v ∧ '\n' ∉ m ∧
      vm_Line buf (blen X) (blen x + blen m) (v ++ m) ∧
      lineStartOf buf (blen x) = blen X ∧ lineEndOf buf (blen x) = blen x + blen m := by
  obtain ⟨X, v, rfl, hv, hX⟩ := vm_prefix_line x
  obtain ⟨m, R, rfl, hm, hR⟩ := vm_suffix_line s
  have hvm : '\n' ∉ v ++ m := by
    intro h; rcases List.mem_append.mp h with h | h
    · exact hv h
    · exact hm h
  have hL : vm_Line buf (blen X) (blen (X ++ v) + blen m) (v ++ m) :=
    ⟨X, R, by simp [hb], rfl, by simp; omega, hvm, hX, hR⟩
  refine ⟨X, v, m, R, rfl, rfl, hX, hR, hv, hm, hL, ?_, ?_⟩
  · have := hL.start_in (a := v) (b := m) rfl
    simpa using this
  · have := hL.end_in (a := v) (b := m) rfl
    simpa using this

theorem vm_line_of_start {buf : Text} {ds : Nat} (h : IsLineStart buf ds) :
    ∃ line, vm_Line buf ds (lineEndOf buf ds) line := by
  have hbd := h.boundary
  obtain ⟨x, s, hb, rfl⟩ := hbd
  obtain ⟨X, v, m, R, hx, hs, hX, hR, hv, hm, hL, h1, h2⟩ := vm_line_at hb
  -- a line start: nothing of the line lies in front of it
  have hv0 : blen X = blen x := by
    rw [← h1]
    rcases h with h0 | ⟨u, w, hb', hu⟩
    · have : x = [] := blen_eq_zero.mp h0
      subst this
      rw [vm_lineStartOf_eq (x := []) (s := s) hb rfl]; rfl
    · have hpre : vm_Pre (u ++ ['\n']) := Or.inr ⟨u, rfl⟩
      have := vm_lineStartOf_in (buf := buf) (X := u ++ ['\n']) (a := []) (b := w) (p := blen x)
        (by simp [hb']) (by simp [hu, utf8Size_newline]) hpre (by simp)
      rw [this]; simp [hu, utf8Size_newline]
  rw [h2]
  rw [hv0] at hL
  exact ⟨v ++ m, hL⟩

theorem vm_line_of_end {buf : Text} {de : Nat} (h : IsLineEnd buf de) :
    ∃ line, vm_Line buf (lineStartOf buf de) de line := by
  have hbd := h.boundary
  obtain ⟨x, s, hb, rfl⟩ := hbd
  obtain ⟨X, v, m, R, hx, hs, hX, hR, hv, hm, hL, h1, h2⟩ := vm_line_at hb
  have hm0 : blen m = 0 := by
    have : lineEndOf buf (blen x) = blen x := by
      rcases h with h0 | ⟨p, q, hb', hp⟩
      · have hs0 : s = [] := by
          have := congrArg blen hb
          simp only [blen_append] at this
          exact blen_eq_zero.mp (by omega)
        subst hs0
        rw [vm_lineEndOf_eq (x := x) (s := []) hb rfl]; simp [findChar, hb]
      · have := vm_lineEndOf_in (buf := buf) (Y := p) (b := []) (R := '\n' :: q) (p := blen x)
          (by simp [hb']) hp (Or.inr ⟨q, rfl⟩) (by simp)
        rw [this, hp]; simp
    omega
  rw [h1]
  rw [hm0] at hL
  exact ⟨v ++ m, hL⟩


theorem vm_Line.end_start {buf : Text} {ds de : Nat} {line : Text} (h : vm_Line buf ds de line) :
    lineEndOf buf ds = de := by
  have := h.end_in (a := []) (b := line) rfl
  simpa using this

theorem vm_Line.start_end {buf : Text} {ds de : Nat} {line : Text} (h : vm_Line buf ds de line) :
    lineStartOf buf de = ds := by
  have := h.start_in (a := line) (b := []) (by simp)
  rw [← h.le] at this
  exact this

/-- the line above a line break: it ends at the break -/
theorem vm_line_above {buf w rest : Text} (hb : buf = w ++ '\n' :: rest) :
    ∃ line, vm_Line buf (lineStartOf buf (blen w)) (blen w) line :=
  vm_line_of_end (Or.inr ⟨w, rest, hb, rfl⟩)

/-- the line below a line break: it starts just after the break -/
theorem vm_line_below {buf w rest : Text} (hb : buf = w ++ '\n' :: rest) :
    ∃ line, vm_Line buf (blen w + 1) (lineEndOf buf (blen w + 1)) line :=
  vm_line_of_start (Or.inr ⟨w, rest, hb, rfl⟩)

/-! ### G1: the model's walks are the declarative ones -/

theorem vm_upStart_zero (buf : Text) (k : Nat) : upStart buf k 0 = 0 := by
  cases k <;> simp [upStart]

theorem vm_downEnd_len (buf : Text) (k : Nat) : downEnd buf k (blen buf) = blen buf := by
  cases k <;> simp [downEnd]

/-- `for _ in 1..n` of `move_to_line_up`: from a line `[ds, de)`, `k` steps up reach the declarative
    destination line -/
theorem vm_luLoop_eq (buf : Text) (k ds de : Nat) (h1 : IsLineStart buf ds) (h2 : de = lineEndOf buf ds) :
    LB.luLoop buf k ds de = .ok (upStart buf k ds, lineEndOf buf (upStart buf k ds)) := by
  induction k generalizing ds de with
  | zero => subst h2; rfl
  | succ k ih =>
    by_cases h0 : ds = 0
    · subst h0
      rw [vm_upStart_zero, h2]
      simp [LB.luLoop]; rfl
    · rcases h1 with rfl | ⟨u, v, hb, hds⟩
      · exact absurd rfl h0
      · have hst : sliceTo buf (blen u) = .ok u := by
          rw [hb]; exact sliceTo_mid u _
        obtain ⟨line, hL⟩ := vm_line_above hb
        have hls := vm_lineStartOf_eq (buf := buf) (x := u) (s := '\n' :: v) (p := blen u) hb rfl
        have hup : upStart buf (k + 1) ds = upStart buf k (lineStartOf buf (blen u)) := by
          simp [upStart, hds]
        have hi := ih (lineStartOf buf (blen u)) (blen u) hL.isLineStart hL.end_start.symm
        have h0' : (ds == 0) = false := by simp [h0]
        have hd1 : ds - 1 = blen u := by omega
        rw [hup]
        unfold LB.luLoop
        simp only [h0', hd1, hst, bind, Except.bind, Bool.false_eq_true, if_false]
        rw [hls] at hi ⊢
        exact hi

/-- `for _ in 1..n` of `move_to_line_down` -/
theorem vm_ldLoop_eq (buf : Text) (k ds de : Nat) (h1 : IsLineEnd buf de) (h2 : ds = lineStartOf buf de) :
    LB.ldLoop buf k ds de = .ok (lineStartOf buf (downEnd buf k de), downEnd buf k de) := by
  induction k generalizing ds de with
  | zero => subst h2; rfl
  | succ k ih =>
    by_cases h0 : de = blen buf
    · subst h0
      rw [vm_downEnd_len, h2]
      simp [LB.ldLoop]; rfl
    · rcases h1 with rfl | ⟨p, q, hb, hde⟩
      · exact absurd rfl h0
      · have hsf : sliceFrom buf (de + 1) = .ok q := by
          rw [hb, hde]
          have := sliceFrom_mid (p ++ ['\n']) q
          simpa [utf8Size_newline] using this
        have hlt : ¬ de ≥ blen buf := by
          rw [hb, hde]; simp [utf8Size_newline]; omega
        obtain ⟨line, hL⟩ := vm_line_below hb
        rw [← hde] at hL
        have hle := vm_lineEndOf_eq (buf := buf) (x := p ++ ['\n']) (s := q) (p := de + 1)
          (by simp [hb]) (by simp [hde, utf8Size_newline])
        have hdn : downEnd buf (k + 1) de = downEnd buf k (lineEndOf buf (de + 1)) := by
          simp [downEnd, hlt]
        have hi := ih (de + 1) (lineEndOf buf (de + 1)) hL.isLineEnd hL.start_end.symm
        have h0' : (de == blen buf) = false := by simp [h0]
        rw [hdn]
        unfold LB.ldLoop
        simp only [h0', hsf, bind, Except.bind, Bool.false_eq_true, if_false]
        rw [hle] at hi ⊢
        exact hi

theorem vm_upStart_isLineStart (buf : Text) (k ds : Nat) (h : IsLineStart buf ds) :
    IsLineStart buf (upStart buf k ds) := by
  induction k generalizing ds with
  | zero => exact h
  | succ k ih =>
    rcases h with rfl | ⟨u, v, hb, hds⟩
    · rw [vm_upStart_zero]; exact Or.inl rfl
    · obtain ⟨line, hL⟩ := vm_line_above hb
      have : upStart buf (k + 1) ds = upStart buf k (lineStartOf buf (blen u)) := by
        simp [upStart, hds]
      rw [this]
      exact ih _ hL.isLineStart

theorem vm_downEnd_isLineEnd (buf : Text) (k de : Nat) (h : IsLineEnd buf de) :
    IsLineEnd buf (downEnd buf k de) ∧ lineStartOf buf de ≤ lineStartOf buf (downEnd buf k de) := by
  induction k generalizing de with
  | zero => exact ⟨h, Nat.le_refl _⟩
  | succ k ih =>
    rcases h with rfl | ⟨p, q, hb, hde⟩
    · rw [vm_downEnd_len]; exact ⟨Or.inl rfl, Nat.le_refl _⟩
    · have hlt : ¬ de ≥ blen buf := by
        rw [hb, hde]; simp [utf8Size_newline]; omega
      obtain ⟨line, hL⟩ := vm_line_below hb
      rw [← hde] at hL
      have : downEnd buf (k + 1) de = downEnd buf k (lineEndOf buf (de + 1)) := by
        simp [downEnd, hlt]
      rw [this]
      obtain ⟨i1, i2⟩ := ih _ hL.isLineEnd
      refine ⟨i1, ?_⟩
      rw [hL.start_end] at i2
      have hle : lineStartOf buf de ≤ de := by
        obtain ⟨l0, hL0⟩ := vm_line_of_end (buf := buf) (de := de) (Or.inr ⟨p, q, hb, hde⟩)
        have := hL0.le; omega
      omega


/-! ### G2: where the model lands -/

theorem vm_gidxGo_getElem? (o c : Nat) (gs : List Text) :
    (gidxGo o gs)[c]? = (gs[c]?).map (fun g => (o + offOf gs c, g)) := by
  induction gs generalizing o c with
  | nil => simp [gidxGo]
  | cons g gs ih =>
    cases c with
    | zero => simp [gidxGo, offOf]
    | succ c =>
      simp only [gidxGo, List.getElem?_cons_succ, ih, offOf_cons_succ]
      cases gs[c]? with
      | none => rfl
      | some g' => simp; omega

theorem vm_gidx_none {S : Segmenter} {line : Text} {c : Nat} (h : (gidx S line)[c]? = none) :
    (S.seg line).length ≤ c := by
  rw [gidx, vm_gidxGo_getElem?] at h
  cases hg : (S.seg line)[c]? with
  | none => exact List.getElem?_eq_none_iff.mp hg
  | some g => simp [hg] at h

theorem vm_gidx_some {S : Segmenter} {line : Text} {c idx : Nat} {g : Text}
    (h : (gidx S line)[c]? = some (idx, g)) : c < (S.seg line).length ∧ idx = offOf (S.seg line) c := by
  rw [gidx, vm_gidxGo_getElem?] at h
  cases hg : (S.seg line)[c]? with
  | none => simp [hg] at h
  | some g' =>
    simp [hg] at h
    have : c < (S.seg line).length := by
      apply Classical.byContradiction; intro hc
      have := List.getElem?_eq_none_iff.mpr (Nat.le_of_not_lt hc)
      rw [this] at hg; cases hg
    exact ⟨this, by omega⟩

theorem vm_offOf_length (S : Segmenter) (line : Text) : offOf (S.seg line) (S.seg line).length = blen line := by
  simp [offOf, S.flatten_eq]

theorem vm_offOf_le (S : Segmenter) (line : Text) (k : Nat) : offOf (S.seg line) k ≤ blen line := by
  have h := S.flatten_eq line
  have : blen line = blen ((S.seg line).take k).flatten + blen ((S.seg line).drop k).flatten := by
    rw [← blen_append, ← List.flatten_append, List.take_append_drop, h]
  unfold offOf; omega

/-! #### the landing rule of the repaired code (D36): first cluster boundary at or right of the column -/

/-- first `k` in `[j, j + f)` with `P k`, else `j + f` -/
def vm_landFrom (P : Nat → Bool) : Nat → Nat → Nat
  | 0, k => k
  | f + 1, k => if P k then k else vm_landFrom P f (k + 1)

/-- index of the cluster boundary the model lands on: the first `k < |gs|` whose prefix of `k` clusters
    is at least `w` columns wide, else `|gs|` (the line end) -/
def vm_landK (U : UData) (gs : List Text) (w : Nat) : Nat :=
  vm_landFrom (fun k => decide (U.width (gs.take k).flatten ≥ w)) gs.length 0

theorem vm_landFrom_bounds (P : Nat → Bool) (f j : Nat) : j ≤ vm_landFrom P f j ∧ vm_landFrom P f j ≤ j + f := by
  induction f generalizing j with
  | zero => simp [vm_landFrom]
  | succ f ih =>
    unfold vm_landFrom
    split
    · omega
    · have := ih (j + 1); omega

theorem vm_landK_le (U : UData) (gs : List Text) (w : Nat) : vm_landK U gs w ≤ gs.length := by
  have := (vm_landFrom_bounds (fun k => decide (U.width (gs.take k).flatten ≥ w)) gs.length 0).2
  unfold vm_landK; omega

theorem vm_find_range' (P : Nat → Bool) (m j : Nat) :
    ((List.range' j m).find? P).getD (j + m) = vm_landFrom P m j := by
  induction m generalizing j with
  | zero => simp [vm_landFrom]
  | succ m ih =>
    rw [List.range'_succ, List.find?_cons]
    unfold vm_landFrom
    cases hP : P j with
    | true => simp
    | false =>
      simp only [Bool.false_eq_true, if_false]
      have := ih (j + 1)
      rw [show j + 1 + m = j + (m + 1) by omega] at this
      exact this

theorem vm_offOf_succ (gs : List Text) (j : Nat) (hj : j < gs.length) :
    offOf gs (j + 1) = offOf gs j + blen gs[j] := by
  unfold offOf
  rw [List.take_succ_eq_append_getElem hj, List.flatten_append, blen_append]
  simp

theorem vm_colFind_go (U : UData) (line : Text) (w : Nat) (all : List Text) (hl : line = all.flatten) :
    ∀ (f j : Nat), j + f = all.length →
      LB.colFind U line w (gidxGo (offOf all j) (all.drop j)) =
        .ok (if vm_landFrom (fun k => decide (U.width (all.take k).flatten ≥ w)) f j < all.length
             then some (offOf all (vm_landFrom (fun k => decide (U.width (all.take k).flatten ≥ w)) f j))
             else none) := by
  intro f
  induction f with
  | zero =>
    intro j hj
    have : all.drop j = [] := List.drop_eq_nil_of_le (by omega)
    rw [this]
    have hj' : ¬ j < all.length := by omega
    simp [gidxGo, LB.colFind, vm_landFrom, pure, Except.pure, hj']
  | succ f ih =>
    intro j hj
    have hjl : j < all.length := by omega
    rw [List.drop_eq_getElem_cons hjl]
    simp only [gidxGo]
    have hpre : sliceTo line (offOf all j) = .ok (all.take j).flatten := by
      have e : line = (all.take j).flatten ++ (all.drop j).flatten := by
        rw [← List.flatten_append, List.take_append_drop, hl]
      conv => lhs; rw [e]
      exact sliceTo_mid _ _
    unfold LB.colFind vm_landFrom
    simp only [hpre, bind, Except.bind]
    by_cases hc : U.width (all.take j).flatten ≥ w
    · simp [hc, hjl, pure, Except.pure]
    · have := ih (j + 1) (by omega)
      rw [vm_offOf_succ all j hjl] at this
      simp only [hc, decide_false, Bool.false_eq_true, if_false]
      exact this

/-- `colFind` on the cluster list of a line: the first cluster boundary (before the end) at or right of `w` -/
theorem vm_colFind (S : Segmenter) (U : UData) (line : Text) (w : Nat) :
    LB.colFind U line w (gidx S line) =
      .ok (if vm_landK U (S.seg line) w < (S.seg line).length then some (offOf (S.seg line) (vm_landK U (S.seg line) w))
           else none) := by
  have := vm_colFind_go U line w (S.seg line) (S.flatten_eq line).symm (S.seg line).length 0 (by omega)
  simpa [gidx, offOf, vm_landK] using this

/-- `move_to_line_up` evaluated on a well-formed state -/
theorem vm_moveToLineUp_eval (S : Segmenter) (U : UData) (n pc : Nat) (lb : LB) (h : WF lb) (hn : n ≠ 0) :
    (lineStartOf lb.buf lb.pos = 0 ∧ LB.moveToLineUp S U n pc lb = .ok (false, lb, [])) ∨
    (lineStartOf lb.buf lb.pos ≠ 0 ∧ ∃ ds de line cur,
      ds = upStart lb.buf n (lineStartOf lb.buf lb.pos) ∧ vm_Line lb.buf ds de line ∧
      slice lb.buf (lineStartOf lb.buf lb.pos) lb.pos = .ok cur ∧
      LB.moveToLineUp S U n pc lb = .ok (true,
        { lb with pos := (ds + offOf (S.seg line)
            (vm_landK U (S.seg line) (U.width cur - (if ds = 0 then pc else 0)))) }, [])) := by
  obtain ⟨x, s, hb, hp⟩ := h.split
  obtain ⟨X, v, m, R, hx, hs, hX, hR, hv, hm, hL, h1, h2⟩ := vm_line_at hb
  rw [← hp] at h1 h2
  have hst : sliceTo lb.buf lb.pos = .ok x := by rw [hb, hp]; exact sliceTo_mid x s
  rcases hX with rfl | ⟨w, rfl⟩
  · left
    have hf : rfindChar '\n' x = none := by rw [hx]; exact vm_rfindChar_none (by simpa using hv)
    refine ⟨by simpa using h1, ?_⟩
    unfold LB.moveToLineUp
    simp [LM.bind_apply, LM.get, LM.lift, hst, hf]
  · right
    have hf : rfindChar '\n' x = some (blen w) := by
      rw [hx, vm_rfindChar_append _ hv, vm_rfindChar_snoc]
    have hls1 : lineStartOf lb.buf lb.pos = blen w + 1 := by
      rw [h1]; simp [utf8Size_newline]
    have hbuf : lb.buf = w ++ '\n' :: (v ++ s) := by rw [hb, hx]; simp
    have hcur : slice lb.buf (blen w + 1) lb.pos = .ok v := by
      have := slice_mid (w ++ ['\n']) v s
      rw [hb, hp, hx]
      simpa [utf8Size_newline, Nat.add_assoc] using this
    have hpre2 : sliceTo lb.buf (blen w) = .ok w := by rw [hbuf]; exact sliceTo_mid w _
    obtain ⟨l0, hL0⟩ := vm_line_above hbuf
    have hlu := vm_luLoop_eq lb.buf (n - 1) (lineStartOf lb.buf (blen w)) (blen w) hL0.isLineStart
      hL0.end_start.symm
    have hls := vm_lineStartOf_eq (buf := lb.buf) (x := w) (s := '\n' :: (v ++ s)) (p := blen w) hbuf rfl
    have hup : upStart lb.buf n (blen w + 1) = upStart lb.buf (n - 1) (lineStartOf lb.buf (blen w)) := by
      obtain ⟨j, rfl⟩ : ∃ j, n = j + 1 := ⟨n - 1, by omega⟩
      simp [upStart]
    have hstart := vm_upStart_isLineStart lb.buf (n - 1) _ hL0.isLineStart
    rw [← hup] at hlu hstart
    generalize hdsdef : upStart lb.buf n (blen w + 1) = ds at hlu hstart
    obtain ⟨line, hLd⟩ := vm_line_of_start hstart
    have hline := hLd.slice
    rw [hls1]
    refine ⟨by omega, ds, lineEndOf lb.buf ds, line, v, hdsdef.symm, hLd, hcur, ?_⟩
    have hfin : ∀ ds0, lineStartOf lb.buf (blen w) = ds0 →
        (match rfindChar '\n' w with | some k => k + 1 | none => 0) = ds0 := by
      intro ds0 h0; rw [← h0, hls]
    have hcf := vm_colFind S U line (U.width v - (if ds = 0 then pc else 0))
    have hkle := vm_landK_le U (S.seg line) (U.width v - (if ds = 0 then pc else 0))
    by_cases hlt : vm_landK U (S.seg line) (U.width v - (if ds = 0 then pc else 0)) < (S.seg line).length
    · rw [if_pos hlt] at hcf
      unfold LB.moveToLineUp
      cases hf2 : rfindChar '\n' w with
      | none =>
        rw [hf2] at hls; rw [hls] at hlu
        simp [LM.bind_apply, LM.get, LM.lift, hst, hf, hcur, hpre2, hf2, hlu, hline, hcf, LM.setPos]
      | some k =>
        rw [hf2] at hls; rw [hls] at hlu
        simp [LM.bind_apply, LM.get, LM.lift, hst, hf, hcur, hpre2, hf2, hlu, hline, hcf, LM.setPos]
    · rw [if_neg hlt] at hcf
      have hkeq : vm_landK U (S.seg line) (U.width v - (if ds = 0 then pc else 0)) = (S.seg line).length := by omega
      have hpos : ds + offOf (S.seg line) (vm_landK U (S.seg line) (U.width v - (if ds = 0 then pc else 0)))
          = lineEndOf lb.buf ds := by
        rw [hkeq, vm_offOf_length, hLd.le]
      rw [hpos]
      unfold LB.moveToLineUp
      cases hf2 : rfindChar '\n' w with
      | none =>
        rw [hf2] at hls; rw [hls] at hlu
        simp [LM.bind_apply, LM.get, LM.lift, hst, hf, hcur, hpre2, hf2, hlu, hline, hcf, LM.setPos]
      | some k =>
        rw [hf2] at hls; rw [hls] at hlu
        simp [LM.bind_apply, LM.get, LM.lift, hst, hf, hcur, hpre2, hf2, hlu, hline, hcf, LM.setPos]


/-- `move_to_line_down` evaluated on a well-formed state -/
theorem vm_moveToLineDown_eval (S : Segmenter) (U : UData) (n pc : Nat) (lb : LB) (h : WF lb) (hn : n ≠ 0) :
    (lineEndOf lb.buf lb.pos ≥ blen lb.buf ∧ LB.moveToLineDown S U n pc lb = .ok (false, lb, [])) ∨
    (lineEndOf lb.buf lb.pos < blen lb.buf ∧ ∃ ds de line cur,
      de = downEnd lb.buf n (lineEndOf lb.buf lb.pos) ∧ ds ≠ 0 ∧ vm_Line lb.buf ds de line ∧
      slice lb.buf (lineStartOf lb.buf lb.pos) lb.pos = .ok cur ∧
      LB.moveToLineDown S U n pc lb = .ok (true,
        { lb with pos := (ds + offOf (S.seg line)
            (vm_landK U (S.seg line) (U.width cur + (if lineStartOf lb.buf lb.pos = 0 then pc else 0)))) },
        [])) := by
  obtain ⟨x, s, hb, hp⟩ := h.split
  obtain ⟨X, v, m, R, hx, hs, hX, hR, hv, hm, hL, h1, h2⟩ := vm_line_at hb
  rw [← hp] at h1 h2
  have hst : sliceTo lb.buf lb.pos = .ok x := by rw [hb, hp]; exact sliceTo_mid x s
  have hsf : sliceFrom lb.buf lb.pos = .ok s := by rw [hb, hp]; exact sliceFrom_mid x s
  rcases hR with rfl | ⟨q, rfl⟩
  · left
    have hf : findChar '\n' s = none := by rw [hs]; exact vm_findChar_none (by simpa using hm)
    refine ⟨?_, ?_⟩
    · rw [h2, hb, hs, hp]; simp
    · unfold LB.moveToLineDown
      simp [LM.bind_apply, LM.get, LM.lift, hsf, hf]
  · right
    have hf : findChar '\n' s = some (blen m) := by
      rw [hs, vm_findChar_append _ hm]; simp [findChar]
    have hbuf : lb.buf = (x ++ m) ++ '\n' :: q := by rw [hb, hs]; simp
    have hlt : lineEndOf lb.buf lb.pos < blen lb.buf := by
      rw [h2, hbuf, hp]; simp [utf8Size_newline]; omega
    have hcur : slice lb.buf (lineStartOf lb.buf lb.pos) lb.pos = .ok v := by
      have := slice_mid X v s
      rw [h1, hb, hp, hx]
      simpa using this
    have hw1 : blen (x ++ m) + 1 = lb.pos + blen m + 1 := by rw [hp]; simp
    have hs2 : sliceFrom lb.buf (lb.pos + blen m + 1) = .ok q := by
      have := sliceFrom_mid (x ++ m ++ ['\n']) q
      rw [hbuf, ← hw1]
      simpa [utf8Size_newline, Nat.add_assoc] using this
    obtain ⟨l0, hL0⟩ := vm_line_below hbuf
    rw [hw1] at hL0
    have hld := vm_ldLoop_eq lb.buf (n - 1) (lb.pos + blen m + 1) (lineEndOf lb.buf (lb.pos + blen m + 1))
      hL0.isLineEnd hL0.start_end.symm
    have hdn : downEnd lb.buf n (lineEndOf lb.buf lb.pos) =
        downEnd lb.buf (n - 1) (lineEndOf lb.buf (lb.pos + blen m + 1)) := by
      obtain ⟨j, rfl⟩ : ∃ j, n = j + 1 := ⟨n - 1, by omega⟩
      have : ¬ blen lb.buf ≤ lb.pos + blen m := by omega
      simp [downEnd, this, h2]
    obtain ⟨hend, hge⟩ := vm_downEnd_isLineEnd lb.buf (n - 1) _ hL0.isLineEnd
    rw [hL0.start_end] at hge
    rw [← hdn] at hld hend hge
    generalize hdedef : downEnd lb.buf n (lineEndOf lb.buf lb.pos) = de at hld hend hge
    obtain ⟨line, hLd⟩ := vm_line_of_end hend
    have hline := hLd.slice
    generalize hdsdef : lineStartOf lb.buf de = ds at hld hge hLd hline
    have hlsx := vm_lineStartOf_eq (buf := lb.buf) (x := x) (s := s) (p := lb.pos) hb hp
    have hlex := vm_lineEndOf_eq (buf := lb.buf) (x := x ++ m ++ ['\n']) (s := q) (p := lb.pos + blen m + 1)
      (by rw [hbuf]; simp) (by rw [← hw1]; simp [utf8Size_newline]; omega)
    have hxc : (rfindChar '\n' x = none ∧ lineStartOf lb.buf lb.pos = 0) ∨
        ∃ k, rfindChar '\n' x = some k ∧ lineStartOf lb.buf lb.pos = k + 1 := by
      cases hfx : rfindChar '\n' x with
      | none => left; rw [hfx] at hlsx; exact ⟨rfl, hlsx⟩
      | some k => right; rw [hfx] at hlsx; exact ⟨k, rfl, hlsx⟩
    have hqc : (findChar '\n' q = none ∧ lineEndOf lb.buf (lb.pos + blen m + 1) = blen lb.buf) ∨
        ∃ t, findChar '\n' q = some t ∧
          lineEndOf lb.buf (lb.pos + blen m + 1) = lb.pos + blen m + 1 + t := by
      cases hfq : findChar '\n' q with
      | none => left; rw [hfq] at hlex; exact ⟨rfl, hlex⟩
      | some t => right; rw [hfq] at hlex; exact ⟨t, rfl, hlex⟩
    have hlen : lb.len = blen lb.buf := rfl
    refine ⟨hlt, ds, de, line, v, rfl, by omega, hLd, hcur, ?_⟩
    generalize hcol : U.width v + (if lineStartOf lb.buf lb.pos = 0 then pc else 0) = col
    have hcf := vm_colFind S U line col
    have hkle := vm_landK_le U (S.seg line) col
    by_cases hlt' : vm_landK U (S.seg line) col < (S.seg line).length
    · rw [if_pos hlt'] at hcf
      unfold LB.moveToLineDown
      rcases hxc with ⟨hfx, hls0⟩ | ⟨k, hfx, hls0⟩ <;> rcases hqc with ⟨hfq, hle0⟩ | ⟨t, hfq, hle0⟩ <;>
        (rw [hls0] at hcur hcol; rw [hle0] at hld; simp at hcol; subst hcol
         simp [LM.bind_apply, LM.get, LM.lift, hst, hsf, hf, hfx, hcur, hs2, hlen, hfq, hld, hline, hcf,
           LM.setPos])
    · rw [if_neg hlt'] at hcf
      have hkeq : vm_landK U (S.seg line) col = (S.seg line).length := by omega
      rw [hkeq, vm_offOf_length, ← hLd.le]
      unfold LB.moveToLineDown
      rcases hxc with ⟨hfx, hls0⟩ | ⟨k, hfx, hls0⟩ <;> rcases hqc with ⟨hfq, hle0⟩ | ⟨t, hfq, hle0⟩ <;>
        (rw [hls0] at hcur hcol; rw [hle0] at hld; simp at hcol; subst hcol
         simp [LM.bind_apply, LM.get, LM.lift, hst, hsf, hf, hfx, hcur, hs2, hlen, hfq, hld, hline, hcf,
           LM.setPos])


/-! ### G3: display columns inside the destination line -/

theorem vm_Line.slice_in {buf : Text} {ds de : Nat} {line a b : Text} (h : vm_Line buf ds de line)
    (hl : line = a ++ b) : Rl.slice buf ds (ds + blen a) = .ok a := by
  obtain ⟨X, R, hb, rfl, rfl, hn, hX, hR⟩ := h
  subst hl
  have := slice_mid X a (b ++ R)
  rw [hb]
  simpa using this

/-- display column of the `k`-th cluster boundary of a line: the width of the first `k` clusters, plus the
    prompt on the first line -/
theorem vm_displayCol_in (S : Segmenter) (U : UData) {buf : Text} {ds de : Nat} {line : Text} (pc k : Nat)
    (hL : vm_Line buf ds de line) :
    displayCol U buf (ds + offOf (S.seg line) k) pc =
      U.width ((S.seg line).take k).flatten + (if ds = 0 then pc else 0) := by
  have hl : line = ((S.seg line).take k).flatten ++ ((S.seg line).drop k).flatten := by
    rw [← List.flatten_append, List.take_append_drop, S.flatten_eq]
  have h1 := hL.start_in hl
  have h2 := hL.slice_in hl
  unfold displayCol offOf
  simp only [h1, h2]

/-- the declarative landing position is the model's: cluster boundary number `vm_landK` -/
theorem vm_target (S : Segmenter) (U : UData) {buf : Text} {ds de : Nat} {line : Text} (pc c : Nat)
    (hL : vm_Line buf ds de line) :
    verticalTarget S U buf ds de line pc c =
      ds + offOf (S.seg line) (vm_landK U (S.seg line) (c - (if ds = 0 then pc else 0))) := by
  generalize hoff : (if ds = 0 then pc else 0) = off
  generalize hgs : S.seg line = gs
  have hcol : ∀ k, displayCol U buf (ds + offOf gs k) pc = U.width (gs.take k).flatten + off := by
    intro k; rw [← hgs, ← hoff]; exact vm_displayCol_in S U pc k hL
  have hde : ds + offOf gs gs.length = de := by rw [← hgs, vm_offOf_length, hL.le]
  -- the predicate of the spec on boundary number `k` is the predicate of the model on `k`
  have hPQ : ∀ k, decide (displayCol U buf (ds + offOf gs k) pc ≥ c) = decide (U.width (gs.take k).flatten ≥ c - off) := by
    intro k; rw [hcol k]; apply decide_eq_decide.mpr; omega
  unfold verticalTarget bounds
  rw [hgs, List.range_succ, List.map_append, List.find?_append, List.find?_map]
  have hcongr : (List.range gs.length).find? ((fun q => decide (displayCol U buf q pc ≥ c)) ∘ fun k => ds + offOf gs k) =
      (List.range gs.length).find? (fun k => decide (U.width (gs.take k).flatten ≥ c - off)) := by
    have : ((fun q => decide (displayCol U buf q pc ≥ c)) ∘ fun k => ds + offOf gs k) =
        (fun k => decide (U.width (gs.take k).flatten ≥ c - off)) := funext hPQ
    rw [this]
  rw [hcongr]
  have hr := vm_find_range' (fun k => decide (U.width (gs.take k).flatten ≥ c - off)) gs.length 0
  rw [← List.range_eq_range', Nat.zero_add] at hr
  cases hfind : (List.range gs.length).find? (fun k => decide (U.width (gs.take k).flatten ≥ c - off)) with
  | some k =>
    rw [hfind] at hr
    simp only [Option.getD_some] at hr
    simp only [Option.map, Option.or, Option.getD]
    rw [hr]; rfl
  | none =>
    rw [hfind] at hr
    simp only [Option.getD_none] at hr
    have hk : vm_landK U gs (c - off) = gs.length := hr.symm
    rw [hk, hde]
    simp only [Option.map_none, Option.none_or, List.map_cons, List.map_nil, List.find?_cons, List.find?_nil]
    rw [hde]
    split <;> rfl

/-- the landing rule of the repaired code satisfies the column check -/
theorem vm_check (S : Segmenter) (U : UData) (lb : LB) (n : Nat) (up : Bool) (pc ds de : Nat) (line : Text)
    (c k : Nat) (hn : n ≠ 0) (hvd : verticalDest lb.buf lb.pos n up = some (ds, de))
    (hL : vm_Line lb.buf ds de line)
    (hc : displayCol U lb.buf lb.pos pc = c)
    (hk : k = vm_landK U (S.seg line) (c - (if ds = 0 then pc else 0))) :
    checkVerticalCol S U lb n up pc (ds + offOf (S.seg line) k) = none := by
  have hn' : (n == 0) = false := by simp [hn]
  have ht := vm_target S U pc c hL
  unfold checkVerticalCol
  simp only [hn', hvd, hL.slice, hc, ht, hk, Bool.false_eq_true, if_false]
  simp

end Rl

