/-
  C06: `killing = false` between two commands — every `LineBuffer::kill` closes the bracket it opens.
-/
import Rl.Lemmas.EditorKillAcc
namespace Rl
open EM LM

theorem wrapK_shape {m : LM Bool} {lb lb' : LB} {r : Bool} {ns : List Notif}
    (h : wrapK m lb = .ok (r, lb', ns)) : ∃ mid, ns = .startKill :: (mid ++ [.stopKill]) := by
  unfold wrapK at h
  cases hm' : m lb with
  | error e => simp [LM.bind_apply, LM.notify, hm'] at h
  | ok v =>
    obtain ⟨r0, lb1, n1⟩ := v
    simp [LM.bind_apply, LM.notify, hm'] at h
    obtain ⟨rfl, rfl, rfl⟩ := h
    exact ⟨n1, by simp⟩

theorem foldl_accNotif_dels (ns : List Notif) (hd : ∀ x ∈ ns, ∃ i s d, x = .del i s d) (st : Bool × Text)
    (hst : st.1 = false) : ns.foldl accNotif st = st := by
  induction ns with
  | nil => rfl
  | cons x ns ih =>
    obtain ⟨i, s, d, rfl⟩ := hd _ (List.mem_cons_self ..)
    rw [List.foldl_cons]
    have : accNotif st (.del i s d) = st := by simp [accNotif, hst]
    rw [this]
    exact ih (fun y hy => hd y (List.mem_cons_of_mem _ hy))

theorem foldl_accNotif_bracket (mid : List Notif) (st : Bool × Text) :
    ((Notif.startKill :: (mid ++ [.stopKill])).foldl accNotif st).1 = false := by
  rw [List.foldl_cons, List.foldl_append]
  rfl

/-- every `LineBuffer::kill` leaves the listener's killing flag down if it was down -/
theorem kill_notifs_flag (S : Segmenter) (U : UData) (m : Movement) (lb lb' : LB) (r : Bool) (ns : List Notif)
    (h : LB.kill S U m lb = .ok (r, lb', ns)) (st : Bool × Text) (hst : st.1 = false) :
    (ns.foldl accNotif st).1 = false := by
  have br : ∀ X : LM Bool, LB.kill S U m = wrapK X → (ns.foldl accNotif st).1 = false := by
    intro X e
    rw [e] at h
    obtain ⟨mid, rfl⟩ := wrapK_shape h
    exact foldl_accNotif_bracket mid st
  cases m with
  | forwardChar n => rw [foldl_accNotif_dels ns (LB.kill_forwardChar_notifs S U n lb lb' r ns h) st hst]; exact hst
  | backwardChar n => rw [foldl_accNotif_dels ns (LB.kill_backwardChar_notifs S U n lb lb' r ns h) st hst]; exact hst
  | endOfLine => exact br (LB.killLine S U) rfl
  | beginningOfLine => exact br (LB.discardLine S U) rfl
  | backwardWord n d => exact br (LB.deletePrevWord S U d n) rfl
  | forwardWord n a d => exact br (LB.deleteWord S U a d n) rfl
  | viCharSearch n cs => exact br (LB.deleteTo S U cs n) rfl
  | endOfBuffer => exact br (LB.killBuffer S U) rfl
  | beginningOfBuffer => exact br (LB.discardBuffer S U) rfl
  | wholeBuffer => exact br _ (kill_wholeBuffer_eq S U)
  | wholeLine => exact br _ (kill_wholeLine_eq S U)
  | lineUp k => exact br _ (kill_lineUp_eq S U k)
  | lineDown k => exact br _ (kill_lineDown_eq S U k)
  | viFirstPrint => exact br _ (kill_viFirstPrint_eq S U)

section
variable (S : Segmenter) (U : UData) (cfg : EdCfg)

/-- the ring is ready for a command: within its invariant, capacity > 0, not in the middle of a kill notification -/
def RingReady (s : Ed) : Prop := KillRing.WF s.ring ∧ 0 < s.ring.cap ∧ s.ring.killing = false

/-- a kill command (any movement) or a command that is inert for the ring -/
def Cmd.killOrInert : Cmd → Bool
  | .kill _ => true
  | c => c.ringInert

theorem wp_execute_kill_ready (m : Movement) (s : Ed) (h : RingReady s) :
    wp (execute S U cfg (.kill m)) (fun _ s' => RingReady s') (fun _ s' => RingReady s') s := by
  refine wp_execute_kill S U cfg m s (fun _ k => KillRing.WF k ∧ 0 < k.cap ∧ k.killing = false) h
    (fun r l ns k ho hgo => ?_)
  obtain ⟨k', hgo', hw', hc', ha⟩ := lbKill_go_acc ns h.1 h.2.1
  rw [hgo] at hgo'; cases hgo'
  refine ⟨hw', by have := h.2.1; omega, ?_⟩
  have := kill_notifs_flag S U m s.line l r ns ho (s.ring.killing, KillRing.accOf s.ring) h.2.2
  rw [← ha] at this; exact this

theorem wp_cmdStep_ready (c : Cmd) (hc : c.killOrInert = true) (s : Ed) (h : RingReady s) :
    wp (cmdStep S U cfg c) (fun _ s' => RingReady s') (fun _ s' => RingReady s') s := by
  have hreset : RingReady { s with ring := s.ring.reset } := ⟨KillRing.wf_reset h.1, h.2.1, h.2.2⟩
  by_cases hi : c.ringInert = true
  · have key : ∀ s' : Ed, SameStore s.ring s'.ring → RingReady s' := by
      intro s' hs
      rcases hs with e | e
      · exact ⟨e ▸ h.1, e ▸ h.2.1, e ▸ h.2.2⟩
      · exact ⟨e ▸ hreset.1, e ▸ hreset.2.1, e ▸ hreset.2.2⟩
    exact wp_mono (wp_cmdStep_inert S U cfg c hi s h.2.2) (fun _ s' hs => key s' hs) (fun _ s' hs => key s' hs)
  · cases c with
    | kill m =>
      unfold cmdStep
      cases hr : (Cmd.kill m).shouldResetKillRing with
      | false =>
        show wp (execute S U cfg (.kill m)) _ _ s
        exact wp_execute_kill_ready S U cfg m s h
      | true =>
        show wp (do modify (fun s => { s with ring := s.ring.reset }); execute S U cfg (.kill m)) _ _ s
        rw [wp_bind, wp_modify]
        exact wp_execute_kill_ready S U cfg m _ hreset
    | _ => simp_all [Cmd.killOrInert]

/-- **`RingReady` is an invariant of every run of kill commands, character deletions and ring-inert commands** -/
theorem wp_cmdSteps_ready : ∀ (cs : List Cmd) (s : Ed), (∀ c ∈ cs, c.killOrInert = true) → RingReady s →
    wp (cmdSteps S U cfg cs) (fun _ s' => RingReady s') (fun _ s' => RingReady s') s := by
  intro cs
  induction cs with
  | nil => intro s _ h; show wp (pure ()) _ _ s; rw [wp_pure]; exact h
  | cons c cs ih =>
    intro s hall h
    show wp (do let _ ← cmdStep S U cfg c; cmdSteps S U cfg cs) _ _ s
    rw [wp_bind]
    refine wp_mono (wp_cmdStep_ready S U cfg c (hall c (List.mem_cons_self ..)) s h) ?_ (fun _ _ h => h)
    intro _ s1 h1
    exact ih s1 (fun x hx => hall x (List.mem_cons_of_mem _ hx)) h1

end
end Rl
