/-
  The undo-log invariant through the sub-loops (completion, incremental search), mode-generic — so also
  in vi mode, where a key that leaves insert mode inside a sub-loop pops the sub-loop's `Begin`
  (finding D49).  Part 2: the loop invariants.
    search:      the bottom `mark` entries replay some text to a PREFIX of the backed-up line (`BotGood`);
    completion:  above the sub-loop's `Begin` lies an entry that is not a `Begin` (`AboveNB`), so `end()`
                 never finds that `Begin` on top and nothing below it is ever touched.
-/
import Rl.Lemmas.EditorLogVi
import Rl.Lemmas.UndoBottom
namespace Rl
open EM

/-! ### the list-level invariants are kept by the group markers -/

theorem markerClosed_botGood (bk : Text) (m : Nat) : MarkerClosed (fun c => BotGood bk m c.undos) where
  begin := fun c h => (botGood_marker (x := .begin) rfl c.undos).mpr h
  end_ := fun c h => botGood_endLoop c.level c.undos false h

/-- cutting back to the mark (as the abort paths do) leaves a log that replays like the bottom part -/
theorem truncateClosed_replay (c : Changeset) (m : Nat) (t0 t : Text)
    (h : replayLog (c.undos.drop (c.undos.length - m)).reverse t0 = some t) :
    replayLog (c.truncateClosed m).undos.reverse t0 = some t := by
  unfold Changeset.truncateClosed
  split
  · exact (C05_log_markers (c.truncate m) t0 t h).2
  · exact h

theorem markerClosed_aboveNB (base : List Change) : MarkerClosed (fun c => AboveNB base c.undos) where
  begin := fun c ⟨above, hu, x, hx, hne⟩ =>
    ⟨.begin :: above, by show Change.begin :: c.undos = _; rw [hu]; rfl, x, List.mem_cons_of_mem _ hx, hne⟩
  end_ := fun c ⟨above, hu, h⟩ => by
    show AboveNB base (Changeset.endLoop c.level c.undos false).1
    rw [hu]; exact aboveNB_endLoop _ _ _ h

/-! ### the incremental search, both modes -/

section
variable (S : Segmenter) (U : UData) (cfg : EdCfg)

/-- `update` on a growable line: it panics (position past the end) or reports `updNotifs` -/
theorem wp_lb_update_top {b : Text} {p : Nat} {s : Ed} {Q : Unit → Ed → Prop}
    (hc : s.line.canGrow = true)
    (hq : Q () { s with line := s.line.updated b p,
                        changes := s.changes.onNotifs S U.alnum (updNotifs s.line.buf b) }) :
    wp (lb S U (LB.update S U b p)) Q (fun _ _ => True) s := by
  by_cases hp : p ≤ blen b
  · exact wp_lb_update S U hc hp hq
  · refine wp_lb_any S U (fun a l ns ho => ?_) trivial
    exfalso
    simp [LB.update, hp, LM.bind_apply, LM.panic] at ho

/-- the invariant of the search loop with the current mark `m` -/
def SrchI (bk : Text) (m : Nat) (s : Ed) : Prop :=
  m ≤ s.changes.undos.length ∧ BotGood bk m s.changes.undos ∧ s.line.canGrow = true ∧ UndoLogInv s

theorem SrchI.of_core {bk : Text} {m : Nat} {s s' : Ed} (h : SrchI bk m s) (hc : s'.core = s.core) : SrchI bk m s' := by
  obtain ⟨l, _, c, _⟩ := Ed.core_eq hc
  obtain ⟨h1, h2, h3, t0, h4⟩ := h
  exact ⟨by rw [c]; exact h1, by rw [c]; exact h2, by rw [l]; exact h3, t0, by rw [c, l]; exact h4⟩

theorem srchI_nextCmd {bk : Text} {m : Nat} {fuel : Nat} {sea iep : Bool} {s : Ed}
    (h : SrchI bk m s) {Q : Cmd → Ed → Prop}
    (hq : ∀ c s', SrchI bk (min m s'.changes.undos.length) s' → s'.line = s.line → Q c s') :
    wp (nextCmd S U cfg fuel sea iep) Q (fun _ _ => True) s := by
  have w1 : wp (nextCmd S U cfg fuel sea iep) (fun _ s' => s'.coreNC = s.coreNC) (fun _ _ => True) s :=
    wp_nextCmd S U cfg (fun _ _ h => h) (fun _ _ _ => trivial)
  have w2 := (mkK_nextCmd S U cfg (markerClosed_botGood bk m) fuel sea iep).h s h.2.1
  have w3 := (logK_nextCmd S U cfg fuel sea iep).h s h.2.2.2
  refine wp_mono (wp_conj_top w1 (wp_conj_top w2 w3)) ?_ (fun _ _ h => h)
  intro c s' ⟨hnc, hb, hj⟩
  obtain ⟨l, _, _⟩ := Ed.coreNC_eq hnc
  exact hq c s' ⟨Nat.min_le_right _ _, botGood_min.mpr hb, by rw [l]; exact h.2.2.1, hj⟩ l

theorem srchI_lb_update {bk : Text} {m : Nat} (b : Text) (p : Nat) {s : Ed} (h : SrchI bk m s)
    {Q : Unit → Ed → Prop} (hq : ∀ s', SrchI bk m s' → s'.line.buf = b → Q () s') :
    wp (lb S U (LB.update S U b p)) Q (fun _ _ => True) s := by
  obtain ⟨h1, h2, h3, t0, h4⟩ := h
  refine wp_lb_update_top S U h3 (hq _ ?_ rfl)
  obtain ⟨g1, g2⟩ := botGood_update S U.alnum s.changes s.line.buf b t0 h4 h1 h2
  refine ⟨g1, g2, h3, t0, ?_⟩
  have hn : replayNotifs (updNotifs s.line.buf b) s.line.buf = some b := by
    have e1 : applyFwd (.delete 0 s.line.buf) s.line.buf = some [] :=
      applyFwd_delete.mpr ⟨[], [], by simp, rfl, rfl⟩
    have e2 : applyFwd (.insert 0 b) [] = some b :=
      applyFwd_insert.mpr ⟨[], [], rfl, rfl, by simp⟩
    simp only [updNotifs, replayNotifs, applyNotif, e1, e2]
  exact C05_log_replay S U.alnum s.changes _ t0 s.line.buf b h4 hn

/-- **the incremental search keeps the undo-log invariant, whatever is typed inside it** (both modes) -/
theorem logK_searchLoop (backup : Text) (backupPos : Nat) :
    ∀ (fuel : Nat) (m : Nat) (sb : Text) (hi : Nat) (d : Dir) (succ : Bool) (s : Ed), SrchI backup m s →
      wp (searchLoop S U cfg m backup backupPos fuel sb hi d succ)
        (fun _ s' => UndoLogInv s') (fun _ _ => True) s := by
  intro fuel
  induction fuel with
  | zero => intro m sb hi d succ s _; unfold searchLoop; exact trivial
  | succ fuel ih =>
    intro m sb hi d succ s hs
    unfold searchLoop
    simp only [wp_bind]
    refine wp_refreshPromptAndLine S U cfg (fun s2 hc2 => ?_) (fun _ _ _ => trivial)
    refine srchI_nextCmd S U cfg (hs.of_core hc2) (fun cmd s3 hs3 _ => ?_)
    rw [wp_lowerMark]
    generalize min m s3.changes.undos.length = m' at hs3 ⊢
    have hds : ∀ (sb : Text) (hi hi0 : Nat) (d : Dir),
        wp (match (memHist cfg).search sb hi d with
            | some (idx, entry, pos) => do
              lb S U (LB.update S U entry pos)
              searchLoop S U cfg m' backup backupPos fuel sb idx d true
            | none => searchLoop S U cfg m' backup backupPos fuel sb hi0 d false)
          (fun _ s' => UndoLogInv s') (fun _ _ => True) s3 := by
      intro sb hi hi0 d
      cases (memHist cfg).search sb hi d with
      | none => exact ih _ _ _ _ _ s3 hs3
      | some r =>
        obtain ⟨idx, entry, pos⟩ := r
        simp only [wp_bind]
        exact srchI_lb_update S U entry pos hs3 (fun s4 hs4 _ => ih _ _ _ _ _ s4 hs4)
    split
    · exact hds _ _ _ _
    · exact ih _ _ _ _ _ s3 hs3
    · split
      · exact hds _ _ _ _
      · exact ih _ _ _ _ _ s3 hs3
    · split
      · exact hds _ _ _ _
      · exact ih _ _ _ _ _ s3 hs3
    · simp only [wp_bind]
      refine srchI_lb_update S U backup backupPos hs3 (fun s4 hs4 hb4 => ?_)
      refine wp_refreshLine S U cfg (fun s5 hc5 => ?_) (fun _ _ _ => trivial)
      simp only [truncateChanges, wp_modify, wp_pure]
      obtain ⟨_, ⟨t0, p, w, hr, hbk⟩, _, _⟩ := hs4.of_core hc5
      obtain ⟨l5, _, c5, _⟩ := Ed.core_eq hc5
      exact undoLogInv_of_prefix (s := { s5 with changes := s5.changes.truncateClosed m' }) (t0 := t0) (p := p) (w := w)
        (truncateClosed_replay s5.changes m' t0 p hr)
        (by show s5.line.buf = p ++ w; rw [l5, hb4]; exact hbk)
    · simp only [wp_bind]
      refine wp_refreshLine S U cfg (fun s4 hc4 => ?_) (fun _ _ _ => trivial)
      simp only [wp_changesEnd, wp_pure]
      obtain ⟨t0, h3⟩ := (hs3.of_core hc4).2.2.2
      exact ⟨t0, (C05_log_markers s4.changes t0 _ h3).2⟩

theorem logJ_reverseIncrementalSearch_both (fuel : Nat) (s : Ed) (hg : s.line.canGrow = true) (hj : UndoLogInv s) :
    wp (reverseIncrementalSearch S U cfg fuel) (fun _ s' => UndoLogInv s') (fun _ _ => True) s := by
  unfold reverseIncrementalSearch
  split
  · rw [wp_pure]; exact hj
  · simp only [wp_bind, wp_changesBegin, wp_getLine]
    obtain ⟨t0, h0⟩ := hj
    refine logK_searchLoop S U cfg _ _ fuel _ _ _ _ _ _ ⟨?_, ?_, hg, t0, (C05_log_markers s.changes t0 _ h0).1⟩
    · show s.changes.undos.length ≤ (Change.begin :: s.changes.undos).length
      simp only [List.length_cons]; omega
    · refine (botGood_push (bk := s.line.buf) Change.begin (Nat.le_refl _)).mpr ⟨t0, s.line.buf, [], ?_, by simp⟩
      rw [Nat.sub_self, List.drop_zero]; exact h0


/-! ### the circular completion, both modes -/

/-- the invariant of the completion loop once it has logged its first `replace` -/
def CompI (base : List Change) (s : Ed) : Prop :=
  AboveNB base s.changes.undos ∧ s.line.canGrow = true ∧ UndoLogInv s

theorem CompI.of_core {base : List Change} {s s' : Ed} (h : CompI base s) (hc : s'.core = s.core) : CompI base s' := by
  obtain ⟨l, _, c, _⟩ := Ed.core_eq hc
  obtain ⟨h1, h3, t0, h4⟩ := h
  exact ⟨by rw [c]; exact h1, by rw [l]; exact h3, t0, by rw [c, l]; exact h4⟩

theorem compI_nextCmd {base : List Change} {fuel : Nat} {sea iep : Bool} {s : Ed}
    (h : CompI base s) {Q : Cmd → Ed → Prop}
    (hq : ∀ c s', CompI base s' → s'.line = s.line → Q c s') :
    wp (nextCmd S U cfg fuel sea iep) Q (fun _ _ => True) s := by
  have w1 : wp (nextCmd S U cfg fuel sea iep) (fun _ s' => s'.coreNC = s.coreNC) (fun _ _ => True) s :=
    wp_nextCmd S U cfg (fun _ _ h => h) (fun _ _ _ => trivial)
  have w2 := (mkK_nextCmd S U cfg (markerClosed_aboveNB base) fuel sea iep).h s h.1
  have w3 := (logK_nextCmd S U cfg fuel sea iep).h s h.2.2
  refine wp_mono (wp_conj_top w1 (wp_conj_top w2 w3)) ?_ (fun _ _ h => h)
  intro c s' ⟨hnc, hb, hj⟩
  obtain ⟨l, _, _⟩ := Ed.coreNC_eq hnc
  exact hq c s' ⟨hb, by rw [l]; exact h.2.1, hj⟩ l

theorem compI_lb_update {base : List Change} (b : Text) (p : Nat) {s : Ed} (h : CompI base s)
    {Q : Unit → Ed → Prop} (hq : ∀ s', CompI base s' → (p ≤ blen b → s'.line.buf = b) → Q () s') :
    wp (lb S U (LB.update S U b p)) Q (fun _ _ => True) s := by
  obtain ⟨h1, h2, t0, h3⟩ := h
  refine wp_lb_any S U (fun a l ns ho => ?_) trivial
  refine hq _ ⟨aboveNB_onNotifs S U.alnum ns _ h1, LB.update_keeps_canGrow S U ho h2, t0, ?_⟩ ?_
  · exact C05_log_replay S U.alnum s.changes ns t0 s.line.buf l.buf h3
      (replayNotifs_of_replay ns ((Replays.update S U b p).h _ _ _ _ ho))
  · intro hp
    rw [LB.update_canGrow S U b p s.line h2 hp] at ho
    cases ho; rfl

/-- **the circular completion keeps the undo-log invariant, whatever is typed inside it** (both modes): the
    loop logs its first `replace` before it reads a key, so `end()` never finds the loop's `Begin` on top,
    the mark is never lowered and nothing below it is touched -/
theorem logK_completeCircular (base : List Change) (start : Nat) (cands : List Text)
    (backup : Text) (backupPos : Nat) (hbp : backupPos ≤ blen backup)
    (hent : ∃ t0, replayLog base.reverse t0 = some backup) :
    ∀ (fuel i : Nat) (s : Ed),
      (AboveNB base s.changes.undos ∨ (s.changes.undos = Change.begin :: base ∧ i < cands.length)) →
      s.line.canGrow = true → UndoLogInv s →
      wp (completeCircular S U cfg start cands base.length backup backupPos fuel i)
        (fun _ s' => UndoLogInv s') (fun _ _ => True) s := by
  intro fuel
  induction fuel with
  | zero => intro i s _ _ _; unfold completeCircular; exact trivial
  | succ fuel ih =>
    intro i s hsh hg hj
    unfold completeCircular
    have rest : ∀ s1 : Ed, CompI base s1 → (cands.length ≤ i → s1.line.buf = backup) →
        wp (do
          refreshLine S U cfg
          let cmd ← nextCmd S U cfg fuel true true
          let mark ← lowerMark base.length
          match cmd with
          | .complete => completeCircular S U cfg start cands mark backup backupPos fuel (compNext cands.length i)
          | .completeBackward => completeCircular S U cfg start cands mark backup backupPos fuel (compPrev cands.length i)
          | .abort => do
            if i < cands.length then do
              lb S U (LB.update S U backup backupPos)
              refreshLine S U cfg
            truncateChanges mark
            pure none
          | _ => do
            let _ ← changesEnd
            pure (some cmd)) (fun _ s' => UndoLogInv s') (fun _ _ => True) s1 := by
      intro s1 hs1 hb1
      simp only [wp_bind]
      refine wp_refreshLine S U cfg (fun s2 hc2 => ?_) (fun _ _ _ => trivial)
      have hl2 : s2.line = s1.line := (Ed.core_eq hc2).1
      refine compI_nextCmd S U cfg (hs1.of_core hc2) (fun cmd s3 hs3 hl3 => ?_)
      rw [wp_lowerMark, Nat.min_eq_left (Nat.le_of_lt (aboveNB_facts hs3.1).1)]
      have fin : ∀ s5 : Ed, CompI base s5 → s5.line.buf = backup →
          UndoLogInv ({ s5 with changes := s5.changes.truncateClosed base.length } : Ed) := by
        intro s5 hs5 hb5
        obtain ⟨t0, ht0⟩ := hent
        refine ⟨t0, ?_⟩
        show replayLog (s5.changes.truncateClosed base.length).undos.reverse t0 = some s5.line.buf
        rw [hb5]
        exact truncateClosed_replay _ _ _ _ (by rw [(aboveNB_facts hs5.1).2]; exact ht0)
      split
      · exact ih _ s3 (.inl hs3.1) hs3.2.1 hs3.2.2
      · exact ih _ s3 (.inl hs3.1) hs3.2.1 hs3.2.2
      · split
        · simp only [wp_bind]
          refine compI_lb_update S U backup backupPos hs3 (fun s4 hs4 hb4 => ?_)
          refine wp_refreshLine S U cfg (fun s5 hc5 => ?_) (fun _ _ _ => trivial)
          simp only [truncateChanges, wp_modify, wp_pure]
          exact fin s5 (hs4.of_core hc5) (by rw [(Ed.core_eq hc5).1]; exact hb4 hbp)
        · rename_i hge
          simp only [wp_pure, wp_bind, truncateChanges, wp_modify]
          exact fin s3 hs3 (by rw [hl3, hl2]; exact hb1 (by omega))
      · simp only [wp_bind, wp_changesEnd, wp_pure]
        obtain ⟨t0, h3⟩ := hs3.2.2
        exact ⟨t0, (C05_log_markers s3.changes t0 _ h3).2⟩
    simp only []
    by_cases hlt : i < cands.length
    · rw [if_pos hlt]
      have hci : cands[i]? = some cands[i] := by simp [hlt]
      rw [hci]
      simp only [wp_bind, wp_getLine]
      obtain ⟨t0, h3⟩ := hj
      refine wp_lb_any S U (fun a l ns ho => ?_) trivial
      have hs' : CompI base ({ s with line := l, changes := s.changes.onNotifs S U.alnum ns } : Ed) := by
        refine ⟨?_, (LB.replace_canGrow S U ho).trans hg, t0,
          C05_log_replay S U.alnum s.changes ns t0 s.line.buf l.buf h3
            (replayNotifs_of_replay ns ((Replays.replace S U _ _ _).h _ _ _ _ ho))⟩
        rcases hsh with h | ⟨h, _⟩
        · exact aboveNB_onNotifs S U.alnum ns _ h
        · have hns : ∃ a y t, ns = [Notif.repl a y t] := by
            unfold LB.replace at ho
            split at ho
            · cases ho; exact ⟨_, _, _, rfl⟩
            · cases ho
          obtain ⟨a', y, t, rfl⟩ := hns
          show AboveNB base (s.changes.replace a' y t).undos
          rw [Changeset.replace_undos, h]
          exact ⟨[Change.replace a' y t], rfl, _, List.mem_cons_self, by intro hc; cases hc⟩
      have t := rest _ hs' (fun hge => by omega)
      simp only [wp_bind] at t ⊢
      exact t
    · rw [if_neg hlt]
      simp only [wp_bind]
      have hs0 : CompI base s := by
        rcases hsh with h | ⟨_, h⟩
        · exact ⟨h, hg, hj⟩
        · exact absurd h hlt
      refine compI_lb_update S U backup backupPos hs0 (fun s1 hs1 hb1 => ?_)
      have t := rest s1 hs1 (fun _ => hb1 hbp)
      simp only [wp_bind] at t ⊢
      exact t

theorem logJ_completeLine_both (fuel : Nat) (s : Ed) (hg : s.line.canGrow = true)
    (hp : s.line.pos ≤ blen s.line.buf) (hj : UndoLogInv s) :
    wp (completeLine S U cfg fuel) (fun _ s' => UndoLogInv s') (fun _ _ => True) s := by
  have hn := fun fuel sea iep => logK_nextCmd S U cfg fuel sea iep
  have hm : ∀ {op : LM Bool}, PosOnly op → LogK (editMove S U cfg op) := fun h => logK_editMove S U cfg h
  unfold completeLine
  simp only [wp_bind, wp_getLine]
  split
  · rw [wp_pure]; exact hj
  · split
    · simp only [wp_bind, wp_changesBegin]
      obtain ⟨t0, h0⟩ := hj
      refine logK_completeCircular S U cfg s.changes.undos _ _ _ _ hp ⟨t0, h0⟩ fuel 0 _
        (.inr ⟨rfl, ?_⟩) hg ⟨t0, (C05_log_markers s.changes t0 _ h0).1⟩
      rename_i hne _
      cases hc : (cfg.completer s.line.buf s.line.pos).2 with
      | nil => rw [hc] at hne; simp at hne
      | cons a as => simp
    · have hk : LogK (do
          match lcpChars (cfg.completer s.line.buf s.line.pos).2 with
          | some lcp => do
            if (cfg.completer s.line.buf s.line.pos).1 > s.line.pos then exit .panic
            if blen lcp > s.line.pos - (cfg.completer s.line.buf s.line.pos).1 ||
                (cfg.completer s.line.buf s.line.pos).2.length == 1 then do
              lb S U (LB.replace S U (cfg.completer s.line.buf s.line.pos).1 s.line.pos lcp)
              refreshLine S U cfg
          | none => pure ()
          if (cfg.completer s.line.buf s.line.pos).2.length ≤ 1 then pure none
          else do
            let cmd ← nextCmd S U cfg fuel true true
            if cmd != .complete then pure (some cmd)
            else do
              let savePos ← (fun s => .ok (s.line.pos, s) : EM Nat)
              editMove S U cfg (LB.moveEnd S U)
              lbQuiet (LB.setPosChecked S U savePos)
              refreshLine S U cfg
              pure none : EM (Option Cmd)) := by
        em_log [hn] <;> (first | (apply hm; po_leaf) | skip)
      have t := hk.h s hj
      simp only [wp_bind] at t ⊢
      exact t

/-- **the dispatch loop keeps the undo-log invariant** — both modes, from the read invariant -/
theorem logJ_preCmds_both (H : RdHyp S U cfg) : ∀ (fuel : Nat) (cmd : Cmd) (s : Ed),
    RdInv cfg s → UndoLogInv s →
    wp (preCmds S U cfg fuel cmd) (fun _ s' => UndoLogInv s') (fun _ _ => True) s := by
  intro fuel
  induction fuel with
  | zero => intro cmd s _ _; unfold preCmds; exact trivial
  | succ fuel ih =>
    intro cmd s h hj
    have hp : s.line.pos ≤ blen s.line.buf := (h.1.line : IsBoundary _ _).le_len
    unfold preCmds
    split
    · rw [wp_bind]
      refine wp_mono (wp_conj_pe (safe_completeLine S U cfg H fuel h)
        (logJ_completeLine_both S U cfg fuel s h.2.1 hp hj)) ?_ (fun _ _ h => h)
      intro r s1 ⟨h1, hj1⟩
      cases r with
      | none => exact hj1
      | some next => exact ih next s1 h1 hj1
    · split
      · rw [wp_bind]
        refine wp_mono (wp_conj_pe (safe_reverseIncrementalSearch S U cfg H fuel h)
          (logJ_reverseIncrementalSearch_both S U cfg fuel s h.2.1 hj)) ?_ (fun _ _ h => h)
        intro r s1 ⟨h1, hj1⟩
        cases r with
        | none => exact hj1
        | some next => exact ih next s1 h1 hj1
      · exact hj

end
end Rl
