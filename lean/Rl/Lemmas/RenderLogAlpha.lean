/-
  C02, the text half of `LogFine` (`LogPlain`: every logged text consists of `PlainG` clusters) reduced to a
  character-level predicate on the log: for an alphabet `A` over which every text segments into `PlainG` clusters
  (`AlphaPlain S R A`, a hypothesis on segmenter, width table and alphabet), it is enough that every logged prompt,
  line and hint is written over `A` (`LogAlpha`).  `LogAlpha` does not mention the segmenter: it is a statement about
  which characters reach the screen.
-/
import Rl.Lemmas.RenderLog
namespace Rl

/-- a text over the alphabet `A` -/
def OverA (A : Char → Bool) (t : Text) : Prop := ∀ c ∈ t, A c = true

theorem OverA.nil (A : Char → Bool) : OverA A [] := fun _ h => by cases h

theorem OverA.append_left {A : Char → Bool} {a b : Text} (h : OverA A (a ++ b)) : OverA A a :=
  fun c hc => h c (List.mem_append_left _ hc)

theorem OverA.append_right {A : Char → Bool} {a b : Text} (h : OverA A (a ++ b)) : OverA A b :=
  fun c hc => h c (List.mem_append_right _ hc)

/-- the alphabet is one over which the cell arithmetic is right: every text over it segments into clusters of the
    quantified kind (line breaks, or a printable base character with zero-width followers whose cluster width is the
    width of the base character and fits the terminal).  True of the ASCII printable characters, East Asian wide
    characters and combining marks with `unicode-width` and UAX #29; false of regional indicators, Hangul jamo and
    emoji ZWJ sequences. -/
def AlphaPlain (S : Segmenter) (R : RCfg) (A : Char → Bool) : Prop := ∀ t, OverA A t → C02_Plain S R t

/-- the texts of a logged operation are written over `A` -/
def OpAlpha (A : Char → Bool) (prompt : Text) : RenderOp → Prop
  | .refresh p line _ info => OverA A (p.getD prompt) ∧ OverA A line ∧ OverA A (info.getD [])
  | .moveCursor line _ _ => OverA A line
  | .insert _ _ _ line _ hint _ _ => OverA A line ∧ OverA A (hint.getD [])
  | _ => True

def LogAlpha (A : Char → Bool) (prompt : Text) (log : List RenderOp) : Prop := ∀ op ∈ log, OpAlpha A prompt op

section
variable {S : Segmenter} {R : RCfg} {A : Char → Bool} {prompt : Text}

theorem plainSplit_of_alpha (hA : AlphaPlain S R A) {line : Text} {pos : Nat} {info : Option Text}
    (hl : OverA A line) (hi : OverA A (info.getD [])) : C02_PlainSplit S R line pos info := by
  intro b a hs
  obtain ⟨e, _⟩ := splitAtByte_some hs
  rw [e] at hl
  exact ⟨hA _ hl.append_left, hA _ hl.append_right, hA _ hi⟩

theorem opPlain_of_alpha (hA : AlphaPlain S R A) {op : RenderOp} (h : OpAlpha A prompt op) :
    OpPlain S R prompt op := by
  cases op with
  | refresh p line pos info => exact ⟨hA _ h.1, plainSplit_of_alpha hA h.2.1 h.2.2⟩
  | moveCursor line pos hl => exact plainSplit_of_alpha hA h (OverA.nil A)
  | insert ch n push line pos hint nph hl => exact plainSplit_of_alpha hA h.1 h.2
  | clearScreen => trivial
  | moveToEnd => trivial
  | sync line pos hint => trivial
  | writeln => trivial

/-- **character level is enough**: a log written over `A` is a log of texts of the quantified kind -/
theorem logPlain_of_alpha (hA : AlphaPlain S R A) {log : List RenderOp} (h : LogAlpha A prompt log) :
    LogPlain S R prompt log :=
  fun op ho => opPlain_of_alpha hA (h op ho)

end
end Rl
