import Rl.History
import Rl.Spec.History
namespace Rl
open MemHist

/-! ### `scan` -/

theorem scan_some {test : Text → Option Nat} {l : List Text} {k idx : Nat} {e : Text} {cur : Nat}
    (h : scan test l k = some (idx, e, cur)) :
    ∃ j, l[j]? = some e ∧ test e = some cur ∧ idx = k + j ∧
      ∀ j', j' < j → ∀ e', l[j']? = some e' → test e' = none := by
  induction l generalizing k with
  | nil => simp [scan] at h
  | cons x xs ih =>
    simp only [scan] at h
    split at h
    · rename_i c hc
      simp at h; obtain ⟨rfl, rfl, rfl⟩ := h
      exact ⟨0, by simp, hc, by simp, by intro j' hj; omega⟩
    · rename_i hc
      obtain ⟨j, h1, h2, h3, h4⟩ := ih h
      refine ⟨j + 1, by simpa using h1, h2, by omega, ?_⟩
      intro j' hj e' he'
      cases j' with
      | zero => simp at he'; subst he'; exact hc
      | succ j'' => exact h4 j'' (by omega) e' (by simpa using he')

theorem scan_none {test : Text → Option Nat} {l : List Text} {k : Nat}
    (h : scan test l k = none) : ∀ (j : Nat) (e : Text), l[j]? = some e → test e = none := by
  induction l generalizing k with
  | nil => intro j e he; simp at he
  | cons x xs ih =>
    simp only [scan] at h
    split at h
    · simp at h
    · rename_i hc
      intro j e he
      cases j with
      | zero => simp at he; subst he; exact hc
      | succ j' => exact ih h j' e (by simpa using he)

theorem getElem?_reverse_drop (l : List α) (s j : Nat) (hs : s < l.length) (hj : j ≤ s) :
    (l.reverse.drop (l.length - 1 - s))[j]? = l[s - j]? := by
  rw [List.getElem?_drop]
  rw [List.getElem?_reverse (by omega)]
  congr 1; omega

theorem getElem?_reverse_drop_none (l : List α) (s j : Nat) (hs : s < l.length) (hj : s < j) :
    (l.reverse.drop (l.length - 1 - s))[j]? = none := by
  rw [List.getElem?_drop]
  apply List.getElem?_eq_none
  simp; omega

/-! ### invariants -/

def HInv (h : MemHist) : Prop := h.entries.length ≤ h.maxLen

theorem insert_inv {h : MemHist} (hi : HInv h) (hm : h.maxLen ≠ 0) (l : Text) : HInv (h.insert l) := by
  unfold HInv MemHist.insert at *
  simp only
  split
  · rename_i he
    simp at he ⊢
    omega
  · rename_i he
    simp at he ⊢
    omega

theorem ignore_of_max_zero (ws) (h : MemHist) (l : Text) (hm : h.maxLen = 0) : h.ignore ws l = true := by
  simp [MemHist.ignore, hm]

theorem step_inv (ws) {h : MemHist} (hi : HInv h) (op : HOp) : HInv (h.step ws op).1 := by
  cases op <;> simp only [MemHist.step] <;> try exact hi
  case add l =>
    simp only [MemHist.add]
    split
    · exact hi
    · rename_i hig
      apply insert_inv hi
      intro hm; exact hig (ignore_of_max_zero ws h l hm)
  case addOwned l =>
    simp only [MemHist.add]
    split
    · exact hi
    · rename_i hig
      apply insert_inv hi
      intro hm; exact hig (ignore_of_max_zero ws h l hm)
  case setMax n =>
    unfold HInv MemHist.setMaxLen at *
    simp only
    split
    · simp; omega
    · simp at *; omega
  case clear => simp [HInv, MemHist.clear]

theorem run_inv (ws) {h : MemHist} (hi : HInv h) (ops : List HOp) : HInv (MemHist.run ws h ops).1 := by
  induction ops generalizing h with
  | nil => exact hi
  | cons op ops ih =>
    simp only [MemHist.run]
    exact ih (step_inv ws hi op)

end Rl

namespace Rl
open MemHist

/-- nothing in the index range `[lo, hi)`-style predicate `R` passes the test -/
def NoneIn (es : List Text) (test : Text → Option Nat) (R : Nat → Prop) : Prop :=
  ∀ (j : Nat) (e' : Text), R j → es[j]? = some e' → test e' = none

theorem searchMatch_some {h : MemHist} {t : Text} {s : Nat} {d : Dir} {test : Text → Option Nat}
    {i : Nat} {e : Text} {cur : Nat} (hs : h.searchMatch t s d test = some (i, e, cur)) :
    t ≠ [] ∧ s < h.entries.length ∧ h.entries[i]? = some e ∧ test e = some cur ∧
    (d = .forward → s ≤ i ∧ NoneIn h.entries test (fun j => s ≤ j ∧ j < i)) ∧
    (d = .reverse → i ≤ s ∧ NoneIn h.entries test (fun j => i < j ∧ j ≤ s)) := by
  unfold MemHist.searchMatch at hs
  split at hs
  · simp at hs
  · rename_i hc
    simp at hc
    obtain ⟨hne, hlt⟩ := hc
    refine ⟨by simpa using hne, hlt, ?_⟩
    cases d with
    | forward =>
      simp only at hs
      split at hs
      · rename_i idx e0 c0 hsc
        simp at hs; obtain ⟨rfl, rfl, rfl⟩ := hs
        obtain ⟨j, h1, h2, h3, h4⟩ := scan_some hsc
        rw [List.getElem?_drop] at h1
        simp at h3; subst h3
        refine ⟨by rw [Nat.add_comm]; exact h1, h2, ?_, by intro hh; cases hh⟩
        intro _
        refine ⟨by omega, ?_⟩
        intro j' e' ⟨hj1, hj2⟩ he'
        apply h4 (j' - s) (by omega) e'
        rw [List.getElem?_drop]
        have : s + (j' - s) = j' := by omega
        rw [this]; exact he'
      · simp at hs
    | reverse =>
      simp only at hs
      split at hs
      · rename_i idx e0 c0 hsc
        simp at hs; obtain ⟨rfl, rfl, rfl⟩ := hs
        obtain ⟨j, h1, h2, h3, h4⟩ := scan_some hsc
        simp at h3; subst h3
        have hjs : idx ≤ s := by
          by_cases hle : idx ≤ s
          · exact hle
          · rw [getElem?_reverse_drop_none _ _ _ hlt (by omega)] at h1
            simp at h1
        rw [getElem?_reverse_drop _ _ _ hlt hjs] at h1
        refine ⟨h1, h2, (by intro hh; cases hh), ?_⟩
        intro _
        refine ⟨by omega, ?_⟩
        intro j' e' ⟨hj1, hj2⟩ he'
        apply h4 (s - j') (by omega) e'
        rw [getElem?_reverse_drop _ _ _ hlt (by omega)]
        have : s - (s - j') = j' := by omega
        rw [this]; exact he'
      · simp at hs

theorem searchMatch_none {h : MemHist} {t : Text} {s : Nat} {d : Dir} {test : Text → Option Nat}
    (hs : h.searchMatch t s d test = none) :
    t = [] ∨ h.entries.length ≤ s ∨
    ((d = .forward → NoneIn h.entries test (fun j => s ≤ j)) ∧
     (d = .reverse → NoneIn h.entries test (fun j => j ≤ s))) := by
  unfold MemHist.searchMatch at hs
  split at hs
  · rename_i hc
    simp at hc
    by_cases ht : t = []
    · exact Or.inl ht
    · right; left
      cases t with
      | nil => exact absurd rfl ht
      | cons c t' => simp at hc; exact hc
  · rename_i hc
    simp at hc
    obtain ⟨_, hlt⟩ := hc
    right; right
    cases d with
    | forward =>
      simp only at hs
      split at hs
      · simp at hs
      · rename_i hsc
        refine ⟨?_, by intro hh; cases hh⟩
        intro _ j e' hj he'
        apply scan_none hsc (j - s) e'
        rw [List.getElem?_drop]
        have : s + (j - s) = j := by omega
        rw [this]; exact he'
    | reverse =>
      simp only at hs
      split at hs
      · simp at hs
      · rename_i hsc
        refine ⟨(by intro hh; cases hh), ?_⟩
        intro _ j e' hj he'
        apply scan_none hsc (s - j) e'
        rw [getElem?_reverse_drop _ _ _ hlt (by omega)]
        have : s - (s - j) = j := by omega
        rw [this]; exact he'

theorem searchMatch_guard {h : MemHist} {t : Text} {s : Nat} {d : Dir} {test : Text → Option Nat}
    (hg : t = [] ∨ h.entries.length ≤ s) : h.searchMatch t s d test = none := by
  unfold MemHist.searchMatch
  split
  · rfl
  · rename_i hc
    simp at hc
    rcases hg with rfl | hg
    · simp at hc
    · omega

end Rl

namespace Rl

theorem find_range_rev_some {p : Nat → Bool} {n i : Nat} :
    (List.range n).reverse.find? p = some i ↔
      p i = true ∧ i < n ∧ ∀ j, i < j → j < n → p j = false := by
  rw [List.find?_eq_some_iff_getElem]
  constructor
  · rintro ⟨hp, k, hk, hki, hmin⟩
    simp at hk
    simp [List.getElem_reverse] at hki
    refine ⟨hp, by omega, ?_⟩
    intro j hj1 hj2
    have := hmin (n - 1 - j) (by omega)
    simp [List.getElem_reverse] at this
    have e : n - 1 - (n - 1 - j) = j := by omega
    rw [e] at this; exact this
  · rintro ⟨hp, hi, hmax⟩
    refine ⟨hp, n - 1 - i, by simp; omega, ?_, ?_⟩
    · simp [List.getElem_reverse]; omega
    · intro j hj
      simp [List.getElem_reverse]
      exact hmax _ (by omega) (by omega)

theorem find_range_rev_none {p : Nat → Bool} {n : Nat} :
    (List.range n).reverse.find? p = none ↔ ∀ j, j < n → p j = false := by
  simp [List.find?_eq_none]

end Rl

namespace Rl
open MemHist

def testOf (sub : Bool) (t : Text) : Text → Option Nat :=
  if sub then fun e => findSub t e else fun e => if t.isPrefixOf e then some (blen t) else none

def predOf (sub : Bool) (t : Text) : Text → Bool :=
  fun e => if sub then Spec.contains t e else t.isPrefixOf e

theorem testOf_none_iff (sub : Bool) (t e : Text) : testOf sub t e = none ↔ predOf sub t e = false := by
  cases sub
  · simp only [testOf, predOf]
    cases hp : t.isPrefixOf e
    · simp; intro hh; rw [← List.isPrefixOf_iff_prefix] at hh; simp [hp] at hh
    · simp; rw [← List.isPrefixOf_iff_prefix]; exact hp
  · simp [testOf, predOf, Spec.contains]

theorem testOf_some_off (sub : Bool) (t e : Text) (c : Nat) (h : testOf sub t e = some c) :
    predOf sub t e = true ∧ (if sub then (findSub t e).getD 0 else blen t) = c := by
  cases sub
  · simp [testOf, predOf] at *; exact h
  · simp [testOf, predOf, Spec.contains] at *; simp [h]

theorem searchMatch_eq_find (sub : Bool) (h : MemHist) (t : Text) (s : Nat) (d : Dir) :
    h.searchMatch t s d (testOf sub t) = Spec.find sub h.entries t s d := by
  cases hm : h.searchMatch t s d (testOf sub t) with
  | none =>
    rcases searchMatch_none hm with ht | hl | ⟨hf, hr⟩
    · simp [Spec.find, ht]
    · simp [Spec.find]; intro _ hh; omega
    · unfold Spec.find
      split
      · rfl
      · have hn : Spec.nearest (fun e => if sub then Spec.contains t e else t.isPrefixOf e) h.entries s d = none := by
          cases d with
          | forward =>
            simp only [Spec.nearest]
            rw [List.find?_range_eq_none]
            intro i hi
            have := hf rfl
            simp
            by_cases hsi : s ≤ i
            case neg => left; omega
            right
            have hget : h.entries[i]? = some h.entries[i] := List.getElem?_eq_getElem hi
            have := (testOf_none_iff sub t _).mp (this i _ hsi hget)
            simp [hget]
            simpa [predOf] using this
          | reverse =>
            simp only [Spec.nearest]
            rw [find_range_rev_none]
            intro i hi
            have := hr rfl
            simp
            intro hsi
            have hget : h.entries[i]? = some h.entries[i] := List.getElem?_eq_getElem hi
            have := (testOf_none_iff sub t _).mp (this i _ hsi hget)
            simp [hget]
            simpa [predOf] using this
        simp only [hn]
  | some r =>
    obtain ⟨i, e, cur⟩ := r
    obtain ⟨hne, hlt, hget, htest, hf, hr⟩ := searchMatch_some hm
    obtain ⟨hp, hoff⟩ := testOf_some_off sub t e cur htest
    have hil : i < h.entries.length := by
      rcases Nat.lt_or_ge i h.entries.length with h1 | h1
      · exact h1
      · rw [List.getElem?_eq_none h1] at hget; simp at hget
    unfold Spec.find
    split
    · rename_i hc; rcases hc with hc | hc
      · exact absurd hc hne
      · omega
    · have hn : Spec.nearest (fun e => if sub then Spec.contains t e else t.isPrefixOf e) h.entries s d = some i := by
        cases d with
        | forward =>
          obtain ⟨hsi, hnone⟩ := hf rfl
          simp only [Spec.nearest]
          rw [List.find?_range_eq_some]
          refine ⟨?_, by simp; exact hil, ?_⟩
          · simp [hget, hsi]; simpa [predOf] using hp
          · intro j hj
            simp
            by_cases hsj : s ≤ j
            case neg => left; omega
            right
            have hjl : j < h.entries.length := by omega
            have hgj : h.entries[j]? = some h.entries[j] := List.getElem?_eq_getElem hjl
            have := (testOf_none_iff sub t _).mp (hnone j _ ⟨hsj, hj⟩ hgj)
            simp [hgj]; simpa [predOf] using this
        | reverse =>
          obtain ⟨hsi, hnone⟩ := hr rfl
          simp only [Spec.nearest]
          rw [find_range_rev_some]
          refine ⟨?_, hil, ?_⟩
          · simp [hget, hsi]; simpa [predOf] using hp
          · intro j hj hjl
            simp
            intro hsj
            have hgj : h.entries[j]? = some h.entries[j] := List.getElem?_eq_getElem hjl
            have := (testOf_none_iff sub t _).mp (hnone j _ ⟨hj, hsj⟩ hgj)
            simp [hgj]; simpa [predOf] using this
      simp only [hn, hget, hoff]

end Rl
