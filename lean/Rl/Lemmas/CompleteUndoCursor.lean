/-
  C14, "one Undo after an accepted completion": where the CURSOR lands.  The oldest change of the
  completion's undo group is `Replace start y _` (`y` = the original text between the completer's
  start and the cursor); `Change::undo` of a `Replace idx old new` leaves the cursor at
  `idx + old.len()`; so one Undo puts the cursor back to `start + |y|` = the pre-completion cursor.
-/
import Rl.Lemmas.CompleteUndo
namespace Rl
open EM
variable (S : Segmenter) (U : UData) (cfg : EdCfg)

/-! ### `Changeset::undo` on one closed group whose oldest change is a `Replace` -/

theorem nested_of_no_marker : ∀ b : List Change, (∀ ch ∈ b, ch.isMarker = false) → Nested b := by
  intro b
  induction b with
  | nil => intro _; exact .nil
  | cons ch l ih =>
    intro hb
    exact .change ch l (hb ch (List.mem_cons_self ..)) (ih (fun x hx => hb x (List.mem_cons_of_mem _ hx)))

/-- **one Undo takes back one closed group, cursor included**: the group is
    `End :: pre ++ [Replace i o n] ++ Begin`; the last undo step applied is the one of the OLDEST change
    `Replace i o n`, which leaves the cursor at `i + |o|` -/
theorem undo_one_group_cursor (c : Changeset) (pre rest : List Change) (i : Nat) (o n : Text) (t0 t : Text) (lb : LB)
    (hu : c.undos = .end_ :: (pre ++ [.replace i o n]) ++ .begin :: rest)
    (hm : ∀ ch ∈ pre, ch.isMarker = false)
    (hlog : replayLog c.undos.reverse t0 = some lb.buf) (hrest : replayLog rest.reverse t0 = some t) :
    ∃ c' lb' undone, c.undo S U lb 1 = .ok (c', lb', undone) ∧ lb'.buf = t ∧ lb'.pos = i + blen o ∧
      c'.undos = rest := by
  have hmb : ∀ ch ∈ pre ++ [Change.replace i o n], ch.isMarker = false := by
    intro ch hch
    rcases List.mem_append.mp hch with h | h
    · exact hm ch h
    · rw [List.mem_singleton.mp h]; rfl
  have hnest : Nested (pre ++ [Change.replace i o n]) := nested_of_no_marker _ hmb
  have hsplit1 : c.undos = (.end_ :: pre) ++ (.replace i o n :: .begin :: rest) := by rw [hu]; simp
  rw [hsplit1] at hlog
  obtain ⟨lb1, h1, h2⟩ := undoAll_replay S U _ _ t0 lb.buf lb hlog rfl
  obtain ⟨u, hu1, hf⟩ := replay_cons.mp h2
  obtain ⟨lb2, k1, k2, k3⟩ := undoOn_replace S U i o n u lb1.buf lb1 hf rfl
  obtain ⟨u', hu2, hf2⟩ := replay_cons.mp hu1
  rw [applyFwd_marker (by rfl : Change.begin.isMarker = true)] at hf2
  have huu : u' = u := Option.some.inj hf2
  rw [hrest] at hu2
  have htu : t = u := (Option.some.inj hu2).trans huu
  have hall : undoAll (fun ch lb => ch.undoOn S U lb) (.end_ :: (pre ++ [.replace i o n]) ++ [.begin]) lb = .ok lb2 := by
    have e : (Change.end_ :: (pre ++ [Change.replace i o n]) ++ [Change.begin])
        = (Change.end_ :: pre) ++ [Change.replace i o n, Change.begin] := by simp
    rw [e]
    refine (undoAll_append_iff _ _ _ _ _).mpr ⟨lb1, h1, ?_⟩
    rw [undoAll_cons_change _ (by rfl : (Change.replace i o n).isMarker = false)]
    simp only [k1]
    rw [undoAll_cons_marker _ (by rfl : Change.begin.isMarker = true)]
    rfl
  have hsplit : c.undos = (.end_ :: (pre ++ [.replace i o n]) ++ [.begin]) ++ rest := by rw [hu]; simp
  obtain ⟨lvl, h3⟩ := C05_undo_unit_model S U _ rest c.redos (UndoUnit.group _ hnest) lb lb2 c.level hall
  refine ⟨{ level := lvl, undos := rest, redos := (Change.end_ :: (pre ++ [.replace i o n]) ++ [Change.begin]).reverse ++ c.redos }, lb2,
    (Change.end_ :: (pre ++ [.replace i o n]) ++ [Change.begin]).any (fun c => !c.isMarker), ?_, by rw [k2, htu], k3, rfl⟩
  unfold Changeset.undo
  rw [hsplit, h3]

/-! ### the oldest change of the completion group -/

/-- the stack holds `Replace start y _` directly above the `Begin` of the completion -/
def HasR (u0 : List Change) (st : Nat) (y : Text) (us : List Change) : Prop :=
  ∃ pre n, us = pre ++ .replace st y n :: .begin :: u0

theorem HasR.cons {u0 : List Change} {st : Nat} {y : Text} {us : List Change} (h : HasR u0 st y us) (ch : Change) :
    HasR u0 st y (ch :: us) := by
  obtain ⟨pre, n, e⟩ := h
  exact ⟨ch :: pre, n, by rw [e]; rfl⟩

theorem HasR.endLoop {u0 : List Change} {st : Nat} {y : Text} :
    ∀ (k : Nat) (us : List Change) (t : Bool), HasR u0 st y us → HasR u0 st y (Changeset.endLoop k us t).1 := by
  intro k
  induction k with
  | zero => intro us t h; exact h
  | succ k ih =>
    intro us t h
    obtain ⟨pre, n, e⟩ := h
    cases pre with
    | nil =>
      subst e
      simp only [List.nil_append, Changeset.endLoop]
      exact ih _ _ (HasR.cons ⟨[], n, rfl⟩ _)
    | cons p ps =>
      subst e
      cases p <;> simp only [List.cons_append, Changeset.endLoop]
      · exact ih _ _ ⟨ps, n, rfl⟩
      all_goals exact ih _ _ (HasR.cons ⟨_ :: ps, n, rfl⟩ _)

theorem HasR.end_ {u0 : List Change} {st : Nat} {y : Text} {c : Changeset} (h : HasR u0 st y c.undos) :
    HasR u0 st y c.end_.1.undos := by
  have := HasR.endLoop c.level c.undos false h
  simpa [Changeset.end_] using this

/-- a notification on a stack whose top is above the `Replace` keeps the `Replace` (and something above it) -/
theorem onNotif_above (c : Changeset) (p : Change) (ps tl : List Change) (hu : c.undos = p :: ps ++ tl) (n : Notif) :
    ∃ p' ps', (c.onNotif S U.alnum n).undos = p' :: ps' ++ tl := by
  rcases Changeset.onNotif_shape S U.alnum c n with h1 | ⟨ch, _, h1⟩ | ⟨hd, rest, ch, hu', _, _, h1⟩
  · exact ⟨p, ps, by rw [h1, hu]⟩
  · exact ⟨ch, p :: ps, by rw [h1, hu]; rfl⟩
  · rw [hu] at hu'
    simp only [List.cons_append, List.cons.injEq] at hu'
    exact ⟨ch, ps, by rw [h1, ← hu'.2]; rfl⟩

theorem onNotifs_above (ns : List Notif) : ∀ (c : Changeset) (p : Change) (ps tl : List Change),
    c.undos = p :: ps ++ tl → ∃ p' ps', (c.onNotifs S U.alnum ns).undos = p' :: ps' ++ tl := by
  unfold Changeset.onNotifs
  induction ns with
  | nil => intro c p ps tl h; exact ⟨p, ps, h⟩
  | cons n ns ih =>
    intro c p ps tl h
    obtain ⟨p1, ps1, h1⟩ := onNotif_above S U c p ps tl h n
    exact ih _ p1 ps1 tl h1

/-- a `replace(start..pos, c)` notification, in the three situations of the loop -/
theorem replace_first (c : Changeset) (u0 : List Change) (hu : c.undos = .begin :: u0) (st : Nat) (y n : Text) :
    (c.onNotifs S U.alnum [.repl st y n]).undos = .replace st y n :: .begin :: u0 := by
  simp only [Changeset.onNotifs, List.foldl, Changeset.onNotif, Changeset.replace_undos, hu]

theorem replace_on_R (c : Changeset) (u0 : List Change) (st : Nat) (y n cnew : Text)
    (hu : c.undos = .replace st y n :: .begin :: u0) :
    (c.onNotifs S U.alnum [.repl st n cnew]).undos = .replace st y cnew :: .begin :: u0 ∨
    (c.onNotifs S U.alnum [.repl st n cnew]).undos = .replace st n cnew :: .replace st y n :: .begin :: u0 := by
  simp only [Changeset.onNotifs, List.foldl, Changeset.onNotif, Changeset.replace_undos, hu]
  split
  · rename_i h
    have hn : n = [] := by
      have : blen n = 0 := by simp at h; omega
      exact blen_eq_zero.mp this
    subst hn
    left; simp
  · right; rfl

/-- `update` notifications on a stack whose top is the `Replace` -/
theorem update_on_R (c : Changeset) (tl : List Change) (st : Nat) (y n old new : Text)
    (hu : c.undos = .replace st y n :: tl) :
    (c.onNotifs S U.alnum (updNotifs old new)).undos = .replace st y n :: tl ∧ old = [] ∧ new = [] ∨
    ∃ p ps, (c.onNotifs S U.alnum (updNotifs old new)).undos = p :: ps ++ .replace st y n :: tl := by
  simp only [updNotifs, Changeset.onNotifs, List.foldl, Changeset.onNotif]
  cases old with
  | nil =>
    cases new with
    | nil => left; simp [Changeset.delete, Changeset.insertStr, hu]
    | cons a l => right; exact ⟨.insert 0 (a :: l), [], by simp [Changeset.delete, Changeset.insertStr, hu]⟩
  | cons a l =>
    right
    cases new with
    | nil => exact ⟨.delete 0 (a :: l), [], by simp [Changeset.delete, Changeset.insertStr, hu]⟩
    | cons a' l' => exact ⟨.insert 0 (a' :: l'), [.delete 0 (a :: l)], by simp [Changeset.delete, Changeset.insertStr, hu]⟩

/-- after the show step: span-only line, and the `Replace start y n` is in the stack; when it is the
    top of the stack its new text `n` is what the span holds now -/
def CurShown (u0 : List Change) (x y z : Text) (s : Ed) : Prop :=
  s.line.canGrow = true ∧ ∃ mid, s.line.buf = x ++ mid ++ z ∧ s.line.pos = blen x + blen mid ∧
    ∃ pre n, s.changes.undos = pre ++ .replace (blen x) y n :: .begin :: u0 ∧ (pre = [] → mid = n)

/-- loop-head invariant: either nothing was logged yet (first head, index 0) or `CurShown` -/
def CurI (u0 : List Change) (x y z : Text) (cands : List Text) (i : Nat) (s : Ed) : Prop :=
  (s.line.canGrow = true ∧ s.line.buf = x ++ y ++ z ∧ s.line.pos = blen x + blen y ∧
    s.changes.undos = .begin :: u0 ∧ i < cands.length) ∨ CurShown u0 x y z s

def CurPost (u0 : List Change) (x y : Text) (r : Option Cmd) (s' : Ed) : Prop :=
  ∀ cmd, r = some cmd → HasR u0 (blen x) y s'.changes.undos

/-- circular completion in emacs mode, accepted: the oldest change of the group is
    `Replace start y _` with `y` the original span -/
theorem completeCircular_accept_oldest (hvi : cfg.vi = false) (u0 : List Change) (x y z : Text) (cands : List Text) :
    ∀ (fuel mark i : Nat) (s : Ed), CurI u0 x y z cands i s →
      wp (completeCircular S U cfg (blen x) cands mark (x ++ y ++ z) (blen x + blen y) fuel i)
        (CurPost u0 x y) (fun _ _ => True) s := by
  have hbp : blen x + blen y ≤ blen (x ++ y ++ z) := by simp
  intro fuel
  induction fuel with
  | zero => intro mark i s _; unfold completeCircular; exact trivial
  | succ fuel ih =>
    intro mark i s hs
    unfold completeCircular
    have rest : ∀ (s1 : Ed), CurShown u0 x y z s1 →
        wp (do
          refreshLine S U cfg
          let cmd ← nextCmd S U cfg fuel true true
          let mark ← lowerMark mark
          match cmd with
          | .complete => completeCircular S U cfg (blen x) cands mark (x ++ y ++ z) (blen x + blen y) fuel (compNext cands.length i)
          | .completeBackward => completeCircular S U cfg (blen x) cands mark (x ++ y ++ z) (blen x + blen y) fuel (compPrev cands.length i)
          | .abort => do
            if i < cands.length then do
              lb S U (LB.update S U (x ++ y ++ z) (blen x + blen y))
              refreshLine S U cfg
            truncateChanges mark
            pure none
          | _ => do
            let _ ← changesEnd
            pure (some cmd)) (CurPost u0 x y) (fun _ _ => True) s1 := by
      intro s1 hs1
      simp only [wp_bind]
      refine wp_refreshLine S U cfg (fun s2 hc2 => ?_) (fun _ _ _ => trivial)
      obtain ⟨l2, _, c2, _⟩ := Ed.core_eq hc2
      refine wp_nextCmd_emacs_line_changes S U cfg hvi (fun cmd s3 l3 hch => ?_)
      rw [wp_lowerMark]
      have hsame : s3.changes = s2.changes → CurShown u0 x y z s3 := by
        intro e
        unfold CurShown
        rw [e, c2, l3, l2]; exact hs1
      have hR1 : HasR u0 (blen x) y s1.changes.undos := by
        obtain ⟨_, mid, _, _, pre, n, e, _⟩ := hs1
        exact ⟨pre, n, e⟩
      split
      · rcases hch with e | ⟨_, a, b, hab⟩
        · exact ih _ _ s3 (Or.inr (hsame e))
        · cases hab
      · rcases hch with e | ⟨_, a, b, hab⟩
        · exact ih _ _ s3 (Or.inr (hsame e))
        · cases hab
      · split
        · simp only [wp_bind]
          refine wp_lb_any S U (fun a l ns ho => ?_) trivial
          refine wp_refreshLine S U cfg (fun s5 _ => ?_) (fun _ _ _ => trivial)
          simp only [truncateChanges, wp_modify, wp_pure]
          intro cmd h; cases h
        · simp only [wp_pure, wp_bind, truncateChanges, wp_modify]
          intro cmd h; cases h
      · simp only [wp_bind, wp_changesEnd, wp_pure]
        intro cmd' _
        show HasR u0 (blen x) y s3.changes.end_.1.undos
        rcases hch with e | ⟨e, _⟩
        · rw [e, c2]; exact hR1.end_
        · rw [e, c2]; exact HasR.end_ (c := s1.changes.begin.1) (hR1.cons _)
    simp only []
    by_cases hlt : i < cands.length
    · rw [if_pos hlt]
      have hci : cands[i]? = some cands[i] := by simp [hlt]
      rw [hci]
      simp only [wp_bind, wp_getLine]
      -- the span before the show step and the stack after it
      have key : ∃ mid, s.line.canGrow = true ∧ s.line.buf = x ++ mid ++ z ∧ s.line.pos = blen x + blen mid ∧
          ∃ pre n, (s.changes.onNotifs S U.alnum [.repl (blen x) mid cands[i]]).undos
            = pre ++ .replace (blen x) y n :: .begin :: u0 ∧ (pre = [] → cands[i] = n) := by
        rcases hs with ⟨hg, hb, hp, hu, _⟩ | ⟨hg, mid, hb, hp, pre, n, hu, hm⟩
        · exact ⟨y, hg, hb, hp, [], cands[i], replace_first S U _ u0 hu _ _ _, fun _ => rfl⟩
        · refine ⟨mid, hg, hb, hp, ?_⟩
          cases pre with
          | nil =>
            have hmn := hm rfl
            subst hmn
            rcases replace_on_R S U s.changes u0 (blen x) y mid cands[i] hu with h | h
            · exact ⟨[], cands[i], h, fun _ => rfl⟩
            · exact ⟨[.replace (blen x) mid cands[i]], mid, h, fun h => by cases h⟩
          | cons p ps =>
            obtain ⟨p', ps', h⟩ := onNotifs_above S U [.repl (blen x) mid cands[i]] s.changes p ps _ hu
            exact ⟨p' :: ps', n, h, fun h => by cases h⟩
      obtain ⟨mid, hg, hb, hp, pre, n, hu, hm⟩ := key
      refine wp_lb S U (LB.replace_span S U x mid z cands[i] s.line hb hp) ?_
      have t := rest { s with line := { s.line with buf := x ++ cands[i] ++ z, pos := blen x + blen cands[i],
                                                     cap := growCap s.line.cap (blen x + blen z + blen cands[i]) },
                              changes := s.changes.onNotifs S U.alnum [.repl (blen x) mid cands[i]] }
        ⟨hg, cands[i], rfl, rfl, pre, n, hu, hm⟩
      simp only [wp_bind] at t ⊢
      exact t
    · rw [if_neg hlt]
      simp only [wp_bind]
      rcases hs with ⟨_, _, _, _, h⟩ | ⟨hg, mid, hb, hp, pre, n, hu, hm⟩
      · exact absurd h hlt
      · refine wp_lb_update S U hg hbp ?_
        have key : ∃ pre' n', (s.changes.onNotifs S U.alnum (updNotifs s.line.buf (x ++ y ++ z))).undos
            = pre' ++ .replace (blen x) y n' :: .begin :: u0 ∧ (pre' = [] → y = n') := by
          cases pre with
          | nil =>
            have hmn := hm rfl
            subst hmn
            rcases update_on_R S U s.changes _ (blen x) y mid s.line.buf (x ++ y ++ z) hu with ⟨h, ho, hn⟩ | ⟨p, ps, h⟩
            · refine ⟨[], mid, h, fun _ => ?_⟩
              rw [hb] at ho
              have hy : y = [] := by
                simp only [List.append_eq_nil_iff] at hn; exact hn.1.2
              have hmid : mid = [] := by
                simp only [List.append_eq_nil_iff] at ho; exact ho.1.2
              rw [hy, hmid]
            · exact ⟨p :: ps, mid, h, fun h => by cases h⟩
          | cons p ps =>
            obtain ⟨p', ps', h⟩ := onNotifs_above S U (updNotifs s.line.buf (x ++ y ++ z)) s.changes p ps _ hu
            exact ⟨p' :: ps', n, h, fun h => by cases h⟩
        obtain ⟨pre', n', hu', hm'⟩ := key
        have t := rest { s with line := s.line.updated (x ++ y ++ z) (blen x + blen y),
                                changes := s.changes.onNotifs S U.alnum (updNotifs s.line.buf (x ++ y ++ z)) }
          ⟨hg, y, rfl, rfl, pre', n', hu', hm'⟩
        simp only [wp_bind] at t ⊢
        exact t

end Rl
