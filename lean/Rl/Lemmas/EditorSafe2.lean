/-
  C17, second part: no-panic / `EdWF`-preservation for the remaining `execute` branches (overwrite,
  indent / dedent, history recall and anchored history search) — the ones left open are named in
  `Rl/Props/C17.lean`.
-/
import Rl.Lemmas.EditorSafe
import Rl.Props.C09
namespace Rl
open EM

theorem wp_liftP_ok {α : Type} {e : Except Panic α} {a : α} (he : e = .ok a)
    {Q : α → Ed → Prop} {E : Outcome → Ed → Prop} {s : Ed} (h : Q a s) : wp (EM.liftP e) Q E s := by
  subst he; exact h

section
variable (S : Segmenter) (U : UData) (cfg : EdCfg)

/-- `line.update(buf, pos)` for a cursor on a boundary of the new text -/
theorem wp_lb_update_safe {b : Text} {p : Nat} (hb : IsBoundary b p) {s : Ed} (h : EdWF cfg s)
    {Q : Unit → Ed → Prop} {E : Outcome → Ed → Prop} (hq : ∀ s', EdWF cfg s' → Q () s') :
    wp (lb S U (LB.update S U b p)) Q E s := by
  obtain ⟨l, ns, hu, hw, _⟩ := C03_update_total_wf_capacity S U b p s.line hb
  exact wp_lb S U hu (hq _ (EdWF.mk' hw h.saved h.ring))

theorem wp_backup_safe {s : Ed} (h : EdWF cfg s) {Q : Unit → Ed → Prop} {E : Outcome → Ed → Prop}
    (hq : ∀ s', EdWF cfg s' → Q () s') : wp (backup S U) Q E s := by
  have hl : IsBoundary s.line.buf s.line.pos := h.line
  obtain ⟨l, ns, hu, hw, _⟩ := C03_update_total_wf_capacity S U s.line.buf s.line.pos s.saved hl
  unfold wp backup
  rw [hu]
  exact hq _ (EdWF.mk' h.line hw h.ring)

theorem wp_restore_safe {s : Ed} (h : EdWF cfg s) {Q : Unit → Ed → Prop} {E : Outcome → Ed → Prop}
    (hq : ∀ s', EdWF cfg s' → Q () s') : wp (restore S U) Q E s := by
  unfold restore
  rw [wp_bind', wp_read]
  have hsv : IsBoundary s.saved.buf s.saved.pos := h.saved
  exact wp_lb_update_safe S U cfg hsv h hq

theorem wp_showEntry_safe {b : Text} {p : Nat} (hb : IsBoundary b p) {s : Ed} (h : EdWF cfg s)
    {Q : Unit → Ed → Prop} {E : Outcome → Ed → Prop} (hq : ∀ s', EdWF cfg s' → Q () s') :
    wp (showEntry S U b p) Q E s := by
  unfold showEntry
  simp only [wp_bind, wp_changesBegin]
  refine wp_lb_update_safe S U cfg hb (s := { s with changes := s.changes.begin.1 }) h fun s1 h1 => ?_
  simp only [wp_changesEnd, wp_pure]
  exact hq _ (EdWF.mk' h1.line h1.saved h1.ring)

theorem edwf_setHistIdx {s : Ed} (h : EdWF cfg s) (i : Nat) : EdWF cfg { s with histIdx := i } :=
  EdWF.mk' h.line h.saved h.ring

/-- `edit_history_next` (Up / Down / C-p / C-n), any back end -/
theorem safe_editHistoryNext (hnp : cfg.hinterPanicAt = none) (prev : Bool) {s : Ed} (h : EdWF cfg s) :
    Safe cfg (editHistoryNext S U cfg prev) s := by
  unfold Safe editHistoryNext
  simp only [wp_bind, wp_ite, wp_pure, wp_getHistIdx, wp_setHistIdx]
  -- the part after the index has been chosen, from any well-formed state
  have tail : ∀ (idx : Nat) (s1 : Ed), EdWF cfg s1 →
      wp (if idx < histLen cfg then
            match histGetDir cfg idx (if prev = true then Dir.reverse else Dir.forward) with
            | some (j, buf) => do
              setHistIdx j
              showEntry S U buf (blen buf)
              refreshLine S U cfg
            | none => pure ()
          else do restore S U; refreshLine S U cfg)
        (fun _ s' => EdWF cfg s') (fun o _ => o ≠ .panic) s1 := by
    intro idx s1 h1
    split
    · cases histGetDir cfg idx (if prev = true then Dir.reverse else Dir.forward) with
      | none => exact h1
      | some p =>
        obtain ⟨j, buf⟩ := p
        simp only [wp_bind, wp_setHistIdx]
        refine wp_showEntry_safe S U cfg (isBoundary_len buf) (edwf_setHistIdx cfg h1 j) fun s2 h2 => ?_
        exact safe_refreshLine S U cfg hnp h2
    · simp only [wp_bind]
      exact wp_restore_safe S U cfg h1 fun s2 h2 => safe_refreshLine S U cfg hnp h2
  split
  · exact h
  · cases prev with
    | true =>
      simp only [if_true, wp_pure]
      split
      · refine wp_backup_safe S U cfg h fun s1 h1 => ?_
        have t := tail (s.histIdx - 1) s1 h1
        simp only [wp_ite, wp_bind, if_true] at t
        exact t
      · split
        · exact h
        · have t := tail (s.histIdx - 1) s h
          simp only [wp_ite, wp_bind, if_true] at t
          exact t
    | false =>
      simp only [Bool.false_eq_true, if_false, Bool.and_false, wp_pure]
      split
      · exact h
      · have t := tail (s.histIdx + 1) _ (edwf_setHistIdx cfg h (s.histIdx + 1))
        simp only [wp_ite, wp_bind, Bool.false_eq_true, if_false] at t
        exact t

/-- `edit_history` (M-< / M->), any back end -/
theorem safe_editHistory (hnp : cfg.hinterPanicAt = none) (first : Bool) {s : Ed} (h : EdWF cfg s) :
    Safe cfg (editHistory S U cfg first) s := by
  unfold Safe editHistory
  simp only [wp_bind, wp_ite, wp_pure, wp_getHistIdx, wp_setHistIdx]
  have tail : ∀ (s1 : Ed), EdWF cfg s1 →
      wp (if first = true then
            match histGetDir cfg 0 Dir.forward with
            | some (j, buf) =>
              if (j == s.histIdx) = true then pure ()
              else do
                setHistIdx j
                showEntry S U buf (blen buf)
                refreshLine S U cfg
            | none => pure ()
          else do
            setHistIdx (histLen cfg)
            restore S U
            refreshLine S U cfg)
        (fun _ s' => EdWF cfg s') (fun o _ => o ≠ .panic) s1 := by
    intro s1 h1
    split
    · cases histGetDir cfg 0 Dir.forward with
      | none => exact h1
      | some p =>
        obtain ⟨j, buf⟩ := p
        simp only []
        split
        · exact h1
        · simp only [wp_bind, wp_setHistIdx]
          refine wp_showEntry_safe S U cfg (isBoundary_len buf) (edwf_setHistIdx cfg h1 j) fun s2 h2 => ?_
          exact safe_refreshLine S U cfg hnp h2
    · simp only [wp_bind, wp_setHistIdx]
      exact wp_restore_safe S U cfg (edwf_setHistIdx cfg h1 _) fun s2 h2 => safe_refreshLine S U cfg hnp h2
  split
  · exact h
  · cases first with
    | true =>
      simp only [if_true, wp_pure]
      split
      · refine wp_backup_safe S U cfg h fun s1 h1 => ?_
        have t := tail s1 h1
        simp only [wp_ite, wp_bind, if_true] at t
        exact t
      · split
        · exact h
        · have t := tail s h
          simp only [wp_ite, wp_bind, if_true] at t
          exact t
    | false =>
      simp only [Bool.false_eq_true, if_false, Bool.and_false, wp_pure]
      split
      · exact h
      · have t := tail s h
        simp only [wp_ite, wp_bind, wp_setHistIdx, Bool.false_eq_true, if_false] at t
        exact t


/-- `edit_overwrite_char` (vi replace mode) -/
theorem safe_editOverwriteChar (hnp : cfg.hinterPanicAt = none) (c : Char) {s : Ed} (h : EdWF cfg s) :
    Safe cfg (editOverwriteChar S U cfg c) s := by
  unfold Safe editOverwriteChar
  simp only [wp_bind, wp_getLine]
  obtain ⟨r, hr, hp⟩ := nextPos_ok S s.line 1 h.line
  refine wp_liftP_ok hr ?_
  cases r with
  | none => exact h
  | some e =>
    obtain ⟨hb, hlt⟩ := hp e rfl
    obtain ⟨l, ns, hrep, hw⟩ := C03_replace_total_wf S U s.line.pos e [c] s.line h.line hb (Nat.le_of_lt hlt)
    simp only [wp_bind]
    refine wp_lb S U hrep ?_
    exact safe_refreshLine S U cfg hnp (EdWF.mk' hw h.saved h.ring)

/-- `Indent` / `Dedent` (the amount is a `u8` in the code) -/
theorem safe_indent (hnp : cfg.hinterPanicAt = none) (hind : cfg.indentSize ≤ 255) (m : Movement) (d : Bool)
    {s : Ed} (h : EdWF cfg s) :
    wp (do if ← lb S U (LB.indent S U m cfg.indentSize d) then refreshLine S U cfg
           pure Status.proceed) (fun _ s' => EdWF cfg s') (fun o _ => o ≠ .panic) s := by
  simp only [wp_bind]
  have hop : LMSafe (LB.indent S U m cfg.indentSize d) := fun lb hw => C03_indent_total_wf S U m _ d lb hw hind
  refine wp_lb_safe S U cfg hop h fun b s1 h1 _ _ _ => ?_
  cases b with
  | true => simp only [if_true, wp_bind, wp_pure]; exact safe_refreshLine S U cfg hnp h1
  | false => exact h1

/-- `edit_history_search` (anchored, non-incremental; default back end) -/
theorem safe_editHistorySearch (hnp : cfg.hinterPanicAt = none) (dir : Dir) {s : Ed} (h : EdWF cfg s) :
    Safe cfg (editHistorySearch S U cfg dir) s := by
  unfold Safe editHistorySearch
  simp only [wp_bind, wp_ite, wp_pure, wp_getHistIdx, wp_setHistIdx, wp_getLine]
  split
  · exact h
  · split
    · exact h
    · have hwl : WF s.line := h.line
      obtain ⟨x, z, hb, hp⟩ := WF.split hwl
      have hs : sliceTo s.line.buf s.line.pos = .ok x := by rw [hb, hp]; exact sliceTo_mid x z
      refine wp_liftP_ok hs ?_
      cases hst : (memHist cfg).startsWith x (if (dir == Dir.reverse) = true then s.histIdx - 1 else s.histIdx + 1) dir with
      | none => exact EdWF.mk' h.line h.saved h.ring
      | some r =>
        obtain ⟨idx, entry, pos⟩ := r
        obtain ⟨_, hpre, hoff, _⟩ := C09_starts_with_sound _ _ _ _ _ _ _ hst
        simp only [wp_bind, wp_setHistIdx]
        have hbd : IsBoundary entry pos := by
          obtain ⟨rest, hr⟩ := hpre
          exact ⟨x, rest, hr.symm, hoff⟩
        refine wp_showEntry_safe S U cfg hbd (edwf_setHistIdx cfg (edwf_setHistIdx cfg h _) idx) fun s2 h2 => ?_
        exact safe_refreshLine S U cfg hnp h2

/-- `edit_yank_pop`, when the recorded size of the last yank still fits before the cursor -/
theorem safe_editYankPop (hnp : cfg.hinterPanicAt = none) (size : Nat) (t : Text) {s : Ed} (h : EdWF cfg s)
    (hsz : size ≤ s.line.pos) (hb : IsBoundary s.line.buf (s.line.pos - size)) :
    Safe cfg (editYankPop S U cfg size t) s := by
  unfold Safe editYankPop
  simp only [wp_bind, wp_changesBegin]
  obtain ⟨r, l, ns, hy, hw⟩ := C03_yankPop_total_wf S U size t s.line h.line hsz hb
  refine wp_lb S U (s := { s with changes := s.changes.begin.1 }) hy ?_
  cases r with
  | none =>
    simp only [wp_bind, wp_pure, wp_changesEnd]
    exact EdWF.mk' hw h.saved h.ring
  | some b =>
    simp only [wp_bind]
    refine wp_mono (safe_refreshLine S U cfg hnp (EdWF.mk' hw h.saved h.ring)) ?_ (fun _ _ h => h)
    intro _ s2 h2
    simp only [wp_changesEnd, wp_pure]
    exact EdWF.mk' h2.line h2.saved h2.ring

end
end Rl
