/-
  C02, towards "inputs over the alphabet ⇒ `LogAlpha`": the closure calculus at the line-buffer level.

  `AOp A op`: from a buffer written over the alphabet `A`, whenever `op` returns, the new buffer is over `A`, so is
  every text it answers (`AllA`) and every text it notifies (`NotifA`: what reaches the undo log and the kill ring).
  Rules for the primitives of `Rl/LineBuffer.lean` and a structural tactic `aop` (after N's `nc_auto`).
-/
import Rl.Lemmas.RenderLogAlpha
import Rl.Lemmas.LineBuffer
namespace Rl

/-- "every text inside this value is written over `A`" -/
class AllA (α : Type) where
  allA : (Char → Bool) → α → Prop

instance : AllA Nat := ⟨fun _ _ => True⟩
instance : AllA Bool := ⟨fun _ _ => True⟩
instance : AllA Unit := ⟨fun _ _ => True⟩
instance : AllA Text := ⟨OverA⟩
instance : AllA LB := ⟨fun A l => OverA A l.buf⟩
instance {α : Type} [AllA α] : AllA (Option α) := ⟨fun A o => ∀ a, o = some a → AllA.allA A a⟩
instance {α β : Type} [AllA α] [AllA β] : AllA (α × β) := ⟨fun A p => AllA.allA A p.1 ∧ AllA.allA A p.2⟩

def NotifA (A : Char → Bool) : Notif → Prop
  | .insChar _ c => A c = true
  | .insStr _ s => OverA A s
  | .del _ s _ => OverA A s
  | .repl _ old new => OverA A old ∧ OverA A new
  | _ => True

/-- the line-buffer operation `op` stays inside the alphabet -/
def AOp {α : Type} [AllA α] (A : Char → Bool) (op : LM α) : Prop :=
  ∀ lb r lb' ns, OverA A lb.buf → op lb = .ok (r, lb', ns) →
    OverA A lb'.buf ∧ AllA.allA A r ∧ ∀ n ∈ ns, NotifA A n

theorem OverA.append {A : Char → Bool} {a b : Text} (ha : OverA A a) (hb : OverA A b) : OverA A (a ++ b) := by
  intro c hc
  rcases List.mem_append.1 hc with h | h
  · exact ha c h
  · exact hb c h

theorem overA_split {A : Char → Bool} {t x z : Text} {p : Nat} (h : OverA A t) (hs : splitAtByte t p = some (x, z)) :
    OverA A x ∧ OverA A z := by
  obtain ⟨e, _⟩ := splitAtByte_some hs
  rw [e] at h
  exact ⟨h.append_left, h.append_right⟩

theorem overA_split3 {A : Char → Bool} {t x y z : Text} {a b : Nat} (h : OverA A t)
    (hs : split3 t a b = .ok (x, y, z)) : OverA A x ∧ OverA A y ∧ OverA A z := by
  unfold split3 at hs
  split at hs
  · cases h1 : splitAtByte t b with
    | none => rw [h1] at hs; cases hs
    | some p =>
      obtain ⟨ab, c⟩ := p
      rw [h1] at hs
      simp only [] at hs
      cases h2 : splitAtByte ab a with
      | none => rw [h2] at hs; cases hs
      | some q =>
        obtain ⟨x', y'⟩ := q
        rw [h2] at hs
        injection hs with hs
        simp only [Prod.mk.injEq] at hs
        obtain ⟨rfl, rfl, rfl⟩ := hs
        obtain ⟨hab, hc⟩ := overA_split h h1
        obtain ⟨hx, hy⟩ := overA_split hab h2
        exact ⟨hx, hy, hc⟩
  · cases hs

theorem overA_slice {A : Char → Bool} {t y : Text} {a b : Nat} (h : OverA A t) (hs : slice t a b = .ok y) :
    OverA A y := by
  unfold slice at hs
  cases h3 : split3 t a b with
  | error e => rw [h3] at hs; cases hs
  | ok xyz =>
    obtain ⟨x, y', z⟩ := xyz
    rw [h3] at hs
    cases hs
    exact (overA_split3 h h3).2.1

theorem overA_sliceTo {A : Char → Bool} {t y : Text} {b : Nat} (h : OverA A t) (hs : sliceTo t b = .ok y) :
    OverA A y := by
  unfold sliceTo at hs
  cases h3 : splitAtByte t b with
  | none => rw [h3] at hs; cases hs
  | some p => obtain ⟨x, z⟩ := p; rw [h3] at hs; cases hs; exact (overA_split h h3).1

theorem overA_sliceFrom {A : Char → Bool} {t y : Text} {b : Nat} (h : OverA A t) (hs : sliceFrom t b = .ok y) :
    OverA A y := by
  unfold sliceFrom at hs
  cases h3 : splitAtByte t b with
  | none => rw [h3] at hs; cases hs
  | some p => obtain ⟨x, z⟩ := p; rw [h3] at hs; cases hs; exact (overA_split h h3).2

namespace AOp
variable {α β : Type} [AllA α] [AllA β] {A : Char → Bool}

theorem pure {a : α} (h : AllA.allA A a) : AOp A (Pure.pure a : LM α) := by
  intro lb r lb' ns hb hr; cases hr; exact ⟨hb, h, fun _ hn => by cases hn⟩

theorem panic : AOp A (LM.panic : LM α) := by intro lb r lb' ns _ hr; cases hr

theorem get : AOp A LM.get := by
  intro lb r lb' ns hb hr; cases hr; exact ⟨hb, hb, fun _ hn => by cases hn⟩

theorem setPos (p : Nat) : AOp A (LM.setPos p) := by
  intro lb r lb' ns hb hr; cases hr; exact ⟨hb, trivial, fun _ hn => by cases hn⟩

theorem notify {n : Notif} (h : NotifA A n) : AOp A (LM.notify n) := by
  intro lb r lb' ns hb hr; cases hr
  exact ⟨hb, trivial, fun m hm => by simp at hm; subst hm; exact h⟩

theorem ro {f : LB → Except Panic α} (h : ∀ lb a, OverA A lb.buf → f lb = .ok a → AllA.allA A a) :
    AOp A (LM.ro f) := by
  intro lb r lb' ns hb hr
  unfold LM.ro at hr
  cases hf : f lb with
  | error e => rw [hf] at hr; cases hr
  | ok a => rw [hf] at hr; cases hr; exact ⟨hb, h lb _ hb hf, fun _ hn => by cases hn⟩

theorem lift {e : Except Panic α} (h : ∀ a, e = .ok a → AllA.allA A a) : AOp A (LM.lift e) := by
  intro lb r lb' ns hb hr
  unfold LM.lift at hr
  cases e with
  | error e => cases hr
  | ok a => cases hr; exact ⟨hb, h _ rfl, fun _ hn => by cases hn⟩

theorem bind {m : LM α} {k : α → LM β} (hm : AOp A m) (hk : ∀ a, AllA.allA A a → AOp A (k a)) :
    AOp A (m >>= k) := by
  intro lb r lb' ns hb hr
  obtain ⟨a, lb1, n1, n2, h1, h2, rfl⟩ := LM.bind_ok hr
  obtain ⟨hb1, ha, hn1⟩ := hm _ _ _ _ hb h1
  obtain ⟨hb2, hr2, hn2⟩ := hk a ha _ _ _ _ hb1 h2
  refine ⟨hb2, hr2, fun n hn => ?_⟩
  rcases List.mem_append.1 hn with h | h
  · exact hn1 n h
  · exact hn2 n h

theorem drain (a b : Nat) (d : Direction) : AOp A (LB.drain a b d) := by
  intro lb r lb' ns hb hr
  unfold LB.drain at hr
  cases h3 : split3 lb.buf a b with
  | error e => rw [h3] at hr; cases hr
  | ok xyz =>
    obtain ⟨x, y, z⟩ := xyz
    rw [h3] at hr
    cases hr
    obtain ⟨hx, hy, hz⟩ := overA_split3 hb h3
    exact ⟨hx.append hz, hy, fun n hn => by simp at hn; subst hn; exact hy⟩

theorem insertStr (S : Segmenter) (U : UData) (i : Nat) {s : Text} (hs : OverA A s) :
    AOp A (LB.insertStr S U i s) := by
  intro lb r lb' ns hb hr
  unfold LB.insertStr at hr
  cases h3 : splitAtByte lb.buf i with
  | none => rw [h3] at hr; cases hr
  | some p =>
    obtain ⟨x, z⟩ := p
    rw [h3] at hr
    cases hr
    obtain ⟨hx, hz⟩ := overA_split hb h3
    exact ⟨(hx.append hs).append hz, trivial, fun n hn => by simp at hn; subst hn; exact hs⟩

theorem insertCharAtPos {ch : Char} (hc : A ch = true) : AOp A (LB.insertCharAtPos ch) := by
  intro lb r lb' ns hb hr
  unfold LB.insertCharAtPos at hr
  cases h3 : splitAtByte lb.buf lb.pos with
  | none => rw [h3] at hr; cases hr
  | some p =>
    obtain ⟨x, z⟩ := p
    rw [h3] at hr
    cases hr
    obtain ⟨hx, hz⟩ := overA_split hb h3
    have h1 : OverA A [ch] := fun c hcm => by simp at hcm; subst hcm; exact hc
    exact ⟨(hx.append h1).append hz, trivial, fun n hn => by simp at hn; subst hn; exact hc⟩

theorem replace (S : Segmenter) (U : UData) (a b : Nat) {t : Text} (ht : OverA A t) :
    AOp A (LB.replace S U a b t) := by
  intro lb r lb' ns hb hr
  unfold LB.replace at hr
  cases h3 : split3 lb.buf a b with
  | error e => rw [h3] at hr; cases hr
  | ok xyz =>
    obtain ⟨x, y, z⟩ := xyz
    rw [h3] at hr
    cases hr
    obtain ⟨hx, hy, hz⟩ := overA_split3 hb h3
    exact ⟨(hx.append ht).append hz, trivial, fun n hn => by simp at hn; subst hn; exact ⟨hy, ht⟩⟩

end AOp

theorem overA_replicate {A : Char → Bool} {c : Char} (n : Nat) (h : A c = true) : OverA A (List.replicate n c) :=
  fun x hx => by rw [(List.mem_replicate.1 hx).2]; exact h

theorem overA_replicate_flatten {A : Char → Bool} {t : Text} (n : Nat) (h : OverA A t) :
    OverA A (List.replicate n t).flatten := by
  intro c hc
  obtain ⟨l, hl, hcl⟩ := List.mem_flatten.1 hc
  rw [(List.mem_replicate.1 hl).2] at hcl
  exact h c hcl

theorem allA_text {A : Char → Bool} {x : Text} (h : AllA.allA A x) : OverA A x := h

theorem allA_some {A : Char → Bool} {x : Option Text} {g : Text} (h : AllA.allA A x) (e : x = some g) :
    OverA A g := h g e

/-! ### the tactic -/

syntax "aop_extra" : tactic
macro_rules | `(tactic| aop_extra) => `(tactic| fail "no rule")

/-- closes the side goals `AllA.allA A r` -/
macro "alla" : tactic => `(tactic| first
  | trivial
  | assumption
  | (intro _ _; trivial)
  | (intro _ h; cases h; assumption)
  | (intro _ h; cases h; done)
  | exact ⟨by assumption, by assumption⟩
  | (apply overA_replicate; assumption)
  | (apply overA_replicate_flatten; assumption)
  | exact allA_text (by assumption)
  | exact allA_some (by assumption) rfl
  | exact allA_some (by assumption) (by assumption))

macro "aop_lift" : tactic => `(tactic| first
  | (intro _ _; trivial)
  | (intro _ he; exact overA_slice (by assumption) he)
  | (intro _ he; exact overA_sliceTo (by assumption) he)
  | (intro _ he; exact overA_sliceFrom (by assumption) he)
  | (intro _ _ _ _; trivial))

macro "aop_step" : tactic => `(tactic| first
  | exact AOp.pure (by alla)
  | with_reducible exact AOp.panic
  | with_reducible exact AOp.get
  | with_reducible exact AOp.setPos _
  | with_reducible exact AOp.drain _ _ _
  | aop_extra
  | (with_reducible refine AOp.insertStr _ _ _ ?_; alla)
  | (with_reducible refine AOp.insertCharAtPos ?_; assumption)
  | (with_reducible refine AOp.replace _ _ _ _ ?_; alla)
  | (refine AOp.ro ?_; intro _ _ _ _; alla)
  | (refine AOp.lift ?_; aop_lift)
  | (refine AOp.notify ?_; first | trivial | simp [NotifA])
  | with_reducible refine AOp.bind ?_ (fun _ _ => ?_)
  | dsimp only
  | split)
macro "aop" : tactic => `(tactic| repeat (any_goals aop_step))

section
variable {S : Segmenter} {U : UData} {A : Char → Bool}

/-! ### the operations -/

theorem aop_insert {ch : Char} (hc : A ch = true) (n : Nat) : AOp A (LB.insert S U ch n) := by
  unfold LB.insert; aop

theorem aop_yank {t : Text} (ht : OverA A t) (n : Nat) : AOp A (LB.yank S U t n) := by
  unfold LB.yank; aop

theorem aop_delete (n : Nat) : AOp A (LB.delete S U n) := by
  unfold LB.delete; aop

theorem aop_backspace (n : Nat) : AOp A (LB.backspace S U n) := by
  unfold LB.backspace; aop

macro_rules | `(tactic| aop_extra) => `(tactic| (with_reducible refine aop_insert ?_ _; assumption))
macro_rules | `(tactic| aop_extra) => `(tactic| (with_reducible refine aop_yank ?_ _; alla))
macro_rules | `(tactic| aop_extra) => `(tactic| with_reducible exact aop_delete _)
macro_rules | `(tactic| aop_extra) => `(tactic| with_reducible exact aop_backspace _)

theorem aop_moveBackward (n : Nat) : AOp A (LB.moveBackward S U n) := by
  unfold LB.moveBackward; aop
macro_rules | `(tactic| aop_extra) => `(tactic| with_reducible exact aop_moveBackward _)

theorem aop_moveForward (n : Nat) : AOp A (LB.moveForward S U n) := by
  unfold LB.moveForward; aop
macro_rules | `(tactic| aop_extra) => `(tactic| with_reducible exact aop_moveForward _)

theorem aop_moveHome  : AOp A (LB.moveHome S U) := by
  unfold LB.moveHome; aop
macro_rules | `(tactic| aop_extra) => `(tactic| with_reducible exact aop_moveHome )

theorem aop_moveEnd  : AOp A (LB.moveEnd S U) := by
  unfold LB.moveEnd; aop
macro_rules | `(tactic| aop_extra) => `(tactic| with_reducible exact aop_moveEnd )

theorem aop_moveBufferStart  : AOp A (LB.moveBufferStart S U) := by
  unfold LB.moveBufferStart; aop
macro_rules | `(tactic| aop_extra) => `(tactic| with_reducible exact aop_moveBufferStart )

theorem aop_moveBufferEnd  : AOp A (LB.moveBufferEnd S U) := by
  unfold LB.moveBufferEnd; aop
macro_rules | `(tactic| aop_extra) => `(tactic| with_reducible exact aop_moveBufferEnd )

theorem aop_moveToFirstPrint  : AOp A (LB.moveToFirstPrint S U) := by
  unfold LB.moveToFirstPrint; aop
macro_rules | `(tactic| aop_extra) => `(tactic| with_reducible exact aop_moveToFirstPrint )

theorem aop_moveToPrevWord (w : Word) (n : Nat) : AOp A (LB.moveToPrevWord S U w n) := by
  unfold LB.moveToPrevWord; aop
macro_rules | `(tactic| aop_extra) => `(tactic| with_reducible exact aop_moveToPrevWord _ _)

theorem aop_moveToNextWord (a : At) (w : Word) (n : Nat) : AOp A (LB.moveToNextWord S U a w n) := by
  unfold LB.moveToNextWord; aop
macro_rules | `(tactic| aop_extra) => `(tactic| with_reducible exact aop_moveToNextWord _ _ _)

theorem aop_moveTo (cs : CharSearch) (n : Nat) : AOp A (LB.moveTo S U cs n) := by
  unfold LB.moveTo; aop
macro_rules | `(tactic| aop_extra) => `(tactic| with_reducible exact aop_moveTo _ _)

theorem aop_moveToLineUp (n : Nat) (pc : Nat) : AOp A (LB.moveToLineUp S U n pc) := by
  unfold LB.moveToLineUp; aop
macro_rules | `(tactic| aop_extra) => `(tactic| with_reducible exact aop_moveToLineUp _ _)

theorem aop_moveToLineDown (n : Nat) (pc : Nat) : AOp A (LB.moveToLineDown S U n pc) := by
  unfold LB.moveToLineDown; aop
macro_rules | `(tactic| aop_extra) => `(tactic| with_reducible exact aop_moveToLineDown _ _)

theorem aop_setPosChecked (p : Nat) : AOp A (LB.setPosChecked S U p) := by
  intro lb r lb' ns hb hr
  unfold LB.setPosChecked at hr
  split at hr
  · cases hr; exact ⟨hb, trivial, fun _ hn => by cases hn⟩
  · cases hr
macro_rules | `(tactic| aop_extra) => `(tactic| with_reducible exact aop_setPosChecked _)

theorem aop_killLine  : AOp A (LB.killLine S U) := by
  unfold LB.killLine; aop
macro_rules | `(tactic| aop_extra) => `(tactic| with_reducible exact aop_killLine )

theorem aop_killBuffer  : AOp A (LB.killBuffer S U) := by
  unfold LB.killBuffer; aop
macro_rules | `(tactic| aop_extra) => `(tactic| with_reducible exact aop_killBuffer )

theorem aop_discardLine  : AOp A (LB.discardLine S U) := by
  unfold LB.discardLine; aop
macro_rules | `(tactic| aop_extra) => `(tactic| with_reducible exact aop_discardLine )

theorem aop_discardBuffer  : AOp A (LB.discardBuffer S U) := by
  unfold LB.discardBuffer; aop
macro_rules | `(tactic| aop_extra) => `(tactic| with_reducible exact aop_discardBuffer )

theorem aop_deletePrevWord (w : Word) (n : Nat) : AOp A (LB.deletePrevWord S U w n) := by
  unfold LB.deletePrevWord; aop
macro_rules | `(tactic| aop_extra) => `(tactic| with_reducible exact aop_deletePrevWord _ _)

theorem aop_deleteWord (a : At) (w : Word) (n : Nat) : AOp A (LB.deleteWord S U a w n) := by
  unfold LB.deleteWord; aop
macro_rules | `(tactic| aop_extra) => `(tactic| with_reducible exact aop_deleteWord _ _ _)

theorem aop_deleteTo (cs : CharSearch) (n : Nat) : AOp A (LB.deleteTo S U cs n) := by
  unfold LB.deleteTo; aop
macro_rules | `(tactic| aop_extra) => `(tactic| with_reducible exact aop_deleteTo _ _)

theorem aop_deleteRange (a : Nat) (b : Nat) : AOp A (LB.deleteRange S U a b) := by
  unfold LB.deleteRange; aop
macro_rules | `(tactic| aop_extra) => `(tactic| with_reducible exact aop_deleteRange _ _)

theorem aop_drainAround (a : Nat) (b : Nat) (c : Nat) : AOp A (LB.drainAround a b c) := by
  unfold LB.drainAround; aop
macro_rules | `(tactic| aop_extra) => `(tactic| with_reducible exact aop_drainAround _ _ _)

theorem aop_transposeChars  : AOp A (LB.transposeChars S U) := by
  unfold LB.transposeChars; aop
macro_rules | `(tactic| aop_extra) => `(tactic| with_reducible exact aop_transposeChars )

theorem aop_transposeWords (n : Nat) : AOp A (LB.transposeWords S U n) := by
  unfold LB.transposeWords; aop
macro_rules | `(tactic| aop_extra) => `(tactic| with_reducible exact aop_transposeWords _)

theorem aop_yankPop (k : Nat) (t : Text) (ht : OverA A t) : AOp A (LB.yankPop S U k t) := by
  unfold LB.yankPop; aop
macro_rules | `(tactic| aop_extra) => `(tactic| (with_reducible refine aop_yankPop _ _ ?_; alla))

theorem aop_update (t : Text) (p : Nat) (ht : OverA A t) : AOp A (LB.update S U t p) := by
  unfold LB.update; aop
macro_rules | `(tactic| aop_extra) => `(tactic| (with_reducible refine aop_update _ _ ?_; alla))

theorem aop_kill (m : Movement) : AOp A (LB.kill S U m) := by
  unfold LB.kill; aop
macro_rules | `(tactic| aop_extra) => `(tactic| with_reducible exact aop_kill _)


end
end Rl
