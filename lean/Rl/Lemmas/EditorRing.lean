/-
  C17 / C06: a frame fact for the kill ring.  Only `Kill`, `Replace`, `ViYankTo` (through `lbKill`),
  `Yank` and `YankPop` touch `ring`; every other command, and every non-command step of a read except
  the main loop's own reset, leaves it exactly as it was.  Same structural tactic as `EditorInp.lean`,
  one leaf lemma per primitive.
-/
import Rl.Lemmas.EditorM
import Rl.Lemmas.EditorFrame
import Rl.Lemmas.EditorInp
namespace Rl
open EM

/-- the projection -/
def Ed.ringOf (s : Ed) : KillRing := s.ring

section
variable (S : Segmenter) (U : UData) (cfg : EdCfg)

theorem keeps_ring_lb {α : Type} (op : LM α) : Keeps Ed.ringOf (lb S U op) := by
  constructor; intro s; unfold lb
  cases op s.line with
  | error e => rfl
  | ok r => rfl

theorem keeps_ring_lbQuiet {α : Type} (op : LM α) : Keeps Ed.ringOf (lbQuiet op) := by
  constructor; intro s; unfold lbQuiet
  cases op s.line with
  | error e => rfl
  | ok r => rfl

theorem keeps_ring_backup : Keeps Ed.ringOf (backup S U) := by
  constructor; intro s; unfold backup
  cases LB.update S U s.line.buf s.line.pos s.saved with
  | error e => rfl
  | ok r => rfl

theorem keeps_ring_setHistIdx (i : Nat) : Keeps Ed.ringOf (setHistIdx i) := ⟨fun _ => rfl⟩
theorem keeps_ring_truncateChanges (m : Nat) : Keeps Ed.ringOf (truncateChanges m) := ⟨fun _ => rfl⟩
theorem keeps_ring_changesBegin : Keeps Ed.ringOf changesBegin := ⟨fun _ => rfl⟩
theorem keeps_ring_changesEnd : Keeps Ed.ringOf changesEnd := ⟨fun _ => rfl⟩
theorem keeps_ring_getLine : Keeps Ed.ringOf getLine := ⟨fun _ => rfl⟩
theorem keeps_ring_getHistIdx : Keeps Ed.ringOf getHistIdx := ⟨fun _ => rfl⟩
theorem keeps_ring_getPromptCol : Keeps Ed.ringOf getPromptCol := ⟨fun _ => rfl⟩
theorem keeps_ring_lineEmpty : Keeps Ed.ringOf lineEmpty := ⟨fun _ => rfl⟩
theorem keeps_ring_hasHint : Keeps Ed.ringOf hasHint := ⟨fun _ => rfl⟩
theorem keeps_ring_logRender (g : Ed → RenderOp) : Keeps Ed.ringOf (logRender g) := ⟨fun _ => rfl⟩
theorem keeps_ring_setRefreshLayout (p : Text) (d : Bool) : Keeps Ed.ringOf (setRefreshLayout S U cfg p d) :=
  ⟨fun _ => rfl⟩

theorem keeps_ring_rdErr {α : Type} (e : RdErr) : Keeps Ed.ringOf (rdErr e : EM α) := by
  constructor; intro s; cases e <;> rfl

theorem keeps_ring_nextChar : Keeps Ed.ringOf nextChar := by
  constructor; intro s; unfold nextChar
  cases s.input.nextChar with
  | error e => exact (keeps_ring_rdErr e).h s
  | ok r => rfl

theorem keeps_ring_nextKey (sea : Bool) : Keeps Ed.ringOf (nextKey sea) := by
  constructor; intro s; unfold nextKey
  cases s.input.nextKey sea with
  | error e => exact (keeps_ring_rdErr e).h s
  | ok r => rfl

theorem keeps_ring_readPasted : Keeps Ed.ringOf readPasted := by
  constructor; intro s; unfold readPasted
  cases s.input.readPasted (s.input.size + 1) [] with
  | error e => exact (keeps_ring_rdErr e).h s
  | ok r => rfl

theorem keeps_ring_highlightCharStep : Keeps Ed.ringOf (highlightCharStep cfg) := by
  constructor; intro s; unfold highlightCharStep
  by_cases h1 : cfg.hasHelper = true
  · by_cases h2 : cfg.highlightChar s.line.buf s.line.pos = true
    · simp only [h1, h2, if_true]; rfl
    · by_cases h3 : s.highlightChar = true
      · simp only [h1, h2, h3, if_true, if_false, Bool.false_eq_true]; rfl
      · simp only [h1, h2, h3, if_true, if_false, Bool.false_eq_true]
  · simp only [h1, if_false, Bool.false_eq_true]

theorem keeps_ring_updateHint : Keeps Ed.ringOf (updateHint cfg) := by
  constructor; intro s; unfold updateHint
  by_cases h1 : cfg.hasHelper = true
  · by_cases h2 : (cfg.hinterPanicAt == some (cfg.hintCallsBase + (s.hintCalls + 1))) = true
    · simp only [h1, h2, if_true]; rfl
    · simp only [h1, h2, if_true, if_false, Bool.false_eq_true]; rfl
  · simp only [h1, if_false, Bool.false_eq_true]; rfl

theorem keeps_ring_customBinding (keys : List KeyEvent) (n : Nat) (p : Bool) :
    Keeps Ed.ringOf (customBinding cfg keys n p) := by
  constructor; intro s; unfold customBinding
  cases cfg.binds.find? (fun b => b.1 == keys) with
  | none => rfl
  | some b => rfl

end

macro "em_ring_step0" : tactic => `(tactic| first
  | intro _
  | with_reducible (first
    | exact Keeps.pure _
    | apply Keeps.bind
    | apply Keeps.bind'
    | apply Keeps.ite
    | assumption
    | exact Keeps.exit _
    | exact Keeps.liftP _
    | exact Keeps.get
    | exact Keeps.read _
    | exact keeps_ring_lb _ _ _ | exact keeps_ring_lbQuiet _
    | exact keeps_ring_backup _ _
    | exact keeps_ring_setHistIdx _
    | exact keeps_ring_truncateChanges _ | exact keeps_ring_changesBegin | exact keeps_ring_changesEnd
    | exact keeps_ring_getLine | exact keeps_ring_getHistIdx | exact keeps_ring_getPromptCol
    | exact keeps_ring_lineEmpty | exact keeps_ring_hasHint | exact keeps_ring_logRender _
    | exact keeps_ring_setRefreshLayout _ _ _ _ _ | exact keeps_ring_nextChar | exact keeps_ring_nextKey _
    | exact keeps_ring_highlightCharStep _ | exact keeps_ring_updateHint _)
  | ((with_reducible apply Keeps.modify) <;> (intro _; rfl))
  | split
  | dsimp only)

syntax "em_ring0" : tactic
macro_rules
  | `(tactic| em_ring0) => `(tactic| repeat' em_ring_step0)

section
variable (S : Segmenter) (U : UData) (cfg : EdCfg)

theorem keeps_ring_refreshLine : Keeps Ed.ringOf (refreshLine S U cfg) := by
  unfold refreshLine; em_ring0
theorem keeps_ring_refreshLineWithMsg (m : Option Text) : Keeps Ed.ringOf (refreshLineWithMsg S U cfg m) := by
  unfold refreshLineWithMsg; em_ring0
theorem keeps_ring_refreshPromptAndLine (p : Text) : Keeps Ed.ringOf (refreshPromptAndLine S U cfg p) := by
  unfold refreshPromptAndLine; em_ring0
theorem keeps_ring_moveCursor : Keeps Ed.ringOf (moveCursor S U cfg) := by
  unfold moveCursor; em_ring0

end

macro "em_ring_step" : tactic => `(tactic| first
  | with_reducible (first
    | exact keeps_ring_refreshLine _ _ _ | exact keeps_ring_refreshLineWithMsg _ _ _ _
    | exact keeps_ring_refreshPromptAndLine _ _ _ _ | exact keeps_ring_moveCursor _ _ _)
  | em_ring_step0)

syntax "em_ring" ("[" term,* "]")? : tactic
macro_rules
  | `(tactic| em_ring) => `(tactic| repeat' em_ring_step)
  | `(tactic| em_ring [$ts,*]) =>
    `(tactic| repeat' (first | (with_reducible first $[| apply $ts]*) | em_ring_step))

section
variable (S : Segmenter) (U : UData) (cfg : EdCfg)

theorem keeps_ring_editInsert (c : Char) (n : Nat) : Keeps Ed.ringOf (editInsert S U cfg c n) := by
  unfold editInsert; em_ring

theorem keeps_ring_validate : Keeps Ed.ringOf (validate S U cfg) := by
  unfold validate; em_ring


theorem keeps_ring_restore : Keeps Ed.ringOf (restore S U) := by
  unfold restore; em_ring
theorem keeps_ring_showEntry (b : Text) (p : Nat) : Keeps Ed.ringOf (showEntry S U b p) := by
  unfold showEntry; em_ring
theorem keeps_ring_editMove (op : LM Bool) : Keeps Ed.ringOf (editMove S U cfg op) := by
  unfold editMove; em_ring
theorem keeps_ring_grouped (op : LM Bool) : Keeps Ed.ringOf (grouped S U cfg op) := by
  unfold grouped; em_ring
theorem keeps_ring_editYank (t : Text) (a : Anchor) (n : Nat) : Keeps Ed.ringOf (editYank S U cfg t a n) := by
  unfold editYank; em_ring
theorem keeps_ring_editInsertText (t : Text) : Keeps Ed.ringOf (editInsertText S U cfg t) := by
  unfold editInsertText; em_ring
theorem keeps_ring_editReplaceChar (c : Char) (n : Nat) : Keeps Ed.ringOf (editReplaceChar S U cfg c n) := by
  unfold editReplaceChar; em_ring
theorem keeps_ring_editOverwriteChar (c : Char) : Keeps Ed.ringOf (editOverwriteChar S U cfg c) := by
  unfold editOverwriteChar; em_ring
theorem keeps_ring_completeHintLine : Keeps Ed.ringOf (completeHintLine S U cfg) := by
  unfold completeHintLine; em_ring
theorem keeps_ring_editHistoryNext (prev : Bool) : Keeps Ed.ringOf (editHistoryNext S U cfg prev) := by
  have h1 := keeps_ring_restore S U
  have h2 := fun b p => keeps_ring_showEntry S U b p
  unfold editHistoryNext; em_ring [h2]
theorem keeps_ring_editHistory (first : Bool) : Keeps Ed.ringOf (editHistory S U cfg first) := by
  have h1 := keeps_ring_restore S U
  have h2 := fun b p => keeps_ring_showEntry S U b p
  unfold editHistory; em_ring [h2]
theorem keeps_ring_editHistorySearch (d : Dir) : Keeps Ed.ringOf (editHistorySearch S U cfg d) := by
  have h2 := fun b p => keeps_ring_showEntry S U b p
  unfold editHistorySearch; em_ring [h2]
theorem keeps_ring_execAccept (aim : Bool) : Keeps Ed.ringOf (execAccept S U cfg aim) := by
  have h1 := keeps_ring_validate S U cfg
  have h2 := fun c n => keeps_ring_editInsert S U cfg c n
  unfold execAccept; em_ring [h2]

/-- the commands that touch the kill ring -/
def Cmd.usesRing : Cmd → Bool
  | .kill _ | .replace _ _ | .viYankTo _ | .yank _ _ | .yankPop => true
  | _ => false

/-- **every command but `Kill`, `Replace`, `ViYankTo`, `Yank`, `YankPop` leaves the kill ring exactly as
    it was** (whether it returns or exits) -/
theorem keeps_ring_execute (cmd : Cmd) (hc : cmd.usesRing = false) : Keeps Ed.ringOf (execute S U cfg cmd) := by
  have a1 := fun c n => keeps_ring_editInsert S U cfg c n
  have a2 := keeps_ring_validate S U cfg
  have a3 := fun t a n => keeps_ring_editYank S U cfg t a n
  have a6 := fun t => keeps_ring_editInsertText S U cfg t
  have a7 := fun c n => keeps_ring_editReplaceChar S U cfg c n
  have a8 := fun c => keeps_ring_editOverwriteChar S U cfg c
  have a9 := keeps_ring_completeHintLine S U cfg
  have a10 := fun p => keeps_ring_editHistoryNext S U cfg p
  have a11 := fun p => keeps_ring_editHistory S U cfg p
  have a12 := fun d => keeps_ring_editHistorySearch S U cfg d
  have a13 := fun a => keeps_ring_execAccept S U cfg a
  have m1 := fun op => keeps_ring_editMove S U cfg op
  have g1 := fun op => keeps_ring_grouped S U cfg op
  cases cmd <;> (first | exact Bool.noConfusion hc | unfold execute)
  case move m => cases m <;> em_ring [a1, a3, a6, a7, a8, a10, a11, a12, a13, m1, g1]
  case undo n =>
    constructor
    intro s
    simp only [EM.bind_apply, EM.pure_apply, EM.get]
    cases hu : s.changes.undo S U s.line n with
    | error e => rfl
    | ok r =>
      obtain ⟨c, l, undone⟩ := r
      simp only [EM.set]
      have hk : Keeps Ed.ringOf (do
          if undone then refreshLine S U cfg
          pure Status.proceed : EM Status) := by em_ring
      exact hk.h { s with changes := c, line := l }
  all_goals em_ring [a1, a3, a6, a7, a8, a10, a11, a12, a13, m1, g1]

/-! ### the non-command steps of a read -/

theorem keeps_ring_nextCmd (fuel : Nat) (sea iep : Bool) : Keeps Ed.ringOf (nextCmd S U cfg fuel sea iep) :=
  Keeps.comp (fun c : CoreNC => c.ring) (keeps_nextCmd S U cfg fuel sea iep)

theorem keeps_ring_lowerMark (m : Nat) : Keeps Ed.ringOf (lowerMark m) := ⟨fun _ => rfl⟩

theorem keeps_ring_completeCircular (start : Nat) (cands : List Text) (mark : Nat) (backup : Text) (backupPos : Nat) :
    ∀ (fuel i : Nat), Keeps Ed.ringOf (completeCircular S U cfg start cands mark backup backupPos fuel i) := by
  have h1 := fun fuel sea iep => keeps_ring_nextCmd S U cfg fuel sea iep
  have h2 := fun m => keeps_ring_lowerMark m
  intro fuel
  induction fuel generalizing mark with
  | zero => intro i; unfold completeCircular; em_ring
  | succ k ih => intro i; unfold completeCircular; em_ring [ih, h1, h2]

theorem keeps_ring_completeLine (fuel : Nat) : Keeps Ed.ringOf (completeLine S U cfg fuel) := by
  have h1 := fun fuel sea iep => keeps_ring_nextCmd S U cfg fuel sea iep
  have h3 := fun start cands mark backup backupPos fuel i =>
    keeps_ring_completeCircular S U cfg start cands mark backup backupPos fuel i
  have m1 := fun op => keeps_ring_editMove S U cfg op
  unfold completeLine; em_ring [h1, h3, m1]

theorem keeps_ring_searchLoop (mark : Nat) (backup : Text) (backupPos : Nat) :
    ∀ (fuel : Nat) (sb : Text) (hi : Nat) (d : Dir) (succ : Bool),
      Keeps Ed.ringOf (searchLoop S U cfg mark backup backupPos fuel sb hi d succ) := by
  have h1 := fun fuel sea iep => keeps_ring_nextCmd S U cfg fuel sea iep
  have h2 := fun m => keeps_ring_lowerMark m
  intro fuel
  induction fuel generalizing mark with
  | zero => intro sb hi d succ; unfold searchLoop; em_ring
  | succ k ih => intro sb hi d succ; unfold searchLoop; em_ring [ih, h1, h2]

theorem keeps_ring_reverseIncrementalSearch (fuel : Nat) :
    Keeps Ed.ringOf (reverseIncrementalSearch S U cfg fuel) := by
  have h3 := fun mark backup backupPos fuel sb hi d succ =>
    keeps_ring_searchLoop S U cfg mark backup backupPos fuel sb hi d succ
  unfold reverseIncrementalSearch; em_ring [h3]

/-- **the dispatch loop (completion, incremental search) leaves the kill ring exactly as it was** -/
theorem keeps_ring_preCmds : ∀ (fuel : Nat) (cmd : Cmd), Keeps Ed.ringOf (preCmds S U cfg fuel cmd) := by
  intro fuel
  induction fuel with
  | zero => intro cmd; unfold preCmds; em_ring
  | succ k ih =>
    intro cmd
    have h1 := keeps_ring_completeLine S U cfg k
    have h2 := keeps_ring_reverseIncrementalSearch S U cfg k
    unfold preCmds; em_ring [ih]

/-! ### `PopOK`: what `YankPop` needs, and how the read loop keeps it -/

/-- the last ring action is not a yank -/
def NoYank (s : Ed) : Prop := ∀ size, s.ring.lastAction ≠ .yank size

/-- the cross-step fact `YankPop` needs: the text of the last yank stands right before the cursor -/
def PopOK (s : Ed) : Prop :=
  ∀ size, s.ring.lastAction = .yank size → size ≤ s.line.pos ∧ IsBoundary s.line.buf (s.line.pos - size)

/-- emacs mode: `PopOK` (in vi mode `YankPop` is never executed) -/
def PopI (cfg : EdCfg) (s : Ed) : Prop := cfg.vi = false → PopOK s

/-- what holds when a command is about to be executed: `PopOK`, and the last action has been reset
    unless the command is one of those the main loop does not reset for -/
def PopPre (cfg : EdCfg) (cmd : Cmd) (s : Ed) : Prop :=
  cfg.vi = false → PopOK s ∧ (cmd.shouldResetKillRing = true → NoYank s)

theorem NoYank.popOK {s : Ed} (h : NoYank s) : PopOK s := fun size hs => absurd hs (h size)

theorem NoYank.of_ring {s s' : Ed} (h : NoYank s) (hr : s'.ring = s.ring) : NoYank s' := by
  intro size; rw [hr]; exact h size

theorem PopOK.of_eq {s s' : Ed} (h : PopOK s) (hl : s'.line = s.line) (hr : s'.ring = s.ring) : PopOK s' := by
  intro size hs; rw [hr] at hs; rw [hl]; exact h size hs

theorem noYank_reset (s : Ed) : NoYank { s with ring := s.ring.reset } := by
  intro size h; cases h

theorem PopPre.of_noYank {cmd : Cmd} {s : Ed} (h : NoYank s) : PopPre cfg cmd s := fun _ => ⟨h.popOK, fun _ => h⟩

/-- the dispatch loop: it hands back the command it was given in the state it was given, or it ran a
    completion / an incremental search — for which the last action had been reset, and it keeps the ring -/
theorem pop_preCmds (fuel : Nat) (cmd0 : Cmd) {s : Ed} (hp : PopPre cfg cmd0 s) :
    wp (preCmds S U cfg fuel cmd0)
      (fun r s' => match r with | some cmd => PopPre cfg cmd s' | none => PopI cfg s') (fun _ _ => True) s := by
  have key : cmd0.shouldResetKillRing = true →
      wp (preCmds S U cfg fuel cmd0)
        (fun r s' => match r with | some cmd => PopPre cfg cmd s' | none => PopI cfg s') (fun _ _ => True) s := by
    intro hreset
    refine wp_mono ((keeps_ring_preCmds S U cfg fuel cmd0).wp s) ?_ (fun _ _ _ => trivial)
    intro r s' hr
    by_cases hvi : cfg.vi = false
    · have hn : NoYank s' := ((hp hvi).2 hreset).of_ring hr
      cases r with
      | some cmd => exact PopPre.of_noYank cfg hn
      | none => exact fun _ => hn.popOK
    · cases r with
      | some cmd => exact fun h => absurd h hvi
      | none => exact fun h => absurd h hvi
  by_cases c1 : (cmd0 == .complete && cfg.hasHelper) = true
  · apply key
    have : cmd0 = .complete := by
      simp only [Bool.and_eq_true, beq_iff_eq] at c1; exact c1.1
    subst this; rfl
  · by_cases c2 : (cmd0 == .reverseSearchHistory) = true
    · apply key
      have : cmd0 = .reverseSearchHistory := by simpa using c2
      subst this; rfl
    · cases fuel with
      | zero => unfold preCmds; exact trivial
      | succ k =>
        unfold preCmds
        rw [if_neg c1, if_neg c2, wp_pure]
        exact hp

end
end Rl
