/-
  C02: the line-buffer operations the editor calls are *faithful* (`LBFaithful`, `Rl/Lemmas/RenderLogExec.lean`):
  a motion leaves the text alone and answers `false` only if the cursor did not move; an edit that answers
  "nothing changed" (`false` / `None`) changed neither text nor cursor; an Undo that undid nothing left the
  line alone.  Statements about `Rl/LineBuffer.lean` / `Rl/Undo.lean` alone, for every segmenter and every
  Unicode data.
-/
import Rl.Lemmas.RenderLogExec
import Rl.Lemmas.LineBuffer
import Rl.Lemmas.LineBufferSafe
import Rl.Lemmas.KillSpan
set_option linter.unusedVariables false
namespace Rl
open Rl.Spec

/-! ### motions -/

/-- the shape of five motions: look a position up, go there and say `true`, else say `false` -/
theorem moveOKB_ro (f : LB → Except Panic (Option Nat)) :
    MoveOKB (do match ← LM.ro f with
                | some p => LM.setPos p; return true
                | none => return false) := by
  intro lb r lb' ns _ h
  cases hf : f lb with
  | error e => simp [LM.bind_apply, LM.ro, hf] at h
  | ok o =>
    cases o with
    | none =>
      simp [LM.bind_apply, LM.ro, hf] at h
      obtain ⟨rfl, rfl, rfl⟩ := h
      exact ⟨rfl, fun _ => rfl⟩
    | some p =>
      simp [LM.bind_apply, LM.ro, hf, LM.setPos] at h
      obtain ⟨rfl, rfl, rfl⟩ := h
      exact ⟨rfl, fun h => by cases h⟩

theorem faithful_moveBackward (S : Segmenter) (U : UData) (n : Nat) : MoveOKB (LB.moveBackward S U n) :=
  moveOKB_ro _

theorem faithful_moveForward (S : Segmenter) (U : UData) (n : Nat) : MoveOKB (LB.moveForward S U n) :=
  moveOKB_ro _

theorem faithful_moveToPrevWord (S : Segmenter) (U : UData) (w : Word) (n : Nat) :
    MoveOKB (LB.moveToPrevWord S U w n) := moveOKB_ro _

theorem faithful_moveToNextWord (S : Segmenter) (U : UData) (a : At) (w : Word) (n : Nat) :
    MoveOKB (LB.moveToNextWord S U a w n) := moveOKB_ro _

theorem faithful_moveTo (S : Segmenter) (U : UData) (cs : CharSearch) (n : Nat) :
    MoveOKB (LB.moveTo S U cs n) := moveOKB_ro _

theorem faithful_moveBufferStart (S : Segmenter) (U : UData) : MoveOKB (LB.moveBufferStart S U) := by
  intro lb r lb' ns _ h
  unfold LB.moveBufferStart at h
  by_cases hc : lb.pos > 0
  · simp [LM.bind_apply, LM.get, hc, LM.setPos] at h
    obtain ⟨rfl, rfl, rfl⟩ := h
    exact ⟨rfl, fun h => by cases h⟩
  · simp [LM.bind_apply, LM.get, hc] at h
    obtain ⟨rfl, rfl, rfl⟩ := h
    exact ⟨rfl, fun _ => rfl⟩

theorem faithful_moveBufferEnd (S : Segmenter) (U : UData) : MoveOKB (LB.moveBufferEnd S U) := by
  intro lb r lb' ns _ h
  unfold LB.moveBufferEnd at h
  by_cases hc : lb.pos = lb.len
  · simp [LM.bind_apply, LM.get, hc] at h
    obtain ⟨rfl, rfl, rfl⟩ := h
    exact ⟨rfl, fun _ => rfl⟩
  · simp [LM.bind_apply, LM.get, hc, LM.setPos] at h
    obtain ⟨rfl, rfl, rfl⟩ := h
    exact ⟨rfl, fun h => by cases h⟩

theorem faithful_moveHome (S : Segmenter) (U : UData) : MoveOKB (LB.moveHome S U) := by
  intro lb r lb' ns _ h
  unfold LB.moveHome at h
  cases hs : LB.startOfLine lb with
  | error e => simp [LM.bind_apply, LM.ro, hs] at h
  | ok st =>
    by_cases hc : lb.pos > st
    · simp [LM.bind_apply, LM.ro, hs, LM.get, hc, LM.setPos] at h
      obtain ⟨rfl, rfl, rfl⟩ := h
      exact ⟨rfl, fun h => by cases h⟩
    · simp [LM.bind_apply, LM.ro, hs, LM.get, hc] at h
      obtain ⟨rfl, rfl, rfl⟩ := h
      exact ⟨rfl, fun _ => rfl⟩

theorem faithful_moveToFirstPrint (S : Segmenter) (U : UData) : MoveOKB (LB.moveToFirstPrint S U) := by
  intro lb r lb' ns _ h
  unfold LB.moveToFirstPrint at h
  cases hs : LB.firstPrint S U lb with
  | error e => simp [LM.bind_apply, LM.ro, hs] at h
  | ok p =>
    simp [LM.bind_apply, LM.ro, hs, LM.get, LM.setPos] at h
    obtain ⟨rfl, rfl, _⟩ := h
    exact ⟨rfl, fun hr => by simpa using hr⟩

theorem faithful_moveEnd (S : Segmenter) (U : UData) : MoveOKB (LB.moveEnd S U) := by
  intro lb r lb' ns _ h
  unfold LB.moveEnd at h
  cases hs : LB.endOfLine lb with
  | error e => simp [LM.bind_apply, LM.ro, hs] at h
  | ok e =>
    by_cases hc : lb.pos = e
    · simp [LM.bind_apply, LM.ro, hs, LM.get, hc] at h
      obtain ⟨rfl, rfl, rfl⟩ := h
      exact ⟨rfl, fun _ => rfl⟩
    · simp [LM.bind_apply, LM.ro, hs, LM.get, hc, LM.setPos] at h
      obtain ⟨rfl, rfl, rfl⟩ := h
      exact ⟨rfl, fun h => by cases h⟩

/-- a `PosOnly` operation that says `false` only on a path that ends in `pure false` right at the start -/
theorem moveOKB_of_posOnly {op : LM Bool} (hp : PosOnly op)
    (hfalse : ∀ lb lb' ns, op lb = .ok (false, lb', ns) → lb'.pos = lb.pos) : MoveOKB op := by
  intro lb r lb' ns _ h
  refine ⟨(hp.h _ _ _ _ h).1, fun hr => ?_⟩
  subst hr
  exact hfalse _ _ _ h

/-! ### a small calculus for "said nothing changed ⇒ changed nothing" -/

/-- `m` leaves the state alone (it may notify) -/
def Hush {α : Type} (m : LM α) : Prop := ∀ lb a lb' ns, m lb = .ok (a, lb', ns) → lb' = lb

/-- every answer of `m` satisfies `P` -/
def Ans {α : Type} (P : α → Prop) (m : LM α) : Prop := ∀ lb a lb' ns, m lb = .ok (a, lb', ns) → P a

/-- `EditOK` without the boundary hypothesis -/
def NC {α : Type} (chg : α → Bool) (m : LM α) : Prop :=
  ∀ lb r lb' ns, m lb = .ok (r, lb', ns) → chg r = false → lb'.buf = lb.buf ∧ lb'.pos = lb.pos

/-- `m` leaves the state alone and answers `a` -/
def HushRet {α : Type} (a : α) (m : LM α) : Prop := ∀ lb r lb' ns, m lb = .ok (r, lb', ns) → r = a ∧ lb' = lb

theorem NC.editOK {α : Type} {chg : α → Bool} {m : LM α} (h : NC chg m) : EditOK m chg :=
  fun lb r lb' ns _ hr hc => h lb r lb' ns hr hc

namespace Hush
variable {α β : Type}
theorem get : Hush LM.get := by intro lb a lb' ns h; cases h; rfl
theorem pure (a : α) : Hush (Pure.pure a : LM α) := by intro lb r lb' ns h; cases h; rfl
theorem notify (n : Notif) : Hush (LM.notify n) := by intro lb r lb' ns h; cases h; rfl
theorem panic : Hush (LM.panic : LM α) := by intro lb r lb' ns h; cases h
theorem ro (f : LB → Except Panic α) : Hush (LM.ro f) := by
  intro lb r lb' ns h; unfold LM.ro at h; split at h <;> cases h; rfl
theorem lift (e : Except Panic α) : Hush (LM.lift e) := by
  intro lb r lb' ns h; unfold LM.lift at h; split at h <;> cases h; rfl
theorem bind {m : LM α} {k : α → LM β} (hm : Hush m) (hk : ∀ a, Hush (k a)) : Hush (m >>= k) := by
  intro lb r lb' ns h
  obtain ⟨a, lb1, n1, n2, h1, h2, rfl⟩ := LM.bind_ok h
  rw [hk a _ _ _ _ h2, hm _ _ _ _ h1]
end Hush

namespace Ans
variable {α β : Type}
theorem bind {P : β → Prop} {m : LM α} {k : α → LM β} (hk : ∀ a, Ans P (k a)) : Ans P (m >>= k) := by
  intro lb r lb' ns h
  obtain ⟨a, lb1, n1, n2, h1, h2, rfl⟩ := LM.bind_ok h
  exact hk a _ _ _ _ h2
theorem pure {P : α → Prop} {a : α} (h : P a) : Ans P (Pure.pure a : LM α) := by
  intro lb r lb' ns hr; cases hr; exact h
theorem panic {P : α → Prop} : Ans P (LM.panic : LM α) := by intro lb r lb' ns hr; cases hr
end Ans

namespace NC
variable {α β : Type}
theorem of_ret {chg : α → Bool} {m : LM α} (h : Ans (fun a => chg a = true) m) : NC chg m := by
  intro lb r lb' ns hr hc
  have := h _ _ _ _ hr
  simp only at this
  rw [this] at hc; cases hc
theorem pure {chg : α → Bool} (a : α) : NC chg (Pure.pure a : LM α) := by
  intro lb r lb' ns hr _; cases hr; exact ⟨rfl, rfl⟩
theorem panic {chg : α → Bool} : NC chg (LM.panic : LM α) := by intro lb r lb' ns hr; cases hr
theorem bind_quiet {chg : β → Bool} {m : LM α} {k : α → LM β} (hm : Hush m) (hk : ∀ a, NC chg (k a)) :
    NC chg (m >>= k) := by
  intro lb r lb' ns h hc
  obtain ⟨a, lb1, n1, n2, h1, h2, rfl⟩ := LM.bind_ok h
  have := hm _ _ _ _ h1
  subst this
  exact hk a _ _ _ _ h2 hc
/-- the answer of `m` is handed on unchanged by a quiet tail (`notify StopKill; return killed`) -/
theorem bind_tail {chg : α → Bool} {chg' : β → Bool} {m : LM α} {k : α → LM β} (hm : NC chg m)
    (hk : ∀ a, ∃ b, chg' b = chg a ∧ HushRet b (k a)) : NC chg' (m >>= k) := by
  intro lb r lb' ns h hc
  obtain ⟨a, lb1, n1, n2, h1, h2, rfl⟩ := LM.bind_ok h
  obtain ⟨b, hb, hq⟩ := hk a
  obtain ⟨rfl, rfl⟩ := hq _ _ _ _ h2
  exact hm _ _ _ _ h1 (by rw [← hb]; exact hc)
end NC

theorem HushRet.pure {α : Type} (a : α) : HushRet a (Pure.pure a : LM α) := by
  intro lb r lb' ns h; cases h; exact ⟨rfl, rfl⟩
theorem HushRet.bind_quiet {α β : Type} {b : β} {m : LM α} {k : α → LM β} (hm : Hush m)
    (hk : ∀ a, HushRet b (k a)) : HushRet b (m >>= k) := by
  intro lb r lb' ns h
  obtain ⟨a, lb1, n1, n2, h1, h2, rfl⟩ := LM.bind_ok h
  obtain ⟨rfl, rfl⟩ := hk a _ _ _ _ h2
  exact ⟨rfl, hm _ _ _ _ h1⟩

syntax "nc_extra" : tactic
macro_rules | `(tactic| nc_extra) => `(tactic| fail "no rule")

macro "quiet_step" : tactic => `(tactic| first
  | with_reducible refine Hush.bind ?_ (fun _ => ?_) | with_reducible exact Hush.get | with_reducible exact Hush.pure _
  | with_reducible exact Hush.notify _ | with_reducible exact Hush.ro _ | with_reducible exact Hush.lift _
  | with_reducible exact Hush.panic
  | dsimp only | split)
macro "quiet_auto" : tactic => `(tactic| repeat (any_goals quiet_step))

macro "ret_step" : tactic => `(tactic| first
  | with_reducible refine Ans.bind (fun _ => ?_) | with_reducible exact Ans.pure rfl | with_reducible exact Ans.panic
  | dsimp only | split)
macro "ret_auto" : tactic => `(tactic| repeat (any_goals ret_step))

macro "nc_step" : tactic => `(tactic| first
  | with_reducible exact NC.pure _ | with_reducible exact NC.panic
  | nc_extra
  | (with_reducible refine NC.bind_quiet ?_ (fun _ => ?_); focus (quiet_auto; done))
  | (with_reducible refine NC.of_ret ?_; focus (ret_auto; done))
  | dsimp only | split)
macro "nc_auto" : tactic => `(tactic| repeat (any_goals nc_step))

/-! ### the elementary edits -/

theorem nc_delete (S : Segmenter) (U : UData) (n : Nat) : NC Option.isSome (LB.delete S U n) := by
  unfold LB.delete; nc_auto

theorem nc_backspace (S : Segmenter) (U : UData) (n : Nat) : NC id (LB.backspace S U n) := by
  unfold LB.backspace; nc_auto

macro_rules | `(tactic| nc_extra) => `(tactic| with_reducible exact nc_delete _ _ _)
macro_rules | `(tactic| nc_extra) => `(tactic| with_reducible exact nc_backspace _ _ _)

theorem nc_killLine (S : Segmenter) (U : UData) : NC id (LB.killLine S U) := by
  unfold LB.killLine; nc_auto
theorem nc_killBuffer (S : Segmenter) (U : UData) : NC id (LB.killBuffer S U) := by
  unfold LB.killBuffer; nc_auto
theorem nc_discardLine (S : Segmenter) (U : UData) : NC id (LB.discardLine S U) := by
  unfold LB.discardLine; nc_auto
theorem nc_discardBuffer (S : Segmenter) (U : UData) : NC id (LB.discardBuffer S U) := by
  unfold LB.discardBuffer; nc_auto
theorem nc_deletePrevWord (S : Segmenter) (U : UData) (d : Word) (n : Nat) : NC id (LB.deletePrevWord S U d n) := by
  unfold LB.deletePrevWord; nc_auto
theorem nc_deleteWord (S : Segmenter) (U : UData) (a : At) (d : Word) (n : Nat) : NC id (LB.deleteWord S U a d n) := by
  unfold LB.deleteWord; nc_auto
theorem nc_deleteTo (S : Segmenter) (U : UData) (cs : CharSearch) (n : Nat) : NC id (LB.deleteTo S U cs n) := by
  unfold LB.deleteTo; nc_auto
theorem nc_yank (S : Segmenter) (U : UData) (t : Text) (n : Nat) : NC Option.isSome (LB.yank S U t n) := by
  unfold LB.yank; nc_auto
theorem nc_transposeChars (S : Segmenter) (U : UData) : NC id (LB.transposeChars S U) := by
  unfold LB.transposeChars; nc_auto
theorem nc_editWord (S : Segmenter) (U : UData) (a : WordAction) : NC id (LB.editWord S U a) := by
  unfold LB.editWord; nc_auto
theorem nc_indent (S : Segmenter) (U : UData) (m : Movement) (k : Nat) (d : Bool) : NC id (LB.indent S U m k d) := by
  unfold LB.indent; nc_auto

macro_rules | `(tactic| nc_extra) => `(tactic| with_reducible exact nc_killLine _ _)
macro_rules | `(tactic| nc_extra) => `(tactic| with_reducible exact nc_killBuffer _ _)
macro_rules | `(tactic| nc_extra) => `(tactic| with_reducible exact nc_discardLine _ _)
macro_rules | `(tactic| nc_extra) => `(tactic| with_reducible exact nc_discardBuffer _ _)
macro_rules | `(tactic| nc_extra) => `(tactic| with_reducible exact nc_deletePrevWord _ _ _ _)
macro_rules | `(tactic| nc_extra) => `(tactic| with_reducible exact nc_deleteWord _ _ _ _ _)
macro_rules | `(tactic| nc_extra) => `(tactic| with_reducible exact nc_deleteTo _ _ _ _)

theorem LM.pure_bind' {α β : Type} (a : α) (f : α → LM β) : ((Pure.pure a : LM α) >>= f) = f a := by
  funext lb
  rw [LM.bind_apply, LM.pure_apply]
  cases h : f a lb with
  | error e => simp [h]
  | ok v => obtain ⟨b, lb2, n2⟩ := v; simp [h]

/-- the tail `notify StopKill; return killed` of a notifying kill -/
theorem nc_stopTail {m : LM Bool} (hm : NC id m) :
    NC id (m >>= fun killed => LM.notify .stopKill >>= fun _ => (Pure.pure killed : LM Bool)) :=
  NC.bind_tail (chg := id) hm (fun a => ⟨a, rfl, HushRet.bind_quiet (Hush.notify _) fun _ => HushRet.pure a⟩)

/-- `kill` for every movement whose "nothing killed" paths touch nothing at all -/
theorem nc_kill (S : Segmenter) (U : UData) (mvt : Movement) (h1 : mvt ≠ .wholeLine) (h2 : mvt ≠ .wholeBuffer)
    (h3 : mvt ≠ .viFirstPrint) : NC id (LB.kill S U mvt) := by
  unfold LB.kill
  cases mvt <;> first | exact absurd rfl h1 | exact absurd rfl h2 | exact absurd rfl h3 | skip
  all_goals simp only [LM.pure_bind', ↓reduceIte, Bool.false_eq_true]
  all_goals first
    | (refine NC.bind_quiet (Hush.notify _) fun _ => nc_stopTail ?_)
    | exact NC.bind_tail (chg := id) (nc_backspace _ _ _) fun a => ⟨a, rfl, HushRet.pure a⟩
    | exact NC.bind_tail (chg := Option.isSome) (chg' := id) (nc_delete _ _ _) fun a => ⟨a.isSome, rfl, HushRet.pure _⟩
    | skip
  all_goals nc_auto

/-! ### vertical motions -/

theorem moveOKB_of_nc {op : LM Bool} (hp : PosOnly op) (hn : NC id op) : MoveOKB op := by
  intro lb r lb' ns _ h
  exact ⟨(hp.h _ _ _ _ h).1, fun hr => (hn _ _ _ _ h (by simpa using hr)).2⟩

theorem nc_moveToLineUp (S : Segmenter) (U : UData) (n pc : Nat) : NC id (LB.moveToLineUp S U n pc) := by
  unfold LB.moveToLineUp; nc_auto

theorem nc_moveToLineDown (S : Segmenter) (U : UData) (n pc : Nat) : NC id (LB.moveToLineDown S U n pc) := by
  unfold LB.moveToLineDown; nc_auto

theorem faithful_moveToLineUp (S : Segmenter) (U : UData) (n pc : Nat) : MoveOKB (LB.moveToLineUp S U n pc) :=
  moveOKB_of_nc (PosOnly.moveToLineUp S U n pc) (nc_moveToLineUp S U n pc)

theorem faithful_moveToLineDown (S : Segmenter) (U : UData) (n pc : Nat) : MoveOKB (LB.moveToLineDown S U n pc) :=
  moveOKB_of_nc (PosOnly.moveToLineDown S U n pc) (nc_moveToLineDown S U n pc)

/-! ### `transpose_words`: the cursor wanders and is put back -/

/-- from any state holding the text `b0`, an answer `false` comes with the text `b0` and the cursor on `p0` -/
def Back (b0 : Text) (p0 : Nat) (m : LM Bool) : Prop :=
  ∀ lb r lb' ns, lb.buf = b0 → m lb = .ok (r, lb', ns) → r = false → lb'.buf = b0 ∧ lb'.pos = p0

theorem Back.bind_posOnly {α : Type} {b0 : Text} {p0 : Nat} {m : LM α} {k : α → LM Bool} (hm : PosOnly m)
    (hk : ∀ a, Back b0 p0 (k a)) : Back b0 p0 (m >>= k) := by
  intro lb r lb' ns hb h hr
  obtain ⟨a, lb1, n1, n2, h1, h2, rfl⟩ := LM.bind_ok h
  exact hk a lb1 r lb' n2 (by rw [(hm.h _ _ _ _ h1).1, hb]) h2 hr

theorem Back.of_ret {b0 : Text} {p0 : Nat} {m : LM Bool} (h : Ans (fun a => a = true) m) : Back b0 p0 m := by
  intro lb r lb' ns _ hr hf
  have := h _ _ _ _ hr
  simp only at this
  rw [this] at hf; cases hf

theorem Back.setPos_false (b0 : Text) (p0 : Nat) :
    Back b0 p0 (LM.setPos p0 >>= fun _ => (Pure.pure false : LM Bool)) := by
  intro lb r lb' ns hb h _
  simp [LM.bind_apply, LM.setPos] at h
  obtain ⟨_, rfl, _⟩ := h
  exact ⟨hb, rfl⟩

theorem nc_transposeWords (S : Segmenter) (U : UData) (n : Nat) : NC id (LB.transposeWords S U n) := by
  intro lb r lb' ns h hr
  unfold LB.transposeWords at h
  obtain ⟨a, lb1, n1, n2, h1, h2, rfl⟩ := LM.bind_ok h
  cases h1
  refine (?_ : Back lb.buf lb.pos _) lb r lb' n2 rfl h2 (by simpa using hr)
  refine Back.bind_posOnly (PosOnly.moveToNextWord S U _ _ _) fun _ => ?_
  refine Back.bind_posOnly PosOnly.get fun _ => ?_
  refine Back.bind_posOnly (PosOnly.moveToPrevWord S U _ _) fun _ => ?_
  refine Back.bind_posOnly PosOnly.get fun _ => ?_
  refine Back.bind_posOnly (PosOnly.moveToPrevWord S U _ _) fun _ => ?_
  refine Back.bind_posOnly PosOnly.get fun _ => ?_
  refine Back.bind_posOnly (PosOnly.moveToNextWord S U _ _ _) fun _ => ?_
  refine Back.bind_posOnly PosOnly.get fun _ => ?_
  dsimp only
  split
  · exact Back.setPos_false _ _
  · refine Back.of_ret ?_
    ret_auto

/-! ### the two kills that move the cursor before they look -/

theorem editOK_kill_wholeBuffer (S : Segmenter) (U : UData) : EditOK (LB.kill S U .wholeBuffer) id := by
  intro lb r lb' ns hwf h hr
  have hr' : r = false := by simpa using hr
  subst hr'
  have hstart : LB.moveBufferStart S U lb = .ok (decide (lb.pos > 0), { lb with pos := 0 }, []) := by
    unfold LB.moveBufferStart
    by_cases hgt : lb.pos > 0
    · simp [LM.bind_apply, LM.get, hgt, LM.setPos]
    · have : lb.pos = 0 := by omega
      simp [LM.bind_apply, LM.get, hgt]
      cases lb; simp at this ⊢; exact this
  by_cases hemp : lb.buf = []
  · have hp : lb.pos = 0 := by
      have := IsBoundary.le_len hwf
      simp [hemp] at this; exact this
    simp [LB.kill, LM.bind_apply, LM.notify, LM.get, hstart, hemp] at h
    obtain ⟨rfl, _⟩ := h
    exact ⟨hemp.symm, hp.symm⟩
  · cases hd : LB.drainAround 0 (blen lb.buf) lb.pos { lb with pos := 0 } with
    | error e => simp [LB.kill, LM.bind_apply, LM.notify, LM.get, hstart, hemp, LB.len, hd] at h
    | ok v =>
      obtain ⟨y, l2, n2⟩ := v
      simp [LB.kill, LM.bind_apply, LM.notify, LM.get, hstart, hemp, LB.len, hd] at h

theorem editOK_kill_wholeLine (S : Segmenter) (U : UData) : EditOK (LB.kill S U .wholeLine) id := by
  intro lb r lb' ns hwf h hr
  have hr' : r = false := by simpa using hr
  subst hr'
  have hwf' : WF lb := hwf
  obtain ⟨hlsb, hlsle⟩ := lineStartOf_spec lb hwf'
  obtain ⟨hleb, hlele⟩ := lineEndOf_spec lb hwf'
  have hsl := startOfLine_eq lb hwf'
  have hhome : LB.moveHome S U lb = .ok (decide (lb.pos > lineStartOf lb.buf lb.pos),
      { lb with pos := lineStartOf lb.buf lb.pos }, []) := by
    unfold LB.moveHome
    by_cases hgt : lb.pos > lineStartOf lb.buf lb.pos
    · simp [LM.bind_apply, LM.ro, hsl, LM.get, hgt, LM.setPos]
    · have : lb.pos = lineStartOf lb.buf lb.pos := by omega
      simp [LM.bind_apply, LM.ro, hsl, LM.get, hgt]
      cases lb; simp at this ⊢; exact this
  have hle1 : lineEndOf lb.buf (lineStartOf lb.buf lb.pos) = lineEndOf lb.buf lb.pos := lineEndOf_lineStartOf lb hwf'
  generalize hls : lineStartOf lb.buf lb.pos = ls at *
  have hwf1 : WF { lb with pos := ls } := hlsb
  have hel1 := endOfLine_eq _ hwf1
  simp only [hle1] at hel1
  generalize hle : lineEndOf lb.buf lb.pos = le at *
  by_cases hlt : ls < le
  · cases hd : LB.drainAround ls le lb.pos { lb with pos := ls } with
    | error e => simp [LB.kill, LM.bind_apply, LM.notify, LM.get, hhome, LM.ro, hel1, hlt, hd] at h
    | ok v =>
      obtain ⟨y, l2, n2⟩ := v
      simp [LB.kill, LM.bind_apply, LM.notify, LM.get, hhome, LM.ro, hel1, hlt, hd] at h
  · have hpe : ls = lb.pos := by omega
    cases hk : LB.killLine S U { lb with pos := ls } with
    | error e => simp [LB.kill, LM.bind_apply, LM.notify, LM.get, hhome, LM.ro, hel1, hlt, hk] at h
    | ok v =>
      obtain ⟨r1, l2, n2⟩ := v
      simp [LB.kill, LM.bind_apply, LM.notify, LM.get, hhome, LM.ro, hel1, hlt, hk] at h
      obtain ⟨rfl, rfl, _⟩ := h
      have := nc_killLine S U _ _ _ _ hk rfl
      exact ⟨this.1, by rw [this.2]; exact hpe⟩

/-- `d^` (D46): it answers `false` only when the cursor already is on the first non-blank of the line -/
theorem nc_kill_viFirstPrint (S : Segmenter) (U : UData) : NC id (LB.kill S U .viFirstPrint) := by
  intro lb r lb' ns h hr
  have hr' : r = false := by simpa using hr
  subst hr'
  cases hs : LB.firstPrint S U lb with
  | error e => simp [LB.kill, LM.bind_apply, LM.notify, LM.ro, hs] at h
  | ok p =>
    by_cases h1 : p < lb.pos
    · have hne : (p != lb.pos) = true := by simp; omega
      cases hd : LB.drain p lb.pos .backward lb with
      | error e => simp [LB.kill, LM.bind_apply, LM.notify, LM.ro, hs, LM.get, h1, hd] at h
      | ok v =>
        obtain ⟨y, l1, n1⟩ := v
        simp [LB.kill, LM.bind_apply, LM.notify, LM.ro, hs, LM.get, h1, hd, LM.setPos, hne] at h
    · by_cases h2 : lb.pos < p
      · have hne : (p != lb.pos) = true := by simp; omega
        cases hd : LB.drain lb.pos p .forward lb with
        | error e => simp [LB.kill, LM.bind_apply, LM.notify, LM.ro, hs, LM.get, h1, h2, hd] at h
        | ok v =>
          obtain ⟨y, l1, n1⟩ := v
          simp [LB.kill, LM.bind_apply, LM.notify, LM.ro, hs, LM.get, h1, h2, hd, hne] at h
      · simp [LB.kill, LM.bind_apply, LM.notify, LM.ro, hs, LM.get, h1, h2] at h
        obtain ⟨_, rfl, _⟩ := h
        exact ⟨rfl, rfl⟩

theorem faithful_kill (S : Segmenter) (U : UData) (mvt : Movement) : EditOK (LB.kill S U mvt) id := by
  by_cases h1 : mvt = .wholeLine
  · subst h1; exact editOK_kill_wholeLine S U
  · by_cases h2 : mvt = .wholeBuffer
    · subst h2; exact editOK_kill_wholeBuffer S U
    · by_cases h3 : mvt = .viFirstPrint
      · subst h3; exact (nc_kill_viFirstPrint S U).editOK
      · exact (nc_kill S U mvt h1 h2 h3).editOK

/-! ### Undo that undid nothing -/

theorem undoStep_false (S : Segmenter) (U : UData) (ch : Change) (lb : LB) (wfb : Int) (undone : Bool) (level : Nat)
    (lb1 : LB) (wfb1 : Int) (undone1 : Bool) (level1 : Nat)
    (hs : (match ch with
          | .begin => if 0 < wfb then Except.ok (lb, wfb - 1, undone, level) else .ok (lb, wfb, undone, level - 1)
          | .end_ => .ok (lb, wfb + 1, undone, level)
          | _ => match ch.undoOn S U lb with
                 | .ok lb' => .ok (lb', wfb, true, level)
                 | .error e => .error e : Except Panic (LB × Int × Bool × Nat)) = .ok (lb1, wfb1, undone1, level1))
    (hu : undone1 = false) : undone = false ∧ lb1 = lb := by
  cases ch with
  | begin =>
    simp only at hs
    split at hs <;> (cases hs; exact ⟨hu, rfl⟩)
  | end_ => simp only at hs; cases hs; exact ⟨hu, rfl⟩
  | insert i t =>
    simp only at hs
    split at hs
    · cases hs; cases hu
    · cases hs
  | delete i t =>
    simp only at hs
    split at hs
    · cases hs; cases hu
    · cases hs
  | replace i o nw =>
    simp only at hs
    split at hs
    · cases hs; cases hu
    · cases hs

theorem undoLoop_false (S : Segmenter) (U : UData) (n : Nat) :
    ∀ (us redos : List Change) (lb : LB) (wfb : Int) (count : Nat) (undone : Bool) (level : Nat)
      (us' rs' : List Change) (lb' : LB) (level' : Nat),
      Changeset.undoLoop S U n us redos lb wfb count undone level = .ok (us', rs', lb', false, level') →
      undone = false ∧ lb' = lb := by
  intro us
  induction us with
  | nil =>
    intro redos lb wfb count undone level us' rs' lb' level' h
    simp [Changeset.undoLoop] at h
    obtain ⟨_, _, rfl, rfl, _⟩ := h
    exact ⟨rfl, rfl⟩
  | cons ch rest ih =>
    intro redos lb wfb count undone level us' rs' lb' level' h
    unfold Changeset.undoLoop at h
    simp only [] at h
    split at h
    · cases h
    · rename_i lb1 wfb1 undone1 level1 hstep
      have hk := undoStep_false S U ch lb wfb undone level lb1 wfb1 undone1 level1 hstep
      split at h
      · split at h
        · cases h
          exact hk rfl
        · obtain ⟨hu, hl⟩ := ih _ _ _ _ _ _ _ _ _ _ h
          obtain ⟨h1, h2⟩ := hk hu
          exact ⟨h1, hl.trans h2⟩
      · obtain ⟨hu, hl⟩ := ih _ _ _ _ _ _ _ _ _ _ h
        obtain ⟨h1, h2⟩ := hk hu
        exact ⟨h1, hl.trans h2⟩

theorem faithful_undo (S : Segmenter) (U : UData) (c c' : Changeset) (l l' : LB) (n : Nat)
    (h : c.undo S U l n = .ok (c', l', false)) : l'.buf = l.buf ∧ l'.pos = l.pos := by
  unfold Changeset.undo at h
  split at h
  · rename_i us rs lb' undone level hl
    cases h
    obtain ⟨_, rfl⟩ := undoLoop_false S U n _ _ _ _ _ _ _ _ _ _ _ hl
    exact ⟨rfl, rfl⟩
  · cases h

/-! ### `yank_pop` (after the repair of D44: it asks before it removes) -/

theorem nc_yankPop (S : Segmenter) (U : UData) (k : Nat) (t : Text) : NC Option.isSome (LB.yankPop S U k t) := by
  unfold LB.yankPop; nc_auto

/-- `yank_pop` answers `None` only when the replacement does not fit, and then nothing has been touched -/
theorem faithful_yankPop (S : Segmenter) (U : UData) (k : Nat) (t : Text) :
    EditOK (LB.yankPop S U k t) Option.isSome := (nc_yankPop S U k t).editOK

/-! ### assembly -/

/-- **The line-buffer operations the editor calls are faithful**, for every segmenter and every Unicode data -/
theorem lbFaithful (S : Segmenter) (U : UData) : LBFaithful S U where
  moveHome := faithful_moveHome S U
  moveEnd := faithful_moveEnd S U
  moveToFirstPrint := faithful_moveToFirstPrint S U
  moveBackward := faithful_moveBackward S U
  moveForward := faithful_moveForward S U
  moveToPrevWord := faithful_moveToPrevWord S U
  moveToNextWord := faithful_moveToNextWord S U
  moveBufferStart := faithful_moveBufferStart S U
  moveBufferEnd := faithful_moveBufferEnd S U
  moveTo := faithful_moveTo S U
  moveToLineUp := faithful_moveToLineUp S U
  moveToLineDown := faithful_moveToLineDown S U
  kill := faithful_kill S U
  transposeChars := (nc_transposeChars S U).editOK
  editWord := fun a => (nc_editWord S U a).editOK
  transposeWords := fun n => (nc_transposeWords S U n).editOK
  indent := fun m k d => (nc_indent S U m k d).editOK
  yank := fun t n => nc_yank S U t n
  yankPop := faithful_yankPop S U
  delete := fun n => (nc_delete S U n).editOK
  undo := fun c c' l l' n _ h => faithful_undo S U c c' l l' n h

end Rl
