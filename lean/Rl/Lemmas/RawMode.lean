/- Helper lemmas for C16: closed forms of `enableRaw` / `disableRaw` on a connected terminal and the
   invariant of the suspend/resume loop. -/
import Rl.RawMode
namespace Rl.RawMode

/-- is bracketed paste actually switched on by `enableRaw` -/
def Cfg.paste (cfg : Cfg) : Bool := cfg.bracketedPaste && cfg.writeOk

/-- the settings in force while the read waits for a key -/
def duringOf (cfg : Cfg) (t : Termios) : Termios := (rawOf cfg.enableSignals (NixTermios.ofLibc t)).getLibc

/-- the terminal right after a successful `enableRaw` -/
def afterEnable (cfg : Cfg) (t : Term) : Term :=
  { termios := duringOf cfg t.termios,
    log := t.log ++ Eff.setattr (duringOf cfg t.termios) :: (if cfg.paste then [Eff.pasteOn] else []),
    rawFlag := true, connected := true }

/-- the `PosixMode` a successful `enableRaw` returns -/
def modeOf (cfg : Cfg) (t : Term) : Mode := { termios := NixTermios.ofLibc t.termios, ttyOut := cfg.paste }

theorem enableRaw_eq (cfg : Cfg) (t : Term) (hc : t.connected = true) :
    enableRaw cfg t = (some (modeOf cfg t), afterEnable cfg t) := by
  obtain ⟨tm, lg, rf, cn⟩ := t
  simp only at hc
  subst hc
  cases hb : cfg.bracketedPaste <;> cases hw : cfg.writeOk <;>
    simp [enableRaw, Term.setattr, Term.write, Cfg.paste, duringOf, afterEnable, modeOf, hb, hw]

theorem disableRaw_eq (m : Mode) (w : Bool) (t : Term) (hc : t.connected = true)
    (hw : m.ttyOut = true → w = true) :
    disableRaw m w t =
      (true,
       { termios := m.termios.inner,
         log := t.log ++ Eff.setattr m.termios.inner :: (if m.ttyOut then [Eff.pasteOff] else []),
         rawFlag := false, connected := true }) := by
  obtain ⟨tm, lg, rf, cn⟩ := t
  simp only at hc
  subst hc
  cases ho : m.ttyOut
  · simp [disableRaw, Term.setattr, NixTermios.intoLibc, ho]
  · have := hw ho
    subst this
    simp [disableRaw, Term.setattr, Term.write, NixTermios.intoLibc, ho]

theorem switches_append (a b : List Eff) : switches (a ++ b) = switches a ++ switches b := by
  simp [switches]

/-- the paste switches one suspend/resume round trip writes -/
def roundTrip (p : Bool) : List Eff := if p then [Eff.pasteOff, Eff.pasteOn] else []

theorem suspendResume_eq (cfg : Cfg) (orig : Termios) (s : Suspend) (t : Term) (hc : t.connected = true) :
    ∃ t', suspendResume cfg { termios := NixTermios.ofLibc orig, ttyOut := cfg.paste } s t = (some (), t') ∧
      t'.connected = true ∧ ∃ X, t'.log = t.log ++ X ∧ switches X = roundTrip cfg.paste := by
  have hw : (({ termios := NixTermios.ofLibc orig, ttyOut := cfg.paste } : Mode).ttyOut = true → cfg.writeOk = true) := by
    simp [Cfg.paste]
  unfold suspendResume
  rw [disableRaw_eq _ _ t hc hw]
  cases hp : cfg.paste <;> cases he : s.env <;>
    simp [hp, enableRaw_eq, afterEnable, switches, roundTrip]

theorem readlineEdit_inv (cfg : Cfg) (orig : Termios) (ss : List Suspend) (exit : Exit) (hx : exit ≠ .hangup) :
    ∀ t : Term, t.connected = true →
      (readlineEdit cfg { termios := NixTermios.ofLibc orig, ttyOut := cfg.paste } ss exit t).2.connected = true ∧
      ∃ X, (readlineEdit cfg { termios := NixTermios.ofLibc orig, ttyOut := cfg.paste } ss exit t).2.log = t.log ++ X ∧
        switches X = (List.replicate ss.length (roundTrip cfg.paste)).flatten := by
  induction ss with
  | nil =>
    intro t hc
    cases exit <;> simp_all [readlineEdit, switches]
  | cons s rest ih =>
    intro t hc
    obtain ⟨t', h1, hc', X, hX, hsw⟩ := suspendResume_eq cfg orig s t hc
    obtain ⟨ihc, Y, hY, hswY⟩ := ih t' hc'
    simp only [readlineEdit, h1]
    refine ⟨ihc, X ++ Y, ?_, ?_⟩
    · rw [hY, hX, List.append_assoc]
    · rw [switches_append, hsw, hswY]
      simp [List.replicate_succ]

theorem bv_or_and (a b k : BitVec 32) : (a ||| b) &&& k = (a &&& k) ||| (b &&& k) := by
  ext i; simp [Bool.and_or_distrib_right]

theorem masked_or_and (x m s k : BitVec 32) (h : m &&& k = 0) : ((x &&& m) ||| s) &&& k = s &&& k := by
  rw [bv_or_and, BitVec.and_assoc, h]; simp

theorem masked_and (x m k : BitVec 32) (h : m &&& k = 0) : (x &&& m) &&& k = 0 := by
  rw [BitVec.and_assoc, h]; simp

end Rl.RawMode
