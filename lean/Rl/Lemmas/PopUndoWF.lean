/-
  C02: what `C02_logBd` asked of `yank_pop` and of the undo log — whenever they return, the cursor of the line is
  on a character boundary (`YankPopWF`, `UndoWF` of `Rl/Lemmas/RenderLogBdExec.lean`).
  `yank_pop` removes the last yank by slicing (`drain` → `split3`, which panics off a boundary) and pastes with `yank`;
  `Changeset::undo` replays recorded edits with the slicing primitives (`undoLoop_wf_grow`, package L).
-/
import Rl.Lemmas.RenderLogBdExec
import Rl.Lemmas.EditorUndoSafe
namespace Rl

section
variable {S : Segmenter} {U : UData}

/-- `split3` answers only on boundaries -/
theorem split3_boundary {t : Text} {a b : Nat} {x y z : Text} (h : split3 t a b = .ok (x, y, z)) :
    IsBoundary t a := by
  unfold split3 at h
  split at h
  · cases h1 : splitAtByte t b with
    | none => rw [h1] at h; cases h
    | some p =>
      obtain ⟨ab, c⟩ := p
      rw [h1] at h
      simp only [] at h
      cases h2 : splitAtByte ab a with
      | none => rw [h2] at h; cases h
      | some q =>
        obtain ⟨x', y'⟩ := q
        obtain ⟨hab, _⟩ := splitAtByte_some h1
        obtain ⟨hxy, ha⟩ := splitAtByte_some h2
        exact ⟨x', y' ++ c, by rw [hab, hxy, List.append_assoc], ha⟩
  · cases h

theorem yankPopWF : YankPopWF S U := by
  intro k t lb r lb' ns hw h
  by_cases hk : k ≤ lb.pos
  · by_cases hb : IsBoundary lb.buf (lb.pos - k)
    · obtain ⟨r', l', ns', h1, h2⟩ := C03_yankPop_total_wf S U k t lb hw hk hb
      rw [h] at h1
      injection h1 with h1
      simp only [Prod.mk.injEq] at h1
      obtain ⟨_, rfl, _⟩ := h1
      exact h2
    · -- the drain would slice off a boundary: either the paste is refused first, or it panics
      have hng : ¬ k > lb.pos := by omega
      have hng2 : ¬ k > lb.len := by have := hw.le_len; have : lb.len = blen lb.buf := rfl; omega
      unfold LB.yankPop at h
      by_cases ht : lb.mustTruncate (lb.len - k + blen t) = true
      · simp [LM.bind_apply, LM.get, hng, hng2, ht, LM.pure_apply] at h
        obtain ⟨_, rfl, _⟩ := h
        exact hw
      · exfalso
        cases hs : split3 lb.buf (lb.pos - k) lb.pos with
        | ok xyz =>
          obtain ⟨x, y, z⟩ := xyz
          exact hb (split3_boundary hs)
        | error e =>
          simp [LM.bind_apply, LM.get, hng, hng2, ht, LB.drain, hs] at h
  · exfalso
    have hng : k > lb.pos := by omega
    unfold LB.yankPop at h
    simp [LM.bind_apply, LM.get, hng, LM.panic] at h

theorem undoWF : UndoWF S U := by
  intro c c' l l' n u hw h
  unfold Changeset.undo at h
  split at h
  · rename_i us rs lb1 undone level hl
    cases h
    rcases (undoLoop_wf_grow (S := S) (U := U) n _ _ _ _ _ _ _ _ hl).1 with h1 | h1
    · simp only [] at h1; rw [h1]; exact hw
    · exact h1
  · cases h

end
end Rl
