/-
  C17: what `next_cmd` RETURNS.  `RT cfg P m`: from a state whose pending numeric argument fits an
  `i16` and whose remembered command (`last_cmd`, for vi `.`) is acceptable (`RI`), every normal
  return of `m` is again in such a state and its result satisfies `P`.  With `P := CmdI cfg`:
    * every `ReplaceChar(n, _)` that `next_cmd` returns has `n ≤ 65535` (the numeric argument is an
      `i16`; a repeat count given to `Cmd::redo` comes from it), so the `u16` conversion of
      `edit_replace_char` never fails on a command that was read;
    * in vi mode `YankPop` is never returned (the default vi keymaps have no key for it).
  The only assumption is about the custom bindings (`BindsI`): a bound `ReplaceChar` carries a count
  that fits its type (`RepeatCount = u16`), and `YankPop` is not bound in vi mode.
-/
import Rl.Lemmas.EditorNextAll
namespace Rl
open EM

/-- acceptable commands: a `ReplaceChar` count fits a `u16`; no `YankPop` in vi mode; `Replace` and
    `ViYankTo` (vi's `c`/`s`/`R` and `y` commands) only in vi mode -/
def CmdI (cfg : EdCfg) : Cmd → Prop
  | .replaceChar k _ => k ≤ 65535
  | .yankPop => cfg.vi = false
  | .replace _ _ => cfg.vi = true
  | .viYankTo _ => cfg.vi = true
  | _ => True

/-- the custom bindings are acceptable commands -/
def BindsI (cfg : EdCfg) : Prop := ∀ b ∈ cfg.binds, CmdI cfg b.2

/-- the pending numeric argument is an `i16`; the remembered command is acceptable -/
def RI (cfg : EdCfg) (s : Ed) : Prop :=
  -32768 ≤ s.inp.numArgs ∧ s.inp.numArgs ≤ 32767 ∧ CmdI cfg s.inp.lastCmd

structure RT {α : Type} (cfg : EdCfg) (P : α → Prop) (m : EM α) : Prop where
  h : ∀ s, RI cfg s → ∀ a s', m s = .ok (a, s') → RI cfg s' ∧ P a

namespace RT
variable {α β : Type} {cfg : EdCfg}

theorem pure {P : α → Prop} (a : α) (h : P a) : RT cfg P (pure a : EM α) := by
  constructor
  intro s hs a' s' he
  cases he
  exact ⟨hs, h⟩

theorem bindQ {Q : α → Prop} {P : β → Prop} {m : EM α} {f : α → EM β} (hm : RT cfg Q m)
    (hf : ∀ a, Q a → RT cfg P (f a)) : RT cfg P (m >>= f) := by
  constructor
  intro s hs b s' he
  rw [EM.bind_apply] at he
  cases hms : m s with
  | error e => rw [hms] at he; cases he
  | ok r =>
    obtain ⟨a, s1⟩ := r
    rw [hms] at he
    obtain ⟨h1, h2⟩ := hm.h s hs a s1 hms
    exact (hf a h2).h s1 h1 b s' he

theorem bindT {P : β → Prop} {m : EM α} {f : α → EM β} (hm : RT cfg (fun _ => True) m)
    (hf : ∀ a, RT cfg P (f a)) : RT cfg P (m >>= f) := bindQ hm fun a _ => hf a

theorem bindT' {P : β → Prop} {m : Ed → Except (Outcome × Ed) (α × Ed)} {f : α → EM β}
    (hm : RT cfg (fun _ => True) (m : EM α)) (hf : ∀ a, RT cfg P (f a)) :
    RT cfg P (@Bind.bind EM _ α β m f) := bindT hm hf

theorem mono {P Q : α → Prop} {m : EM α} (hm : RT cfg P m) (h : ∀ a, P a → Q a) : RT cfg Q m :=
  ⟨fun s hs a s' he => ⟨(hm.h s hs a s' he).1, h a (hm.h s hs a s' he).2⟩⟩

theorem triv {P : α → Prop} {m : EM α} (hm : RT cfg P m) : RT cfg (fun _ => True) m := hm.mono fun _ _ => trivial

theorem ite {P : α → Prop} {c : Prop} [Decidable c] {a b : EM α} (ha : RT cfg P a) (hb : RT cfg P b) :
    RT cfg P (if c then a else b) := by split <;> assumption

theorem exit {P : α → Prop} {o : Outcome} : RT cfg P (EM.exit o : EM α) :=
  ⟨fun _ _ _ _ he => by cases he⟩

theorem get : RT cfg (fun _ => True) EM.get := ⟨fun _ hs _ _ he => by cases he; exact ⟨hs, trivial⟩⟩
theorem read (g : Ed → α) : RT cfg (fun _ => True) (fun s => .ok (g s, s) : EM α) :=
  ⟨fun _ hs _ _ he => by cases he; exact ⟨hs, trivial⟩⟩

theorem modify {g : Ed → Ed} (hg : ∀ s, RI cfg s → RI cfg (g s)) : RT cfg (fun _ => True) (EM.modify g) :=
  ⟨fun s hs _ _ he => by cases he; exact ⟨hg s hs, trivial⟩⟩

/-- a step that does not touch the input state -/
theorem of_keeps {m : EM α} (hk : Keeps Ed.inpOf m) : RT cfg (fun _ => True) m := by
  constructor
  intro s hs a s' he
  have h2 := hk.h s
  rw [he] at h2
  have : s'.inp = s.inp := h2
  refine ⟨?_, trivial⟩
  unfold RI
  rw [this]; exact hs

end RT

/-! ### `Cmd::redo` keeps commands acceptable -/

theorem CmdI.redo {cfg : EdCfg} {c c' : Cmd} (hc : CmdI cfg c) {new : Option Nat} {li : Option Text}
    (hn : ∀ k, new = some k → k ≤ 65535) (h : c.redo new li = .ok c') : CmdI cfg c' := by
  cases c <;> first | (cases h; trivial) | (cases h; done) | skip
  case replaceChar p ch =>
    cases h
    show Cmd.rc p new ≤ 65535
    cases new with
    | none => exact hc
    | some k => exact hn k rfl
  case replace m t =>
    cases t with
    | some t => cases h; trivial
    | none =>
      unfold Cmd.redo at h
      simp only [] at h
      split at h
      · cases li with
        | none => simp at h; cases h; trivial
        | some t =>
          simp only [] at h
          split at h
          · cases h
          · cases h; trivial
      · cases h; trivial
  case selfInsert n ch => cases li <;> (cases h; trivial)

section
variable (S : Segmenter) (U : UData) (cfg : EdCfg)

theorem rt_redoCmd {c : Cmd} (hc : CmdI cfg c) {new : Option Nat} (hn : ∀ k, new = some k → k ≤ 65535) :
    RT cfg (CmdI cfg) (redoCmd c new) := by
  constructor
  intro s hs c' s' he
  unfold redoCmd at he
  simp only [EM.bind_apply, lastInsert, EM.liftP] at he
  cases hr : c.redo new s.changes.lastInsert with
  | ok c1 =>
    rw [hr] at he
    cases he
    exact ⟨hs, hc.redo hn hr⟩
  | error e => rw [hr] at he; cases he

theorem newOK_some {n : Nat} (h : n ≤ 65535) : ∀ k, some n = some k → k ≤ 65535 := by
  intro k hk; cases hk; exact h
theorem newOK_none : ∀ k, (none : Option Nat) = some k → k ≤ 65535 := by intro k hk; cases hk
theorem newOK_ite {n : Nat} (b : Bool) (h : n ≤ 65535) :
    ∀ k, (if b = true then none else some n) = some k → k ≤ 65535 := by
  cases b
  · exact newOK_some h
  · exact newOK_none

/-- the bound command, re-done when it is repeatable -/
theorem rt_bound {c : Cmd} (hc : CmdI cfg c) {new : Option Nat} (hn : ∀ k, new = some k → k ≤ 65535) :
    RT cfg (CmdI cfg) (if c.isRepeatable = true then redoCmd c new else (Pure.pure c : EM Cmd)) :=
  RT.ite (rt_redoCmd cfg hc hn) (RT.pure _ hc)

theorem rt_takeNumArgs : RT cfg (fun a => -32768 ≤ a ∧ a ≤ 32767) takeNumArgs := by
  constructor
  intro s hs a s' he
  cases he
  refine ⟨⟨by show (-32768 : Int) ≤ 0; omega, by show (0 : Int) ≤ 32767; omega, hs.2.2⟩, ?_⟩
  have h1 := hs.1
  have h2 := hs.2.1
  show -32768 ≤ (if (s.inp.numArgs == 0) = true then (1 : Int) else s.inp.numArgs) ∧
    (if (s.inp.numArgs == 0) = true then (1 : Int) else s.inp.numArgs) ≤ 32767
  split <;> omega

theorem rt_emacsNumArgs : RT cfg (fun p => p.1 ≤ 32768) emacsNumArgs := by
  unfold emacsNumArgs
  refine RT.bindQ (rt_takeNumArgs cfg) ?_
  intro a ha
  refine RT.ite (RT.pure _ ?_) (RT.pure _ ?_)
  · show a.natAbs ≤ 32768; omega
  · show a.toNat ≤ 32768; omega

theorem rt_viNumArgs : RT cfg (fun n => n ≤ 32767) viNumArgs := by
  unfold viNumArgs
  refine RT.bindQ (rt_takeNumArgs cfg) ?_
  intro a ha
  refine RT.ite RT.exit (RT.pure _ ?_)
  show a.toNat ≤ 32767; omega

theorem rt_customBinding (hb : BindsI cfg) (keys : List KeyEvent) (n : Nat) (p : Bool) :
    RT cfg (fun r => CmdI cfg (r.getD .unknown)) (customBinding cfg keys n p) := by
  constructor
  intro s hs r s' he
  unfold customBinding at he
  cases hf : cfg.binds.find? (fun b => b.1 == keys) with
  | none =>
    rw [hf] at he
    cases he
    exact ⟨hs, trivial⟩
  | some b =>
    obtain ⟨k, c⟩ := b
    rw [hf] at he
    cases he
    exact ⟨hs, hb _ (List.mem_of_find?_eq_some hf)⟩

theorem satMulAdd_bounds {a d : Int} (hd : 0 ≤ d) : -32768 ≤ satMulAdd a d ∧ satMulAdd a d ≤ 32767 := by
  unfold satMulAdd i16max
  simp only []
  split
  · split <;> omega
  · split
    · split <;> omega
    · split <;> omega

theorem digit_toNat_le {d : Char} (h : isDigit d = true) : d.toNat - '0'.toNat ≤ 9 := by
  unfold isDigit at h
  simp only [Bool.and_eq_true, decide_eq_true_eq] at h
  have h2 : d.val ≤ '9'.val := h.2
  have : d.toNat ≤ '9'.toNat := h2
  have h9 : '9'.toNat = 57 := rfl
  have h0 : '0'.toNat = 48 := rfl
  omega

theorem digitVal_le {d : Char} (h : d ≤ '9') : digitVal d ≤ 9 := by
  have h2 : d.val ≤ '9'.val := h
  have : d.toNat ≤ '9'.toNat := h2
  have h9 : '9'.toNat = 57 := rfl
  have h0 : '0'.toNat = 48 := rfl
  unfold digitVal
  omega


theorem rt_reader {α : Type} {m : EM α} (h : ∀ s, ∃ a, m s = .ok (a, s)) : RT cfg (fun _ => True) m := by
  constructor
  intro s hs a s' he
  obtain ⟨a0, ha⟩ := h s
  rw [ha] at he
  cases he
  exact ⟨hs, trivial⟩

theorem rt_termBinding (k : KeyEvent) : RT cfg (fun _ => True) (termBinding k) := by
  refine rt_reader cfg fun s => ?_
  unfold termBinding
  simp only []
  by_cases hc : ((if k == ⟨.char 'D', 8⟩ then some Cmd.endOfFile
    else if k == ⟨.char 'C', 8⟩ then some .interrupt
    else if k == ⟨.char '\\', 8⟩ then some .interrupt
    else if k == ⟨.char 'Z', 8⟩ then some .suspend
    else none) == some Cmd.endOfFile && !s.line.buf.isEmpty) = true
  · rw [if_pos hc]; exact ⟨_, rfl⟩
  · rw [if_neg hc]; exact ⟨_, rfl⟩

/-- `term_binding` followed by a case distinction on what it found -/
theorem rt_bindTerm {β : Type} {P : β → Prop} (k : KeyEvent) {f : Option Cmd → EM β}
    (h1 : ∀ cmd, CmdI cfg cmd → RT cfg P (f (some cmd))) (h2 : RT cfg P (f none)) :
    RT cfg P (termBinding k >>= f) := by
  have hq : RT cfg (fun r => CmdI cfg (r.getD .unknown)) (termBinding k) := by
    constructor
    intro s hs r s' he
    unfold termBinding at he
    simp only [] at he
    by_cases hc : ((if k == ⟨.char 'D', 8⟩ then some Cmd.endOfFile
      else if k == ⟨.char 'C', 8⟩ then some .interrupt
      else if k == ⟨.char '\\', 8⟩ then some .interrupt
      else if k == ⟨.char 'Z', 8⟩ then some .suspend
      else none) == some Cmd.endOfFile && !s.line.buf.isEmpty) = true
    · rw [if_pos hc] at he; cases he; exact ⟨hs, trivial⟩
    · rw [if_neg hc] at he
      cases he
      refine ⟨hs, ?_⟩
      repeat' split
      all_goals trivial
  refine RT.bindQ hq ?_
  intro r hr
  cases r with
  | some cmd => exact h1 cmd hr
  | none => exact h2

theorem rt_lineEmpty : RT cfg (fun _ => True) lineEmpty := rt_reader cfg fun _ => ⟨_, rfl⟩
theorem rt_hasHint : RT cfg (fun _ => True) hasHint := rt_reader cfg fun _ => ⟨_, rfl⟩
theorem rt_cursorAtEnd : RT cfg (fun _ => True) cursorAtEnd := rt_reader cfg fun _ => ⟨_, rfl⟩
theorem rt_lastCharSearch : RT cfg (fun _ => True) lastCharSearch := rt_reader cfg fun _ => ⟨_, rfl⟩
theorem rt_getLastCmd : RT cfg (CmdI cfg) getLastCmd :=
  ⟨fun s hs a s' he => by cases he; exact ⟨hs, hs.2.2⟩⟩
theorem rt_setInputMode (m : InputMode) : RT cfg (fun _ => True) (setInputMode m) :=
  RT.modify fun _ hs => hs
theorem rt_setLastCmd {c : Cmd} (hc : CmdI cfg c) : RT cfg (fun _ => True) (setLastCmd c) :=
  RT.modify fun _ hs => ⟨hs.1, hs.2.1, hc⟩
theorem rt_changesBegin : RT cfg (fun _ => True) changesBegin := RT.of_keeps keeps_inp_changesBegin
theorem rt_changesEnd : RT cfg (fun _ => True) changesEnd := RT.of_keeps keeps_inp_changesEnd
theorem rt_doingInsert : RT cfg (fun _ => True) doingInsert :=
  RT.bindT (rt_changesBegin cfg) fun _ => RT.pure _ trivial
theorem rt_doneInserting : RT cfg (fun _ => True) doneInserting :=
  RT.bindT (rt_changesEnd cfg) fun _ => RT.pure _ trivial
theorem rt_nextKey (sea : Bool) : RT cfg (fun _ => True) (nextKey sea) := RT.of_keeps (keeps_inp_nextKey sea)
theorem rt_readPasted : RT cfg (fun _ => True) readPasted := RT.of_keeps keeps_inp_readPasted
theorem rt_refreshLine : RT cfg (fun _ => True) (refreshLine S U cfg) :=
  RT.of_keeps (keeps_inp_refreshLine S U cfg)
theorem rt_refreshPromptAndLine (p : Text) : RT cfg (fun _ => True) (refreshPromptAndLine S U cfg p) :=
  RT.of_keeps (keeps_inp_refreshPromptAndLine S U cfg p)

end

/-- closes the side goal of a `pure` leaf -/
macro "rt_close" : tactic => `(tactic| first
  | trivial
  | assumption
  | (show _ ≤ 65535; omega)
  | (split <;> first | trivial | assumption)
  | (intro c hc; cases hc; first | done | assumption))

macro "rt_new" : tactic => `(tactic| first
  | exact newOK_none
  | (apply newOK_ite; omega)
  | (apply newOK_some; omega))

macro "em_rt_step" : tactic => `(tactic| first
  | intro _
  | ((with_reducible apply RT.pure) <;> rt_close)
  | with_reducible (first
    | apply RT.bindT
    | apply RT.bindT'
    | assumption
    | exact RT.get
    | exact RT.read _
    | exact RT.exit
    | exact rt_nextKey _ _ | exact rt_readPasted _
    | exact rt_termBinding _ _ | exact rt_lineEmpty _ | exact rt_hasHint _ | exact rt_cursorAtEnd _
    | exact rt_lastCharSearch _ | exact rt_setInputMode _ _
    | exact rt_changesBegin _ | exact rt_changesEnd _
    | exact rt_doingInsert _ | exact rt_doneInserting _
    | exact rt_refreshLine _ _ _ | exact rt_refreshPromptAndLine _ _ _ _)
  | ((with_reducible refine rt_redoCmd _ ?_ ?_) <;> first | assumption | rt_new)
  | ((with_reducible apply RT.modify) <;> (intro s hs; exact hs))
  | (with_reducible apply RT.ite)
  | dsimp only
  | split)

syntax "em_rt" ("[" term,* "]")? : tactic
macro_rules
  | `(tactic| em_rt) => `(tactic| repeat' em_rt_step)
  | `(tactic| em_rt [$ts,*]) =>
    `(tactic| repeat' (first | (with_reducible first $[| apply $ts]*) | em_rt_step))

section
variable (S : Segmenter) (U : UData) (cfg : EdCfg)

theorem rt_customSeqBinding (hb : BindsI cfg) (fuel : Nat) (keys : List KeyEvent) (n : Nat) (p : Bool) :
    RT cfg (fun r => CmdI cfg (r.1.getD .unknown)) (customSeqBinding cfg fuel keys n p) := by
  induction fuel generalizing keys with
  | zero => unfold customSeqBinding; em_rt
  | succ k ih =>
    unfold customSeqBinding
    em_rt [ih]
    rename_i hf
    exact RT.pure _ (hb _ (List.mem_of_find?_eq_some hf))

/-- `custom_seq_binding` followed by a case distinction on what it found -/
theorem rt_bindSeq {β : Type} {P : β → Prop} (hb : BindsI cfg) (fuel : Nat) (keys : List KeyEvent) (n : Nat) (p : Bool)
    {f : Option Cmd × List KeyEvent → EM β}
    (h1 : ∀ cmd keys', CmdI cfg cmd → RT cfg P (f (some cmd, keys')))
    (h2 : ∀ keys', RT cfg P (f (none, keys'))) :
    RT cfg P (customSeqBinding cfg fuel keys n p >>= f) := by
  refine RT.bindQ (rt_customSeqBinding cfg hb fuel keys n p) ?_
  intro r hr
  obtain ⟨cb, keys'⟩ := r
  cases cb with
  | some cmd => exact h1 cmd keys' hr
  | none => exact h2 keys'

theorem rt_fallback (hb : BindsI cfg) (fuel : Nat) (keys : List KeyEvent) (n : Nat) (p : Bool) :
    RT cfg (CmdI cfg) (common.fallback cfg fuel keys n p) := by
  unfold common.fallback
  refine RT.bindQ (rt_customSeqBinding cfg hb fuel keys n p) ?_
  intro r hr
  exact RT.pure _ hr

set_option maxHeartbeats 1000000 in
theorem rt_common (hb : BindsI cfg) (fuel : Nat) (keys : List KeyEvent) (key : KeyEvent) (n : Nat) (p : Bool) :
    RT cfg (CmdI cfg) (common cfg fuel keys key n p) := by
  have h0 := rt_fallback cfg hb fuel keys n p
  unfold common
  em_rt


/-! ### emacs -/

theorem argOf_bounds (negative : Bool) {mag : Option Nat} (hm : ∀ m, mag = some m → m ≤ 9999) :
    -32768 ≤ argOf negative mag ∧ argOf negative mag ≤ 32767 := by
  unfold argOf
  cases mag with
  | none => simp only []; omega
  | some m =>
    have := hm m rfl
    simp only []
    split <;> omega

theorem digitAccum_le {mag : Option Nat} (hm : ∀ m, mag = some m → m ≤ 9999) {d : Nat} (hd : d ≤ 9) :
    ∀ m, digitAccum mag d = some m → m ≤ 9999 := by
  intro m h
  unfold digitAccum at h
  simp only [Option.some.injEq] at h
  have h0 : mag.getD 0 ≤ 9999 := by
    cases mag with
    | none => show 0 ≤ 9999; omega
    | some k => exact hm k rfl
  subst h
  split <;> omega

theorem rt_emacsDigitLoop (negative : Bool) (fuel : Nat) (mag : Option Nat)
    (hm : ∀ m, mag = some m → m ≤ 9999) :
    RT cfg (fun _ => True) (emacsDigitLoop S U cfg negative fuel mag) := by
  induction fuel generalizing mag with
  | zero => unfold emacsDigitLoop; em_rt
  | succ k ih =>
    unfold emacsDigitLoop
    refine RT.bindT (RT.modify fun s hs => ⟨(argOf_bounds negative hm).1, (argOf_bounds negative hm).2, hs.2.2⟩) ?_
    intro _
    refine RT.bindT (rt_refreshPromptAndLine S U cfg _) ?_
    intro _
    refine RT.bindT (rt_nextKey cfg _) ?_
    intro key
    split
    · split
      · rename_i hd
        simp only [Bool.and_eq_true] at hd
        exact ih _ (digitAccum_le hm (digit_toNat_le hd.1))
      · split
        · exact ih _ hm
        · em_rt
    · em_rt

theorem rt_charSearchCmd (n : Nat) (p a : Bool) : RT cfg (CmdI cfg) (emacs.charSearchCmd n p a) := by
  unfold emacs.charSearchCmd; em_rt


theorem rt_emacsDigitArgument (fuel : Nat) (d : Char) (hd : (d == '-' || isDigit d) = true) :
    RT cfg (fun _ => True) (emacsDigitArgument S U cfg fuel d) := by
  unfold emacsDigitArgument
  refine rt_emacsDigitLoop S U cfg _ fuel _ ?_
  intro m hm
  by_cases h : (d == '-') = true
  · rw [if_pos h] at hm; cases hm
  · rw [if_neg h] at hm
    cases hm
    have : isDigit d = true := by
      cases h1 : (d == '-') with
      | true => exact absurd h1 h
      | false => rw [h1] at hd; simpa using hd
    have := digit_toNat_le this
    omega

set_option maxHeartbeats 2000000 in
theorem rt_emacs (hvi : cfg.vi = false) (hb : BindsI cfg) (fuel : Nat) (key0 : KeyEvent) :
    RT cfg (CmdI cfg) (emacs S U cfg fuel key0) := by
  have h2 := fun keys key n p => rt_common cfg hb fuel keys key n p
  have h4 := fun n p a => rt_charSearchCmd cfg n p a
  unfold emacs
  simp only []
  have hkey : ∀ d, (key0.mods == Mods.alt && (d == '-' || isDigit d)) = true →
      RT cfg (fun _ => True) (emacsDigitArgument S U cfg fuel d) := by
    intro d hc
    simp only [Bool.and_eq_true] at hc
    exact rt_emacsDigitArgument S U cfg fuel d hc.2
  split
  case' h_1 d hcode =>
    by_cases hc : (key0.mods == Mods.alt && (d == '-' || isDigit d)) = true
    case' pos => rw [if_pos hc]; refine RT.bindT (hkey _ hc) ?_; intro key
    case' neg => rw [if_neg hc]; refine RT.bindT (RT.pure _ trivial) ?_; intro key
  case' h_2 => refine RT.bindT (RT.pure _ trivial) ?_; intro key
  all_goals clear hkey
  all_goals
    refine RT.bindQ (rt_emacsNumArgs cfg) ?_
    intro ⟨n, positive⟩ hn
    have hn' : n ≤ 32768 := hn
    dsimp only
    refine RT.bindQ (rt_customBinding cfg hb _ _ _) ?_
    intro r hr
    cases r with
    | some cmd =>
      dsimp only
      exact rt_bound cfg hr (newOK_some (by omega))
    | none =>
      dsimp only
      em_rt [h2, h4, rt_bindSeq cfg hb, rt_bindTerm cfg]


/-! ### vi -/

theorem rt_viDigitLoop (fuel : Nat) : RT cfg (fun _ => True) (viDigitLoop S U cfg fuel) := by
  induction fuel with
  | zero => unfold viDigitLoop; em_rt
  | succ k ih =>
    unfold viDigitLoop
    refine RT.bindT (RT.read _) ?_
    intro a
    refine RT.bindT (rt_refreshPromptAndLine S U cfg _) ?_
    intro _
    refine RT.bindT (rt_nextKey cfg _) ?_
    intro key
    split
    · split
      · refine RT.bindT (RT.modify fun s hs => ?_) fun _ => ih
        refine ⟨?_, ?_, hs.2.2⟩
        · show -32768 ≤ (if s.inp.numArgs.natAbs < 1000 then satMulAdd s.inp.numArgs (digitVal _) else s.inp.numArgs)
          split
          · exact (satMulAdd_bounds (digitVal_nonneg _)).1
          · exact hs.1
        · show (if s.inp.numArgs.natAbs < 1000 then satMulAdd s.inp.numArgs (digitVal _) else s.inp.numArgs) ≤ 32767
          split
          · exact (satMulAdd_bounds (digitVal_nonneg _)).2
          · exact hs.2.1
      · em_rt
    · em_rt

theorem rt_viArgDigit (fuel : Nat) (d : Char) (hd : d ≤ '9') : RT cfg (fun _ => True) (viArgDigit S U cfg fuel d) := by
  unfold viArgDigit
  refine RT.bindT (RT.modify fun s hs => ?_) fun _ => rt_viDigitLoop S U cfg fuel
  have h1 := digitVal_le hd
  have h2 := digitVal_nonneg d
  exact ⟨by show -32768 ≤ digitVal d; omega, by show digitVal d ≤ 32767; omega, hs.2.2⟩

theorem rt_viCharSearch (c : Char) : RT cfg (fun _ => True) (viCharSearch c) := by
  unfold viCharSearch; em_rt

/-- `'1' ≤ d ∧ d ≤ '9'` as the keymaps test it -/
theorem digit_cond {m : Nat} {d : Char} (h : (m == 0 && decide ('1' ≤ d) && decide (d ≤ '9')) = true) : d ≤ '9' := by
  simp only [Bool.and_eq_true, decide_eq_true_eq] at h
  exact h.2


theorem rt_viCmdMotion (fuel : Nat) (key : KeyEvent) (n : Nat) :
    RT cfg (fun _ => True) (viCmdMotion S U cfg fuel key n) := by
  have h2 := (rt_viNumArgs cfg).triv
  have h3 := fun c => rt_viCharSearch cfg c
  unfold viCmdMotion
  refine RT.bindT (rt_nextKey cfg _) ?_
  intro mvt0
  refine RT.ite (RT.pure _ trivial) ?_
  refine RT.bindT ?_ ?_
  · split
    · rename_i d _
      by_cases hc : (mvt0.mods == 0 && decide ('1' ≤ d) && decide (d ≤ '9')) = true
      · rw [if_pos hc]
        have h1 := rt_viArgDigit S U cfg fuel d (digit_cond hc)
        em_rt
      · rw [if_neg hc]; em_rt
    · em_rt
  · em_rt [h3]


set_option maxHeartbeats 4000000 in
theorem rt_viCommand (hvi : cfg.vi = true) (hb : BindsI cfg) (fuel : Nat) (key0 : KeyEvent) :
    RT cfg (CmdI cfg) (viCommand S U cfg fuel key0) := by
  have h3 := fun c => rt_viCharSearch cfg c
  have h4 := fun key n => rt_viCmdMotion S U cfg fuel key n
  have h5 := fun keys key n p => rt_common cfg hb fuel keys key n p
  unfold viCommand
  simp only []
  have hkey : ∀ d, (key0.mods == 0 && decide ('1' ≤ d) && decide (d ≤ '9')) = true →
      RT cfg (fun _ => True) (viArgDigit S U cfg fuel d) := fun d hc =>
    rt_viArgDigit S U cfg fuel d (digit_cond hc)
  split
  case' h_1 d hcode =>
    by_cases hc : (key0.mods == 0 && decide ('1' ≤ d) && decide (d ≤ '9')) = true
    case' pos => rw [if_pos hc]; refine RT.bindT (hkey _ hc) ?_; intro key
    case' neg => rw [if_neg hc]; refine RT.bindT (RT.pure _ trivial) ?_; intro key
  case' h_2 => refine RT.bindT (RT.pure _ trivial) ?_; intro key
  all_goals clear hkey
  all_goals
    refine RT.bindT (RT.read _) ?_
    intro noNumArgs
    refine RT.bindQ (rt_viNumArgs cfg) ?_
    intro n hn
    have hn' : n ≤ 32767 := hn
    refine RT.bindQ (rt_customBinding cfg hb _ _ _) ?_
    intro r hr
    cases r with
    | some cmd =>
      dsimp only
      exact rt_bound cfg hr (newOK_ite _ (by omega))
    | none =>
      dsimp only
      refine rt_bindTerm cfg _ (fun cmd hc => RT.pure _ hc) ?_
      dsimp only
      refine RT.bindQ (Q := CmdI cfg) ?_ ?_
      · em_rt [h3, h4, h5, RT.bindQ (rt_getLastCmd cfg)]
      · intro cmd hcmd
        exact RT.ite (RT.bindT (rt_setLastCmd cfg hcmd) fun _ => RT.pure _ hcmd) (RT.pure _ hcmd)


set_option maxHeartbeats 2000000 in
theorem rt_viInsert (hvi : cfg.vi = true) (hb : BindsI cfg) (fuel : Nat) (key : KeyEvent) :
    RT cfg (CmdI cfg) (viInsert S U cfg fuel key) := by
  have h4 := fun key => rt_viCommand S U cfg hvi hb fuel key
  have h5 := fun keys key n p => rt_common cfg hb fuel keys key n p
  unfold viInsert
  simp only []
  refine RT.bindQ (rt_customBinding cfg hb _ _ _) ?_
  intro r hr
  cases r with
  | some cmd =>
    dsimp only
    exact rt_bound cfg hr newOK_none
  | none =>
    dsimp only
    refine rt_bindTerm cfg _ (fun cmd hc => RT.pure _ hc) ?_
    refine RT.bindT (RT.read _) ?_
    intro replaceMode
    refine RT.bindQ (Q := CmdI cfg) ?_ ?_
    · em_rt [h4, h5]
    · intro cmd hcmd
      have h6 := rt_setLastCmd cfg hcmd
      have h7 := (rt_getLastCmd cfg).triv
      em_rt

/-- **what `next_cmd` returns, both modes**: an acceptable command, in an acceptable input state -/
theorem rt_nextCmd (hb : BindsI cfg) (fuel : Nat) (sea iep : Bool) :
    RT cfg (CmdI cfg) (nextCmd S U cfg fuel sea iep) := by
  have hfin : ∀ cmd : Cmd, CmdI cfg cmd → RT cfg (CmdI cfg)
      (match cmd with
       | .replace _ _ => do let _ ← changesBegin; pure cmd
       | _ => (pure cmd : EM Cmd)) := by
    intro cmd hcmd
    have h1 := rt_changesBegin cfg
    em_rt
  unfold nextCmd waitForInput
  simp only []
  by_cases hvi : cfg.vi = true
  · simp only [hvi, Bool.not_true, Bool.false_eq_true, if_false, if_true]
    split <;>
    · refine RT.bindT (rt_nextKey cfg _) ?_
      intro key
      refine RT.bindT (RT.read _) ?_
      intro inCommand
      exact RT.ite (RT.bindQ (rt_viInsert S U cfg hvi hb fuel key) hfin) (RT.bindQ (rt_viCommand S U cfg hvi hb fuel key) hfin)
  · have hvf : cfg.vi = false := by simpa using hvi
    simp only [hvf, Bool.not_false, Bool.false_eq_true, if_false, if_true]
    split <;>
    · refine RT.bindT (rt_nextKey cfg _) ?_
      intro key
      refine RT.bindT (RT.read _) ?_
      intro inCommand
      exact RT.bindQ (rt_emacs S U cfg hvf hb fuel key) hfin

end
end Rl
