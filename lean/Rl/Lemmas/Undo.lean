/-
  Helper definitions and lemmas for property C05 (undo): the redo-direction semantics of a `Change`
  on a text (`applyFwd`), replay of a log (`replayLog`) and of a list of listener notifications
  (`replayNotifs`), the marker depth of a log (`depth`), the shape of what one notification does to
  the stack, and the generic undo loop (`undoLoopG`) over an abstract step function.
-/
import Rl.Undo
namespace Rl

/-! ### texts at byte offsets -/

theorem append_inj_blen {a b c d : Text} (h : a ++ b = c ++ d) (hl : blen a = blen c) : a = c ∧ b = d := by
  have h1 := splitAtByte_append a b
  have h2 := splitAtByte_append c d
  rw [h, hl, h2] at h1
  simp only [Option.some.injEq, Prod.mk.injEq] at h1
  exact ⟨h1.1.symm, h1.2.symm⟩

/-- cut `s` out of `t` at byte offset `idx`: the text before and the text after -/
def cutAt (t : Text) (idx : Nat) (s : Text) : Option (Text × Text) :=
  match splitAtByte t idx with
  | some (x, r) =>
    match splitAtByte r (blen s) with
    | some (y, z) => if y = s then some (x, z) else none
    | none => none
  | none => none

theorem cutAt_some {t : Text} {idx : Nat} {s x z : Text} :
    cutAt t idx s = some (x, z) ↔ t = x ++ s ++ z ∧ idx = blen x := by
  constructor
  · intro h
    unfold cutAt at h
    split at h
    · rename_i x' r h1
      split at h
      · rename_i y z' h2
        split at h
        · rename_i hy
          simp only [Option.some.injEq, Prod.mk.injEq] at h
          obtain ⟨rfl, rfl⟩ := h
          obtain ⟨e1, e2⟩ := splitAtByte_some h1
          obtain ⟨e3, _⟩ := splitAtByte_some h2
          subst hy
          exact ⟨by rw [e1, e3]; simp, e2⟩
        · cases h
      · cases h
    · cases h
  · rintro ⟨rfl, rfl⟩
    unfold cutAt
    rw [List.append_assoc, splitAtByte_append]
    simp only
    rw [splitAtByte_append]
    simp

theorem splitAtByte_eq_some {t : Text} {idx : Nat} {x z : Text} :
    splitAtByte t idx = some (x, z) ↔ t = x ++ z ∧ idx = blen x := by
  constructor
  · exact splitAtByte_some
  · rintro ⟨rfl, rfl⟩; exact splitAtByte_append x z

/-! ### redo-direction semantics -/

/-- what a recorded change did to the text when it happened (byte offsets; `none` when the change
    does not fit the text: offset off a char boundary / past the end, or the removed text is not there) -/
def applyFwd : Change → Text → Option Text
  | .begin, t => some t
  | .end_, t => some t
  | .insert idx s, t =>
    match splitAtByte t idx with
    | some (x, z) => some (x ++ s ++ z)
    | none => none
  | .delete idx s, t =>
    match cutAt t idx s with
    | some (x, z) => some (x ++ z)
    | none => none
  | .replace idx old new, t =>
    match cutAt t idx old with
    | some (x, z) => some (x ++ new ++ z)
    | none => none

theorem applyFwd_insert {idx : Nat} {s t t' : Text} :
    applyFwd (.insert idx s) t = some t' ↔ ∃ x z, t = x ++ z ∧ idx = blen x ∧ t' = x ++ s ++ z := by
  simp only [applyFwd]
  constructor
  · intro h
    split at h
    · rename_i x z h1
      obtain ⟨e1, e2⟩ := splitAtByte_some h1
      simp only [Option.some.injEq] at h
      exact ⟨x, z, e1, e2, h.symm⟩
    · cases h
  · rintro ⟨x, z, rfl, rfl, rfl⟩
    rw [splitAtByte_append]

theorem applyFwd_delete {idx : Nat} {s t t' : Text} :
    applyFwd (.delete idx s) t = some t' ↔ ∃ x z, t = x ++ s ++ z ∧ idx = blen x ∧ t' = x ++ z := by
  simp only [applyFwd]
  constructor
  · intro h
    split at h
    · rename_i x z h1
      obtain ⟨e1, e2⟩ := cutAt_some.mp h1
      simp only [Option.some.injEq] at h
      exact ⟨x, z, e1, e2, h.symm⟩
    · cases h
  · rintro ⟨x, z, rfl, rfl, rfl⟩
    rw [cutAt_some.mpr ⟨rfl, rfl⟩]

theorem applyFwd_replace {idx : Nat} {o n t t' : Text} :
    applyFwd (.replace idx o n) t = some t' ↔ ∃ x z, t = x ++ o ++ z ∧ idx = blen x ∧ t' = x ++ n ++ z := by
  simp only [applyFwd]
  constructor
  · intro h
    split at h
    · rename_i x z h1
      obtain ⟨e1, e2⟩ := cutAt_some.mp h1
      simp only [Option.some.injEq] at h
      exact ⟨x, z, e1, e2, h.symm⟩
    · cases h
  · rintro ⟨x, z, rfl, rfl, rfl⟩
    rw [cutAt_some.mpr ⟨rfl, rfl⟩]

/-- what one listener notification says happened to the text -/
def applyNotif : Notif → Text → Option Text
  | .insChar i c, t => applyFwd (.insert i [c]) t
  | .insStr i s, t => applyFwd (.insert i s) t
  | .del i s _, t => applyFwd (.delete i s) t
  | .repl i o n, t => applyFwd (.replace i o n) t
  | .startKill, t => some t
  | .stopKill, t => some t

/-- replay a log, OLDEST FIRST (`Begin` / `End` change nothing) -/
def replayLog : List Change → Text → Option Text
  | [], t => some t
  | c :: cs, t =>
    match applyFwd c t with
    | some t' => replayLog cs t'
    | none => none

def replayNotifs : List Notif → Text → Option Text
  | [], t => some t
  | n :: ns, t =>
    match applyNotif n t with
    | some t' => replayNotifs ns t'
    | none => none

theorem replayLog_append (a b : List Change) (t : Text) :
    replayLog (a ++ b) t = (replayLog a t).bind (replayLog b) := by
  induction a generalizing t with
  | nil => rfl
  | cons c a ih =>
    simp only [List.cons_append, replayLog]
    split
    · exact ih _
    · rfl

/-- the log of a stack (most recent first) extended by one change -/
theorem replay_cons {ch : Change} {us : List Change} {t0 t' : Text} :
    replayLog (ch :: us).reverse t0 = some t' ↔
      ∃ t, replayLog us.reverse t0 = some t ∧ applyFwd ch t = some t' := by
  rw [List.reverse_cons, replayLog_append]
  cases h : replayLog us.reverse t0 with
  | none => simp
  | some t =>
    simp only [Option.bind_some, replayLog]
    constructor
    · intro h1
      refine ⟨t, rfl, ?_⟩
      split at h1
      · rename_i t1 h2; rw [h2]; exact h1
      · cases h1
    · rintro ⟨t1, e, h2⟩
      cases e
      rw [h2]

/-! ### what one notification does to the stack -/

def Change.isMarker : Change → Bool
  | .begin | .end_ => true
  | _ => false

namespace Changeset

theorem insertChar_undos (alnum : Char → Bool) (c : Changeset) (idx : Nat) (ch : Char) :
    (c.insertChar alnum idx ch).undos =
      match c.undos with
      | .insert i t :: rest =>
        if alnum ch && i + blen t == idx then .insert i (t ++ [ch]) :: rest else .insert idx [ch] :: c.undos
      | _ => .insert idx [ch] :: c.undos := by
  obtain ⟨lvl, us, rs⟩ := c
  unfold insertChar
  simp only
  split
  · split <;> simp_all
  · rename_i h
    split
    · exact absurd rfl (h _ _ _)
    · rfl

theorem insertStr_undos (c : Changeset) (idx : Nat) (s : Text) :
    (c.insertStr idx s).undos = if s.isEmpty then c.undos else .insert idx s :: c.undos := by
  unfold insertStr
  simp only
  split <;> rfl

theorem delete_undos (S : Segmenter) (alnum : Char → Bool) (c : Changeset) (idx : Nat) (s : Text) :
    (c.delete S alnum idx s).undos =
      if s.isEmpty then c.undos
      else match c.undos with
        | .delete i t :: rest =>
          if singleChar S alnum s && (i == idx || i == idx + blen s) then
            if i == idx then .delete i (t ++ s) :: rest else .delete idx (s ++ t) :: rest
          else .delete idx s :: c.undos
        | _ => .delete idx s :: c.undos := by
  obtain ⟨lvl, us, rs⟩ := c
  unfold delete
  simp only
  split
  · rfl
  · split
    · split
      · split <;> simp_all
      · simp_all
    · rename_i h
      split
      · exact absurd rfl (h _ _ _)
      · rfl

theorem replace_undos (c : Changeset) (idx : Nat) (o n : Text) :
    (c.replace idx o n).undos =
      match c.undos with
      | .replace i o' n' :: rest =>
        if i + blen n' == idx then .replace i (o' ++ o) (n' ++ n) :: rest else .replace idx o n :: c.undos
      | _ => .replace idx o n :: c.undos := by
  obtain ⟨lvl, us, rs⟩ := c
  unfold replace
  simp only
  split
  · split <;> simp_all
  · rename_i h
    split
    · exact absurd rfl (h _ _ _ _)
    · rfl
theorem onNotif_level (S : Segmenter) (alnum : Char → Bool) (c : Changeset) (n : Notif) :
    (c.onNotif S alnum n).level = c.level := by
  cases n with
  | insChar i ch =>
    simp only [onNotif, insertChar]
    split
    · split <;> rfl
    · rfl
  | insStr i s => simp only [onNotif, insertStr]; split <;> rfl
  | del i s d =>
    simp only [onNotif, delete]
    split
    · rfl
    · split
      · split
        · split <;> rfl
        · rfl
      · rfl
  | repl i o n =>
    simp only [onNotif, replace]
    split
    · split <;> rfl
    · rfl
  | startKill => rfl
  | stopKill => rfl

/-- One notification leaves the stack alone, pushes one non-marker change, or rewrites the top
    (non-marker) change into another non-marker change. -/
theorem onNotif_shape (S : Segmenter) (alnum : Char → Bool) (c : Changeset) (n : Notif) :
    (c.onNotif S alnum n).undos = c.undos ∨
    (∃ ch, ch.isMarker = false ∧ (c.onNotif S alnum n).undos = ch :: c.undos) ∨
    (∃ h rest ch, c.undos = h :: rest ∧ h.isMarker = false ∧ ch.isMarker = false ∧
      (c.onNotif S alnum n).undos = ch :: rest) := by
  cases n with
  | insChar i ch =>
    simp only [onNotif, insertChar_undos]
    split
    · rename_i j t rest hu
      split
      · exact .inr (.inr ⟨_, _, _, hu, rfl, rfl, rfl⟩)
      · exact .inr (.inl ⟨_, rfl, rfl⟩)
    · exact .inr (.inl ⟨_, rfl, rfl⟩)
  | insStr i s =>
    simp only [onNotif, insertStr_undos]
    split
    · exact .inl rfl
    · exact .inr (.inl ⟨_, rfl, rfl⟩)
  | del i s d =>
    simp only [onNotif, delete_undos]
    split
    · exact .inl rfl
    · split
      · rename_i j t rest hu
        split
        · split
          · exact .inr (.inr ⟨_, _, _, hu, rfl, rfl, rfl⟩)
          · exact .inr (.inr ⟨_, _, _, hu, rfl, rfl, rfl⟩)
        · exact .inr (.inl ⟨_, rfl, rfl⟩)
      · exact .inr (.inl ⟨_, rfl, rfl⟩)
  | repl i o n =>
    simp only [onNotif, replace_undos]
    split
    · rename_i j o' n' rest hu
      split
      · exact .inr (.inr ⟨_, _, _, hu, rfl, rfl, rfl⟩)
      · exact .inr (.inl ⟨_, rfl, rfl⟩)
    · exact .inr (.inl ⟨_, rfl, rfl⟩)
  | startKill => exact .inl rfl
  | stopKill => exact .inl rfl

end Changeset

/-! ### the log invariant under one notification -/

theorem onNotif_replay (S : Segmenter) (alnum : Char → Bool) (c : Changeset) (n : Notif) (t0 t t' : Text)
    (hlog : replayLog c.undos.reverse t0 = some t) (hn : applyNotif n t = some t') :
    replayLog (c.onNotif S alnum n).undos.reverse t0 = some t' := by
  cases n with
  | insChar i ch =>
    simp only [applyNotif] at hn
    simp only [Changeset.onNotif, Changeset.insertChar_undos]
    split
    · rename_i j s rest hu
      split
      · rename_i hc
        simp only [Bool.and_eq_true, beq_iff_eq] at hc
        rw [hu] at hlog
        obtain ⟨u, hu1, hu2⟩ := replay_cons.mp hlog
        obtain ⟨x, z, rfl, rfl, rfl⟩ := applyFwd_insert.mp hu2
        obtain ⟨x', z', e1, e2, rfl⟩ := applyFwd_insert.mp hn
        have : (x ++ s) ++ z = x' ++ z' := by rw [← e1]
        obtain ⟨rfl, rfl⟩ := append_inj_blen this (by rw [← e2, ← hc.2]; simp)
        exact replay_cons.mpr ⟨_, hu1, applyFwd_insert.mpr ⟨x, z, rfl, rfl, by simp⟩⟩
      · exact replay_cons.mpr ⟨t, hlog, hn⟩
    · exact replay_cons.mpr ⟨t, hlog, hn⟩
  | insStr i s =>
    simp only [applyNotif] at hn
    simp only [Changeset.onNotif, Changeset.insertStr_undos]
    split
    · rename_i he
      have : s = [] := by simpa using he
      subst this
      obtain ⟨x, z, rfl, _, rfl⟩ := applyFwd_insert.mp hn
      simpa using hlog
    · exact replay_cons.mpr ⟨t, hlog, hn⟩
  | del i s d =>
    simp only [applyNotif] at hn
    simp only [Changeset.onNotif, Changeset.delete_undos]
    split
    · rename_i he
      have : s = [] := by simpa using he
      subst this
      obtain ⟨x, z, rfl, _, rfl⟩ := applyFwd_delete.mp hn
      simpa using hlog
    · split
      · rename_i j s0 rest hu
        split
        · rename_i hc
          rw [hu] at hlog
          obtain ⟨u, hu1, hu2⟩ := replay_cons.mp hlog
          obtain ⟨x, z, rfl, rfl, rfl⟩ := applyFwd_delete.mp hu2
          obtain ⟨x', z', e1, e2, rfl⟩ := applyFwd_delete.mp hn
          split
          · rename_i hji
            have hji : blen x = i := by simpa using hji
            have : x ++ z = x' ++ (s ++ z') := by rw [e1]; simp
            obtain ⟨rfl, rfl⟩ := append_inj_blen this (by omega)
            exact replay_cons.mpr ⟨_, hu1, applyFwd_delete.mpr ⟨x, z', by simp, rfl, rfl⟩⟩
          · rename_i hji
            simp only [Bool.and_eq_true, Bool.or_eq_true, beq_iff_eq] at hc
            have hji' : blen x = i + blen s := by
              rcases hc.2 with h | h
              · exact absurd (by simpa using h) hji
              · exact h
            have : x ++ z = (x' ++ s) ++ z' := by rw [e1]
            obtain ⟨rfl, rfl⟩ := append_inj_blen this (by simp; omega)
            exact replay_cons.mpr ⟨_, hu1, applyFwd_delete.mpr ⟨x', z, by simp, e2, rfl⟩⟩
        · exact replay_cons.mpr ⟨t, hlog, hn⟩
      · exact replay_cons.mpr ⟨t, hlog, hn⟩
  | repl i o n =>
    simp only [applyNotif] at hn
    simp only [Changeset.onNotif, Changeset.replace_undos]
    split
    · rename_i j o' n' rest hu
      split
      · rename_i hc
        have hc : j + blen n' = i := by simpa using hc
        rw [hu] at hlog
        obtain ⟨u, hu1, hu2⟩ := replay_cons.mp hlog
        obtain ⟨x, z, rfl, rfl, rfl⟩ := applyFwd_replace.mp hu2
        obtain ⟨x', z', e1, e2, rfl⟩ := applyFwd_replace.mp hn
        have : (x ++ n') ++ z = x' ++ (o ++ z') := by rw [e1]; simp
        obtain ⟨rfl, rfl⟩ := append_inj_blen this (by simp; omega)
        exact replay_cons.mpr ⟨_, hu1, applyFwd_replace.mpr ⟨x, z', by simp, rfl, by simp⟩⟩
      · exact replay_cons.mpr ⟨t, hlog, hn⟩
    · exact replay_cons.mpr ⟨t, hlog, hn⟩
  | startKill => simp only [applyNotif, Option.some.injEq] at hn; subst hn; exact hlog
  | stopKill => simp only [applyNotif, Option.some.injEq] at hn; subst hn; exact hlog

/-! ### marker depth -/

/-- number of unmatched `Begin` markers of a stack (most recent first); `none` when an `End` has no
    `Begin` below it -/
def depth : List Change → Option Nat
  | [] => some 0
  | ch :: rest =>
    match depth rest with
    | none => none
    | some d =>
      match ch with
      | .begin => some (d + 1)
      | .end_ => if d = 0 then none else some (d - 1)
      | _ => some d

theorem depth_cons_nonmarker {ch : Change} (h : ch.isMarker = false) (us : List Change) :
    depth (ch :: us) = depth us := by
  cases ch <;> simp [Change.isMarker] at h <;> (simp only [depth]; cases depth us <;> rfl)

def begins (l : List Change) : Nat := (l.filter (· == .begin)).length
def ends (l : List Change) : Nat := (l.filter (· == .end_)).length

theorem depth_append {d k : List Change} {L : Nat} (h : depth (d ++ k) = some L) :
    ∃ m, depth k = some m ∧ L + ends d = m + begins d := by
  induction d generalizing L with
  | nil => exact ⟨L, h, rfl⟩
  | cons ch d ih =>
    simp only [List.cons_append, depth] at h
    split at h
    · cases h
    · rename_i L' h1
      obtain ⟨m, hm, he⟩ := ih h1
      refine ⟨m, hm, ?_⟩
      cases ch with
      | begin =>
        simp only [Option.some.injEq] at h
        simp [begins, ends] at he ⊢; omega
      | end_ =>
        simp only at h
        split at h
        · cases h
        · simp only [Option.some.injEq] at h
          simp [begins, ends] at he ⊢; omega
      | insert i s => simp only [Option.some.injEq] at h; simp [begins, ends] at he ⊢; omega
      | delete i s => simp only [Option.some.injEq] at h; simp [begins, ends] at he ⊢; omega
      | replace i o n => simp only [Option.some.injEq] at h; simp [begins, ends] at he ⊢; omega

theorem endLoop_depth (n : Nat) (us : List Change) (t : Bool) (h : depth us = some n) :
    depth (Changeset.endLoop n us t).1 = some 0 := by
  induction n generalizing us t with
  | zero => simpa [Changeset.endLoop] using h
  | succ n ih =>
    unfold Changeset.endLoop
    split
    · rename_i rest
      apply ih
      simp only [depth] at h
      split at h
      · cases h
      · rename_i d hd
        simp only [Option.some.injEq] at h
        rw [hd]; congr 1; omega
    · apply ih
      simp only [depth, h]
      simp

/-! ### the undo loop over an abstract step function -/

/-- `Changeset::undo`'s loop with the effect of undoing one change on the line abstracted to `step` -/
def undoLoopG {σ : Type} (step : Change → σ → Except Panic σ) (n : Nat) :
    List Change → List Change → σ → Int → Nat → Bool → Except Panic (List Change × List Change × σ × Bool)
  | [], redos, s, _, _, undone => .ok ([], redos, s, undone)
  | ch :: rest, redos, s, wfb, count, undone =>
    let r : Except Panic (σ × Int × Bool) :=
      match ch with
      | .begin => .ok (s, if 0 < wfb then wfb - 1 else wfb, undone)
      | .end_ => .ok (s, wfb + 1, undone)
      | _ => match step ch s with
             | .ok s' => .ok (s', wfb, true)
             | .error e => .error e
    match r with
    | .error e => .error e
    | .ok (s', wfb', undone') =>
      let redos' := ch :: redos
      if wfb' ≤ 0 then
        let count' := count + 1
        if count' ≥ n then .ok (rest, redos', s', undone')
        else undoLoopG step n rest redos' s' wfb' count' undone'
      else undoLoopG step n rest redos' s' wfb' count undone'

/-- forget the group level the model's loop carries along -/
def dropLevel {σ : Type} (r : List Change × List Change × σ × Bool × Nat) : List Change × List Change × σ × Bool :=
  (r.1, r.2.1, r.2.2.1, r.2.2.2.1)

/-- the model's loop, its level bookkeeping forgotten, is the generic loop at `Change.undoOn` -/
theorem undoLoop_eq_G (S : Segmenter) (U : UData) (n : Nat) (us redos : List Change) (lb : LB)
    (wfb : Int) (count : Nat) (undone : Bool) (level : Nat) :
    (Changeset.undoLoop S U n us redos lb wfb count undone level).map dropLevel =
      undoLoopG (fun ch lb => ch.undoOn S U lb) n us redos lb wfb count undone := by
  induction us generalizing redos lb wfb count undone level with
  | nil => rfl
  | cons ch rest ih =>
    have tail : ∀ (lb' : LB) (w : Int) (u : Bool) (lvl' : Nat),
        (if w ≤ 0 then
          if count + 1 ≥ n then .ok (rest, ch :: redos, lb', u, lvl')
          else Changeset.undoLoop S U n rest (ch :: redos) lb' w (count + 1) u lvl'
        else Changeset.undoLoop S U n rest (ch :: redos) lb' w count u lvl').map dropLevel =
        (if w ≤ 0 then
          if count + 1 ≥ n then .ok (rest, ch :: redos, lb', u)
          else undoLoopG (fun ch lb => ch.undoOn S U lb) n rest (ch :: redos) lb' w (count + 1) u
        else undoLoopG (fun ch lb => ch.undoOn S U lb) n rest (ch :: redos) lb' w count u) := by
      intro lb' w u lvl'
      split
      · split
        · rfl
        · exact ih ..
      · exact ih ..
    unfold Changeset.undoLoop undoLoopG
    cases ch with
    | begin =>
      by_cases hw : 0 < wfb
      · simp only [hw, if_true]; exact tail _ _ _ _
      · simp only [hw, if_false]; exact tail _ _ _ _
    | end_ => exact tail _ _ _ _
    | insert i t =>
      cases Change.undoOn S U (.insert i t) lb with
      | error e => rfl
      | ok lb' => exact tail _ _ _ _
    | delete i t =>
      cases Change.undoOn S U (.delete i t) lb with
      | error e => rfl
      | ok lb' => exact tail _ _ _ _
    | replace i o t =>
      cases Change.undoOn S U (.replace i o t) lb with
      | error e => rfl
      | ok lb' => exact tail _ _ _ _

/-- a successful run of the generic loop is a successful run of the model's loop, with some level -/
theorem undoLoop_of_G (S : Segmenter) (U : UData) (n : Nat) (us redos : List Change) (lb : LB)
    (wfb : Int) (count : Nat) (undone : Bool) (level : Nat) (r : List Change × List Change × LB × Bool)
    (h : undoLoopG (fun ch lb => ch.undoOn S U lb) n us redos lb wfb count undone = .ok r) :
    ∃ level', Changeset.undoLoop S U n us redos lb wfb count undone level = .ok (r.1, r.2.1, r.2.2.1, r.2.2.2, level') := by
  have := undoLoop_eq_G S U n us redos lb wfb count undone level
  rw [h] at this
  cases hr : Changeset.undoLoop S U n us redos lb wfb count undone level with
  | error e => rw [hr] at this; cases this
  | ok v =>
    rw [hr] at this
    simp only [Except.map, Except.ok.injEq] at this
    obtain ⟨a, b, c, d, e⟩ := v
    simp only [dropLevel] at this
    subst this
    exact ⟨e, rfl⟩

theorem undoLoopG_cons_begin {σ : Type} (step : Change → σ → Except Panic σ) (n : Nat)
    (rest redos : List Change) (s : σ) (wfb : Int) (count : Nat) (undone : Bool) :
    undoLoopG step n (.begin :: rest) redos s wfb count undone =
      if (if 0 < wfb then wfb - 1 else wfb) ≤ 0 then
        if count + 1 ≥ n then .ok (rest, .begin :: redos, s, undone)
        else undoLoopG step n rest (.begin :: redos) s (if 0 < wfb then wfb - 1 else wfb) (count + 1) undone
      else undoLoopG step n rest (.begin :: redos) s (if 0 < wfb then wfb - 1 else wfb) count undone := by
  rw [undoLoopG]

theorem undoLoopG_cons_end {σ : Type} (step : Change → σ → Except Panic σ) (n : Nat)
    (rest redos : List Change) (s : σ) (wfb : Int) (count : Nat) (undone : Bool) :
    undoLoopG step n (.end_ :: rest) redos s wfb count undone =
      if wfb + 1 ≤ 0 then
        if count + 1 ≥ n then .ok (rest, .end_ :: redos, s, undone)
        else undoLoopG step n rest (.end_ :: redos) s (wfb + 1) (count + 1) undone
      else undoLoopG step n rest (.end_ :: redos) s (wfb + 1) count undone := by
  rw [undoLoopG]

theorem undoLoopG_cons_change {σ : Type} (step : Change → σ → Except Panic σ) (n : Nat) {ch : Change}
    (hm : ch.isMarker = false) (rest redos : List Change) (s : σ) (wfb : Int) (count : Nat) (undone : Bool) :
    undoLoopG step n (ch :: rest) redos s wfb count undone =
      match step ch s with
      | .error e => .error e
      | .ok s' =>
        if wfb ≤ 0 then
          if count + 1 ≥ n then .ok (rest, ch :: redos, s', true)
          else undoLoopG step n rest (ch :: redos) s' wfb (count + 1) true
        else undoLoopG step n rest (ch :: redos) s' wfb count true := by
  cases ch with
  | begin => simp [Change.isMarker] at hm
  | end_ => simp [Change.isMarker] at hm
  | insert i t =>
    rw [undoLoopG]
    · cases step (.insert i t) s <;> rfl
    · intro h; cases h
    · intro h; cases h
  | delete i t =>
    rw [undoLoopG]
    · cases step (.delete i t) s <;> rfl
    · intro h; cases h
    · intro h; cases h
  | replace i o t =>
    rw [undoLoopG]
    · cases step (.replace i o t) s <;> rfl
    · intro h; cases h
    · intro h; cases h

/-- undo the non-marker changes of a list in order (most recent first) -/
def undoAll {σ : Type} (step : Change → σ → Except Panic σ) : List Change → σ → Except Panic σ
  | [], s => .ok s
  | ch :: rest, s =>
    if ch.isMarker then undoAll step rest s
    else match step ch s with
      | .ok s' => undoAll step rest s'
      | .error e => .error e

theorem undoAll_cons_marker {σ : Type} (step : Change → σ → Except Panic σ) {ch : Change}
    (hm : ch.isMarker = true) (rest : List Change) (s : σ) : undoAll step (ch :: rest) s = undoAll step rest s := by
  simp only [undoAll, hm, if_true]

theorem undoAll_cons_change {σ : Type} (step : Change → σ → Except Panic σ) {ch : Change}
    (hm : ch.isMarker = false) (rest : List Change) (s : σ) :
    undoAll step (ch :: rest) s = match step ch s with | .ok s' => undoAll step rest s' | .error e => .error e := by
  simp only [undoAll, hm, Bool.false_eq_true, if_false]

/-- the effect of a concatenation is the composition of the effects -/
theorem undoAll_append_iff {σ : Type} (step : Change → σ → Except Panic σ) (a b : List Change) (s s2 : σ) :
    undoAll step (a ++ b) s = .ok s2 ↔ ∃ s1, undoAll step a s = .ok s1 ∧ undoAll step b s1 = .ok s2 := by
  induction a generalizing s with
  | nil => simp [undoAll]
  | cons ch a ih =>
    rw [List.cons_append]
    by_cases hm : ch.isMarker = true
    · rw [undoAll_cons_marker step hm, undoAll_cons_marker step hm]; exact ih s
    · have hm : ch.isMarker = false := by simpa using hm
      rw [undoAll_cons_change step hm, undoAll_cons_change step hm]
      cases h : step ch s with
      | ok s' => exact ih s'
      | error e => simp

/-- well-nested stretch of a stack (most recent first): changes and complete `End … Begin` groups -/
inductive Nested : List Change → Prop
  | nil : Nested []
  | change (ch : Change) (l : List Change) : ch.isMarker = false → Nested l → Nested (ch :: l)
  | group (a b : List Change) : Nested a → Nested b → Nested (.end_ :: a ++ .begin :: b)

/-- inside a group (`wfb > 0`) the loop runs through a well-nested stretch without counting -/
theorem undoLoopG_nested {σ : Type} (step : Change → σ → Except Panic σ) (n : Nat)
    {body : List Change} (hb : Nested body) (tail redos : List Change) (s s' : σ) (wfb : Int) (hw : 0 < wfb)
    (count : Nat) (undone : Bool) (hs : undoAll step body s = .ok s') :
    undoLoopG step n (body ++ tail) redos s wfb count undone =
      undoLoopG step n tail (body.reverse ++ redos) s' wfb count (undone || body.any (fun c => !c.isMarker)) := by
  induction hb generalizing tail redos s s' wfb count undone with
  | nil => simp only [undoAll, Except.ok.injEq] at hs; subst hs; simp
  | change ch l hm hl ih =>
    rw [undoAll_cons_change step hm] at hs
    rw [List.cons_append, undoLoopG_cons_change step n hm]
    cases h1 : step ch s with
    | error e => rw [h1] at hs; cases hs
    | ok s1 =>
      rw [h1] at hs
      have hnw : ¬ wfb ≤ 0 := by omega
      simp only [hnw, if_false]
      rw [ih _ _ _ _ _ hw _ _ hs]
      simp [hm]
  | group a b ha hb iha ihb =>
    rw [List.cons_append, undoAll_cons_marker step (ch := .end_) rfl] at hs
    obtain ⟨s1, h1, h2⟩ := (undoAll_append_iff step a (.begin :: b) s s').mp hs
    rw [undoAll_cons_marker step (ch := .begin) rfl] at h2
    have hnw1 : ¬ wfb + 1 ≤ 0 := by omega
    have hnw : ¬ wfb ≤ 0 := by omega
    rw [List.append_assoc, List.cons_append, undoLoopG_cons_end]
    simp only [hnw1, if_false]
    rw [iha (.begin :: b ++ tail) _ _ _ _ (by omega) _ _ h1]
    rw [List.cons_append, undoLoopG_cons_begin]
    have hpos : (0 : Int) < wfb + 1 := by omega
    simp only [hpos, if_true, Int.add_sub_cancel, hnw, if_false]
    rw [ihb tail _ _ _ _ hw _ _ h2]
    simp [Change.isMarker, Bool.or_assoc]


/-! ### the undo loop keeps the markers balanced (D38, repaired) -/

/-- `k` pending `End` markers on top of a stack -/
theorem depth_replicate_end (k : Nat) (l : List Change) :
    depth (List.replicate k .end_ ++ l) = (depth l).bind (fun d => if k ≤ d then some (d - k) else none) := by
  induction k with
  | zero => cases hd : depth l <;> simp [hd]
  | succ k ih =>
    rw [List.replicate_succ, List.cons_append]
    simp only [depth, ih]
    cases depth l with
    | none => rfl
    | some d =>
      simp only [Option.bind_some]
      by_cases hk : k ≤ d
      · simp only [hk, if_true]
        by_cases hk1 : k + 1 ≤ d
        · have : ¬ d - k = 0 := by omega
          simp only [this, hk1, if_false, if_true]; congr 1
        · have : d - k = 0 := by omega
          simp only [this, hk1, if_false, if_true]
      · have hk1 : ¬ k + 1 ≤ d := by omega
        simp only [hk, hk1, if_false]

/-- **The loop of `Changeset::undo` keeps `level` = number of unmatched `Begin` markers.**  Invariant:
    with the `w` pending `End` markers put back on top, the rest of the stack is balanced at `level`. -/
theorem undoLoop_balanced (S : Segmenter) (U : UData) (n : Nat) (us redos : List Change) (lb : LB)
    (w : Nat) (count : Nat) (undone : Bool) (level : Nat)
    (r : List Change × List Change × LB × Bool × Nat)
    (hinv : depth (List.replicate w .end_ ++ us) = some level)
    (h : Changeset.undoLoop S U n us redos lb (w : Int) count undone level = .ok r) :
    depth r.1 = some r.2.2.2.2 := by
  induction us generalizing redos lb w count undone level with
  | nil =>
    simp only [Changeset.undoLoop, Except.ok.injEq] at h
    subst h
    rw [depth_replicate_end] at hinv
    simp only [depth, Option.bind_some] at hinv
    split at hinv
    · simp only [Option.some.injEq] at hinv; simp only [depth]; congr 1; omega
    · cases hinv
  | cons ch rest ih =>
    have tail : ∀ (lb' : LB) (w1 : Nat) (u : Bool) (lvl1 : Nat),
        depth (List.replicate w1 .end_ ++ rest) = some lvl1 →
        (if (w1 : Int) ≤ 0 then
          if count + 1 ≥ n then .ok (rest, ch :: redos, lb', u, lvl1)
          else Changeset.undoLoop S U n rest (ch :: redos) lb' (w1 : Int) (count + 1) u lvl1
        else Changeset.undoLoop S U n rest (ch :: redos) lb' (w1 : Int) count u lvl1) = Except.ok r →
        depth r.1 = some r.2.2.2.2 := by
      intro lb' w1 u lvl1 hi hk
      split at hk
      · rename_i hw
        have hw0 : w1 = 0 := by omega
        split at hk
        · simp only [Except.ok.injEq] at hk
          subst hk
          subst hw0
          simpa using hi
        · exact ih _ _ _ _ _ _ hi hk
      · exact ih _ _ _ _ _ _ hi hk
    unfold Changeset.undoLoop at h
    cases ch with
    | begin =>
      by_cases hw : (0 : Int) < (w : Int)
      · simp only [hw, if_true] at h
        have e : (w : Int) - 1 = ((w - 1 : Nat) : Int) := by omega
        rw [e] at h
        refine tail _ (w - 1) _ _ ?_ h
        rw [depth_replicate_end] at hinv ⊢
        simp only [depth] at hinv
        cases hd : depth rest with
        | none => rw [hd] at hinv; cases hinv
        | some d =>
          rw [hd] at hinv
          simp only [Option.bind_some] at hinv ⊢
          split at hinv
          · simp only [Option.some.injEq] at hinv
            have : w - 1 ≤ d := by omega
            simp only [this, if_true]; congr 1; omega
          · cases hinv
      · simp only [hw, if_false] at h
        have hw0 : w = 0 := by omega
        subst hw0
        refine tail _ 0 _ _ ?_ h
        simp only [List.replicate_zero, List.nil_append, depth] at hinv ⊢
        cases hd : depth rest with
        | none => rw [hd] at hinv; cases hinv
        | some d =>
          rw [hd] at hinv
          simp only [Option.some.injEq] at hinv
          congr 1; omega
    | end_ =>
      have e : (w : Int) + 1 = ((w + 1 : Nat) : Int) := by omega
      simp only [] at h
      rw [e] at h
      refine tail _ (w + 1) _ _ ?_ h
      rw [List.replicate_succ', List.append_assoc]
      exact hinv
    | insert i t =>
      cases hs : Change.undoOn S U (.insert i t) lb with
      | error e => simp only [hs] at h; cases h
      | ok lb' =>
        simp only [hs] at h
        refine tail _ w _ _ ?_ h
        rw [depth_replicate_end] at hinv ⊢
        rwa [depth_cons_nonmarker (by rfl)] at hinv
    | delete i t =>
      cases hs : Change.undoOn S U (.delete i t) lb with
      | error e => simp only [hs] at h; cases h
      | ok lb' =>
        simp only [hs] at h
        refine tail _ w _ _ ?_ h
        rw [depth_replicate_end] at hinv ⊢
        rwa [depth_cons_nonmarker (by rfl)] at hinv
    | replace i o t =>
      cases hs : Change.undoOn S U (.replace i o t) lb with
      | error e => simp only [hs] at h; cases h
      | ok lb' =>
        simp only [hs] at h
        refine tail _ w _ _ ?_ h
        rw [depth_replicate_end] at hinv ⊢
        rwa [depth_cons_nonmarker (by rfl)] at hinv

/-! ### `Change::undo` on the line buffer inverts `applyFwd` (from the definitions of
    `LB.deleteRange`, `LB.insertStr`, `LB.setPosChecked`, `LB.replace`) -/

theorem split3_append (x y z : Text) : split3 (x ++ y ++ z) (blen x) (blen x + blen y) = .ok (x, y, z) := by
  unfold split3
  have h1 : splitAtByte (x ++ y ++ z) (blen x + blen y) = some (x ++ y, z) := by
    rw [← blen_append]; exact splitAtByte_append _ _
  simp only [Nat.le_add_right, if_true, h1, splitAtByte_append]

theorem undoOn_insert (S : Segmenter) (U : UData) (idx : Nat) (s t t' : Text) (lb : LB)
    (h : applyFwd (.insert idx s) t = some t') (hb : lb.buf = t') :
    ∃ lb', (Change.insert idx s).undoOn S U lb = .ok lb' ∧ lb'.buf = t ∧ lb'.pos = idx := by
  obtain ⟨x, z, rfl, rfl, rfl⟩ := applyFwd_insert.mp h
  have hlen : blen x ≤ lb.len := by simp [LB.len, hb]
  simp only [Change.undoOn, LB.deleteRange, bind, LM.bind', LB.setPosChecked, hlen, if_true, LB.drain, hb, split3_append]
  exact ⟨_, rfl, rfl, rfl⟩

theorem undoOn_delete (S : Segmenter) (U : UData) (idx : Nat) (s t t' : Text) (lb : LB)
    (h : applyFwd (.delete idx s) t = some t') (hb : lb.buf = t') :
    ∃ lb', (Change.delete idx s).undoOn S U lb = .ok lb' ∧ lb'.buf = t ∧ lb'.pos = idx + blen s := by
  obtain ⟨x, z, rfl, rfl, rfl⟩ := applyFwd_delete.mp h
  simp only [Change.undoOn, LB.insertStr, hb, splitAtByte_append, LB.setPosChecked, LB.len]
  have : blen x + blen s ≤ blen (x ++ s ++ z) := by simp
  simp only [this, if_true]
  exact ⟨_, rfl, rfl, rfl⟩

theorem undoOn_replace (S : Segmenter) (U : UData) (idx : Nat) (o n t t' : Text) (lb : LB)
    (h : applyFwd (.replace idx o n) t = some t') (hb : lb.buf = t') :
    ∃ lb', (Change.replace idx o n).undoOn S U lb = .ok lb' ∧ lb'.buf = t ∧ lb'.pos = idx + blen o := by
  obtain ⟨x, z, rfl, rfl, rfl⟩ := applyFwd_replace.mp h
  simp only [Change.undoOn, LB.replace, hb, split3_append]
  exact ⟨_, rfl, rfl, rfl⟩

/-- undoing any non-marker change whose redo direction took `t` to `t'`, on a line holding `t'`, gives `t` -/
theorem undoOn_inverts (S : Segmenter) (U : UData) (ch : Change) (hm : ch.isMarker = false) (t t' : Text) (lb : LB)
    (h : applyFwd ch t = some t') (hb : lb.buf = t') :
    ∃ lb', ch.undoOn S U lb = .ok lb' ∧ lb'.buf = t := by
  cases ch with
  | begin => simp [Change.isMarker] at hm
  | end_ => simp [Change.isMarker] at hm
  | insert i s => obtain ⟨lb', h1, h2, _⟩ := undoOn_insert S U i s t t' lb h hb; exact ⟨lb', h1, h2⟩
  | delete i s => obtain ⟨lb', h1, h2, _⟩ := undoOn_delete S U i s t t' lb h hb; exact ⟨lb', h1, h2⟩
  | replace i o n => obtain ⟨lb', h1, h2, _⟩ := undoOn_replace S U i o n t t' lb h hb; exact ⟨lb', h1, h2⟩

theorem applyFwd_marker {ch : Change} (hm : ch.isMarker = true) (t : Text) : applyFwd ch t = some t := by
  cases ch <;> simp [Change.isMarker] at hm <;> rfl

/-- undoing a whole prefix `p` of the stack on a line that holds the replay of the full log leaves
    the replay of the remaining (older) log -/
theorem undoAll_replay (S : Segmenter) (U : UData) (p rest : List Change) (t0 t : Text) (lb : LB)
    (hlog : replayLog (p ++ rest).reverse t0 = some t) (hb : lb.buf = t) :
    ∃ lb', undoAll (fun ch lb => ch.undoOn S U lb) p lb = .ok lb' ∧ replayLog rest.reverse t0 = some lb'.buf := by
  induction p generalizing t lb with
  | nil => exact ⟨lb, rfl, by rw [hb]; simpa using hlog⟩
  | cons ch p ih =>
    rw [List.cons_append] at hlog
    obtain ⟨u, hu, hf⟩ := replay_cons.mp hlog
    by_cases hm : ch.isMarker = true
    · rw [undoAll_cons_marker _ hm]
      rw [applyFwd_marker hm] at hf
      have hut : u = t := Option.some.inj hf
      rw [hut] at hu
      exact ih t lb hu hb
    · have hm : ch.isMarker = false := by simpa using hm
      obtain ⟨lb1, h1, h2⟩ := undoOn_inverts S U ch hm u t lb hf hb
      rw [undoAll_cons_change _ hm]
      simp only [h1]
      exact ih u lb1 hu h2

/-- whatever the count and the markers: a successful run of the loop pops a prefix `p` of the stack
    (non-empty when the stack is), pushes it reversed on the redo stack, and has applied exactly the
    undo steps of `p` -/
theorem undoLoopG_prefix {σ : Type} (step : Change → σ → Except Panic σ) (n : Nat)
    (us redos : List Change) (s : σ) (wfb : Int) (count : Nat) (undone : Bool)
    (rest redos' : List Change) (s' : σ) (undone' : Bool)
    (h : undoLoopG step n us redos s wfb count undone = .ok (rest, redos', s', undone')) :
    ∃ p, us = p ++ rest ∧ redos' = p.reverse ++ redos ∧ undoAll step p s = .ok s' ∧ (us ≠ [] → p ≠ []) := by
  induction us generalizing redos s wfb count undone with
  | nil =>
    simp only [undoLoopG, Except.ok.injEq, Prod.mk.injEq] at h
    obtain ⟨rfl, rfl, rfl, _⟩ := h
    exact ⟨[], rfl, rfl, rfl, fun h => absurd rfl h⟩
  | cons ch us ih =>
    have key : ∀ (s1 : σ) (w1 : Int) (u1 : Bool),
        (if w1 ≤ 0 then
          if count + 1 ≥ n then .ok (us, ch :: redos, s1, u1)
          else undoLoopG step n us (ch :: redos) s1 w1 (count + 1) u1
        else undoLoopG step n us (ch :: redos) s1 w1 count u1) = Except.ok (rest, redos', s', undone') →
        ∃ p, us = p ++ rest ∧ redos' = p.reverse ++ (ch :: redos) ∧ undoAll step p s1 = .ok s' := by
      intro s1 w1 u1 hk
      split at hk
      · split at hk
        · simp only [Except.ok.injEq, Prod.mk.injEq] at hk
          obtain ⟨rfl, rfl, rfl, _⟩ := hk
          exact ⟨[], rfl, rfl, rfl⟩
        · obtain ⟨p, h1, h2, h3, _⟩ := ih _ _ _ _ _ hk; exact ⟨p, h1, h2, h3⟩
      · obtain ⟨p, h1, h2, h3, _⟩ := ih _ _ _ _ _ hk; exact ⟨p, h1, h2, h3⟩
    by_cases hm : ch.isMarker = true
    · have : ∃ w1, undoLoopG step n (ch :: us) redos s wfb count undone =
          (if w1 ≤ 0 then
            if count + 1 ≥ n then .ok (us, ch :: redos, s, undone)
            else undoLoopG step n us (ch :: redos) s w1 (count + 1) undone
          else undoLoopG step n us (ch :: redos) s w1 count undone) := by
        cases ch with
        | begin => exact ⟨_, undoLoopG_cons_begin ..⟩
        | end_ => exact ⟨_, undoLoopG_cons_end ..⟩
        | insert i t => simp [Change.isMarker] at hm
        | delete i t => simp [Change.isMarker] at hm
        | replace i o t => simp [Change.isMarker] at hm
      obtain ⟨w1, hw⟩ := this
      rw [hw] at h
      obtain ⟨p, h1, h2, h3⟩ := key _ _ _ h
      refine ⟨ch :: p, by rw [h1]; rfl, by rw [h2]; simp, ?_, by simp⟩
      rw [undoAll_cons_marker step hm]; exact h3
    · have hm : ch.isMarker = false := by simpa using hm
      rw [undoLoopG_cons_change step n hm] at h
      cases hs : step ch s with
      | error e => rw [hs] at h; cases h
      | ok s1 =>
        rw [hs] at h
        obtain ⟨p, h1, h2, h3⟩ := key _ _ _ h
        refine ⟨ch :: p, by rw [h1]; rfl, by rw [h2]; simp, ?_, by simp⟩
        rw [undoAll_cons_change step hm, hs]; exact h3

end Rl
