/-
  C01_execute_refines: executing the `Cmd` a documented action denotes has the documented effect on
  text and cursor.  This file has (A) the `EM`-level lemmas that reduce `execute c` to the one
  line-buffer operation it performs (display work does not touch the line), and (B) the `LM`-level
  lemmas that identify what that operation does with the declarative `Act.apply` of
  Rl/Spec/Doc.lean, built on the C04 / C03 theorems.
-/
import Rl.Editor
import Rl.Spec.Doc
import Rl.Lemmas.Keymap
import Rl.Lemmas.EditorM
import Rl.Lemmas.EditorOps
import Rl.Lemmas.EditorSafe
import Rl.Props.C03
import Rl.Props.C04
set_option linter.unusedVariables false
set_option linter.unusedSimpArgs false
namespace Rl
open EM Rl.Spec Rl.Spec.Doc

/-! ### what it means for a line to be the documented one -/

/-- the judged components of a `Want` hold for the line `l` -/
def Spec.Doc.Want.holds (w : Want) (l : LB) : Prop :=
  (∀ t, w.text = some t → l.buf = t) ∧ (∀ p, w.pos = some p → l.pos = p)

/-- only the text component -/
def Spec.Doc.Want.holdsText (w : Want) (l : LB) : Prop := ∀ t, w.text = some t → l.buf = t


/-! ### (A) `execute` does one line-buffer operation -/

section
variable (S : Segmenter) (U : UData) (cfg : EdCfg)

/-- `edit_move`: the motion, then cursor display only -/
theorem wp_editMove_line {op : LM Bool} {s : Ed} {r : Bool} {l : LB} {ns : List Notif}
    (h : op s.line = .ok (r, l, ns)) {Q : Unit → Ed → Prop} {E : Outcome → Ed → Prop}
    (hq : ∀ s', s'.line = l → Q () s') : wp (editMove S U cfg op) Q E s := by
  unfold editMove
  rw [wp_bind]
  refine wp_lbQuiet h ?_
  split
  · exact wp_moveCursor S U cfg fun s' hc => hq s' (Ed.core_eq hc).1
  · exact hq _ rfl

/-- `edit_kill` from a state whose kill ring is within bounds, with a hinter that does not panic:
    the kill, then display only -/
theorem wp_editKill_line (mvt : Movement) (hnp : cfg.hinterPanicAt = none) {s : Ed} (hr : RingOK s.ring)
    {r : Bool} {l : LB} {ns : List Notif} (h : LB.kill S U mvt s.line = .ok (r, l, ns))
    {Q : Unit → Ed → Prop} {E : Outcome → Ed → Prop}
    (hq : ∀ s', s'.line = l → Q () s') : wp (editKill S U cfg mvt) Q E s := by
  obtain ⟨k', hg, _⟩ := lbKill_go_ok ns hr
  unfold editKill
  rw [wp_bind]
  have hk : lbKill S U (LB.kill S U mvt) s =
      .ok (r, { s with line := l, changes := s.changes.onNotifs S U.alnum ns, ring := k' }) := by
    unfold lbKill; rw [h]; simp only [hg]
  refine wp_of_eq_ok hk ?_
  split
  · exact wp_refreshLine_np S U cfg hnp fun s' hc => hq s' (Ed.core_eq hc).1
  · exact hq _ rfl

/-- `grouped` (transpose, case changes): the operation inside an undo group, then display only -/
theorem wp_grouped_line {op : LM Bool} (hnp : cfg.hinterPanicAt = none) {s : Ed}
    {r : Bool} {l : LB} {ns : List Notif} (h : op s.line = .ok (r, l, ns))
    {Q : Unit → Ed → Prop} {E : Outcome → Ed → Prop}
    (hq : ∀ s', s'.line = l → Q () s') : wp (grouped S U cfg op) Q E s := by
  unfold grouped
  simp only [wp_bind, wp_changesBegin]
  refine wp_lb S U (s := { s with changes := s.changes.begin.1 }) h ?_
  simp only [wp_changesEnd]
  split
  · exact wp_refreshLine_np S U cfg hnp fun s' hc => hq s' (Ed.core_eq hc).1
  · exact hq _ rfl

end
/-! ### (B1) motions: the cursor goes to the declarative target, the text is untouched -/

section
variable (S : Segmenter) (U : UData)

/-- the result of a motion: same line, cursor on `tgt` (or where it was when there is no target) -/
def MovedTo (lb l : LB) (tgt : Option Nat) : Prop := l = { lb with pos := tgt.getD lb.pos }

/-- the common shape of the motions: compute a target, go there if there is one -/
theorem optMove_run {f : LB → Except Panic (Option Nat)} {lb : LB} {r : Option Nat} (hf : f lb = .ok r) :
    (do match ← LM.ro f with
        | some p => LM.setPos p; return true
        | none => return false : LM Bool) lb = .ok (r.isSome, { lb with pos := r.getD lb.pos }, []) := by
  cases r with
  | none => simp [LM.bind_apply, LM.ro, hf]
  | some p => simp [LM.bind_apply, LM.ro, hf, LM.setPos]

theorem moveForward_refines (lb : LB) (n : Nat) (h : WF lb) (hn : n ≠ 0) :
    ∃ r l, LB.moveForward S U n lb = .ok (r, l, []) ∧ MovedTo lb l (charTargetFwd S lb.buf lb.pos n) := by
  by_cases he : lb.pos = lb.len
  · have hf := nextPos_at_end S lb n he
    refine ⟨_, _, optMove_run (f := fun lb => LB.nextPos S lb n) hf, ?_⟩
    rw [charTargetFwd_at_end S lb n h he]; rfl
  · have hf := nextPos_eq_target S lb n h he hn
    exact ⟨_, _, optMove_run (f := fun lb => LB.nextPos S lb n) hf, rfl⟩

theorem moveBackward_refines (lb : LB) (n : Nat) (h : WF lb) (hn : n ≠ 0) :
    ∃ r l, LB.moveBackward S U n lb = .ok (r, l, []) ∧ MovedTo lb l (charTargetBwd S lb.buf lb.pos n) := by
  by_cases he : lb.pos = 0
  · have hf := prevPos_at_start S lb n he
    refine ⟨_, _, optMove_run (f := fun lb => LB.prevPos S lb n) hf, ?_⟩
    rw [charTargetBwd_at_start S lb n he]; rfl
  · have hf := prevPos_eq_target S lb n h he hn
    exact ⟨_, _, optMove_run (f := fun lb => LB.prevPos S lb n) hf, rfl⟩

theorem moveToPrevWord_refines (lb : LB) (d : Word) (n : Nat) (h : WF lb) (hn : n ≠ 0) :
    ∃ r l, LB.moveToPrevWord S U d n lb = .ok (r, l, []) ∧ MovedTo lb l (wordTargetBwd S U lb.buf lb.pos d n) :=
  ⟨_, _, optMove_run (f := fun lb => LB.prevWordPos S U lb lb.pos d n) (prevWordPos_eq S U lb d n h hn), rfl⟩

theorem moveToNextWord_refines (lb : LB) (a : At) (d : Word) (n : Nat) (h : WF lb) (hn : n ≠ 0)
    (ha : a ≠ .beforeEnd) :
    ∃ r l, LB.moveToNextWord S U a d n lb = .ok (r, l, []) ∧
      MovedTo lb l (wordTargetFwd S U lb.buf lb.pos a d n true) := by
  have hf : LB.nextWordPos S U lb lb.pos a d n = .ok (wordTargetFwd S U lb.buf lb.pos a d n true) := by
    have := nextWordPosR_target S U lb a d n false h ha hn
    simpa [LB.nextWordPos] using this
  exact ⟨_, _, optMove_run (f := fun lb => LB.nextWordPos S U lb lb.pos a d n) hf, rfl⟩

theorem moveHome_refines (lb : LB) (h : WF lb) :
    ∃ r l, LB.moveHome S U lb = .ok (r, l, []) ∧ MovedTo lb l (some (lineStartOf lb.buf lb.pos)) := by
  have hs := startOfLine_eq lb h
  have hle := (lineStartOf_spec lb h).2
  unfold LB.moveHome MovedTo
  by_cases hgt : lb.pos > lineStartOf lb.buf lb.pos
  · exact ⟨true, _, by simp [LM.bind_apply, LM.ro, hs, LM.get, hgt, LM.setPos], rfl⟩
  · have heq : lineStartOf lb.buf lb.pos = lb.pos := by omega
    refine ⟨false, lb, by simp [LM.bind_apply, LM.ro, hs, LM.get, hgt], ?_⟩
    simp [heq]

theorem moveEnd_refines (lb : LB) (h : WF lb) :
    ∃ r l, LB.moveEnd S U lb = .ok (r, l, []) ∧ MovedTo lb l (some (lineEndOf lb.buf lb.pos)) := by
  have hs := endOfLine_eq lb h
  unfold LB.moveEnd MovedTo
  by_cases heq : lb.pos = lineEndOf lb.buf lb.pos
  · refine ⟨false, lb, by simp [LM.bind_apply, LM.ro, hs, LM.get, ← heq], ?_⟩
    simp [← heq]
  · exact ⟨true, _, by simp [LM.bind_apply, LM.ro, hs, LM.get, heq, LM.setPos], rfl⟩

theorem moveBufferStart_refines (lb : LB) :
    ∃ r l, LB.moveBufferStart S U lb = .ok (r, l, []) ∧ MovedTo lb l (some 0) := by
  unfold LB.moveBufferStart MovedTo
  by_cases hgt : lb.pos > 0
  · exact ⟨true, _, by simp [LM.bind_apply, LM.get, hgt, LM.setPos], rfl⟩
  · have : lb.pos = 0 := by omega
    refine ⟨false, lb, by simp [LM.bind_apply, LM.get, hgt], ?_⟩
    simp [← this]

theorem moveBufferEnd_refines (lb : LB) :
    ∃ r l, LB.moveBufferEnd S U lb = .ok (r, l, []) ∧ MovedTo lb l (some (blen lb.buf)) := by
  unfold LB.moveBufferEnd MovedTo
  by_cases heq : lb.pos = lb.len
  · refine ⟨false, lb, by simp [LM.bind_apply, LM.get, heq], ?_⟩
    have : blen lb.buf = lb.pos := by rw [heq]; rfl
    simp [this]
  · have hne : ¬ lb.pos = blen lb.buf := heq
    exact ⟨true, _, by simp [LM.bind_apply, LM.get, hne, LM.setPos, LB.len], rfl⟩

/-! character searches: no occurrence at all — the search fails and the cursor stays -/

theorem searchCharPos_none_bwd (lb : LB) (cs : CharSearch) (c : Char) (n : Nat) (h : WF lb)
    (hcs : cs = .backward c ∨ cs = .backwardAfter c) (h1 : occBwd lb.buf lb.pos c 1 = none) :
    LB.searchCharPos S lb cs n = .ok none := by
  obtain ⟨x, s, hb, hp⟩ := h.split
  have hsp : splitAtByte lb.buf lb.pos = some (x, s) := by rw [hb, hp]; exact splitAtByte_append x s
  have hst : sliceTo lb.buf lb.pos = .ok x := by rw [hb, hp]; exact sliceTo_mid x s
  unfold occBwd splitAt? at h1
  simp only [hsp, bind, Option.bind] at h1
  have hocc : occ c x = [] := by
    cases ho : (occ c x).reverse with
    | nil => simpa using ho
    | cons a t => rw [ho] at h1; simp at h1
  rcases hcs with rfl | rfl <;>
    simp [LB.searchCharPos, hst, hocc, bind, Except.bind, pure, Except.pure]

theorem searchCharPos_none_fwd (lb : LB) (cs : CharSearch) (c : Char) (n : Nat) (h : WF lb)
    (hcs : cs = .forward c ∨ cs = .forwardBefore c) (h1 : occFwd S lb.buf lb.pos c 1 = none) :
    LB.searchCharPos S lb cs n = .ok none := by
  obtain ⟨x, s, hb, hp⟩ := h.split
  have hsp : splitAtByte lb.buf lb.pos = some (x, s) := by rw [hb, hp]; exact splitAtByte_append x s
  unfold occFwd splitAt? at h1
  simp only [hsp, bind, Option.bind] at h1
  by_cases hs : s = []
  · subst hs
    have he : (lb.pos == lb.len) = true := by simp [LB.len, hb, hp]
    rcases hcs with rfl | rfl <;>
      simp [LB.searchCharPos, LB.graphemeAtCursor, he, bind, Except.bind, pure, Except.pure]
  · obtain ⟨g, r, hg, hgr, hgne⟩ := seg_head S hs
    subst hgr
    have hsf : sliceFrom lb.buf lb.pos = .ok (g ++ r) := by rw [hb, hp]; exact sliceFrom_mid x (g ++ r)
    have hgp := blen_pos_of_ne_nil hgne
    have hsh : splitAtByte lb.buf (lb.pos + blen g) = some (x ++ g, r) := by
      rw [hb, hp]
      have := splitAtByte_append (x ++ g) r
      simpa using this
    simp only [hg, hsh] at h1
    have hocc : occ c r = [] := by
      cases ho : occ c r with
      | nil => rfl
      | cons a t => rw [ho] at h1; simp at h1
    have he : (lb.pos == lb.len) = false := by simp [LB.len, hb, hp]; omega
    by_cases hlt : lb.pos + blen g < lb.len
    · have hshf : sliceFrom lb.buf (lb.pos + blen g) = .ok r := by
        rw [hb, hp]
        have := sliceFrom_mid (x ++ g) r
        simpa using this
      rcases hcs with rfl | rfl <;>
        simp [LB.searchCharPos, LB.graphemeAtCursor, he, hsf, hg, hlt, hshf, hocc, bind, Except.bind, pure, Except.pure]
    · rcases hcs with rfl | rfl <;>
        simp [LB.searchCharPos, LB.graphemeAtCursor, he, hsf, hg, hlt, bind, Except.bind, pure, Except.pure]

/-- the judged cases of a character-search motion (`Doc.moveTarget`): no occurrence — stay; the
    n-th occurrence with its declarative target — go there -/
theorem moveTo_refines (hS : S.Stable) (lb : LB) (cs : CharSearch) (n : Nat) (h : WF lb) (hn : n ≠ 0)
    (tg : Option Nat) (ht : moveTarget S U lb.buf lb.pos (.viCharSearch n cs) = some tg) :
    ∃ r l, LB.moveTo S U cs n lb = .ok (r, l, []) ∧ MovedTo lb l tg := by
  have hn' : (n == 0) = false := by simpa using hn
  simp only [moveTarget, hn', Bool.false_eq_true, if_false] at ht
  have key : LB.searchCharPos S lb cs n = .ok tg := by
    cases cs with
    | forward c =>
      simp only at ht
      cases h1 : occFwd S lb.buf lb.pos c 1 with
      | none => simp [h1] at ht; subst ht; exact searchCharPos_none_fwd S lb _ c n h (.inl rfl) h1
      | some v =>
        simp [h1] at ht
        cases htg : charSearchTarget S lb.buf lb.pos (.forward c) n with
        | none => simp [htg] at ht
        | some t => simp [htg] at ht; subst ht; exact searchCharPos_eq_target S hS lb _ n t h hn htg
    | forwardBefore c =>
      simp only at ht
      cases h1 : occFwd S lb.buf lb.pos c 1 with
      | none => simp [h1] at ht; subst ht; exact searchCharPos_none_fwd S lb _ c n h (.inr rfl) h1
      | some v =>
        simp [h1] at ht
        cases htg : charSearchTarget S lb.buf lb.pos (.forwardBefore c) n with
        | none => simp [htg] at ht
        | some t => simp [htg] at ht; subst ht; exact searchCharPos_eq_target S hS lb _ n t h hn htg
    | backward c =>
      simp only at ht
      cases h1 : occBwd lb.buf lb.pos c 1 with
      | none => simp [h1] at ht; subst ht; exact searchCharPos_none_bwd S lb _ c n h (.inl rfl) h1
      | some v =>
        simp [h1] at ht
        cases htg : charSearchTarget S lb.buf lb.pos (.backward c) n with
        | none => simp [htg] at ht
        | some t => simp [htg] at ht; subst ht; exact searchCharPos_eq_target S hS lb _ n t h hn htg
    | backwardAfter c =>
      simp only at ht
      cases h1 : occBwd lb.buf lb.pos c 1 with
      | none => simp [h1] at ht; subst ht; exact searchCharPos_none_bwd S lb _ c n h (.inr rfl) h1
      | some v =>
        simp [h1] at ht
        cases htg : charSearchTarget S lb.buf lb.pos (.backwardAfter c) n with
        | none => simp [htg] at ht
        | some t => simp [htg] at ht; subst ht; exact searchCharPos_eq_target S hS lb _ n t h hn htg
  exact ⟨_, _, optMove_run (f := fun lb => LB.searchCharPos S lb cs n) key, rfl⟩

/-! the `Want` of a motion -/

theorem holds_move_of_movedTo {mode : Mode} {lb l : LB} {m : Movement} {tg : Option Nat}
    (ht : moveTarget S U lb.buf lb.pos m = some tg) (hl : MovedTo lb l tg) :
    ((Act.move m).apply S U mode lb.buf lb.pos).holds l := by
  unfold MovedTo at hl
  subst hl
  cases tg with
  | none => simp [Act.apply, ht, Want.holds]
  | some t => simp [Act.apply, ht, Want.holds]

theorem holds_move_of_text {mode : Mode} {lb l : LB} {m : Movement}
    (ht : moveTarget S U lb.buf lb.pos m = none) (hl : l.buf = lb.buf) :
    ((Act.move m).apply S U mode lb.buf lb.pos).holds l := by
  simp [Act.apply, ht, Want.holds, hl]

/-- whatever the target: a motion that keeps the text satisfies the text component -/
theorem holds_move_cases {mode : Mode} {lb l : LB} {m : Movement}
    (hl : l.buf = lb.buf) (hp : ∀ tg, moveTarget S U lb.buf lb.pos m = some tg → l.pos = tg.getD lb.pos) :
    ((Act.move m).apply S U mode lb.buf lb.pos).holds l := by
  cases ht : moveTarget S U lb.buf lb.pos m with
  | none => exact holds_move_of_text S U ht hl
  | some tg =>
    have := hp tg ht
    cases tg with
    | none => simp [Act.apply, ht, Want.holds, hl]; simpa using this
    | some t => simp [Act.apply, ht, Want.holds, hl]; simpa using this

/-- **Motions** (every movement but `^`, and `e`/`E`-style `BeforeEnd` targets): the line-buffer
    motion `execute (Move m)` performs returns, keeps the text, and puts the cursor on the
    documented target — or leaves it when the documentation has no target (`Doc.moveTarget`). -/
theorem moveOp_refines (hS : S.Stable) (mode : Mode) (lb : LB) (h : WF lb) (pc : Nat) :
    (∀ n, ∃ r l, LB.moveForward S U n lb = .ok (r, l, []) ∧ ((Act.move (.forwardChar n)).apply S U mode lb.buf lb.pos).holds l) ∧
    (∀ n, ∃ r l, LB.moveBackward S U n lb = .ok (r, l, []) ∧ ((Act.move (.backwardChar n)).apply S U mode lb.buf lb.pos).holds l) ∧
    (∀ n w, ∃ r l, LB.moveToPrevWord S U w n lb = .ok (r, l, []) ∧ ((Act.move (.backwardWord n w)).apply S U mode lb.buf lb.pos).holds l) ∧
    (∀ n a w, a ≠ .beforeEnd → ∃ r l, LB.moveToNextWord S U a w n lb = .ok (r, l, []) ∧
        ((Act.move (.forwardWord n a w)).apply S U mode lb.buf lb.pos).holds l) ∧
    (∀ n cs, ∃ r l, LB.moveTo S U cs n lb = .ok (r, l, []) ∧ ((Act.move (.viCharSearch n cs)).apply S U mode lb.buf lb.pos).holds l) ∧
    (∃ r l, LB.moveHome S U lb = .ok (r, l, []) ∧ ((Act.move .beginningOfLine).apply S U mode lb.buf lb.pos).holds l) ∧
    (∃ r l, LB.moveEnd S U lb = .ok (r, l, []) ∧ ((Act.move .endOfLine).apply S U mode lb.buf lb.pos).holds l) ∧
    (∃ r l, LB.moveBufferStart S U lb = .ok (r, l, []) ∧ ((Act.move .beginningOfBuffer).apply S U mode lb.buf lb.pos).holds l) ∧
    (∃ r l, LB.moveBufferEnd S U lb = .ok (r, l, []) ∧ ((Act.move .endOfBuffer).apply S U mode lb.buf lb.pos).holds l) ∧
    (∀ n, ∃ r l, LB.moveToLineUp S U n pc lb = .ok (r, l, []) ∧ ((Act.move (.lineUp n)).apply S U mode lb.buf lb.pos).holds l) ∧
    (∀ n, ∃ r l, LB.moveToLineDown S U n pc lb = .ok (r, l, []) ∧ ((Act.move (.lineDown n)).apply S U mode lb.buf lb.pos).holds l) := by
  refine ⟨?_, ?_, ?_, ?_, ?_, ?_, ?_, ?_, ?_, ?_, ?_⟩
  · intro n
    by_cases hn : n = 0
    · obtain ⟨r, l, h1, _, h3⟩ := C03_moveForward_total_wf S U lb n h
      exact ⟨r, l, h1, holds_move_of_text S U (by simp [moveTarget, hn]) h3⟩
    · obtain ⟨r, l, h1, h2⟩ := moveForward_refines S U lb n h hn
      exact ⟨r, l, h1, holds_move_of_movedTo S U (by simp [moveTarget, hn]) h2⟩
  · intro n
    by_cases hn : n = 0
    · obtain ⟨r, l, h1, _, h3⟩ := C03_moveBackward_total_wf S U lb n h
      exact ⟨r, l, h1, holds_move_of_text S U (by simp [moveTarget, hn]) h3⟩
    · obtain ⟨r, l, h1, h2⟩ := moveBackward_refines S U lb n h hn
      exact ⟨r, l, h1, holds_move_of_movedTo S U (by simp [moveTarget, hn]) h2⟩
  · intro n w
    by_cases hn : n = 0
    · obtain ⟨r, l, h1, _, h3⟩ := C03_moveToPrevWord_total_wf S U w n lb h
      exact ⟨r, l, h1, holds_move_of_text S U (by simp [moveTarget, hn]) h3⟩
    · obtain ⟨r, l, h1, h2⟩ := moveToPrevWord_refines S U lb w n h hn
      exact ⟨r, l, h1, holds_move_of_movedTo S U (by simp [moveTarget, hn]) h2⟩
  · intro n a w ha
    by_cases hn : n = 0
    · obtain ⟨r, l, h1, _, h3⟩ := C03_moveToNextWord_total_wf S U a w n lb h
      exact ⟨r, l, h1, holds_move_of_text S U (by simp [moveTarget, hn]) h3⟩
    · obtain ⟨r, l, h1, h2⟩ := moveToNextWord_refines S U lb a w n h hn ha
      refine ⟨r, l, h1, holds_move_of_movedTo S U ?_ h2⟩
      have : (a == At.beforeEnd) = false := by cases a <;> simp_all
      simp [moveTarget, hn, this]
  · intro n cs
    cases ht : moveTarget S U lb.buf lb.pos (.viCharSearch n cs) with
    | none =>
      obtain ⟨r, l, h1, _, h3⟩ := C03_moveTo_total_wf S U cs n lb h
      exact ⟨r, l, h1, holds_move_of_text S U ht h3⟩
    | some tg =>
      have hn : n ≠ 0 := by intro h0; simp [moveTarget, h0] at ht
      obtain ⟨r, l, h1, h2⟩ := moveTo_refines S U hS lb cs n h hn tg ht
      exact ⟨r, l, h1, holds_move_of_movedTo S U ht h2⟩
  · obtain ⟨r, l, h1, h2⟩ := moveHome_refines S U lb h
    exact ⟨r, l, h1, holds_move_of_movedTo S U rfl h2⟩
  · obtain ⟨r, l, h1, h2⟩ := moveEnd_refines S U lb h
    exact ⟨r, l, h1, holds_move_of_movedTo S U rfl h2⟩
  · obtain ⟨r, l, h1, h2⟩ := moveBufferStart_refines S U lb
    exact ⟨r, l, h1, holds_move_of_movedTo S U rfl h2⟩
  · obtain ⟨r, l, h1, h2⟩ := moveBufferEnd_refines S U lb
    exact ⟨r, l, h1, holds_move_of_movedTo S U rfl h2⟩
  · intro n
    obtain ⟨r, l, h1, _, h3⟩ := C03_moveToLineUp_total_wf S U n pc lb h
    exact ⟨r, l, h1, holds_move_of_text S U rfl h3⟩
  · intro n
    obtain ⟨r, l, h1, _, h3⟩ := C03_moveToLineDown_total_wf S U n pc lb h
    exact ⟨r, l, h1, holds_move_of_text S U rfl h3⟩

/-! ### (B2) kills: exactly the declarative span is removed, the cursor is at its start -/

/-- what the C04 oracle verdict says about `Act.apply`: with a span, text and cursor are the
    documented ones; with nothing to kill the text is unchanged -/
theorem holds_kill_of_check {mode : Mode} {lb l : LB} {m : Movement} {ns : List Notif}
    (hc : checkKill S U lb m l.buf l.pos ns = none) :
    ((Act.kill m).apply S U mode lb.buf lb.pos).holdsText l ∧
    ((spanOf S U lb.buf lb.pos m false ≠ .nothing ∨ l.pos = lb.pos) →
      ((Act.kill m).apply S U mode lb.buf lb.pos).holds l) := by
  unfold checkKill at hc
  cases hsp : spanOf S U lb.buf lb.pos m false with
  | unjudged => simp [Act.apply, hsp, Want.holds, Want.holdsText]
  | nothing =>
    rw [hsp] at hc
    have hb : l.buf = lb.buf := by
      by_cases hne : l.buf = lb.buf
      · exact hne
      · simp [hne] at hc
    refine ⟨by simp [Act.apply, hsp, Want.holdsText, hb], fun hor => ?_⟩
    rcases hor with hne | hp
    · exact absurd rfl hne
    · simp [Act.apply, hsp, Want.holds, hb, hp]
  | span a b =>
    rw [hsp] at hc
    cases hrm : removeSpan lb.buf a b with
    | none => simp [Act.apply, hsp, hrm, Want.holds, Want.holdsText]
    | some bt =>
      obtain ⟨t, txt⟩ := bt
      simp only [hrm] at hc
      have hb : l.buf = t := by
        by_cases hne : l.buf = t
        · exact hne
        · simp [hne] at hc
      have hp : l.pos = a := by
        by_cases hne : l.pos = a
        · exact hne
        · simp [hb, hne] at hc
          split at hc <;> simp_all
      simp [Act.apply, hsp, hrm, Want.holds, Want.holdsText, hb, hp]

/-- an empty buffer: nothing to kill, and the cursor cannot move -/
theorem kill_refines_empty {lb l : LB} (h : WF l) (hb : l.buf = lb.buf) (he : lb.buf = []) (hw : WF lb) :
    l.pos = lb.pos := by
  obtain ⟨x, z, h1, h2⟩ := h.split
  obtain ⟨x', z', h1', h2'⟩ := hw.split
  rw [hb, he] at h1
  rw [he] at h1'
  have hx : x = [] := (List.append_eq_nil_iff.mp h1.symm).1
  have hx' : x' = [] := (List.append_eq_nil_iff.mp h1'.symm).1
  rw [h2, h2', hx, hx']

/-! when a kill leaves the text as it was, the cursor has not moved — proved here for the character
   and word kills (C-d, C-h, Backspace, Del, `x`, `X`, M-d, M-DEL, C-w, `dw` `db` `de` …) -/

theorem blen_lt_of_mid {x y z : Text} (hy : 0 < blen y) : blen (x ++ z) < blen (x ++ y ++ z) := by
  simp; omega

theorem kill_forwardChar_cursor (lb l : LB) (n : Nat) (r : Bool) (ns : List Notif) (h : WF lb)
    (hk : LB.kill S U (.forwardChar n) lb = .ok (r, l, ns)) : l.pos = lb.pos := by
  have hkd : LB.kill S U (.forwardChar n) = (do let r ← LB.delete S U n; pure r.isSome) := rfl
  rw [hkd] at hk
  obtain ⟨r0, lb1, n1, n2, hdel, hp, rfl⟩ := LM.bind_ok hk
  simp at hp
  obtain ⟨_, rfl, rfl⟩ := hp
  by_cases hn : n = 0
  · subst hn
    have h0 := nextPos_zero S lb h
    unfold LB.delete at hdel
    simp only [LM.bind_apply, LM.ro, h0] at hdel
    cases hdel; rfl
  · rcases delete_spec S U lb lb1 n r0 n1 h hn hdel with ⟨_, hlb, _, _⟩ | ⟨t, x, y, z, _, _, _, _, _, hlb, _, _⟩
    · rw [hlb]
    · rw [hlb]

theorem kill_backwardChar_cursor (lb l : LB) (n : Nat) (r : Bool) (ns : List Notif) (h : WF lb)
    (hk : LB.kill S U (.backwardChar n) lb = .ok (r, l, ns)) (hb : l.buf = lb.buf) : l.pos = lb.pos := by
  obtain ⟨r0, lb1, n1, hdel, rfl, rfl, rfl⟩ : ∃ r0 lb1 n1, LB.backspace S U n lb = .ok (r0, lb1, n1) ∧ r0 = r ∧ lb1 = l ∧
      n1 = ns := by
    cases hbs : LB.backspace S U n lb with
    | error e => simp [LB.kill, LM.bind_apply, hbs] at hk
    | ok v =>
      obtain ⟨r0, lb1, n1⟩ := v
      simp [LB.kill, LM.bind_apply, hbs] at hk
      exact ⟨r0, lb1, n1, rfl, hk.1, hk.2.1, hk.2.2⟩
  by_cases hn : n = 0
  · subst hn
    have h0 := prevPos_zero S lb h
    unfold LB.backspace at hdel
    simp only [LM.bind_apply, LM.ro, h0] at hdel
    cases hdel; rfl
  · rcases backspace_spec S U lb lb1 n r0 n1 h hn hdel with ⟨_, hlb, _, _⟩ | ⟨t, x, y, z, _, hlt, hbuf, hx, hy, hlb, _, _⟩
    · rw [hlb]
    · exfalso
      rw [hlb] at hb
      simp only at hb
      have := blen_lt_of_mid (x := x) (y := y) (z := z) (by omega)
      rw [← hbuf, ← hb] at this
      exact Nat.lt_irrefl _ this

theorem kill_forwardWord_cursor (lb l : LB) (n : Nat) (a : At) (d : Word) (r : Bool) (ns : List Notif) (h : WF lb)
    (hk : LB.kill S U (.forwardWord n a d) lb = .ok (r, l, ns)) : l.pos = lb.pos := by
  have hkd : LB.kill S U (.forwardWord n a d) =
      (do LM.notify .startKill; let k ← LB.deleteWord S U a d n; LM.notify .stopKill; pure k) := rfl
  rw [hkd] at hk
  obtain ⟨ns0, hm, _⟩ := killWrapped_inv hk
  obtain ⟨rr, hr, hp⟩ := nextWordPosR_ok_all S U lb a d n true h
  unfold LB.deleteWord at hm
  cases rr with
  | none =>
    simp [LM.bind_apply, LM.ro, hr] at hm
    obtain ⟨_, rfl, _⟩ := hm; rfl
  | some t =>
    obtain ⟨hbd, hle⟩ := hp t rfl
    obtain ⟨x, y, z, hd, _, _, _⟩ := drain_ok .forward h hbd hle
    simp [LM.bind_apply, LM.ro, hr, LM.get, hd] at hm
    obtain ⟨_, rfl, _⟩ := hm; rfl

theorem kill_backwardWord_cursor (lb l : LB) (n : Nat) (d : Word) (r : Bool) (ns : List Notif) (h : WF lb)
    (hk : LB.kill S U (.backwardWord n d) lb = .ok (r, l, ns)) (hb : l.buf = lb.buf) : l.pos = lb.pos := by
  have hkd : LB.kill S U (.backwardWord n d) =
      (do LM.notify .startKill; let k ← LB.deletePrevWord S U d n; LM.notify .stopKill; pure k) := rfl
  rw [hkd] at hk
  obtain ⟨ns0, hm, _⟩ := killWrapped_inv hk
  obtain ⟨rr, hr, hp⟩ := prevWordPos_ok S U lb d n h
  unfold LB.deletePrevWord at hm
  cases rr with
  | none =>
    simp [LM.bind_apply, LM.ro, hr] at hm
    obtain ⟨_, rfl, _⟩ := hm; rfl
  | some t =>
    obtain ⟨hbd, hle⟩ := hp t rfl
    obtain ⟨x, y, z, hd, hbuf, hx, hy⟩ := drain_ok .backward hbd h hle
    simp [LM.bind_apply, LM.ro, hr, LM.get, hd, LM.setPos] at hm
    obtain ⟨_, rfl, _⟩ := hm
    simp only at hb ⊢
    by_cases hlt : t < lb.pos
    · exfalso
      have := blen_lt_of_mid (x := x) (y := y) (z := z) (by omega)
      rw [← hbuf, ← hb] at this
      exact Nat.lt_irrefl _ this
    · omega

theorem isBoundary_zero' (t : Text) : IsBoundary t 0 := ⟨[], t, rfl, rfl⟩

theorem kill_endOfBuffer_cursor (lb l : LB) (r : Bool) (ns : List Notif) (h : WF lb)
    (hk : LB.kill S U .endOfBuffer lb = .ok (r, l, ns)) : l.pos = lb.pos := by
  have hkd : LB.kill S U .endOfBuffer =
      (do LM.notify .startKill; let k ← LB.killBuffer S U; LM.notify .stopKill; pure k) := rfl
  rw [hkd] at hk
  obtain ⟨ns0, hm, _⟩ := killWrapped_inv hk
  unfold LB.killBuffer at hm
  by_cases hc : (!lb.buf.isEmpty && decide (lb.pos < lb.len)) = true
  · have hc' : ¬lb.buf = [] ∧ lb.pos < lb.len := by simpa using hc
    obtain ⟨x, y, z, hd, _, _, _⟩ := drain_ok .forward h (isBoundary_len lb.buf) h.le_len
    have hd' : LB.drain lb.pos lb.len .forward lb = _ := hd
    simp [LM.bind_apply, LM.get, hc', hd'] at hm
    obtain ⟨_, rfl, _⟩ := hm; rfl
  · simp only [LM.bind_apply, LM.get, hc] at hm
    simp at hm
    obtain ⟨_, rfl, _⟩ := hm; rfl

theorem kill_beginningOfBuffer_cursor (lb l : LB) (r : Bool) (ns : List Notif) (h : WF lb)
    (hk : LB.kill S U .beginningOfBuffer lb = .ok (r, l, ns)) (hb : l.buf = lb.buf) : l.pos = lb.pos := by
  have hkd : LB.kill S U .beginningOfBuffer =
      (do LM.notify .startKill; let k ← LB.discardBuffer S U; LM.notify .stopKill; pure k) := rfl
  rw [hkd] at hk
  obtain ⟨ns0, hm, _⟩ := killWrapped_inv hk
  unfold LB.discardBuffer at hm
  by_cases hc : (decide (lb.pos > 0) && !lb.buf.isEmpty) = true
  · have hc' : 0 < lb.pos ∧ ¬lb.buf = [] := by simpa using hc
    have hgt : lb.pos > 0 := hc'.1
    obtain ⟨x, y, z, hd, hbuf, hx, hy⟩ := drain_ok .backward (isBoundary_zero' lb.buf) h (Nat.zero_le _)
    simp [LM.bind_apply, LM.get, hc', hd, LM.setPos] at hm
    obtain ⟨_, rfl, _⟩ := hm
    exfalso
    simp only at hb
    have := blen_lt_of_mid (x := x) (y := y) (z := z) (by omega)
    rw [← hbuf, ← hb] at this
    exact Nat.lt_irrefl _ this
  · simp only [LM.bind_apply, LM.get, hc] at hm
    simp at hm
    obtain ⟨_, rfl, _⟩ := hm; rfl

theorem killLine_cursor (lb l : LB) (r : Bool) (ns0 : List Notif) (h : WF lb)
    (hm : LB.killLine S U lb = .ok (r, l, ns0)) : l.pos = lb.pos := by
  unfold LB.killLine at hm
  have he := endOfLine_eq lb h
  obtain ⟨hbe, hle⟩ := lineEndOf_spec lb h
  by_cases hc : (!lb.buf.isEmpty && decide (lb.pos < lb.len)) = true
  · have hc' : ¬lb.buf = [] ∧ lb.pos < lb.len := by simpa using hc
    by_cases heq : lb.pos = lineEndOf lb.buf lb.pos
    · obtain ⟨r1, l1, n1, hdel, _⟩ := C03_delete_total_wf S U lb 1 h
      have hpos : l1.pos = lb.pos := by
        rcases delete_spec S U lb l1 1 r1 n1 h (by simp) hdel with ⟨_, hlb, _, _⟩ | ⟨t, x, y, z, _, _, _, _, _, hlb, _, _⟩ <;> rw [hlb]
      simp [LM.bind_apply, LM.get, hc', LM.ro, he, ← heq, hdel] at hm
      obtain ⟨_, rfl, _⟩ := hm; exact hpos
    · obtain ⟨x, y, z, hd, _, _, _⟩ := drain_ok .forward h hbe hle
      simp [LM.bind_apply, LM.get, hc', LM.ro, he, heq, hd] at hm
      obtain ⟨_, rfl, _⟩ := hm; rfl
  · simp only [LM.bind_apply, LM.get, hc] at hm
    simp at hm
    obtain ⟨_, rfl, _⟩ := hm; rfl

theorem kill_endOfLine_cursor (lb l : LB) (r : Bool) (ns : List Notif) (h : WF lb)
    (hk : LB.kill S U .endOfLine lb = .ok (r, l, ns)) : l.pos = lb.pos := by
  have hkd : LB.kill S U .endOfLine =
      (do LM.notify .startKill; let k ← LB.killLine S U; LM.notify .stopKill; pure k) := rfl
  rw [hkd] at hk
  obtain ⟨ns0, hm, _⟩ := killWrapped_inv hk
  exact killLine_cursor S U lb l r ns0 h hm

theorem kill_wholeLine_cursor (lb l : LB) (r : Bool) (ns : List Notif) (h : WF lb)
    (hrun : LB.kill S U .wholeLine lb = .ok (r, l, ns)) (hb : l.buf = lb.buf) : l.pos = lb.pos := by
  obtain ⟨hlsb, hlsle⟩ := lineStartOf_spec lb h
  obtain ⟨hleb, hlele⟩ := lineEndOf_spec lb h
  have hsl := startOfLine_eq lb h
  have hhome : LB.moveHome S U lb = .ok (decide (lb.pos > lineStartOf lb.buf lb.pos),
      { lb with pos := lineStartOf lb.buf lb.pos }, []) := by
    unfold LB.moveHome
    by_cases hgt : lb.pos > lineStartOf lb.buf lb.pos
    · simp [LM.bind_apply, LM.ro, hsl, LM.get, hgt, LM.setPos]
    · have : lb.pos = lineStartOf lb.buf lb.pos := by omega
      simp [LM.bind_apply, LM.ro, hsl, LM.get, hgt]
      cases lb; simp at this ⊢; exact this
  generalize hls : lineStartOf lb.buf lb.pos = ls at *
  have hwf1 : WF { lb with pos := ls } := hlsb
  have hle1 : lineEndOf lb.buf ls = lineEndOf lb.buf lb.pos := by rw [← hls]; exact lineEndOf_lineStartOf lb h
  have hel0 := endOfLine_eq _ hwf1
  simp only [hle1] at hel0
  by_cases hlt0 : ls < lineEndOf lb.buf lb.pos
  · exfalso
    obtain ⟨x, y, z, d, hd, hbuf, hx, hy⟩ := drainAround_ok (lb := { lb with pos := ls }) lb.pos hlsb hleb h (by omega)
    simp [LB.kill, LM.bind_apply, LM.notify, LM.get, hhome, LM.ro, hel0, hlt0, hd] at hrun
    obtain ⟨_, rfl, _⟩ := hrun
    simp only at hb
    have := blen_lt_of_mid (x := x) (y := y) (z := z) (by omega)
    have hbuf' : lb.buf = x ++ y ++ z := hbuf
    rw [← hbuf', ← hb] at this
    exact Nat.lt_irrefl _ this
  · have hpe : lb.pos = ls := by omega
    cases hkl : LB.killLine S U { lb with pos := ls } with
    | error e => simp [LB.kill, LM.bind_apply, LM.notify, LM.get, hhome, LM.ro, hel0, hlt0, hkl] at hrun
    | ok v =>
      obtain ⟨r0, l0, n0⟩ := v
      have hp0 := killLine_cursor S U _ l0 r0 n0 hwf1 hkl
      simp [LB.kill, LM.bind_apply, LM.notify, LM.get, hhome, LM.ro, hel0, hlt0, hkl] at hrun
      obtain ⟨_, rfl, _⟩ := hrun
      rw [hp0, hpe]

theorem kill_beginningOfLine_cursor (lb l : LB) (r : Bool) (ns : List Notif) (h : WF lb)
    (hk : LB.kill S U .beginningOfLine lb = .ok (r, l, ns)) (hb : l.buf = lb.buf) : l.pos = lb.pos := by
  have hkd : LB.kill S U .beginningOfLine =
      (do LM.notify .startKill; let k ← LB.discardLine S U; LM.notify .stopKill; pure k) := rfl
  rw [hkd] at hk
  obtain ⟨ns0, hm, _⟩ := killWrapped_inv hk
  unfold LB.discardLine at hm
  have hs := startOfLine_eq lb h
  obtain ⟨hbs, hle⟩ := lineStartOf_spec lb h
  by_cases hc : (decide (lb.pos > 0) && !lb.buf.isEmpty) = true
  · have hc' : 0 < lb.pos ∧ ¬lb.buf = [] := by simpa using hc
    have hgt : lb.pos > 0 := hc'.1
    by_cases heq : lb.pos = lineStartOf lb.buf lb.pos
    · obtain ⟨r1, l1, n1, hbs1, _⟩ := C03_backspace_total_wf S U lb 1 h
      simp [LM.bind_apply, LM.get, hc', LM.ro, hs, ← heq, hbs1] at hm
      obtain ⟨_, rfl, _⟩ := hm
      rcases backspace_spec S U lb l1 1 r1 n1 h (by simp) hbs1 with ⟨_, hlb, _, _⟩ | ⟨t, x, y, z, _, hlt, hbuf, hx, hy, hlb, _, _⟩
      · rw [hlb]
      · exfalso
        rw [hlb] at hb
        simp only at hb
        have := blen_lt_of_mid (x := x) (y := y) (z := z) (by omega)
        rw [← hbuf, ← hb] at this
        exact Nat.lt_irrefl _ this
    · obtain ⟨x, y, z, hd, hbuf, hx, hy⟩ := drain_ok .backward hbs h hle
      simp [LM.bind_apply, LM.get, hc', LM.ro, hs, heq, hd, LM.setPos] at hm
      obtain ⟨_, rfl, _⟩ := hm
      exfalso
      simp only at hb
      have := blen_lt_of_mid (x := x) (y := y) (z := z) (by omega)
      rw [← hbuf, ← hb] at this
      exact Nat.lt_irrefl _ this
  · simp only [LM.bind_apply, LM.get, hc] at hm
    simp at hm
    obtain ⟨_, rfl, _⟩ := hm; rfl

theorem mid_nil_of_same {x y z b : Text} (hbuf : b = x ++ y ++ z) (hb : x ++ z = b) : blen y = 0 := by
  have : blen (x ++ z) = blen (x ++ y ++ z) := by rw [hb, hbuf]
  simp at this; omega

theorem kill_charSearch_cursor (lb l : LB) (n : Nat) (cs : CharSearch) (r : Bool) (ns : List Notif) (h : WF lb)
    (hk : LB.kill S U (.viCharSearch n cs) lb = .ok (r, l, ns)) (hb : l.buf = lb.buf) : l.pos = lb.pos := by
  obtain ⟨ns0, hd, _⟩ := cs_kill_run hk
  rcases cs_deleteTo_eval S U lb cs n h with ⟨_, he⟩ | ⟨p, x, y, z, d, _, hbuf, hx, hy, he⟩
  · rw [he] at hd; cases hd; rfl
  · rw [he] at hd; cases hd
    simp only at hb ⊢
    have hy0 := mid_nil_of_same hbuf hb
    cases cs <;> simp only [cs_iv] at hx hy <;> omega

theorem kill_viFirstPrint_cursor (lb l : LB) (r : Bool) (ns : List Notif) (h : WF lb)
    (hrun : LB.kill S U .viFirstPrint lb = .ok (r, l, ns)) (hb : l.buf = lb.buf) : l.pos = lb.pos := by
  obtain ⟨fp, ht, hf⟩ := firstPrint_eq_target S U lb h
  obtain ⟨p', hp', hpb⟩ := firstPrint_ok S U lb h
  rw [hf] at hp'; cases hp'
  by_cases h1 : fp < lb.pos
  · obtain ⟨x, y, z, hd, hbuf, hx, hy⟩ := drain_ok .backward hpb h (by omega)
    have hne : (fp != lb.pos) = true := by simp; omega
    simp [LB.kill, LM.bind_apply, LM.notify, LM.ro, hf, LM.get, h1, hd, LM.setPos, hne] at hrun
    obtain ⟨_, rfl, _⟩ := hrun
    simp only at hb ⊢
    have := mid_nil_of_same hbuf hb
    omega
  · by_cases h2 : lb.pos < fp
    · obtain ⟨x, y, z, hd, hbuf, hx, hy⟩ := drain_ok .forward h hpb (by omega)
      have hne : (fp != lb.pos) = true := by simp; omega
      simp [LB.kill, LM.bind_apply, LM.notify, LM.ro, hf, LM.get, h1, h2, hd, hne] at hrun
      obtain ⟨_, rfl, _⟩ := hrun
      rfl
    · have hne : (fp != lb.pos) = false := by simp; omega
      simp [LB.kill, LM.bind_apply, LM.notify, LM.ro, hf, LM.get, h1, h2, hne] at hrun
      obtain ⟨_, rfl, _⟩ := hrun
      rfl

theorem kill_lineUp_cursor (lb l : LB) (n : Nat) (r : Bool) (ns : List Notif) (h : WF lb)
    (hrun : LB.kill S U (.lineUp n) lb = .ok (r, l, ns)) (hb : l.buf = lb.buf) : l.pos = lb.pos := by
  obtain ⟨r0, hr0, hprop⟩ := nLinesUp_ok lb n h
  obtain ⟨x, s, hbs, hpos⟩ := h.split
  have hsf : sliceFrom lb.buf lb.pos = .ok s := by rw [hbs, hpos]; exact sliceFrom_mid x s
  cases r0 with
  | none =>
    have hk : LB.kill S U (.lineUp n) lb = .ok (false, lb, [.startKill, .stopKill]) := by
      simp [LB.kill, LM.bind_apply, LM.notify, LM.ro, hr0]
    rw [hk] at hrun; cases hrun; rfl
  | some ab =>
    obtain ⟨A, B⟩ := ab
    obtain ⟨hA, hB, hle1, hle2⟩ := hprop _ _ rfl
    have ha' : IsBoundary lb.buf (if findChar '\n' s = none ∧ 0 < A then A - 1 else A) := by
      split
      · exact hA.pred_boundary
      · exact hA.boundary
    have hle' : (if findChar '\n' s = none ∧ 0 < A then A - 1 else A) ≤ B := by
      split <;> omega
    obtain ⟨x', y, z, d, hsp, hd, hbuf, hx, hy⟩ := ls_drainAround_eval S U _ B lb.pos lb ha' hB h hle'
    have hk : LB.kill S U (.lineUp n) lb =
        .ok (true, { lb with buf := x' ++ z, pos := (if findChar '\n' s = none ∧ 0 < A then A - 1 else A) },
             [.startKill] ++ ([.del (if findChar '\n' s = none ∧ 0 < A then A - 1 else A) y d] ++ [.stopKill])) := by
      simp [LB.kill, LM.bind_apply, LM.notify, LM.ro, hr0, LM.get, LM.lift, hsf, hsp, hd]
    rw [hk] at hrun
    cases hrun
    simp only at hb ⊢
    have := mid_nil_of_same hbuf hb
    have hle3 : (if findChar '\n' s = none ∧ 0 < A then A - 1 else A) ≤ A := by split <;> omega
    generalize (if findChar '\n' s = none ∧ 0 < A then A - 1 else A) = a' at *
    omega

theorem kill_lineDown_cursor (lb l : LB) (n : Nat) (r : Bool) (ns : List Notif) (h : WF lb)
    (hrun : LB.kill S U (.lineDown n) lb = .ok (r, l, ns)) (hb : l.buf = lb.buf) : l.pos = lb.pos := by
  obtain ⟨r0, hr0, hprop⟩ := nLinesDown_ok lb n h
  cases r0 with
  | none =>
    have hk : LB.kill S U (.lineDown n) lb = .ok (false, lb, [.startKill, .stopKill]) := by
      simp [LB.kill, LM.bind_apply, LM.notify, LM.ro, hr0]
    rw [hk] at hrun; cases hrun; rfl
  | some ab =>
    obtain ⟨A, B⟩ := ab
    obtain ⟨hA, hB, hle1, hle2⟩ := hprop _ _ rfl
    obtain ⟨mid, hsl⟩ := slice_ok hA.boundary hB (by omega)
    have ha' : IsBoundary lb.buf
        (if (mid.filter (· == '\n')).length ≤ n ∧ 0 < A then A - 1 else A) := by
      split
      · exact hA.pred_boundary
      · exact hA.boundary
    have hle'' : (if (mid.filter (· == '\n')).length ≤ n ∧ 0 < A then A - 1 else A) ≤ B := by
      split <;> omega
    obtain ⟨x', y, z, d, hsp, hd, hbuf, hx, hy⟩ := ls_drainAround_eval S U _ B lb.pos lb ha' hB h hle''
    have hk : LB.kill S U (.lineDown n) lb =
        .ok (true, { lb with buf := x' ++ z,
                             pos := (if (mid.filter (· == '\n')).length ≤ n ∧ 0 < A then A - 1 else A) },
             [.startKill] ++ ([.del (if (mid.filter (· == '\n')).length ≤ n ∧ 0 < A then A - 1 else A)
                y d] ++ [.stopKill])) := by
      simp [LB.kill, LM.bind_apply, LM.notify, LM.ro, hr0, LM.get, LM.lift, hsl, hsp, hd]
    rw [hk] at hrun
    cases hrun
    simp only at hb ⊢
    have := mid_nil_of_same hbuf hb
    split at hx <;> split <;> omega

theorem kill_wholeBuffer_cursor (lb l : LB) (r : Bool) (ns : List Notif) (h : WF lb)
    (hrun : LB.kill S U .wholeBuffer lb = .ok (r, l, ns)) (hb : l.buf = lb.buf) : l.pos = lb.pos := by
  obtain ⟨r1, l1, hmv, hl1⟩ := moveBufferStart_refines S U lb
  unfold MovedTo at hl1
  simp only [Option.getD_some] at hl1
  subst hl1
  by_cases hemp : lb.buf.isEmpty = true
  · have hnil : lb.buf = [] := by simpa using hemp
    have hp0 : lb.pos = 0 := by have := h.le_len; simp [LB.len, hnil] at this; exact this
    simp [LB.kill, LM.bind_apply, LM.notify, LM.get, hmv, hnil] at hrun
    obtain ⟨_, rfl, _⟩ := hrun
    exact hp0.symm
  · obtain ⟨x, y, z, d, hd, hbuf, hx, hy⟩ := drainAround_ok (lb := { lb with pos := 0 }) lb.pos
      (isBoundary_zero lb.buf) (isBoundary_len lb.buf) h (Nat.zero_le _)
    have hd' : LB.drainAround 0 lb.len lb.pos { lb with pos := 0 } = _ := hd
    have hne : ¬ lb.buf = [] := by simpa using hemp
    have hd'' : LB.drainAround 0 (blen lb.buf) lb.pos { lb with pos := 0 } = _ := hd
    simp [LB.kill, LM.bind_apply, LM.notify, LM.get, hmv, hne, hd'', LB.len] at hrun
    obtain ⟨_, rfl, _⟩ := hrun
    simp only at hb ⊢
    have hbuf' : lb.buf = x ++ y ++ z := hbuf
    have := mid_nil_of_same hbuf' hb
    have hle := h.le_len
    try simp only at hb ⊢
    omega

/-- **a kill that leaves the text as it was leaves the cursor where it was**, for every movement -/
theorem kill_nothing_keeps_cursor (m : Movement) (lb l : LB) (r : Bool) (ns : List Notif)
    (h : WF lb) (hk : LB.kill S U m lb = .ok (r, l, ns)) (hb : l.buf = lb.buf) : l.pos = lb.pos := by
  cases m with
  | forwardChar n => exact kill_forwardChar_cursor S U lb l n r ns h hk
  | backwardChar n => exact kill_backwardChar_cursor S U lb l n r ns h hk hb
  | forwardWord n a d => exact kill_forwardWord_cursor S U lb l n a d r ns h hk
  | backwardWord n d => exact kill_backwardWord_cursor S U lb l n d r ns h hk hb
  | endOfLine => exact kill_endOfLine_cursor S U lb l r ns h hk
  | wholeLine => exact kill_wholeLine_cursor S U lb l r ns h hk hb
  | beginningOfLine => exact kill_beginningOfLine_cursor S U lb l r ns h hk hb
  | endOfBuffer => exact kill_endOfBuffer_cursor S U lb l r ns h hk
  | beginningOfBuffer => exact kill_beginningOfBuffer_cursor S U lb l r ns h hk hb
  | wholeBuffer => exact kill_wholeBuffer_cursor S U lb l r ns h hk hb
  | viCharSearch n cs => exact kill_charSearch_cursor S U lb l n cs r ns h hk hb
  | viFirstPrint => exact kill_viFirstPrint_cursor S U lb l r ns h hk hb
  | lineUp n => exact kill_lineUp_cursor S U lb l n r ns h hk hb
  | lineDown n => exact kill_lineDown_cursor S U lb l n r ns h hk hb

/-- **Kills** (every movement): `LineBuffer::kill` returns; what is left is the text without the
    declarative span and the cursor is at the span start; with nothing to kill, text and cursor are
    unchanged. -/
theorem kill_refines (hS : S.Stable) (hnl : S.NlAlone) (mode : Mode) (lb : LB) (h : WF lb) (m : Movement) :
    ∃ r l ns, LB.kill S U m lb = .ok (r, l, ns) ∧ WF l ∧
      ((Act.kill m).apply S U mode lb.buf lb.pos).holds l := by
  obtain ⟨r, l, ns, hk, hw⟩ := C03_kill_total_wf S U m lb h
  have hc := C04_kill_is_span S U hS hnl lb l m r ns h hk
  obtain ⟨h1, h2⟩ := holds_kill_of_check S U (mode := mode) hc
  refine ⟨r, l, ns, hk, hw, ?_⟩
  by_cases hsp : spanOf S U lb.buf lb.pos m false = .nothing
  · have hb : l.buf = lb.buf := h1 lb.buf (by simp [Act.apply, hsp])
    exact h2 (.inr (kill_nothing_keeps_cursor S U m lb l r ns h hk hb))
  · exact h2 (.inl hsp)

/-- `change` differs from `kill` only in the input mode it asks for -/
theorem apply_change_eq (mode : Mode) (buf : Text) (pos : Nat) (m : Movement) :
    ((Act.change m).apply S U mode buf pos).text = ((Act.kill m).apply S U mode buf pos).text ∧
    ((Act.change m).apply S U mode buf pos).pos = ((Act.kill m).apply S U mode buf pos).pos := by
  simp only [Act.apply]
  cases spanOf S U buf pos m false with
  | unjudged => exact ⟨rfl, rfl⟩
  | nothing => exact ⟨rfl, rfl⟩
  | span a b =>
    simp only []
    cases hr : removeSpan buf a b with
    | none => exact ⟨rfl, rfl⟩
    | some bt => obtain ⟨t, x⟩ := bt; exact ⟨rfl, rfl⟩

theorem holds_change_iff (mode : Mode) (buf : Text) (pos : Nat) (m : Movement) (l : LB) :
    (((Act.change m).apply S U mode buf pos).holds l ↔ ((Act.kill m).apply S U mode buf pos).holds l) ∧
    (((Act.change m).apply S U mode buf pos).holdsText l ↔ ((Act.kill m).apply S U mode buf pos).holdsText l) := by
  obtain ⟨h1, h2⟩ := apply_change_eq S U mode buf pos m
  simp only [Want.holds, Want.holdsText, h1, h2, and_self]

/-! ### (C) the families at the level of `execute` -/

section
variable (cfg : EdCfg)

/-- postcondition of a family theorem: the command proceeds and the line is the documented one -/
def Refined (a : Act) (mode : Mode) (s : Ed) : Status → Ed → Prop :=
  fun st s' => st = .proceed ∧ (a.apply S U mode s.line.buf s.line.pos).holds s'.line

/-- the documented target of `^` (a line with a non-blank character) is the declarative `firstPrintTarget` -/
theorem firstPrintOf_some {buf : Text} {pos t : Nat} (h : firstPrintOf S U buf pos = some t) :
    firstPrintTarget S U buf pos = some t := by
  unfold firstPrintOf at h
  unfold firstPrintTarget
  simp only at h ⊢
  cases hsp : splitAt? buf (lineStartOf buf pos) with
  | none => rw [hsp] at h; cases h
  | some xr =>
    obtain ⟨x, rest⟩ := xr
    rw [hsp] at h
    simp only at h ⊢
    split at h
    · cases h
    · exact h

/-- vi `^` (D46): `move_to_first_print` refines the documented motion -/
theorem moveToFirstPrint_refines (mode : Mode) (lb : LB) (h : WF lb) :
    ∃ r l, LB.moveToFirstPrint S U lb = .ok (r, l, []) ∧
      ((Act.move .viFirstPrint).apply S U mode lb.buf lb.pos).holds l := by
  obtain ⟨r, l, h1, _, h3⟩ := C03_moveToFirstPrint_total_wf S U lb h
  refine ⟨r, l, h1, holds_move_cases S U h3 fun tg htg => ?_⟩
  obtain ⟨ht, _, _⟩ := moveToFirstPrint_target S U lb l r [] h h1
  simp only [moveTarget] at htg
  cases hfo : firstPrintOf S U lb.buf lb.pos with
  | none => rw [hfo] at htg; cases htg
  | some t =>
    rw [hfo] at htg
    cases htg
    have := firstPrintOf_some S U hfo
    rw [ht] at this
    cases this
    rfl

theorem execute_move_refines (hS : S.Stable) (mode : Mode) (m : Movement) (s : Ed) (hwf : WF s.line)
    (hbe : ∀ n w, m ≠ .forwardWord n .beforeEnd w) :
    wp (execute S U cfg (.move m)) (Refined S U (.move m) mode s) (fun _ _ => False) s := by
  obtain ⟨h1, h2, h3, h4, h5, h6, h7, h8, h9, h10, h11⟩ := moveOp_refines S U hS mode s.line hwf s.layoutPromptCol
  have fin : ∀ {op : LM Bool} {m' : Movement},
      (∃ r l, op s.line = .ok (r, l, []) ∧ ((Act.move m').apply S U mode s.line.buf s.line.pos).holds l) →
      wp (do editMove S U cfg op; pure Status.proceed : EM Status) (Refined S U (.move m') mode s) (fun _ _ => False) s := by
    intro op m' ⟨r, l, ho, hh⟩
    simp only [wp_bind, wp_pure]
    exact wp_editMove_line S U cfg ho fun s' hl => ⟨rfl, hl ▸ hh⟩
  cases m
  case viFirstPrint => exact fin (moveToFirstPrint_refines S U mode s.line hwf)
  case wholeLine =>
    show wp (pure Status.proceed) _ _ s
    exact ⟨rfl, by simp [Act.apply, moveTarget, Want.holds]⟩
  case wholeBuffer =>
    show wp (pure Status.proceed) _ _ s
    exact ⟨rfl, by simp [Act.apply, moveTarget, Want.holds]⟩
  case beginningOfLine => exact fin h6
  case endOfLine => exact fin h7
  case backwardWord n w => exact fin (h3 n w)
  case forwardWord n a w => exact fin (h4 n a w (fun ha => hbe n w (by rw [ha])))
  case viCharSearch n cs => exact fin (h5 n cs)
  case backwardChar n => exact fin (h2 n)
  case forwardChar n => exact fin (h1 n)
  case beginningOfBuffer => exact fin h8
  case endOfBuffer => exact fin h9
  case lineUp n =>
    show wp (do let pc ← getPromptCol; editMove S U cfg (LB.moveToLineUp S U n pc); pure Status.proceed : EM Status) _ _ s
    rw [wp_bind, wp_getPromptCol]
    exact fin (h10 n)
  case lineDown n =>
    show wp (do let pc ← getPromptCol; editMove S U cfg (LB.moveToLineDown S U n pc); pure Status.proceed : EM Status) _ _ s
    rw [wp_bind, wp_getPromptCol]
    exact fin (h11 n)

theorem execute_kill_refines (hS : S.Stable) (hnl : S.NlAlone) (hnp : cfg.hinterPanicAt = none) (mode : Mode)
    (m : Movement) (s : Ed) (hwf : WF s.line) (hr : RingOK s.ring) :
    wp (execute S U cfg (.kill m)) (Refined S U (.kill m) mode s) (fun _ _ => False) s := by
  obtain ⟨r, l, ns, hk, _, h1⟩ := kill_refines S U hS hnl mode s.line hwf m
  show wp (do editKill S U cfg m; pure Status.proceed : EM Status) _ _ s
  simp only [wp_bind, wp_pure]
  exact wp_editKill_line S U cfg m hnp hr hk fun s' hl => ⟨rfl, hl ▸ h1⟩

/-- **Change** (`Replace(m, None)`: vi `c`+motion, `s`, `S`, `C`): the same removal as the kill -/
theorem execute_change_refines (hS : S.Stable) (hnl : S.NlAlone) (hnp : cfg.hinterPanicAt = none) (mode : Mode)
    (m : Movement) (s : Ed) (hwf : WF s.line) (hr : RingOK s.ring) :
    wp (execute S U cfg (.replace m none)) (Refined S U (.change m) mode s) (fun _ _ => False) s := by
  obtain ⟨r, l, ns, hk, _, h1⟩ := kill_refines S U hS hnl mode s.line hwf m
  obtain ⟨e1, _⟩ := holds_change_iff S U mode s.line.buf s.line.pos m l
  show wp (do
      editKill S U cfg m
      pure ()
      let inserting ← (fun s => .ok (cfg.vi && s.inp.inputMode != .command, s) : EM Bool)
      if !inserting then do let _ ← changesEnd; pure ()
      pure Status.proceed : EM Status) _ _ s
  rw [wp_bind]
  refine wp_editKill_line S U cfg m hnp hr hk fun s' hl => ?_
  have fin : Refined S U (.change m) mode s Status.proceed s' := ⟨rfl, hl ▸ e1.mpr h1⟩
  simp only [wp_bind, wp_pure]
  rw [wp_bind', wp_read]
  split
  · simp only [wp_bind, wp_changesEnd, wp_pure]
    exact fin
  · simp only [wp_bind, wp_pure]
    exact fin

/-- **Yank over a movement** (`ViYankTo`: vi `y`+motion): the line is not touched at all -/
theorem execute_yank_refines (mode : Mode) (m : Movement) (s : Ed) (hwf : WF s.line) (hr : RingOK s.ring) :
    wp (execute S U cfg (.viYankTo m))
      (fun st s' => st = .proceed ∧ s'.line = s.line ∧
        ((Act.yankOnly m).apply S U mode s.line.buf s.line.pos).holds s'.line) (fun _ _ => False) s := by
  obtain ⟨r, hc⟩ := C03_copy_total S U m s.line hwf
  have hh : ((Act.yankOnly m).apply S U mode s.line.buf s.line.pos).holds s.line := by
    simp [Act.apply, Want.holds]
  show wp (do
      let l ← getLine
      match ← EM.liftP (LB.copy S U l m) with
      | some text => ringKill text
      | none => pure ()
      pure Status.proceed : EM Status) _ _ s
  simp only [wp_bind, wp_getLine]
  have hl : EM.liftP (LB.copy S U s.line m) s = .ok (r, s) := by unfold EM.liftP; rw [hc]
  refine wp_of_eq_ok hl ?_
  cases r with
  | none => simp only [wp_bind, wp_pure]; exact ⟨trivial, trivial, hh⟩
  | some t =>
    obtain ⟨k', hk, _⟩ := hr.kill_ok t .append
    have hrk : ringKill t s = .ok ((), { s with ring := k'.reset }) := by unfold ringKill; rw [hk]
    simp only [wp_bind]
    refine wp_of_eq_ok hrk ?_
    simp only [wp_pure]
    exact ⟨trivial, trivial, hh⟩

/-- **Self-insert** (`SelfInsert n c`, growable buffer): `n` copies of `c` at the cursor, the cursor
    after them -/
theorem execute_insert_refines (hnp : cfg.hinterPanicAt = none) (mode : Mode) (n : Nat) (c : Char) (s : Ed)
    (hwf : WF s.line) (hg : s.line.canGrow = true) :
    wp (execute S U cfg (.selfInsert n c)) (Refined S U (.insert n c) mode s) (fun _ _ => False) s := by
  obtain ⟨x, z, hb, hp⟩ := hwf.split
  have hins := insert_eval S U c n s.line
  have hmt : s.line.mustTruncate (s.line.len + c.utf8Size * n) = false := by simp [LB.mustTruncate, hg]
  rw [hmt, hb, hp, splitAtByte_append] at hins
  simp only [Bool.false_eq_true, if_false] at hins
  show wp (do editInsert S U cfg c n; pure Status.proceed : EM Status) _ _ s
  simp only [wp_bind, wp_pure]
  refine wp_mono (editInsert_spec_np S U cfg hnp c n s) ?_ ?_
  · intro _ s' ⟨r, l, ns, hi, hc⟩
    rw [hins] at hi
    cases hi
    obtain ⟨hl, _⟩ := Ed.core_eq hc
    refine ⟨rfl, ?_⟩
    rw [hl, hb, hp]
    by_cases hn : n = 0
    · simp [Act.apply, hn, Want.holds]
    · have hia : insertAt (x ++ z) (blen x) (List.replicate n c) = some (x ++ List.replicate n c ++ z) :=
        insertAt_mid x z _
      simp [Act.apply, hn, replicateText, hia, Want.holds, Nat.mul_comm]
  · intro o s' ⟨_, _, e, he⟩
    rw [hins] at he; cases he

/-! ### the summary over `Act` -/

/-- the movements whose motion target is proved (all but the `BeforeEnd` word targets: the known finding
    F-C04-vi-e-count; `^` is covered since the repair of D46) -/
def MoveCovered (m : Movement) : Prop := ∀ n w, m ≠ .forwardWord n .beforeEnd w

/-- the resolved actions for which `execute` is proved to refine `Act.apply` here.  Not covered:
    case changes, transpose-chars and vi `r` (their declarative results `editWordWant`,
    `transposeWant`, the `replaceChar` rule are checked by the oracle only), and the finishing
    actions (C01_outcome_step). -/
def Covered : Act → Prop
  | .insert _ _ | .nothing | .toCommand | .toInsert none | .yankOnly _ => True
  | .move m | .toInsert (some m) => MoveCovered m
  | .kill _ | .change _ => True
  | _ => False

/-- postcondition of `C01_execute_refines`: the command proceeds and text and cursor are the
    documented ones -/
def RefinedAct (a : Act) (mode : Mode) (s : Ed) : Status → Ed → Prop := Refined S U a mode s

theorem refinedAct_of_refined {a : Act} {mode : Mode} {s : Ed} {st : Status} {s' : Ed}
    (h : Refined S U a mode s st s') : RefinedAct S U a mode s st s' := h

/-- `toInsert` / `toCommand` ask for the same text and cursor as the motion they contain -/
theorem holds_toInsert_iff (mode : Mode) (buf : Text) (pos : Nat) (m : Movement) (l : LB) :
    ((Act.toInsert (some m)).apply S U mode buf pos).holds l ↔ ((Act.move m).apply S U mode buf pos).holds l := by
  simp only [Act.apply]
  cases moveTarget S U buf pos m with
  | none => simp [Want.holds]
  | some tg => cases tg <;> simp [Want.holds]

theorem holds_toCommand_of_move (mode : Mode) (buf : Text) (pos : Nat) (l : LB)
    (h : ((Act.move (.backwardChar 1)).apply S U mode buf pos).holds l) :
    (Act.toCommand.apply S U mode buf pos).holds l := by
  revert h
  simp only [Act.apply, moveTarget]
  cases charTargetBwd S buf pos 1 <;> simp (config := { contextual := true }) [Want.holds]

/-- **C01_execute_refines**: for every covered resolved action, executing the command it denotes
    from a well-formed state (growable line, kill ring within bounds, hinter that does not panic,
    segmenter stable with the line break a cluster of its own) returns — it never exits — with the
    status `proceed`, and the line is the one `Act.apply` documents. -/
theorem execute_refines (hS : S.Stable) (hnl : S.NlAlone) (hnp : cfg.hinterPanicAt = none) (mode : Mode)
    (a : Act) (c : Cmd) (hc : a.toCmd = some c) (hcov : Covered a) (s : Ed) (hwf : WF s.line)
    (hg : s.line.canGrow = true) (hr : RingOK s.ring) :
    wp (execute S U cfg c) (RefinedAct S U a mode s) (fun _ _ => False) s := by
  cases a with
  | insert n ch =>
    cases hc
    exact wp_mono (execute_insert_refines S U cfg hnp mode n ch s hwf hg) (fun _ _ h => refinedAct_of_refined S U h) (fun _ _ h => h)
  | move m =>
    cases hc
    exact wp_mono (execute_move_refines S U cfg hS mode m s hwf hcov) (fun _ _ h => refinedAct_of_refined S U h) (fun _ _ h => h)
  | kill m =>
    cases hc
    exact execute_kill_refines S U cfg hS hnl hnp mode m s hwf hr
  | change m =>
    cases hc
    exact execute_change_refines S U cfg hS hnl hnp mode m s hwf hr
  | yankOnly m =>
    cases hc
    refine wp_mono (execute_yank_refines S U cfg mode m s hwf hr) (fun _ s' h => ?_) (fun _ _ h => h)
    exact ⟨h.1, h.2.2⟩
  | toInsert pre =>
    cases pre with
    | none =>
      cases hc
      show wp (pure Status.proceed) _ _ s
      exact ⟨rfl, by simp [Act.apply, Want.holds]⟩
    | some m =>
      cases hc
      refine wp_mono (execute_move_refines S U cfg hS mode m s hwf hcov) (fun _ s' h => ?_) (fun _ _ h => h)
      have hh := (holds_toInsert_iff S U mode s.line.buf s.line.pos m s'.line).mpr h.2
      exact ⟨h.1, hh⟩
  | toCommand =>
    cases hc
    refine wp_mono (execute_move_refines S U cfg hS mode (.backwardChar 1) s hwf (by simp)) (fun _ s' h => ?_) (fun _ _ h => h)
    have hh := holds_toCommand_of_move S U mode s.line.buf s.line.pos s'.line h.2
    exact ⟨h.1, hh⟩
  | nothing =>
    cases hc
    show wp (pure Status.proceed) _ _ s
    exact ⟨rfl, by simp [Act.apply, Want.holds]⟩
  | editWord w => exact hcov.elim
  | transposeChars => exact hcov.elim
  | replaceChar n ch => exact hcov.elim
  | accept => exact hcov.elim
  | eof => exact hcov.elim
  | interrupt => exact hcov.elim
  | unjudged => exact hcov.elim

theorem refinedAct_congr (a : Act) (mode : Mode) {s1 s : Ed} (h : s1.line = s.line) :
    RefinedAct S U a mode s1 = RefinedAct S U a mode s := by
  unfold RefinedAct Refined; rw [h]

/-- from the keymap's answer to the effect: if the keymap returns the command `a` denotes and keeps
    line and kill ring, running keymap + `execute` has the documented effect -/
theorem key_to_effect {km : EM Cmd} (hS : S.Stable) (hnl : S.NlAlone) (hnp : cfg.hinterPanicAt = none) (mode : Mode)
    (a : Act) (c : Cmd) (hc : a.toCmd = some c) (hcov : Covered a) (s s1 : Ed) (hwf : WF s.line)
    (hg : s.line.canGrow = true) (hr : RingOK s.ring)
    (hkm : km s = .ok (c, s1)) (hl : s1.line = s.line) (hring : s1.ring = s.ring) :
    wp (do let cmd ← km; execute S U cfg cmd) (RefinedAct S U a mode s) (fun _ _ => False) s := by
  rw [wp_bind]
  refine wp_of_eq_ok hkm ?_
  have := execute_refines S U cfg hS hnl hnp mode a c hc hcov s1 (hl ▸ hwf) (hl ▸ hg) (hring ▸ hr)
  rw [refinedAct_congr S U a mode hl] at this
  exact this

end

end

end Rl
