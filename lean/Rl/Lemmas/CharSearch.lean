/-
  Character searches (`f`, `F`, `t`, `T` of vi mode): the model's `search_char_pos` computes the
  declarative target of `Rl/Spec/Motion.lean`; kills / copies with a character search cover exactly
  the declarative span.
-/
import Rl.Lemmas.Motion
import Rl.Lemmas.Span
namespace Rl
open Rl.Spec

/-! ### G1: plain forward / backward searches -/

/-- `.take(n).last()` is the n-th element when it exists -/
theorem cs_take_getLast? {α : Type} (l : List α) (n : Nat) (v : α) (hn : n ≠ 0)
    (h : l[n - 1]? = some v) : (l.take n).getLast? = some v := by
  rw [List.getLast?_take, if_neg hn, h]; rfl

/-- what `occFwd` unfolds to from a well-formed state -/
theorem cs_occFwd_some {S : Segmenter} {lb : LB} {c : Char} {n t : Nat} (h : WF lb)
    (ht : occFwd S lb.buf lb.pos c n = some t) :
    ∃ x g r p, lb.buf = x ++ g ++ r ∧ lb.pos = blen x ∧ g ≠ [] ∧ (S.seg (g ++ r)).head? = some g ∧
      (occ c r)[n - 1]? = some p ∧ t = lb.pos + blen g + p := by
  obtain ⟨x, s, hb, hp⟩ := h.split
  have hsp : splitAtByte lb.buf lb.pos = some (x, s) := by rw [hb, hp]; exact splitAtByte_append x s
  unfold occFwd splitAt? at ht
  simp only [hsp, bind, Option.bind] at ht
  by_cases hs : s = []
  · subst hs
    have : S.seg [] = [] := by
      have := S.flatten_eq []
      cases hseg : S.seg [] with
      | nil => rfl
      | cons g gs =>
        have hg := S.ne_nil [] g (by rw [hseg]; simp)
        rw [hseg] at this
        simp at this
        exact absurd this.1 hg
    simp [this] at ht
  · obtain ⟨g, r, hg, hgr, hgne⟩ := seg_head S hs
    subst hgr
    have hsh : splitAtByte lb.buf (lb.pos + blen g) = some (x ++ g, r) := by
      rw [hb, hp]
      have := splitAtByte_append (x ++ g) r
      simpa using this
    simp only [hg, hsh] at ht
    rw [List.getElem?_map] at ht
    cases ho : (occ c r)[n - 1]? with
    | none => simp [ho] at ht
    | some p =>
      simp [ho] at ht
      exact ⟨x, g, r, p, by rw [hb]; simp, hp, hgne, hg, ho, by omega⟩

theorem searchCharPos_forward_eq (S : Segmenter) (lb : LB) (c : Char) (n t : Nat) (h : WF lb)
    (hn : n ≠ 0) (ht : occFwd S lb.buf lb.pos c n = some t) :
    LB.searchCharPos S lb (.forward c) n = .ok (some t) := by
  obtain ⟨x, g, r, p, hb, hp, hgne, hg, ho, rfl⟩ := cs_occFwd_some h ht
  have hsf : sliceFrom lb.buf lb.pos = .ok (g ++ r) := by
    rw [hb, hp, List.append_assoc]; exact sliceFrom_mid x (g ++ r)
  have hgp := blen_pos_of_ne_nil hgne
  have hm : p ∈ occ c r := List.mem_of_getElem? ho
  obtain ⟨a, b, rfl, rfl⟩ := occ_mem hm
  have hlen : lb.len = blen x + blen g + blen (a ++ c :: b) := by simp [LB.len, hb]; omega
  have hcp := Char.utf8Size_pos c
  have he : (lb.pos == lb.len) = false := by simp [hlen, hp]; omega
  have hlt : lb.pos + blen g < lb.len := by simp [hlen, hp]; omega
  have hsh : sliceFrom lb.buf (lb.pos + blen g) = .ok (a ++ c :: b) := by
    rw [hb, hp]
    have := sliceFrom_mid (x ++ g) (a ++ c :: b)
    simpa using this
  have hr := cs_take_getLast? _ n _ hn ho
  simp [LB.searchCharPos, LB.graphemeAtCursor, he, hsf, hg, hlt, hsh, hr, bind, Except.bind, pure,
    Except.pure]

/-- what `occBwd` unfolds to from a well-formed state -/
theorem cs_occBwd_some {lb : LB} {c : Char} {n t : Nat} (h : WF lb)
    (ht : occBwd lb.buf lb.pos c n = some t) :
    ∃ x s, lb.buf = x ++ s ∧ lb.pos = blen x ∧ (occ c x).reverse[n - 1]? = some t := by
  obtain ⟨x, s, hb, hp⟩ := h.split
  have hsp : splitAtByte lb.buf lb.pos = some (x, s) := by rw [hb, hp]; exact splitAtByte_append x s
  unfold occBwd splitAt? at ht
  simp only [hsp, bind, Option.bind] at ht
  exact ⟨x, s, hb, hp, ht⟩

theorem searchCharPos_backward_eq (S : Segmenter) (lb : LB) (c : Char) (n t : Nat) (h : WF lb)
    (hn : n ≠ 0) (ht : occBwd lb.buf lb.pos c n = some t) :
    LB.searchCharPos S lb (.backward c) n = .ok (some t) := by
  obtain ⟨x, s, hb, hp, ho⟩ := cs_occBwd_some h ht
  have hst : sliceTo lb.buf lb.pos = .ok x := by rw [hb, hp]; exact sliceTo_mid x s
  have hr := cs_take_getLast? _ n _ hn ho
  simp [LB.searchCharPos, hst, hr, bind, Except.bind, pure, Except.pure]

theorem cs_offOf_succ (gs : List Text) (k : Nat) (hk : k < gs.length) :
    offOf gs (k + 1) = offOf gs k + blen gs[k] := by
  unfold offOf
  rw [List.take_add_one, List.getElem?_eq_getElem hk]
  simp only [Option.toList, List.flatten_append, blen_append, List.flatten_cons, List.flatten_nil,
    List.append_nil]

theorem cs_offOf_lt {gs : List Text} (hne : ∀ g ∈ gs, g ≠ []) {i j : Nat} (hij : i < j)
    (hj : j ≤ gs.length) : offOf gs i < offOf gs j := by
  induction j with
  | zero => omega
  | succ j ih =>
    have hs := cs_offOf_succ gs j (by omega)
    have := blen_pos_of_ne_nil (hne _ (List.getElem_mem (by omega : j < gs.length)))
    by_cases h : i = j
    · subst h; omega
    · have := ih (by omega) (by omega); omega

theorem cs_offOf_le {gs : List Text} (hne : ∀ g ∈ gs, g ≠ []) {i j : Nat} (hij : i ≤ j)
    (hj : j ≤ gs.length) : offOf gs i ≤ offOf gs j := by
  by_cases h : i = j
  · subst h; exact Nat.le_refl _
  · exact Nat.le_of_lt (cs_offOf_lt hne (by omega) hj)

theorem cs_bounds_mem {base : Nat} {gs : List Text} {p : Nat} (h : (bounds base gs).contains p = true) :
    ∃ k, k ≤ gs.length ∧ p = base + offOf gs k := by
  simp [bounds] at h
  obtain ⟨k, hk, rfl⟩ := h
  exact ⟨k, by omega, rfl⟩

theorem cs_bounds_filter_lt (base : Nat) {gs : List Text} (hne : ∀ g ∈ gs, g ≠ []) (k : Nat)
    (hk : k ≤ gs.length) :
    (bounds base gs).filter (· < base + offOf gs k) = (List.range k).map (fun i => base + offOf gs i) := by
  unfold bounds
  have hl : gs.length + 1 = k + (gs.length + 1 - k) := by omega
  rw [hl, List.range_add, List.map_append, List.filter_append]
  have h1 : ((List.range k).map (fun i => base + offOf gs i)).filter (· < base + offOf gs k) =
      (List.range k).map (fun i => base + offOf gs i) := by
    rw [List.filter_eq_self]
    intro a ha
    simp only [List.mem_map, List.mem_range] at ha
    obtain ⟨i, hi, rfl⟩ := ha
    have := cs_offOf_lt hne hi hk
    simp; omega
  have h2 : (((List.range (gs.length + 1 - k)).map (k + ·)).map (fun i => base + offOf gs i)).filter
      (· < base + offOf gs k) = [] := by
    rw [List.filter_eq_nil_iff]
    intro a ha
    simp only [List.mem_map, List.mem_range] at ha
    obtain ⟨i, ⟨j, hj, rfl⟩, rfl⟩ := ha
    have := cs_offOf_le hne (Nat.le_add_right k j) (by omega)
    simp; omega
  rw [h1, h2]; simp

theorem cs_range_map_getLast? (f : Nat → Nat) (k : Nat) (hk : k ≠ 0) :
    ((List.range k).map f).getLast? = some (f (k - 1)) := by
  obtain ⟨j, rfl⟩ : ∃ j, k = j + 1 := ⟨k - 1, by omega⟩
  rw [List.range_succ]; simp

theorem cs_bounds_find_gt {gs : List Text} (hne : ∀ g ∈ gs, g ≠ []) (k : Nat) (hk : k ≤ gs.length) :
    (bounds 0 gs).find? (· > offOf gs k) = if k < gs.length then some (offOf gs (k + 1)) else none := by
  unfold bounds
  have hl : gs.length + 1 = (k + 1) + (gs.length - k) := by omega
  rw [hl, List.range_add, List.map_append, List.find?_append]
  have h1 : ((List.range (k + 1)).map (fun i => 0 + offOf gs i)).find? (· > offOf gs k) = none := by
    rw [List.find?_eq_none]
    intro a ha
    simp only [List.mem_map, List.mem_range] at ha
    obtain ⟨i, hi, rfl⟩ := ha
    have := cs_offOf_le hne (show i ≤ k by omega) hk
    simp; omega
  rw [h1]
  cases hm : gs.length - k with
  | zero =>
    have : ¬ k < gs.length := by omega
    simp [this]
  | succ m =>
    have hlt : k < gs.length := by omega
    have := cs_offOf_lt hne (Nat.lt_succ_self k) (show k + 1 ≤ gs.length by omega)
    rw [List.range_succ_eq_map]
    simp [hlt, this]

theorem cs_append_inj_blen {a1 b1 a2 b2 : Text} (h : a1 ++ b1 = a2 ++ b2) (hl : blen a1 = blen a2) :
    a1 = a2 ∧ b1 = b2 := by
  obtain ⟨y, rfl⟩ := prefix_of_append_eq h (Nat.le_of_eq hl)
  have hy : y = [] := by
    apply blen_eq_zero.mp
    simp at hl; omega
  subst hy
  simp at h ⊢
  exact h


theorem cs_take_drop_flatten (gs : List Text) (k : Nat) :
    (gs.take k).flatten ++ (gs.drop k).flatten = gs.flatten := by
  rw [← List.flatten_append, List.take_append_drop]

theorem cs_offOf_zero (gs : List Text) : offOf gs 0 = 0 := by simp [offOf]

/-! ### G2: searches that step by one cluster -/

/-- Segmentation is stable under cutting at its own cluster boundaries: the text made of the first
    `k` clusters of `s` (resp. of all clusters but the first `k`) is segmented into exactly those
    clusters.  Holds for every segmenter given by a left-to-right scan whose state is reset at each
    break (`Segmenter.ofGroup_stable`), in particular for `uaxSeg` and `charSeg`; it is what makes
    "the last cluster of `buf[pos..p]`" (the code) and "the cluster boundary before `p` in the
    segmentation of `buf[pos..]`" (the spec) the same thing. -/
def Segmenter.Stable (S : Segmenter) : Prop :=
  ∀ (s : Text) (k : Nat), S.seg ((S.seg s).take k).flatten = (S.seg s).take k ∧
                           S.seg ((S.seg s).drop k).flatten = (S.seg s).drop k

theorem searchCharPos_forwardBefore_eq (S : Segmenter) (hS : S.Stable) (lb : LB) (c : Char) (n t : Nat)
    (h : WF lb) (hn : n ≠ 0) (ht : charSearchTarget S lb.buf lb.pos (.forwardBefore c) n = some t) :
    LB.searchCharPos S lb (.forwardBefore c) n = .ok (some t) := by
  simp only [charSearchTarget, bind, Option.bind] at ht
  cases hocc : occFwd S lb.buf lb.pos c n with
  | none => simp [hocc] at ht
  | some q =>
    simp only [hocc] at ht
    obtain ⟨x, g, r, p, hb, hp, hgne, hg, ho, rfl⟩ := cs_occFwd_some h hocc
    have hsp : splitAt? lb.buf lb.pos = some (x, g ++ r) := by
      unfold splitAt?; rw [hb, hp, List.append_assoc]; exact splitAtByte_append x (g ++ r)
    simp only [hsp] at ht
    have hgp := blen_pos_of_ne_nil hgne
    split at ht
    · rename_i hc
      obtain ⟨k, hk, hpk⟩ := cs_bounds_mem hc
      have hne := S.ne_nil (g ++ r)
      have hk0 : k ≠ 0 := by
        intro h0; subst h0; rw [cs_offOf_zero] at hpk; omega
      rw [hpk, cs_bounds_filter_lt _ hne k hk, cs_range_map_getLast? _ k hk0] at ht
      simp only [Option.some.injEq] at ht
      subst ht
      -- the model
      have hsf : sliceFrom lb.buf lb.pos = .ok (g ++ r) := by
        rw [hb, hp, List.append_assoc]; exact sliceFrom_mid x (g ++ r)
      have hm : p ∈ occ c r := List.mem_of_getElem? ho
      obtain ⟨a, b, rfl, rfl⟩ := occ_mem hm
      have hlen : lb.len = blen x + blen g + blen (a ++ c :: b) := by simp [LB.len, hb]; omega
      have hcp := Char.utf8Size_pos c
      have he : (lb.pos == lb.len) = false := by simp [hlen, hp]; omega
      have hlt : lb.pos + blen g < lb.len := by simp [hlen, hp]; omega
      have hsh : sliceFrom lb.buf (lb.pos + blen g) = .ok (a ++ c :: b) := by
        rw [hb, hp]
        have := sliceFrom_mid (x ++ g) (a ++ c :: b)
        simpa using this
      have hr := cs_take_getLast? _ n _ hn ho
      have hmid : slice lb.buf lb.pos (lb.pos + blen g + blen a) = .ok (g ++ a) := by
        rw [hb, hp]
        have := slice_mid x (g ++ a) (c :: b)
        simp at this ⊢
        rw [← this]; congr 1; omega
      -- `g ++ a` is the first `k` clusters
      have hfl : ((S.seg (g ++ (a ++ c :: b))).take k).flatten ++ ((S.seg (g ++ (a ++ c :: b))).drop k).flatten
          = (g ++ a) ++ c :: b := by
        rw [cs_take_drop_flatten, S.flatten_eq]; simp
      have hbl : blen ((S.seg (g ++ (a ++ c :: b))).take k).flatten = blen (g ++ a) := by
        have : offOf (S.seg (g ++ (a ++ c :: b))) k = blen g + blen a := by omega
        simpa [offOf] using this
      obtain ⟨hga, _⟩ := cs_append_inj_blen hfl hbl
      have hseg : S.seg (g ++ a) = (S.seg (g ++ (a ++ c :: b))).take k := by
        rw [← hga]; exact (hS _ k).1
      have hkl : k - 1 < (S.seg (g ++ (a ++ c :: b))).length := by omega
      have hlast : (S.seg (g ++ a)).getLast? = some (S.seg (g ++ (a ++ c :: b)))[k - 1] := by
        rw [hseg, List.getLast?_take, if_neg hk0, List.getElem?_eq_getElem hkl]; rfl
      have hsucc := cs_offOf_succ (S.seg (g ++ (a ++ c :: b))) (k - 1) hkl
      have hk1 : k - 1 + 1 = k := by omega
      rw [hk1] at hsucc
      have hll : blen (S.seg (g ++ (a ++ c :: b)))[k - 1] ≤ lb.pos + blen g + blen a := by omega
      have hres : lb.pos + blen g + blen a - blen (S.seg (g ++ (a ++ c :: b)))[k - 1] =
          lb.pos + offOf (S.seg (g ++ (a ++ c :: b))) (k - 1) := by omega
      simp [LB.searchCharPos, LB.graphemeAtCursor, he, hsf, hg, hlt, hsh, hr, hmid, hlast, hll, hres,
        bind, Except.bind, pure, Except.pure]
    · simp at ht

theorem searchCharPos_backwardAfter_eq (S : Segmenter) (hS : S.Stable) (lb : LB) (c : Char) (n t : Nat)
    (h : WF lb) (hn : n ≠ 0) (ht : charSearchTarget S lb.buf lb.pos (.backwardAfter c) n = some t) :
    LB.searchCharPos S lb (.backwardAfter c) n = .ok (some t) := by
  simp only [charSearchTarget, bind, Option.bind] at ht
  cases hocc : occBwd lb.buf lb.pos c n with
  | none => simp [hocc] at ht
  | some p =>
    simp only [hocc] at ht
    obtain ⟨x, s, hb, hp, ho⟩ := cs_occBwd_some h hocc
    have hsp : splitAt? lb.buf lb.pos = some (x, s) := by
      unfold splitAt?; rw [hb, hp]; exact splitAtByte_append x s
    simp only [hsp] at ht
    split at ht
    · rename_i hc
      obtain ⟨k, hk, hpk⟩ := cs_bounds_mem hc
      have hne := S.ne_nil x
      rw [Nat.zero_add] at hpk
      rw [hpk, cs_bounds_find_gt hne k hk] at ht
      split at ht
      · rename_i hkl
        simp only [Option.some.injEq] at ht
        subst ht
        have hst : sliceTo lb.buf lb.pos = .ok x := by rw [hb, hp]; exact sliceTo_mid x s
        have hr := cs_take_getLast? _ n _ hn ho
        have hm : p ∈ occ c x := List.mem_reverse.mp (List.mem_of_getElem? ho)
        obtain ⟨a, b, rfl, rfl⟩ := occ_mem hm
        have hmid : slice lb.buf (blen a) lb.pos = .ok (c :: b) := by
          rw [hb, hp]
          have := slice_mid a (c :: b) s
          simpa using this
        have hfl : ((S.seg (a ++ c :: b)).take k).flatten ++ ((S.seg (a ++ c :: b)).drop k).flatten
            = a ++ c :: b := by
          rw [cs_take_drop_flatten, S.flatten_eq]
        have hbl : blen ((S.seg (a ++ c :: b)).take k).flatten = blen a := by
          simpa [offOf] using hpk.symm
        obtain ⟨_, hcb⟩ := cs_append_inj_blen hfl hbl
        have hseg : S.seg (c :: b) = (S.seg (a ++ c :: b)).drop k := by
          have := (hS (a ++ c :: b) k).2
          rw [hcb] at this; exact this
        have hhead : (S.seg (c :: b)).head? = some (S.seg (a ++ c :: b))[k] := by
          rw [hseg, List.head?_drop, List.getElem?_eq_getElem hkl]
        have hsucc := cs_offOf_succ (S.seg (a ++ c :: b)) k hkl
        have hres : blen a + blen (S.seg (a ++ c :: b))[k] = offOf (S.seg (a ++ c :: b)) (k + 1) := by omega
        simp [LB.searchCharPos, hst, hr, hmid, hhead, hres, bind, Except.bind, pure, Except.pure]
      · simp at ht
    · simp at ht

theorem searchCharPos_eq_target (S : Segmenter) (hS : S.Stable) (lb : LB) (cs : CharSearch) (n t : Nat)
    (h : WF lb) (hn : n ≠ 0) (ht : charSearchTarget S lb.buf lb.pos cs n = some t) :
    LB.searchCharPos S lb cs n = .ok (some t) := by
  cases cs with
  | forward c => exact searchCharPos_forward_eq S lb c n t h hn ht
  | forwardBefore c => exact searchCharPos_forwardBefore_eq S hS lb c n t h hn ht
  | backward c => exact searchCharPos_backward_eq S lb c n t h hn ht
  | backwardAfter c => exact searchCharPos_backwardAfter_eq S hS lb c n t h hn ht

/-! ### G3: scanning segmenters are stable -/

/-- the first `k ≥ 1` clusters of a scan are the scan of a prefix of the input -/
theorem cs_groupGo_take {σ : Type} (glue : σ → Char → Bool) (upd : σ → Char → σ) (init : Char → σ)
    (st : σ) (cur t : Text) (k : Nat) (hk : k ≠ 0) :
    ∃ t1, ((groupGo glue upd init st cur t).take k).flatten = cur.reverse ++ t1 ∧
      groupGo glue upd init st cur t1 = (groupGo glue upd init st cur t).take k := by
  induction t generalizing st cur k with
  | nil =>
    obtain ⟨j, rfl⟩ : ∃ j, k = j + 1 := ⟨k - 1, by omega⟩
    exact ⟨[], by simp [groupGo], by simp [groupGo]⟩
  | cons c t ih =>
    by_cases hgl : glue st c = true
    · obtain ⟨t1, h1, h2⟩ := ih (upd st c) (c :: cur) k hk
      refine ⟨c :: t1, ?_, ?_⟩
      · simp only [groupGo, hgl, if_true]; rw [h1]; simp
      · simp only [groupGo, hgl, if_true]; exact h2
    · obtain ⟨j, rfl⟩ : ∃ j, k = j + 1 := ⟨k - 1, by omega⟩
      by_cases hj : j = 0
      · subst hj
        exact ⟨[], by simp [groupGo, hgl], by simp [groupGo, hgl]⟩
      · obtain ⟨t1, h1, h2⟩ := ih (init c) [c] j hj
        refine ⟨c :: t1, ?_, ?_⟩
        · simp only [groupGo, hgl]
          simp only [Bool.false_eq_true, if_false, List.take_succ_cons, List.flatten_cons]
          rw [h1]; simp
        · simp only [groupGo, hgl, Bool.false_eq_true, if_false, List.take_succ_cons]
          rw [h2]

/-- dropping `k ≥ 1` clusters of a scan leaves a list of clusters that is its own segmentation -/
theorem cs_groupGo_drop {σ : Type} (glue : σ → Char → Bool) (upd : σ → Char → σ) (init : Char → σ)
    (st : σ) (cur t : Text) (k : Nat) (hk : k ≠ 0) :
    group glue upd init ((groupGo glue upd init st cur t).drop k).flatten =
      (groupGo glue upd init st cur t).drop k := by
  induction t generalizing st cur k with
  | nil =>
    obtain ⟨j, rfl⟩ : ∃ j, k = j + 1 := ⟨k - 1, by omega⟩
    simp [groupGo, group]
  | cons c t ih =>
    by_cases hgl : glue st c = true
    · simp only [groupGo, hgl, if_true]
      exact ih (upd st c) (c :: cur) k hk
    · obtain ⟨j, rfl⟩ : ∃ j, k = j + 1 := ⟨k - 1, by omega⟩
      simp only [groupGo, hgl, Bool.false_eq_true, if_false, List.drop_succ_cons]
      by_cases hj : j = 0
      · subst hj
        simp only [List.drop_zero, groupGo_flatten]
        simp [group]
      · exact ih (init c) [c] j hj

theorem Segmenter.ofGroup_stable {σ : Type} (glue : σ → Char → Bool) (upd : σ → Char → σ)
    (init : Char → σ) : (Segmenter.ofGroup glue upd init).Stable := by
  intro s k
  show group glue upd init ((group glue upd init s).take k).flatten = (group glue upd init s).take k ∧
    group glue upd init ((group glue upd init s).drop k).flatten = (group glue upd init s).drop k
  cases s with
  | nil => simp [group]
  | cons c t =>
    by_cases hk : k = 0
    · subst hk
      refine ⟨by simp [group], ?_⟩
      simp only [List.drop_zero]
      have := (Segmenter.ofGroup glue upd init).flatten_eq (c :: t)
      show group glue upd init (group glue upd init (c :: t)).flatten = _
      rw [show (group glue upd init (c :: t)).flatten = c :: t from this]
    · constructor
      · obtain ⟨t1, h1, h2⟩ := cs_groupGo_take glue upd init (init c) [c] t k hk
        simp only [group]
        rw [h1]
        simpa [group] using h2
      · simp only [group]
        exact cs_groupGo_drop glue upd init (init c) [c] t k hk

theorem uaxSeg_stable (cls : Char → String) : (uaxSeg cls).Stable :=
  Segmenter.ofGroup_stable _ _ _

theorem charSeg_stable : charSeg.Stable :=
  Segmenter.ofGroup_stable _ _ _

/-! ### G4: kills and copies with a character search -/

/-- the search `delete_to` / `copy` actually run (`t`/`T` kills go up to the occurrence itself) -/
def cs_srch : CharSearch → CharSearch
  | .forwardBefore c => .forward c
  | cs => cs

/-- the interval `delete_to` / `copy` cover once the search returned `p` -/
def cs_iv (lb : LB) (cs : CharSearch) (p : Nat) : Nat × Nat :=
  match cs with
  | .forward c => (lb.pos, p + c.utf8Size)
  | .forwardBefore _ => (lb.pos, p)
  | _ => (p, lb.pos)

theorem cs_iv_boundaries (S : Segmenter) (lb : LB) (cs : CharSearch) (n p : Nat) (h : WF lb)
    (hr : LB.searchCharPos S lb (cs_srch cs) n = .ok (some p)) :
    IsBoundary lb.buf (cs_iv lb cs p).1 ∧ IsBoundary lb.buf (cs_iv lb cs p).2 ∧
      (cs_iv lb cs p).1 ≤ (cs_iv lb cs p).2 := by
  obtain ⟨r, hr', hprop⟩ := searchCharPos_ok S lb (cs_srch cs) n h
  rw [hr] at hr'
  cases hr'
  have := hprop p rfl
  cases cs with
  | forward c =>
    simp only [cs_srch] at this
    exact ⟨h, this.2.2, by simp only [cs_iv]; omega⟩
  | forwardBefore c =>
    simp only [cs_srch] at this
    exact ⟨h, this.1, by simp only [cs_iv]; omega⟩
  | backward c =>
    simp only [cs_srch] at this
    exact ⟨this.1, h, by simp only [cs_iv]; omega⟩
  | backwardAfter c =>
    simp only [cs_srch] at this
    exact ⟨this.1, h, by simp only [cs_iv]; omega⟩

/-- `delete_to` from a well-formed state: either the search found nothing and nothing happens, or it
    removes exactly the interval `cs_iv` and leaves the cursor at its start -/
theorem cs_deleteTo_eval (S : Segmenter) (U : UData) (lb : LB) (cs : CharSearch) (n : Nat) (h : WF lb) :
    (LB.searchCharPos S lb (cs_srch cs) n = .ok none ∧ LB.deleteTo S U cs n lb = .ok (false, lb, [])) ∨
    (∃ p x y z d, LB.searchCharPos S lb (cs_srch cs) n = .ok (some p) ∧ lb.buf = x ++ y ++ z ∧
      (cs_iv lb cs p).1 = blen x ∧ (cs_iv lb cs p).2 = blen x + blen y ∧
      LB.deleteTo S U cs n lb = .ok (true, { lb with buf := x ++ z, pos := blen x }, [.del (blen x) y d])) := by
  obtain ⟨r, hr, _⟩ := searchCharPos_ok S lb (cs_srch cs) n h
  cases r with
  | none =>
    left
    refine ⟨hr, ?_⟩
    cases cs <;> simp only [cs_srch] at hr <;> simp [LB.deleteTo, LM.bind_apply, LM.ro, hr]
  | some p =>
    right
    obtain ⟨h1, h2, h3⟩ := cs_iv_boundaries S lb cs n p h hr
    cases cs with
    | forward c =>
      simp only [cs_iv] at h1 h2 h3
      obtain ⟨x, y, z, hd, hbuf, hx, hy⟩ := drain_ok .forward h1 h2 h3
      refine ⟨p, x, y, z, .forward, hr, hbuf, hx, hy, ?_⟩
      simp only [cs_srch] at hr
      rw [hx] at hd
      simp [LB.deleteTo, LM.bind_apply, LM.ro, hr, LM.get, hd, hx]
    | forwardBefore c =>
      simp only [cs_iv] at h1 h2 h3
      obtain ⟨x, y, z, hd, hbuf, hx, hy⟩ := drain_ok .forward h1 h2 h3
      refine ⟨p, x, y, z, .forward, hr, hbuf, hx, hy, ?_⟩
      simp only [cs_srch] at hr
      rw [hx] at hd
      simp [LB.deleteTo, LM.bind_apply, LM.ro, hr, LM.get, hd, hx]
    | backward c =>
      simp only [cs_iv] at h1 h2 h3
      obtain ⟨x, y, z, hd, hbuf, hx, hy⟩ :=
        drain_ok (lb := { lb with pos := p }) .backward h1 h2 h3
      refine ⟨p, x, y, z, .backward, hr, hbuf, hx, hy, ?_⟩
      simp only [cs_srch] at hr
      subst hx
      simp [LB.deleteTo, LM.bind_apply, LM.ro, hr, LM.get, LM.setPos, hd]
    | backwardAfter c =>
      simp only [cs_iv] at h1 h2 h3
      obtain ⟨x, y, z, hd, hbuf, hx, hy⟩ :=
        drain_ok (lb := { lb with pos := p }) .backward h1 h2 h3
      refine ⟨p, x, y, z, .backward, hr, hbuf, hx, hy, ?_⟩
      simp only [cs_srch] at hr
      subst hx
      simp [LB.deleteTo, LM.bind_apply, LM.ro, hr, LM.get, LM.setPos, hd]

/-- `copy` with a character search from a well-formed state with a non-empty text -/
theorem cs_copy_eval (S : Segmenter) (U : UData) (lb : LB) (cs : CharSearch) (n : Nat) (h : WF lb)
    (hne : lb.buf.isEmpty = false) :
    (LB.searchCharPos S lb (cs_srch cs) n = .ok none ∧ LB.copy S U lb (.viCharSearch n cs) = .ok none) ∨
    (∃ p x y z, LB.searchCharPos S lb (cs_srch cs) n = .ok (some p) ∧ lb.buf = x ++ y ++ z ∧
      (cs_iv lb cs p).1 = blen x ∧ (cs_iv lb cs p).2 = blen x + blen y ∧
      LB.copy S U lb (.viCharSearch n cs) = .ok (some y)) := by
  obtain ⟨r, hr, _⟩ := searchCharPos_ok S lb (cs_srch cs) n h
  cases r with
  | none =>
    left
    refine ⟨hr, ?_⟩
    cases cs <;> simp only [cs_srch] at hr <;>
      simp [LB.copy, hne, hr, bind, Except.bind, pure, Except.pure]
  | some p =>
    right
    obtain ⟨h1, h2, h3⟩ := cs_iv_boundaries S lb cs n p h hr
    obtain ⟨x, y, z, hs, hbuf, hx, hy⟩ := split3_of_boundaries h1 h2 h3
    refine ⟨p, x, y, z, hr, hbuf, hx, hy, ?_⟩
    cases cs <;> simp only [cs_srch] at hr <;> simp only [cs_iv] at hs <;>
      simp [LB.copy, hne, hr, slice, hs, bind, Except.bind, pure, Except.pure]

theorem cs_killedText_append (a b : List Notif) :
    killedText (a ++ b) = killedText a ++ killedText b := by
  induction a with
  | nil => rfl
  | cons n a ih => cases n <;> simp [killedText, ih]

/-- `kill(ViCharSearch)` is `delete_to` between the start/stop markers -/
theorem cs_kill_run {S : Segmenter} {U : UData} {n : Nat} {cs : CharSearch} {lb lb' : LB} {r : Bool}
    {ns : List Notif} (hrun : LB.kill S U (.viCharSearch n cs) lb = .ok (r, lb', ns)) :
    ∃ ns0, LB.deleteTo S U cs n lb = .ok (r, lb', ns0) ∧ killedText ns = killedText ns0 := by
  have hk : LB.kill S U (.viCharSearch n cs) =
      (do LM.notify .startKill; let k ← LB.deleteTo S U cs n; LM.notify .stopKill; pure k) := rfl
  rw [hk] at hrun
  cases hd : LB.deleteTo S U cs n lb with
  | error e => simp [LM.bind_apply, LM.notify, hd] at hrun
  | ok v =>
    obtain ⟨r0, lb0, ns0⟩ := v
    simp [LM.bind_apply, LM.notify, hd] at hrun
    obtain ⟨rfl, rfl, rfl⟩ := hrun
    exact ⟨ns0, rfl, by simp [killedText, cs_killedText_append]⟩

theorem cs_checkKill_mk {S : Segmenter} {U : UData} {old : LB} {mvt : Movement} {a b : Nat} {x y z : Text}
    {buf : Text} {pos : Nat} {ns : List Notif}
    (hs : spanOf S U old.buf old.pos mvt false = mkSpan a b)
    (hb : old.buf = x ++ y ++ z) (ha : a = blen x) (hb2 : b = blen x + blen y)
    (hbuf : buf = x ++ z) (hk : killedText ns = y) (hp : pos = a) :
    checkKill S U old mvt buf pos ns = none := by
  unfold mkSpan at hs
  split at hs
  · exact checkKill_span hs hb ha hb2 hbuf hk hp
  · have : y = [] := blen_eq_zero.mp (by omega)
    subst this
    exact checkKill_nothing hs (by rw [hbuf, hb]; simp)

theorem cs_checkCopy_mk {S : Segmenter} {U : UData} {old : LB} {mvt : Movement} {a b : Nat} {x y z : Text}
    (hs : spanOf S U old.buf old.pos mvt true = mkSpan a b)
    (hb : old.buf = x ++ y ++ z) (ha : a = blen x) (hb2 : b = blen x + blen y) :
    checkCopy S U old mvt (.optText (some y)) = none := by
  unfold mkSpan at hs
  split at hs
  · exact checkCopy_span hs hb ha hb2
  · have : y = [] := blen_eq_zero.mp (by omega)
    subst this
    unfold checkCopy
    rw [hs]
    simp

/-- the declarative span of a kill / copy with a character search is either not judged, or the
    interval the model covers -/
def cs_Judged (S : Segmenter) (U : UData) (lb : LB) (n : Nat) (cs : CharSearch) : Prop :=
  ∀ fc, spanOf S U lb.buf lb.pos (.viCharSearch n cs) fc = .unjudged ∨
    ∃ p, LB.searchCharPos S lb (cs_srch cs) n = .ok (some p) ∧
      spanOf S U lb.buf lb.pos (.viCharSearch n cs) fc = mkSpan (cs_iv lb cs p).1 (cs_iv lb cs p).2

theorem cs_judged_forward (S : Segmenter) (U : UData) (lb : LB) (n : Nat) (c : Char) (h : WF lb)
    (hne : lb.buf.isEmpty = false) : cs_Judged S U lb n (.forward c) := by
  intro fc
  by_cases hn : n = 0
  · left; simp [spanOf, hne, hn]
  · cases hocc : occFwd S lb.buf lb.pos c n with
    | none => left; simp [spanOf, hne, hn, hocc]
    | some q =>
      right
      exact ⟨q, searchCharPos_forward_eq S lb c n q h hn hocc,
        by simp [spanOf, hne, hn, hocc, mkSpan, cs_iv]; rfl⟩

theorem cs_judged_forwardBefore (S : Segmenter) (U : UData) (lb : LB) (n : Nat) (c : Char) (h : WF lb)
    (hne : lb.buf.isEmpty = false) : cs_Judged S U lb n (.forwardBefore c) := by
  intro fc
  by_cases hn : n = 0
  · left; simp [spanOf, hne, hn]
  · cases hocc : occFwd S lb.buf lb.pos c n with
    | none => left; simp [spanOf, hne, hn, hocc]
    | some q =>
      right
      exact ⟨q, searchCharPos_forward_eq S lb c n q h hn hocc,
        by simp [spanOf, hne, hn, hocc, mkSpan, cs_iv]; rfl⟩

theorem cs_judged_backward (S : Segmenter) (U : UData) (lb : LB) (n : Nat) (c : Char) (h : WF lb)
    (hne : lb.buf.isEmpty = false) : cs_Judged S U lb n (.backward c) := by
  intro fc
  by_cases hn : n = 0
  · left; simp [spanOf, hne, hn]
  · cases hocc : occBwd lb.buf lb.pos c n with
    | none => left; simp [spanOf, hne, hn, hocc]
    | some q =>
      right
      exact ⟨q, searchCharPos_backward_eq S lb c n q h hn hocc,
        by simp [spanOf, hne, hn, hocc, mkSpan, cs_iv]; rfl⟩

theorem cs_judged_backwardAfter (S : Segmenter) (hS : S.Stable) (U : UData) (lb : LB) (n : Nat) (c : Char)
    (h : WF lb) (hne : lb.buf.isEmpty = false) : cs_Judged S U lb n (.backwardAfter c) := by
  intro fc
  by_cases hn : n = 0
  · left; simp [spanOf, hne, hn]
  · cases hocc : charSearchTarget S lb.buf lb.pos (.backwardAfter c) n with
    | none => left; simp [spanOf, hne, hn, hocc]
    | some q =>
      right
      exact ⟨q, searchCharPos_backwardAfter_eq S hS lb c n q h hn hocc,
        by simp [spanOf, hne, hn, hocc, mkSpan, cs_iv]; rfl⟩

theorem cs_kill_core (S : Segmenter) (U : UData) (lb lb' : LB) (n : Nat) (cs : CharSearch) (r : Bool)
    (ns : List Notif) (h : WF lb) (hj : lb.buf.isEmpty = false → cs_Judged S U lb n cs)
    (hrun : LB.kill S U (.viCharSearch n cs) lb = .ok (r, lb', ns)) :
    checkKill S U lb (.viCharSearch n cs) lb'.buf lb'.pos ns = none := by
  obtain ⟨ns0, hd, hkt⟩ := cs_kill_run hrun
  by_cases hemp : lb.buf.isEmpty = true
  · have hs : spanOf S U lb.buf lb.pos (.viCharSearch n cs) false = .nothing := by simp [spanOf, hemp]
    apply checkKill_nothing hs
    rcases cs_deleteTo_eval S U lb cs n h with ⟨_, he⟩ | ⟨p, x, y, z, d, _, hbuf, _, _, he⟩
    · rw [he] at hd; cases hd; rfl
    · rw [he] at hd; cases hd
      have hnil : lb.buf = [] := by simpa using hemp
      rw [hnil] at hbuf
      have hxyz : x = [] ∧ y = [] ∧ z = [] := by simpa using hbuf.symm
      simp [hxyz, hnil]
  · have hne : lb.buf.isEmpty = false := by simpa using hemp
    rcases hj hne false with hu | ⟨p, hsr, hsp⟩
    · exact checkKill_unjudged hu
    · rcases cs_deleteTo_eval S U lb cs n h with ⟨hnone, _⟩ | ⟨p', x, y, z, d, hsr', hbuf, hx, hy, he⟩
      · rw [hsr] at hnone; cases hnone
      · rw [hsr] at hsr'; cases hsr'
        rw [he] at hd; cases hd
        exact cs_checkKill_mk hsp hbuf hx hy rfl (by rw [hkt]; simp [killedText]) hx.symm

theorem cs_copy_core (S : Segmenter) (U : UData) (lb : LB) (n : Nat) (cs : CharSearch) (r : Option Text)
    (h : WF lb) (hj : lb.buf.isEmpty = false → cs_Judged S U lb n cs)
    (hrun : LB.copy S U lb (.viCharSearch n cs) = .ok r) :
    checkCopy S U lb (.viCharSearch n cs) (.optText r) = none := by
  by_cases hemp : lb.buf.isEmpty = true
  · have hs : spanOf S U lb.buf lb.pos (.viCharSearch n cs) true = .nothing := by simp [spanOf, hemp]
    have : LB.copy S U lb (.viCharSearch n cs) = .ok none := by simp [LB.copy, hemp, pure, Except.pure]
    rw [this] at hrun; cases hrun
    exact checkCopy_nothing hs
  · have hne : lb.buf.isEmpty = false := by simpa using hemp
    rcases hj hne true with hu | ⟨p, hsr, hsp⟩
    · exact checkCopy_unjudged hu
    · rcases cs_copy_eval S U lb cs n h hne with ⟨hnone, _⟩ | ⟨p', x, y, z, hsr', hbuf, hx, hy, he⟩
      · rw [hsr] at hnone; cases hnone
      · rw [hsr] at hsr'; cases hsr'
        rw [he] at hrun; cases hrun
        exact cs_checkCopy_mk hsp hbuf hx hy

/-- `df<c>`: removes exactly `[pos, occurrence + |c|)` (every lawful segmenter) -/
theorem kill_viCharSearch_forward_is_span (S : Segmenter) (U : UData) (lb lb' : LB) (n : Nat) (c : Char)
    (r : Bool) (ns : List Notif) (h : WF lb)
    (hrun : LB.kill S U (.viCharSearch n (.forward c)) lb = .ok (r, lb', ns)) :
    checkKill S U lb (.viCharSearch n (.forward c)) lb'.buf lb'.pos ns = none :=
  cs_kill_core S U lb lb' n _ r ns h (cs_judged_forward S U lb n c h) hrun

/-- `dt<c>`: removes exactly `[pos, occurrence)` (every lawful segmenter) -/
theorem kill_viCharSearch_forwardBefore_is_span (S : Segmenter) (U : UData) (lb lb' : LB) (n : Nat)
    (c : Char) (r : Bool) (ns : List Notif) (h : WF lb)
    (hrun : LB.kill S U (.viCharSearch n (.forwardBefore c)) lb = .ok (r, lb', ns)) :
    checkKill S U lb (.viCharSearch n (.forwardBefore c)) lb'.buf lb'.pos ns = none :=
  cs_kill_core S U lb lb' n _ r ns h (cs_judged_forwardBefore S U lb n c h) hrun

/-- `dF<c>`: removes exactly `[occurrence, pos)` (every lawful segmenter) -/
theorem kill_viCharSearch_backward_is_span (S : Segmenter) (U : UData) (lb lb' : LB) (n : Nat) (c : Char)
    (r : Bool) (ns : List Notif) (h : WF lb)
    (hrun : LB.kill S U (.viCharSearch n (.backward c)) lb = .ok (r, lb', ns)) :
    checkKill S U lb (.viCharSearch n (.backward c)) lb'.buf lb'.pos ns = none :=
  cs_kill_core S U lb lb' n _ r ns h (cs_judged_backward S U lb n c h) hrun

/-- `dT<c>`: removes exactly `[cluster boundary after the occurrence, pos)`; needs a stable segmenter -/
theorem kill_viCharSearch_backwardAfter_is_span (S : Segmenter) (U : UData) (hS : S.Stable) (lb lb' : LB)
    (n : Nat) (c : Char) (r : Bool) (ns : List Notif) (h : WF lb)
    (hrun : LB.kill S U (.viCharSearch n (.backwardAfter c)) lb = .ok (r, lb', ns)) :
    checkKill S U lb (.viCharSearch n (.backwardAfter c)) lb'.buf lb'.pos ns = none :=
  cs_kill_core S U lb lb' n _ r ns h (cs_judged_backwardAfter S hS U lb n c h) hrun

/-- A kill with a character search removes exactly the declarative span, reports exactly that text
    and leaves the cursor at the span start (executable oracle of `./check C04`). -/
theorem kill_viCharSearch_is_span (S : Segmenter) (U : UData) (hS : S.Stable) (lb lb' : LB) (n : Nat)
    (cs : CharSearch) (r : Bool) (ns : List Notif) (h : WF lb)
    (hrun : LB.kill S U (.viCharSearch n cs) lb = .ok (r, lb', ns)) :
    checkKill S U lb (.viCharSearch n cs) lb'.buf lb'.pos ns = none := by
  cases cs with
  | forward c => exact kill_viCharSearch_forward_is_span S U lb lb' n c r ns h hrun
  | forwardBefore c => exact kill_viCharSearch_forwardBefore_is_span S U lb lb' n c r ns h hrun
  | backward c => exact kill_viCharSearch_backward_is_span S U lb lb' n c r ns h hrun
  | backwardAfter c => exact kill_viCharSearch_backwardAfter_is_span S U hS lb lb' n c r ns h hrun

theorem copy_viCharSearch_forward_is_span (S : Segmenter) (U : UData) (lb : LB) (n : Nat) (c : Char)
    (r : Option Text) (h : WF lb) (hrun : LB.copy S U lb (.viCharSearch n (.forward c)) = .ok r) :
    checkCopy S U lb (.viCharSearch n (.forward c)) (.optText r) = none :=
  cs_copy_core S U lb n _ r h (cs_judged_forward S U lb n c h) hrun

theorem copy_viCharSearch_forwardBefore_is_span (S : Segmenter) (U : UData) (lb : LB) (n : Nat) (c : Char)
    (r : Option Text) (h : WF lb) (hrun : LB.copy S U lb (.viCharSearch n (.forwardBefore c)) = .ok r) :
    checkCopy S U lb (.viCharSearch n (.forwardBefore c)) (.optText r) = none :=
  cs_copy_core S U lb n _ r h (cs_judged_forwardBefore S U lb n c h) hrun

theorem copy_viCharSearch_backward_is_span (S : Segmenter) (U : UData) (lb : LB) (n : Nat) (c : Char)
    (r : Option Text) (h : WF lb) (hrun : LB.copy S U lb (.viCharSearch n (.backward c)) = .ok r) :
    checkCopy S U lb (.viCharSearch n (.backward c)) (.optText r) = none :=
  cs_copy_core S U lb n _ r h (cs_judged_backward S U lb n c h) hrun

theorem copy_viCharSearch_backwardAfter_is_span (S : Segmenter) (U : UData) (hS : S.Stable) (lb : LB)
    (n : Nat) (c : Char) (r : Option Text) (h : WF lb)
    (hrun : LB.copy S U lb (.viCharSearch n (.backwardAfter c)) = .ok r) :
    checkCopy S U lb (.viCharSearch n (.backwardAfter c)) (.optText r) = none :=
  cs_copy_core S U lb n _ r h (cs_judged_backwardAfter S hS U lb n c h) hrun

/-- A copy with a character search returns exactly the text of the declarative span. -/
theorem copy_viCharSearch_is_span (S : Segmenter) (U : UData) (hS : S.Stable) (lb : LB) (n : Nat)
    (cs : CharSearch) (r : Option Text) (h : WF lb)
    (hrun : LB.copy S U lb (.viCharSearch n cs) = .ok r) :
    checkCopy S U lb (.viCharSearch n cs) (.optText r) = none := by
  cases cs with
  | forward c => exact copy_viCharSearch_forward_is_span S U lb n c r h hrun
  | forwardBefore c => exact copy_viCharSearch_forwardBefore_is_span S U lb n c r h hrun
  | backward c => exact copy_viCharSearch_backward_is_span S U lb n c r h hrun
  | backwardAfter c => exact copy_viCharSearch_backwardAfter_is_span S U hS lb n c r h hrun

/-! ### non-vacuity -/

example : charSearchTarget charSeg ['a', 'b', 'c', 'b'] 0 (.forwardBefore 'b') 2 = some 2 := by rfl
example : charSearchTarget charSeg ['a', 'b', 'c', 'b'] 4 (.backwardAfter 'b') 2 = some 2 := by rfl

end Rl
