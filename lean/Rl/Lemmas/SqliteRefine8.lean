/-
  Refinement lemmas for C20, part 8: the table holds at most as many rows as lines were offered.
-/
import Rl.Lemmas.SqliteRefine7
namespace Rl.Sq
open Rl Rl.Spec.Sq

/-- number of lines an operation offers to `add` -/
def offered : QOp → Nat
  | .add _ => 1
  | .crash _ ls => ls.length
  | _ => 0

def offeredAll (ops : List QOp) : Nat := (ops.map offered).sum

theorem collapse_length_le : ∀ (l : List (Nat × Text)), (collapse l).length ≤ l.length
  | [] => Nat.le_refl _
  | x :: xs => by
    have := collapse_length_le xs
    unfold collapse
    split <;> simp <;> omega

theorem add_len (ws : Char → Bool) {h : Hist} (hg : Good2 h) (l : Text) :
    (h.add ws l).1.db.rows.length ≤ h.db.rows.length + 1 := by
  have a1 := congrArg (fun a => a.entries.length) (add_abs ws hg.good l).1
  simp only [Hist.abs, List.length_map] at a1
  rw [a1]
  unfold addLine
  split
  · simp
  · simp only [List.length_append, List.length_cons, List.length_nil]
    split
    · have := List.length_filter_le (fun x => x != (h.sidOf, l)) (h.db.rows.map key)
      simp only [List.length_map] at this ⊢
      omega
    · simp

theorem addAll_len (ws : Char → Bool) {h : Hist} (hg : Good2 h) (ls : List Text) :
    (addAll ws h ls).1.db.rows.length ≤ h.db.rows.length + ls.length := by
  induction ls generalizing h with
  | nil => exact Nat.le_refl _
  | cons l ls ih =>
    have h1 := add_len ws hg l
    have h2 := ih (add_good2 ws hg l)
    simp only [addAll, List.length_cons]
    omega

theorem openDb_len (c : Cfg) {h : Hist} (hg : Good2 h) :
    (Hist.openDb c h.db).db.rows.length ≤ h.db.rows.length := by
  have a1 := congrArg (fun a => a.entries.length) (openDb_abs hg.good.inv hg.nodup c)
  simp only [Hist.abs, List.length_map] at a1
  rw [a1]
  split
  · have := collapse_length_le (h.db.rows.map key)
    simpa using this
  · simp

theorem step_len (ws : Char → Bool) (fts : Text → Text → Bool) {h : Hist} (hg : Good2 h) (op : QOp) :
    (h.step ws fts op).1.db.rows.length ≤ h.db.rows.length + offered op := by
  cases op with
  | add l => exact add_len ws hg l
  | setMax n => exact Nat.le_trans (setMaxLen_misc h n).2.2.2.length_le (Nat.le_add_right _ _)
  | dups b =>
    show (h.setIgnoreDups b).db.rows.length ≤ _
    unfold Hist.setIgnoreDups
    split
    · exact Nat.le_trans (setIgnoreDupsIndex_rows _).1.length_le (Nat.le_add_right _ _)
    · exact Nat.le_add_right _ _
  | space b => exact Nat.le_add_right _ _
  | reopen c => exact Nat.le_trans (openDb_len c hg) (Nat.le_add_right _ _)
  | crash c ls =>
    have g1 := openDb_good2 c hg
    have l1 := openDb_len c hg
    have l2 := addAll_len ws g1 ls
    have l3 := openDb_len c (addAll_good2 ws g1 ls)
    show (Hist.openDb c (addAll ws (Hist.openDb c h.db) ls).1.db).db.rows.length ≤ h.db.rows.length + ls.length
    omega
  | len => exact Nat.le_add_right _ _
  | get i d =>
    show (h.get i d).1.db.rows.length ≤ _
    rw [(get_same2 h i d).1]; exact Nat.le_add_right _ _
  | walk => exact Nat.le_add_right _ _
  | search t st d =>
    show (h.searchMatch fts t st d false).1.db.rows.length ≤ _
    rw [(searchMatch_same2 fts h t st d false).1]; exact Nat.le_add_right _ _
  | startsWith t st d =>
    show (h.searchMatch fts t st d true).1.db.rows.length ≤ _
    rw [(searchMatch_same2 fts h t st d true).1]; exact Nat.le_add_right _ _
  | hint t =>
    show (h.hint fts t (blen t)).1.db.rows.length ≤ _
    rw [(hint_same2 fts h t (blen t)).1]; exact Nat.le_add_right _ _

theorem run_len (ws : Char → Bool) (fts : Text → Text → Bool) {h : Hist} {s : SState} (hg : Good2 h)
    (hs : Sim h.abs s) (ops : List QOp) :
    (h.run ws fts ops).1.db.rows.length ≤ h.db.rows.length + offeredAll ops := by
  induction ops generalizing h s with
  | nil => exact Nat.le_refl _
  | cons op ops ih =>
    obtain ⟨g1, s1, _⟩ := step_sim ws fts hg hs op
    have h1 := step_len ws fts hg op
    have h2 := ih g1 s1
    simp only [offeredAll, List.map_cons, List.sum_cons] at h2 ⊢
    show ((h.step ws fts op).1.run ws fts ops).1.db.rows.length ≤ _
    omega

theorem offeredAll_take (ops : List QOp) (n : Nat) : offeredAll (ops.take n) ≤ offeredAll ops := by
  induction ops generalizing n with
  | nil => simp [offeredAll]
  | cons op ops ih =>
    cases n with
    | zero => simp [offeredAll]
    | succ n =>
      have := ih n
      simp only [offeredAll, List.take_succ_cons, List.map_cons, List.sum_cons] at this ⊢
      omega

end Rl.Sq
