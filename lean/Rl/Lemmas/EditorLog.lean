/-
  C17 / C05: the undo-log invariant `UndoLogInv` ("the undo stack, replayed oldest change first from
  some text, gives the text of the line") through the commands.  `LogK m`: from a state with the
  invariant, `m` returns in such a state.  One more structural pass (`em_log`), over the `Replays`
  facts of Rl/Lemmas/LineBuffer.lean (every line-buffer method reports exactly what it did: the replay
  conjunct of C03), `C05_log_replay` (the listener logs what it is told, merges included) and
  `C05_log_markers` (group markers change nothing).
-/
import Rl.Lemmas.EditorUndoSafe
import Rl.Lemmas.LineBuffer
namespace Rl
open EM

/-! ### the two replay functions agree -/

theorem applyNotif_of_replayOne {t t' : Text} {n : Notif} (h : Spec.replayOne t n = some t') :
    applyNotif n t = some t' := by
  have ins : ∀ (i : Nat) (s : Text), Spec.insertAt t i s = some t' → applyFwd (.insert i s) t = some t' := by
    intro i s h
    unfold Spec.insertAt at h
    simp only [applyFwd]
    split at h
    · rename_i x z hs; cases h; rw [hs]
    · cases h
  have rem : ∀ (i : Nat) (s : Text) (t1 : Text), Spec.removeAt t i s = some t1 →
      ∃ x z, t = x ++ s ++ z ∧ i = blen x ∧ t1 = x ++ z := by
    intro i s t1 h
    unfold Spec.removeAt at h
    split at h
    · rename_i x rest hs
      obtain ⟨e1, e2⟩ := splitAtByte_some hs
      split at h
      · rename_i hp
        obtain ⟨z, hz⟩ := List.isPrefixOf_iff_prefix.mp hp
        cases h
        refine ⟨x, z, ?_, e2, ?_⟩
        · rw [e1, ← hz]; simp
        · rw [← hz, List.drop_left]
      · cases h
    · cases h
  cases n with
  | insChar i c => exact ins i [c] h
  | insStr i s => exact ins i s h
  | startKill => exact h
  | stopKill => exact h
  | del i s d =>
    obtain ⟨x, z, e1, e2, e3⟩ := rem i s t' h
    simp only [applyNotif, applyFwd]
    rw [cutAt_some.mpr ⟨e1, e2⟩, e3]
  | repl i o nw =>
    simp only [Spec.replayOne] at h
    split at h
    · rename_i t1 h1
      obtain ⟨x, z, e1, e2, e3⟩ := rem i o t1 h1
      subst e3
      unfold Spec.insertAt at h
      rw [e2, splitAtByte_append] at h
      cases h
      simp only [applyNotif, applyFwd]
      rw [cutAt_some.mpr ⟨e1, e2⟩]
    · cases h

theorem replayNotifs_of_replay : ∀ (ns : List Notif) {t t' : Text}, Spec.replay ns t = some t' →
    replayNotifs ns t = some t' := by
  intro ns
  induction ns with
  | nil => intro t t' h; exact h
  | cons n ns ih =>
    intro t t' h
    simp only [Spec.replay] at h
    split at h
    · rename_i t1 h1
      simp only [replayNotifs, applyNotif_of_replayOne h1]
      exact ih h
    · cases h

/-! ### the predicate -/

structure LogK {α : Type} (m : EM α) : Prop where
  h : ∀ s, UndoLogInv s → wp m (fun _ s' => UndoLogInv s') (fun _ _ => True) s

namespace LogK
variable {α β : Type}

theorem pure (a : α) : LogK (pure a : EM α) := ⟨fun _ h => h⟩
theorem bind {m : EM α} {f : α → EM β} (hm : LogK m) (hf : ∀ a, LogK (f a)) : LogK (m >>= f) :=
  ⟨fun s hs => by rw [wp_bind]; exact wp_mono (hm.h s hs) (fun a s1 h1 => (hf a).h s1 h1) (fun _ _ h => h)⟩
theorem bind' {m : Ed → Except (Outcome × Ed) (α × Ed)} {f : α → EM β} (hm : LogK (m : EM α))
    (hf : ∀ a, LogK (f a)) : LogK (@Bind.bind EM _ α β m f) := bind hm hf
theorem ite {c : Prop} [Decidable c] {a b : EM α} (ha : LogK a) (hb : LogK b) : LogK (if c then a else b) := by
  split <;> assumption
theorem exit (o : Outcome) : LogK (EM.exit o : EM α) := ⟨fun _ _ => trivial⟩
theorem get : LogK EM.get := ⟨fun _ h => h⟩
theorem read (g : Ed → α) : LogK (fun s => .ok (g s, s) : EM α) := ⟨fun _ h => h⟩
theorem liftP (e : Except Panic α) : LogK (EM.liftP e) := by
  constructor; intro s hs; unfold wp EM.liftP; cases e <;> simp only [] <;> first | exact hs | trivial
theorem modify {g : Ed → Ed} (hg : ∀ s, (g s).line = s.line ∧ (g s).changes = s.changes) : LogK (EM.modify g) :=
  ⟨fun s ⟨t0, h⟩ => ⟨t0, by show replayLog (g s).changes.undos.reverse t0 = some (g s).line.buf; rw [(hg s).1, (hg s).2]; exact h⟩⟩

/-- a step that keeps line, undo log, ring, … -/
theorem of_core {m : EM α} (hk : Keeps Ed.core m) : LogK m :=
  ⟨fun s ⟨t0, h⟩ => wp_mono (hk.wp s) (fun _ s' hc => ⟨t0, by
    rw [(Ed.core_eq hc).1, (Ed.core_eq hc).2.2.1]; exact h⟩) (fun _ _ _ => trivial)⟩

end LogK

section
variable (S : Segmenter) (U : UData) (cfg : EdCfg)

theorem logK_lb {α : Type} {op : LM α} (h : Replays op) : LogK (lb S U op) := by
  constructor
  intro s ⟨t0, hl⟩
  refine wp_lb_any S U (fun a l ns ho => ?_) trivial
  exact ⟨t0, C05_log_replay S U.alnum s.changes ns t0 s.line.buf l.buf hl
    (replayNotifs_of_replay ns (h.h _ _ _ _ ho))⟩

theorem logK_lbKill {α : Type} {op : LM α} (h : Replays op) : LogK (lbKill S U op) := by
  constructor
  intro s ⟨t0, hl⟩
  unfold wp lbKill
  cases ho : op s.line with
  | error e => trivial
  | ok r =>
    obtain ⟨a, l, ns⟩ := r
    simp only []
    cases lbKill.go ns s.ring with
    | error e => trivial
    | ok k =>
      exact ⟨t0, C05_log_replay S U.alnum s.changes ns t0 s.line.buf l.buf hl
        (replayNotifs_of_replay ns (h.h _ _ _ _ ho))⟩

theorem logK_lbQuiet {α : Type} {op : LM α} (h : PosOnly op) : LogK (lbQuiet op) := by
  constructor
  intro s ⟨t0, hl⟩
  unfold wp lbQuiet
  cases ho : op s.line with
  | error e => trivial
  | ok r =>
    obtain ⟨a, l, ns⟩ := r
    exact ⟨t0, by show replayLog s.changes.undos.reverse t0 = some l.buf; rw [(h.h _ _ _ _ ho).1]; exact hl⟩

theorem logK_changesBegin : LogK changesBegin :=
  ⟨fun s ⟨t0, hl⟩ => by rw [wp_changesBegin]; exact ⟨t0, (C05_log_markers s.changes t0 _ hl).1⟩⟩
theorem logK_changesEnd : LogK changesEnd :=
  ⟨fun s ⟨t0, hl⟩ => by rw [wp_changesEnd]; exact ⟨t0, (C05_log_markers s.changes t0 _ hl).2⟩⟩

theorem logK_backup : LogK (backup S U) := by
  constructor; intro s hs; unfold wp backup
  cases LB.update S U s.line.buf s.line.pos s.saved with
  | error e => trivial
  | ok r => obtain ⟨_, sv, _⟩ := r; exact hs
theorem logK_ringYank : LogK ringYank := by
  constructor; intro s hs; unfold wp ringYank
  cases s.ring.yank with
  | error e => trivial
  | ok r => exact hs
theorem logK_ringYankPop : LogK ringYankPop := by
  constructor; intro s hs; unfold wp ringYankPop
  cases s.ring.yankPop with
  | error e => trivial
  | ok r => exact hs
theorem logK_ringKill (t : Text) : LogK (ringKill t) := by
  constructor; intro s hs; unfold wp ringKill
  cases s.ring.kill t .append with
  | error e => trivial
  | ok r => exact hs
theorem logK_ringYankCount (n : Nat) : LogK (ringYankCount n) := ⟨fun _ hs => hs⟩
theorem logK_setHistIdx (i : Nat) : LogK (setHistIdx i) := ⟨fun _ hs => hs⟩

end

/-- the `Replays` fact of a line-buffer call, found among the per-method lemmas -/
macro "rp_leaf" : tactic => `(tactic| first
  | exact Replays.insert _ _ _ _ | exact Replays.yank _ _ _ _ | exact Replays.yankPop _ _ _ _
  | exact Replays.update _ _ _ _ | exact Replays.delete _ _ _ | exact Replays.replace _ _ _ _ _
  | exact Replays.insertStr _ _ _ _ | exact Replays.kill _ _ _ | exact Replays.indent _ _ _ _ _
  | exact Replays.transposeChars _ _ | exact Replays.editWord _ _ _ | exact Replays.transposeWords _ _ _
  | exact Replays.moveBackward _ _ _ | exact Replays.moveForward _ _ _ | exact Replays.moveHome _ _
  | exact Replays.moveEnd _ _ | exact Replays.moveBufferStart _ _ | exact Replays.moveBufferEnd _ _
  | exact Replays.moveToPrevWord _ _ _ _ | exact Replays.moveToNextWord _ _ _ _ _
  | exact Replays.moveToLineUp _ _ _ _ | exact Replays.moveToLineDown _ _ _ _ | exact Replays.moveTo _ _ _ _
  | exact Replays.setPosChecked _ _ _ | exact Replays.moveToFirstPrint _ _
  | assumption)

/-- the `PosOnly` fact of a quiet line-buffer call -/
macro "po_leaf" : tactic => `(tactic| first
  | exact PosOnly.moveBackward _ _ _ | exact PosOnly.moveForward _ _ _ | exact PosOnly.moveHome _ _
  | exact PosOnly.moveEnd _ _ | exact PosOnly.moveBufferStart _ _ | exact PosOnly.moveBufferEnd _ _
  | exact PosOnly.moveToPrevWord _ _ _ _ | exact PosOnly.moveToNextWord _ _ _ _ _
  | exact PosOnly.moveToLineUp _ _ _ _ | exact PosOnly.moveToLineDown _ _ _ _ | exact PosOnly.moveTo _ _ _ _
  | exact PosOnly.setPosChecked _ _ _ | exact PosOnly.moveToFirstPrint _ _
  | assumption)

macro "em_log_step" : tactic => `(tactic| first
  | intro _
  | with_reducible (first
    | exact LogK.pure _
    | apply LogK.bind
    | apply LogK.bind'
    | apply LogK.ite
    | assumption
    | exact LogK.exit _
    | exact LogK.liftP _
    | exact LogK.get
    | exact LogK.read _
    | exact logK_changesBegin | exact logK_changesEnd
    | exact logK_backup _ _ | exact logK_ringYank | exact logK_ringYankPop
    | exact logK_ringKill _ | exact logK_ringYankCount _ | exact logK_setHistIdx _)
  | ((with_reducible apply logK_lb) <;> rp_leaf)
  | ((with_reducible apply logK_lbQuiet) <;> po_leaf)
  | ((with_reducible apply logK_lbKill) <;> rp_leaf)
  | ((with_reducible apply LogK.modify) <;> (intro _; exact ⟨rfl, rfl⟩))
  | ((with_reducible apply LogK.of_core) <;> (with_reducible (first
      | exact keeps_refreshLine _ _ _ | exact keeps_refreshLineWithMsg _ _ _ _
      | exact keeps_refreshPromptAndLine _ _ _ _ | exact keeps_moveCursor _ _ _
      | exact keeps_highlightCharStep _ | exact keeps_updateHint _
      | exact keeps_setRefreshLayout _ _ _ _ _ | exact keeps_logRender _
      | exact keeps_getLine | exact keeps_getHistIdx | exact keeps_getPromptCol
      | exact keeps_lineEmpty | exact keeps_hasHint | exact keeps_nextKey _
      | exact keeps_nextChar)))
  | split
  | dsimp only)

syntax "em_log" ("[" term,* "]")? : tactic
macro_rules
  | `(tactic| em_log) => `(tactic| repeat' em_log_step)
  | `(tactic| em_log [$ts,*]) =>
    `(tactic| repeat' (first | (with_reducible first $[| apply $ts]*) | em_log_step))

section
variable (S : Segmenter) (U : UData) (cfg : EdCfg)

theorem logK_doingInsert : LogK doingInsert := by unfold doingInsert; em_log
theorem logK_doneInserting : LogK doneInserting := by unfold doneInserting; em_log
theorem logK_editInsert (c : Char) (n : Nat) : LogK (editInsert S U cfg c n) := by
  unfold editInsert; em_log
theorem logK_validate : LogK (validate S U cfg) := by
  unfold validate; em_log
theorem logK_restore : LogK (restore S U) := by
  unfold restore; em_log
theorem logK_showEntry (b : Text) (p : Nat) : LogK (showEntry S U b p) := by
  unfold showEntry; em_log
theorem logK_editMove {op : LM Bool} (h : PosOnly op) : LogK (editMove S U cfg op) := by
  unfold editMove; em_log
theorem logK_grouped {op : LM Bool} (h : Replays op) : LogK (grouped S U cfg op) := by
  unfold grouped; em_log
theorem logK_editYank (t : Text) (a : Anchor) (n : Nat) : LogK (editYank S U cfg t a n) := by
  unfold editYank; em_log
theorem logK_editYankPop (k : Nat) (t : Text) : LogK (editYankPop S U cfg k t) := by
  unfold editYankPop; em_log
theorem logK_editKill (m : Movement) : LogK (editKill S U cfg m) := by
  unfold editKill; em_log
theorem logK_editInsertText (t : Text) : LogK (editInsertText S U cfg t) := by
  unfold editInsertText; em_log
theorem logK_editReplaceChar (c : Char) (n : Nat) : LogK (editReplaceChar S U cfg c n) := by
  unfold editReplaceChar; em_log
theorem logK_editOverwriteChar (c : Char) : LogK (editOverwriteChar S U cfg c) := by
  unfold editOverwriteChar; em_log
theorem logK_completeHintLine : LogK (completeHintLine S U cfg) := by
  unfold completeHintLine; em_log
theorem logK_editHistoryNext (prev : Bool) : LogK (editHistoryNext S U cfg prev) := by
  have h1 := logK_restore S U
  have h2 := fun b p => logK_showEntry S U b p
  unfold editHistoryNext; em_log [h2]
theorem logK_editHistory (first : Bool) : LogK (editHistory S U cfg first) := by
  have h1 := logK_restore S U
  have h2 := fun b p => logK_showEntry S U b p
  unfold editHistory; em_log [h2]
theorem logK_editHistorySearch (d : Dir) : LogK (editHistorySearch S U cfg d) := by
  have h2 := fun b p => logK_showEntry S U b p
  unfold editHistorySearch; em_log [h2]
theorem logK_execAccept (aim : Bool) : LogK (execAccept S U cfg aim) := by
  have h1 := logK_validate S U cfg
  have h2 := fun c n => logK_editInsert S U cfg c n
  unfold execAccept; em_log [h2]

/-- **every command but `Undo` keeps the undo-log invariant** -/
theorem logK_execute (cmd : Cmd) (hc : IsUndo cmd = false) : LogK (execute S U cfg cmd) := by
  have a1 := fun c n => logK_editInsert S U cfg c n
  have a2 := logK_validate S U cfg
  have a3 := fun t a n => logK_editYank S U cfg t a n
  have a4 := fun k t => logK_editYankPop S U cfg k t
  have a5 := fun m => logK_editKill S U cfg m
  have a6 := fun t => logK_editInsertText S U cfg t
  have a7 := fun c n => logK_editReplaceChar S U cfg c n
  have a8 := fun c => logK_editOverwriteChar S U cfg c
  have a9 := logK_completeHintLine S U cfg
  have a10 := fun p => logK_editHistoryNext S U cfg p
  have a11 := fun p => logK_editHistory S U cfg p
  have a12 := fun d => logK_editHistorySearch S U cfg d
  have a13 := fun a => logK_execAccept S U cfg a
  have m1 : ∀ {op : LM Bool}, PosOnly op → LogK (editMove S U cfg op) := fun h => logK_editMove S U cfg h
  have g1 : ∀ {op : LM Bool}, Replays op → LogK (grouped S U cfg op) := fun h => logK_grouped S U cfg h
  cases cmd <;> simp only [IsUndo, Bool.true_eq_false] at hc <;> unfold execute
  case move m => cases m <;> (em_log [a1, a3, a4, a5, a6, a7, a8, a10, a11, a12, a13] <;> (first | (apply m1; po_leaf) | skip))
  all_goals (em_log [a1, a3, a4, a5, a6, a7, a8, a10, a11, a12, a13] <;> (first | (apply g1; rp_leaf) | skip))

/-! ### `next_cmd`, both modes: it only adds group markers to the log -/

theorem logK_viCommand (fuel : Nat) (key : KeyEvent) : LogK (viCommand S U cfg fuel key) := by
  have h1 := fun d => LogK.of_core (keeps_viArgDigit S U cfg fuel d)
  have h2 := LogK.of_core keeps_viNumArgs
  have h3 := fun c => LogK.of_core (keeps_viCharSearch c)
  have h4 := fun key n => LogK.of_core (keeps_viCmdMotion S U cfg fuel key n)
  have h5 := fun keys key n p => LogK.of_core (keeps_common cfg fuel keys key n p)
  have h6 := fun keys n p => LogK.of_core (keeps_customBinding cfg keys n p)
  have h7 := fun k => LogK.of_core (keeps_termBinding k)
  have h8 := LogK.of_core keeps_lastCharSearch
  have h9 := LogK.of_core keeps_getLastCmd
  have h10 := fun m => LogK.of_core (keeps_setInputMode m)
  have h11 := fun c => LogK.of_core (keeps_setLastCmd c)
  have h12 := fun c n => LogK.of_core (keeps_redoCmd c n)
  have h13 := logK_doingInsert
  have h14 := logK_doneInserting
  unfold viCommand
  em_log [h1, h3, h4, h5, h6, h7, h10, h11, h12]

theorem logK_viInsert (fuel : Nat) (key : KeyEvent) : LogK (viInsert S U cfg fuel key) := by
  have h4 := fun key => logK_viCommand S U cfg fuel key
  have h5 := fun keys key n p => LogK.of_core (keeps_common cfg fuel keys key n p)
  have h6 := fun keys n p => LogK.of_core (keeps_customBinding cfg keys n p)
  have h7 := fun k => LogK.of_core (keeps_termBinding k)
  have h9 := LogK.of_core keeps_getLastCmd
  have h10 := fun m => LogK.of_core (keeps_setInputMode m)
  have h11 := fun c => LogK.of_core (keeps_setLastCmd c)
  have h12 := fun c n => LogK.of_core (keeps_redoCmd c n)
  have h13 := logK_doingInsert
  have h14 := logK_doneInserting
  have h15 := LogK.of_core keeps_cursorAtEnd
  unfold viInsert
  em_log [h4, h5, h6, h7, h10, h11, h12]

theorem logK_nextCmd (fuel : Nat) (sea iep : Bool) : LogK (nextCmd S U cfg fuel sea iep) := by
  have h1 := fun key => LogK.of_core (keeps_emacs S U cfg fuel key)
  have h2 := fun key => logK_viInsert S U cfg fuel key
  have h3 := fun key => logK_viCommand S U cfg fuel key
  have h4 := fun sea => LogK.of_core (keeps_waitForInput sea)
  unfold nextCmd
  em_log [h1, h2, h3, h4]

/-! ### the sub-loops in emacs mode (an abort restores line and log together) -/

theorem wp_conj_top {α : Type} {m : EM α} {Q1 Q2 : α → Ed → Prop} {s : Ed}
    (h1 : wp m Q1 (fun _ _ => True) s) (h2 : wp m Q2 (fun _ _ => True) s) :
    wp m (fun a s' => Q1 a s' ∧ Q2 a s') (fun _ _ => True) s := by
  unfold wp at *
  cases hm : m s with
  | error e => trivial
  | ok r => rw [hm] at h1 h2; exact ⟨h1, h2⟩

/-- the invariant of a sub-loop: its log is `begin` of the log before plus notifications and begins, the
    line is growable, the log replays to the line -/
def LoopI (c0 : Changeset) (s : Ed) : Prop :=
  SubLog S U c0 s.changes ∧ s.line.canGrow = true ∧ UndoLogInv s

theorem LoopI.of_core {c0 : Changeset} {s s' : Ed} (h : LoopI S U c0 s) (hc : s'.core = s.core) : LoopI S U c0 s' := by
  obtain ⟨l, _, c, _⟩ := Ed.core_eq hc
  obtain ⟨h1, h2, t0, h3⟩ := h
  exact ⟨by rw [c]; exact h1, by rw [l]; exact h2, t0, by rw [c, l]; exact h3⟩

theorem loopI_nextCmd (hvi : cfg.vi = false) {c0 : Changeset} {fuel : Nat} {sea iep : Bool} {s : Ed}
    (h : LoopI S U c0 s) {Q : Cmd → Ed → Prop} (hq : ∀ c s', LoopI S U c0 s' → s'.line = s.line → Q c s') :
    wp (nextCmd S U cfg fuel sea iep) Q (fun _ _ => True) s := by
  have w1 : wp (nextCmd S U cfg fuel sea iep) (fun _ s' => s'.coreNC = s.coreNC) (fun _ _ => True) s :=
    wp_nextCmd S U cfg (fun _ _ h => h) (fun _ _ _ => trivial)
  have w2 : wp (nextCmd S U cfg fuel sea iep)
      (fun _ s' => s'.changes = s.changes ∨ s'.changes = s.changes.begin.1) (fun _ _ => True) s :=
    wp_nextCmd_emacs_changes S U cfg hvi (fun _ _ h => h)
  refine wp_mono (wp_conj_top w1 w2) ?_ (fun _ _ h => h)
  intro c s' ⟨hnc, hch⟩
  obtain ⟨l, _, _⟩ := Ed.coreNC_eq hnc
  obtain ⟨h1, h2, t0, h3⟩ := h
  refine hq c s' ?_ l
  rcases hch with e | e
  · exact ⟨by rw [e]; exact h1, by rw [l]; exact h2, t0, by rw [e, l]; exact h3⟩
  · exact ⟨by rw [e]; exact h1.begin, by rw [l]; exact h2, t0, by
      rw [e, l]; exact (C05_log_markers s.changes t0 _ h3).1⟩

theorem loopI_lb_update {c0 : Changeset} (b : Text) (p : Nat) {s : Ed} (h : LoopI S U c0 s)
    {Q : Unit → Ed → Prop} (hq : ∀ s', LoopI S U c0 s' → (p ≤ blen b → s'.line.buf = b) → Q () s') :
    wp (lb S U (LB.update S U b p)) Q (fun _ _ => True) s := by
  obtain ⟨h1, h2, t0, h3⟩ := h
  refine wp_lb_any S U (fun a l ns ho => ?_) trivial
  refine hq _ ⟨h1.notifs ns, LB.update_keeps_canGrow S U ho h2, t0, ?_⟩ ?_
  · exact C05_log_replay S U.alnum s.changes ns t0 s.line.buf l.buf h3
      (replayNotifs_of_replay ns ((Replays.update S U b p).h _ _ _ _ ho))
  · intro hp
    rw [LB.update_canGrow S U b p s.line h2 hp] at ho
    cases ho; rfl

theorem logK_searchLoop_emacs (hvi : cfg.vi = false) (c0 : Changeset) (backup : Text) (backupPos : Nat)
    (hbp : backupPos ≤ blen backup) (hent : ∃ t0, replayLog c0.undos.reverse t0 = some backup) :
    ∀ (fuel : Nat) (sb : Text) (hi : Nat) (d : Dir) (succ : Bool) (s : Ed), LoopI S U c0 s →
      wp (searchLoop S U cfg c0.undos.length backup backupPos fuel sb hi d succ)
        (fun _ s' => UndoLogInv s') (fun _ _ => True) s := by
  intro fuel
  induction fuel with
  | zero => intro sb hi d succ s _; unfold searchLoop; exact trivial
  | succ fuel ih =>
    intro sb hi d succ s hs
    unfold searchLoop
    simp only [wp_bind]
    refine wp_refreshPromptAndLine S U cfg (fun s2 hc2 => ?_) (fun _ _ _ => trivial)
    refine loopI_nextCmd S U cfg hvi (hs.of_core S U hc2) (fun cmd s3 hs3 _ => ?_)
    rw [wp_lowerMark, Nat.min_eq_left (Nat.le_of_lt hs3.1.facts.1)]
    have hds : ∀ (sb : Text) (hi hi0 : Nat) (d : Dir),
        wp (match (memHist cfg).search sb hi d with
            | some (idx, entry, pos) => do
              lb S U (LB.update S U entry pos)
              searchLoop S U cfg c0.undos.length backup backupPos fuel sb idx d true
            | none => searchLoop S U cfg c0.undos.length backup backupPos fuel sb hi0 d false)
          (fun _ s' => UndoLogInv s') (fun _ _ => True) s3 := by
      intro sb hi hi0 d
      cases (memHist cfg).search sb hi d with
      | none => exact ih _ _ _ _ s3 hs3
      | some r =>
        obtain ⟨idx, entry, pos⟩ := r
        simp only [wp_bind]
        exact loopI_lb_update S U entry pos hs3 (fun s4 hs4 _ => ih _ _ _ _ s4 hs4)
    split
    · exact hds _ _ _ _
    · exact ih _ _ _ _ s3 hs3
    · split
      · exact hds _ _ _ _
      · exact ih _ _ _ _ s3 hs3
    · split
      · exact hds _ _ _ _
      · exact ih _ _ _ _ s3 hs3
    · simp only [wp_bind]
      refine loopI_lb_update S U backup backupPos hs3 (fun s4 hs4 hb4 => ?_)
      refine wp_refreshLine S U cfg (fun s5 hc5 => ?_) (fun _ _ _ => trivial)
      simp only [truncateChanges, wp_modify, wp_pure]
      obtain ⟨l5, _, c5, _⟩ := Ed.core_eq hc5
      obtain ⟨t0, ht0⟩ := hent
      refine ⟨t0, ?_⟩
      have hf := (hs4.1.facts).2.2.1
      show replayLog (s5.changes.truncateClosed c0.undos.length).undos.reverse t0 = some s5.line.buf
      rw [c5, l5, hf, hb4 hbp]; exact ht0
    · simp only [wp_bind]
      refine wp_refreshLine S U cfg (fun s4 hc4 => ?_) (fun _ _ _ => trivial)
      simp only [wp_changesEnd, wp_pure]
      obtain ⟨t0, h3⟩ := (hs3.of_core S U hc4).2.2
      exact ⟨t0, (C05_log_markers s4.changes t0 _ h3).2⟩

theorem logK_completeCircular_emacs (hvi : cfg.vi = false) (c0 : Changeset) (start : Nat) (cands : List Text)
    (backup : Text) (backupPos : Nat) (hbp : backupPos ≤ blen backup)
    (hent : ∃ t0, replayLog c0.undos.reverse t0 = some backup) :
    ∀ (fuel i : Nat) (s : Ed), LoopI S U c0 s →
      wp (completeCircular S U cfg start cands c0.undos.length backup backupPos fuel i)
        (fun _ s' => UndoLogInv s') (fun _ _ => True) s := by
  intro fuel
  induction fuel with
  | zero => intro i s _; unfold completeCircular; exact trivial
  | succ fuel ih =>
    intro i s hs
    unfold completeCircular
    have rest : ∀ s1 : Ed, LoopI S U c0 s1 → (cands.length ≤ i → s1.line.buf = backup) →
        wp (do
          refreshLine S U cfg
          let cmd ← nextCmd S U cfg fuel true true
          let mark ← lowerMark c0.undos.length
          match cmd with
          | .complete => completeCircular S U cfg start cands mark backup backupPos fuel (compNext cands.length i)
          | .completeBackward => completeCircular S U cfg start cands mark backup backupPos fuel (compPrev cands.length i)
          | .abort => do
            if i < cands.length then do
              lb S U (LB.update S U backup backupPos)
              refreshLine S U cfg
            truncateChanges mark
            pure none
          | _ => do
            let _ ← changesEnd
            pure (some cmd)) (fun _ s' => UndoLogInv s') (fun _ _ => True) s1 := by
      intro s1 hs1 hb1
      simp only [wp_bind]
      refine wp_refreshLine S U cfg (fun s2 hc2 => ?_) (fun _ _ _ => trivial)
      have hl2 : s2.line = s1.line := (Ed.core_eq hc2).1
      refine loopI_nextCmd S U cfg hvi (hs1.of_core S U hc2) (fun cmd s3 hs3 hl3 => ?_)
      rw [wp_lowerMark, Nat.min_eq_left (Nat.le_of_lt hs3.1.facts.1)]
      have fin : ∀ s5 : Ed, LoopI S U c0 s5 → s5.line.buf = backup →
          UndoLogInv ({ s5 with changes := s5.changes.truncateClosed c0.undos.length } : Ed) := by
        intro s5 hs5 hb5
        obtain ⟨t0, ht0⟩ := hent
        refine ⟨t0, ?_⟩
        show replayLog (s5.changes.truncateClosed c0.undos.length).undos.reverse t0 = some s5.line.buf
        rw [(hs5.1.facts).2.2.1, hb5]; exact ht0
      split
      · exact ih _ s3 hs3
      · exact ih _ s3 hs3
      · split
        · simp only [wp_bind]
          refine loopI_lb_update S U backup backupPos hs3 (fun s4 hs4 hb4 => ?_)
          refine wp_refreshLine S U cfg (fun s5 hc5 => ?_) (fun _ _ _ => trivial)
          simp only [truncateChanges, wp_modify, wp_pure]
          exact fin s5 (hs4.of_core S U hc5) (by rw [(Ed.core_eq hc5).1]; exact hb4 hbp)
        · rename_i hge
          simp only [wp_pure, wp_bind, truncateChanges, wp_modify]
          exact fin s3 hs3 (by rw [hl3, hl2]; exact hb1 (by omega))
      · simp only [wp_bind, wp_changesEnd, wp_pure]
        obtain ⟨t0, h3⟩ := hs3.2.2
        exact ⟨t0, (C05_log_markers s3.changes t0 _ h3).2⟩
    simp only []
    by_cases hlt : i < cands.length
    · rw [if_pos hlt]
      have hci : cands[i]? = some cands[i] := by simp [hlt]
      rw [hci]
      simp only [wp_bind, wp_getLine]
      obtain ⟨h1, h2, t0, h3⟩ := hs
      refine wp_lb_any S U (fun a l ns ho => ?_) trivial
      have hs' : LoopI S U c0 ({ s with line := l, changes := s.changes.onNotifs S U.alnum ns } : Ed) :=
        ⟨h1.notifs ns, (LB.replace_canGrow S U ho).trans h2, t0,
          C05_log_replay S U.alnum s.changes ns t0 s.line.buf l.buf h3
            (replayNotifs_of_replay ns ((Replays.replace S U _ _ _).h _ _ _ _ ho))⟩
      have t := rest _ hs' (fun hge => by omega)
      simp only [wp_bind] at t ⊢
      exact t
    · rw [if_neg hlt]
      simp only [wp_bind]
      refine loopI_lb_update S U backup backupPos hs (fun s1 hs1 hb1 => ?_)
      have t := rest s1 hs1 (fun _ => hb1 hbp)
      simp only [wp_bind] at t ⊢
      exact t

theorem logJ_reverseIncrementalSearch (hvi : cfg.vi = false) (fuel : Nat) (s : Ed) (hg : s.line.canGrow = true)
    (hp : s.line.pos ≤ blen s.line.buf) (hj : UndoLogInv s) :
    wp (reverseIncrementalSearch S U cfg fuel) (fun _ s' => UndoLogInv s') (fun _ _ => True) s := by
  unfold reverseIncrementalSearch
  split
  · rw [wp_pure]; exact hj
  · simp only [wp_bind, wp_changesBegin, wp_getLine]
    obtain ⟨t0, h0⟩ := hj
    exact logK_searchLoop_emacs S U cfg hvi s.changes _ _ hp ⟨t0, h0⟩ fuel _ _ _ _ _
      ⟨SubLog.start S U s.changes, hg, t0, (C05_log_markers s.changes t0 _ h0).1⟩

theorem logJ_completeLine (hvi : cfg.vi = false) (fuel : Nat) (s : Ed) (hg : s.line.canGrow = true)
    (hp : s.line.pos ≤ blen s.line.buf) (hj : UndoLogInv s) :
    wp (completeLine S U cfg fuel) (fun _ s' => UndoLogInv s') (fun _ _ => True) s := by
  have hn := fun fuel sea iep => logK_nextCmd S U cfg fuel sea iep
  have hm : ∀ {op : LM Bool}, PosOnly op → LogK (editMove S U cfg op) := fun h => logK_editMove S U cfg h
  unfold completeLine
  simp only [wp_bind, wp_getLine]
  split
  · rw [wp_pure]; exact hj
  · split
    · simp only [wp_bind, wp_changesBegin]
      obtain ⟨t0, h0⟩ := hj
      exact logK_completeCircular_emacs S U cfg hvi s.changes _ _ _ _ hp ⟨t0, h0⟩ fuel 0 _
        ⟨SubLog.start S U s.changes, hg, t0, (C05_log_markers s.changes t0 _ h0).1⟩
    · have hk : LogK (do
          match lcpChars (cfg.completer s.line.buf s.line.pos).2 with
          | some lcp => do
            if (cfg.completer s.line.buf s.line.pos).1 > s.line.pos then exit .panic
            if blen lcp > s.line.pos - (cfg.completer s.line.buf s.line.pos).1 ||
                (cfg.completer s.line.buf s.line.pos).2.length == 1 then do
              lb S U (LB.replace S U (cfg.completer s.line.buf s.line.pos).1 s.line.pos lcp)
              refreshLine S U cfg
          | none => pure ()
          if (cfg.completer s.line.buf s.line.pos).2.length ≤ 1 then pure none
          else do
            let cmd ← nextCmd S U cfg fuel true true
            if cmd != .complete then pure (some cmd)
            else do
              let savePos ← (fun s => .ok (s.line.pos, s) : EM Nat)
              editMove S U cfg (LB.moveEnd S U)
              lbQuiet (LB.setPosChecked S U savePos)
              refreshLine S U cfg
              pure none : EM (Option Cmd)) := by
        em_log [hn] <;> (first | (apply hm; po_leaf) | skip)
      have t := hk.h s hj
      simp only [wp_bind] at t ⊢
      exact t

theorem wp_conj_pe {α : Type} {m : EM α} {Q1 Q2 : α → Ed → Prop} {s : Ed}
    (h1 : wp m Q1 PE s) (h2 : wp m Q2 (fun _ _ => True) s) :
    wp m (fun a s' => Q1 a s' ∧ Q2 a s') (fun _ _ => True) s := by
  unfold wp at *
  cases hm : m s with
  | error e => trivial
  | ok r => rw [hm] at h1 h2; exact ⟨h1, h2⟩

/-- **the dispatch loop keeps the undo-log invariant** (emacs mode, from the read invariant) -/
theorem logJ_preCmds (H : RdHyp S U cfg) (hvi : cfg.vi = false) : ∀ (fuel : Nat) (cmd : Cmd) (s : Ed),
    RdInv cfg s → UndoLogInv s →
    wp (preCmds S U cfg fuel cmd) (fun _ s' => UndoLogInv s') (fun _ _ => True) s := by
  intro fuel
  induction fuel with
  | zero => intro cmd s _ _; unfold preCmds; exact trivial
  | succ fuel ih =>
    intro cmd s h hj
    have hp : s.line.pos ≤ blen s.line.buf := (h.1.line : IsBoundary _ _).le_len
    unfold preCmds
    split
    · rw [wp_bind]
      refine wp_mono (wp_conj_pe (safe_completeLine S U cfg H fuel h)
        (logJ_completeLine S U cfg hvi fuel s h.2.1 hp hj)) ?_ (fun _ _ h => h)
      intro r s1 ⟨h1, hj1⟩
      cases r with
      | none => exact hj1
      | some next => exact ih next s1 h1 hj1
    · split
      · rw [wp_bind]
        refine wp_mono (wp_conj_pe (safe_reverseIncrementalSearch S U cfg H fuel h)
          (logJ_reverseIncrementalSearch S U cfg hvi fuel s h.2.1 hp hj)) ?_ (fun _ _ h => h)
        intro r s1 ⟨h1, hj1⟩
        cases r with
        | none => exact hj1
        | some next => exact ih next s1 h1 hj1
      · exact hj

/-! ### replay does not look at what follows the text (towards the vi abort paths: finding D49) -/

theorem applyFwd_suffix {c : Change} {t t' : Text} (w : Text) (h : applyFwd c t = some t') :
    applyFwd c (t ++ w) = some (t' ++ w) := by
  cases c with
  | begin => simp only [applyFwd] at h ⊢; cases h; rfl
  | end_ => simp only [applyFwd] at h ⊢; cases h; rfl
  | insert idx s =>
    obtain ⟨x, z, rfl, hi, rfl⟩ := applyFwd_insert.mp h
    exact applyFwd_insert.mpr ⟨x, z ++ w, by simp, hi, by simp⟩
  | delete idx s =>
    obtain ⟨x, z, rfl, hi, rfl⟩ := applyFwd_delete.mp h
    exact applyFwd_delete.mpr ⟨x, z ++ w, by simp, hi, by simp⟩
  | replace idx o n =>
    obtain ⟨x, z, rfl, hi, rfl⟩ := applyFwd_replace.mp h
    exact applyFwd_replace.mpr ⟨x, z ++ w, by simp, hi, by simp⟩

/-- a log that replays `t` to `t'` replays `t ++ w` to `t' ++ w` -/
theorem replayLog_suffix : ∀ (l : List Change) {t t' : Text} (w : Text), replayLog l t = some t' →
    replayLog l (t ++ w) = some (t' ++ w) := by
  intro l
  induction l with
  | nil => intro t t' w h; simp only [replayLog] at h ⊢; cases h; rfl
  | cons c l ih =>
    intro t t' w h
    simp only [replayLog] at h ⊢
    split at h
    · rename_i t1 h1
      rw [applyFwd_suffix w h1]
      exact ih w h
    · cases h

/-- the undo-log invariant follows when the log replays to a PREFIX of the line (what is left after a
    vi-mode abort into whose lower entries the listener had merged: the replayed text may be shorter) -/
theorem undoLogInv_of_prefix {s : Ed} {t0 p w : Text} (h : replayLog s.changes.undos.reverse t0 = some p)
    (hl : s.line.buf = p ++ w) : UndoLogInv s :=
  ⟨t0 ++ w, by rw [hl]; exact replayLog_suffix _ w h⟩

/-- every older part of a replayable log is replayable (so cutting the log back to ANY height leaves a log
    that replays from the same start text — to the text the line had when the log had that height, unless
    the listener has since merged into its top entry) -/
theorem replayLog_older_part {a b : List Change} {t t' : Text} (h : replayLog (a ++ b) t = some t') :
    ∃ t1, replayLog a t = some t1 ∧ replayLog b t1 = some t' := by
  rw [replayLog_append] at h
  cases h1 : replayLog a t with
  | none => rw [h1] at h; cases h
  | some t1 => rw [h1] at h; exact ⟨t1, rfl, h⟩

/-- what a vi-mode abort has to establish, in the form the evaluated replays suggest (D47, D47b, D48: the
    kept log replays "" to the line exactly; D49: to "" with the line "x"): the kept log replays some start
    text to a PREFIX of the restored line -/
theorem undoLogInv_after_cut {s : Ed} {kept : List Change} {t0 p w : Text}
    (hk : s.changes.undos = kept) (h : replayLog kept.reverse t0 = some p) (hl : s.line.buf = p ++ w) :
    UndoLogInv s := by
  subst hk; exact undoLogInv_of_prefix h hl

end
end Rl
