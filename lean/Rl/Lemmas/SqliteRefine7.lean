/-
  Refinement lemmas for C20, part 7: the judge accepts the model's walk; runs over ALL operations.
-/
import Rl.Lemmas.SqliteRefine6
namespace Rl.Sq
open Rl Rl.Spec.Sq

theorem strictlyDecreasing_of_pairwise : ∀ (l : List Nat), l.Pairwise (fun a b => b < a) → strictlyDecreasing l = true
  | [], _ => rfl
  | [_], _ => rfl
  | a :: b :: l, h => by
    have h1 := List.pairwise_cons.mp h
    have := h1.1 b (by simp)
    simp [strictlyDecreasing, this, strictlyDecreasing_of_pairwise (b :: l) h1.2]

theorem walk_verdict (ws : Char → Bool) {h : Hist} {s : SState} (hi : Inv h) (hs : Sim h.abs s)
    (hf : h.db.rows.length < walkFuel) :
    (judge ws s .walk (.walk (walk h walkFuel).1 (walk h walkFuel).2)).2 = none := by
  rw [walk_eq hi hf]
  have h1 : (h.db.rows.reverse.map shown).map (·.2) = (Spec.Sq.lines s).reverse := by
    rw [← hs.lines, lines_abs]
    simp only [List.map_reverse, List.map_map]
    congr 1
  have h2 : strictlyDecreasing ((h.db.rows.reverse.map shown).map (·.1)) = true := by
    apply strictlyDecreasing_of_pairwise
    rw [List.map_map, List.pairwise_map, List.pairwise_reverse]
    refine List.Pairwise.imp_of_mem ?_ hi.sorted
    intro a b ha hb hab
    have := hi.pos a ha
    simp only [Function.comp, shown]
    omega
  have h3 : h.db.rows.tail.map shown = (h.db.rows.reverse.map shown).reverse.drop 1 := by
    simp only [← List.map_reverse, List.reverse_reverse, ← List.map_drop, List.drop_one]
  show (if ((h.db.rows.reverse.map shown).map (·.2) != (Spec.Sq.lines s).reverse) = true then some "walk-down-lines"
    else if (!strictlyDecreasing ((h.db.rows.reverse.map shown).map (·.1))) = true then some "walk-down-order"
    else if (h.db.rows.tail.map shown != (h.db.rows.reverse.map shown).reverse.drop 1) = true then some "walk-up"
    else none) = none
  rw [h1, h2, ← h3]
  simp

theorem run_judge_full (ws : Char → Bool) (fts : Text → Text → Bool) {h : Hist} {s : SState}
    (hg : Good2 h) (hs : Sim h.abs s) (ops : List QOp)
    (hfuel : ∀ n, (h.run ws fts (ops.take n)).1.db.rows.length < walkFuel) (k : Nat) :
    judgeAll ws s k (ops.zip (h.run ws fts ops).2) = none := by
  induction ops generalizing h s k with
  | nil => rfl
  | cons op ops ih =>
    obtain ⟨g1, s1, v1⟩ := step_sim ws fts hg hs op
    have hv : (judge ws s op (h.step ws fts op).2).2 = none := by
      by_cases h1 : isStore op = true
      · exact v1 h1
      · by_cases h2 : isRead op = true
        · exact step_read_verdict ws fts hs op h2
        · cases op with
          | walk => exact walk_verdict ws hg.good.inv hs (hfuel 0)
          | _ => simp [isStore, isRead] at h1 h2
    have e : (op :: ops).zip (h.run ws fts (op :: ops)).2 =
        (op, (h.step ws fts op).2) :: ops.zip ((h.step ws fts op).1.run ws fts ops).2 := rfl
    rw [e]
    unfold judgeAll
    generalize hj : judge ws s op (h.step ws fts op).2 = j at hv s1
    obtain ⟨s', v⟩ := j
    simp only at hv s1
    subst hv
    exact ih g1 s1 (fun n => hfuel (n + 1)) (k + 1)

end Rl.Sq
