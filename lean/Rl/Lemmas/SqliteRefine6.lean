/-
  Refinement lemmas for C20, part 6: the spec's judge accepts the model's answers to the reading
  operations (get, searches, hint, walk); runs over all operations.
-/
import Rl.Lemmas.SqliteRefine5
namespace Rl.Sq
open Rl Rl.Spec.Sq

theorem lines_abs (h : Hist) : Spec.Sq.lines h.abs = h.db.rows.map (·.entry) := by
  simp [Spec.Sq.lines, Hist.abs, key, List.map_map, Function.comp_def]

theorem contains_lines {h : Hist} {s : SState} (hs : Sim h.abs s) {r : Row} (hr : r ∈ h.db.rows) :
    (Spec.Sq.lines s).contains r.entry = true := by
  rw [← hs.lines, lines_abs]
  simp only [List.contains_iff_mem, List.mem_map]
  exact ⟨r, hr, rfl⟩

theorem getRow_mem {h : Hist} {i : Nat} {d : Dir} {r : Row} (hg : h.getRow i d = some r) : r ∈ h.db.rows := by
  cases d with
  | forward => exact List.mem_of_find?_eq_some hg
  | reverse =>
    simp only [Hist.getRow] at hg
    exact (List.mem_filter.mp (List.mem_of_getLast? hg)).1

theorem get_verdict (ws : Char → Bool) {h : Hist} {s : SState} (hs : Sim h.abs s) (i : Nat) (d : Dir) :
    (judge ws s (.get i d) (.got (h.get i d).2)).2 = none := by
  cases hr : (h.get i d).2 with
  | none => rfl
  | some p =>
    obtain ⟨k, e⟩ := p
    unfold Hist.get at hr
    split at hr
    · simp at hr
    · split at hr
      · rename_i r hrow
        simp at hr
        obtain ⟨_, rfl⟩ := hr
        show (if (Spec.Sq.lines s).contains r.entry = true then none else some "get-unknown-entry") = none
        rw [contains_lines hs (getRow_mem hrow)]; rfl
      · simp at hr

theorem search_verdict (ws : Char → Bool) (fts : Text → Text → Bool) {h : Hist} {s : SState} (hs : Sim h.abs s)
    (t : Text) (st : Nat) (d : Dir) :
    (judge ws s (.search t st d) (.found (h.search fts t st d).2)).2 = none := by
  cases hr : (h.search fts t st d).2 with
  | none => rfl
  | some p =>
    obtain ⟨i, e, pos⟩ := p
    obtain ⟨ht, r, hrm, he, _, hp, _, _⟩ := searchMatch_some hr
    obtain ⟨a, b, hab, hpos, hpre⟩ := matchPos_search hp
    have hc : containsAt t e pos = true := by
      simp only [containsAt, hab, hpos, splitAtByte_append]
      exact List.isPrefixOf_iff_prefix.mpr hpre
    have hl := contains_lines hs hrm
    rw [he] at hl
    have hte : t.isEmpty = false := by cases t <;> simp_all
    show (if (!(Spec.Sq.lines s).contains e) = true then some "search-unknown-entry"
      else if t.isEmpty = true then some "search-empty-text"
      else if containsAt t e pos = true then none else some "search-not-contained") = none
    have hl' : e ∈ Spec.Sq.lines s := by simpa using hl
    simp [hl', hte, hc]

theorem startsWith_verdict (ws : Char → Bool) (fts : Text → Text → Bool) {h : Hist} {s : SState}
    (hs : Sim h.abs s) (t : Text) (st : Nat) (d : Dir) :
    (judge ws s (.startsWith t st d) (.found (h.startsWith fts t st d).2)).2 = none := by
  cases hr : (h.startsWith fts t st d).2 with
  | none => rfl
  | some p =>
    obtain ⟨i, e, pos⟩ := p
    obtain ⟨ht, r, hrm, he, _, hp, _, _⟩ := searchMatch_some hr
    obtain ⟨a, b, hab, hpos, hlo⟩ := matchPos_startsWith hp
    have hc : startsAt t e pos = true := by
      simp only [startsAt, hab, hpos, splitAtByte_append]
      simpa [Spec.Sq.fold, lower] using hlo
    have hl := contains_lines hs hrm
    rw [he] at hl
    have hte : t.isEmpty = false := by cases t <;> simp_all
    show (if (!(Spec.Sq.lines s).contains e) = true then some "starts-with-unknown-entry"
      else if t.isEmpty = true then some "starts-with-empty-text"
      else if startsAt t e pos = true then none else some "starts-with-not-prefix") = none
    have hl' : e ∈ Spec.Sq.lines s := by simpa using hl
    simp [hl', hte, hc]

theorem hint_verdict (ws : Char → Bool) (fts : Text → Text → Bool) {h : Hist} {s : SState}
    (hs : Sim h.abs s) (t : Text) :
    (judge ws s (.hint t) (.hint (h.hint fts t (blen t)).2)).2 = none := by
  cases hr : (h.hint fts t (blen t)).2 with
  | none =>
    exfalso
    unfold Hist.hint at hr
    split at hr
    · simp at hr
    · simp only [beq_self_eq_true, if_true] at hr
      generalize hst : Hist.startsWith fts h t (h.len - 1) Dir.reverse = res at hr
      rcases res with ⟨h', _ | ⟨i, entry, p⟩⟩
      · simp at hr
      · have hs' : (h.startsWith fts t (h.len - 1) .reverse).2 = some (i, entry, p) := by rw [hst]
        obtain ⟨_, r, _, _, _, hp, _, _⟩ := searchMatch_some hs'
        obtain ⟨a, b, hab, _, hlo⟩ := matchPos_startsWith hp
        have : splitAtByte entry (blen t) = some (a, b) := by
          rw [hab, ← blen_eq_of_lower_eq hlo]; exact splitAtByte_append a b
        simp only [this] at hr
        split at hr <;> simp at hr
  | some o =>
    cases o with
    | none => rfl
    | some rest =>
      unfold Hist.hint at hr
      split at hr
      · simp at hr
      · simp only [beq_self_eq_true, if_true] at hr
        generalize hst : Hist.startsWith fts h t (h.len - 1) Dir.reverse = res at hr
        rcases res with ⟨h', _ | ⟨i, entry, p⟩⟩
        · simp at hr
        · have hs' : (h.startsWith fts t (h.len - 1) .reverse).2 = some (i, entry, p) := by rw [hst]
          obtain ⟨_, r, hrm, he, _, hp, _, _⟩ := searchMatch_some hs'
          obtain ⟨a, b, hab, _, hlo⟩ := matchPos_startsWith hp
          have hsp : splitAtByte entry (blen t) = some (a, b) := by
            rw [hab, ← blen_eq_of_lower_eq hlo]; exact splitAtByte_append a b
          simp only [hsp] at hr
          split at hr
          · simp at hr
          · simp at hr
            subst hr
            have hmem : entry ∈ Spec.Sq.lines s := by
              have := contains_lines hs hrm
              rw [he] at this
              simpa using this
            show (if ((Spec.Sq.lines s).any (fun e => match splitAtByte e (blen t) with
                | some (a, b') => Spec.Sq.fold a == Spec.Sq.fold t && b' == b
                | none => false)) = true then none else some "hint-not-a-completion") = none
            have : ((Spec.Sq.lines s).any (fun e => match splitAtByte e (blen t) with
                | some (a, b') => Spec.Sq.fold a == Spec.Sq.fold t && b' == b
                | none => false)) = true := by
              rw [List.any_eq_true]
              refine ⟨entry, hmem, ?_⟩
              simp only [hsp]
              have : Spec.Sq.fold a = Spec.Sq.fold t := by simpa [Spec.Sq.fold, lower] using hlo
              simp [this]
            rw [this]; rfl

/-- the reading operations whose answers the judge checks against the store -/
def isRead : QOp → Bool
  | .get _ _ | .search _ _ _ | .startsWith _ _ _ | .hint _ => true
  | _ => false

theorem step_read_verdict (ws : Char → Bool) (fts : Text → Text → Bool) {h : Hist} {s : SState}
    (hs : Sim h.abs s) (op : QOp) (hop : isRead op = true) :
    (judge ws s op (h.step ws fts op).2).2 = none := by
  cases op with
  | get i d => exact get_verdict ws hs i d
  | search t st d => exact search_verdict ws fts hs t st d
  | startsWith t st d => exact startsWith_verdict ws fts hs t st d
  | hint t => exact hint_verdict ws fts hs t
  | _ => simp [isRead] at hop

theorem run_judge_all (ws : Char → Bool) (fts : Text → Text → Bool) {h : Hist} {s : SState}
    (hg : Good2 h) (hs : Sim h.abs s) (ops : List QOp)
    (hall : ops.all (fun op => isStore op || isRead op) = true) (k : Nat) :
    judgeAll ws s k (ops.zip (h.run ws fts ops).2) = none := by
  induction ops generalizing h s k with
  | nil => rfl
  | cons op ops ih =>
    simp only [List.all_cons, Bool.and_eq_true, Bool.or_eq_true] at hall
    obtain ⟨g1, s1, v1⟩ := step_sim ws fts hg hs op
    have hv : (judge ws s op (h.step ws fts op).2).2 = none := by
      rcases hall.1 with h1 | h1
      · exact v1 h1
      · exact step_read_verdict ws fts hs op h1
    have e : (op :: ops).zip (h.run ws fts (op :: ops)).2 =
        (op, (h.step ws fts op).2) :: ops.zip ((h.step ws fts op).1.run ws fts ops).2 := rfl
    rw [e]
    unfold judgeAll
    generalize hj : judge ws s op (h.step ws fts op).2 = j at hv s1
    obtain ⟨s', v⟩ := j
    simp only at hv s1
    subst hv
    exact ih g1 s1 (by simpa using hall.2) (k + 1)

end Rl.Sq
