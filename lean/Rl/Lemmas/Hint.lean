/-
  Helper lemmas for the history hinter (`Rl/Hint.lean`), used by the `C09_hinter_…` theorems.
-/
import Rl.History
import Rl.Hint
import Rl.Spec.History
import Rl.Lemmas.History
namespace Rl
open MemHist

/-- the index at which `HistoryHinter::hint` starts its backward search: the context's history
    index, or the last entry when the context is on the line being typed (`idx = len`) -/
def hintStart (h : MemHist) (idx : Nat) : Nat :=
  if idx = h.entries.length then idx - 1 else idx

/-- entry `i` (= `e`) is the nearest entry at or before index `s` (towards older entries) that
    starts with `line` -/
def NearestPrefix (es : List Text) (line : Text) (s i : Nat) (e : Text) : Prop :=
  i ≤ s ∧ es[i]? = some e ∧ line <+: e ∧
    ∀ (j : Nat) (e' : Text), i < j → j ≤ s → es[j]? = some e' → ¬ line <+: e'

theorem historyHint_unfold (h : MemHist) (idx : Nat) (line : Text) (pos : Nat) :
    historyHint h idx line pos =
      if line = [] ∨ pos < blen line then some none
      else
        match h.startsWith line (hintStart h idx) .reverse with
        | some (_, e, _) =>
          if e = line then some none
          else
            match splitAtByte e pos with
            | some (_, r) => some (some r)
            | none => none
        | none => some none := by
  unfold historyHint hintStart
  simp only [List.isEmpty_iff, Bool.or_eq_true, decide_eq_true_eq, beq_iff_eq]
  by_cases hg : line = [] ∨ pos < blen line
  · simp only [hg, if_true]
  · simp only [hg, if_false]
    generalize h.startsWith line _ Dir.reverse = sw
    rcases sw with _ | ⟨i, e, c⟩
    · rfl
    · by_cases he : e = line
      · simp only [he, if_true]
      · simp only [he, if_false]
        rcases splitAtByte e pos with _ | ⟨a, r⟩ <;> rfl

theorem startsWith_nearest {h : MemHist} {line : Text} {s i : Nat} {e : Text} {c : Nat}
    (hs : h.startsWith line s .reverse = some (i, e, c)) :
    NearestPrefix h.entries line s i e := by
  obtain ⟨_, _, hget, htest, _, hr⟩ := searchMatch_some hs
  obtain ⟨h1, h2⟩ := hr rfl
  split at htest
  · rename_i hp
    refine ⟨h1, hget, List.isPrefixOf_iff_prefix.mp hp, ?_⟩
    intro j e' hj1 hj2 he' hpre
    have := h2 j e' ⟨hj1, hj2⟩ he'
    rw [← List.isPrefixOf_iff_prefix] at hpre
    simp [hpre] at this
  · simp at htest

theorem nearestPrefix_unique {es : List Text} {line : Text} {s i i' : Nat} {e e' : Text}
    (h1 : NearestPrefix es line s i e) (h2 : NearestPrefix es line s i' e') :
    i = i' ∧ e = e' := by
  obtain ⟨a1, a2, a3, a4⟩ := h1
  obtain ⟨b1, b2, b3, b4⟩ := h2
  have : i = i' := by
    rcases Nat.lt_trichotomy i i' with hlt | heq | hgt
    · exact absurd b3 (a4 i' e' hlt b1 b2)
    · exact heq
    · exact absurd a3 (b4 i e hgt a1 a2)
  subst this
  rw [a2] at b2
  exact ⟨rfl, Option.some.inj b2⟩

theorem splitAtByte_prefix {line e : Text} (hp : line <+: e) :
    splitAtByte e (blen line) = some (line, e.drop line.length) := by
  obtain ⟨t, rfl⟩ := hp
  rw [splitAtByte_append]; simp

end Rl
