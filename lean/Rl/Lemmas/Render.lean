/-
  Lemmas about the byte strings of the renderer (`Rl/Render.lean`) interpreted by the terminal
  (`Rl/Term.lean`): the cursor-motion sequences, `clear_old_rows`, and the composition
  "clear old rows, print prompt ++ line ++ hint from the origin, own newline iff wrap pending, move up,
  CR, move right = the ideal screen with the cursor on the insertion point".
-/
import Rl.Lemmas.Term
import Rl.Lemmas.Layout
import Rl.Spec.Screen
namespace Rl

/-! ### escape sequences -/

theorem natText_eq (n : Nat) : natText n = Nat.toDigits 10 n := by
  simp [natText]

/-- **`ESC [ <decimal n> f` is the control function `f` with parameter `n`.** -/
theorem feed_csiN (cw : Char → Nat) (t : Term) (n : Nat) (f : Char) (h : t.ps = .ground)
    (hf : f ≠ '?' ∧ ('0' ≤ f && f ≤ '9') = false ∧ f ≠ ';') :
    t.feed cw (csiN n f) = t.csiFinal false [n] f := by
  obtain ⟨f1, f2, f3⟩ := hf
  have hne : Nat.toDigits 10 n ≠ [] := Nat.toDigits_ne_nil
  have hdig : ∀ c ∈ Nat.toDigits 10 n, c.isDigit = true :=
    fun c hc => Nat.isDigit_of_mem_toDigits (by decide) (by decide) hc
  have hval : Nat.ofDigitChars 10 (Nat.toDigits 10 n) 0 = n := Nat.ofDigitChars_ten_toDigits
  rw [csiN, natText_eq]
  cases hds : Nat.toDigits 10 n with
  | nil => exact absurd hds hne
  | cons d ds =>
    rw [hds] at hdig hval
    obtain ⟨h1, h2⟩ := digit_le d (hdig d List.mem_cons_self)
    have e1 : t.step cw '\x1b' = { t with ps := .esc } := by
      simp [Term.step, h, isC0Control, Term.control]
    have e2 : ({ t with ps := .esc } : Term).step cw '[' = { t with ps := .csi false [] none } := by
      simp [Term.step]
    have e3 : ({ t with ps := .csi false [] none } : Term).step cw d =
        { t with ps := .csi false [] (some (0 * 10 + (d.toNat - '0'.toNat))) } := by
      simp [Term.step, h1, h2]
    show ((((t.step cw '\x1b').step cw '[').step cw d).feed cw (ds ++ [f])) = _
    rw [e1, e2, e3, Term.feed_append, feed_digits cw ds (fun c hc => hdig c (List.mem_cons_of_mem _ hc))]
    rw [Nat.ofDigitChars_cons, Nat.mul_comm 10 0] at hval
    rw [hval]
    simp only [Term.feed, List.foldl_cons, List.foldl_nil, Term.step, f2]
    simp only [Term.param, List.nil_append, beq_iff_eq, f1, f3, if_false]
    rfl

/-- `ESC [ f` is the control function `f` without parameter -/
theorem feed_csi0 (cw : Char → Nat) (t : Term) (f : Char) (h : t.ps = .ground)
    (hf : f ≠ '?' ∧ ('0' ≤ f && f ≤ '9') = false ∧ f ≠ ';') :
    t.feed cw ['\x1b', '[', f] = t.csiFinal false [] f := by
  obtain ⟨f1, f2, f3⟩ := hf
  have e1 : t.step cw '\x1b' = { t with ps := .esc } := by
    simp [Term.step, h, isC0Control, Term.control]
  have e2 : ({ t with ps := .esc } : Term).step cw '[' = { t with ps := .csi false [] none } := by
    simp [Term.step]
  show (((t.step cw '\x1b').step cw '[').step cw f) = _
  rw [e1, e2]
  simp only [Term.step, f2]
  simp only [Term.param, beq_iff_eq, f1, f3, if_false]
  rfl

theorem feed_up (cw : Char → Nat) (t : Term) (n : Nat) (h : t.ps = .ground) (hn : 0 < n) :
    t.feed cw (csiN n 'A') = { t with cr := t.cr - n, pending := false } := by
  rw [feed_csiN cw t n 'A' h (by decide)]
  cases t; simp at h; subst h
  have : ¬ n = 0 := by omega
  simp [Term.csiFinal, Term.count, this]

theorem feed_down (cw : Char → Nat) (t : Term) (n : Nat) (h : t.ps = .ground) (hn : 0 < n) :
    t.feed cw (csiN n 'B') = { t with cr := t.cr + n, pending := false } := by
  rw [feed_csiN cw t n 'B' h (by decide)]
  cases t; simp at h; subst h
  have : ¬ n = 0 := by omega
  simp [Term.csiFinal, Term.count, this]

theorem feed_right (cw : Char → Nat) (t : Term) (n : Nat) (h : t.ps = .ground) (hn : 0 < n) :
    t.feed cw (csiN n 'C') = { t with cc := min (t.cols - 1) (t.cc + n), pending := false } := by
  rw [feed_csiN cw t n 'C' h (by decide)]
  cases t; simp at h; subst h
  have : ¬ n = 0 := by omega
  simp [Term.csiFinal, Term.count, this]

theorem feed_up1 (cw : Char → Nat) (t : Term) (n : Nat) (h : t.ps = .ground) (hn : 0 < n) :
    t.feed cw (csi1 n 'A') = { t with cr := t.cr - n, pending := false } := by
  unfold csi1
  by_cases h1 : n = 1
  · subst h1
    rw [if_pos (by decide), feed_csi0 cw t 'A' h (by decide)]
    cases t; simp at h; subst h
    simp [Term.csiFinal, Term.count]
  · rw [if_neg (by simpa using h1)]; exact feed_up cw t n h hn

theorem feed_down1 (cw : Char → Nat) (t : Term) (n : Nat) (h : t.ps = .ground) (hn : 0 < n) :
    t.feed cw (csi1 n 'B') = { t with cr := t.cr + n, pending := false } := by
  unfold csi1
  by_cases h1 : n = 1
  · subst h1
    rw [if_pos (by decide), feed_csi0 cw t 'B' h (by decide)]
    cases t; simp at h; subst h
    simp [Term.csiFinal, Term.count]
  · rw [if_neg (by simpa using h1)]; exact feed_down cw t n h hn

theorem feed_right1 (cw : Char → Nat) (t : Term) (n : Nat) (h : t.ps = .ground) (hn : 0 < n) :
    t.feed cw (csi1 n 'C') = { t with cc := min (t.cols - 1) (t.cc + n), pending := false } := by
  unfold csi1
  by_cases h1 : n = 1
  · subst h1
    rw [if_pos (by decide), feed_csi0 cw t 'C' h (by decide)]
    cases t; simp at h; subst h
    simp [Term.csiFinal, Term.count]
  · rw [if_neg (by simpa using h1)]; exact feed_right cw t n h hn

theorem feed_left1 (cw : Char → Nat) (t : Term) (n : Nat) (h : t.ps = .ground) (hn : 0 < n) :
    t.feed cw (csi1 n 'D') = { t with cc := t.cc - n, pending := false } := by
  unfold csi1
  by_cases h1 : n = 1
  · subst h1
    rw [if_pos (by decide), feed_csi0 cw t 'D' h (by decide)]
    cases t; simp at h; subst h
    simp [Term.csiFinal, Term.count]
  · rw [if_neg (by simpa using h1), feed_csiN cw t n 'D' h (by decide)]
    cases t; simp at h; subst h
    have : ¬ n = 0 := by omega
    simp [Term.csiFinal, Term.count, this]

/-- `\r ESC[K`: the cursor row is erased, the cursor is at its start -/
theorem feed_clearRow (cw : Char → Nat) (t : Term) (h : t.ps = .ground) :
    t.feed cw clearRow = { t with cc := 0, pending := false, grid := t.grid.eraseLineFrom t.cr 0 } := by
  show (t.step cw '\r').feed cw ['\x1b', '[', 'K'] = _
  rw [step_cr cw t h]
  cases t; simp at h; subst h
  rw [feed_csi0 cw _ 'K' rfl (by decide)]
  simp [Term.csiFinal]

theorem feed_clearRowUp (cw : Char → Nat) (t : Term) (h : t.ps = .ground) :
    t.feed cw clearRowUp =
      { t with cc := 0, pending := false, cr := t.cr - 1, grid := t.grid.eraseLineFrom t.cr 0 } := by
  have : clearRowUp = clearRow ++ ['\x1b', '[', 'A'] := rfl
  rw [this, Term.feed_append, feed_clearRow cw t h]
  cases t; simp at h; subst h
  rw [feed_csi0 cw _ 'A' rfl (by decide)]
  simp [Term.csiFinal, Term.count]

/-! ### `clear_old_rows` -/

/-- cursor-only facts about a terminal after some bytes: where the cursor is, nothing pending -/
structure CurAt (t : Term) (cols r c : Nat) (bad : Bool) : Prop where
  cols : t.cols = cols
  ps : t.ps = .ground
  cr : t.cr = r
  cc : t.cc = c
  pending : t.pending = false
  bad : t.bad = bad

theorem feed_clearRows (cw : Char → Nat) : ∀ (k : Nat) (t : Term), t.ps = .ground → t.cr = k →
    CurAt (t.feed cw ((List.replicate k clearRowUp).flatten ++ clearRow)) t.cols 0 0 t.bad ∧
    ∀ r c, (t.feed cw ((List.replicate k clearRowUp).flatten ++ clearRow)).grid.get r c =
      if r ≤ k then {} else t.grid.get r c := by
  intro k
  induction k with
  | zero =>
    intro t hps hcr
    simp only [List.replicate_zero, List.flatten_nil, List.nil_append]
    rw [feed_clearRow cw t hps]
    refine ⟨⟨rfl, hps, hcr, rfl, rfl, rfl⟩, ?_⟩
    intro r c
    simp only [Grid.get_eraseLineFrom, hcr]
    by_cases hr : r = 0 <;> simp [hr]
  | succ k ih =>
    intro t hps hcr
    simp only [List.replicate_succ, List.flatten_cons, List.append_assoc]
    rw [Term.feed_append, feed_clearRowUp cw t hps]
    obtain ⟨hat, hcells⟩ := ih
      { t with cc := 0, pending := false, cr := t.cr - 1, grid := t.grid.eraseLineFrom t.cr 0 }
      hps (by simp [hcr])
    refine ⟨hat, ?_⟩
    intro r c
    rw [hcells r c]
    simp only [Grid.get_eraseLineFrom, hcr]
    by_cases h1 : r ≤ k
    · simp [h1, Nat.le_succ_of_le h1]
    · by_cases h2 : r = k + 1
      · simp [h2]
      · have : ¬ r ≤ k + 1 := by omega
        simp [h1, h2, this]

theorem feed_clearOldRows (R : RCfg) (l : Layout) (t : Term) (hps : t.ps = .ground)
    (hcr : t.cr = (onScreen R l.cursor).row)
    (hle : (onScreen R l.cursor).row ≤ (onScreen R l.end_).row) :
    CurAt (t.feed R.cw (clearOldRows R l)) t.cols 0 0 t.bad ∧
    ∀ r c, (t.feed R.cw (clearOldRows R l)).grid.get r c =
      if r ≤ (onScreen R l.end_).row then {} else t.grid.get r c := by
  unfold clearOldRows
  simp only []
  rw [List.append_assoc, Term.feed_append]
  by_cases hm : (onScreen R l.end_).row - (onScreen R l.cursor).row > 0
  · rw [if_pos hm, feed_down R.cw t _ hps hm]
    exact feed_clearRows R.cw _
      { t with cr := t.cr + ((onScreen R l.end_).row - (onScreen R l.cursor).row), pending := false }
      hps (by simp only []; omega)
  · rw [if_neg hm, Term.feed_nil]
    exact feed_clearRows R.cw _ t hps (by omega)

/-! ### the tail of `refresh_line`: own newline, up, CR, right -/

def refreshTail (R : RCfg) (E C : Pos) : Text :=
  (if E.col ≥ R.cols then ['\n'] else []) ++
  (if (onScreen R E).row - (onScreen R C).row > 0 then csiN ((onScreen R E).row - (onScreen R C).row) 'A' else []) ++
  ['\r'] ++
  (if (onScreen R C).col > 0 then csiN (onScreen R C).col 'C' else [])

theorem onScreen_col_lt (R : RCfg) (p : Pos) (hc : 0 < R.cols) : (onScreen R p).col < R.cols := by
  unfold onScreen; split
  · exact hc
  · omega

theorem feed_refreshTail (R : RCfg) (hc : 2 ≤ R.cols) (t : Term) (E C : Pos) (ht : Tracks R E t)
    (hle : (onScreen R C).row ≤ (onScreen R E).row) :
    CurAt (t.feed R.cw (refreshTail R E C)) R.cols (onScreen R C).row (onScreen R C).col t.bad ∧
    (t.feed R.cw (refreshTail R E C)).grid = t.grid := by
  obtain ⟨hcols, hps, hrow, hcase⟩ := ht
  unfold refreshTail
  simp only [Term.feed_append]
  -- own newline
  have hA : CurAt (t.feed R.cw (if E.col ≥ R.cols then ['\n'] else [])) R.cols (onScreen R E).row
      (onScreen R E).col t.bad ∧ (t.feed R.cw (if E.col ≥ R.cols then ['\n'] else [])).grid = t.grid := by
    by_cases hE : E.col ≥ R.cols
    · rw [if_pos hE]
      have e : t.feed R.cw ['\n'] = { t with cr := t.cr + 1, cc := 0, pending := false } :=
        step_newline R.cw t hps
      have ho : onScreen R E = { col := 0, row := E.row + 1 } := by simp [onScreen, hE]
      rw [e, ho]
      exact ⟨⟨hcols, hps, by simp [hrow], rfl, rfl, rfl⟩, rfl⟩
    · rw [if_neg hE, Term.feed_nil]
      have ho : onScreen R E = E := by simp [onScreen, hE]
      rw [ho]
      rcases hcase with ⟨_, h2, h3⟩ | ⟨h1, _, _⟩
      · exact ⟨⟨hcols, hps, hrow, h2, h3, rfl⟩, rfl⟩
      · omega
  generalize t.feed R.cw (if E.col ≥ R.cols then ['\n'] else []) = t1 at hA
  obtain ⟨⟨a1, a2, a3, a4, a5, a6⟩, ag⟩ := hA
  -- up
  have hB : CurAt (t1.feed R.cw (if (onScreen R E).row - (onScreen R C).row > 0 then
        csiN ((onScreen R E).row - (onScreen R C).row) 'A' else [])) R.cols (onScreen R C).row
      (onScreen R E).col t.bad ∧
      (t1.feed R.cw (if (onScreen R E).row - (onScreen R C).row > 0 then
        csiN ((onScreen R E).row - (onScreen R C).row) 'A' else [])).grid = t.grid := by
    by_cases hu : (onScreen R E).row - (onScreen R C).row > 0
    · rw [if_pos hu, feed_up R.cw t1 _ a2 hu]
      exact ⟨⟨a1, a2, by simp only []; omega, a4, rfl, a6⟩, ag⟩
    · rw [if_neg hu, Term.feed_nil]
      exact ⟨⟨a1, a2, by omega, a4, a5, a6⟩, ag⟩
  generalize t1.feed R.cw (if (onScreen R E).row - (onScreen R C).row > 0 then
        csiN ((onScreen R E).row - (onScreen R C).row) 'A' else []) = t2 at hB
  obtain ⟨⟨b1, b2, b3, b4, b5, b6⟩, bg⟩ := hB
  -- CR
  have hC : t2.feed R.cw ['\r'] = { t2 with cc := 0, pending := false } := step_cr R.cw t2 b2
  rw [hC]
  have hD : CurAt ({ t2 with cc := 0, pending := false } : Term) R.cols (onScreen R C).row 0 t.bad ∧
      ({ t2 with cc := 0, pending := false } : Term).grid = t.grid :=
    ⟨⟨b1, b2, b3, rfl, rfl, b6⟩, bg⟩
  generalize ({ t2 with cc := 0, pending := false } : Term) = t3 at hD
  obtain ⟨⟨d1, d2, d3, d4, d5, d6⟩, dg⟩ := hD
  -- right
  by_cases hr : (onScreen R C).col > 0
  · rw [if_pos hr, feed_right R.cw t3 _ d2 hr]
    have := onScreen_col_lt R C (by omega)
    exact ⟨⟨d1, d2, d3, by simp only [d1, d4]; omega, rfl, d6⟩, dg⟩
  · rw [if_neg hr, Term.feed_nil]
    exact ⟨⟨d1, d2, d3, by omega, d5, d6⟩, dg⟩

/-! ### `Tracks` determines the position -/

theorem tracks_unique {R : RCfg} {p q : Pos} {t : Term} (hp : Tracks R p t) (hq : Tracks R q t) : p = q := by
  obtain ⟨_, _, r1, c1⟩ := hp
  obtain ⟨_, _, r2, c2⟩ := hq
  cases p; cases q
  simp only [Pos.mk.injEq] at *
  rcases c1 with ⟨a1, a2, a3⟩ | ⟨a1, a2, a3⟩ <;> rcases c2 with ⟨b1, b2, b3⟩ | ⟨b1, b2, b3⟩
  · omega
  · rw [a3] at b3; cases b3
  · rw [a3] at b3; cases b3
  · omega

theorem tracks_orow {R : RCfg} {p : Pos} {t : Term} (h : Tracks R p t) : t.orow = (onScreen R p).row := by
  obtain ⟨_, _, r1, c1⟩ := h
  unfold Term.orow onScreen
  rcases c1 with ⟨a1, a2, a3⟩ | ⟨a1, a2, a3⟩
  · have : ¬ p.col ≥ R.cols := by omega
    simp [a3, this, r1]
  · have : p.col ≥ R.cols := by omega
    simp [a3, this, r1]

theorem tracks_insertionPoint {R : RCfg} {p : Pos} {s : Text}
    (h : Tracks R p ((Term.blank R.cols).feed R.cw s)) :
    Spec.insertionPoint R.cw R.cols s = ((onScreen R p).row, (onScreen R p).col) := by
  obtain ⟨_, _, hrow, hcase⟩ := h
  unfold Spec.insertionPoint onScreen
  rcases hcase with ⟨h1, h2, h3⟩ | ⟨h1, h2, h3⟩
  · have : ¬ p.col ≥ R.cols := by omega
    simp [h3, this, hrow, h2]
  · have : p.col ≥ R.cols := by omega
    simp [h3, this, hrow]

theorem tracks_of_rel {R : RCfg} {p : Pos} {t1 t2 : Term} (h : Rel t1 t2) (ht : Tracks R p t2) :
    Tracks R p t1 := by
  obtain ⟨a, b, c, d⟩ := ht
  exact ⟨h.cols.trans a, h.ps1, h.cr.trans c, by rw [h.cc, h.pending]; exact d⟩

theorem plainC_of_plainG {R : RCfg} {g : Text} (h : PlainG R g) : PlainT g := by
  rcases h with rfl | ⟨c, rest, rfl, hc, hrest, _, _⟩
  · intro x hx; simp at hx; exact Or.inl hx
  · intro x hx
    rcases List.mem_cons.1 hx with rfl | hx
    · exact Or.inr hc
    · exact Or.inr (hrest x hx).1

theorem plainT_of_seg (S : Segmenter) (R : RCfg) (s : Text) (h : ∀ g ∈ S.seg s, PlainG R g) : PlainT s := by
  intro c hc
  rw [← S.flatten_eq s] at hc
  obtain ⟨g, hg, hcg⟩ := List.mem_flatten.1 hc
  exact plainC_of_plainG (h g hg) c hcg

theorem plainT_append {a b : Text} (ha : PlainT a) (hb : PlainT b) : PlainT (a ++ b) := by
  intro c hc
  rcases List.mem_append.1 hc with h | h
  · exact ha c h
  · exact hb c h

/-! ### the invariant between the renderer's belief and the terminal -/

/-- the renderer's belief `l` is true of the terminal `t`, which displays `text` (= prompt ++ line ++ hint)
    with the cursor after its prefix `before` (= prompt ++ line[..pos]) -/
structure Synced (R : RCfg) (t : Term) (l : Layout) (text before : Text) : Prop where
  cols : t.cols = R.cols
  canon : t.grid.canon = ((Term.blank R.cols).feed R.cw text).grid.canon
  cursor : (t.cr, t.cc) = Spec.insertionPoint R.cw R.cols before
  pending : t.pending = false
  ps : t.ps = .ground
  cur : Tracks R l.cursor ((Term.blank R.cols).feed R.cw before)
  end_ : Tracks R l.end_ ((Term.blank R.cols).feed R.cw text)
  plain : PlainT text
  pre : ∃ rest, text = before ++ rest

theorem Synced.cr_cc {R : RCfg} {t : Term} {l : Layout} {text before : Text} (h : Synced R t l text before) :
    t.cr = (onScreen R l.cursor).row ∧ t.cc = (onScreen R l.cursor).col := by
  have := h.cursor
  rw [tracks_insertionPoint h.cur] at this
  exact ⟨(Prod.mk.inj this).1, (Prod.mk.inj this).2⟩

/-- the believed cursor row is not below the believed end row -/
theorem rows_le {R : RCfg} {c e : Pos} {text before : Text}
    (hcur : Tracks R c ((Term.blank R.cols).feed R.cw before))
    (hend : Tracks R e ((Term.blank R.cols).feed R.cw text))
    (hplain : PlainT text) (hpre : ∃ rest, text = before ++ rest) :
    (onScreen R c).row ≤ (onScreen R e).row := by
  obtain ⟨rest, rfl⟩ := hpre
  have hb : PlainT before := fun x hx => hplain x (List.mem_append_left _ hx)
  have hr : PlainT rest := fun x hx => hplain x (List.mem_append_right _ hx)
  have i1 := plainInv_feed R.cw before hb (Term.blank R.cols) rfl (belowBlank_blank _)
  have i2 := plainInv_feed R.cw rest hr _ i1.ps i1.below
  rw [← Term.feed_append] at i2
  rw [← tracks_orow hcur, ← tracks_orow hend]
  exact i2.orow

/-- **Full repaint.** From a terminal that shows `text` as the renderer believes, the bytes
    `clear_old_rows ++ text' ++ tail` lead to a terminal that shows `text'` with the cursor after `before'`. -/
theorem synced_refresh {R : RCfg} (hc : 2 ≤ R.cols) {t : Term} {old new : Layout} {text before text' before' : Text}
    (h : Synced R t old text before)
    (hplain : PlainT text') (hpre : ∃ rest, text' = before' ++ rest)
    (hcur : Tracks R new.cursor ((Term.blank R.cols).feed R.cw before'))
    (hend : Tracks R new.end_ ((Term.blank R.cols).feed R.cw text')) :
    Synced R (t.feed R.cw (clearOldRows R old ++ text' ++ refreshTail R new.end_ new.cursor)) new text' before' := by
  obtain ⟨hcr, _⟩ := h.cr_cc
  have hle := rows_le h.cur h.end_ h.plain h.pre
  have hle' := rows_le hcur hend hplain hpre
  -- 1. clear
  obtain ⟨hat, hcells⟩ := feed_clearOldRows R old t h.ps hcr hle
  rw [Term.feed_append, Term.feed_append]
  generalize t.feed R.cw (clearOldRows R old) = t1 at hat hcells
  -- every cell of `t1` is visibly blank
  have hblank : ∀ r c, vcell (t1.grid.get r c) = ([], false) := by
    intro r c
    rw [hcells r c]
    by_cases hr : r ≤ (onScreen R old.end_).row
    · rw [if_pos hr]; rfl
    · rw [if_neg hr]
      have hv := (canon_eq_iff _ _).1 h.canon r c
      have inv := plainInv_feed R.cw text h.plain (Term.blank R.cols) rfl (belowBlank_blank _)
      have ho := tracks_orow h.end_
      have : ((Term.blank R.cols).feed R.cw text).cr < r := by
        have : ((Term.blank R.cols).feed R.cw text).cr ≤ ((Term.blank R.cols).feed R.cw text).orow := by
          unfold Term.orow; omega
        omega
      rw [hv, inv.below r c this]; rfl
  have hrel : Rel t1 (Term.blank R.cols) := by
    refine ⟨hat.cols.trans h.cols, hat.cr, hat.cc, hat.pending, hat.ps, rfl, ?_⟩
    intro r c
    right
    refine ⟨hblank r c, rfl, ?_⟩
    rintro ⟨_, hlt⟩
    simp [Term.lim, hat.cc, hat.pending] at hlt
  -- 2. print
  have hrel2 := rel_feed R.cw text' hplain hrel
  have htr := tracks_of_rel hrel2 hend
  -- 3. tail
  obtain ⟨hat3, hg3⟩ := feed_refreshTail R hc _ new.end_ new.cursor htr hle'
  refine ⟨hat3.cols, ?_, ?_, hat3.pending, hat3.ps, hcur, hend, hplain, hpre⟩
  · rw [hg3]; exact hrel2.canon
  · rw [tracks_insertionPoint hcur, hat3.cr, hat3.cc]

/-! ### `refresh_line` and `compute_layout`, decomposed -/

theorem refreshLineBytes_ok {R : RCfg} {prompt line : Text} {hint : Option Text} {old new : Layout}
    {bytes : Text} (h : refreshLineBytes R prompt line hint old new = .ok bytes) :
    bytes = clearOldRows R old ++ (prompt ++ line ++ hint.getD []) ++ refreshTail R new.end_ new.cursor := by
  unfold refreshLineBytes at h
  simp only [] at h
  split at h
  · cases h
  · injection h with h
    rw [← h]
    unfold refreshTail
    by_cases h1 : new.end_.col ≥ R.cols <;> by_cases h2 : (onScreen R new.end_).row - (onScreen R new.cursor).row > 0 <;>
      by_cases h3 : (onScreen R new.cursor).col > 0 <;> simp [h1, h2, h3]

theorem tracks_calc (S : Segmenter) (R : RCfg) (hc : 2 ≤ R.cols) (s : Text) (p : Pos) (t : Term)
    (hs : ∀ g ∈ S.seg s, PlainG R g) (h : Tracks R p t) :
    Tracks R (calculatePosition S R s p) (t.feed R.cw s) := by
  have := (tracks_loop hc (S.seg s) hs h).2
  rw [S.flatten_eq] at this
  exact this

theorem ok_of_ite {α : Type} {c : Prop} [Decidable c] {v new : α}
    (h : (if c then (.error .panic : Except Panic α) else .ok v) = .ok new) : new = v := by
  split at h
  · cases h
  · injection h with h; exact h.symm

/-- the layout `compute_layout` returns tracks the terminal, piece by piece -/
theorem layout_tracks (S : Segmenter) (R : RCfg) (hc : 2 ≤ R.cols) (prompt b a : Text) (info : Option Text)
    (psize : Pos) (dflt : Bool) (new : Layout)
    (hp : Tracks R psize ((Term.blank R.cols).feed R.cw prompt))
    (hb : ∀ g ∈ S.seg b, PlainG R g) (ha : ∀ g ∈ S.seg a, PlainG R g)
    (hi : ∀ g ∈ S.seg (info.getD []), PlainG R g)
    (h : computeLayout S R psize dflt (b ++ a) (blen b) info = .ok new) :
    new.promptSize = psize ∧
    Tracks R new.cursor ((Term.blank R.cols).feed R.cw (prompt ++ b)) ∧
    Tracks R new.end_ ((Term.blank R.cols).feed R.cw (prompt ++ (b ++ a) ++ info.getD [])) := by
  unfold computeLayout at h
  rw [splitAtByte_append] at h
  have t1 : Tracks R (calculatePosition S R b psize) ((Term.blank R.cols).feed R.cw (prompt ++ b)) := by
    rw [Term.feed_append]; exact tracks_calc S R hc b _ _ hb hp
  have t2 : Tracks R (if (blen b == blen (b ++ a)) = true then calculatePosition S R b psize
        else calculatePosition S R a (calculatePosition S R b psize))
      ((Term.blank R.cols).feed R.cw (prompt ++ (b ++ a))) := by
    split
    next he =>
      have : a = [] := by
        simp at he
        exact blen_eq_zero.1 (by omega)
      subst this
      simpa using t1
    next =>
      rw [← List.append_assoc, Term.feed_append]
      exact tracks_calc S R hc a _ _ ha t1
  cases info with
  | none =>
    simp only [] at h
    have := ok_of_ite h
    subst this
    exact ⟨rfl, t1, by simpa using t2⟩
  | some i =>
    simp only [] at h
    have := ok_of_ite h
    subst this
    refine ⟨rfl, t1, ?_⟩
    simp only [Option.getD_some]
    rw [Term.feed_append]
    exact tracks_calc S R hc i _ _ hi t2

/-! ### `move_cursor` -/

theorem feed_moveCursor (R : RCfg) (hc : 0 < R.cols) (t : Term) (a b : Pos)
    (hcols : t.cols = R.cols) (hps : t.ps = .ground) (hpend : t.pending = false)
    (hcr : t.cr = (onScreen R a).row) (hcc : t.cc = (onScreen R a).col) :
    CurAt (t.feed R.cw (moveCursorBytes R a b)) R.cols (onScreen R b).row (onScreen R b).col t.bad ∧
    (t.feed R.cw (moveCursorBytes R a b)).grid = t.grid := by
  unfold moveCursorBytes
  simp only []
  rw [Term.feed_append]
  have hA : CurAt (t.feed R.cw (if (onScreen R b).row > (onScreen R a).row then
        csi1 ((onScreen R b).row - (onScreen R a).row) 'B'
      else if (onScreen R b).row < (onScreen R a).row then csi1 ((onScreen R a).row - (onScreen R b).row) 'A'
      else [])) R.cols (onScreen R b).row (onScreen R a).col t.bad ∧
      (t.feed R.cw (if (onScreen R b).row > (onScreen R a).row then
        csi1 ((onScreen R b).row - (onScreen R a).row) 'B'
      else if (onScreen R b).row < (onScreen R a).row then csi1 ((onScreen R a).row - (onScreen R b).row) 'A'
      else [])).grid = t.grid := by
    by_cases h1 : (onScreen R b).row > (onScreen R a).row
    · rw [if_pos h1, feed_down1 R.cw t _ hps (by omega)]
      exact ⟨⟨hcols, hps, by simp only []; omega, hcc, rfl, rfl⟩, rfl⟩
    · rw [if_neg h1]
      by_cases h2 : (onScreen R b).row < (onScreen R a).row
      · rw [if_pos h2, feed_up1 R.cw t _ hps (by omega)]
        exact ⟨⟨hcols, hps, by simp only []; omega, hcc, rfl, rfl⟩, rfl⟩
      · rw [if_neg h2, Term.feed_nil]
        exact ⟨⟨hcols, hps, by omega, hcc, hpend, rfl⟩, rfl⟩
  generalize t.feed R.cw (if (onScreen R b).row > (onScreen R a).row then
        csi1 ((onScreen R b).row - (onScreen R a).row) 'B'
      else if (onScreen R b).row < (onScreen R a).row then csi1 ((onScreen R a).row - (onScreen R b).row) 'A'
      else []) = t1 at hA
  obtain ⟨⟨a1, a2, a3, a4, a5, a6⟩, ag⟩ := hA
  have hb := onScreen_col_lt R b hc
  by_cases h1 : (onScreen R b).col > (onScreen R a).col
  · rw [if_pos h1, feed_right1 R.cw t1 _ a2 (by omega)]
    exact ⟨⟨a1, a2, a3, by simp only [a1, a4]; omega, rfl, a6⟩, ag⟩
  · rw [if_neg h1]
    by_cases h2 : (onScreen R b).col < (onScreen R a).col
    · rw [if_pos h2, feed_left1 R.cw t1 _ a2 (by omega)]
      exact ⟨⟨a1, a2, a3, by simp only [a4]; omega, rfl, a6⟩, ag⟩
    · rw [if_neg h2, Term.feed_nil]
      exact ⟨⟨a1, a2, a3, by omega, a5, a6⟩, ag⟩

/-- **Cursor-only move**: the text stays, the cursor goes to the cell of `p` -/
theorem synced_move {R : RCfg} (hc : 2 ≤ R.cols) {t : Term} {l : Layout} {text before : Text}
    (h : Synced R t l text before) (before' : Text) (p : Pos)
    (hcur : Tracks R p ((Term.blank R.cols).feed R.cw before')) (hpre : ∃ rest, text = before' ++ rest) :
    Synced R (t.feed R.cw (moveCursorBytes R l.cursor p)) { l with cursor := p } text before' := by
  obtain ⟨hcr, hcc⟩ := h.cr_cc
  obtain ⟨hat, hg⟩ := feed_moveCursor R (by omega) t l.cursor p h.cols h.ps h.pending hcr hcc
  refine ⟨hat.cols, by rw [hg]; exact h.canon, ?_, hat.pending, hat.ps, hcur, h.end_, h.plain, hpre⟩
  rw [tracks_insertionPoint hcur, hat.cr, hat.cc]

/-- the cursor is believed to be where it is: only the logical cursor changes -/
theorem synced_same {R : RCfg} {t : Term} {l : Layout} {text before : Text}
    (h : Synced R t l text before) (before' : Text)
    (hcur : Tracks R l.cursor ((Term.blank R.cols).feed R.cw before')) (hpre : ∃ rest, text = before' ++ rest) :
    Synced R t l text before' := by
  refine ⟨h.cols, h.canon, ?_, h.pending, h.ps, hcur, h.end_, h.plain, hpre⟩
  rw [tracks_insertionPoint hcur, ← tracks_insertionPoint h.cur]
  exact h.cursor

/-! ### the fast path of `edit_insert` -/

theorem synced_vrel {R : RCfg} {t : Term} {l : Layout} {text : Text} (h : Synced R t l text text)
    (hlt : l.cursor.col < R.cols) : VRel t ((Term.blank R.cols).feed R.cw text) := by
  obtain ⟨c1, c2, c3, c4⟩ := h.cur
  have hnp : ((Term.blank R.cols).feed R.cw text).pending = false := by
    rcases c4 with ⟨_, _, x⟩ | ⟨x, _, _⟩
    · exact x
    · omega
  have := h.cursor
  unfold Spec.insertionPoint at this
  simp only [hnp, Bool.false_eq_true, if_false] at this
  exact ⟨h.cols.trans c1.symm, (Prod.mk.inj this).1, (Prod.mk.inj this).2, h.pending.trans hnp.symm,
    h.ps, c2, (canon_eq_iff _ _).1 h.canon⟩

theorem synced_fast {R : RCfg} (hc : 2 ≤ R.cols) {t : Term} {l : Layout} {text : Text} (ch : Char)
    (h : Synced R t l text text) (hch : isC0Control ch = false) (hw : R.cw ch ≠ 0)
    (hlt : l.cursor.col + R.cw ch < R.cols) :
    Synced R (t.feed R.cw [ch])
      { l with cursor := { l.cursor with col := l.cursor.col + R.cw ch },
               end_ := { l.end_ with col := l.end_.col + R.cw ch } } (text ++ [ch]) (text ++ [ch]) := by
  have hv := vrel_step R.cw (synced_vrel h (by omega)) ch (Or.inr ⟨hch, hw⟩)
  have hend : l.end_ = l.cursor := tracks_unique h.end_ h.cur
  have hstep : ((Term.blank R.cols).feed R.cw text).feed R.cw [ch] =
      ((Term.blank R.cols).feed R.cw text).print (R.cw ch) ch := by
    show Term.step _ _ _ = _
    rw [step_plain _ _ _ h.cur.2.1 hch]
  have hadv : advance R l.cursor (R.cw ch) = { l.cursor with col := l.cursor.col + R.cw ch } := by
    unfold advance
    have : ¬ l.cursor.col + R.cw ch > R.cols := by omega
    simp [this]
  have htr : Tracks R { l.cursor with col := l.cursor.col + R.cw ch }
      ((Term.blank R.cols).feed R.cw (text ++ [ch])) := by
    rw [Term.feed_append, hstep, ← hadv]
    exact tracks_print h.cur hc _ (by omega) ch
  have hnp : ((Term.blank R.cols).feed R.cw (text ++ [ch])).pending = false := by
    obtain ⟨_, _, _, c4⟩ := htr
    rcases c4 with ⟨_, _, x⟩ | ⟨x, _, _⟩
    · exact x
    · simp at x; omega
  have hv' : VRel (t.feed R.cw [ch]) ((Term.blank R.cols).feed R.cw (text ++ [ch])) := by
    rw [Term.feed_append]; exact hv
  refine ⟨hv'.cols.trans htr.1, hv'.canon, ?_, hv'.pending.trans hnp, hv'.ps1, htr, by rw [hend]; exact htr,
    plainT_append h.plain (by intro x hx; simp at hx; subst hx; exact Or.inr hch), ⟨[], by simp⟩⟩
  unfold Spec.insertionPoint
  simp only [hnp, Bool.false_eq_true, if_false]
  rw [hv'.cr, hv'.cc]

/-! ### `clear_screen` -/

theorem synced_clear {R : RCfg} (hc : 2 ≤ R.cols) (t : Term) (l : Layout) (hcols : t.cols = R.cols)
    (hps : t.ps = .ground) :
    Synced R (t.feed R.cw clearScreenBytes) { l with cursor := {}, end_ := {} } [] [] := by
  have e : clearScreenBytes = ['\x1b', '[', 'H'] ++ ['\x1b', '[', 'J'] := rfl
  rw [e, Term.feed_append, feed_csi0 R.cw t 'H' hps (by decide)]
  have h1 : t.csiFinal false [] 'H' = { t with cr := 0, cc := 0, pending := false } := by
    cases t; simp at hps; subst hps
    simp [Term.csiFinal]
  rw [h1, feed_csi0 R.cw ({ t with cr := 0, cc := 0, pending := false } : Term) 'J' hps (by decide)]
  have h2 : ({ t with cr := 0, cc := 0, pending := false } : Term).csiFinal false [] 'J' =
      { t with cr := 0, cc := 0, pending := false, grid := t.grid.eraseBelow 0 0 } := by
    cases t; simp at hps; subst hps
    simp [Term.csiFinal]
  rw [h2]
  have hb : Tracks R {} ((Term.blank R.cols).feed R.cw []) :=
    ⟨rfl, rfl, rfl, Or.inl ⟨by show 0 < R.cols; omega, rfl, rfl⟩⟩
  refine ⟨hcols, ?_, rfl, rfl, hps, hb, hb, (by intro x hx; cases hx), ⟨[], rfl⟩⟩
  rw [canon_eq_iff]
  intro r c
  simp only [Grid.get_eraseBelow]
  have : 0 < r ∨ r = 0 ∧ 0 ≤ c := by omega
  rw [if_pos this]
  simp [Term.feed, Term.blank, Grid.get]

/-! ### the `State` level (`RS`) -/

theorem Synced.congr {R : RCfg} {t : Term} {l l' : Layout} {text before : Text}
    (h : Synced R t l text before) (hc : l'.cursor = l.cursor) (he : l'.end_ = l.end_) :
    Synced R t l' text before :=
  ⟨h.cols, h.canon, h.cursor, h.pending, h.ps, by rw [hc]; exact h.cur, by rw [he]; exact h.end_, h.plain, h.pre⟩

/-- everything written so far -/
def RS.all (s : RS) : Text := s.segs.reverse.flatten ++ s.out

theorem RS.all_emit (s : RS) (b : Text) : (s.emit b).all = s.all ++ b := by
  simp [RS.all, RS.emit, List.append_assoc]

theorem refresh_ok {S : Segmenter} {R : RCfg} {s s' : RS} {p : Text} {psize : Pos} {dflt : Bool}
    {line : Text} {pos : Nat} {info : Option Text}
    (h : s.refresh S R p psize dflt line pos info = .ok s') :
    ∃ nl bytes b a, splitAtByte line pos = some (b, a) ∧
      computeLayout S R psize dflt line pos info = .ok nl ∧
      refreshLineBytes R p line info s.layout nl = .ok bytes ∧
      s'.layout = nl ∧ s'.all = s.all ++ bytes ∧ s'.promptSize = s.promptSize := by
  cases hl : computeLayout S R psize dflt line pos info with
  | error e =>
    unfold RS.refresh at h; rw [hl] at h; cases h
  | ok nl =>
    cases hb : refreshLineBytes R p line info s.layout nl with
    | error e =>
      unfold RS.refresh at h; rw [hl] at h
      simp only [bind, Except.bind] at h
      rw [hb] at h; cases h
    | ok bytes =>
      unfold RS.refresh at h; rw [hl] at h
      simp only [bind, Except.bind] at h
      rw [hb] at h
      simp only [pure, Except.pure] at h
      injection h with h
      subst h
      cases hs : splitAtByte line pos with
      | none => unfold computeLayout at hl; rw [hs] at hl; cases hl
      | some ba =>
        obtain ⟨b, a⟩ := ba
        exact ⟨nl, bytes, b, a, rfl, rfl, hb, rfl, RS.all_emit s bytes, rfl⟩

end Rl
