/-
  A small Hoare-style library for the `EM` monad of Rl/Editor.lean
  (`EM α = Ed → Except (Outcome × Ed) (α × Ed)`).

  * `wp m Q E s`     : weakest precondition — running `m` from `s` ends in `Q a s'` (normal return)
                        or `E o s'` (early exit).  `wp_bind`, `wp_pure`, … are `Iff`/`rfl` rules, so
                        a goal about a `do` block is reduced by `simp only [wp_simp]`-style rewriting.
  * `Keeps f m`      : every run of `m` (normal or early exit) leaves the projection `f` of the state
                        unchanged (`f s' = f s`).  Closed under bind / pure / if / match, so the frame
                        facts about the large keymap functions are proved by the tactic `em_keeps`.
  * frame lemmas for the refresh family, the key readers, the undo-group markers, and the
    `lb` / `lbQuiet` / `lbKill` rules that lift a fact about an `LM` operation to `EM`.
-/
import Rl.Editor
import Rl.Lemmas.LineBuffer
import Rl.Lemmas.LineBufferSafe
namespace Rl
open EM

/-! ### weakest preconditions -/

def wp {α : Type} (m : EM α) (Q : α → Ed → Prop) (E : Outcome → Ed → Prop) (s : Ed) : Prop :=
  match m s with
  | .ok (a, s') => Q a s'
  | .error (o, s') => E o s'

theorem EM.bind_apply {α β : Type} (m : EM α) (f : α → EM β) (s : Ed) :
    (m >>= f) s = match m s with | .error e => .error e | .ok (a, s') => f a s' := rfl

@[simp] theorem EM.pure_apply {α : Type} (a : α) (s : Ed) : (pure a : EM α) s = .ok (a, s) := rfl

theorem wp_bind {α β : Type} (m : EM α) (f : α → EM β) (Q : β → Ed → Prop) (E : Outcome → Ed → Prop) (s : Ed) :
    wp (m >>= f) Q E s ↔ wp m (fun a s' => wp (f a) Q E s') E s := by
  unfold wp; rw [EM.bind_apply]
  cases m s with
  | error e => rfl
  | ok r => rfl

/-- the same with the type of `m` unfolded (a state reader written as a lambda) -/
theorem wp_bind' {α β : Type} (m : Ed → Except (Outcome × Ed) (α × Ed)) (f : α → EM β)
    (Q : β → Ed → Prop) (E : Outcome → Ed → Prop) (s : Ed) :
    wp (@Bind.bind EM _ α β m f) Q E s ↔ wp (m : EM α) (fun a s' => wp (f a) Q E s') E s :=
  wp_bind m f Q E s

theorem wp_pure {α : Type} (a : α) (Q : α → Ed → Prop) (E : Outcome → Ed → Prop) (s : Ed) :
    wp (pure a : EM α) Q E s ↔ Q a s := Iff.rfl

theorem wp_get (Q : Ed → Ed → Prop) (E : Outcome → Ed → Prop) (s : Ed) : wp EM.get Q E s ↔ Q s s := Iff.rfl
theorem wp_set (t : Ed) (Q : Unit → Ed → Prop) (E : Outcome → Ed → Prop) (s : Ed) :
    wp (EM.set t) Q E s ↔ Q () t := Iff.rfl
theorem wp_modify (f : Ed → Ed) (Q : Unit → Ed → Prop) (E : Outcome → Ed → Prop) (s : Ed) :
    wp (EM.modify f) Q E s ↔ Q () (f s) := Iff.rfl
theorem wp_exit {α : Type} (o : Outcome) (Q : α → Ed → Prop) (E : Outcome → Ed → Prop) (s : Ed) :
    wp (EM.exit o : EM α) Q E s ↔ E o s := Iff.rfl

theorem wp_mono {α : Type} {m : EM α} {Q Q' : α → Ed → Prop} {E E' : Outcome → Ed → Prop} {s : Ed}
    (h : wp m Q E s) (hq : ∀ a s', Q a s' → Q' a s') (he : ∀ o s', E o s' → E' o s') : wp m Q' E' s := by
  unfold wp at *
  cases hm : m s with
  | error e => rw [hm] at h; exact he _ _ h
  | ok r => rw [hm] at h; exact hq _ _ h

theorem wp_ok {α : Type} {m : EM α} {Q : α → Ed → Prop} {E : Outcome → Ed → Prop} {s s' : Ed} {a : α}
    (h : wp m Q E s) (hm : m s = .ok (a, s')) : Q a s' := by
  unfold wp at h; rw [hm] at h; exact h

theorem wp_error {α : Type} {m : EM α} {Q : α → Ed → Prop} {E : Outcome → Ed → Prop} {s s' : Ed} {o : Outcome}
    (h : wp m Q E s) (hm : m s = .error (o, s')) : E o s' := by
  unfold wp at h; rw [hm] at h; exact h

theorem wp_of_eq_ok {α : Type} {m : EM α} {Q : α → Ed → Prop} {E : Outcome → Ed → Prop} {s s' : Ed} {a : α}
    (hm : m s = .ok (a, s')) (h : Q a s') : wp m Q E s := by
  unfold wp; rw [hm]; exact h

theorem wp_ite {α : Type} (c : Prop) [Decidable c] (a b : EM α) (Q : α → Ed → Prop) (E : Outcome → Ed → Prop) (s : Ed) :
    wp (if c then a else b) Q E s ↔ if c then wp a Q E s else wp b Q E s := by
  split <;> rfl

/-- a state reader written as a lambda -/
theorem wp_read {α : Type} (g : Ed → α) (Q : α → Ed → Prop) (E : Outcome → Ed → Prop) (s : Ed) :
    wp (fun s => .ok (g s, s) : EM α) Q E s ↔ Q (g s) s := Iff.rfl

/-- `m` returns normally from `s` with a result and state satisfying `Q` -/
def Returns {α : Type} (m : EM α) (s : Ed) (Q : α → Ed → Prop) : Prop := ∃ a s', m s = .ok (a, s') ∧ Q a s'

theorem Returns.wp {α : Type} {m : EM α} {s : Ed} {Q : α → Ed → Prop} {E : Outcome → Ed → Prop}
    (h : Returns m s Q) : Rl.wp m Q E s := by
  obtain ⟨a, s', hm, hq⟩ := h
  exact wp_of_eq_ok hm hq

theorem returns_iff_wp {α : Type} {m : EM α} {s : Ed} {Q : α → Ed → Prop} :
    Returns m s Q ↔ wp m Q (fun _ _ => False) s := by
  unfold Returns wp
  cases hm : m s with
  | error e => simp
  | ok r =>
    obtain ⟨a, s'⟩ := r
    constructor
    · rintro ⟨a1, s1, h, hq⟩
      cases h; exact hq
    · intro hq; exact ⟨a, s', rfl, hq⟩

/-! ### `Keeps f m`: the projection `f` of the state survives every run of `m` -/

structure Keeps {α β : Type} (f : Ed → β) (m : EM α) : Prop where
  h : ∀ s, match m s with
       | .ok (_, s') => f s' = f s
       | .error (_, s') => f s' = f s

namespace Keeps
variable {α β γ : Type} {f : Ed → γ}

theorem pure (a : α) : Keeps f (pure a : EM α) := ⟨fun _ => rfl⟩

theorem bind {m : EM α} {g : α → EM β} (hm : Keeps f m) (hg : ∀ a, Keeps f (g a)) : Keeps f (m >>= g) := by
  constructor
  intro s
  have h1 := hm.h s
  rw [EM.bind_apply]
  cases hms : m s with
  | error e => rw [hms] at h1; exact h1
  | ok r =>
    obtain ⟨a, s1⟩ := r
    rw [hms] at h1
    have h2 := (hg a).h s1
    simp only []
    cases hgs : g a s1 with
    | error e => rw [hgs] at h2; simp only [] at h2 ⊢; rw [h2, h1]
    | ok r2 => rw [hgs] at h2; simp only [] at h2 ⊢; rw [h2, h1]

/-- the same with the type of `m` unfolded (a state reader written as a lambda) -/
theorem bind' {m : Ed → Except (Outcome × Ed) (α × Ed)} {g : α → EM β}
    (hm : Keeps f (m : EM α)) (hg : ∀ a, Keeps f (g a)) : Keeps f (@Bind.bind EM _ α β m g) :=
  Keeps.bind hm hg

theorem ite {c : Prop} [Decidable c] {a b : EM α} (ha : Keeps f a) (hb : Keeps f b) :
    Keeps f (if c then a else b) := by
  split <;> assumption

theorem exit (o : Outcome) : Keeps f (EM.exit o : EM α) := ⟨fun _ => rfl⟩

theorem liftP (e : Except Panic α) : Keeps f (EM.liftP e) := by
  constructor; intro s; unfold EM.liftP; cases e <;> rfl

theorem get : Keeps f EM.get := ⟨fun _ => rfl⟩

theorem modify {g : Ed → Ed} (h : ∀ s, f (g s) = f s) : Keeps f (EM.modify g) := ⟨fun s => h s⟩

/-- a state reader written as a lambda -/
theorem read (g : Ed → α) : Keeps f (fun s => .ok (g s, s) : EM α) := ⟨fun _ => rfl⟩

theorem comp {δ : Type} (g : γ → δ) {m : EM α} (h : Keeps f m) : Keeps (fun s => g (f s)) m := by
  constructor
  intro s
  have := h.h s
  cases hm : m s with
  | error e => rw [hm] at this; simp only [] at this ⊢; rw [this]
  | ok r => rw [hm] at this; simp only [] at this ⊢; rw [this]

theorem ok {m : EM α} (h : Keeps f m) {s s' : Ed} {a : α} (hm : m s = .ok (a, s')) : f s' = f s := by
  have := h.h s; rw [hm] at this; exact this

theorem error {m : EM α} (h : Keeps f m) {s s' : Ed} {o : Outcome} (hm : m s = .error (o, s')) : f s' = f s := by
  have := h.h s; rw [hm] at this; exact this

theorem wp {m : EM α} (h : Keeps f m) (s : Ed) :
    Rl.wp m (fun _ s' => f s' = f s) (fun _ s' => f s' = f s) s := by
  have := h.h s
  unfold Rl.wp
  cases hm : m s with
  | error e => rw [hm] at this; exact this
  | ok r => rw [hm] at this; exact this

end Keeps

/-! ### the two projections used by the property files -/

/-- everything except what key reading, the input state and the display touch -/
structure Core where
  line : LB
  saved : LB
  changes : Changeset
  ring : KillRing
  histIdx : Nat
  validatorCalls : List Text
  suspends : Nat

def Ed.core (s : Ed) : Core :=
  ⟨s.line, s.saved, s.changes, s.ring, s.histIdx, s.validatorCalls, s.suspends⟩

/-- the same without the undo log (`next_cmd` opens and closes undo groups) -/
structure CoreNC where
  line : LB
  saved : LB
  ring : KillRing
  histIdx : Nat
  validatorCalls : List Text
  suspends : Nat

def Core.nc (c : Core) : CoreNC := ⟨c.line, c.saved, c.ring, c.histIdx, c.validatorCalls, c.suspends⟩
def Ed.coreNC (s : Ed) : CoreNC := s.core.nc

theorem Ed.core_eq {s s' : Ed} (h : s'.core = s.core) :
    s'.line = s.line ∧ s'.saved = s.saved ∧ s'.changes = s.changes ∧ s'.ring = s.ring ∧
    s'.histIdx = s.histIdx ∧ s'.validatorCalls = s.validatorCalls ∧ s'.suspends = s.suspends := by
  unfold Ed.core at h
  injection h with h1 h2 h3 h4 h5 h6 h7
  exact ⟨h1, h2, h3, h4, h5, h6, h7⟩

theorem Ed.coreNC_eq {s s' : Ed} (h : s'.coreNC = s.coreNC) :
    s'.line = s.line ∧ s'.saved = s.saved ∧ s'.ring = s.ring ∧
    s'.histIdx = s.histIdx ∧ s'.validatorCalls = s.validatorCalls ∧ s'.suspends = s.suspends := by
  unfold Ed.coreNC Core.nc Ed.core at h
  injection h with h1 h2 h3 h4 h5 h6
  exact ⟨h1, h2, h3, h4, h5, h6⟩

theorem Keeps.nc {α : Type} {m : EM α} (h : Keeps Ed.core m) : Keeps Ed.coreNC m := Keeps.comp Core.nc h

section
variable (S : Segmenter) (U : UData) (cfg : EdCfg)

/-! ### frame lemmas: key readers -/

theorem keeps_rdErr {α : Type} (e : RdErr) : Keeps Ed.core (rdErr e : EM α) := by
  constructor; intro s; cases e <;> rfl

theorem keeps_nextKey (sea : Bool) : Keeps Ed.core (nextKey sea) := by
  constructor
  intro s
  unfold nextKey
  cases h : s.input.nextKey sea with
  | error e => exact (keeps_rdErr e).h s
  | ok r => rfl

theorem keeps_nextChar : Keeps Ed.core nextChar := by
  constructor
  intro s
  unfold nextChar
  cases h : s.input.nextChar with
  | error e => exact (keeps_rdErr e).h s
  | ok r => rfl

theorem keeps_waitForInput (sea : Bool) : Keeps Ed.core (waitForInput sea) := keeps_nextKey sea

theorem keeps_readPasted : Keeps Ed.core readPasted := by
  constructor
  intro s
  unfold readPasted
  cases h : s.input.readPasted (s.input.size + 1) [] with
  | error e => exact (keeps_rdErr e).h s
  | ok r => rfl

/-! ### frame lemmas: refresh family -/

theorem keeps_highlightCharStep : Keeps Ed.core (highlightCharStep cfg) := by
  constructor
  intro s
  unfold highlightCharStep
  by_cases h1 : cfg.hasHelper = true
  · by_cases h2 : cfg.highlightChar s.line.buf s.line.pos = true
    · simp only [h1, h2, if_true]; rfl
    · by_cases h3 : s.highlightChar = true
      · simp only [h1, h2, h3, if_true, if_false, Bool.false_eq_true]; rfl
      · simp only [h1, h2, h3, if_true, if_false, Bool.false_eq_true]
  · simp only [h1, if_false, Bool.false_eq_true]

theorem keeps_logRender (g : Ed → RenderOp) : Keeps Ed.core (logRender g) := ⟨fun _ => rfl⟩

/-- `State::hint()` (the scripted hinter may panic at its k-th call): display fields and the call
    counter only -/
theorem keeps_updateHint : Keeps Ed.core (updateHint cfg) := by
  constructor
  intro s
  unfold updateHint
  by_cases h1 : cfg.hasHelper = true
  · by_cases h2 : (cfg.hinterPanicAt == some (cfg.hintCallsBase + (s.hintCalls + 1))) = true
    · simp only [h1, h2, if_true]; rfl
    · simp only [h1, h2, if_true, if_false, Bool.false_eq_true]; rfl
  · simp only [h1, if_false, Bool.false_eq_true]; rfl

/-- the only early exit of `updateHint` is the panic of a hinter scripted to panic -/
theorem updateHint_outcome (s : Ed) :
    (∃ s', updateHint cfg s = .ok ((), s') ∧ s'.core = s.core) ∨
    (∃ s', updateHint cfg s = .error (.panic, s') ∧ s'.core = s.core ∧ cfg.hinterPanicAt ≠ none) := by
  unfold updateHint
  by_cases h1 : cfg.hasHelper = true
  · by_cases h2 : (cfg.hinterPanicAt == some (cfg.hintCallsBase + (s.hintCalls + 1))) = true
    · right
      simp only [h1, h2, if_true]
      refine ⟨_, rfl, rfl, ?_⟩
      intro hn; rw [hn] at h2; simp at h2
    · left
      simp only [h1, h2, if_true, if_false, Bool.false_eq_true]
      exact ⟨_, rfl, rfl⟩
  · left
    simp only [h1, if_false, Bool.false_eq_true]
    exact ⟨_, rfl, rfl⟩

theorem keeps_refreshLine : Keeps Ed.core (refreshLine S U cfg) := by
  unfold refreshLine
  refine Keeps.bind (keeps_updateHint cfg) fun _ => ?_
  refine Keeps.bind (keeps_highlightCharStep cfg) fun _ => ?_
  exact Keeps.bind (Keeps.modify fun _ => rfl) fun _ => keeps_logRender _

theorem keeps_refreshLineWithMsg (msg : Option Text) : Keeps Ed.core (refreshLineWithMsg S U cfg msg) := by
  unfold refreshLineWithMsg
  refine Keeps.bind (Keeps.modify fun _ => rfl) fun _ => ?_
  refine Keeps.bind (keeps_highlightCharStep cfg) fun _ => ?_
  exact Keeps.bind (Keeps.modify fun _ => rfl) fun _ => keeps_logRender _

theorem keeps_refreshPromptAndLine (p : Text) : Keeps Ed.core (refreshPromptAndLine S U cfg p) := by
  unfold refreshPromptAndLine
  refine Keeps.bind (keeps_updateHint cfg) fun _ => ?_
  refine Keeps.bind (keeps_highlightCharStep cfg) fun _ => ?_
  exact Keeps.bind (Keeps.modify fun _ => rfl) fun _ => keeps_logRender _

theorem keeps_setRefreshLayout (p : Text) (d : Bool) : Keeps Ed.core (setRefreshLayout S U cfg p d) :=
  Keeps.modify fun _ => rfl

theorem keeps_moveCursor : Keeps Ed.core (moveCursor S U cfg) := by
  unfold moveCursor
  refine Keeps.bind Keeps.get fun s => ?_
  refine Keeps.ite (keeps_logRender _) ?_
  refine Keeps.bind (keeps_highlightCharStep cfg) fun hl => ?_
  dsimp only
  refine Keeps.ite ?_ ?_
  · exact Keeps.bind (keeps_setRefreshLayout S U cfg _ _) fun _ => keeps_logRender _
  · exact Keeps.bind (Keeps.modify fun _ => rfl) fun _ => keeps_logRender _

/-- the refresh family always returns -/
theorem highlightCharStep_returns (s : Ed) : ∃ b s', highlightCharStep cfg s = .ok (b, s') := by
  unfold highlightCharStep
  by_cases h1 : cfg.hasHelper = true
  · by_cases h2 : cfg.highlightChar s.line.buf s.line.pos = true
    · simp only [h1, h2, if_true]; exact ⟨_, _, rfl⟩
    · by_cases h3 : s.highlightChar = true
      · simp only [h1, h2, h3, if_true, if_false, Bool.false_eq_true]; exact ⟨_, _, rfl⟩
      · simp only [h1, h2, h3, if_true, if_false, Bool.false_eq_true]; exact ⟨_, _, rfl⟩
  · simp only [h1, if_false, Bool.false_eq_true]; exact ⟨_, _, rfl⟩

theorem refreshLineWithMsg_returns (msg : Option Text) (s : Ed) :
    ∃ s', refreshLineWithMsg S U cfg msg s = .ok ((), s') ∧ s'.core = s.core := by
  have hk := (keeps_refreshLineWithMsg S U cfg msg).h s
  unfold refreshLineWithMsg at hk ⊢
  simp only [EM.bind_apply, EM.modify, logRender] at hk ⊢
  obtain ⟨b, s1, h1⟩ := highlightCharStep_returns cfg { s with hint := none }
  rw [h1] at hk ⊢
  exact ⟨_, rfl, hk⟩

theorem moveCursor_returns (s : Ed) : ∃ s', moveCursor S U cfg s = .ok ((), s') ∧ s'.core = s.core := by
  have hk := (keeps_moveCursor S U cfg).h s
  suffices h : ∃ s', moveCursor S U cfg s = .ok ((), s') by
    obtain ⟨s', h⟩ := h
    rw [h] at hk
    exact ⟨s', h, hk⟩
  unfold moveCursor
  simp only [EM.bind_apply, EM.get]
  split
  · exact ⟨_, rfl⟩
  · obtain ⟨b, s1, h1⟩ := highlightCharStep_returns cfg s
    rw [EM.bind_apply, h1]
    cases b <;> exact ⟨_, rfl⟩

/-! ### frame lemmas: undo-group markers (they touch `changes` only) -/

theorem keeps_changesBegin : Keeps Ed.coreNC changesBegin := ⟨fun _ => rfl⟩
theorem keeps_changesEnd : Keeps Ed.coreNC changesEnd := ⟨fun _ => rfl⟩
theorem keeps_doingInsert : Keeps Ed.coreNC doingInsert :=
  Keeps.bind keeps_changesBegin fun _ => Keeps.pure _
theorem keeps_doneInserting : Keeps Ed.coreNC doneInserting :=
  Keeps.bind keeps_changesEnd fun _ => Keeps.pure _

theorem changesBegin_apply (s : Ed) :
    changesBegin s = .ok (s.changes.undos.length, { s with changes := s.changes.begin.1 }) := rfl
theorem changesEnd_apply (s : Ed) :
    changesEnd s = .ok (s.changes.end_.2, { s with changes := s.changes.end_.1 }) := rfl

theorem wp_changesBegin (Q : Nat → Ed → Prop) (E : Outcome → Ed → Prop) (s : Ed) :
    wp changesBegin Q E s ↔ Q s.changes.undos.length { s with changes := s.changes.begin.1 } := Iff.rfl
theorem wp_changesEnd (Q : Bool → Ed → Prop) (E : Outcome → Ed → Prop) (s : Ed) :
    wp changesEnd Q E s ↔ Q s.changes.end_.2 { s with changes := s.changes.end_.1 } := Iff.rfl
theorem wp_getLine (Q : LB → Ed → Prop) (E : Outcome → Ed → Prop) (s : Ed) :
    wp getLine Q E s ↔ Q s.line s := Iff.rfl
theorem wp_hasHint (Q : Bool → Ed → Prop) (E : Outcome → Ed → Prop) (s : Ed) :
    wp hasHint Q E s ↔ Q s.hint.isSome s := Iff.rfl
theorem wp_lineEmpty (Q : Bool → Ed → Prop) (E : Outcome → Ed → Prop) (s : Ed) :
    wp lineEmpty Q E s ↔ Q s.line.buf.isEmpty s := Iff.rfl
theorem wp_getHistIdx (Q : Nat → Ed → Prop) (E : Outcome → Ed → Prop) (s : Ed) :
    wp getHistIdx Q E s ↔ Q s.histIdx s := Iff.rfl
theorem wp_setHistIdx (i : Nat) (Q : Unit → Ed → Prop) (E : Outcome → Ed → Prop) (s : Ed) :
    wp (setHistIdx i) Q E s ↔ Q () { s with histIdx := i } := Iff.rfl
theorem wp_getPromptCol (Q : Nat → Ed → Prop) (E : Outcome → Ed → Prop) (s : Ed) :
    wp getPromptCol Q E s ↔ Q s.layoutPromptCol s := Iff.rfl

/-- without a helper `State::hint()` just clears the hint -/
theorem updateHint_nohelper (hh : cfg.hasHelper = false) (s : Ed) :
    updateHint cfg s = .ok ((), { s with hint := none }) := by
  simp [updateHint, hh]

/-- `updateHint` under `wp`, the exit branch with both of its causes: a helper is installed and
    its hinter is scripted to panic -/
theorem wp_updateHint' {Q : Unit → Ed → Prop} {E : Outcome → Ed → Prop} {s : Ed}
    (h : ∀ s', s'.core = s.core → Q () s')
    (he : ∀ s', s'.core = s.core → cfg.hasHelper = true → cfg.hinterPanicAt ≠ none → E .panic s') :
    wp (updateHint cfg) Q E s := by
  by_cases hh : cfg.hasHelper = true
  · rcases updateHint_outcome cfg s with ⟨s', h1, h2⟩ | ⟨s', h1, h2, h3⟩
    · exact wp_of_eq_ok h1 (h s' h2)
    · unfold wp; rw [h1]; exact he s' h2 hh h3
  · have hh' : cfg.hasHelper = false := by simpa using hh
    exact wp_of_eq_ok (updateHint_nohelper cfg hh' s) (h _ rfl)

theorem wp_highlightCharStep {Q : Bool → Ed → Prop} {E : Outcome → Ed → Prop} {s : Ed}
    (h : ∀ b s', s'.core = s.core → Q b s') : wp (highlightCharStep cfg) Q E s := by
  obtain ⟨b, s', h1⟩ := highlightCharStep_returns cfg s
  exact wp_of_eq_ok h1 (h b s' ((keeps_highlightCharStep cfg).ok h1))

theorem wp_setRefreshLayout (p : Text) (d : Bool) (Q : Unit → Ed → Prop) (E : Outcome → Ed → Prop) (s : Ed) :
    wp (setRefreshLayout S U cfg p d) Q E s ↔
      Q () { s with defaultPrompt := d, layoutPromptCol := promptColOf S U cfg p,
                    layoutCursor := cursorFor S U cfg (promptSizeOf S U cfg p) s } := Iff.rfl

theorem wp_logRender (f : Ed → RenderOp) (Q : Unit → Ed → Prop) (E : Outcome → Ed → Prop) (s : Ed) :
    wp (logRender f) Q E s ↔ Q () { s with render := f s :: s.render } := Iff.rfl

/-- `updateHint` under `wp`: it returns, or exits with the panic of a hinter scripted to panic -/
theorem wp_updateHint {Q : Unit → Ed → Prop} {E : Outcome → Ed → Prop} {s : Ed}
    (h : ∀ s', s'.core = s.core → Q () s')
    (he : ∀ s', s'.core = s.core → cfg.hinterPanicAt ≠ none → E .panic s') : wp (updateHint cfg) Q E s := by
  rcases updateHint_outcome cfg s with ⟨s', h1, h2⟩ | ⟨s', h1, h2, h3⟩
  · exact wp_of_eq_ok h1 (h s' h2)
  · unfold wp; rw [h1]; exact he s' h2 h3

/-- `refresh_line`: only display fields change; its only early exit is a panicking hinter -/
theorem wp_refreshLine {Q : Unit → Ed → Prop} {E : Outcome → Ed → Prop} {s : Ed}
    (h : ∀ s', s'.core = s.core → Q () s')
    (he : ∀ s', s'.core = s.core → cfg.hinterPanicAt ≠ none → E .panic s') : wp (refreshLine S U cfg) Q E s := by
  unfold refreshLine
  rw [wp_bind]
  refine wp_updateHint cfg (fun s1 hc1 => ?_) he
  simp only [wp_bind, wp_modify, logRender]
  obtain ⟨b, s2, h2⟩ := highlightCharStep_returns cfg s1
  refine wp_of_eq_ok h2 (h _ ?_)
  exact ((keeps_highlightCharStep cfg).ok h2).trans hc1

/-- the same for helpers that do not panic -/
theorem wp_refreshLine_np (hnp : cfg.hinterPanicAt = none) {Q : Unit → Ed → Prop} {E : Outcome → Ed → Prop} {s : Ed}
    (h : ∀ s', s'.core = s.core → Q () s') : wp (refreshLine S U cfg) Q E s :=
  wp_refreshLine S U cfg h fun _ _ hne => absurd hnp hne

theorem wp_refreshLineWithMsg {msg : Option Text} {Q : Unit → Ed → Prop} {E : Outcome → Ed → Prop} {s : Ed}
    (h : ∀ s', s'.core = s.core → Q () s') : wp (refreshLineWithMsg S U cfg msg) Q E s := by
  obtain ⟨s', h1, h2⟩ := refreshLineWithMsg_returns S U cfg msg s
  exact wp_of_eq_ok h1 (h s' h2)

theorem wp_refreshPromptAndLine {p : Text} {Q : Unit → Ed → Prop} {E : Outcome → Ed → Prop} {s : Ed}
    (h : ∀ s', s'.core = s.core → Q () s')
    (he : ∀ s', s'.core = s.core → cfg.hinterPanicAt ≠ none → E .panic s') :
    wp (refreshPromptAndLine S U cfg p) Q E s := by
  unfold refreshPromptAndLine
  rw [wp_bind]
  refine wp_updateHint cfg (fun s1 hc1 => ?_) he
  simp only [wp_bind, wp_modify, logRender]
  obtain ⟨b, s2, h2⟩ := highlightCharStep_returns cfg s1
  refine wp_of_eq_ok h2 (h _ ?_)
  exact ((keeps_highlightCharStep cfg).ok h2).trans hc1

theorem wp_moveCursor {Q : Unit → Ed → Prop} {E : Outcome → Ed → Prop} {s : Ed}
    (h : ∀ s', s'.core = s.core → Q () s') : wp (moveCursor S U cfg) Q E s := by
  obtain ⟨s', h1, h2⟩ := moveCursor_returns S U cfg s
  exact wp_of_eq_ok h1 (h s' h2)

/-! ### frame lemmas: small readers and input-state writers -/

theorem keeps_customBinding (keys : List KeyEvent) (n : Nat) (p : Bool) :
    Keeps Ed.core (customBinding cfg keys n p) := by
  constructor; intro s; unfold customBinding
  cases h : cfg.binds.find? (fun b => b.1 == keys) with
  | none => rfl
  | some b => rfl

theorem keeps_termBinding (k : KeyEvent) : Keeps Ed.core (termBinding k) := by
  constructor; intro s; unfold termBinding
  simp only []
  by_cases h : ((if k == ⟨.char 'D', 8⟩ then some Cmd.endOfFile
    else if k == ⟨.char 'C', 8⟩ then some .interrupt
    else if k == ⟨.char '\\', 8⟩ then some .interrupt
    else if k == ⟨.char 'Z', 8⟩ then some .suspend
    else none) == some Cmd.endOfFile && !s.line.buf.isEmpty) = true
  · rw [if_pos h]
  · rw [if_neg h]

theorem keeps_lastInsert : Keeps Ed.core lastInsert := ⟨fun _ => rfl⟩
theorem keeps_lineEmpty : Keeps Ed.core lineEmpty := ⟨fun _ => rfl⟩
theorem keeps_hasHint : Keeps Ed.core hasHint := ⟨fun _ => rfl⟩
theorem keeps_cursorAtEnd : Keeps Ed.core cursorAtEnd := ⟨fun _ => rfl⟩
theorem keeps_lastCharSearch : Keeps Ed.core lastCharSearch := ⟨fun _ => rfl⟩
theorem keeps_getLastCmd : Keeps Ed.core getLastCmd := ⟨fun _ => rfl⟩
theorem keeps_takeNumArgs : Keeps Ed.core takeNumArgs := ⟨fun _ => rfl⟩
theorem keeps_setInputMode (m : InputMode) : Keeps Ed.core (setInputMode m) := ⟨fun _ => rfl⟩
theorem keeps_setLastCmd (c : Cmd) : Keeps Ed.core (setLastCmd c) := ⟨fun _ => rfl⟩
theorem keeps_getLine : Keeps Ed.core getLine := ⟨fun _ => rfl⟩
theorem keeps_getHistIdx : Keeps Ed.core getHistIdx := ⟨fun _ => rfl⟩
theorem keeps_getPromptCol : Keeps Ed.core getPromptCol := ⟨fun _ => rfl⟩

theorem keeps_redoCmd (c : Cmd) (new : Option Nat) : Keeps Ed.core (redoCmd c new) :=
  Keeps.bind keeps_lastInsert fun _ => Keeps.liftP _

/-! ### `lb` / `lbQuiet` / `lbKill`: lifting a fact about an `LM` operation -/

theorem lb_ok {α : Type} {op : LM α} {s : Ed} {a : α} {l : LB} {ns : List Notif}
    (h : op s.line = .ok (a, l, ns)) :
    lb S U op s = .ok (a, { s with line := l, changes := s.changes.onNotifs S U.alnum ns }) := by
  unfold lb; rw [h]

theorem lb_error {α : Type} {op : LM α} {s : Ed} {e : Panic} (h : op s.line = .error e) :
    lb S U op s = .error (.panic, s) := by
  unfold lb; rw [h]

theorem lbQuiet_ok {α : Type} {op : LM α} {s : Ed} {a : α} {l : LB} {ns : List Notif}
    (h : op s.line = .ok (a, l, ns)) : lbQuiet op s = .ok (a, { s with line := l }) := by
  unfold lbQuiet; rw [h]

/-- an `LM` operation that returns lifts to a returning `lb` call -/
theorem wp_lb {α : Type} {op : LM α} {s : Ed} {Q : α → Ed → Prop} {E : Outcome → Ed → Prop}
    {a : α} {l : LB} {ns : List Notif} (h : op s.line = .ok (a, l, ns))
    (hq : Q a { s with line := l, changes := s.changes.onNotifs S U.alnum ns }) : wp (lb S U op) Q E s :=
  wp_of_eq_ok (lb_ok S U h) hq

theorem wp_lbQuiet {α : Type} {op : LM α} {s : Ed} {Q : α → Ed → Prop} {E : Outcome → Ed → Prop}
    {a : α} {l : LB} {ns : List Notif} (h : op s.line = .ok (a, l, ns))
    (hq : Q a { s with line := l }) : wp (lbQuiet op) Q E s :=
  wp_of_eq_ok (lbQuiet_ok h) hq

end

/-! ### the tactic: frame facts about `do` blocks, by structural descent -/

/-- closes / decomposes a goal `Keeps f m` where `f` is `Ed.core` or `Ed.coreNC` -/
macro "em_keeps_step" : tactic => `(tactic| first
  | intro _
  | with_reducible (first
    | exact Keeps.pure _
    | apply Keeps.bind
    | apply Keeps.bind'
    | apply Keeps.ite
    | assumption
    | exact Keeps.exit _
    | exact Keeps.liftP _
    | exact Keeps.get
    | exact Keeps.read _
    | exact keeps_nextKey _ | exact (keeps_nextKey _).nc
    | exact keeps_nextChar | exact keeps_nextChar.nc
    | exact keeps_waitForInput _ | exact (keeps_waitForInput _).nc
    | exact keeps_readPasted | exact keeps_readPasted.nc
    | exact keeps_refreshLine _ _ _ | exact (keeps_refreshLine _ _ _).nc
    | exact keeps_refreshLineWithMsg _ _ _ _ | exact (keeps_refreshLineWithMsg _ _ _ _).nc
    | exact keeps_refreshPromptAndLine _ _ _ _ | exact (keeps_refreshPromptAndLine _ _ _ _).nc
    | exact keeps_moveCursor _ _ _ | exact (keeps_moveCursor _ _ _).nc
    | exact keeps_highlightCharStep _ | exact (keeps_highlightCharStep _).nc
    | exact keeps_updateHint _ | exact (keeps_updateHint _).nc
    | exact keeps_setRefreshLayout _ _ _ _ _ | exact (keeps_setRefreshLayout _ _ _ _ _).nc
    | exact keeps_logRender _ | exact (keeps_logRender _).nc
    | exact keeps_customBinding _ _ _ _ | exact (keeps_customBinding _ _ _ _).nc
    | exact keeps_termBinding _ | exact (keeps_termBinding _).nc
    | exact keeps_lastInsert | exact keeps_lastInsert.nc
    | exact keeps_lineEmpty | exact keeps_lineEmpty.nc
    | exact keeps_hasHint | exact keeps_hasHint.nc
    | exact keeps_cursorAtEnd | exact keeps_cursorAtEnd.nc
    | exact keeps_lastCharSearch | exact keeps_lastCharSearch.nc
    | exact keeps_getLastCmd | exact keeps_getLastCmd.nc
    | exact keeps_takeNumArgs | exact keeps_takeNumArgs.nc
    | exact keeps_setInputMode _ | exact (keeps_setInputMode _).nc
    | exact keeps_setLastCmd _ | exact (keeps_setLastCmd _).nc
    | exact keeps_getLine | exact keeps_getLine.nc
    | exact keeps_getHistIdx | exact keeps_getHistIdx.nc
    | exact keeps_getPromptCol | exact keeps_getPromptCol.nc
    | exact keeps_redoCmd _ _ | exact (keeps_redoCmd _ _).nc
    | exact keeps_changesBegin | exact keeps_changesEnd
    | exact keeps_doingInsert | exact keeps_doneInserting)
  | ((with_reducible apply Keeps.modify) <;> (intro _; rfl))
  | split
  | dsimp only)

syntax "em_keeps" ("[" term,* "]")? : tactic
macro_rules
  | `(tactic| em_keeps) => `(tactic| repeat' em_keeps_step)
  | `(tactic| em_keeps [$ts,*]) =>
    `(tactic| repeat' (first | (with_reducible first $[| apply $ts]*) | em_keeps_step))

end Rl
