/-
  Bounds invariant of the kill ring (`src/kill_ring.rs`): the index addresses a slot whenever the
  ring is non-empty, the ring never outgrows its capacity, and `lastAction = kill` implies a slot to
  append to (when the capacity is not 0).  Under it `kill`, `yank`, `yank_pop` and the delete
  listener never hit the `slots[index]` panic.
-/
import Rl.KillRing
namespace Rl

structure RingOK (k : KillRing) : Prop where
  len : k.slots.length ≤ k.cap
  empty : k.slots = [] → k.index = 0
  idx : k.slots ≠ [] → k.index < k.slots.length
  kill : k.lastAction = .kill → k.cap = 0 ∨ k.slots ≠ []

theorem RingOK.new (n : Nat) : RingOK (KillRing.new n) :=
  ⟨Nat.zero_le _, fun _ => rfl, fun h => absurd rfl h, fun h => by cases h⟩

theorem RingOK.reset {k : KillRing} (h : RingOK k) : RingOK k.reset :=
  ⟨h.len, h.empty, h.idx, fun hh => by cases hh⟩

theorem RingOK.startKilling {k : KillRing} (h : RingOK k) : RingOK k.startKilling :=
  ⟨h.len, h.empty, h.idx, h.kill⟩

theorem RingOK.stopKilling {k : KillRing} (h : RingOK k) : RingOK k.stopKilling :=
  ⟨h.len, h.empty, h.idx, h.kill⟩

theorem RingOK.kill_ok {k : KillRing} (h : RingOK k) (t : Text) (d : KMode) :
    ∃ k', k.kill t d = .ok k' ∧ RingOK k' := by
  unfold KillRing.kill
  by_cases hla : (k.lastAction == KAction.kill) = true
  · rw [if_pos hla]
    by_cases hc : (k.cap == 0) = true
    · rw [if_pos hc]; exact ⟨k, rfl, h⟩
    · rw [if_neg hc]
      have hla' : k.lastAction = .kill := by simpa using hla
      have hne : k.slots ≠ [] := by
        rcases h.kill hla' with h0 | h1
        · simp [h0] at hc
        · exact h1
      have hi := h.idx hne
      have hg : k.slots[k.index]? = some k.slots[k.index] := by simp [hi]
      rw [hg]
      refine ⟨_, rfl, ?_, ?_, ?_, ?_⟩
      · simpa using h.len
      · intro he; simp at he; exact absurd he hne
      · intro _; simpa using hi
      · intro _; right; simpa using hne
  · rw [if_neg hla]
    by_cases hc : (k.cap == 0) = true
    · simp only [hc, if_true]
      have hc0 : k.cap = 0 := by simpa using hc
      exact ⟨_, rfl, h.len, h.empty, h.idx, fun _ => .inl hc0⟩
    · simp only [hc, Bool.false_eq_true, if_false]
      have hcap : k.cap ≠ 0 := by simpa using hc
      by_cases hemp : k.slots = []
      · have hi0 := h.empty hemp
        have hidx : (if (k.index == k.cap - 1) = true then 0 else if (!k.slots.isEmpty) = true then k.index + 1 else k.index) = 0 := by
          simp [hemp, hi0]
        rw [hidx]
        simp only [hemp, List.length_nil, beq_self_eq_true, if_true, List.nil_append]
        refine ⟨_, rfl, ?_, ?_, ?_, ?_⟩
        · simp; omega
        · intro he; cases he
        · intro _; simp
        · intro _; right; simp
      · have hi := h.idx hemp
        have hlen := h.len
        have hne : (!k.slots.isEmpty) = true := by simp [hemp]
        by_cases hw : (k.index == k.cap - 1) = true
        · simp only [hw, if_true]
          have hpos : 0 < k.slots.length := by omega
          have h0 : ((0 : Nat) == k.slots.length) = false := by simp; omega
          simp only [h0, Bool.false_eq_true, if_false, hpos, if_true]
          refine ⟨_, rfl, ?_, ?_, ?_, ?_⟩
          · simpa using hlen
          · intro he; simp at he; exact absurd he hemp
          · intro _; simpa using hpos
          · intro _; right; simpa using hemp
        · simp only [hw, Bool.false_eq_true, if_false, hne, if_true]
          have hw' : k.index ≠ k.cap - 1 := by simpa using hw
          by_cases heq : (k.index + 1 == k.slots.length) = true
          · simp only [heq, if_true]
            have heq' : k.index + 1 = k.slots.length := by simpa using heq
            refine ⟨_, rfl, ?_, ?_, ?_, ?_⟩
            · simp; omega
            · intro he; simp at he
            · intro _; simp; omega
            · intro _; right; simp
          · simp only [heq, Bool.false_eq_true, if_false]
            have heq' : k.index + 1 ≠ k.slots.length := by simpa using heq
            have hlt : k.index + 1 < k.slots.length := by omega
            simp only [hlt, if_true]
            refine ⟨_, rfl, ?_, ?_, ?_, ?_⟩
            · simpa using hlen
            · intro he; simp at he; exact absurd he hemp
            · intro _; simpa using hlt
            · intro _; right; simpa using hemp

theorem RingOK.onDelete_ok {k : KillRing} (h : RingOK k) (t : Text) (d : Direction) :
    ∃ k', k.onDelete t d = .ok k' ∧ RingOK k' := by
  unfold KillRing.onDelete
  split
  · exact ⟨k, rfl, h⟩
  · exact h.kill_ok t _

theorem RingOK.yank_ok {k : KillRing} (h : RingOK k) : ∃ k' t, k.yank = .ok (k', t) ∧ RingOK k' := by
  unfold KillRing.yank
  by_cases hemp : k.slots.isEmpty = true
  · rw [if_pos hemp]; exact ⟨k, none, rfl, h⟩
  · rw [if_neg hemp]
    have hne : k.slots ≠ [] := by simpa using hemp
    have hi := h.idx hne
    have hg : k.slots[k.index]? = some k.slots[k.index] := by simp [hi]
    rw [hg]
    exact ⟨_, _, rfl, h.len, h.empty, h.idx, fun hh => by cases hh⟩

theorem RingOK.yankCount {k : KillRing} (h : RingOK k) (n : Nat) : RingOK (k.yankCount n) := by
  unfold KillRing.yankCount
  split
  · exact ⟨h.len, h.empty, h.idx, fun hh => by cases hh⟩
  · exact h

theorem RingOK.yankPop_ok {k : KillRing} (h : RingOK k) : ∃ k' r, k.yankPop = .ok (k', r) ∧ RingOK k' := by
  unfold KillRing.yankPop
  split
  · rename_i size hla
    by_cases hemp : k.slots.isEmpty = true
    · rw [if_pos hemp]; exact ⟨k, none, rfl, h⟩
    · rw [if_neg hemp]
      have hne : k.slots ≠ [] := by simpa using hemp
      have hi := h.idx hne
      have hlt : (if (k.index == 0) = true then k.slots.length - 1 else k.index - 1) < k.slots.length := by
        split <;> omega
      have hg : k.slots[if (k.index == 0) = true then k.slots.length - 1 else k.index - 1]? =
          some (k.slots[if (k.index == 0) = true then k.slots.length - 1 else k.index - 1]'hlt) := by
        simp [hlt]
      simp only [hg]
      exact ⟨_, _, rfl, h.len, fun he => absurd he hne, fun _ => hlt, fun hh => by cases hh⟩
  · exact ⟨k, none, rfl, h⟩

end Rl
