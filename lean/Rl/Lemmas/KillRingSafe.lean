/-
  Bounds invariant of the kill ring (`src/kill_ring.rs`): the index addresses a slot whenever the
  ring is non-empty, the ring never outgrows its capacity, and `lastAction = kill` implies a slot to
  append to (when the capacity is not 0).  Under it `kill`, `yank`, `yank_pop` and the delete
  listener never hit the `slots[index]` panic.
-/
import Rl.KillRing
import Rl.Lemmas.KillRing
namespace Rl

structure RingOK (k : KillRing) : Prop where
  len : k.slots.length ≤ k.cap
  empty : k.slots = [] → k.index = 0
  idx : k.slots ≠ [] → k.index < k.slots.length
  kill : k.lastAction = .kill → k.cap = 0 ∨ k.slots ≠ []
  /-- the slot yank reads (D33 repair: the yank-pop position is kept apart from `index`) -/
  yidx : k.slots ≠ [] → k.yankIndex < k.slots.length
  /-- during a kill sequence yank reads the slot being written -/
  kyidx : k.lastAction = .kill → 0 < k.cap → k.yankIndex = k.index

/-- `RingOK` is the invariant `KillRing.WF` of `Rl/Lemmas/KillRing.lean` in the shape the editor
    proofs use; the per-operation facts below are the `wf_…` lemmas carried over -/
theorem RingOK.toWF {k : KillRing} (h : RingOK k) : KillRing.WF k :=
  ⟨h.len, h.idx, h.empty, fun hk hc => by
    rcases h.kill hk with h0 | h1
    · omega
    · exact h1, h.yidx, h.kyidx⟩

theorem KillRing.WF.toRingOK {k : KillRing} (h : KillRing.WF k) : RingOK k :=
  ⟨h.len_le, h.idx_zero, h.idx_lt,
   fun hk => by
    by_cases hc : k.cap = 0
    · exact .inl hc
    · exact .inr (h.kill_ne hk (by omega)), h.yidx_lt, h.kill_yidx⟩

theorem RingOK.new (n : Nat) : RingOK (KillRing.new n) := (KillRing.wf_new n).toRingOK

theorem RingOK.reset {k : KillRing} (h : RingOK k) : RingOK k.reset := (KillRing.wf_reset h.toWF).toRingOK

theorem RingOK.startKilling {k : KillRing} (h : RingOK k) : RingOK k.startKilling :=
  (KillRing.wf_startKilling h.toWF).toRingOK

theorem RingOK.stopKilling {k : KillRing} (h : RingOK k) : RingOK k.stopKilling :=
  (KillRing.wf_stopKilling h.toWF).toRingOK

theorem RingOK.kill_ok {k : KillRing} (h : RingOK k) (t : Text) (d : KMode) :
    ∃ k', k.kill t d = .ok k' ∧ RingOK k' := by
  obtain ⟨k', he, hw, _⟩ := KillRing.wf_kill h.toWF t d
  exact ⟨k', he, hw.toRingOK⟩

theorem RingOK.onDelete_ok {k : KillRing} (h : RingOK k) (t : Text) (d : Direction) :
    ∃ k', k.onDelete t d = .ok k' ∧ RingOK k' := by
  obtain ⟨k', he, hw, _⟩ := KillRing.wf_onDelete h.toWF t d
  exact ⟨k', he, hw.toRingOK⟩

theorem RingOK.yank_ok {k : KillRing} (h : RingOK k) : ∃ k' t, k.yank = .ok (k', t) ∧ RingOK k' := by
  obtain ⟨k', r, he, hw, _⟩ := KillRing.wf_yank h.toWF
  exact ⟨k', r, he, hw.toRingOK⟩

theorem RingOK.yankCount {k : KillRing} (h : RingOK k) (n : Nat) : RingOK (k.yankCount n) := by
  unfold KillRing.yankCount
  split
  · exact ⟨h.len, h.empty, h.idx, (fun hh => by cases hh), h.yidx, (fun hh => by cases hh)⟩
  · exact h

theorem RingOK.yankPop_ok {k : KillRing} (h : RingOK k) : ∃ k' r, k.yankPop = .ok (k', r) ∧ RingOK k' := by
  obtain ⟨k', r, he, hw, _⟩ := KillRing.wf_yankPop h.toWF
  exact ⟨k', r, he, hw.toRingOK⟩

end Rl
