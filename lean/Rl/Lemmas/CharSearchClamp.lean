/-
  Character searches with a count larger than the number of occurrences: `search_char_pos` answers
  `….take(n).last()`, so the count is clamped to the number of occurrences in the region searched.
-/
import Rl.Lemmas.CharSearch
namespace Rl
open Rl.Spec

/-- number of occurrences of the searched character in the region a character search scans: after the
    cluster under the cursor (`f`, `t`), before the cursor (`F`, `T`) -/
def csTotal (S : Segmenter) (buf : Text) (pos : Nat) : CharSearch → Nat
  | .forward c | .forwardBefore c =>
    match splitAt? buf pos with
    | none => 0
    | some (_, suf) =>
      match (S.seg suf).head? with
      | none => 0
      | some g =>
        match splitAt? buf (pos + blen g) with
        | none => 0
        | some (_, rest) => (occ c rest).length
  | .backward c | .backwardAfter c =>
    match splitAt? buf pos with
    | none => 0
    | some (pre, _) => (occ c pre).length

theorem cs_seg_nil (S : Segmenter) : S.seg [] = [] := by
  have := S.flatten_eq []
  cases hseg : S.seg [] with
  | nil => rfl
  | cons g gs =>
    have hg := S.ne_nil [] g (by rw [hseg]; simp)
    rw [hseg] at this
    simp at this
    exact absurd this.1 hg

/-- the model's answer depends on the count only through `min n (number of occurrences)` -/
theorem searchCharPos_clamp (S : Segmenter) (lb : LB) (cs : CharSearch) (n : Nat) (h : WF lb) :
    LB.searchCharPos S lb cs n = LB.searchCharPos S lb cs (min n (csTotal S lb.buf lb.pos cs)) := by
  obtain ⟨x, s, hb, hp⟩ := h.split
  have hsp : splitAtByte lb.buf lb.pos = some (x, s) := by rw [hb, hp]; exact splitAtByte_append x s
  have hst : sliceTo lb.buf lb.pos = .ok x := by rw [hb, hp]; exact sliceTo_mid x s
  have hsf : sliceFrom lb.buf lb.pos = .ok s := by rw [hb, hp]; exact sliceFrom_mid x s
  have bwd : ∀ c, (occ c x).reverse.take (min n (occ c x).length) = (occ c x).reverse.take n := by
    intro c
    have := List.take_eq_take_min (l := (occ c x).reverse) (i := n)
    simp
  have fwd : ∀ (c : Char) (r : Text), (occ c r).take (min n (occ c r).length) = (occ c r).take n := by
    intro c r
    exact (List.take_eq_take_min (l := occ c r) (i := n)).symm
  have fwdcase : ∀ c (cs : CharSearch), (cs = .forward c ∨ cs = .forwardBefore c) →
      LB.searchCharPos S lb cs n = LB.searchCharPos S lb cs (min n (csTotal S lb.buf lb.pos cs)) := by
    intro c cs hcs
    by_cases hs : s = []
    · subst hs
      have he : (lb.pos == lb.len) = true := by simp [LB.len, hb, hp]
      rcases hcs with rfl | rfl <;>
        simp [LB.searchCharPos, LB.graphemeAtCursor, he, bind, Except.bind, pure, Except.pure]
    · obtain ⟨g, r, hg, hgr, hgne⟩ := seg_head S hs
      subst hgr
      have hgp := blen_pos_of_ne_nil hgne
      have he : (lb.pos == lb.len) = false := by simp [LB.len, hb, hp]; omega
      have hsh : sliceFrom lb.buf (lb.pos + blen g) = .ok r := by
        rw [hb, hp]
        have := sliceFrom_mid (x ++ g) r
        simpa using this
      have hsh2 : splitAtByte lb.buf (lb.pos + blen g) = some (x ++ g, r) := by
        rw [hb, hp]
        have := splitAtByte_append (x ++ g) r
        simpa using this
      rcases hcs with rfl | rfl <;>
        simp only [LB.searchCharPos, LB.graphemeAtCursor, csTotal, splitAt?, hsp, hg, hsh2, he, hsf, hsh, fwd,
          bind, Except.bind, pure, Except.pure, Bool.false_eq_true, if_false]
  cases cs with
  | forward c => exact fwdcase c _ (Or.inl rfl)
  | forwardBefore c => exact fwdcase c _ (Or.inr rfl)
  | backward c =>
    simp only [LB.searchCharPos, csTotal, splitAt?, hsp, hst, bind, Except.bind, bwd]
  | backwardAfter c =>
    simp only [LB.searchCharPos, csTotal, splitAt?, hsp, hst, bind, Except.bind, bwd]

/-- nothing to find: the model does not move -/
theorem searchCharPos_none_of_total_zero (S : Segmenter) (lb : LB) (cs : CharSearch) (n : Nat) (h : WF lb)
    (h0 : csTotal S lb.buf lb.pos cs = 0) : LB.searchCharPos S lb cs n = .ok none := by
  rw [searchCharPos_clamp S lb cs n h, h0, Nat.min_zero]
  obtain ⟨x, s, hb, hp⟩ := h.split
  have hst : sliceTo lb.buf lb.pos = .ok x := by rw [hb, hp]; exact sliceTo_mid x s
  have hsf : sliceFrom lb.buf lb.pos = .ok s := by rw [hb, hp]; exact sliceFrom_mid x s
  cases cs with
  | backward c => simp [LB.searchCharPos, hst, bind, Except.bind, pure, Except.pure]
  | backwardAfter c => simp [LB.searchCharPos, hst, bind, Except.bind, pure, Except.pure]
  | forward c =>
    by_cases hs : s = []
    · subst hs
      have he : (lb.pos == lb.len) = true := by simp [LB.len, hb, hp]
      simp [LB.searchCharPos, LB.graphemeAtCursor, he, bind, Except.bind, pure, Except.pure]
    · obtain ⟨g, r, hg, hgr, hgne⟩ := seg_head S hs
      subst hgr
      have hgp := blen_pos_of_ne_nil hgne
      have he : (lb.pos == lb.len) = false := by simp [LB.len, hb, hp]; omega
      have hsh : sliceFrom lb.buf (lb.pos + blen g) = .ok r := by
        rw [hb, hp]
        have := sliceFrom_mid (x ++ g) r
        simpa using this
      by_cases hlt : lb.pos + blen g < lb.len <;>
        simp [LB.searchCharPos, LB.graphemeAtCursor, he, hsf, hg, hlt, hsh, bind, Except.bind, pure, Except.pure]
  | forwardBefore c =>
    by_cases hs : s = []
    · subst hs
      have he : (lb.pos == lb.len) = true := by simp [LB.len, hb, hp]
      simp [LB.searchCharPos, LB.graphemeAtCursor, he, bind, Except.bind, pure, Except.pure]
    · obtain ⟨g, r, hg, hgr, hgne⟩ := seg_head S hs
      subst hgr
      have hgp := blen_pos_of_ne_nil hgne
      have he : (lb.pos == lb.len) = false := by simp [LB.len, hb, hp]; omega
      have hsh : sliceFrom lb.buf (lb.pos + blen g) = .ok r := by
        rw [hb, hp]
        have := sliceFrom_mid (x ++ g) r
        simpa using this
      by_cases hlt : lb.pos + blen g < lb.len <;>
        simp [LB.searchCharPos, LB.graphemeAtCursor, he, hsf, hg, hlt, hsh, bind, Except.bind, pure, Except.pure]

/-- `f`: the declarative target exists exactly for counts up to the number of occurrences -/
theorem cs_occFwd_isSome (S : Segmenter) (lb : LB) (c : Char) (m : Nat) (h : WF lb) (hm : m ≠ 0) :
    (occFwd S lb.buf lb.pos c m).isSome = decide (m ≤ csTotal S lb.buf lb.pos (.forward c)) := by
  obtain ⟨x, s, hb, hp⟩ := h.split
  have hsp : splitAtByte lb.buf lb.pos = some (x, s) := by rw [hb, hp]; exact splitAtByte_append x s
  by_cases hs : s = []
  · subst hs
    simp [occFwd, csTotal, splitAt?, hsp, cs_seg_nil, bind, Option.bind]
    omega
  · obtain ⟨g, r, hg, hgr, hgne⟩ := seg_head S hs
    subst hgr
    have hsh2 : splitAtByte lb.buf (lb.pos + blen g) = some (x ++ g, r) := by
      rw [hb, hp]
      have := splitAtByte_append (x ++ g) r
      simpa using this
    simp only [occFwd, csTotal, splitAt?, hsp, hg, hsh2, bind, Option.bind, List.getElem?_map]
    cases ho : (occ c r)[m - 1]? with
    | none =>
      have := List.getElem?_eq_none_iff.mp ho
      simp
      omega
    | some p =>
      have := (List.getElem?_eq_some_iff.mp ho).1
      simp
      omega

/-- `F`: likewise -/
theorem cs_occBwd_isSome (S : Segmenter) (lb : LB) (c : Char) (m : Nat) (h : WF lb) (hm : m ≠ 0) :
    (occBwd lb.buf lb.pos c m).isSome = decide (m ≤ csTotal S lb.buf lb.pos (.backward c)) := by
  obtain ⟨x, s, hb, hp⟩ := h.split
  have hsp : splitAtByte lb.buf lb.pos = some (x, s) := by rw [hb, hp]; exact splitAtByte_append x s
  simp only [occBwd, csTotal, splitAt?, hsp, bind, Option.bind]
  cases ho : (occ c x).reverse[m - 1]? with
  | none =>
    have := List.getElem?_eq_none_iff.mp ho
    simp at this ⊢
    omega
  | some p =>
    have := (List.getElem?_eq_some_iff.mp ho).1
    simp at this ⊢
    omega

/-- for `f` / `F` the declarative target exists exactly for counts `1 … number of occurrences` -/
theorem cs_plain_isSome (S : Segmenter) (lb : LB) (cs : CharSearch) (c : Char)
    (hcs : cs = .forward c ∨ cs = .backward c) (m : Nat) (h : WF lb) (hm : m ≠ 0) :
    (charSearchTarget S lb.buf lb.pos cs m).isSome = decide (m ≤ csTotal S lb.buf lb.pos cs) := by
  rcases hcs with rfl | rfl
  · exact cs_occFwd_isSome S lb c m h hm
  · exact cs_occBwd_isSome S lb c m h hm

/-- no occurrence in the region searched: no declarative target, whatever the kind of search -/
theorem cs_target_none_of_total_zero (S : Segmenter) (lb : LB) (cs : CharSearch) (m : Nat) (h : WF lb)
    (hm : m ≠ 0) (h0 : csTotal S lb.buf lb.pos cs = 0) : charSearchTarget S lb.buf lb.pos cs m = none := by
  have e1 : ∀ c, csTotal S lb.buf lb.pos (.forwardBefore c) = csTotal S lb.buf lb.pos (.forward c) := fun _ => rfl
  have e2 : ∀ c, csTotal S lb.buf lb.pos (.backwardAfter c) = csTotal S lb.buf lb.pos (.backward c) := fun _ => rfl
  have f : ∀ c, csTotal S lb.buf lb.pos (.forward c) = 0 → occFwd S lb.buf lb.pos c m = none := by
    intro c hc
    have := cs_occFwd_isSome S lb c m h hm
    rw [hc] at this
    cases ho : occFwd S lb.buf lb.pos c m with
    | none => rfl
    | some t => rw [ho] at this; simp at this; exact absurd this hm
  have b : ∀ c, csTotal S lb.buf lb.pos (.backward c) = 0 → occBwd lb.buf lb.pos c m = none := by
    intro c hc
    have := cs_occBwd_isSome S lb c m h hm
    rw [hc] at this
    cases ho : occBwd lb.buf lb.pos c m with
    | none => rfl
    | some t => rw [ho] at this; simp at this; exact absurd this hm
  cases cs with
  | forward c => exact f c h0
  | backward c => exact b c h0
  | forwardBefore c => simp [charSearchTarget, f c (by rw [← e1]; exact h0), bind, Option.bind]
  | backwardAfter c => simp [charSearchTarget, b c (by rw [← e2]; exact h0), bind, Option.bind]

end Rl
