/-
  The loop of `emacs_digit_argument` on an arbitrary sequence of digit keys: which key ends it and
  which pending argument it leaves (helper lemmas for `C01_numeric_argument_keys`).
-/
import Rl.Editor
import Rl.Lemmas.EditorM
import Rl.Lemmas.EditorFrame
import Rl.Lemmas.Keymap
namespace Rl
open EM

/-- the digit a key contributes to a numeric argument in emacs mode (`0`–`9`, plain or with Meta) -/
def argDigit (k : KeyEvent) : Option Nat :=
  match k.code with
  | .char d => if isDigit d && (k.mods == 0 || k.mods == Mods.alt) then some (d.toNat - '0'.toNat) else none
  | _ => none

/-- keys the argument loop swallows: digits and `-`, plain or with Meta -/
def isArgKey (k : KeyEvent) : Bool :=
  match k.code with
  | .char d => (isDigit d || d == '-') && (k.mods == 0 || k.mods == Mods.alt)
  | _ => false

/-- `ReadsArg i ds k i'`: decoding the terminal input `i` key by key (`next_key(true)`) yields keys
    that are the digits `ds`, then the key `k`, which is neither a digit nor `-`; `i'` is the input
    left after `k`. -/
inductive ReadsArg : Input → List Nat → KeyEvent → Input → Prop
  | done {i i' : Input} {k : KeyEvent} :
      i.nextKey true = .ok (k, i') → isArgKey k = false → ReadsArg i [] k i'
  | digit {i i1 i' : Input} {k k' : KeyEvent} {n : Nat} {ns : List Nat} :
      i.nextKey true = .ok (k, i1) → argDigit k = some n → ReadsArg i1 ns k' i' → ReadsArg i (n :: ns) k' i'

section
variable (S : Segmenter) (U : UData) (cfg : EdCfg)

/-- what the argument loop reads and writes besides the display: decoder state and terminal input -/
def Ed.ki (s : Ed) : InputState × Input := (s.inp, s.input)

theorem keeps_ki_highlightCharStep : Keeps Ed.ki (highlightCharStep cfg) := by
  constructor
  intro s
  unfold highlightCharStep
  by_cases h1 : cfg.hasHelper = true
  · by_cases h2 : cfg.highlightChar s.line.buf s.line.pos = true
    · simp only [h1, h2, if_true]; rfl
    · by_cases h3 : s.highlightChar = true
      · simp only [h1, h2, h3, if_true, if_false, Bool.false_eq_true]; rfl
      · simp only [h1, h2, h3, if_true, if_false, Bool.false_eq_true]
  · simp only [h1, if_false, Bool.false_eq_true]

theorem keeps_ki_updateHint : Keeps Ed.ki (updateHint cfg) := by
  constructor
  intro s
  unfold updateHint
  by_cases h1 : cfg.hasHelper = true
  · by_cases h2 : (cfg.hinterPanicAt == some (cfg.hintCallsBase + (s.hintCalls + 1))) = true
    · simp only [h1, h2, if_true]; rfl
    · simp only [h1, h2, if_true, if_false, Bool.false_eq_true]; rfl
  · simp only [h1, if_false, Bool.false_eq_true]; rfl

theorem keeps_ki_refreshLine : Keeps Ed.ki (refreshLine S U cfg) := by
  unfold refreshLine
  refine Keeps.bind (keeps_ki_updateHint cfg) fun _ => ?_
  refine Keeps.bind (keeps_ki_highlightCharStep cfg) fun _ => ?_
  exact Keeps.bind (Keeps.modify fun _ => rfl) fun _ => Keeps.modify fun _ => rfl

theorem keeps_ki_refreshPromptAndLine (p : Text) : Keeps Ed.ki (refreshPromptAndLine S U cfg p) := by
  unfold refreshPromptAndLine
  refine Keeps.bind (keeps_ki_updateHint cfg) fun _ => ?_
  refine Keeps.bind (keeps_ki_highlightCharStep cfg) fun _ => ?_
  exact Keeps.bind (Keeps.modify fun _ => rfl) fun _ => Keeps.modify fun _ => rfl

theorem refreshPromptAndLine_frame (hnp : cfg.hinterPanicAt = none) (p : Text) (s : Ed) :
    ∃ s', refreshPromptAndLine S U cfg p s = .ok ((), s') ∧ s'.inp = s.inp ∧ s'.input = s.input := by
  have hw := wp_refreshPromptAndLine S U cfg (p := p) (Q := fun _ _ => True) (E := fun _ _ => False) (s := s)
    (fun _ _ => trivial) (fun _ _ hne => absurd hnp hne)
  obtain ⟨_, s', h, _⟩ := returns_iff_wp.mpr hw
  have hk := (keeps_ki_refreshPromptAndLine S U cfg p).ok h
  exact ⟨s', h, congrArg Prod.fst hk, congrArg Prod.snd hk⟩

theorem refreshLine_frame (hnp : cfg.hinterPanicAt = none) (s : Ed) :
    ∃ s', refreshLine S U cfg s = .ok ((), s') ∧ s'.inp = s.inp ∧ s'.input = s.input := by
  have hw := wp_refreshLine_np S U cfg hnp (Q := fun _ _ => True) (E := fun _ _ => False) (s := s) (fun _ _ => trivial)
  obtain ⟨_, s', h, _⟩ := returns_iff_wp.mpr hw
  have hk := (keeps_ki_refreshLine S U cfg).ok h
  exact ⟨s', h, congrArg Prod.fst hk, congrArg Prod.snd hk⟩

theorem nextKey_of_input {sea : Bool} {s : Ed} {k : KeyEvent} {i' : Input}
    (h : s.input.nextKey sea = .ok (k, i')) : nextKey sea s = .ok (k, { s with input := i' }) := by
  unfold nextKey; rw [h]

/-- the argument loop on digits `ds` followed by the key `k` -/
theorem emacsDigitLoop_reads (hnp : cfg.hinterPanicAt = none) (neg : Bool)
    {i i' : Input} {ds : List Nat} {k : KeyEvent} (hr : ReadsArg i ds k i') :
    ∀ (fuel : Nat) (mag : Option Nat) (s : Ed), s.input = i → ds.length < fuel →
      ∃ s1, emacsDigitLoop S U cfg neg fuel mag s = .ok (k, s1) ∧
        s1.inp = { s.inp with numArgs := argOf neg (ds.foldl digitAccum mag) } ∧ s1.input = i' := by
  induction hr with
  | @done i i' k hk hna =>
    intro fuel mag s hi hf
    obtain ⟨f, rfl⟩ : ∃ f, fuel = f + 1 := ⟨fuel - 1, by simp at hf; omega⟩
    obtain ⟨s2, h2, h2a, h2b⟩ := refreshPromptAndLine_frame S U cfg hnp (argPrompt (argOf neg mag))
      { s with inp := { s.inp with numArgs := argOf neg mag } }
    have hk2 : nextKey true s2 = .ok (k, { s2 with input := i' }) :=
      nextKey_of_input (by rw [h2b]; simpa [hi] using hk)
    obtain ⟨s3, h3, h3a, h3b⟩ := refreshLine_frame S U cfg hnp { s2 with input := i' }
    refine ⟨s3, ?_, by rw [h3a]; simpa using h2a, by rw [h3b]⟩
    unfold emacsDigitLoop
    simp only [EM.bind_apply, EM.modify, h2, hk2]
    unfold isArgKey at hna
    cases hc : k.code <;> simp only [hc] at hna ⊢ <;> try (simp only [EM.bind_apply, h3, EM.pure_apply])
    rename_i d
    by_cases hd : isDigit d = true
    · simp only [hd, Bool.true_or, Bool.true_and] at hna
      simp only [hd, hna, Bool.and_false, Bool.false_eq_true, if_false, Bool.true_and, EM.bind_apply, h3, EM.pure_apply]
    · by_cases hm : (d == '-') = true
      · simp only [hm, Bool.or_true, Bool.true_and] at hna
        simp only [hd, hm, hna, Bool.and_false, Bool.false_and, Bool.false_eq_true, if_false, Bool.true_and,
          EM.bind_apply, h3, EM.pure_apply]
      · simp only [hd, hm, Bool.false_and, Bool.false_eq_true, if_false, EM.bind_apply, h3, EM.pure_apply]
  | @digit i i1 i' k k' n ns hk hd _ ih =>
    intro fuel mag s hi hf
    obtain ⟨f, rfl⟩ : ∃ f, fuel = f + 1 := ⟨fuel - 1, by simp at hf; omega⟩
    obtain ⟨s2, h2, h2a, h2b⟩ := refreshPromptAndLine_frame S U cfg hnp (argPrompt (argOf neg mag))
      { s with inp := { s.inp with numArgs := argOf neg mag } }
    have hk2 : nextKey true s2 = .ok (k, { s2 with input := i1 }) :=
      nextKey_of_input (by rw [h2b]; simpa [hi] using hk)
    obtain ⟨s1, h1, h1a, h1b⟩ := ih f (digitAccum mag n) { s2 with input := i1 } rfl (by simp at hf; omega)
    refine ⟨s1, ?_, ?_, h1b⟩
    · unfold emacsDigitLoop
      simp only [EM.bind_apply, EM.modify, h2, hk2]
      unfold argDigit at hd
      cases hc : k.code <;> simp only [hc] at hd <;> try (cases hd; done)
      rename_i d
      by_cases hdd : (isDigit d && (k.mods == 0 || k.mods == Mods.alt)) = true
      · simp only [hdd, if_true, Option.some.injEq] at hd
        simp only [hdd, if_true, hd]
        exact h1
      · simp only [hdd, Bool.false_eq_true, if_false] at hd
        cases hd
    · rw [h1a, List.foldl_cons]
      simp only [h2a]
end
end Rl

namespace Rl
open EM

theorem ReadsArg.term_not_arg {i i' : Input} {ds : List Nat} {k : KeyEvent} (h : ReadsArg i ds k i') :
    isArgKey k = false := by
  induction h with
  | done _ h => exact h
  | digit _ _ _ ih => exact ih

theorem EM.bind_congr_ok {α β : Type} {m1 m2 : EM α} {f : α → EM β} {s s1 : Ed} {a : α}
    (h1 : m1 s = .ok (a, s1)) (h2 : m2 s1 = .ok (a, s1)) : (m1 >>= f) s = (m2 >>= f) s1 := by
  rw [EM.bind_apply, EM.bind_apply, h1, h2]

theorem digitAccum_fold_start (v : Nat) (ds : List Nat) :
    ds.foldl digitAccum (some v) = (v :: ds).foldl digitAccum none := by
  simp [List.foldl_cons, digitAccum]

/-- all digits of the argument `M-d0 d1 … dn` (`M--` contributes the sign only) -/
def argDigits (d0 : Char) (ds : List Nat) : List Nat := if d0 == '-' then ds else (d0.toNat - '0'.toNat) :: ds

section
variable (S : Segmenter) (U : UData) (cfg : EdCfg)

/-- `M-d0` followed by the digits `ds` and the key `k`: `emacs` continues as for `k` alone, with the
    typed argument pending -/
theorem emacs_arg_keys (hnp : cfg.hinterPanicAt = none) (fuel : Nat) (d0 : Char)
    (hd0 : (d0 == '-' || isDigit d0) = true) (s : Ed) (ds : List Nat) (k : KeyEvent) (i' : Input)
    (hr : ReadsArg s.input ds k i') (hf : ds.length < fuel) :
    ∃ s1, s1.core = s.core ∧ s1.input = i' ∧
      s1.inp = { s.inp with numArgs := argOf (d0 == '-') ((argDigits d0 ds).foldl digitAccum none) } ∧
      emacs S U cfg fuel ⟨.char d0, Mods.alt⟩ s = emacs S U cfg fuel k s1 := by
  obtain ⟨s1, h1, h1a, h1b⟩ := emacsDigitLoop_reads S U cfg hnp (d0 == '-') hr fuel
    (if d0 == '-' then none else some (d0.toNat - '0'.toNat)) s rfl hf
  have hcore := (keeps_emacsDigitLoop S U cfg (d0 == '-') fuel _).ok h1
  refine ⟨s1, hcore, h1b, ?_, ?_⟩
  · rw [h1a]
    by_cases hm : (d0 == '-') = true
    · simp only [argDigits, hm, if_true]
    · simp only [argDigits, hm, Bool.false_eq_true, if_false, digitAccum_fold_start]
  · have hna := hr.term_not_arg
    unfold emacs
    unfold isArgKey at hna
    cases hc : k.code
    case char d =>
      simp only [hc] at hna
      have hcond : (k.mods == Mods.alt && (d == '-' || isDigit d)) = false := by
        cases h1 : isDigit d <;> cases h2 : (d == '-') <;> cases h3 : (k.mods == Mods.alt) <;> simp_all
      simp only [beq_self_eq_true, Bool.true_and, hd0, if_true, hcond, Bool.false_eq_true, if_false]
      exact EM.bind_congr_ok h1 rfl
    all_goals
      simp only [beq_self_eq_true, Bool.true_and, hd0, if_true]
      exact EM.bind_congr_ok h1 rfl
end
end Rl
