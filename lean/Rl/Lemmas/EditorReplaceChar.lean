/-
  C17: `ReplaceChar` (vi `r`).  `edit_replace_char` deletes `n` clusters and converts the number of
  clusters of the deleted text to a `RepeatCount` (`try_from(..).unwrap()`).  For a stable segmenter
  the deleted text has at most `n` clusters, so the conversion cannot fail when `n ≤ 65535` (counts are
  `u16` in the code).
-/
import Rl.Lemmas.EditorRead
import Rl.Lemmas.CharSearch
import Rl.Lemmas.Motion
import Rl.Lemmas.Undo
namespace Rl
open EM Rl.Spec

section
variable (S : Segmenter) (U : UData) (cfg : EdCfg)

/-- `delete(n)`: total, cursor valid, and the removed text has at most `n` clusters -/
theorem delete_count (hS : S.Stable) (lb : LB) (n : Nat) (h : WF lb) :
    ∃ r lb' ns, LB.delete S U n lb = .ok (r, lb', ns) ∧ WF lb' ∧
      ∀ chars, r = some chars → (S.seg chars).length ≤ n := by
  obtain ⟨r0, hr0, hp0⟩ := nextPos_ok S lb n h
  unfold LB.delete
  simp only [LM.bind_apply, LM.ro, hr0]
  cases r0 with
  | none => exact ⟨none, lb, [], rfl, h, fun _ hc => by cases hc⟩
  | some p =>
    obtain ⟨hb, hlt⟩ := hp0 p rfl
    obtain ⟨x, y, z, hd, hbuf, hx, hy⟩ := drain_ok .forward h hb (Nat.le_of_lt hlt)
    refine ⟨some y, { lb with buf := x ++ z }, [.del lb.pos y .forward], ?_, ?_, ?_⟩
    · simp [LM.bind_apply, LM.get, hd]
    · show IsBoundary (x ++ z) lb.pos
      rw [hx]; exact isBoundary_mid x z
    · intro chars hc
      cases hc
      -- `p` is the declarative target: the end of the first `min n k` clusters of the text after the cursor
      have hne : lb.pos ≠ lb.len := by
        intro he
        have : p ≤ lb.len := hb.le_len
        omega
      have hn0 : n ≠ 0 := by
        intro h0; subst h0
        unfold LB.nextPos at hr0
        have hne' : (lb.pos == lb.len) = false := by simpa using hne
        simp [hne', bind, Except.bind, pure, Except.pure] at hr0
        split at hr0 <;> simp at hr0
      have ht := nextPos_eq_target S lb n h hne hn0
      rw [hr0] at ht
      have hsp : splitAtByte lb.buf lb.pos = some (x, y ++ z) := by
        rw [hbuf, hx, List.append_assoc]; exact splitAtByte_append x (y ++ z)
      unfold charTargetFwd splitAt? at ht
      simp only [hsp, Option.bind, bind, pure] at ht
      have hp : p = lb.pos + offOf (S.seg (y ++ z)) (min n (S.seg (y ++ z)).length) := by
        cases ht; rfl
      -- the first clusters spell exactly `y`
      have hfl : ((S.seg (y ++ z)).take (min n (S.seg (y ++ z)).length)).flatten ++
          ((S.seg (y ++ z)).drop (min n (S.seg (y ++ z)).length)).flatten = y ++ z := by
        rw [← List.flatten_append, List.take_append_drop, S.flatten_eq]
      have hlen : blen ((S.seg (y ++ z)).take (min n (S.seg (y ++ z)).length)).flatten = blen y := by
        have : p = blen x + blen y := hy
        unfold offOf at hp
        omega
      have hy' := (append_inj_blen hfl hlen).1
      rw [← hy', (hS (y ++ z) _).1, List.length_take]
      omega


/-- `edit_replace_char` for a count that fits a `RepeatCount` -/
theorem safe_editReplaceChar (hS : S.Stable) (hnp : cfg.hinterPanicAt = none) (c : Char) (n : Nat)
    (hn : n ≤ 65535) {s : Ed} (h : EdWF cfg s) : Safe cfg (editReplaceChar S U cfg c n) s := by
  unfold Safe editReplaceChar
  simp only [wp_bind, wp_changesBegin]
  obtain ⟨r, l, ns, hd, hw, hcnt⟩ := delete_count S U hS s.line n h.line
  refine wp_lb S U (s := { s with changes := s.changes.begin.1 }) hd ?_
  cases r with
  | none =>
    simp only [wp_pure, wp_changesEnd, Bool.false_eq_true, if_false]
    exact EdWF.mk' hw h.saved h.ring
  | some chars =>
    have hc := hcnt chars rfl
    have hle : ¬ graphemeCount S chars > 65535 := by unfold graphemeCount; omega
    simp only [wp_bind, wp_ite, hle, if_false, wp_pure]
    refine wp_lb_safe S U cfg (fun lb hw => C03_insert_total_wf S U c _ lb hw)
      (s := { s with line := l, changes := (s.changes.begin.1).onNotifs S U.alnum ns })
      (EdWF.mk' hw h.saved h.ring) fun _ s2 h2 _ _ _ => ?_
    refine wp_lbQuiet_safe cfg (lmsafe_moveBackward S U 1) h2 fun _ s3 h3 _ _ _ => ?_
    simp only [wp_changesEnd, if_true]
    exact safe_refreshLine S U cfg hnp (EdWF.mk' h3.line h3.saved h3.ring)

/-- `ReplaceChar n c` from the read invariant, for `n ≤ 65535` and a stable segmenter -/
theorem rsafe_replaceChar (hS : S.Stable) (hnp : cfg.hinterPanicAt = none) (c : Char) (n : Nat)
    (hn : n ≤ 65535) {s : Ed} (h : RdInv cfg s) : RSafe cfg (execute S U cfg (.replaceChar n c)) s := by
  have he : execute S U cfg (.replaceChar n c) = (do pure (); editReplaceChar S U cfg c n; pure .proceed) := rfl
  have hs : Safe cfg (execute S U cfg (.replaceChar n c)) s := by
    rw [he]; unfold Safe; simp only [wp_bind, wp_pure]
    exact safe_editReplaceChar S U cfg hS hnp c n hn h.1
  exact rsafe_of cfg hs (keeps_grow_execute S U cfg _ rfl) (keeps_inp_execute S U cfg _) h


/-- `YankPop` from the read invariant, WHEN the last yank still stands before the cursor (true right
    after an emacs-mode yank or yank-pop; not after vi `p`/`P`, which move the cursor back) -/
theorem rsafe_yankPop (hnp : cfg.hinterPanicAt = none) {s : Ed} (h : RdInv cfg s) (hp : PopOK s) :
    RSafe cfg (execute S U cfg .yankPop) s := by
  have hs : Safe cfg (execute S U cfg .yankPop) s := by
    have he : execute S U cfg .yankPop = (do
        pure ()
        match ← ringYankPop with
        | some (size, text) => editYankPop S U cfg size text
        | none => pure ()
        pure .proceed) := rfl
    rw [he]; unfold Safe; simp only [wp_bind, wp_pure]
    -- what `yank_pop` of the ring answers
    have hr : RingOK s.ring := h.1.ring
    obtain ⟨k', r, hy, hk'⟩ := hr.yankPop_ok
    unfold wp ringYankPop
    rw [hy]
    simp only []
    have h1 : EdWF cfg ({ s with ring := k' } : Ed) := EdWF.mk' h.1.line h.1.saved hk'
    cases r with
    | none => exact h1
    | some p =>
      obtain ⟨size, text⟩ := p
      -- the size handed back is the recorded size of the last yank
      have hsz : s.ring.lastAction = .yank size := by
        unfold KillRing.yankPop at hy
        cases hla : s.ring.lastAction with
        | kill => rw [hla] at hy; cases hy
        | other => rw [hla] at hy; cases hy
        | yank sz =>
          rw [hla] at hy
          simp only [] at hy
          split at hy
          · cases hy
          · split at hy
            · cases hy
            · cases hy; rfl
      obtain ⟨hle, hb⟩ := hp size hsz
      have hfin := safe_editYankPop S U cfg hnp size text h1 hle hb
      change wp (do editYankPop S U cfg size text; pure Status.proceed) _ _ _
      simp only [wp_bind, wp_pure]
      exact hfin
  exact rsafe_of cfg hs (keeps_grow_execute S U cfg _ rfl) (keeps_inp_execute S U cfg _) h

end
end Rl
