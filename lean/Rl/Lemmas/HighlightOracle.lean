/-
  The partner search of the bracket-matching model (`findMatchingBracket`, a scan with a depth
  counter) equals the declarative counting oracle `Rl.Spec.Highlight.partner` on every input on
  which the model does not panic.
-/
import Rl.Highlight
import Rl.Spec.Highlight
import Rl.Lemmas.Highlight
namespace Rl.Highlight
open Rl.Spec.Highlight (seg partner)

theorem find_range_none {P : Nat → Bool} {n : Nat} (h : ∀ j, j < n → P j = false) :
    (List.range n).find? P = none := by
  rw [List.find?_eq_none]
  intro x hx
  have := h x (List.mem_range.mp hx)
  simp [this]

/-- `find?` over `List.range n` returns the least index satisfying the predicate. -/
theorem find_range_some {P : Nat → Bool} {n q : Nat} (hq : q < n) (hP : P q = true)
    (hmin : ∀ j, j < q → P j = false) : (List.range n).find? P = some q := by
  induction n with
  | zero => omega
  | succ n ih =>
    rw [List.range_succ, List.find?_append]
    rcases Nat.lt_or_ge q n with hlt | hge
    · rw [ih hlt]; rfl
    · have : q = n := by omega
      subst this
      rw [find_range_none hmin]
      simp [hP]

theorem find_range_rev_none {P : Nat → Bool} {n : Nat} (h : ∀ j, j < n → P j = false) :
    (List.range n).reverse.find? P = none := by
  rw [List.find?_eq_none]
  intro x hx
  have := h x (List.mem_range.mp (List.mem_reverse.mp hx))
  simp [this]

/-- `find?` over the reversed range returns the greatest index satisfying the predicate. -/
theorem find_range_rev_some {P : Nat → Bool} {n q : Nat} (hq : q < n) (hP : P q = true)
    (hmax : ∀ j, q < j → j < n → P j = false) : (List.range n).reverse.find? P = some q := by
  induction n with
  | zero => omega
  | succ n ih =>
    rw [List.range_succ, List.reverse_append]
    simp only [List.reverse_cons, List.reverse_nil, List.nil_append, List.singleton_append,
      List.find?_cons]
    rcases Nat.lt_or_ge q n with hlt | hge
    · rw [hmax n hlt (by omega)]
      exact ih hlt (fun j h1 h2 => hmax j h1 (by omega))
    · have : q = n := by omega
      subst this
      simp [hP]

/-- one more byte `m` after a balanced prefix: `m` outnumbers `b` by exactly one -/
theorem count_step {m b : UInt8} (hne : m ≠ b) {l : Bytes} {k : Nat} (hk : l[k]? = some m)
    (hc : (l.take k).count m + 1 = (l.take k).count b + 1) :
    ((l.take (k + 1)).count m == (l.take (k + 1)).count b + 1) = true := by
  have hmb : (m == b) = false := by simpa using hne
  rw [List.take_add_one, hk]
  simp only [Option.toList_some, List.count_append, List.count_cons, List.count_nil, hmb,
    beq_self_eq_true]
  simp
  omega

theorem seg_after (bs : Bytes) (p q : Nat) (h : p < q) :
    seg bs (p + 1) (q + 1) = (bs.drop (p + 1)).take (q - p) := by
  unfold seg
  rw [List.drop_take]
  congr 1
  omega

theorem count_seg_before (bs : Bytes) (p q : Nat) (x : UInt8) (hp : p ≤ bs.length) (h : q ≤ p) :
    (seg bs q p).count x = (((bs.take p).reverse).take (p - q)).count x := by
  unfold seg
  rw [List.take_reverse, List.count_reverse]
  have : (bs.take p).length - (p - q) = q := by
    rw [List.length_take]; omega
  rw [this]

theorem lt_of_getElem?_some {α} {l : List α} {k : Nat} {a : α} (h : l[k]? = some a) : k < l.length := by
  rcases Nat.lt_or_ge k l.length with hlt | hge
  · exact hlt
  · rw [List.getElem?_eq_none hge] at h; simp at h

/-- The model's partner search and the counting oracle agree whenever the model does not panic
    and the remembered byte is a bracket. -/
theorem find_eq_partner (bs : Bytes) (pos : Nat) (br : UInt8)
    (hb : (isOpenB br || isCloseB br) = true) (r : Option (UInt8 × Nat))
    (h : findMatchingBracket bs pos br = some r) :
    r = (partner bs pos br).map (fun q => (matchingBracket br, q)) := by
  unfold findMatchingBracket at h
  unfold partner
  by_cases ho : isOpenB br = true
  · have hne := matching_ne_of_open ho
    simp only [ho, if_true] at h ⊢
    split at h
    · simp at h
    · rename_i hlen
      split at h
      · rename_i k hk
        obtain ⟨j, hj0, hj, hc, hp⟩ := scan_some hne (Nat.le_refl 1) hk
        have hkj : k = j := by omega
        subst hkj
        have hkl := lt_of_getElem?_some hj
        rw [List.length_drop] at hkl
        rw [find_range_some (q := pos + 1 + k) (by omega)]
        · simpa using h.symm
        · rw [seg_after bs pos (pos + 1 + k) (by omega)]
          have : pos + 1 + k - pos = k + 1 := by omega
          rw [this, count_step hne hj hc]
          simp
          omega
        · intro q hq
          by_cases hpq : pos < q
          · rw [seg_after bs pos q hpq]
            have := hp (q - pos) (by omega)
            simp
            intro _
            omega
          · simp [hpq]
      · rename_i hk
        have hn := scan_none hne (Nat.le_refl 1) hk
        rw [find_range_none]
        · simpa using h.symm
        · intro q hq
          by_cases hpq : pos < q
          · rw [seg_after bs pos q hpq]
            have := hn (q - pos)
            simp
            intro _
            omega
          · simp [hpq]
  · have hc : isCloseB br = true := by
      simp only [Bool.or_eq_true] at hb
      rcases hb with hb | hb
      · exact absurd hb ho
      · exact hb
    have hne := matching_ne_of_close hc
    simp only [ho, Bool.false_eq_true, if_false] at h ⊢
    split at h
    · simp at h
    · rename_i hlen
      have hple : pos ≤ bs.length := by omega
      have hmin : min pos bs.length = pos := by omega
      rw [hmin]
      split at h
      · rename_i k hk
        obtain ⟨j, hj0, hj, hcn, hp⟩ := scan_some hne (Nat.le_refl 1) hk
        have hkj : k = j := by omega
        subst hkj
        have hkl := lt_of_getElem?_some hj
        rw [List.length_reverse, List.length_take] at hkl
        rw [find_range_rev_some (q := pos - k - 1) (by omega)]
        · simpa using h.symm
        · rw [count_seg_before bs pos _ _ hple (by omega), count_seg_before bs pos _ _ hple (by omega)]
          have : pos - (pos - k - 1) = k + 1 := by omega
          rw [this]
          exact count_step hne hj hcn
        · intro q hq1 hq2
          rw [count_seg_before bs pos _ _ hple (by omega), count_seg_before bs pos _ _ hple (by omega)]
          have := hp (pos - q) (by omega)
          simp
          omega
      · rename_i hk
        have hn := scan_none hne (Nat.le_refl 1) hk
        rw [find_range_rev_none]
        · simpa using h.symm
        · intro q hq
          rw [count_seg_before bs pos _ _ hple (by omega), count_seg_before bs pos _ _ hple (by omega)]
          have := hn (pos - q)
          simp
          omega

/-- Remark: the bracket hypothesis is needed — for a byte that is not a bracket the model (which
    then looks for the byte itself, backwards) and the oracle differ. -/
theorem find_ne_partner_non_bracket :
    findMatchingBracket [120, 120] 1 120 = some (some (120, 0)) ∧ partner [120, 120] 1 120 = none := by
  decide

/-! ## ASCII bytes of a line are whole characters (for the `replace_range` boundary check) -/

theorem toNat_or_ge (x y : UInt8) : y.toNat ≤ (x ||| y).toNat := by
  rw [UInt8.toNat_or]; exact Nat.right_le_or

/-- every byte of a multi-byte UTF-8 encoding has the high bit set -/
theorem enc_ge {c : Char} (h : c.utf8Size ≠ 1) : ∀ x ∈ String.utf8EncodeChar c, 128 ≤ x.toNat := by
  intro x hx
  rcases c.utf8Size_eq with h1 | h2 | h3 | h4
  · exact absurd h1 h
  · rw [String.utf8EncodeChar_eq_cons_cons h2] at hx
    simp only [List.mem_cons, List.not_mem_nil, or_false] at hx
    rcases hx with rfl | rfl <;> exact Nat.le_trans (by decide) (toNat_or_ge _ _)
  · rw [String.utf8EncodeChar_eq_cons_cons_cons h3] at hx
    simp only [List.mem_cons, List.not_mem_nil, or_false] at hx
    rcases hx with rfl | rfl | rfl <;> exact Nat.le_trans (by decide) (toNat_or_ge _ _)
  · rw [String.utf8EncodeChar_eq_cons_cons_cons_cons h4] at hx
    simp only [List.mem_cons, List.not_mem_nil, or_false] at hx
    rcases hx with rfl | rfl | rfl | rfl <;> exact Nat.le_trans (by decide) (toNat_or_ge _ _)

/-- an ASCII byte of the line is a whole one-byte character: both its offset and the next one are
    character boundaries -/
theorem split_at_ascii (line : Text) (q : Nat) (m : UInt8) (hq : (bytesOf line)[q]? = some m)
    (hm : m.toNat < 128) : ∃ a c b, splitAtByte line q = some (a, c :: b) ∧ c.utf8Size = 1 := by
  induction line generalizing q with
  | nil => simp [bytesOf] at hq
  | cons c t ih =>
    have hb : bytesOf (c :: t) = String.utf8EncodeChar c ++ bytesOf t := by simp [bytesOf]
    rw [hb] at hq
    rcases Nat.lt_or_ge q c.utf8Size with hlt | hge
    · rw [List.getElem?_append_left (by simpa using hlt)] at hq
      have hmem : m ∈ String.utf8EncodeChar c := List.mem_of_getElem? hq
      have h1 : c.utf8Size = 1 := by
        by_cases h1 : c.utf8Size = 1
        · exact h1
        · have := enc_ge h1 m hmem; omega
      have : q = 0 := by omega
      subst this
      exact ⟨[], c, t, by simp [splitAtByte], h1⟩
    · have hpos := c.utf8Size_pos
      rw [List.getElem?_append_right (by simpa using hge)] at hq
      simp only [String.length_utf8EncodeChar] at hq
      obtain ⟨a, c', b, hs, hc'⟩ := ih _ hq
      cases q with
      | zero => omega
      | succ n =>
        refine ⟨c :: a, c', b, ?_, hc'⟩
        simp only [splitAtByte, hge, if_true, hs]

theorem matching_toNat_lt {b : UInt8} (h : isOpenB b = true ∨ isCloseB b = true) :
    (matchingBracket b).toNat < 128 := by
  simp only [isOpenB, isCloseB, Bool.or_eq_true, beq_iff_eq] at h
  rcases h with ((h | h) | h) | ((h | h) | h) <;> subst h <;> decide


end Rl.Highlight
