/-
  Helper lemmas for C09 (gap filling): the ghost log of accepted lines of an operation
  sequence, and the relation of the store to that log.
-/
import Rl.History
import Rl.Spec.History
import Rl.Lemmas.History
namespace Rl
open MemHist

/-- Ghost log update: a line is appended when `add`/`add_owned` answered `true`; `clear` empties
    the log; every other operation leaves it alone. -/
def logStep (acc : List Text) : HOp → HObs → List Text
  | .add l, .bool true => acc ++ [l]
  | .addOwned l, .bool true => acc ++ [l]
  | .clear, _ => []
  | _, _ => acc

/-- The lines for which `add` answered `true` since the last `clear`, in order, starting from the
    log `acc`, along the model run of `ops` from `h`. -/
def accLog (ws : Char → Bool) (h : MemHist) (acc : List Text) : List HOp → List Text
  | [] => acc
  | op :: ops => accLog ws (h.step ws op).1 (logStep acc op (h.step ws op).2) ops

/-- no `set_max_len` raises the limit above its current value -/
def nonRaising : Nat → List HOp → Prop
  | _, [] => True
  | m, .setMax n :: ops => n ≤ m ∧ nonRaising n ops
  | m, _ :: ops => nonRaising m ops

theorem suffix_snoc {a b : List α} (h : a <:+ b) (x : α) : a ++ [x] <:+ b ++ [x] := by
  obtain ⟨t, ht⟩ := h
  exact ⟨t, by simp [← ht]⟩

theorem step_suffix (ws) {h : MemHist} {acc : List Text} (hs : h.entries <:+ acc) (op : HOp) :
    (h.step ws op).1.entries <:+ logStep acc op (h.step ws op).2 := by
  have hadd : ∀ l, (h.add ws l).1.entries <:+
      (match (h.add ws l).2 with | true => acc ++ [l] | false => acc) := by
    intro l
    unfold MemHist.add
    split
    · exact hs
    · simp only [MemHist.insert]
      apply suffix_snoc
      split
      · exact (List.drop_suffix 1 _).trans hs
      · exact hs
  cases op with
  | add l =>
    have := hadd l
    simp only [MemHist.step, logStep]
    cases hb : (h.add ws l).2 <;> simp only [hb] at this <;> exact this
  | addOwned l =>
    have := hadd l
    simp only [MemHist.step, logStep]
    cases hb : (h.add ws l).2 <;> simp only [hb] at this <;> exact this
  | setMax n =>
    simp only [MemHist.step, logStep, MemHist.setMaxLen]
    split
    · exact (List.drop_suffix _ _).trans hs
    · exact hs
  | clear => simp [MemHist.step, logStep, MemHist.clear]
  | dups b => exact hs
  | space b => exact hs
  | get i => exact hs
  | len => exact hs
  | dump => exact hs
  | search t s d => exact hs
  | startsWith t s d => exact hs

theorem run_suffix (ws) {h : MemHist} {acc : List Text} (hs : h.entries <:+ acc) (ops : List HOp) :
    (MemHist.run ws h ops).1.entries <:+ accLog ws h acc ops := by
  induction ops generalizing h acc with
  | nil => exact hs
  | cons op ops ih =>
    simp only [MemHist.run, accLog]
    exact ih (step_suffix ws hs op)

/-! exact window -/

theorem takeLast_length_le (n : Nat) (l : List α) : (Spec.takeLast n l).length ≤ n := by
  simp only [Spec.takeLast, List.length_drop]; omega

theorem takeLast_takeLast {n m : Nat} (hnm : n ≤ m) (l : List α) :
    Spec.takeLast n (Spec.takeLast m l) = Spec.takeLast n l := by
  simp only [Spec.takeLast, List.length_drop, List.drop_drop]
  congr 1; omega

theorem takeLast_snoc (m : Nat) (l : List α) (x : α) :
    Spec.takeLast m (Spec.takeLast m l ++ [x]) = Spec.takeLast m (l ++ [x]) := by
  simp only [Spec.takeLast, List.length_drop, List.length_append, List.length_singleton]
  by_cases hl : l.length ≤ m
  · have h0 : l.length - m = 0 := by omega
    simp [h0]
  · by_cases hm0 : m = 0
    · subst hm0; simp
    have h1 : l.length - (l.length - m) + 1 - m = 1 := by omega
    have h2 : l.length + 1 - m = (l.length - m) + 1 := by omega
    rw [h1, h2]
    have hlt : l.length - m < l.length := by omega
    rw [List.drop_append_of_le_length (by rw [List.length_drop]; omega), List.drop_drop]
    rw [List.drop_append_of_le_length (by omega)]

theorem insert_entries {h : MemHist} (hi : HInv h) (hm : h.maxLen ≠ 0) (l : Text) :
    (h.insert l).entries = Spec.takeLast h.maxLen (h.entries ++ [l]) := by
  unfold HInv at hi
  simp only [MemHist.insert, Spec.takeLast, List.length_append, List.length_singleton]
  by_cases he : h.entries.length = h.maxLen
  · have hb : (h.entries.length == h.maxLen) = true := by simp [he]
    have : h.entries.length + 1 - h.maxLen = 1 := by omega
    rw [this]
    simp only [hb, if_true]
    rw [List.drop_append_of_le_length (by omega)]
  · have hb : (h.entries.length == h.maxLen) = false := by simp [he]
    have : h.entries.length + 1 - h.maxLen = 0 := by omega
    rw [this]; simp [hb]

/-- window invariant: the store is the newest `maxLen` lines of the log -/
def Win (h : MemHist) (acc : List Text) : Prop := h.entries = Spec.takeLast h.maxLen acc

theorem Win.inv {h : MemHist} {acc : List Text} (hw : Win h acc) : HInv h := by
  unfold HInv; rw [hw]; exact takeLast_length_le _ _

theorem step_win (ws) {h : MemHist} {acc : List Text} (hw : Win h acc) (op : HOp)
    (hop : ∀ n, op = .setMax n → n ≤ h.maxLen) :
    Win (h.step ws op).1 (logStep acc op (h.step ws op).2) := by
  have hadd : ∀ l, Win (h.add ws l).1
      (match (h.add ws l).2 with | true => acc ++ [l] | false => acc) := by
    intro l
    unfold MemHist.add
    split
    · exact hw
    · rename_i hig
      have hm : h.maxLen ≠ 0 := fun hm => hig (ignore_of_max_zero ws h l hm)
      show (h.insert l).entries = Spec.takeLast (h.insert l).maxLen (acc ++ [l])
      rw [insert_entries hw.inv hm, hw]
      exact takeLast_snoc _ _ _
  cases op with
  | add l =>
    have := hadd l
    simp only [MemHist.step, logStep]
    cases hb : (h.add ws l).2 <;> simp only [hb] at this <;> exact this
  | addOwned l =>
    have := hadd l
    simp only [MemHist.step, logStep]
    cases hb : (h.add ws l).2 <;> simp only [hb] at this <;> exact this
  | setMax n =>
    have hn := hop n rfl
    simp only [MemHist.step, logStep, MemHist.setMaxLen, Win]
    split
    · show h.entries.drop (h.entries.length - n) = Spec.takeLast n acc
      rw [← takeLast_takeLast hn acc, ← hw]; rfl
    · rename_i hle
      show h.entries = Spec.takeLast n acc
      rw [← takeLast_takeLast hn acc, ← hw]
      simp only [Spec.takeLast]
      have : h.entries.length - n = 0 := by simp at hle; omega
      simp [this]
  | clear => simp [MemHist.step, logStep, MemHist.clear, Win, Spec.takeLast]
  | dups b => exact hw
  | space b => exact hw
  | get i => exact hw
  | len => exact hw
  | dump => exact hw
  | search t s d => exact hw
  | startsWith t s d => exact hw

theorem step_maxLen (ws) (h : MemHist) (op : HOp) :
    (h.step ws op).1.maxLen = match op with | .setMax n => n | _ => h.maxLen := by
  cases op <;> simp only [MemHist.step, MemHist.setMaxLen, MemHist.setIgnoreDups,
    MemHist.setIgnoreSpace, MemHist.clear]
  all_goals first
    | (unfold MemHist.add; split <;> simp [MemHist.insert])
    | (split <;> rfl)
    | rfl

theorem run_win (ws) {h : MemHist} {acc : List Text} (hw : Win h acc) (ops : List HOp)
    (hnr : nonRaising h.maxLen ops) :
    Win (MemHist.run ws h ops).1 (accLog ws h acc ops) := by
  induction ops generalizing h acc with
  | nil => exact hw
  | cons op ops ih =>
    simp only [MemHist.run, accLog]
    apply ih
    · apply step_win ws hw
      intro n hn; subst hn; exact hnr.1
    · rw [step_maxLen]
      cases op <;> first | exact hnr.2 | exact hnr

end Rl
