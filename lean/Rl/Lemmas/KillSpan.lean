/-
  C04: kills and copies by character motions, line ranges (within one line) and buffer ranges cover
  exactly the declarative span of `Rl/Spec/Motion.lean` (`spanOf`), phrased with the executable oracles
  `checkKill` / `checkCopy`.
-/
import Rl.Lemmas.Motion
import Rl.Lemmas.Span
set_option linter.unusedVariables false
namespace Rl
open Rl.Spec

/-! ### basics -/

theorem seg_nil (S : Segmenter) : S.seg [] = [] := by
  cases h : S.seg [] with
  | nil => rfl
  | cons g gs =>
    have hf := S.flatten_eq []
    rw [h] at hf
    have : g = [] := by
      simp at hf
      exact hf.1
    exact absurd this (S.ne_nil [] g (by rw [h]; simp))

theorem startOfLine_eq (lb : LB) (h : WF lb) : LB.startOfLine lb = .ok (lineStartOf lb.buf lb.pos) := by
  obtain ⟨x, s, hb, hp⟩ := h.split
  have hsp : splitAtByte lb.buf lb.pos = some (x, s) := by rw [hb, hp]; exact splitAtByte_append x s
  have hst : sliceTo lb.buf lb.pos = .ok x := by rw [hb, hp]; exact sliceTo_mid x s
  unfold LB.startOfLine lineStartOf splitAt?
  simp only [hst, hsp, bind, Except.bind, pure, Except.pure]
  cases rfindChar '\n' x <;> rfl

theorem endOfLine_eq (lb : LB) (h : WF lb) : LB.endOfLine lb = .ok (lineEndOf lb.buf lb.pos) := by
  obtain ⟨x, s, hb, hp⟩ := h.split
  have hsp : splitAtByte lb.buf lb.pos = some (x, s) := by rw [hb, hp]; exact splitAtByte_append x s
  have hsf : sliceFrom lb.buf lb.pos = .ok s := by rw [hb, hp]; exact sliceFrom_mid x s
  unfold LB.endOfLine lineEndOf splitAt?
  simp only [hsf, hsp, bind, Except.bind, pure, Except.pure]
  cases findChar '\n' s with
  | none => rfl
  | some k => simp [Nat.add_comm]

theorem nextPos_zero (S : Segmenter) (lb : LB) (h : WF lb) : LB.nextPos S lb 0 = .ok none := by
  obtain ⟨x, s, hb, hp⟩ := h.split
  have hsf : sliceFrom lb.buf lb.pos = .ok s := by rw [hb, hp]; exact sliceFrom_mid x s
  unfold LB.nextPos
  split
  · rfl
  · simp [hsf, bind, Except.bind, pure, Except.pure]

theorem prevPos_zero (S : Segmenter) (lb : LB) (h : WF lb) : LB.prevPos S lb 0 = .ok none := by
  obtain ⟨x, s, hb, hp⟩ := h.split
  have hst : sliceTo lb.buf lb.pos = .ok x := by rw [hb, hp]; exact sliceTo_mid x s
  unfold LB.prevPos
  split
  · rfl
  · simp [hst, bind, Except.bind, pure, Except.pure]

theorem nextPos_at_end (S : Segmenter) (lb : LB) (n : Nat) (he : lb.pos = lb.len) : LB.nextPos S lb n = .ok none := by
  unfold LB.nextPos; simp [he]; rfl

theorem prevPos_at_start (S : Segmenter) (lb : LB) (n : Nat) (he : lb.pos = 0) : LB.prevPos S lb n = .ok none := by
  unfold LB.prevPos; simp [he]; rfl

/-- at the end of the text the forward character target is the cursor itself -/
theorem charTargetFwd_at_end (S : Segmenter) (lb : LB) (n : Nat) (h : WF lb) (he : lb.pos = lb.len) :
    charTargetFwd S lb.buf lb.pos n = some lb.pos := by
  obtain ⟨x, s, hb, hp⟩ := h.split
  have hs : s = [] := by
    have : blen s = 0 := by simp [LB.len, hb, hp] at he; omega
    exact blen_eq_zero.mp this
  subst hs
  have hsp : splitAtByte lb.buf lb.pos = some (x, []) := by rw [hb, hp]; exact splitAtByte_append x []
  simp [charTargetFwd, splitAt?, hsp, seg_nil, offOf]

theorem charTargetBwd_at_start (S : Segmenter) (lb : LB) (n : Nat) (he : lb.pos = 0) :
    charTargetBwd S lb.buf lb.pos n = some lb.pos := by
  simp [charTargetBwd, splitAt?, he, splitAtByte, seg_nil, offOf]

/-- what `delete(n)` does, `n ≠ 0`: nothing at the end of the text, else it removes exactly the text up to
    the declarative character target -/
theorem delete_spec (S : Segmenter) (U : UData) (lb lb' : LB) (n : Nat) (r : Option Text) (ns : List Notif)
    (h : WF lb) (hn : n ≠ 0) (hrun : LB.delete S U n lb = .ok (r, lb', ns)) :
    (lb.pos = lb.len ∧ lb' = lb ∧ ns = [] ∧ r = none) ∨
    (∃ t x y z, charTargetFwd S lb.buf lb.pos n = some t ∧ lb.pos < t ∧ lb.buf = x ++ y ++ z ∧
      lb.pos = blen x ∧ t = blen x + blen y ∧ lb' = { lb with buf := x ++ z } ∧
      ns = [.del lb.pos y .forward] ∧ r = some y) := by
  by_cases he : lb.pos = lb.len
  · left
    have := nextPos_at_end S lb n he
    unfold LB.delete at hrun
    simp only [LM.bind_apply, LM.ro, this] at hrun
    cases hrun
    exact ⟨he, rfl, rfl, rfl⟩
  · right
    obtain ⟨t, hnp, hb, hlt⟩ := nextPos_some S lb n h he hn
    have ht := nextPos_eq_target S lb n h he hn
    rw [hnp] at ht
    have ht' : charTargetFwd S lb.buf lb.pos n = some t := (Except.ok.inj ht).symm
    obtain ⟨x, y, z, hd, hbuf, hx, hy⟩ := drain_ok .forward h hb (Nat.le_of_lt hlt)
    unfold LB.delete at hrun
    simp [LM.bind_apply, LM.ro, hnp, LM.get, hd] at hrun
    obtain ⟨rfl, rfl, rfl⟩ := hrun
    exact ⟨t, x, y, z, ht', hlt, hbuf, hx, hy, rfl, rfl, rfl⟩

/-- what `backspace(n)` does, `n ≠ 0` -/
theorem backspace_spec (S : Segmenter) (U : UData) (lb lb' : LB) (n : Nat) (r : Bool) (ns : List Notif)
    (h : WF lb) (hn : n ≠ 0) (hrun : LB.backspace S U n lb = .ok (r, lb', ns)) :
    (lb.pos = 0 ∧ lb' = lb ∧ ns = [] ∧ r = false) ∨
    (∃ t x y z, charTargetBwd S lb.buf lb.pos n = some t ∧ t < lb.pos ∧ lb.buf = x ++ y ++ z ∧
      t = blen x ∧ lb.pos = blen x + blen y ∧ lb' = { lb with buf := x ++ z, pos := t } ∧
      ns = [.del t y .backward] ∧ r = true) := by
  by_cases he : lb.pos = 0
  · left
    have := prevPos_at_start S lb n he
    unfold LB.backspace at hrun
    simp only [LM.bind_apply, LM.ro, this] at hrun
    cases hrun
    exact ⟨he, rfl, rfl, rfl⟩
  · right
    obtain ⟨t, hnp, hb, hlt⟩ := prevPos_some S lb n h he hn
    have ht := prevPos_eq_target S lb n h he hn
    rw [hnp] at ht
    have ht' : charTargetBwd S lb.buf lb.pos n = some t := (Except.ok.inj ht).symm
    obtain ⟨x, y, z, hd, hbuf, hx, hy⟩ := drain_ok .backward hb h (Nat.le_of_lt hlt)
    unfold LB.backspace at hrun
    simp [LM.bind_apply, LM.ro, hnp, LM.get, hd, LM.setPos] at hrun
    obtain ⟨rfl, rfl, rfl⟩ := hrun
    exact ⟨t, x, y, z, ht', hlt, hbuf, hx, hy, rfl, rfl, rfl⟩

theorem isEmpty_false_of_pos_lt {lb : LB} (h : lb.pos < lb.len) : lb.buf.isEmpty = false := by
  cases hb : lb.buf with
  | nil => simp [LB.len, hb] at h
  | cons c t => rfl

theorem isEmpty_false_of_pos {lb : LB} (hwf : WF lb) (h : 0 < lb.pos) : lb.buf.isEmpty = false := by
  have := hwf.le_len
  cases hb : lb.buf with
  | nil => simp [hb] at this; omega
  | cons c t => rfl

/-! ### character motions -/

theorem kill_forwardChar_is_span (S : Segmenter) (U : UData) (lb lb' : LB) (n : Nat) (r : Bool)
    (ns : List Notif) (h : WF lb) (hrun : LB.kill S U (.forwardChar n) lb = .ok (r, lb', ns)) :
    checkKill S U lb (.forwardChar n) lb'.buf lb'.pos ns = none := by
  have hk : LB.kill S U (.forwardChar n) = (do let r ← LB.delete S U n; pure r.isSome) := rfl
  rw [hk] at hrun
  obtain ⟨r0, lb1, n1, n2, hdel, hp, rfl⟩ := LM.bind_ok hrun
  simp at hp
  obtain ⟨_, rfl, rfl⟩ := hp
  by_cases hn : n = 0
  · subst hn
    have h0 := nextPos_zero S lb h
    unfold LB.delete at hdel
    simp only [LM.bind_apply, LM.ro, h0] at hdel
    cases hdel
    by_cases hemp : lb.buf.isEmpty = true
    · exact checkKill_nothing (by simp [spanOf, hemp]) rfl
    · exact checkKill_unjudged (by simp [spanOf, hemp])
  · rcases delete_spec S U lb lb1 n r0 n1 h hn hdel with ⟨he, hlb, rfl, rfl⟩ | ⟨t, x, y, z, ht, hlt, hbuf, hx, hy, rfl, rfl, rfl⟩
    · rw [hlb]
      refine checkKill_nothing ?_ rfl
      have ht := charTargetFwd_at_end S lb n h he
      unfold spanOf
      split
      · rfl
      · simp [hn, ht]
    · have hemp : lb.buf.isEmpty = false := isEmpty_false_of_pos_lt (by have := (drain_ok (lb := lb) .forward h h (Nat.le_refl _)); have hl : lb.len = blen lb.buf := rfl; rw [hl, hbuf]; simp; omega)
      refine checkKill_span (a := lb.pos) (b := t) (x := x) (y := y) (z := z) ?_ hbuf hx hy rfl (by simp [killedText]) rfl
      unfold spanOf
      simp [hemp, hn, ht, hlt]

theorem kill_backwardChar_is_span (S : Segmenter) (U : UData) (lb lb' : LB) (n : Nat) (r : Bool)
    (ns : List Notif) (h : WF lb) (hrun : LB.kill S U (.backwardChar n) lb = .ok (r, lb', ns)) :
    checkKill S U lb (.backwardChar n) lb'.buf lb'.pos ns = none := by
  obtain ⟨r0, lb1, n1, hdel, rfl, rfl, rfl⟩ : ∃ r0 lb1 n1, LB.backspace S U n lb = .ok (r0, lb1, n1) ∧ r0 = r ∧ lb1 = lb' ∧
      n1 = ns := by
    cases hbs : LB.backspace S U n lb with
    | error e => simp [LB.kill, LM.bind_apply, hbs] at hrun
    | ok v =>
      obtain ⟨r0, lb1, n1⟩ := v
      simp [LB.kill, LM.bind_apply, hbs] at hrun
      exact ⟨r0, lb1, n1, rfl, hrun.1, hrun.2.1, hrun.2.2⟩
  by_cases hn : n = 0
  · subst hn
    have h0 := prevPos_zero S lb h
    unfold LB.backspace at hdel
    simp only [LM.bind_apply, LM.ro, h0] at hdel
    cases hdel
    by_cases hemp : lb.buf.isEmpty = true
    · exact checkKill_nothing (by simp [spanOf, hemp]) rfl
    · exact checkKill_unjudged (by simp [spanOf, hemp])
  · rcases backspace_spec S U lb lb1 n r0 n1 h hn hdel with ⟨he, hlb, rfl, rfl⟩ | ⟨t, x, y, z, ht, hlt, hbuf, hx, hy, rfl, rfl, rfl⟩
    · rw [hlb]
      refine checkKill_nothing ?_ rfl
      have ht := charTargetBwd_at_start S lb n he
      unfold spanOf
      split
      · rfl
      · simp [hn, ht]
    · have hemp : lb.buf.isEmpty = false := isEmpty_false_of_pos h (by omega)
      refine checkKill_span (a := t) (b := lb.pos) (x := x) (y := y) (z := z) ?_ hbuf hx hy rfl (by simp [killedText]) rfl
      unfold spanOf
      simp [hemp, hn, ht, hlt]

theorem copy_forwardChar_is_span (S : Segmenter) (U : UData) (lb : LB) (n : Nat) (r : Option Text)
    (h : WF lb) (hrun : LB.copy S U lb (.forwardChar n) = .ok r) :
    checkCopy S U lb (.forwardChar n) (.optText r) = none := by
  by_cases hemp : lb.buf.isEmpty = true
  · simp [LB.copy, hemp, pure, Except.pure] at hrun
    subst hrun
    exact checkCopy_nothing (by simp [spanOf, hemp])
  have hemp' : lb.buf.isEmpty = false := by simpa using hemp
  by_cases hn : n = 0
  · subst hn
    exact checkCopy_unjudged (by simp [spanOf, hemp'])
  by_cases he : lb.pos = lb.len
  · have hnp := nextPos_at_end S lb n he
    simp [LB.copy, hemp', hnp, bind, Except.bind, pure, Except.pure] at hrun
    subst hrun
    have ht := charTargetFwd_at_end S lb n h he
    exact checkCopy_nothing (by simp [spanOf, hemp', hn, ht])
  · obtain ⟨t, hnp, hb, hlt⟩ := nextPos_some S lb n h he hn
    have ht := nextPos_eq_target S lb n h he hn
    rw [hnp] at ht
    have ht' : charTargetFwd S lb.buf lb.pos n = some t := (Except.ok.inj ht).symm
    obtain ⟨x, y, z, hs3, hbuf, hx, hy⟩ := split3_of_boundaries h hb (Nat.le_of_lt hlt)
    simp [LB.copy, hemp', hnp, slice, hs3, bind, Except.bind, pure, Except.pure] at hrun
    subst hrun
    exact checkCopy_span (a := lb.pos) (b := t) (by simp [spanOf, hemp', hn, ht', hlt]) hbuf hx hy

theorem copy_backwardChar_is_span (S : Segmenter) (U : UData) (lb : LB) (n : Nat) (r : Option Text)
    (h : WF lb) (hrun : LB.copy S U lb (.backwardChar n) = .ok r) :
    checkCopy S U lb (.backwardChar n) (.optText r) = none := by
  by_cases hemp : lb.buf.isEmpty = true
  · simp [LB.copy, hemp, pure, Except.pure] at hrun
    subst hrun
    exact checkCopy_nothing (by simp [spanOf, hemp])
  have hemp' : lb.buf.isEmpty = false := by simpa using hemp
  by_cases hn : n = 0
  · subst hn
    exact checkCopy_unjudged (by simp [spanOf, hemp'])
  by_cases he : lb.pos = 0
  · have hnp := prevPos_at_start S lb n he
    simp [LB.copy, hemp', hnp, bind, Except.bind, pure, Except.pure] at hrun
    subst hrun
    have ht := charTargetBwd_at_start S lb n he
    exact checkCopy_nothing (by simp [spanOf, hemp', hn, ht])
  · obtain ⟨t, hnp, hb, hlt⟩ := prevPos_some S lb n h he hn
    have ht := prevPos_eq_target S lb n h he hn
    rw [hnp] at ht
    have ht' : charTargetBwd S lb.buf lb.pos n = some t := (Except.ok.inj ht).symm
    obtain ⟨x, y, z, hs3, hbuf, hx, hy⟩ := split3_of_boundaries hb h (Nat.le_of_lt hlt)
    simp [LB.copy, hemp', hnp, slice, hs3, bind, Except.bind, pure, Except.pure] at hrun
    subst hrun
    exact checkCopy_span (a := t) (b := lb.pos) (by simp [spanOf, hemp', hn, ht', hlt]) hbuf hx hy

/-! ### the start/stop markers around a kill -/

theorem killedText_stop (l : List Notif) : killedText (l ++ [.stopKill]) = killedText l := by
  induction l with
  | nil => rfl
  | cons a l ih => cases a <;> simp [killedText, ih]

theorem killedText_wrap (l : List Notif) : killedText (.startKill :: (l ++ [.stopKill])) = killedText l := by
  simp [killedText, killedText_stop]

theorem killWrapped_inv {m : LM Bool} {lb lb' : LB} {r : Bool} {ns : List Notif}
    (hrun : (do LM.notify .startKill; let k ← m; LM.notify .stopKill; pure k : LM Bool) lb = .ok (r, lb', ns)) :
    ∃ ns0, m lb = .ok (r, lb', ns0) ∧ killedText ns = killedText ns0 := by
  cases hm : m lb with
  | error e => simp [LM.bind_apply, LM.notify, hm] at hrun
  | ok v =>
    obtain ⟨r0, lb1, n1⟩ := v
    simp [LM.bind_apply, LM.notify, hm] at hrun
    obtain ⟨rfl, rfl, rfl⟩ := hrun
    refine ⟨n1, rfl, ?_⟩
    have : ∀ l : List Notif, killedText (l ++ [.stopKill]) = killedText l := by
      intro l
      induction l with
      | nil => rfl
      | cons a l ih => cases a <;> simp [killedText, ih]
    simp [killedText, this]

theorem checkKill_congr {S : Segmenter} {U : UData} {old : LB} {mvt : Movement} {buf : Text} {pos : Nat}
    {ns ns' : List Notif} (h : killedText ns = killedText ns') :
    checkKill S U old mvt buf pos ns = checkKill S U old mvt buf pos ns' := by
  unfold checkKill; rw [h]

/-! ### line ranges inside the current line -/

theorem lineEndOf_spec (lb : LB) (h : WF lb) :
    IsBoundary lb.buf (lineEndOf lb.buf lb.pos) ∧ lb.pos ≤ lineEndOf lb.buf lb.pos := by
  obtain ⟨e, he, hb, hle⟩ := endOfLine_ok lb h
  rw [endOfLine_eq lb h] at he
  cases he; exact ⟨hb, hle⟩

theorem lineStartOf_spec (lb : LB) (h : WF lb) :
    IsBoundary lb.buf (lineStartOf lb.buf lb.pos) ∧ lineStartOf lb.buf lb.pos ≤ lb.pos := by
  obtain ⟨e, he, hb, hle⟩ := startOfLine_ok lb h
  rw [startOfLine_eq lb h] at he
  cases he; exact ⟨hb, hle⟩

/-- `kill_line` covers the declarative `EndOfLine` span -/
theorem killLine_is_span (S : Segmenter) (U : UData) (lb lb' : LB) (r : Bool) (ns : List Notif)
    (h : WF lb) (hrun : LB.killLine S U lb = .ok (r, lb', ns)) :
    checkKill S U lb .endOfLine lb'.buf lb'.pos ns = none := by
  obtain ⟨hleb, hlele⟩ := lineEndOf_spec lb h
  have hel := endOfLine_eq lb h
  have hlen : lineEndOf lb.buf lb.pos ≤ lb.len := hleb.le_len
  unfold LB.killLine at hrun
  by_cases hc : (!lb.buf.isEmpty && decide (lb.pos < lb.len)) = true
  · have hc' : ¬lb.buf = [] ∧ lb.pos < lb.len := by simpa using hc
    have hemp : lb.buf.isEmpty = false := by simpa using hc'.1
    have hlt : lb.pos < blen lb.buf := hc'.2
    by_cases hse : lb.pos = lineEndOf lb.buf lb.pos
    · -- nothing left on the line: the next cluster (the line break) goes
      cases hd : LB.delete S U 1 lb with
      | error e => simp [LM.bind_apply, LM.get, hc', LM.ro, hel, ← hse, hd] at hrun
      | ok v =>
        obtain ⟨r0, lb1, n1⟩ := v
        simp [LM.bind_apply, LM.get, hc', LM.ro, hel, ← hse, hd] at hrun
        obtain ⟨_, rfl, rfl⟩ := hrun
        rcases delete_spec S U lb lb1 1 r0 n1 h (by decide) hd with ⟨he, _, _, _⟩ | ⟨t, x, y, z, ht, hlt', hbuf, hx, hy, rfl, rfl, rfl⟩
        · omega
        · refine checkKill_span (a := lb.pos) (b := t) (x := x) (y := y) (z := z) ?_ hbuf hx hy rfl (by simp [killedText]) rfl
          have h1 : ¬ lb.pos < lineEndOf lb.buf lb.pos := by omega
          have h2 : ¬ blen lb.buf ≤ lb.pos := by omega
          simp [spanOf, hemp, h1, h2, ht, hlt']
    · have hlt2 : lb.pos < lineEndOf lb.buf lb.pos := by omega
      obtain ⟨x, y, z, hd, hbuf, hx, hy⟩ := drain_ok .forward h hleb hlele
      simp [LM.bind_apply, LM.get, hc', LM.ro, hel, hse, hd] at hrun
      obtain ⟨_, rfl, rfl⟩ := hrun
      exact checkKill_span (a := lb.pos) (b := lineEndOf lb.buf lb.pos) (x := x) (y := y) (z := z)
        (by simp [spanOf, hemp, hlt2]) hbuf hx hy rfl (by simp [killedText]) rfl
  · simp only [LM.bind_apply, LM.get, hc] at hrun
    simp at hrun
    obtain ⟨_, rfl, rfl⟩ := hrun
    refine checkKill_nothing ?_ rfl
    by_cases hemp : lb.buf.isEmpty = true
    · simp [spanOf, hemp]
    · have hge : lb.len ≤ lb.pos := by
        have : ¬(¬lb.buf = [] ∧ lb.pos < lb.len) := by simpa using hc
        have hne : ¬ lb.buf = [] := by simpa using hemp
        exact Nat.le_of_not_lt (fun hh => this ⟨hne, hh⟩)
      have hge' : blen lb.buf ≤ lb.pos := hge
      have h1 : ¬ lb.pos < lineEndOf lb.buf lb.pos := by have : lb.len = blen lb.buf := rfl; omega
      simp [spanOf, hemp, h1, hge']

theorem kill_endOfLine_is_span (S : Segmenter) (U : UData) (lb lb' : LB) (r : Bool) (ns : List Notif)
    (h : WF lb) (hrun : LB.kill S U .endOfLine lb = .ok (r, lb', ns)) :
    checkKill S U lb .endOfLine lb'.buf lb'.pos ns = none := by
  have hk : LB.kill S U .endOfLine =
      (do LM.notify .startKill; let k ← LB.killLine S U; LM.notify .stopKill; pure k) := rfl
  rw [hk] at hrun
  obtain ⟨ns0, hm, hkt⟩ := killWrapped_inv hrun
  rw [checkKill_congr hkt]
  exact killLine_is_span S U lb lb' r ns0 h hm

/-- `discard_line` covers the declarative `BeginningOfLine` span -/
theorem discardLine_is_span (S : Segmenter) (U : UData) (lb lb' : LB) (r : Bool) (ns : List Notif)
    (h : WF lb) (hrun : LB.discardLine S U lb = .ok (r, lb', ns)) :
    checkKill S U lb .beginningOfLine lb'.buf lb'.pos ns = none := by
  obtain ⟨hlsb, hlsle⟩ := lineStartOf_spec lb h
  have hsl := startOfLine_eq lb h
  unfold LB.discardLine at hrun
  by_cases hc : (decide (lb.pos > 0) && !lb.buf.isEmpty) = true
  · have hc' : 0 < lb.pos ∧ ¬lb.buf = [] := by simpa using hc
    have hemp : lb.buf.isEmpty = false := by simpa using hc'.2
    by_cases hse : lb.pos = lineStartOf lb.buf lb.pos
    · cases hd : LB.backspace S U 1 lb with
      | error e => simp [LM.bind_apply, LM.get, hc', LM.ro, hsl, ← hse, hd] at hrun
      | ok v =>
        obtain ⟨r0, lb1, n1⟩ := v
        simp [LM.bind_apply, LM.get, hc', LM.ro, hsl, ← hse, hd] at hrun
        obtain ⟨_, rfl, rfl⟩ := hrun
        rcases backspace_spec S U lb lb1 1 r0 n1 h (by decide) hd with ⟨he, _, _, _⟩ | ⟨t, x, y, z, ht, hlt', hbuf, hx, hy, rfl, rfl, rfl⟩
        · omega
        · refine checkKill_span (a := t) (b := lb.pos) (x := x) (y := y) (z := z) ?_ hbuf hx hy rfl (by simp [killedText]) rfl
          have h1 : ¬ lineStartOf lb.buf lb.pos < lb.pos := by omega
          have h2 : ¬ lb.pos = 0 := by omega
          simp [spanOf, hemp, h1, h2, ht, hlt']
    · have hlt2 : lineStartOf lb.buf lb.pos < lb.pos := by omega
      obtain ⟨x, y, z, hd, hbuf, hx, hy⟩ := drain_ok .backward hlsb h hlsle
      have hse' : ¬ lb.pos = lineStartOf lb.buf lb.pos := hse
      simp [LM.bind_apply, LM.get, hc', LM.ro, hsl, hse', hd, LM.setPos] at hrun
      obtain ⟨_, rfl, rfl⟩ := hrun
      exact checkKill_span (a := lineStartOf lb.buf lb.pos) (b := lb.pos) (x := x) (y := y) (z := z)
        (by simp [spanOf, hemp, hlt2]) hbuf hx hy rfl (by simp [killedText]) rfl
  · simp only [LM.bind_apply, LM.get, hc] at hrun
    simp at hrun
    obtain ⟨_, rfl, rfl⟩ := hrun
    refine checkKill_nothing ?_ rfl
    by_cases hemp : lb.buf.isEmpty = true
    · simp [spanOf, hemp]
    · have h0 : lb.pos = 0 := by
        have : ¬(0 < lb.pos ∧ ¬lb.buf = []) := by simpa using hc
        have hne : ¬ lb.buf = [] := by simpa using hemp
        exact Nat.eq_zero_of_not_pos (fun hh => this ⟨hh, hne⟩)
      have h1 : ¬ lineStartOf lb.buf lb.pos < lb.pos := by omega
      simp [spanOf, hemp, h1, h0]

theorem kill_beginningOfLine_is_span (S : Segmenter) (U : UData) (lb lb' : LB) (r : Bool) (ns : List Notif)
    (h : WF lb) (hrun : LB.kill S U .beginningOfLine lb = .ok (r, lb', ns)) :
    checkKill S U lb .beginningOfLine lb'.buf lb'.pos ns = none := by
  have hk : LB.kill S U .beginningOfLine =
      (do LM.notify .startKill; let k ← LB.discardLine S U; LM.notify .stopKill; pure k) := rfl
  rw [hk] at hrun
  obtain ⟨ns0, hm, hkt⟩ := killWrapped_inv hrun
  rw [checkKill_congr hkt]
  exact discardLine_is_span S U lb lb' r ns0 h hm

/-! ### the whole line -/

theorem rfindChar_none {c : Char} {s : Text} (h : rfindChar c s = none) : c ∉ s := by
  induction s with
  | nil => simp
  | cons x t ih =>
    simp only [rfindChar] at h
    split at h
    · cases h
    · rename_i hn
      split at h
      · cases h
      · rename_i hx
        have hxc : ¬ x = c := by simpa using hx
        intro hm
        rcases List.mem_cons.mp hm with rfl | hm
        · exact hxc rfl
        · exact ih hn hm

theorem rfindChar_some_last {c : Char} {s : Text} {n : Nat} (h : rfindChar c s = some n) :
    ∃ a b, s = a ++ c :: b ∧ n = blen a ∧ c ∉ b := by
  induction s generalizing n with
  | nil => simp [rfindChar] at h
  | cons x t ih =>
    simp only [rfindChar] at h
    split at h
    · rename_i k hk
      cases h
      obtain ⟨a, b, rfl, rfl, hnb⟩ := ih hk
      exact ⟨x :: a, b, rfl, by simp; omega, hnb⟩
    · rename_i hn
      split at h
      · rename_i hx
        have : x = c := by simpa using hx
        subst this
        cases h
        exact ⟨[], t, rfl, rfl, rfindChar_none hn⟩
      · cases h

theorem findChar_append_left {c : Char} {v : Text} (s : Text) (h : c ∉ v) :
    findChar c (v ++ s) = (findChar c s).map (· + blen v) := by
  induction v with
  | nil => simp
  | cons x t ih =>
    have hx : ¬ x = c := fun e => h (by simp [e])
    have ht : c ∉ t := fun e => h (List.mem_cons_of_mem _ e)
    have hxb : (x == c) = false := by simpa using hx
    simp only [List.cons_append, findChar, hxb, Bool.false_eq_true, if_false, ih ht]
    cases findChar c s with
    | none => rfl
    | some i => simp; omega

/-- the end of the line is the same seen from the line start and from the cursor -/
theorem lineEndOf_lineStartOf (lb : LB) (h : WF lb) :
    lineEndOf lb.buf (lineStartOf lb.buf lb.pos) = lineEndOf lb.buf lb.pos := by
  obtain ⟨x, s, hb, hp⟩ := h.split
  have hsp : splitAtByte lb.buf lb.pos = some (x, s) := by rw [hb, hp]; exact splitAtByte_append x s
  unfold lineStartOf
  simp only [splitAt?, hsp]
  cases hf : rfindChar '\n' x with
  | none =>
    have hnx := rfindChar_none hf
    simp only
    unfold lineEndOf
    simp only [splitAt?, hsp, splitAtByte]
    rw [hb, findChar_append_left s hnx]
    cases findChar '\n' s with
    | none => rfl
    | some i => simp [hp]; omega
  | some k =>
    obtain ⟨u, v, rfl, rfl, hnv⟩ := rfindChar_some_last hf
    simp only
    have hsp2 : splitAtByte lb.buf (blen u + 1) = some (u ++ ['\n'], v ++ s) := by
      have := splitAtByte_append (u ++ ['\n']) (v ++ s)
      rw [hb]
      simpa [utf8Size_newline] using this
    unfold lineEndOf
    simp only [splitAt?, hsp, hsp2]
    rw [findChar_append_left s hnv]
    cases findChar '\n' s with
    | none => rfl
    | some i => simp [hp, utf8Size_newline]; omega

/-- the line break is a cluster of its own (true of UAX #29 segmentation: GB4/GB5) -/
def Segmenter.NlAlone (S : Segmenter) : Prop := ∀ t : Text, (S.seg ('\n' :: t)).head? = some ['\n']

theorem charSeg_nlAlone : charSeg.NlAlone := by
  intro t
  cases t <;> simp [charSeg, Segmenter.ofGroup, group, groupGo]

/-- the concrete UAX #29 segmenter keeps the line break alone (GB4) as soon as the class table calls it LF -/
theorem uaxSeg_nlAlone (cls : Char → String) (h : gcbBase (cls '\n') = "LF") : (uaxSeg cls).NlAlone := by
  intro t
  cases t with
  | nil => simp [uaxSeg, Segmenter.ofGroup, group, groupGo]
  | cons c t =>
    have hg : uaxGlue cls (uaxInit cls '\n') c = false := by
      simp [uaxGlue, uaxInit, h]
    simp [uaxSeg, Segmenter.ofGroup, group, groupGo, hg]

/-- when the line is empty (`ls = le < len`) the text at `le` starts with the line break -/
theorem suffix_at_lineEnd (lb : LB) (h : WF lb) (hlt : lineEndOf lb.buf lb.pos < blen lb.buf) :
    ∃ x b, lb.buf = x ++ '\n' :: b ∧ lineEndOf lb.buf lb.pos = blen x := by
  obtain ⟨x, s, hb, hp⟩ := h.split
  have hsp : splitAtByte lb.buf lb.pos = some (x, s) := by rw [hb, hp]; exact splitAtByte_append x s
  unfold lineEndOf at hlt ⊢
  simp only [splitAt?, hsp] at hlt ⊢
  cases hf : findChar '\n' s with
  | none => rw [hf] at hlt; simp at hlt
  | some i =>
    obtain ⟨a, b, rfl, rfl⟩ := findChar_some hf
    exact ⟨x ++ a, b, by rw [hb]; simp, by simp [hp]⟩

theorem kill_wholeLine_is_span (S : Segmenter) (U : UData) (hnl : S.NlAlone) (lb lb' : LB) (r : Bool)
    (ns : List Notif) (h : WF lb) (hrun : LB.kill S U .wholeLine lb = .ok (r, lb', ns)) :
    checkKill S U lb .wholeLine lb'.buf lb'.pos ns = none := by
  obtain ⟨hlsb, hlsle⟩ := lineStartOf_spec lb h
  obtain ⟨hleb, hlele⟩ := lineEndOf_spec lb h
  have hsl := startOfLine_eq lb h
  -- after `move_home` the cursor is on the line start
  have hhome : LB.moveHome S U lb = .ok (decide (lb.pos > lineStartOf lb.buf lb.pos),
      { lb with pos := lineStartOf lb.buf lb.pos }, []) := by
    unfold LB.moveHome
    by_cases hgt : lb.pos > lineStartOf lb.buf lb.pos
    · simp [LM.bind_apply, LM.ro, hsl, LM.get, hgt, LM.setPos]
    · have : lb.pos = lineStartOf lb.buf lb.pos := by omega
      simp [LM.bind_apply, LM.ro, hsl, LM.get, hgt]
      cases lb; simp at this ⊢; exact this
  generalize hls : lineStartOf lb.buf lb.pos = ls at *
  have hwf1 : WF { lb with pos := ls } := hlsb
  have hle1 : lineEndOf lb.buf ls = lineEndOf lb.buf lb.pos := by rw [← hls]; exact lineEndOf_lineStartOf lb h
  have hel0 := endOfLine_eq _ hwf1
  simp only [hle1] at hel0
  by_cases hlt0 : ls < lineEndOf lb.buf lb.pos
  · -- a non-empty line: one drain from the line start, reported around the old cursor
    obtain ⟨x, y, z, d, hd, hbuf, hx, hy⟩ := drainAround_ok (lb := { lb with pos := ls }) lb.pos hlsb hleb h (by omega)
    simp [LB.kill, LM.bind_apply, LM.notify, LM.get, hhome, LM.ro, hel0, hlt0, hd] at hrun
    obtain ⟨rfl, rfl, rfl⟩ := hrun
    have hemp : lb.buf.isEmpty = false := by
      rw [hbuf]
      cases y with
      | nil => simp at hy; omega
      | cons c t => cases x <;> simp
    exact checkKill_span (a := ls) (b := lineEndOf lb.buf lb.pos) (x := x) (y := y) (z := z)
      (by simp [spanOf, hemp, hls, hlt0]) hbuf hx hy rfl (by simp [killedText]) rfl
  cases hkl : LB.killLine S U { lb with pos := ls } with
  | error e => simp [LB.kill, LM.bind_apply, LM.notify, LM.get, hhome, LM.ro, hel0, hlt0, hkl] at hrun
  | ok v =>
    obtain ⟨r1, lb1, n1⟩ := v
    simp [LB.kill, LM.bind_apply, LM.notify, LM.get, hhome, LM.ro, hel0, hlt0, hkl] at hrun
    obtain ⟨rfl, rfl, rfl⟩ := hrun
    rw [checkKill_congr (killedText_wrap n1)]
    -- analyse `kill_line` from the line start
    have hel1 := endOfLine_eq _ hwf1
    simp only [hle1] at hel1
    generalize hle : lineEndOf lb.buf lb.pos = le at *
    have hlen : le ≤ blen lb.buf := hleb.le_len
    unfold LB.killLine at hkl
    by_cases hc : (!lb.buf.isEmpty && decide (ls < blen lb.buf)) = true
    · have hc' : ¬lb.buf = [] ∧ ls < blen lb.buf := by simpa using hc
      have hemp : lb.buf.isEmpty = false := by simpa using hc'.1
      by_cases hse : ls = le
      · subst hse
        cases hd : LB.delete S U 1 { lb with pos := ls } with
        | error e => simp [LM.bind_apply, LM.get, LB.len, hc', LM.ro, hel1, hd] at hkl
        | ok v =>
          obtain ⟨r0, lb2, n2⟩ := v
          simp [LM.bind_apply, LM.get, LB.len, hc', LM.ro, hel1, hd] at hkl
          obtain ⟨_, rfl, rfl⟩ := hkl
          rcases delete_spec S U _ lb2 1 r0 n2 hwf1 (by decide) hd with ⟨he, _, _, _⟩ | ⟨t, x, y, z, ht, hlt', hbuf, hx, hy, rfl, rfl, rfl⟩
          · have : ls = blen lb.buf := he
            omega
          · simp only at ht hlt' hbuf hx hy ⊢
            -- the cluster removed is the line break itself
            obtain ⟨x0, b0, hb0, hx0⟩ := suffix_at_lineEnd lb h (by rw [hle]; exact hc'.2)
            rw [hle] at hx0
            have hsp0 : splitAtByte lb.buf ls = some (x0, '\n' :: b0) := by
              rw [hb0, hx0]; exact splitAtByte_append x0 _
            have ht1 : t = ls + 1 := by
              have hh := hnl b0
              cases hseg : S.seg ('\n' :: b0) with
              | nil => rw [hseg] at hh; simp at hh
              | cons g gs =>
                rw [hseg] at hh
                simp at hh
                subst hh
                simp [charTargetFwd, splitAt?, hsp0, hseg, offOf, utf8Size_newline] at ht
                omega
            refine checkKill_span (a := ls) (b := ls + 1) (x := x) (y := y) (z := z) ?_ hbuf hx (by omega) rfl
              (by simp [killedText]) rfl
            have h1 : ¬ ls < ls := by omega
            simp [spanOf, hemp, hls, hle, hc'.2]
      · have hlt2 : ls < le := by omega
        obtain ⟨x, y, z, hd, hbuf, hx, hy⟩ := drain_ok (lb := { lb with pos := ls }) .forward hlsb hleb (by omega)
        simp [LM.bind_apply, LM.get, LB.len, hc', LM.ro, hel1, hse, hd] at hkl
        obtain ⟨_, rfl, rfl⟩ := hkl
        exact checkKill_span (a := ls) (b := le) (x := x) (y := y) (z := z)
          (by simp [spanOf, hemp, hls, hle, hlt2]) hbuf hx hy rfl (by simp [killedText]) rfl
    · have hc2 : (!lb.buf.isEmpty && decide (ls < LB.len { lb with pos := ls })) = false :=
        Bool.eq_false_iff.mpr hc
      simp only [LM.bind_apply, LM.get, hc2] at hkl
      simp at hkl
      obtain ⟨_, rfl, rfl⟩ := hkl
      refine checkKill_nothing ?_ rfl
      by_cases hemp : lb.buf.isEmpty = true
      · simp [spanOf, hemp]
      · have hge : blen lb.buf ≤ ls := by
          have : ¬(¬lb.buf = [] ∧ ls < blen lb.buf) := by simpa using hc
          have hne : ¬ lb.buf = [] := by simpa using hemp
          exact Nat.le_of_not_lt (fun hh => this ⟨hne, hh⟩)
        have h1 : ¬ ls < le := by omega
        have h2 : ¬ le < blen lb.buf := by omega
        simp [spanOf, hemp, hls, hle, h1, h2]

/-! ### copies of line ranges -/

theorem copy_wholeLine_is_span (S : Segmenter) (U : UData) (lb : LB) (r : Option Text)
    (h : WF lb) (hrun : LB.copy S U lb .wholeLine = .ok r) :
    checkCopy S U lb .wholeLine (.optText r) = none := by
  by_cases hemp : lb.buf.isEmpty = true
  · simp [LB.copy, hemp, pure, Except.pure] at hrun
    subst hrun
    exact checkCopy_nothing (by simp [spanOf, hemp])
  have hemp' : lb.buf.isEmpty = false := by simpa using hemp
  obtain ⟨hlsb, hlsle⟩ := lineStartOf_spec lb h
  obtain ⟨hleb, hlele⟩ := lineEndOf_spec lb h
  have hsl := startOfLine_eq lb h
  have hel := endOfLine_eq lb h
  by_cases hse : lineStartOf lb.buf lb.pos = lineEndOf lb.buf lb.pos
  · simp [LB.copy, hemp', hsl, hel, hse, bind, Except.bind, pure, Except.pure] at hrun
    subst hrun
    have h1 : ¬ lineStartOf lb.buf lb.pos < lineEndOf lb.buf lb.pos := by omega
    exact checkCopy_nothing (by simp [spanOf, hemp', h1])
  · obtain ⟨x, y, z, hs3, hbuf, hx, hy⟩ := split3_of_boundaries hlsb hleb (by omega)
    simp [LB.copy, hemp', hsl, hel, hse, slice, hs3, bind, Except.bind, pure, Except.pure] at hrun
    subst hrun
    have h1 : lineStartOf lb.buf lb.pos < lineEndOf lb.buf lb.pos := by omega
    exact checkCopy_span (by simp [spanOf, hemp', h1]) hbuf hx hy

theorem copy_beginningOfLine_is_span (S : Segmenter) (U : UData) (lb : LB) (r : Option Text)
    (h : WF lb) (hrun : LB.copy S U lb .beginningOfLine = .ok r) :
    checkCopy S U lb .beginningOfLine (.optText r) = none := by
  by_cases hemp : lb.buf.isEmpty = true
  · simp [LB.copy, hemp, pure, Except.pure] at hrun
    subst hrun
    exact checkCopy_nothing (by simp [spanOf, hemp])
  have hemp' : lb.buf.isEmpty = false := by simpa using hemp
  obtain ⟨hlsb, hlsle⟩ := lineStartOf_spec lb h
  have hsl := startOfLine_eq lb h
  by_cases hse : lb.pos = lineStartOf lb.buf lb.pos
  · simp [LB.copy, hemp', hsl, ← hse, bind, Except.bind, pure, Except.pure] at hrun
    subst hrun
    have h1 : ¬ lineStartOf lb.buf lb.pos < lb.pos := by omega
    exact checkCopy_nothing (by simp [spanOf, hemp', h1])
  · obtain ⟨x, y, z, hs3, hbuf, hx, hy⟩ := split3_of_boundaries hlsb h hlsle
    simp [LB.copy, hemp', hsl, hse, slice, hs3, bind, Except.bind, pure, Except.pure] at hrun
    subst hrun
    have h1 : lineStartOf lb.buf lb.pos < lb.pos := by omega
    exact checkCopy_span (by simp [spanOf, hemp', h1]) hbuf hx hy

theorem copy_endOfLine_is_span (S : Segmenter) (U : UData) (lb : LB) (r : Option Text)
    (h : WF lb) (hrun : LB.copy S U lb .endOfLine = .ok r) :
    checkCopy S U lb .endOfLine (.optText r) = none := by
  by_cases hemp : lb.buf.isEmpty = true
  · simp [LB.copy, hemp, pure, Except.pure] at hrun
    subst hrun
    exact checkCopy_nothing (by simp [spanOf, hemp])
  have hemp' : lb.buf.isEmpty = false := by simpa using hemp
  obtain ⟨hleb, hlele⟩ := lineEndOf_spec lb h
  have hel := endOfLine_eq lb h
  by_cases hse : lb.pos = lineEndOf lb.buf lb.pos
  · simp [LB.copy, hemp', hel, ← hse, bind, Except.bind, pure, Except.pure] at hrun
    subst hrun
    have h1 : ¬ lb.pos < lineEndOf lb.buf lb.pos := by omega
    exact checkCopy_nothing (by simp [spanOf, hemp', h1])
  · obtain ⟨x, y, z, hs3, hbuf, hx, hy⟩ := split3_of_boundaries h hleb hlele
    simp [LB.copy, hemp', hel, hse, slice, hs3, bind, Except.bind, pure, Except.pure] at hrun
    subst hrun
    have h1 : lb.pos < lineEndOf lb.buf lb.pos := by omega
    exact checkCopy_span (by simp [spanOf, hemp', h1]) hbuf hx hy

/-! ### buffer ranges -/

theorem killBuffer_is_span (S : Segmenter) (U : UData) (lb lb' : LB) (r : Bool) (ns : List Notif)
    (h : WF lb) (hrun : LB.killBuffer S U lb = .ok (r, lb', ns)) :
    checkKill S U lb .endOfBuffer lb'.buf lb'.pos ns = none := by
  unfold LB.killBuffer at hrun
  by_cases hc : (!lb.buf.isEmpty && decide (lb.pos < lb.len)) = true
  · have hc' : ¬lb.buf = [] ∧ lb.pos < lb.len := by simpa using hc
    have hemp : lb.buf.isEmpty = false := by simpa using hc'.1
    have hlt : lb.pos < blen lb.buf := hc'.2
    obtain ⟨x, y, z, hd, hbuf, hx, hy⟩ := drain_ok .forward h (isBoundary_len lb.buf) h.le_len
    have hd' : LB.drain lb.pos lb.len .forward lb = _ := hd
    simp [LM.bind_apply, LM.get, hc', hd'] at hrun
    obtain ⟨_, rfl, rfl⟩ := hrun
    exact checkKill_span (a := lb.pos) (b := blen lb.buf) (x := x) (y := y) (z := z)
      (by simp [spanOf, hemp, hlt]) hbuf hx hy rfl (by simp [killedText]) rfl
  · simp only [LM.bind_apply, LM.get, hc] at hrun
    simp at hrun
    obtain ⟨_, rfl, rfl⟩ := hrun
    refine checkKill_nothing ?_ rfl
    by_cases hemp : lb.buf.isEmpty = true
    · simp [spanOf, hemp]
    · have hge : ¬ lb.pos < blen lb.buf := by
        have : ¬(¬lb.buf = [] ∧ lb.pos < lb.len) := by simpa using hc
        have hne : ¬ lb.buf = [] := by simpa using hemp
        exact fun hh => this ⟨hne, hh⟩
      simp [spanOf, hemp, hge]

theorem kill_endOfBuffer_is_span (S : Segmenter) (U : UData) (lb lb' : LB) (r : Bool) (ns : List Notif)
    (h : WF lb) (hrun : LB.kill S U .endOfBuffer lb = .ok (r, lb', ns)) :
    checkKill S U lb .endOfBuffer lb'.buf lb'.pos ns = none := by
  have hk : LB.kill S U .endOfBuffer =
      (do LM.notify .startKill; let k ← LB.killBuffer S U; LM.notify .stopKill; pure k) := rfl
  rw [hk] at hrun
  obtain ⟨ns0, hm, hkt⟩ := killWrapped_inv hrun
  rw [checkKill_congr hkt]
  exact killBuffer_is_span S U lb lb' r ns0 h hm

theorem discardBuffer_is_span (S : Segmenter) (U : UData) (lb lb' : LB) (r : Bool) (ns : List Notif)
    (h : WF lb) (hrun : LB.discardBuffer S U lb = .ok (r, lb', ns)) :
    checkKill S U lb .beginningOfBuffer lb'.buf lb'.pos ns = none := by
  unfold LB.discardBuffer at hrun
  by_cases hc : (decide (lb.pos > 0) && !lb.buf.isEmpty) = true
  · have hc' : 0 < lb.pos ∧ ¬lb.buf = [] := by simpa using hc
    have hemp : lb.buf.isEmpty = false := by simpa using hc'.2
    obtain ⟨x, y, z, hd, hbuf, hx, hy⟩ := drain_ok .backward (isBoundary_zero lb.buf) h (Nat.zero_le _)
    simp [LM.bind_apply, LM.get, hc', hd, LM.setPos] at hrun
    obtain ⟨_, rfl, rfl⟩ := hrun
    exact checkKill_span (a := 0) (b := lb.pos) (x := x) (y := y) (z := z)
      (by simp [spanOf, hemp, hc'.1]) hbuf hx hy rfl (by simp [killedText]) rfl
  · simp only [LM.bind_apply, LM.get, hc] at hrun
    simp at hrun
    obtain ⟨_, rfl, rfl⟩ := hrun
    refine checkKill_nothing ?_ rfl
    by_cases hemp : lb.buf.isEmpty = true
    · simp [spanOf, hemp]
    · have h0 : lb.pos = 0 := by
        have : ¬(0 < lb.pos ∧ ¬lb.buf = []) := by simpa using hc
        have hne : ¬ lb.buf = [] := by simpa using hemp
        exact Nat.eq_zero_of_not_pos (fun hh => this ⟨hh, hne⟩)
      simp [spanOf, hemp, h0]

theorem kill_beginningOfBuffer_is_span (S : Segmenter) (U : UData) (lb lb' : LB) (r : Bool) (ns : List Notif)
    (h : WF lb) (hrun : LB.kill S U .beginningOfBuffer lb = .ok (r, lb', ns)) :
    checkKill S U lb .beginningOfBuffer lb'.buf lb'.pos ns = none := by
  have hk : LB.kill S U .beginningOfBuffer =
      (do LM.notify .startKill; let k ← LB.discardBuffer S U; LM.notify .stopKill; pure k) := rfl
  rw [hk] at hrun
  obtain ⟨ns0, hm, hkt⟩ := killWrapped_inv hrun
  rw [checkKill_congr hkt]
  exact discardBuffer_is_span S U lb lb' r ns0 h hm

theorem kill_wholeBuffer_is_span (S : Segmenter) (U : UData) (lb lb' : LB) (r : Bool) (ns : List Notif)
    (h : WF lb) (hrun : LB.kill S U .wholeBuffer lb = .ok (r, lb', ns)) :
    checkKill S U lb .wholeBuffer lb'.buf lb'.pos ns = none := by
  have hstart : LB.moveBufferStart S U lb = .ok (decide (lb.pos > 0), { lb with pos := 0 }, []) := by
    unfold LB.moveBufferStart
    by_cases hgt : lb.pos > 0
    · simp [LM.bind_apply, LM.get, hgt, LM.setPos]
    · have : lb.pos = 0 := by omega
      simp [LM.bind_apply, LM.get, hgt]
      cases lb; simp at this ⊢; exact this
  have hwf0 : WF { lb with pos := 0 } := isBoundary_zero _
  by_cases hemp : lb.buf = []
  · simp [LB.kill, LM.bind_apply, LM.notify, LM.get, hstart, hemp] at hrun
    obtain ⟨rfl, rfl, rfl⟩ := hrun
    exact checkKill_nothing (by simp [spanOf, hemp]) (by simp [hemp])
  · obtain ⟨x, y, z, d, hd, hbuf, hx, hy⟩ := drainAround_ok (lb := { lb with pos := 0 }) lb.pos hwf0
      (isBoundary_len lb.buf) h (Nat.zero_le _)
    have hd' : LB.drainAround 0 (blen lb.buf) lb.pos { lb with pos := 0 } = _ := hd
    simp [LB.kill, LM.bind_apply, LM.notify, LM.get, hstart, hemp, LB.len, hd'] at hrun
    obtain ⟨rfl, rfl, rfl⟩ := hrun
    have hemp' : lb.buf.isEmpty = false := by simpa using hemp
    have hpos : 0 < blen lb.buf := by
      cases hb : lb.buf with
      | nil => exact absurd hb hemp
      | cons c t => simp [blen]; have := Char.utf8Size_pos c; omega
    exact checkKill_span (a := 0) (b := blen lb.buf) (x := x) (y := y) (z := z)
      (by simp [spanOf, hemp', hpos]) hbuf hx hy rfl (by simp [killedText]) rfl

theorem copy_endOfBuffer_is_span (S : Segmenter) (U : UData) (lb : LB) (r : Option Text)
    (h : WF lb) (hrun : LB.copy S U lb .endOfBuffer = .ok r) :
    checkCopy S U lb .endOfBuffer (.optText r) = none := by
  by_cases hemp : lb.buf.isEmpty = true
  · simp [LB.copy, hemp, pure, Except.pure] at hrun
    subst hrun
    exact checkCopy_nothing (by simp [spanOf, hemp])
  have hemp' : lb.buf.isEmpty = false := by simpa using hemp
  have hlen : lb.len = blen lb.buf := rfl
  by_cases hse : lb.pos = lb.len
  · simp [LB.copy, hemp', hse, pure, Except.pure] at hrun
    subst hrun
    have h1 : ¬ lb.pos < blen lb.buf := by omega
    exact checkCopy_nothing (by simp [spanOf, hemp', h1])
  · obtain ⟨x, y, z, hs3, hbuf, hx, hy⟩ := split3_of_boundaries h (isBoundary_len lb.buf) h.le_len
    have hz : z = [] := by
      have : blen lb.buf = blen x + blen y + blen z := by rw [hbuf]; simp; omega
      exact blen_eq_zero.mp (by omega)
    subst hz
    have hsf : sliceFrom lb.buf lb.pos = .ok y := by
      rw [hbuf, hx]; simpa using sliceFrom_mid x y
    simp [LB.copy, hemp', hse, hsf, bind, Except.bind, pure, Except.pure] at hrun
    subst hrun
    have h1 : lb.pos < blen lb.buf := by have := h.le_len; omega
    exact checkCopy_span (by simp [spanOf, hemp', h1]) hbuf hx hy

theorem copy_beginningOfBuffer_is_span (S : Segmenter) (U : UData) (lb : LB) (r : Option Text)
    (h : WF lb) (hrun : LB.copy S U lb .beginningOfBuffer = .ok r) :
    checkCopy S U lb .beginningOfBuffer (.optText r) = none := by
  by_cases hemp : lb.buf.isEmpty = true
  · simp [LB.copy, hemp, pure, Except.pure] at hrun
    subst hrun
    exact checkCopy_nothing (by simp [spanOf, hemp])
  have hemp' : lb.buf.isEmpty = false := by simpa using hemp
  by_cases hse : lb.pos = 0
  · simp [LB.copy, hemp', hse, pure, Except.pure] at hrun
    subst hrun
    exact checkCopy_nothing (by simp [spanOf, hemp', hse])
  · obtain ⟨x, z, hbuf, hx⟩ := h.split
    have hst : sliceTo lb.buf lb.pos = .ok x := by rw [hbuf, hx]; exact sliceTo_mid x z
    simp [LB.copy, hemp', hse, hst, bind, Except.bind, pure, Except.pure] at hrun
    subst hrun
    have h1 : 0 < lb.pos := by omega
    exact checkCopy_span (x := []) (y := x) (z := z) (a := 0) (b := lb.pos)
      (by simp [spanOf, hemp', h1]) (by simpa using hbuf) rfl (by simpa using hx)

theorem copy_wholeBuffer_is_span (S : Segmenter) (U : UData) (lb : LB) (r : Option Text)
    (h : WF lb) (hrun : LB.copy S U lb .wholeBuffer = .ok r) :
    checkCopy S U lb .wholeBuffer (.optText r) = none := by
  by_cases hemp : lb.buf.isEmpty = true
  · simp [LB.copy, hemp, pure, Except.pure] at hrun
    subst hrun
    exact checkCopy_nothing (by simp [spanOf, hemp])
  have hemp' : lb.buf.isEmpty = false := by simpa using hemp
  simp [LB.copy, hemp', pure, Except.pure] at hrun
  subst hrun
  have hne : lb.buf ≠ [] := by simpa using hemp
  have h1 : 0 < blen lb.buf := blen_pos_of_ne_nil hne
  exact checkCopy_span (x := []) (y := lb.buf) (z := []) (a := 0) (b := blen lb.buf)
    (by simp [spanOf, hemp', h1]) (by simp) rfl (by simp)

end Rl
