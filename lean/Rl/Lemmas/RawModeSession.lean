/- Helper definitions and lemmas for C16 (gap filling): the guard's restore from an arbitrary
   intermediate state, and whole sessions (several reads on one editor, the application changing the
   terminal settings and the editor's configuration between them). -/
import Rl.RawMode
import Rl.Lemmas.RawMode
namespace Rl.RawMode

/-- `disableRaw` on a connected terminal always installs the saved settings, whether or not the
    paste-off write goes through. -/
theorem disableRaw_termios (m : Mode) (w : Bool) (t : Term) (hc : t.connected = true) :
    (disableRaw m w t).2.termios = m.termios.inner ∧ (disableRaw m w t).2.connected = true := by
  obtain ⟨tm, lg, rf, cn⟩ := t
  simp only at hc
  subst hc
  cases ho : m.ttyOut <;> cases w <;>
    simp [disableRaw, Term.setattr, Term.write, NixTermios.intoLibc, ho]

/-- an `Err` from `enableRaw` means nothing at all was done to the terminal -/
theorem enableRaw_none (cfg : Cfg) (t t1 : Term) (h : enableRaw cfg t = (none, t1)) : t1 = t := by
  cases hc : t.connected
  · simp [enableRaw, hc] at h; exact h.symm
  · rw [enableRaw_eq cfg t hc] at h; simp at h

/-- `enableRaw` on a terminal that has hung up -/
theorem enableRaw_disconnected (cfg : Cfg) (t : Term) (hc : t.connected = false) :
    enableRaw cfg t = (none, t) := by
  simp [enableRaw, hc]

/-! ### sessions -/

/-- one step of an application's session with one editor -/
structure Step where
  /-- settings the application (or a program it ran) installs with `tcsetattr` before this read -/
  app : Option Termios := none
  /-- the editor's configuration during this read (`Editor::set_*` between reads) -/
  cfg : Cfg
  /-- what happens during the read -/
  sc : Script
deriving DecidableEq, Repr

/-- the application's own `tcsetattr` between two reads -/
def appSet (v : Option Termios) (t : Term) : Term :=
  match v with
  | none => t
  | some v => (t.setattr v).2

/-- A session: for every read the pair (settings in force when the read starts, settings in force
    when it has ended), and the terminal at the end. -/
def session : List Step → Term → List (Termios × Termios) × Term
  | [], t => ([], t)
  | s :: rest, t =>
    let t0 := appSet s.app t
    let t1 := (readlineWith s.cfg s.sc t0).2
    let r := session rest t1
    ((t0.termios, t1.termios) :: r.1, r.2)

/-- the settings the application installed last (those found, if it never installed any) -/
def lastSet : List Step → Termios → Termios
  | [], cur => cur
  | s :: rest, cur => lastSet rest (s.app.getD cur)

/-- the paste switches one read writes -/
def pasteBlock (s : Step) : List Eff :=
  if s.cfg.paste then
    Eff.pasteOn :: (List.replicate s.sc.suspends.length [Eff.pasteOff, Eff.pasteOn]).flatten ++ [Eff.pasteOff]
  else []

theorem appSet_connected (v : Option Termios) (t : Term) (hc : t.connected = true) :
    (appSet v t).connected = true ∧ (appSet v t).termios = v.getD t.termios ∧
    ∃ A, (appSet v t).log = t.log ++ A ∧ switches A = [] := by
  cases v with
  | none => exact ⟨hc, rfl, [], by simp [appSet], rfl⟩
  | some v =>
    refine ⟨?_, ?_, [Eff.setattr v], ?_, rfl⟩ <;> simp [appSet, Term.setattr, hc]

/-- number of paste-on / paste-off switches in a read's block agree -/
theorem pasteBlock_balanced (s : Step) :
    (pasteBlock s).count Eff.pasteOn = (pasteBlock s).count Eff.pasteOff := by
  unfold pasteBlock
  cases s.cfg.paste
  · rfl
  · simp only [if_true]
    generalize s.sc.suspends.length = n
    induction n with
    | zero => decide
    | succ n ih =>
      simp only [List.replicate_succ, List.flatten_cons, List.count_cons, List.count_append,
        List.cons_append, List.nil_append] at ih ⊢
      simp at ih ⊢
      omega

theorem blocks_balanced (steps : List Step) :
    ((steps.map pasteBlock).flatten).count Eff.pasteOn
      = ((steps.map pasteBlock).flatten).count Eff.pasteOff := by
  induction steps with
  | nil => rfl
  | cons s rest ih =>
    simp only [List.map_cons, List.flatten_cons, List.count_append, ih, pasteBlock_balanced]

theorem blocks_last (steps : List Step) :
    (steps.map pasteBlock).flatten = [] ∨
      ((steps.map pasteBlock).flatten).getLast? = some Eff.pasteOff := by
  induction steps with
  | nil => left; rfl
  | cons s rest ih =>
    simp only [List.map_cons, List.flatten_cons]
    rcases ih with h | h
    · rw [h, List.append_nil]
      unfold pasteBlock
      cases s.cfg.paste
      · left; rfl
      · right; exact List.getLast?_concat
    · right
      rw [List.getLast?_append, h]; rfl

/-- how `readline_edit` leaves for each exit kind -/
def exitFlow : Exit → Flow
  | .line => .ret .line
  | .eof => .ret .eof
  | .interrupt => .ret .interrupted
  | .invalidInput => .ret .invalidData
  | .ioError => .ret .io
  | .helperError => .ret .helperErr
  | .helperPanic _ => .unwind
  | .hangup => .ret .io

theorem readlineEdit_flow (cfg : Cfg) (orig : Termios) (ss : List Suspend) (exit : Exit) :
    ∀ t : Term, t.connected = true →
      (readlineEdit cfg { termios := NixTermios.ofLibc orig, ttyOut := cfg.paste } ss exit t).1 = exitFlow exit := by
  induction ss with
  | nil => intro t _; cases exit <;> rfl
  | cons s rest ih =>
    intro t hc
    obtain ⟨t', h1, hc', _⟩ := suspendResume_eq cfg orig s t hc
    simp only [readlineEdit, h1]
    exact ih t' hc'

end Rl.RawMode
