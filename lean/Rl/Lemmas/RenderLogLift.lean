/-
  C02: the render log of the editor model is coherent.  Part 3 — lifting through the key maps.

  `Pres m`: from a state in which prompt, line and cursor are shown (`Sh`), every run of `m` ends in such a
  state, or exits with a coherent log (`LogOK`).  It composes through `bind` / `if` / `match` like a frame fact,
  which is what the tactic `sh_pres` does (after `em_keeps` of `Rl/Lemmas/EditorM.lean`).  Reading and decoding a
  command (`next_cmd`: the emacs / vi key maps, numeric arguments with their `(arg: n)` prompt, the callback) is
  `Pres`.
-/
import Rl.Lemmas.RenderLogEd
namespace Rl
open EM

/-! ### frame facts for the key `Ed.sk` -/

section
variable {α : Type}

theorem sk_rdErr (e : RdErr) : Keeps Ed.sk (rdErr e : EM α) := by
  constructor; intro s; cases e <;> rfl

theorem sk_nextKey (sea : Bool) : Keeps Ed.sk (nextKey sea) := by
  constructor; intro s; unfold nextKey
  cases h : s.input.nextKey sea with
  | error e => exact (sk_rdErr e).h s
  | ok r => rfl

theorem sk_nextChar : Keeps Ed.sk nextChar := by
  constructor; intro s; unfold nextChar
  cases h : s.input.nextChar with
  | error e => exact (sk_rdErr e).h s
  | ok r => rfl

theorem sk_waitForInput (sea : Bool) : Keeps Ed.sk (waitForInput sea) := sk_nextKey sea

theorem sk_readPasted : Keeps Ed.sk readPasted := by
  constructor; intro s; unfold readPasted
  cases h : s.input.readPasted (s.input.size + 1) [] with
  | error e => exact (sk_rdErr e).h s
  | ok r => rfl

theorem sk_termBinding (k : KeyEvent) : Keeps Ed.sk (termBinding k) := by
  constructor; intro s; unfold termBinding
  simp only []
  by_cases h : ((if k == ⟨.char 'D', 8⟩ then some Cmd.endOfFile
    else if k == ⟨.char 'C', 8⟩ then some .interrupt
    else if k == ⟨.char '\\', 8⟩ then some .interrupt
    else if k == ⟨.char 'Z', 8⟩ then some .suspend
    else none) == some Cmd.endOfFile && !s.line.buf.isEmpty) = true
  · rw [if_pos h]
  · rw [if_neg h]

theorem sk_lastInsert : Keeps Ed.sk lastInsert := ⟨fun _ => rfl⟩
theorem sk_lineEmpty : Keeps Ed.sk lineEmpty := ⟨fun _ => rfl⟩
theorem sk_hasHint : Keeps Ed.sk hasHint := ⟨fun _ => rfl⟩
theorem sk_cursorAtEnd : Keeps Ed.sk cursorAtEnd := ⟨fun _ => rfl⟩
theorem sk_lastCharSearch : Keeps Ed.sk lastCharSearch := ⟨fun _ => rfl⟩
theorem sk_getLastCmd : Keeps Ed.sk getLastCmd := ⟨fun _ => rfl⟩
theorem sk_takeNumArgs : Keeps Ed.sk takeNumArgs := ⟨fun _ => rfl⟩
theorem sk_setInputMode (m : InputMode) : Keeps Ed.sk (setInputMode m) := ⟨fun _ => rfl⟩
theorem sk_setLastCmd (c : Cmd) : Keeps Ed.sk (setLastCmd c) := ⟨fun _ => rfl⟩
theorem sk_getLine : Keeps Ed.sk getLine := ⟨fun _ => rfl⟩
theorem sk_getHistIdx : Keeps Ed.sk getHistIdx := ⟨fun _ => rfl⟩
theorem sk_setHistIdx (i : Nat) : Keeps Ed.sk (setHistIdx i) := ⟨fun _ => rfl⟩
theorem sk_getPromptCol : Keeps Ed.sk getPromptCol := ⟨fun _ => rfl⟩
theorem sk_changesBegin : Keeps Ed.sk changesBegin := ⟨fun _ => rfl⟩
theorem sk_changesEnd : Keeps Ed.sk changesEnd := ⟨fun _ => rfl⟩
theorem sk_doingInsert : Keeps Ed.sk doingInsert := Keeps.bind sk_changesBegin fun _ => Keeps.pure _
theorem sk_doneInserting : Keeps Ed.sk doneInserting := Keeps.bind sk_changesEnd fun _ => Keeps.pure _
theorem sk_redoCmd (c : Cmd) (new : Option Nat) : Keeps Ed.sk (redoCmd c new) :=
  Keeps.bind sk_lastInsert fun _ => Keeps.liftP _
theorem sk_truncateChanges (m : Nat) : Keeps Ed.sk (truncateChanges m) := ⟨fun _ => rfl⟩
theorem sk_ringYankCount (n : Nat) : Keeps Ed.sk (ringYankCount n) := ⟨fun _ => rfl⟩

theorem sk_ringYank : Keeps Ed.sk ringYank := by
  constructor; intro s; unfold ringYank
  cases h : s.ring.yank with
  | error e => rfl
  | ok r => rfl
theorem sk_ringYankPop : Keeps Ed.sk ringYankPop := by
  constructor; intro s; unfold ringYankPop
  cases h : s.ring.yankPop with
  | error e => rfl
  | ok r => rfl
theorem sk_ringKill (t : Text) : Keeps Ed.sk (ringKill t) := by
  constructor; intro s; unfold ringKill
  cases h : s.ring.kill t .append with
  | error e => rfl
  | ok r => rfl

end

section
variable (S : Segmenter) (U : UData) (cfg : EdCfg)

/-- an invariant of the editor state that depends on the key `Ed.sk` only, lies between `Sh` and `LogInv` -/
class SkInv (I : Ed → Prop) : Prop where
  of_sk : ∀ {s s' : Ed}, I s → s'.sk = s.sk → I s'
  inv : ∀ {s : Ed}, I s → LogInv S U cfg s
  of_sh : ∀ {s : Ed}, Sh S U cfg s → I s

instance : SkInv S U cfg (Sh S U cfg) := ⟨fun h e => h.of_sk e, fun h => h.inv, fun h => h⟩
instance : SkInv S U cfg (ShA S U cfg) := ⟨fun h e => h.of_sk e, fun h => h.inv, fun h => h.any⟩

/-- `I` is an invariant of `m`; an early exit leaves a coherent log.  `I` is `Sh` (prompt, line and cursor
    shown) in the main loop and `ShA` (the prompt may be that of an incremental search) in the search loop. -/
structure Pres (I : Ed → Prop) {α : Type} (m : EM α) : Prop where
  h : ∀ s, I s → wp m (fun _ s' => I s') (fun _ s' => LogOK S U cfg s') s

/-- `m` repaints: from any state with a coherent log and a known cursor to `Sh` -/
structure Est {α : Type} (m : EM α) : Prop where
  h : ∀ s, LogInv S U cfg s → wp m (fun _ s' => Sh S U cfg s') (fun _ s' => LogOK S U cfg s') s

variable {S U cfg}

namespace Pres
variable {α β : Type} {I : Ed → Prop}

theorem pure (a : α) : Pres S U cfg I (pure a : EM α) := ⟨fun _ h => h⟩

theorem bind {m : EM α} {g : α → EM β} (hm : Pres S U cfg I m) (hg : ∀ a, Pres S U cfg I (g a)) :
    Pres S U cfg I (m >>= g) := by
  constructor
  intro s h
  rw [wp_bind]
  exact wp_mono (hm.h s h) (fun a s' h' => (hg a).h s' h') (fun _ _ h' => h')

theorem bind' {m : Ed → Except (Outcome × Ed) (α × Ed)} {g : α → EM β}
    (hm : Pres S U cfg I (m : EM α)) (hg : ∀ a, Pres S U cfg I (g a)) :
    Pres S U cfg I (@Bind.bind EM _ α β m g) :=
  Pres.bind hm hg

theorem ite {c : Prop} [Decidable c] {a b : EM α} (ha : Pres S U cfg I a) (hb : Pres S U cfg I b) :
    Pres S U cfg I (if c then a else b) := by
  split <;> assumption

theorem of_keeps [hI : SkInv S U cfg I] {m : EM α} (hk : Keeps Ed.sk m) : Pres S U cfg I m := by
  constructor
  intro s h
  exact wp_mono (hk.wp s) (fun _ s' e => hI.of_sk h e) (fun _ s' e => (hI.inv (hI.of_sk h e)).ok)

theorem exit [hI : SkInv S U cfg I] (o : Outcome) : Pres S U cfg I (EM.exit o : EM α) :=
  ⟨fun _ h => (hI.inv h).ok⟩

theorem of_est [hI : SkInv S U cfg I] {m : EM α} (hm : Est S U cfg m) : Pres S U cfg I m :=
  ⟨fun s h => wp_mono (hm.h s (hI.inv h)) (fun _ _ h' => hI.of_sh h') (fun _ _ h' => h')⟩

end Pres

theorem Est.bind_keeps {α β : Type} {m : EM α} {g : α → EM β} (hm : Keeps Ed.lk m) (hg : ∀ a, Est S U cfg (g a)) :
    Est S U cfg (m >>= g) := by
  constructor
  intro s h
  rw [wp_bind]
  exact wp_mono (hm.wp s) (fun a s' e => (hg a).h s' (h.of_lk e)) (fun _ s' e => (h.of_lk e).ok)

theorem lk_of_sk {α : Type} {m : EM α} (h : Keeps Ed.sk m) : Keeps Ed.lk m :=
  Keeps.comp (fun k => (k.1, k.2.1)) h

end

/-- closes / decomposes a goal `Pres S U cfg (Sh S U cfg) m` -/
macro "sh_pres_step" : tactic => `(tactic| first
  | intro _
  | with_reducible (first
    | exact Pres.pure _
    | apply Pres.bind
    | apply Pres.bind'
    | apply Pres.ite
    | assumption
    | exact Pres.exit _
    | exact Pres.of_keeps (Keeps.liftP _)
    | exact Pres.of_keeps Keeps.get
    | exact Pres.of_keeps (Keeps.read _)
    | exact Pres.of_keeps (sk_nextKey _)
    | exact Pres.of_keeps sk_nextChar
    | exact Pres.of_keeps (sk_waitForInput _)
    | exact Pres.of_keeps sk_readPasted
    | exact Pres.of_keeps (sk_termBinding _)
    | exact Pres.of_keeps sk_lastInsert
    | exact Pres.of_keeps sk_lineEmpty
    | exact Pres.of_keeps sk_hasHint
    | exact Pres.of_keeps sk_cursorAtEnd
    | exact Pres.of_keeps sk_lastCharSearch
    | exact Pres.of_keeps sk_getLastCmd
    | exact Pres.of_keeps sk_takeNumArgs
    | exact Pres.of_keeps (sk_setInputMode _)
    | exact Pres.of_keeps (sk_setLastCmd _)
    | exact Pres.of_keeps sk_getLine
    | exact Pres.of_keeps sk_getHistIdx
    | exact Pres.of_keeps (sk_setHistIdx _)
    | exact Pres.of_keeps sk_getPromptCol
    | exact Pres.of_keeps (sk_redoCmd _ _)
    | exact Pres.of_keeps sk_changesBegin
    | exact Pres.of_keeps sk_changesEnd
    | exact Pres.of_keeps sk_doingInsert
    | exact Pres.of_keeps sk_doneInserting
    | exact Pres.of_keeps (sk_truncateChanges _)
    | exact Pres.of_keeps (sk_ringYankCount _)
    | exact Pres.of_keeps sk_ringYank
    | exact Pres.of_keeps sk_ringYankPop
    | exact Pres.of_keeps (sk_ringKill _))
  | ((with_reducible apply Pres.of_keeps) <;> (with_reducible apply Keeps.modify) <;> (intro _; rfl))
  | exact Pres.of_keeps (Keeps.read _)
  | split
  | dsimp only)

syntax "sh_pres" ("[" term,* "]")? : tactic
macro_rules
  | `(tactic| sh_pres) => `(tactic| repeat' sh_pres_step)
  | `(tactic| sh_pres [$ts,*]) =>
    `(tactic| repeat' (first | (with_reducible first $[| apply $ts]*) | sh_pres_step))

/-! ### the key maps -/

section
variable {S : Segmenter} {U : UData} {cfg : EdCfg}
variable (hc : 2 ≤ cfg.cols) (hprompt : C02_Plain S (edR U cfg) cfg.prompt)
include hc hprompt
set_option linter.unusedSectionVars false

theorem pres_refreshLine : Pres S U cfg (Sh S U cfg) (refreshLine S U cfg) :=
  ⟨fun _ h => wp_refreshLine_sh hc hprompt h.inv⟩

theorem est_refreshLine : Est S U cfg (refreshLine S U cfg) :=
  ⟨fun _ h => wp_refreshLine_sh hc hprompt h⟩

theorem pres_customBinding (keys : List KeyEvent) (n : Nat) (p : Bool) :
    Pres S U cfg (Sh S U cfg) (customBinding cfg keys n p) :=
  ⟨fun _ h => wp_customBinding_sh hc hprompt keys n p h⟩

/-- the `(arg: n)` loop of emacs mode: a dynamic prompt while the argument is typed, the own prompt again
    before the key that ends it is returned; no callback in between -/
theorem est_emacsDigitLoop (negative : Bool) (fuel : Nat) (mag : Option Nat) :
    Est S U cfg (emacsDigitLoop S U cfg negative fuel mag) := by
  induction fuel generalizing mag with
  | zero => unfold emacsDigitLoop; exact ⟨fun s h => h.ok⟩
  | succ k ih =>
    unfold emacsDigitLoop
    constructor
    intro s h
    simp only [wp_bind, wp_modify]
    refine wp_mono (wp_refreshPromptAndLine_loginv hc hprompt _ (h.of_eq rfl rfl)) (fun _ s1 h1 => ?_) (fun _ _ e => e)
    refine wp_mono ((sk_nextKey true).wp s1) (fun key s2 e2 => ?_) (fun _ s2 e2 => (h1.of_lk (by
      simp only [Ed.sk, Ed.lk, Prod.mk.injEq] at e2 ⊢; exact ⟨e2.1, e2.2.1⟩)).ok)
    have h2 : LogInv S U cfg s2 := h1.of_lk (by
      simp only [Ed.sk, Ed.lk, Prod.mk.injEq] at e2 ⊢; exact ⟨e2.1, e2.2.1⟩)
    have hfin : wp (do refreshLine S U cfg; Pure.pure key : EM KeyEvent) (fun _ s' => Sh S U cfg s')
        (fun _ s' => LogOK S U cfg s') s2 := by
      rw [wp_bind]
      exact wp_mono (wp_refreshLine_sh hc hprompt h2) (fun _ _ e => e) (fun _ _ e => e)
    split
    · split
      · exact (ih _).h s2 h2
      · split
        · exact (ih _).h s2 h2
        · exact hfin
    · exact hfin

theorem est_viDigitLoop (fuel : Nat) : Est S U cfg (viDigitLoop S U cfg fuel) := by
  induction fuel with
  | zero => unfold viDigitLoop; exact ⟨fun s h => h.ok⟩
  | succ k ih =>
    unfold viDigitLoop
    constructor
    intro s h
    rw [wp_bind', wp_read, wp_bind]
    refine wp_mono (wp_refreshPromptAndLine_loginv hc hprompt _ h) (fun _ s1 h1 => ?_) (fun _ _ e => e)
    rw [wp_bind]
    refine wp_mono ((sk_nextKey false).wp s1) (fun key s2 e2 => ?_) (fun _ s2 e2 => (h1.of_lk (by
      simp only [Ed.sk, Ed.lk, Prod.mk.injEq] at e2 ⊢; exact ⟨e2.1, e2.2.1⟩)).ok)
    have h2 : LogInv S U cfg s2 := h1.of_lk (by
      simp only [Ed.sk, Ed.lk, Prod.mk.injEq] at e2 ⊢; exact ⟨e2.1, e2.2.1⟩)
    have hfin : wp (do refreshLine S U cfg; Pure.pure key : EM KeyEvent) (fun _ s' => Sh S U cfg s')
        (fun _ s' => LogOK S U cfg s') s2 := by
      rw [wp_bind]
      exact wp_mono (wp_refreshLine_sh hc hprompt h2) (fun _ _ e => e) (fun _ _ e => e)
    split
    · split
      · simp only [wp_bind, wp_modify]
        exact ih.h _ (h2.of_eq rfl rfl)
      · exact hfin
    · exact hfin

/-- the callback while a search prompt may be on display -/
theorem pres_customBinding_any (keys : List KeyEvent) (n : Nat) (p : Bool) :
    Pres S U cfg (ShA S U cfg) (customBinding cfg keys n p) :=
  ⟨fun _ h => wp_customBinding_sha hc hprompt keys n p h⟩

/-! the key maps, for `I = Sh` (main loop) and `I = ShA` (inside an incremental search) -/
variable (I : Ed → Prop) [hI : SkInv S U cfg I]
variable (hcb : ∀ keys n p, Pres S U cfg I (customBinding cfg keys n p))
include hI hcb

theorem pres_customSeqBinding (fuel : Nat) (keys : List KeyEvent) (n : Nat) (p : Bool) :
    Pres S U cfg I (customSeqBinding cfg fuel keys n p) := by
  induction fuel generalizing keys with
  | zero => unfold customSeqBinding; sh_pres
  | succ k ih =>
    unfold customSeqBinding
    sh_pres
    exact ih _

theorem pres_common_fallback (fuel : Nat) (keys : List KeyEvent) (n : Nat) (p : Bool) :
    Pres S U cfg I (common.fallback cfg fuel keys n p) := by
  unfold common.fallback
  sh_pres
  exact pres_customSeqBinding hc hprompt I hcb _ _ _ _

theorem pres_common (fuel : Nat) (keys : List KeyEvent) (key : KeyEvent) (n : Nat) (p : Bool) :
    Pres S U cfg I (common cfg fuel keys key n p) := by
  have := pres_common_fallback hc hprompt I hcb fuel keys n p
  unfold common
  sh_pres

theorem pres_emacs (fuel : Nat) (key : KeyEvent) : Pres S U cfg I (emacs S U cfg fuel key) := by
  have h1 := fun ng m => Pres.of_est (I := I) (est_emacsDigitLoop hc hprompt ng fuel m)
  have h2 := fun keys key n p => pres_common hc hprompt I hcb fuel keys key n p
  have h3 := fun keys n p => pres_customSeqBinding hc hprompt I hcb fuel keys n p
  have h4 := fun keys n p => hcb keys n p
  unfold emacs emacsDigitArgument emacsNumArgs emacs.charSearchCmd
  sh_pres [h1, h2, h3, h4]

theorem pres_viCharSearch (c : Char) : Pres S U cfg I (viCharSearch c) := by
  unfold viCharSearch; sh_pres

theorem pres_viArgDigit (fuel : Nat) (d : Char) : Pres S U cfg I (viArgDigit S U cfg fuel d) := by
  have := Pres.of_est (I := I) (est_viDigitLoop hc hprompt fuel)
  unfold viArgDigit; sh_pres

theorem pres_viNumArgs : Pres S U cfg I viNumArgs := by
  unfold viNumArgs; sh_pres

theorem pres_viCmdMotion (fuel : Nat) (key : KeyEvent) (n : Nat) :
    Pres S U cfg I (viCmdMotion S U cfg fuel key n) := by
  have h1 := fun d => pres_viArgDigit hc hprompt I hcb fuel d
  have h2 := pres_viNumArgs hc hprompt I hcb
  have h3 := fun c => pres_viCharSearch hc hprompt I hcb c
  unfold viCmdMotion
  sh_pres [h1, h3]

theorem pres_viCommand (fuel : Nat) (key : KeyEvent) : Pres S U cfg I (viCommand S U cfg fuel key) := by
  have h1 := fun d => pres_viArgDigit hc hprompt I hcb fuel d
  have h2 := pres_viNumArgs hc hprompt I hcb
  have h3 := fun c => pres_viCharSearch hc hprompt I hcb c
  have h4 := fun key n => pres_viCmdMotion hc hprompt I hcb fuel key n
  have h5 := fun keys key n p => pres_common hc hprompt I hcb fuel keys key n p
  have h6 := fun keys n p => hcb keys n p
  unfold viCommand
  sh_pres [h1, h3, h4, h5, h6]

theorem pres_viInsert (fuel : Nat) (key : KeyEvent) : Pres S U cfg I (viInsert S U cfg fuel key) := by
  have h4 := fun key => pres_viCommand hc hprompt I hcb fuel key
  have h5 := fun keys key n p => pres_common hc hprompt I hcb fuel keys key n p
  have h6 := fun keys n p => hcb keys n p
  unfold viInsert
  sh_pres [h4, h5, h6]

/-- **`next_cmd` keeps the screen in step**: reading and decoding the next command — the callback included —
    leaves prompt, line and cursor shown. -/
theorem pres_nextCmdI (fuel : Nat) (sea iep : Bool) : Pres S U cfg I (nextCmd S U cfg fuel sea iep) := by
  have h1 := fun key => pres_emacs hc hprompt I hcb fuel key
  have h2 := fun key => pres_viInsert hc hprompt I hcb fuel key
  have h3 := fun key => pres_viCommand hc hprompt I hcb fuel key
  unfold nextCmd
  sh_pres [h1, h2, h3]

omit hI hcb in
theorem pres_nextCmd (fuel : Nat) (sea iep : Bool) : Pres S U cfg (Sh S U cfg) (nextCmd S U cfg fuel sea iep) :=
  pres_nextCmdI hc hprompt (Sh S U cfg) (fun k n p => pres_customBinding hc hprompt k n p) fuel sea iep

omit hI hcb in
/-- `next_cmd` inside an incremental search: the prompt on display stays on display -/
theorem pres_nextCmd_any (fuel : Nat) (sea iep : Bool) : Pres S U cfg (ShA S U cfg) (nextCmd S U cfg fuel sea iep) :=
  pres_nextCmdI hc hprompt (ShA S U cfg) (fun k n p => pres_customBinding_any hc hprompt k n p) fuel sea iep

end
end Rl
