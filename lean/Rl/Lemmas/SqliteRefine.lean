/-
  Refinement lemmas for C20: the content of the row store (rows without their rowids) evolves
  as the declarative store of Rl/Spec/Sqlite.lean prescribes, and the index flag follows the
  ignore-dups setting over every operation.
-/
import Rl.Sqlite
import Rl.Spec.Sqlite
import Rl.Lemmas.Sqlite
namespace Rl.Sq
open Rl

/-- a row without its rowid: (session, line) -/
def key (r : Row) : Nat × Text := (r.session, r.entry)

/-- the session the next accepted line of this connection is stored under -/
def Hist.sidOf (h : Hist) : Nat := if h.sessionId = 0 then h.db.sessions + 1 else h.sessionId

/-- abstraction: the declarative store state a connection stands for (holes in rowids forgotten) -/
def Hist.abs (h : Hist) : Spec.Sq.SState :=
  { entries := h.db.rows.map key, epoch := h.sidOf, max := h.maxLen,
    ignoreSpace := h.ignoreSpace, ignoreDups := h.ignoreDups }

/-- invariant of a connection together with "the unique index exists iff ignore-dups is on" -/
structure Good (h : Hist) : Prop where
  inv : Inv h
  idx : h.db.index = h.ignoreDups

theorem refused_abs (ws : Char → Bool) (h : Hist) (l : Text) :
    Spec.Sq.refused ws h.abs l = h.ignore ws l := by
  unfold Spec.Sq.refused Hist.ignore Hist.abs
  cases l with
  | nil => simp
  | cons c t =>
    by_cases hm : h.maxLen = 0
    · simp [hm]
    · cases hsp : h.ignoreSpace <;> cases hw : ws c <;> simp [hm, hw]

theorem createSession_full {h : Hist} (hinit : h.db.init = true) (hidx : h.db.index = h.ignoreDups) :
    h.createSession.db.rows = h.db.rows ∧ h.createSession.db.index = h.ignoreDups ∧
    h.createSession.sessionId = h.sidOf ∧ h.createSession.maxLen = h.maxLen ∧
    h.createSession.ignoreSpace = h.ignoreSpace ∧ h.createSession.ignoreDups = h.ignoreDups := by
  obtain ⟨⟨init, sessions, rows, index⟩, ml, isp, idp, sid, rid⟩ := h
  simp only at hinit hidx
  subst hinit; subst hidx
  by_cases hs : sid = 0
  · subst hs
    cases index <;> by_cases hr : rid = 0 <;>
      simp [Hist.createSession, Hist.checkSchema, Hist.setIgnoreDupsIndex, Hist.updateRowId, hr, Hist.sidOf]
  · simp [Hist.createSession, hs, Hist.sidOf]

theorem sidOf_ne_zero (h : Hist) : h.sidOf ≠ 0 := by
  unfold Hist.sidOf; split <;> omega

theorem filter_key (rows : List Row) (sid : Nat) (l : Text) :
    (rows.filter (fun r => !sameKey r { rowid := k, session := sid, entry := l })).map key =
      (rows.map key).filter (· != (sid, l)) := by
  induction rows with
  | nil => rfl
  | cons r rs ih =>
    have hp : (!sameKey r { rowid := k, session := sid, entry := l }) = (key r != (sid, l)) := by
      simp only [sameKey, key, bne]
      congr 1
      rw [Bool.eq_iff_iff]
      simp [and_comm]
    simp only [List.filter_cons, List.map_cons, hp]
    split <;> simp [ih]

/-- one `add` is one `addLine` of the declarative store on the abstraction -/
theorem add_abs (ws : Char → Bool) {h : Hist} (hg : Good h) (l : Text) :
    (h.add ws l).1.abs = (Spec.Sq.addLine ws h.abs l).1 ∧
    (h.add ws l).2 = (Spec.Sq.addLine ws h.abs l).2 ∧ Good (h.add ws l).1 := by
  have hgi : Inv (h.add ws l).1 := add_inv ws hg.inv l
  obtain ⟨e1, e2, e3, e4, e5, e6⟩ := createSession_full hg.inv.init hg.idx
  unfold Spec.Sq.addLine
  rw [refused_abs]
  unfold Hist.add at hgi ⊢
  cases hig : h.ignore ws l
  · simp only [Bool.false_eq_true, if_false]
    simp only [hig, Bool.false_eq_true, if_false] at hgi
    refine ⟨?_, rfl, hgi, ?_⟩
    · have hs : (h.createSession.addEntry l).1.sidOf = h.sidOf := by
        simp [Hist.addEntry, Hist.sidOf, e3]
        intro h0
        exact absurd h0 (sidOf_ne_zero h)
      simp only [Hist.abs, hs]
      simp only [Hist.addEntry, e1, e2, e3, e4, e5, e6]
      congr 1
      by_cases hd : h.ignoreDups = true <;> simp [hd, key, filter_key]
    · simp [Hist.addEntry, e2, e6]
  · simp only [if_true]
    exact ⟨by trivial, by trivial, hg⟩

/-- a whole session's worth of adds is `addLines` of the declarative store -/
theorem addAll_abs (ws : Char → Bool) {h : Hist} (hg : Good h) (ls : List Text) :
    (addAll ws h ls).1.abs = (Spec.Sq.addLines ws h.abs ls).1 ∧
    (addAll ws h ls).2 = (Spec.Sq.addLines ws h.abs ls).2 ∧ Good (addAll ws h ls).1 := by
  induction ls generalizing h with
  | nil => exact ⟨rfl, rfl, hg⟩
  | cons l ls ih =>
    obtain ⟨a1, a2, a3⟩ := add_abs ws hg l
    obtain ⟨b1, b2, b3⟩ := ih a3
    simp only [addAll, Spec.Sq.addLines]
    rw [← a1, ← a2]
    exact ⟨b1, by rw [b2], b3⟩

/-! ### the index flag follows the setting over every operation -/

theorem openDb_idx (c : Cfg) {db : Db} (hfresh : db.init = false → db.index = false) :
    (Hist.openDb c db).db.index = (Hist.openDb c db).ignoreDups := by
  obtain ⟨init, sessions, rows, index⟩ := db
  obtain ⟨ml, isp, idp⟩ := c
  cases init
  · have : index = false := hfresh rfl
    subst this
    cases idp <;> by_cases hdup : hasDup rows = true <;>
      simp [Hist.openDb, Hist.checkSchema, Hist.setIgnoreDupsIndex, hdup]
  · cases idp <;> cases index <;> by_cases hdup : hasDup rows = true <;>
      simp [Hist.openDb, Hist.checkSchema, Hist.setIgnoreDupsIndex, hdup, Hist.updateRowId]

theorem openDb_good (c : Cfg) {h : Hist} (hi : Inv h) : Good (Hist.openDb c h.db) :=
  { inv := openDb_inv c hi.sorted hi.pos (fun h0 => by rw [hi.init] at h0; cases h0)
    idx := openDb_idx c (fun h0 => by rw [hi.init] at h0; cases h0) }

/-- operations that only read leave the file and the settings alone -/
def SameDb (h h' : Hist) : Prop := h'.db = h.db ∧ h'.ignoreDups = h.ignoreDups

theorem bump_same (h : Hist) (k : Nat) : SameDb h (h.bump k) := by
  unfold Hist.bump SameDb; split <;> simp

theorem get_same (h : Hist) (i : Nat) (d : Dir) : SameDb h (h.get i d).1 := by
  unfold Hist.get
  split
  · exact ⟨rfl, rfl⟩
  · split
    · exact bump_same h _
    · exact ⟨rfl, rfl⟩

theorem searchMatch_same (fts : Text → Text → Bool) (h : Hist) (t : Text) (s : Nat) (d : Dir)
    (sw : Bool) : SameDb h (h.searchMatch fts t s d sw).1 := by
  unfold Hist.searchMatch
  split
  · exact ⟨rfl, rfl⟩
  · split
    · exact ⟨rfl, rfl⟩
    · simp only
      split
      · exact bump_same h _
      · exact ⟨rfl, rfl⟩

theorem hint_same (fts : Text → Text → Bool) (h : Hist) (t : Text) (p : Nat) :
    SameDb h (h.hint fts t p).1 := by
  unfold Hist.hint
  split
  · exact ⟨rfl, rfl⟩
  · simp only
    have := searchMatch_same fts h t (if (h.len == h.len) = true then h.len - 1 else h.len) .reverse true
    unfold Hist.startsWith
    generalize Hist.searchMatch fts h t _ Dir.reverse true = res at this
    rcases res with ⟨h', _ | ⟨i, e, p'⟩⟩
    · exact this
    · simp only
      split
      · exact this
      · split <;> exact this

theorem Good.of_same {h h' : Hist} (hg : Good h) (hi : Inv h') (hs : SameDb h h') : Good h' :=
  { inv := hi, idx := by rw [hs.1, hs.2]; exact hg.idx }

theorem step_good (ws : Char → Bool) (fts : Text → Text → Bool) {h : Hist} (hg : Good h) (op : QOp) :
    Good (h.step ws fts op).1 := by
  have hi := step_inv ws fts hg.inv op
  cases op with
  | add l => exact (add_abs ws hg l).2.2
  | setMax n =>
    refine ⟨hi, ?_⟩
    have := hg.idx
    simp only [Hist.step, Hist.setMaxLen]
    split <;> simpa using this
  | dups b =>
    refine ⟨hi, ?_⟩
    have := hg.idx
    obtain ⟨⟨init, sessions, rows, index⟩, ml, isp, idp, sid, rid⟩ := h
    simp only at this
    subst this
    cases b <;> cases index <;> by_cases hdup : hasDup rows = true <;>
      simp [Hist.step, Hist.setIgnoreDups, Hist.setIgnoreDupsIndex, hdup]
  | space b => exact ⟨hi, hg.idx⟩
  | reopen c => exact openDb_good c hg.inv
  | crash c ls =>
    simp only [Hist.step]
    exact openDb_good c (addAll_abs ws (openDb_good c hg.inv) ls).2.2.inv
  | len => exact hg
  | get i d => exact hg.of_same hi (get_same h i d)
  | walk => exact hg
  | search t s d => exact hg.of_same hi (searchMatch_same fts h t s d false)
  | startsWith t s d => exact hg.of_same hi (searchMatch_same fts h t s d true)
  | hint t => exact hg.of_same hi (hint_same fts h t _)

theorem run_good (ws : Char → Bool) (fts : Text → Text → Bool) {h : Hist} (hg : Good h) (ops : List QOp) :
    Good (h.run ws fts ops).1 := by
  induction ops generalizing h with
  | nil => exact hg
  | cons op ops ih => simp only [Hist.run]; exact ih (step_good ws fts hg op)

theorem fresh_good (c : Cfg) : Good (Hist.openDb c {}) :=
  { inv := openDb_inv (db := {}) c (by simp [Sorted]) (by simp) (fun _ => rfl)
    idx := openDb_idx c (fun _ => rfl) }

end Rl.Sq
