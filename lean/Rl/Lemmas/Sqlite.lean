/-
  Helper lemmas for property C20 (model: Rl/Sqlite.lean).
-/
import Rl.Sqlite
import Rl.Spec.Sqlite
namespace Rl.Sq
open Rl

/-! ### ASCII case folding keeps byte lengths -/

theorem toLower_utf8Size (c : Char) : c.toLower.utf8Size = c.utf8Size := by
  unfold Char.toLower
  split
  · rename_i h
    obtain ⟨h1, h2⟩ := h
    have e1 : 'A'.val = 65 := by decide
    have e2 : 'Z'.val = 90 := by decide
    have e3 : 'a'.val = 97 := by decide
    rw [e1] at h1; rw [e2] at h2
    have h3 : c.val.toNat ≤ 90 := UInt32.le_iff_toNat_le.mp h2
    have h4 : 65 ≤ c.val.toNat := UInt32.le_iff_toNat_le.mp h1
    have a1 : c.val ≤ 127 := by
      apply UInt32.le_iff_toNat_le.mpr
      show c.val.toNat ≤ 127
      omega
    have a2 : c.val + 32 ≤ 127 := by
      apply UInt32.le_iff_toNat_le.mpr
      rw [UInt32.toNat_add]
      show (c.val.toNat + 32) % 2 ^ 32 ≤ 127
      omega
    simp only [Char.utf8Size, e1, e3]
    have : (97 : UInt32) - 65 = 32 := by decide
    rw [this]
    simp [a1, a2]
  · rfl

theorem blen_lower (t : Text) : blen (lower t) = blen t := by
  induction t with
  | nil => rfl
  | cons c t ih => simp [lower, toLower_utf8Size] at *; rw [ih]

theorem lower_append (a b : Text) : lower (a ++ b) = lower a ++ lower b := by simp [lower]

theorem lower_length (a : Text) : (lower a).length = a.length := by simp [lower]

/-- a piece of the folded text is the folding of a piece of the text -/
theorem lower_split {e x y : Text} (h : lower e = x ++ y) :
    ∃ a b, e = a ++ b ∧ lower a = x ∧ lower b = y := by
  refine ⟨e.take x.length, e.drop x.length, (List.take_append_drop _ _).symm, ?_, ?_⟩
  · have : List.map Char.toLower e = x ++ y := h
    simp only [lower, List.map_take, this]; simp
  · have : List.map Char.toLower e = x ++ y := h
    simp only [lower, List.map_drop, this]; simp

theorem blen_eq_of_lower_eq {a t : Text} (h : lower a = lower t) : blen a = blen t := by
  rw [← blen_lower a, h, blen_lower]

/-! ### `match_pos` is truthful -/

theorem matchPos_startsWith {e t : Text} {pos : Nat} (h : matchPos e t true = some pos) :
    ∃ a b, e = a ++ b ∧ pos = blen a ∧ lower a = lower t := by
  simp only [matchPos, if_true] at h
  split at h
  · rename_i hp
    simp at h
    obtain ⟨k, hk⟩ := List.isPrefixOf_iff_prefix.mp hp
    obtain ⟨a, b, hab, ha, _⟩ := lower_split hk.symm
    exact ⟨a, b, hab, by rw [← h, blen_eq_of_lower_eq ha], ha⟩
  · simp at h

theorem matchPos_search {e t : Text} {pos : Nat} (h : matchPos e t false = some pos) :
    ∃ a b, e = a ++ b ∧ pos = blen a ∧ lower t <+: lower b := by
  simp only [matchPos, Bool.false_eq_true, if_false] at h
  obtain ⟨⟨x, y, hxy, hoff⟩, _⟩ := findSub_some h
  rw [List.append_assoc] at hxy
  obtain ⟨a, b, hab, ha, hb⟩ := lower_split hxy
  refine ⟨a, b, hab, ?_, ?_⟩
  · rw [hoff, ← ha, blen_lower]
  · rw [hb]; exact List.prefix_append _ _

theorem firstVerified_some {t : Text} {sw : Bool} {l : List Row} {r : Row} {pos : Nat}
    (h : firstVerified t sw l = some (r, pos)) : r ∈ l ∧ matchPos r.entry t sw = some pos := by
  induction l with
  | nil => simp [firstVerified] at h
  | cons x xs ih =>
    simp only [firstVerified] at h
    split at h
    · rename_i p hp
      simp at h
      obtain ⟨rfl, rfl⟩ := h
      exact ⟨List.mem_cons_self, hp⟩
    · obtain ⟨h1, h2⟩ := ih h
      exact ⟨List.mem_cons_of_mem _ h1, h2⟩

/-- what `search_match` can answer -/
theorem searchMatch_some {fts : Text → Text → Bool} {h : Hist} {t : Text} {s : Nat} {d : Dir} {sw : Bool}
    {i : Nat} {e : Text} {pos : Nat}
    (hs : (h.searchMatch fts t s d sw).2 = some (i, e, pos)) :
    t ≠ [] ∧ ∃ r, r ∈ h.db.rows ∧ r.entry = e ∧ i = r.rowid - 1 ∧ matchPos e t sw = some pos ∧
      (d = .forward → s + 1 ≤ r.rowid) ∧ (d = .reverse → r.rowid ≤ s + 1) := by
  have key : ∀ (cands : List Row), (∀ r ∈ cands, r ∈ h.db.rows ∧ (d = .forward → s + 1 ≤ r.rowid) ∧ (d = .reverse → r.rowid ≤ s + 1)) →
      ∀ q, (match firstVerified t sw (cands.filter (fun r => fts q r.entry)) with
        | some (r, pos) => (h.bump r.rowid, some (r.rowid - 1, r.entry, pos))
        | none => (h, none)).2 = some (i, e, pos) →
      ∃ r, r ∈ h.db.rows ∧ r.entry = e ∧ i = r.rowid - 1 ∧ matchPos e t sw = some pos ∧
        (d = .forward → s + 1 ≤ r.rowid) ∧ (d = .reverse → r.rowid ≤ s + 1) := by
    intro cands hc q hq
    split at hq
    · rename_i r p hf
      simp at hq
      obtain ⟨rfl, rfl, rfl⟩ := hq
      obtain ⟨hm, hp⟩ := firstVerified_some hf
      rw [List.mem_filter] at hm
      obtain ⟨h1, h2, h3⟩ := hc r hm.1
      exact ⟨r, h1, rfl, rfl, hp, h2, h3⟩
    · simp at hq
  unfold Hist.searchMatch at hs
  split at hs
  · simp at hs
  · rename_i hg
    have ht : t ≠ [] := by
      intro h0; subst h0; simp at hg
    refine ⟨ht, ?_⟩
    split at hs
    · simp at hs
    · rename_i q hq
      cases d with
      | forward =>
        refine key _ ?_ q hs
        intro r hr
        rw [List.mem_filter] at hr
        exact ⟨hr.1, fun _ => by simpa using hr.2, fun hd => by cases hd⟩
      | reverse =>
        refine key _ ?_ q hs
        intro r hr
        rw [List.mem_reverse, List.mem_filter] at hr
        exact ⟨hr.1, fun hd => (by cases hd), fun _ => by simpa using hr.2⟩


/-! ### the walk -/

/-- what the walk shows for a row -/
def shown (r : Row) : Nat × Text := (r.rowid - 1, r.entry)

/-- rows in rowid order -/
def Sorted (rows : List Row) : Prop := rows.Pairwise (fun a b => a.rowid < b.rowid)

/-- invariant of a connection: the table is in rowid order, rowids start at 1, and the cached
    largest rowid (`len`) bounds every rowid -/
structure Inv (h : Hist) : Prop where
  sorted : Sorted h.db.rows
  pos : ∀ r ∈ h.db.rows, 1 ≤ r.rowid
  bound : ∀ r ∈ h.db.rows, r.rowid ≤ h.rowId
  init : h.db.init = true

theorem getRow_reverse {h : Hist} {pre post : List Row} {k : Nat} (hr : h.db.rows = pre ++ post)
    (h1 : ∀ r ∈ pre, r.rowid ≤ k + 1) (h2 : ∀ r ∈ post, k + 1 < r.rowid) :
    h.getRow k .reverse = pre.getLast? := by
  simp only [Hist.getRow, hr, List.filter_append]
  have e1 : pre.filter (fun r => decide (r.rowid ≤ k + 1)) = pre :=
    List.filter_eq_self.mpr (fun a ha => by simpa using h1 a ha)
  have e2 : post.filter (fun r => decide (r.rowid ≤ k + 1)) = [] :=
    List.filter_eq_nil_iff.mpr (fun a ha => by have := h2 a ha; simp; omega)
  rw [e1, e2, List.append_nil]

theorem getRow_forward {h : Hist} {pre post : List Row} {k : Nat} (hr : h.db.rows = pre ++ post)
    (h1 : ∀ r ∈ pre, r.rowid < k + 1) :
    h.getRow k .forward = post.find? (fun r => k + 1 ≤ r.rowid) := by
  simp only [Hist.getRow, hr, List.find?_append]
  have e1 : pre.find? (fun r => decide (k + 1 ≤ r.rowid)) = none :=
    List.find?_eq_none.mpr (fun a ha => by have := h1 a ha; simp; omega)
  rw [e1]; rfl

theorem walkDown_eq {h : Hist} (hne : h.rowId ≠ 0) :
    ∀ (n : Nat) (pre post : List Row) (hi fuel : Nat), pre.length = n → h.db.rows = pre ++ post → Sorted pre →
      (∀ r ∈ pre, 1 ≤ r.rowid) → (∀ r ∈ pre, r.rowid ≤ hi) → (∀ r ∈ post, hi < r.rowid) → hi ≤ h.rowId →
      pre.length < fuel →
      walkDown h hi fuel = (pre.reverse.map shown, match pre.head? with | some r => r.rowid - 1 | none => hi) := by
  intro n
  induction n with
  | zero =>
    intro pre post hi fuel hn hr _ _ _ h2 hle hf
    have : pre = [] := List.eq_nil_of_length_eq_zero hn
    subst this
    obtain ⟨f, rfl⟩ : ∃ f, fuel = f + 1 := ⟨fuel - 1, by simp at hf; omega⟩
    simp only [walkDown, Hist.isEmpty, Hist.len, Hist.get]
    have he : (h.rowId == 0) = false := by simp [hne]
    simp only [he, Bool.false_or]
    by_cases h0 : hi = 0
    · simp [h0]
    · have hg : h.getRow (hi - 1) .reverse = none := by
        rw [getRow_reverse (pre := []) (post := post) (by simpa using hr) (by simp)
          (fun r hr' => by have := h2 r hr'; omega)]
        rfl
      simp [h0, hg]
  | succ n ih =>
    intro pre post hi fuel hn hr hs hp h1 h2 hle hf
    rcases List.eq_nil_or_concat pre with rfl | ⟨pre', r, rfl⟩
    · simp at hn
    · rw [List.concat_eq_append] at *
      obtain ⟨f, rfl⟩ : ∃ f, fuel = f + 1 := ⟨fuel - 1, by omega⟩
      have hrm : r ∈ pre' ++ [r] := by simp
      have hr1 : 1 ≤ r.rowid := hp r hrm
      have hrhi : r.rowid ≤ hi := h1 r hrm
      have hs' := List.pairwise_append.mp hs
      have hg : h.getRow (hi - 1) .reverse = some r := by
        rw [getRow_reverse (pre := pre' ++ [r]) (post := post) hr
          (fun x hx => by have := h1 x hx; omega) (fun x hx => by have := h2 x hx; omega)]
        simp
      simp only [walkDown, Hist.isEmpty, Hist.len, Hist.get]
      have he : (h.rowId == 0) = false := by simp [hne]
      have h0 : (hi == 0) = false := by simp; omega
      have hlt : hi - 1 < h.rowId := by omega
      simp only [he, h0, Bool.false_or, hlt, if_true, hg, Bool.false_eq_true, if_false]
      have := ih pre' (r :: post) (r.rowid - 1) f (by simpa using hn) (by simp [hr]) hs'.1
        (fun x hx => hp x (by simp [hx]))
        (fun x hx => by have := hs'.2.2 x hx r (by simp); omega)
        (fun x hx => by
          rcases List.mem_cons.mp hx with rfl | hx
          · omega
          · have := h2 x hx; omega)
        (by omega) (by simp at hf; omega)
      rw [this]
      simp only [List.reverse_append, List.reverse_cons, List.reverse_nil, List.nil_append,
        List.singleton_append, List.map_cons, shown]
      congr 1
      cases pre' <;> simp

theorem walkUp_eq {h : Hist} :
    ∀ (post pre : List Row) (hi fuel : Nat), h.db.rows = pre ++ post → Sorted (pre ++ post) →
      (∀ r ∈ pre, r.rowid ≤ hi + 1) → (∀ r ∈ post, hi + 2 ≤ r.rowid) → (∀ r ∈ post, r.rowid ≤ h.rowId) →
      post.length < fuel → walkUp h hi fuel = post.map shown := by
  intro post
  induction post with
  | nil =>
    intro pre hi fuel hr _ h1 _ _ hf
    obtain ⟨f, rfl⟩ : ∃ f, fuel = f + 1 := ⟨fuel - 1, by simp at hf; omega⟩
    have hg : h.getRow (hi + 1) .forward = none := by
      rw [getRow_forward (pre := pre) (post := []) hr (fun x hx => by have := h1 x hx; omega)]
      rfl
    simp only [walkUp, Hist.get, hg, ite_self]
    repeat' (first | rfl | split)
  | cons r post ih =>
    intro pre hi fuel hr hs h1 h2 h3 hf
    obtain ⟨f, rfl⟩ : ∃ f, fuel = f + 1 := ⟨fuel - 1, by omega⟩
    have hr2 : hi + 2 ≤ r.rowid := h2 r (by simp)
    have hr3 : r.rowid ≤ h.rowId := h3 r (by simp)
    have hg : h.getRow (hi + 1) .forward = some r := by
      rw [getRow_forward (pre := pre) (post := r :: post) hr (fun x hx => by have := h1 x hx; omega)]
      simp only [List.find?_cons]
      have : decide (hi + 1 + 1 ≤ r.rowid) = true := by simp; omega
      simp [this]
    have hne : h.rowId ≠ 0 := by omega
    have he : h.isEmpty = false := by simp [Hist.isEmpty, hne]
    have hl : (hi == h.len) = false := by simp [Hist.len]; omega
    have hlt : hi + 1 < h.len := by simp [Hist.len]; omega
    simp only [walkUp, he, hl, Bool.false_or, Bool.false_eq_true, if_false, hlt, if_true, Hist.get, hg]
    have hs' := List.pairwise_append.mp hs
    have hs2 := List.pairwise_cons.mp hs'.2.1
    have := ih (pre ++ [r]) (r.rowid - 1) f (by simp [hr]) (by simpa using hs)
      (fun x hx => by
        rcases List.mem_append.mp hx with hx | hx
        · have := h1 x hx; omega
        · simp at hx; subst hx; omega)
      (fun x hx => by have := hs2.1 x hx; omega)
      (fun x hx => h3 x (by simp [hx]))
      (by simp at hf; omega)
    simp only [List.map_cons, shown]
    rw [this]

theorem walk_eq {h : Hist} (hi : Inv h) {fuel : Nat} (hf : h.db.rows.length < fuel) :
    walk h fuel = (h.db.rows.reverse.map shown, h.db.rows.tail.map shown) := by
  unfold walk
  by_cases hne : h.rowId = 0
  · -- `is_empty()`: nothing is shown; the bound says the table is empty
    have : h.db.rows = [] := by
      cases hrows : h.db.rows with
      | nil => rfl
      | cons r rs =>
        have h1 := hi.pos r (by simp [hrows]); have h2 := hi.bound r (by simp [hrows]); omega
    obtain ⟨f, rfl⟩ : ∃ f, fuel = f + 1 := ⟨fuel - 1, by omega⟩
    simp [walkDown, walkUp, Hist.isEmpty, Hist.len, hne, this]
  · have hd := walkDown_eq hne h.db.rows.length h.db.rows [] h.len fuel rfl (by simp) hi.sorted hi.pos
      hi.bound (by simp) (Nat.le_refl _) hf
    rw [hd]
    simp only
    cases hrows : h.db.rows with
    | nil =>
      obtain ⟨f, rfl⟩ : ∃ f, fuel = f + 1 := ⟨fuel - 1, by omega⟩
      simp [walkUp]
    | cons r0 rest =>
      simp only [List.head?_cons, List.tail_cons]
      have hs : Sorted ([r0] ++ rest) := by have := hi.sorted; rw [hrows] at this; simpa using this
      have hs0 : List.Pairwise (fun a b : Row => a.rowid < b.rowid) (r0 :: rest) := by
        have := hi.sorted; rw [hrows] at this; exact this
      have hs2 := List.pairwise_cons.mp hs0
      have h1 := hi.pos r0 (by simp [hrows])
      rw [walkUp_eq rest [r0] (r0.rowid - 1) fuel (by simp [hrows]) hs
        (fun x hx => by simp at hx; subst hx; omega)
        (fun x hx => by have := hs2.1 x hx; omega)
        (fun x hx => hi.bound x (by simp [hrows, hx]))
        (by rw [hrows] at hf; simp at hf; omega)]


/-! ### every operation keeps the invariant -/

theorem le_maxRowid {rows : List Row} (hs : Sorted rows) {r : Row} (hr : r ∈ rows) :
    r.rowid ≤ maxRowid rows := by
  unfold maxRowid
  cases hl : rows.getLast? with
  | none => simp [List.getLast?_eq_none_iff] at hl; subst hl; simp at hr
  | some l =>
    obtain ⟨ys, rfl⟩ := List.getLast?_eq_some_iff.mp hl
    simp only
    rcases List.mem_append.mp hr with h1 | h1
    · have := (List.pairwise_append.mp hs).2.2 r h1 l (by simp); omega
    · simp at h1; subst h1; exact Nat.le_refl _

theorem Inv.of_sublist {h h' : Hist} (hi : Inv h) (hsub : h'.db.rows.Sublist h.db.rows)
    (hle : h.rowId ≤ h'.rowId) (hin : h'.db.init = true) : Inv h' :=
  { sorted := List.Pairwise.sublist hsub hi.sorted
    pos := fun r hr => hi.pos r (hsub.subset hr)
    bound := fun r hr => Nat.le_trans (hi.bound r (hsub.subset hr)) hle
    init := hin }

theorem setIgnoreDupsIndex_rows (h : Hist) :
    h.setIgnoreDupsIndex.db.rows.Sublist h.db.rows ∧ h.setIgnoreDupsIndex.rowId = h.rowId ∧
    h.setIgnoreDupsIndex.db.init = h.db.init ∧ h.setIgnoreDupsIndex.db.sessions = h.db.sessions := by
  unfold Hist.setIgnoreDupsIndex
  split
  · split
    · exact ⟨List.Sublist.refl _, rfl, rfl, rfl⟩
    · split
      · exact ⟨List.filter_sublist, rfl, rfl, rfl⟩
      · exact ⟨List.Sublist.refl _, rfl, rfl, rfl⟩
  · exact ⟨List.Sublist.refl _, rfl, rfl, rfl⟩

theorem setIgnoreDupsIndex_inv {h : Hist} (hi : Inv h) : Inv h.setIgnoreDupsIndex := by
  obtain ⟨h1, h2, h3, _⟩ := setIgnoreDupsIndex_rows h
  exact hi.of_sublist h1 (by omega) (by rw [h3]; exact hi.init)

theorem updateRowId_inv {h : Hist} (hs : Sorted h.db.rows) (hp : ∀ r ∈ h.db.rows, 1 ≤ r.rowid)
    (hin : h.db.init = true) : Inv h.updateRowId :=
  { sorted := hs, pos := hp, bound := fun _ hr => le_maxRowid hs hr, init := hin }

theorem checkSchema_inv {h : Hist} (hi : Inv h) : Inv h.checkSchema := by
  unfold Hist.checkSchema
  simp only [hi.init, if_true, Bool.or_true, Bool.and_true]
  have h1 := setIgnoreDupsIndex_inv hi
  split
  · exact updateRowId_inv h1.sorted h1.pos h1.init
  · exact h1

/-- opening a database file whose table is in rowid order -/
theorem openDb_inv (c : Cfg) {db : Db} (hs : Sorted db.rows) (hp : ∀ r ∈ db.rows, 1 ≤ r.rowid)
    (hfresh : db.init = false → db.rows = []) : Inv (Hist.openDb c db) := by
  obtain ⟨init, sessions, rows, index⟩ := db
  obtain ⟨ml, isp, idp⟩ := c
  have hd : Sorted (dedupe rows) := List.Pairwise.filter _ hs
  have hdp : ∀ r ∈ dedupe rows, 1 ≤ r.rowid := fun r hr => hp r (List.mem_filter.mp hr).1
  cases init
  · have : rows = [] := hfresh rfl
    subst this
    cases idp <;> cases index <;>
      simp [Hist.openDb, Hist.checkSchema, Hist.setIgnoreDupsIndex, hasDup] <;>
      exact ⟨List.Pairwise.nil, (by simp), (by simp), rfl⟩
  · cases idp <;> cases index <;> by_cases hdup : hasDup rows = true <;>
      simp [Hist.openDb, Hist.checkSchema, Hist.setIgnoreDupsIndex, hdup, Hist.updateRowId] <;>
      first
        | exact ⟨hs, hp, fun r hr => le_maxRowid hs hr, rfl⟩
        | exact ⟨hd, hdp, fun r hr => le_maxRowid hd hr, rfl⟩

theorem createSession_inv {h : Hist} (hi : Inv h) : Inv h.createSession := by
  unfold Hist.createSession
  split
  · have := checkSchema_inv hi
    exact { sorted := this.sorted, pos := this.pos, bound := this.bound, init := this.init }
  · exact hi

theorem addEntry_inv {h : Hist} (hi : Inv h) (l : Text) : Inv (h.addEntry l).1 := by
  unfold Hist.addEntry
  simp only
  have hk : ∀ (kept : List Row), kept.Sublist h.db.rows →
      Sorted (kept ++ [{ rowid := maxRowid h.db.rows + 1, session := h.sessionId, entry := l }]) ∧
      (∀ r ∈ kept ++ [({ rowid := maxRowid h.db.rows + 1, session := h.sessionId, entry := l } : Row)],
        1 ≤ r.rowid ∧ r.rowid ≤ maxRowid h.db.rows + 1) := by
    intro kept hsub
    refine ⟨List.pairwise_append.mpr ⟨List.Pairwise.sublist hsub hi.sorted, by simp, ?_⟩, ?_⟩
    · intro a ha b hb
      simp at hb; subst hb
      have := le_maxRowid hi.sorted (hsub.subset ha)
      simp; omega
    · intro r hr
      rcases List.mem_append.mp hr with h1 | h1
      · have := le_maxRowid hi.sorted (hsub.subset h1)
        exact ⟨hi.pos r (hsub.subset h1), by omega⟩
      · simp at h1; subst h1; simp
  split
  · obtain ⟨h1, h2⟩ := hk _ (List.filter_sublist (l := h.db.rows))
    exact { sorted := h1, pos := fun r hr => (h2 r hr).1, bound := fun r hr => (h2 r hr).2, init := hi.init }
  · obtain ⟨h1, h2⟩ := hk _ (List.Sublist.refl _)
    exact { sorted := h1, pos := fun r hr => (h2 r hr).1, bound := fun r hr => (h2 r hr).2, init := hi.init }

theorem add_inv (ws : Char → Bool) {h : Hist} (hi : Inv h) (l : Text) : Inv (h.add ws l).1 := by
  unfold Hist.add
  split
  · exact hi
  · exact addEntry_inv (createSession_inv hi) l

theorem addAll_inv (ws : Char → Bool) {h : Hist} (hi : Inv h) (ls : List Text) : Inv (addAll ws h ls).1 := by
  induction ls generalizing h with
  | nil => exact hi
  | cons l ls ih => simp only [addAll]; exact ih (add_inv ws hi l)

theorem bump_inv {h : Hist} (hi : Inv h) (k : Nat) : Inv (h.bump k) := by
  unfold Hist.bump
  split
  · exact hi.of_sublist (List.Sublist.refl _) (by simp; omega) hi.init
  · exact hi

theorem get_inv {h : Hist} (hi : Inv h) (i : Nat) (d : Dir) : Inv (h.get i d).1 := by
  unfold Hist.get
  split
  · exact hi
  · split
    · exact bump_inv hi _
    · exact hi

theorem searchMatch_inv (fts : Text → Text → Bool) {h : Hist} (hi : Inv h) (t : Text) (s : Nat) (d : Dir)
    (sw : Bool) : Inv (h.searchMatch fts t s d sw).1 := by
  unfold Hist.searchMatch
  split
  · exact hi
  · split
    · exact hi
    · simp only
      split
      · exact bump_inv hi _
      · exact hi

theorem hint_inv (fts : Text → Text → Bool) {h : Hist} (hi : Inv h) (t : Text) (p : Nat) :
    Inv (h.hint fts t p).1 := by
  unfold Hist.hint
  split
  · exact hi
  · simp only
    have := searchMatch_inv fts hi t (if (h.len == h.len) = true then h.len - 1 else h.len) .reverse true
    unfold Hist.startsWith
    generalize Hist.searchMatch fts h t _ Dir.reverse true = res at this
    rcases res with ⟨h', _ | ⟨i, e, p'⟩⟩
    · exact this
    · simp only
      split
      · exact this
      · split <;> exact this

theorem step_inv (ws : Char → Bool) (fts : Text → Text → Bool) {h : Hist} (hi : Inv h) (op : QOp) :
    Inv (h.step ws fts op).1 := by
  cases op with
  | add l => exact add_inv ws hi l
  | setMax n =>
    simp only [Hist.step, Hist.setMaxLen]
    split
    · exact hi.of_sublist (List.drop_sublist _ _) (Nat.le_refl _) hi.init
    · exact hi.of_sublist (List.Sublist.refl _) (Nat.le_refl _) hi.init
  | dups b =>
    simp only [Hist.step, Hist.setIgnoreDups]
    split
    · exact setIgnoreDupsIndex_inv (h := { h with ignoreDups := b })
        { sorted := hi.sorted, pos := hi.pos, bound := hi.bound, init := hi.init }
    · exact hi
  | space b => exact { sorted := hi.sorted, pos := hi.pos, bound := hi.bound, init := hi.init }
  | reopen c => exact openDb_inv c hi.sorted hi.pos (fun h0 => by rw [hi.init] at h0; cases h0)
  | crash c ls =>
    simp only [Hist.step]
    have h1 := openDb_inv c hi.sorted hi.pos (fun h0 => by rw [hi.init] at h0; cases h0)
    have h2 := addAll_inv ws h1 ls
    exact openDb_inv c h2.sorted h2.pos (fun h0 => by rw [h2.init] at h0; cases h0)
  | len => exact hi
  | get i d => exact get_inv hi i d
  | walk => exact hi
  | search t s d => exact searchMatch_inv fts hi t s d false
  | startsWith t s d => exact searchMatch_inv fts hi t s d true
  | hint t => exact hint_inv fts hi t _

theorem run_inv (ws : Char → Bool) (fts : Text → Text → Bool) {h : Hist} (hi : Inv h) (ops : List QOp) :
    Inv (h.run ws fts ops).1 := by
  induction ops generalizing h with
  | nil => exact hi
  | cons op ops ih => simp only [Hist.run]; exact ih (step_inv ws fts hi op)


/-- `create_session` leaves the table alone when the index already agrees with the setting -/
theorem createSession_rows {h : Hist} (hinit : h.db.init = true) (hidx : h.db.index = h.ignoreDups) :
    h.createSession.db.rows = h.db.rows ∧ h.createSession.db.index = h.ignoreDups ∧
    h.createSession.sessionId = (if h.sessionId = 0 then h.db.sessions + 1 else h.sessionId) := by
  obtain ⟨⟨init, sessions, rows, index⟩, ml, isp, idp, sid, rid⟩ := h
  simp only at hinit hidx
  subst hinit; subst hidx
  by_cases hs : sid = 0
  · subst hs
    cases index <;> by_cases hr : rid = 0 <;>
      simp [Hist.createSession, Hist.checkSchema, Hist.setIgnoreDupsIndex, Hist.updateRowId, hr]
  · simp [Hist.createSession, hs]

/-- reopening a file whose table has no same-session duplicates (or with ignore-dups off) -/
theorem openDb_rows (c : Cfg) {db : Db} (hinit : db.init = true)
    (hnd : c.ignoreDups = true → db.index = false → hasDup db.rows = false) :
    (Hist.openDb c db).db.rows = db.rows := by
  obtain ⟨init, sessions, rows, index⟩ := db
  obtain ⟨ml, isp, idp⟩ := c
  simp only at hinit hnd
  subst hinit
  cases idp <;> cases index <;>
    simp [Hist.openDb, Hist.checkSchema, Hist.setIgnoreDupsIndex, Hist.updateRowId]
  · have := hnd rfl rfl
    simp [this]

end Rl.Sq
