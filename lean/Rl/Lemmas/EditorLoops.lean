/-
  Loop invariants for the sub-loops of `src/lib.rs` in the editor model: circular completion
  (`completeCircular`) and incremental search (`searchLoop`).
-/
import Rl.Lemmas.EditorM
import Rl.Lemmas.EditorOps
import Rl.Lemmas.EditorFrame
namespace Rl
variable (S : Segmenter) (U : UData) (cfg : EdCfg)

theorem wp_lowerMark {mark : Nat} {Q : Nat → Ed → Prop} {E : Outcome → Ed → Prop} {s : Ed} :
    wp (lowerMark mark) Q E s = Q (min mark s.changes.undos.length) s := rfl

/-- circular completion: an aborted loop (result `none`) leaves exactly the backed-up text and cursor -/
theorem completeCircular_abort (start : Nat) (cands : List Text) (mark : Nat) (backup : Text) (backupPos : Nat)
    (hbp : backupPos ≤ blen backup) :
    ∀ (fuel i : Nat) (s : Ed), s.line.canGrow = true →
      wp (completeCircular S U cfg start cands mark backup backupPos fuel i)
        (fun r s' => r = none → s'.line.buf = backup ∧ s'.line.pos = backupPos ∧ s'.line.canGrow = true)
        (fun _ _ => True) s := by
  intro fuel
  induction fuel generalizing mark with
  | zero => intro i s _; unfold completeCircular; exact trivial
  | succ fuel ih =>
    intro i s hg
    unfold completeCircular
    simp only []
    by_cases hlt : i < cands.length
    case' pos =>
      rw [if_pos hlt]
      have hci : cands[i]? = some cands[i] := by simp [hlt]
      rw [hci]
      simp only [wp_bind, wp_getLine]
      refine wp_lb_any S U (fun a l ns h => ?_) trivial
      have hg1 : ({ s with line := l, changes := s.changes.onNotifs S U.alnum ns } : Ed).line.canGrow = true :=
        (LB.replace_canGrow S U h).trans hg
      have hi1 : cands.length ≤ i →
          ({ s with line := l, changes := s.changes.onNotifs S U.alnum ns } : Ed).line.buf = backup ∧
          ({ s with line := l, changes := s.changes.onNotifs S U.alnum ns } : Ed).line.pos = backupPos :=
        fun h => by omega
    case' neg =>
      rw [if_neg hlt]
      simp only [wp_bind]
      refine wp_lb_update S U hg hbp ?_
      have hg1 : ({ s with line := s.line.updated backup backupPos,
                           changes := s.changes.onNotifs S U.alnum (updNotifs s.line.buf backup) } : Ed).line.canGrow = true := hg
      have hi1 : cands.length ≤ i →
          ({ s with line := s.line.updated backup backupPos,
                    changes := s.changes.onNotifs S U.alnum (updNotifs s.line.buf backup) } : Ed).line.buf = backup ∧
          ({ s with line := s.line.updated backup backupPos,
                    changes := s.changes.onNotifs S U.alnum (updNotifs s.line.buf backup) } : Ed).line.pos = backupPos :=
        fun _ => ⟨rfl, rfl⟩
    all_goals
      refine wp_refreshLine S U cfg (fun s2 hc2 => ?_) (fun _ _ _ => trivial)
      obtain ⟨l2, _⟩ := Ed.core_eq hc2
      refine wp_nextCmd S U cfg (fun cmd s3 hc3 => ?_) (fun _ _ _ => trivial)
      rw [wp_lowerMark]
      obtain ⟨l3, _⟩ := Ed.coreNC_eq hc3
      have hg3 : s3.line.canGrow = true := by rw [l3, l2]; exact hg1
      have hi3 : cands.length ≤ i → s3.line.buf = backup ∧ s3.line.pos = backupPos := by
        rw [l3, l2]; exact hi1
      split
      · exact ih _ _ s3 hg3
      · exact ih _ _ s3 hg3
      · by_cases hlt' : i < cands.length
        · rw [if_pos hlt']
          simp only [wp_bind]
          refine wp_lb_update S U hg3 hbp ?_
          refine wp_refreshLine S U cfg (fun s4 hc4 => ?_) (fun _ _ _ => trivial)
          obtain ⟨l4, _⟩ := Ed.core_eq hc4
          simp only [truncateChanges, wp_modify, wp_pure]
          intro _; rw [l4]; exact ⟨rfl, rfl, hg3⟩
        · rw [if_neg hlt']
          simp only [wp_pure, wp_bind, truncateChanges, wp_modify]
          intro _
          obtain ⟨a, b⟩ := hi3 (by omega)
          exact ⟨a, b, hg3⟩
      · simp only [wp_bind, wp_changesEnd, wp_pure]
        intro h; cases h

/-- incremental search: an aborted loop (result `none`) leaves exactly the backed-up text and cursor -/
theorem searchLoop_abort (mark : Nat) (backup : Text) (backupPos : Nat) (hbp : backupPos ≤ blen backup) :
    ∀ (fuel : Nat) (sb : Text) (hi : Nat) (d : Dir) (succ : Bool) (s : Ed), s.line.canGrow = true →
      wp (searchLoop S U cfg mark backup backupPos fuel sb hi d succ)
        (fun r s' => r = none → s'.line.buf = backup ∧ s'.line.pos = backupPos ∧ s'.line.canGrow = true)
        (fun _ _ => True) s := by
  intro fuel
  induction fuel generalizing mark with
  | zero => intro sb hi d succ s _; unfold searchLoop; exact trivial
  | succ fuel ih =>
    intro sb hi d succ s hg
    unfold searchLoop
    simp only [wp_bind]
    refine wp_refreshPromptAndLine S U cfg (fun s2 hc2 => ?_) (fun _ _ _ => trivial)
    obtain ⟨l2, _⟩ := Ed.core_eq hc2
    refine wp_nextCmd S U cfg (fun cmd s3 hc3 => ?_) (fun _ _ _ => trivial)
    rw [wp_lowerMark]
    obtain ⟨l3, _⟩ := Ed.coreNC_eq hc3
    have hg3 : s3.line.canGrow = true := by rw [l3, l2]; exact hg
    have hds : ∀ (mark : Nat) (sb : Text) (hi hi0 : Nat) (d : Dir),
        wp (match (memHist cfg).search sb hi d with
            | some (idx, entry, pos) => do
              lb S U (LB.update S U entry pos)
              searchLoop S U cfg mark backup backupPos fuel sb idx d true
            | none => searchLoop S U cfg mark backup backupPos fuel sb hi0 d false)
          (fun r s' => r = none → s'.line.buf = backup ∧ s'.line.pos = backupPos ∧ s'.line.canGrow = true)
          (fun _ _ => True) s3 := by
      intro mark sb hi hi0 d
      cases (memHist cfg).search sb hi d with
      | none => exact ih _ _ _ _ _ s3 hg3
      | some r =>
        obtain ⟨idx, entry, pos⟩ := r
        simp only [wp_bind]
        refine wp_lb_any S U (fun a l ns h => ?_) trivial
        exact ih _ _ _ _ _ _ (LB.update_keeps_canGrow S U h hg3)
    split
    · exact hds _ _ _ _ _
    · exact ih _ _ _ _ _ s3 hg3
    · split
      · exact hds _ _ _ _ _
      · exact ih _ _ _ _ _ s3 hg3
    · split
      · exact hds _ _ _ _ _
      · exact ih _ _ _ _ _ s3 hg3
    · simp only [wp_bind]
      refine wp_lb_update S U hg3 hbp ?_
      refine wp_refreshLine S U cfg (fun s4 hc4 => ?_) (fun _ _ _ => trivial)
      obtain ⟨l4, _⟩ := Ed.core_eq hc4
      simp only [truncateChanges, wp_modify, wp_pure]
      intro _; rw [l4]; exact ⟨rfl, rfl, hg3⟩
    · simp only [wp_bind]
      refine wp_refreshLine S U cfg (fun s4 hc4 => ?_) (fun _ _ _ => trivial)
      simp only [wp_changesEnd, wp_pure]
      intro h; cases h
end Rl
