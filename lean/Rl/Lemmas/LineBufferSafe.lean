/-
  Helper lemmas for the "total + cursor stays valid" part of C03: Hoare triples over `LM`,
  slicing on boundaries, cluster offsets are boundaries.
-/
import Rl.Lemmas.LineBuffer
namespace Rl
open Rl.Spec

/-- well-formed state: the cursor is on a character boundary of the text -/
def WF (lb : LB) : Prop := IsBoundary lb.buf lb.pos

theorem WF.split {lb : LB} (h : WF lb) : ∃ x s, lb.buf = x ++ s ∧ lb.pos = blen x := by
  obtain ⟨a, b, h1, h2⟩ := h; exact ⟨a, b, h1, h2⟩

theorem isBoundary_zero (t : Text) : IsBoundary t 0 := ⟨[], t, by simp, rfl⟩
theorem isBoundary_len (t : Text) : IsBoundary t (blen t) := ⟨t, [], by simp, rfl⟩
theorem isBoundary_mid (x s : Text) : IsBoundary (x ++ s) (blen x) := ⟨x, s, rfl, rfl⟩

theorem IsBoundary.le_len {t : Text} {p : Nat} (h : IsBoundary t p) : p ≤ blen t := by
  obtain ⟨a, b, rfl, rfl⟩ := h; simp

theorem boundaryB_iff {t : Text} {p : Nat} : boundaryB t p = true ↔ IsBoundary t p := by
  unfold boundaryB
  rw [isBoundary_iff_split]
  cases h : splitAtByte t p with
  | none => simp
  | some ab => obtain ⟨a, b⟩ := ab; simp

theorem sliceFrom_mid (x s : Text) : sliceFrom (x ++ s) (blen x) = .ok s := by
  unfold sliceFrom; rw [splitAtByte_append]

theorem sliceTo_mid (x s : Text) : sliceTo (x ++ s) (blen x) = .ok x := by
  unfold sliceTo; rw [splitAtByte_append]

theorem slice_mid (x y z : Text) : slice (x ++ y ++ z) (blen x) (blen x + blen y) = .ok y := by
  unfold slice; rw [split3_append]

/-! ### cluster offsets are boundaries -/

theorem gidxGo_mem {gs : List Text} {pre : Text} {i : Nat} {g : Text}
    (h : (i, g) ∈ gidxGo (blen pre) gs) :
    ∃ a b, pre ++ gs.flatten = a ++ g ++ b ∧ i = blen a := by
  induction gs generalizing pre with
  | nil => simp [gidxGo] at h
  | cons g0 gs ih =>
    simp only [gidxGo, List.mem_cons] at h
    rcases h with h | h
    · cases h
      exact ⟨pre, gs.flatten, by simp, rfl⟩
    · have h' : (i, g) ∈ gidxGo (blen (pre ++ g0)) gs := by simpa using h
      obtain ⟨a, b, hab, hi⟩ := ih h'
      exact ⟨a, b, by simpa using hab, hi⟩

theorem gidx_mem {S : Segmenter} {s : Text} {i : Nat} {g : Text} (h : (i, g) ∈ gidx S s) :
    ∃ a b, s = a ++ g ++ b ∧ i = blen a := by
  have h' : (i, g) ∈ gidxGo (blen ([] : Text)) (S.seg s) := by simpa [gidx] using h
  obtain ⟨a, b, hab, hi⟩ := gidxGo_mem h'
  rw [S.flatten_eq] at hab
  exact ⟨a, b, by simpa using hab, hi⟩

theorem gidx_mem_ne_nil {S : Segmenter} {s : Text} {i : Nat} {g : Text} (h : (i, g) ∈ gidx S s) : g ≠ [] := by
  have : ∀ (o : Nat) (gs : List Text), (i, g) ∈ gidxGo o gs → g ∈ gs := by
    intro o gs
    induction gs generalizing o with
    | nil => simp [gidxGo]
    | cons g0 gs ih =>
      simp only [gidxGo, List.mem_cons]
      rintro (h | h)
      · cases h; exact Or.inl rfl
      · exact Or.inr (ih _ h)
  exact S.ne_nil s g (this 0 _ (by simpa [gidx] using h))

/-! ### two boundaries delimit a slice -/

theorem prefix_of_append_eq {a1 b1 a2 b2 : Text} (h : a1 ++ b1 = a2 ++ b2) (hl : blen a1 ≤ blen a2) :
    ∃ y, a2 = a1 ++ y := by
  induction a1 generalizing a2 with
  | nil => exact ⟨a2, rfl⟩
  | cons c a1 ih =>
    cases a2 with
    | nil =>
      have := Char.utf8Size_pos c
      simp at hl; omega
    | cons c' a2 =>
      simp only [List.cons_append, List.cons.injEq] at h
      obtain ⟨rfl, h⟩ := h
      simp only [blen_cons] at hl
      obtain ⟨y, rfl⟩ := ih h (by omega)
      exact ⟨y, rfl⟩

theorem split3_of_boundaries {t : Text} {a b : Nat} (ha : IsBoundary t a) (hb : IsBoundary t b)
    (hab : a ≤ b) :
    ∃ x y z, split3 t a b = .ok (x, y, z) ∧ t = x ++ y ++ z ∧ a = blen x ∧ b = blen x + blen y := by
  obtain ⟨x, s, ht, rfl⟩ := ha
  obtain ⟨xy, z, ht2, rfl⟩ := hb
  obtain ⟨y, rfl⟩ := prefix_of_append_eq (ht.symm.trans ht2) hab
  subst ht2
  refine ⟨x, y, z, ?_, rfl, rfl, by simp⟩
  have := split3_append x y z
  simpa using this

/-- `drain` between two boundaries returns; the text loses exactly that slice -/
theorem drain_ok {lb : LB} {a b : Nat} (d : Direction) (ha : IsBoundary lb.buf a) (hb : IsBoundary lb.buf b)
    (hab : a ≤ b) :
    ∃ x y z, LB.drain a b d lb = .ok (y, { lb with buf := x ++ z }, [.del a y d]) ∧
      lb.buf = x ++ y ++ z ∧ a = blen x ∧ b = blen x + blen y := by
  obtain ⟨x, y, z, h1, h2, h3, h4⟩ := split3_of_boundaries ha hb hab
  exact ⟨x, y, z, by simp [LB.drain, h1], h2, h3, h4⟩

theorem insertStr_ok (S : Segmenter) (U : UData) {lb : LB} {i : Nat} (s : Text) (hi : IsBoundary lb.buf i) :
    ∃ x z, LB.insertStr S U i s lb =
        .ok (i == blen lb.buf, { lb with buf := x ++ s ++ z, cap := growCap lb.cap (blen lb.buf + blen s) },
             [.insStr i s]) ∧ lb.buf = x ++ z ∧ i = blen x := by
  obtain ⟨x, z, hb, rfl⟩ := hi
  exact ⟨x, z, by simp [LB.insertStr, hb, splitAtByte_append], hb, rfl⟩

/-! ### evaluation lemmas -/

theorem blen_replicate (n : Nat) (c : Char) : blen (List.replicate n c) = c.utf8Size * n := by
  induction n with
  | zero => simp
  | succ k ih => simp [List.replicate_succ, ih]; rw [Nat.mul_add]; omega

theorem blen_flatten_replicate (n : Nat) (t : Text) : blen (List.replicate n t).flatten = blen t * n := by
  induction n with
  | zero => simp
  | succ k ih => simp [List.replicate_succ, ih]; rw [Nat.mul_add]; omega

theorem insert_eval (S : Segmenter) (U : UData) (c : Char) (n : Nat) (lb : LB) :
    LB.insert S U c n lb =
      if lb.mustTruncate (lb.len + c.utf8Size * n) = true then .ok (none, lb, [])
      else
        match splitAtByte lb.buf lb.pos with
        | none => .error .panic
        | some (x, z) =>
          .ok (some (lb.pos == lb.len),
               { lb with buf := x ++ List.replicate n c ++ z, pos := lb.pos + c.utf8Size * n,
                         cap := growCap lb.cap (blen lb.buf + c.utf8Size * n) },
               [if n = 1 then .insChar lb.pos c else .insStr lb.pos (List.replicate n c)]) := by
  unfold LB.insert
  by_cases ht : lb.mustTruncate (lb.len + c.utf8Size * n) = true
  · simp [LM.bind_apply, LM.get, ht]
  · by_cases h1 : n = 1
    · subst h1
      simp only [Nat.mul_one] at ht
      cases hs : splitAtByte lb.buf lb.pos with
      | none => simp [LM.bind_apply, LM.get, ht, LB.insertCharAtPos, hs]
      | some xz =>
        obtain ⟨x, z⟩ := xz
        simp [LM.bind_apply, LM.get, ht, LB.insertCharAtPos, LM.setPos, hs]
    · cases hs : splitAtByte lb.buf lb.pos with
      | none => simp [LM.bind_apply, LM.get, ht, LB.insertStr, hs, h1]
      | some xz =>
        obtain ⟨x, z⟩ := xz
        simp [LM.bind_apply, LM.get, ht, LB.insertStr, LM.setPos, hs, h1, blen_replicate]

/-- the text `yank` inserts -/
def yankText (text : Text) (n : Nat) : Text := if n = 1 then text else (List.replicate n text).flatten

theorem blen_yankText (text : Text) (n : Nat) : blen (yankText text n) = blen text * n := by
  unfold yankText
  split
  · rename_i h; subst h; simp
  · exact blen_flatten_replicate n text

theorem yank_eval (S : Segmenter) (U : UData) (text : Text) (n : Nat) (lb : LB) :
    LB.yank S U text n lb =
      if (text.isEmpty || lb.mustTruncate (lb.len + blen text * n)) = true then .ok (none, lb, [])
      else
        match splitAtByte lb.buf lb.pos with
        | none => .error .panic
        | some (x, z) =>
          .ok (some (lb.pos == lb.len),
               { lb with buf := x ++ yankText text n ++ z, pos := lb.pos + blen text * n,
                         cap := growCap lb.cap (blen lb.buf + blen text * n) },
               [.insStr lb.pos (yankText text n)]) := by
  unfold LB.yank
  by_cases ht : (text.isEmpty || lb.mustTruncate (lb.len + blen text * n)) = true
  · simp only [LM.bind_apply, LM.get, ht, if_true]; rfl
  · have ht' : ¬(text = [] ∨ lb.mustTruncate (lb.len + blen text * n) = true) := by simpa using ht
    by_cases h1 : n = 1
    · subst h1
      simp only [Nat.mul_one] at ht'
      cases hs : splitAtByte lb.buf lb.pos with
      | none => simp [LM.bind_apply, LM.get, ht', LB.insertStr, hs]
      | some xz =>
        obtain ⟨x, z⟩ := xz
        simp [LM.bind_apply, LM.get, ht', LB.insertStr, LM.setPos, hs, yankText]
    · cases hs : splitAtByte lb.buf lb.pos with
      | none => simp [LM.bind_apply, LM.get, ht', LB.insertStr, hs, h1]
      | some xz =>
        obtain ⟨x, z⟩ := xz
        simp [LM.bind_apply, LM.get, ht', LB.insertStr, LM.setPos, hs, h1, yankText, blen_flatten_replicate]

/-! ### `floorBoundary` -/

theorem floorBoundary_spec (t : Text) (m : Nat) : IsBoundary t (floorBoundary t m) ∧ floorBoundary t m ≤ m := by
  induction m with
  | zero => exact ⟨isBoundary_zero t, Nat.le_refl 0⟩
  | succ k ih =>
    unfold floorBoundary
    split
    · rename_i h
      refine ⟨?_, Nat.le_refl _⟩
      rw [isBoundary_iff_split]
      unfold isCharBoundary at h
      cases hs : splitAtByte t (k + 1) with
      | none => simp [hs] at h
      | some ab => exact ⟨ab.1, ab.2, rfl⟩
    · exact ⟨ih.1, Nat.le_succ_of_le ih.2⟩

theorem isBoundary_min {t : Text} {a b : Nat} (ha : IsBoundary t a) (hb : IsBoundary t b) :
    IsBoundary t (min a b) := by
  by_cases h : a ≤ b
  · rw [Nat.min_eq_left h]; exact ha
  · rw [Nat.min_eq_right (by omega)]; exact hb

/-- `drain_around` from a state whose old cursor `c` is on a boundary: one deletion notification for the
    whole span (its direction says where the cursor stood) -/
theorem drainAround_ok {lb : LB} {a b : Nat} (c : Nat) (ha : IsBoundary lb.buf a) (hb : IsBoundary lb.buf b)
    (hc : IsBoundary lb.buf c) (hab : a ≤ b) :
    ∃ x y z d, LB.drainAround a b c lb = .ok (y, { lb with buf := x ++ z }, [.del a y d]) ∧
      lb.buf = x ++ y ++ z ∧ a = blen x ∧ b = blen x + blen y := by
  unfold LB.drainAround
  by_cases hca : c ≤ a
  · obtain ⟨x, y, z, hd, h1, h2, h3⟩ := drain_ok (lb := lb) .forward ha hb hab
    exact ⟨x, y, z, .forward, by simp [hca, hd], h1, h2, h3⟩
  · have hm : IsBoundary lb.buf (min c b) := isBoundary_min hc hb
    obtain ⟨x1, y1, z1, hs1, _, _, _⟩ := split3_of_boundaries ha hm (by omega)
    obtain ⟨x2, y2, z2, hs2, _, _, _⟩ := split3_of_boundaries hm hb (by omega)
    obtain ⟨x, y, z, hd, h1, h2, h3⟩ := drain_ok (lb := lb) (.around (min c b - a)) ha hb hab
    exact ⟨x, y, z, .around (min c b - a),
      by simp [hca, LM.bind_apply, LM.get, LM.lift, slice, hs1, hs2, hd], h1, h2, h3⟩

theorem isBoundary_prefix {x z : Text} {p : Nat} (h : IsBoundary (x ++ z) p) (hp : p ≤ blen x) : IsBoundary x p := by
  obtain ⟨a, b, hab, rfl⟩ := h
  obtain ⟨y, rfl⟩ := prefix_of_append_eq hab.symm hp
  exact ⟨a, y, rfl, rfl⟩

theorem drain_all (lb : LB) (d : Direction) :
    LB.drain 0 lb.len d lb = .ok (lb.buf, { lb with buf := [] }, [.del 0 lb.buf d]) := by
  have := split3_append [] lb.buf []
  simp at this
  simp [LB.drain, LB.len, this]

theorem insertStr_empty (S : Segmenter) (U : UData) (s : Text) (lb : LB) (h : lb.buf = []) :
    LB.insertStr S U 0 s lb = .ok (true, { lb with buf := s, cap := growCap lb.cap (blen s) }, [.insStr 0 s]) := by
  simp [LB.insertStr, h, splitAtByte]

/-! ### line breaks -/

theorem findChar_some {c : Char} {s : Text} {n : Nat} (h : findChar c s = some n) :
    ∃ a b, s = a ++ c :: b ∧ n = blen a := by
  induction s generalizing n with
  | nil => simp [findChar] at h
  | cons x t ih =>
    simp only [findChar] at h
    split at h
    · rename_i hx
      have : x = c := by simpa using hx
      subst this
      cases h
      exact ⟨[], t, rfl, rfl⟩
    · cases hf : findChar c t with
      | none => simp [hf] at h
      | some k =>
        simp [hf] at h
        obtain ⟨a, b, rfl, rfl⟩ := ih hf
        exact ⟨x :: a, b, rfl, by simp [← h]; omega⟩

theorem rfindChar_some {c : Char} {s : Text} {n : Nat} (h : rfindChar c s = some n) :
    ∃ a b, s = a ++ c :: b ∧ n = blen a := by
  induction s generalizing n with
  | nil => simp [rfindChar] at h
  | cons x t ih =>
    simp only [rfindChar] at h
    split at h
    · rename_i k hk
      cases h
      obtain ⟨a, b, rfl, rfl⟩ := ih hk
      exact ⟨x :: a, b, rfl, by simp; omega⟩
    · split at h
      · rename_i hx
        have : x = c := by simpa using hx
        subst this
        cases h
        exact ⟨[], t, rfl, rfl⟩
      · cases h

theorem utf8Size_newline : Char.utf8Size '\n' = 1 := by decide

/-- `end_of_line` from a well-formed state: a boundary at or after the cursor -/
theorem endOfLine_ok (lb : LB) (h : WF lb) :
    ∃ e, LB.endOfLine lb = .ok e ∧ IsBoundary lb.buf e ∧ lb.pos ≤ e := by
  obtain ⟨x, s, hb, hp⟩ := h.split
  have hsf : sliceFrom lb.buf lb.pos = .ok s := by rw [hb, hp]; exact sliceFrom_mid x s
  unfold LB.endOfLine
  simp only [hsf, bind, Except.bind, pure, Except.pure]
  cases hf : findChar '\n' s with
  | none =>
    refine ⟨lb.len, rfl, isBoundary_len _, ?_⟩
    simp [LB.len, hb, hp]
  | some n =>
    obtain ⟨a, b, rfl, rfl⟩ := findChar_some hf
    refine ⟨_, rfl, ?_, by omega⟩
    rw [hb, hp]
    exact ⟨x ++ a, '\n' :: b, by simp, by simp; omega⟩

/-- `start_of_line` from a well-formed state: a boundary at or before the cursor -/
theorem startOfLine_ok (lb : LB) (h : WF lb) :
    ∃ e, LB.startOfLine lb = .ok e ∧ IsBoundary lb.buf e ∧ e ≤ lb.pos := by
  obtain ⟨x, s, hb, hp⟩ := h.split
  have hsf : sliceTo lb.buf lb.pos = .ok x := by rw [hb, hp]; exact sliceTo_mid x s
  unfold LB.startOfLine
  simp only [hsf, bind, Except.bind, pure, Except.pure]
  cases hf : rfindChar '\n' x with
  | none => exact ⟨_, rfl, isBoundary_zero _, Nat.zero_le _⟩
  | some n =>
    obtain ⟨a, b, rfl, rfl⟩ := rfindChar_some hf
    refine ⟨_, rfl, ?_, ?_⟩
    · rw [hb]
      exact ⟨a ++ ['\n'], b ++ s, by simp, by simp [utf8Size_newline]⟩
    · rw [hp]; simp [utf8Size_newline]

/-! ### Hoare triples -/

/-- from every state satisfying `P`, `m` returns (no panic) in a state satisfying `Q` -/
def Triple {α : Type} (P : LB → Prop) (m : LM α) (Q : α → LB → Prop) : Prop :=
  ∀ lb, P lb → ∃ r lb' ns, m lb = .ok (r, lb', ns) ∧ Q r lb'

namespace Triple
variable {α β : Type}

theorem bind {P : LB → Prop} {m : LM α} {Q : α → LB → Prop} {f : α → LM β} {R : β → LB → Prop}
    (hm : Triple P m Q) (hf : ∀ a, Triple (Q a) (f a) R) : Triple P (m >>= f) R := by
  intro lb hp
  obtain ⟨a, lb1, n1, h1, hq⟩ := hm lb hp
  obtain ⟨b, lb2, n2, h2, hr⟩ := hf a lb1 hq
  refine ⟨b, lb2, n1 ++ n2, ?_, hr⟩
  rw [LM.bind_apply, h1]; simp only []; rw [h2]

theorem pure {P : LB → Prop} {Q : α → LB → Prop} (a : α) (h : ∀ lb, P lb → Q a lb) :
    Triple P (pure a : LM α) Q := by
  intro lb hp; exact ⟨a, lb, [], rfl, h lb hp⟩

theorem get {P : LB → Prop} : Triple P LM.get (fun r lb => r = lb ∧ P lb) := by
  intro lb hp; exact ⟨lb, lb, [], rfl, rfl, hp⟩

theorem setPos {P : LB → Prop} {Q : Unit → LB → Prop} (p : Nat)
    (h : ∀ lb, P lb → Q () { lb with pos := p }) : Triple P (LM.setPos p) Q := by
  intro lb hp; exact ⟨(), _, [], rfl, h lb hp⟩

theorem ro {P : LB → Prop} {Q : α → LB → Prop} (f : LB → Except Panic α)
    (h : ∀ lb, P lb → ∃ r, f lb = .ok r ∧ Q r lb) : Triple P (LM.ro f) Q := by
  intro lb hp
  obtain ⟨r, hr, hq⟩ := h lb hp
  exact ⟨r, lb, [], by simp [LM.ro, hr], hq⟩

theorem weaken {P P' : LB → Prop} {m : LM α} {Q Q' : α → LB → Prop}
    (h : Triple P m Q) (hp : ∀ lb, P' lb → P lb) (hq : ∀ r lb, Q r lb → Q' r lb) : Triple P' m Q' := by
  intro lb hp'
  obtain ⟨r, lb', ns, h1, h2⟩ := h lb (hp lb hp')
  exact ⟨r, lb', ns, h1, hq r lb' h2⟩

end Triple

/-! ### read-only helpers return, with results on boundaries -/

theorem mem_of_getLast? {α : Type} {l : List α} {x : α} (h : l.getLast? = some x) : x ∈ l :=
  List.mem_of_getLast? h

/-- `next_pos` from a well-formed state: no panic; the result is a boundary after the cursor -/
theorem nextPos_ok (S : Segmenter) (lb : LB) (n : Nat) (h : WF lb) :
    ∃ r, LB.nextPos S lb n = .ok r ∧
      ∀ p, r = some p → IsBoundary lb.buf p ∧ lb.pos < p := by
  obtain ⟨x, s, hb, hp⟩ := h.split
  unfold LB.nextPos
  split
  · exact ⟨none, rfl, by simp⟩
  · simp only [hb, hp, sliceFrom_mid, bind, Except.bind, pure, Except.pure]
    refine ⟨_, rfl, ?_⟩
    intro p hp'
    cases hl : ((gidx S s).take n).getLast? with
    | none => simp [hl] at hp'
    | some ig =>
      obtain ⟨i, g⟩ := ig
      simp [hl] at hp'
      have hm : (i, g) ∈ gidx S s := List.mem_of_mem_take (List.mem_of_getLast? hl)
      obtain ⟨a, b, hs, hi⟩ := gidx_mem hm
      have hg := gidx_mem_ne_nil hm
      have hgp := blen_pos_of_ne_nil hg
      subst hs hi hp'
      refine ⟨⟨x ++ a ++ g, b, by simp, by simp; omega⟩, by omega⟩

/-- `prev_pos` from a well-formed state -/
theorem prevPos_ok (S : Segmenter) (lb : LB) (n : Nat) (h : WF lb) :
    ∃ r, LB.prevPos S lb n = .ok r ∧
      ∀ p, r = some p → IsBoundary lb.buf p ∧ p < lb.pos := by
  obtain ⟨x, s, hb, hp⟩ := h.split
  unfold LB.prevPos
  split
  · exact ⟨none, rfl, by simp⟩
  · simp only [hb, hp, sliceTo_mid, bind, Except.bind, pure, Except.pure]
    refine ⟨_, rfl, ?_⟩
    intro p hp'
    cases hl : ((gidx S x).reverse.take n).getLast? with
    | none => simp [hl] at hp'
    | some ig =>
      obtain ⟨i, g⟩ := ig
      simp [hl] at hp'
      have hm : (i, g) ∈ gidx S x := by
        have := List.mem_of_mem_take (List.mem_of_getLast? hl)
        simpa using this
      obtain ⟨a, b, hs, hi⟩ := gidx_mem hm
      have hg := gidx_mem_ne_nil hm
      have hgp := blen_pos_of_ne_nil hg
      subst hs hi hp'
      refine ⟨⟨a, g ++ b ++ s, by simp, rfl⟩, by simp; omega⟩

theorem slice_ok {t : Text} {a b : Nat} (ha : IsBoundary t a) (hb : IsBoundary t b) (hab : a ≤ b) :
    ∃ y, slice t a b = .ok y := by
  obtain ⟨x, y, z, hs, _⟩ := split3_of_boundaries ha hb hab
  exact ⟨y, by simp [slice, hs]⟩


end Rl
