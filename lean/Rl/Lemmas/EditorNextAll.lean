/-
  C17: `next_cmd` in BOTH modes.  `NPI cfg m`: from a state whose pending numeric argument is not
  negative in vi mode (`NumI`), `m` keeps that invariant on return, and if it exits with the panic
  outcome then the state has an over-long last insertion (`D43`: the only panic of `next_cmd` is
  `RepeatCount::try_from(last_insert.len()).unwrap()` in the re-do of a command — known finding D43).
  So the `unreachable!()` of `vi_num_args` is unreachable, as are those of `Cmd::redo`.
-/
import Rl.Lemmas.EditorNext
import Rl.Lemmas.EditorInp
namespace Rl
open EM

/-- vi: the pending numeric argument is never negative (`vi_arg_digit` only appends digits) -/
def NumI (cfg : EdCfg) (s : Ed) : Prop := cfg.vi = true → 0 ≤ s.inp.numArgs

/-- the state of known finding D43: the last insertion recorded in the undo log is longer than a
    `RepeatCount` (`u16`) can hold -/
def D43 (s : Ed) : Prop := ∃ t, s.changes.lastInsert = some t ∧ 65535 < blen t

structure NPI {α : Type} (cfg : EdCfg) (m : EM α) : Prop where
  h : ∀ s, NumI cfg s →
    match m s with
    | .ok (_, s') => NumI cfg s'
    | .error (o, s') => o = .panic → D43 s'

namespace NPI
variable {α β : Type} {cfg : EdCfg}

theorem pure (a : α) : NPI cfg (pure a : EM α) := ⟨fun _ h => h⟩

theorem bind {m : EM α} {f : α → EM β} (hm : NPI cfg m) (hf : ∀ a, NPI cfg (f a)) : NPI cfg (m >>= f) := by
  constructor
  intro s hs
  have h1 := hm.h s hs
  rw [EM.bind_apply]
  cases hms : m s with
  | error e => rw [hms] at h1; exact h1
  | ok r => obtain ⟨a, s1⟩ := r; rw [hms] at h1; exact (hf a).h s1 h1

theorem bind' {m : Ed → Except (Outcome × Ed) (α × Ed)} {f : α → EM β}
    (hm : NPI cfg (m : EM α)) (hf : ∀ a, NPI cfg (f a)) : NPI cfg (@Bind.bind EM _ α β m f) := bind hm hf

theorem ite {c : Prop} [Decidable c] {a b : EM α} (ha : NPI cfg a) (hb : NPI cfg b) :
    NPI cfg (if c then a else b) := by split <;> assumption

theorem exit {o : Outcome} (ho : o ≠ .panic) : NPI cfg (EM.exit o : EM α) :=
  ⟨fun _ _ hp => absurd hp ho⟩

theorem get : NPI cfg EM.get := ⟨fun _ h => h⟩
theorem read (g : Ed → α) : NPI cfg (fun s => .ok (g s, s) : EM α) := ⟨fun _ h => h⟩

theorem modify {g : Ed → Ed} (hg : ∀ s, NumI cfg s → NumI cfg (g s)) : NPI cfg (EM.modify g) :=
  ⟨fun s h => hg s h⟩

/-- a step that neither panics nor touches the input state -/
theorem of_leaf {m : EM α} (hn : NoPanic m) (hk : Keeps Ed.inpOf m) : NPI cfg m := by
  constructor
  intro s hs
  have h2 := hk.h s
  cases hms : m s with
  | error e =>
    obtain ⟨o, s'⟩ := e
    intro hp
    exact absurd hp (hn.h _ _ _ hms)
  | ok r =>
    obtain ⟨a, s'⟩ := r
    rw [hms] at h2
    intro hv
    have : s'.inp = s.inp := h2
    rw [this]; exact hs hv

end NPI

/-- `Cmd::redo` of a repeatable command fails only through the `RepeatCount` conversion of the
    last insertion's length -/
theorem Cmd.redo_error {c : Cmd} (hr : c.isRepeatable = true) {new : Option Nat} {li : Option Text} {e : Panic}
    (h : c.redo new li = .error e) : ∃ t, li = some t ∧ 65535 < blen t := by
  cases c <;> simp only [Cmd.isRepeatable, Cmd.isRepeatableChange, Bool.false_eq_true] at hr <;>
    (try (simp only [Cmd.redo] at h; done)) <;> (try cases h)
  case replace m t =>
    cases t with
    | some t => cases h
    | none =>
      unfold Cmd.redo at h
      simp only [] at h
      split at h
      · cases li with
        | none => simp at h
        | some t =>
          simp only [] at h
          split at h
          · rename_i hl; exact ⟨t, rfl, hl⟩
          · cases h
      · cases h
  case selfInsert n ch => cases li <;> cases h

section
variable (S : Segmenter) (U : UData) (cfg : EdCfg)

theorem npi_redoCmd {c : Cmd} (hr : c.isRepeatable = true) (new : Option Nat) : NPI cfg (redoCmd c new) := by
  constructor
  intro s hs
  unfold redoCmd
  simp only [EM.bind_apply, lastInsert, EM.liftP]
  cases hc : c.redo new s.changes.lastInsert with
  | ok c' => exact hs
  | error e =>
    intro _
    exact Cmd.redo_error hr hc

theorem npi_redo_ite (c : Cmd) (new : Option Nat) :
    NPI cfg (if c.isRepeatable = true then redoCmd c new else (pure c : EM Cmd)) := by
  by_cases hr : c.isRepeatable = true
  · rw [if_pos hr]; exact npi_redoCmd cfg hr new
  · rw [if_neg hr]; exact NPI.pure _

theorem npi_redo_ite' (c x : Cmd) (new : Option Nat) :
    NPI cfg (if (!c.isRepeatable) = true then (pure x : EM Cmd) else redoCmd c new) := by
  by_cases hr : c.isRepeatable = true
  · have : ¬ (!c.isRepeatable) = true := by simp [hr]
    rw [if_neg this]; exact npi_redoCmd cfg hr new
  · have : (!c.isRepeatable) = true := by simpa using hr
    rw [if_pos this]; exact NPI.pure _

theorem npi_takeNumArgs : NPI cfg takeNumArgs := ⟨fun s _ _ => Int.le_refl 0⟩

/-- `vi_num_args`: its `unreachable!()` is unreachable -/
theorem npi_viNumArgs (hvi : cfg.vi = true) : NPI cfg viNumArgs := by
  constructor
  intro s hs
  have h0 := hs hvi
  unfold viNumArgs
  simp only [EM.bind_apply, takeNumArgs]
  have : ¬ (if (s.inp.numArgs == 0) = true then (1 : Int) else s.inp.numArgs) < 0 := by
    split <;> omega
  rw [if_neg this]
  intro _; exact Int.le_refl 0

theorem digitVal_nonneg (c : Char) : 0 ≤ digitVal c := by unfold digitVal; exact Int.natCast_nonneg _

theorem satMulAdd_nonneg {a d : Int} (ha : 0 ≤ a) (hd : 0 ≤ d) : 0 ≤ satMulAdd a d := by
  unfold satMulAdd i16max
  simp only []
  split
  · omega
  · split
    · omega
    · split <;> omega


/-- a step that only reads the state -/
theorem npi_reader {α : Type} {m : EM α} (h : ∀ s, ∃ a, m s = .ok (a, s)) : NPI cfg m := by
  constructor
  intro s hs
  obtain ⟨a, ha⟩ := h s
  rw [ha]; exact hs

theorem npi_termBinding (k : KeyEvent) : NPI cfg (termBinding k) := by
  refine npi_reader cfg fun s => ?_
  unfold termBinding
  simp only []
  by_cases hc : ((if k == ⟨.char 'D', 8⟩ then some Cmd.endOfFile
    else if k == ⟨.char 'C', 8⟩ then some .interrupt
    else if k == ⟨.char '\\', 8⟩ then some .interrupt
    else if k == ⟨.char 'Z', 8⟩ then some .suspend
    else none) == some Cmd.endOfFile && !s.line.buf.isEmpty) = true
  · rw [if_pos hc]; exact ⟨_, rfl⟩
  · rw [if_neg hc]; exact ⟨_, rfl⟩

theorem npi_lineEmpty : NPI cfg lineEmpty := npi_reader cfg fun _ => ⟨_, rfl⟩
theorem npi_hasHint : NPI cfg hasHint := npi_reader cfg fun _ => ⟨_, rfl⟩
theorem npi_cursorAtEnd : NPI cfg cursorAtEnd := npi_reader cfg fun _ => ⟨_, rfl⟩
theorem npi_lastCharSearch : NPI cfg lastCharSearch := npi_reader cfg fun _ => ⟨_, rfl⟩
theorem npi_getLastCmd : NPI cfg getLastCmd := npi_reader cfg fun _ => ⟨_, rfl⟩
theorem npi_setInputMode (m : InputMode) : NPI cfg (setInputMode m) := ⟨fun _ h => h⟩
theorem npi_setLastCmd (c : Cmd) : NPI cfg (setLastCmd c) := ⟨fun _ h => h⟩
theorem npi_changesBegin : NPI cfg changesBegin := NPI.of_leaf noPanic_changesBegin keeps_inp_changesBegin
theorem npi_changesEnd : NPI cfg changesEnd := NPI.of_leaf noPanic_changesEnd keeps_inp_changesEnd
theorem npi_doingInsert : NPI cfg doingInsert := NPI.bind (npi_changesBegin cfg) fun _ => NPI.pure _
theorem npi_doneInserting : NPI cfg doneInserting := NPI.bind (npi_changesEnd cfg) fun _ => NPI.pure _
theorem npi_nextKey (sea : Bool) : NPI cfg (nextKey sea) := NPI.of_leaf (noPanic_nextKey sea) (keeps_inp_nextKey sea)
theorem npi_readPasted : NPI cfg readPasted := NPI.of_leaf noPanic_readPasted keeps_inp_readPasted
theorem npi_customBinding (keys : List KeyEvent) (n : Nat) (p : Bool) : NPI cfg (customBinding cfg keys n p) :=
  NPI.of_leaf (noPanic_customBinding cfg keys n p) (keeps_inp_customBinding cfg keys n p)
theorem npi_refreshLine (hnp : cfg.hinterPanicAt = none) : NPI cfg (refreshLine S U cfg) :=
  NPI.of_leaf (noPanic_refreshLine S U cfg hnp) (keeps_inp_refreshLine S U cfg)
theorem npi_refreshPromptAndLine (hnp : cfg.hinterPanicAt = none) (p : Text) : NPI cfg (refreshPromptAndLine S U cfg p) :=
  NPI.of_leaf (noPanic_refreshPromptAndLine S U cfg hnp p) (keeps_inp_refreshPromptAndLine S U cfg p)

end

macro "em_npi_step" : tactic => `(tactic| first
  | intro _
  | with_reducible (first
    | exact NPI.pure _
    | apply NPI.bind
    | apply NPI.bind'
    | assumption
    | exact NPI.get
    | exact NPI.read _
    | exact npi_nextKey _ _ | exact npi_readPasted _ | exact npi_customBinding _ _ _ _
    | exact npi_termBinding _ _ | exact npi_lineEmpty _ | exact npi_hasHint _ | exact npi_cursorAtEnd _
    | exact npi_lastCharSearch _ | exact npi_getLastCmd _ | exact npi_setInputMode _ _
    | exact npi_setLastCmd _ _ | exact npi_changesBegin _ | exact npi_changesEnd _
    | exact npi_doingInsert _ | exact npi_doneInserting _ | exact npi_takeNumArgs _
    | exact npi_redo_ite _ _ _ | exact npi_redo_ite' _ _ _ _)
  | ((with_reducible apply NPI.exit) <;> (intro hh; cases hh))
  | ((with_reducible apply NPI.modify) <;>
      (intro s hs; first | exact hs | (intro _; exact digitVal_nonneg _) | (intro hv; simp_all)))
  | (with_reducible apply NPI.ite)
  | split
  | dsimp only)

syntax "em_npi" ("[" term,* "]")? : tactic
macro_rules
  | `(tactic| em_npi) => `(tactic| repeat' em_npi_step)
  | `(tactic| em_npi [$ts,*]) =>
    `(tactic| repeat' (first | (with_reducible first $[| apply $ts]*) | em_npi_step))

section
variable (S : Segmenter) (U : UData) (cfg : EdCfg)

theorem npi_customSeqBinding (fuel : Nat) (keys : List KeyEvent) (n : Nat) (p : Bool) :
    NPI cfg (customSeqBinding cfg fuel keys n p) := by
  induction fuel generalizing keys with
  | zero => unfold customSeqBinding; em_npi
  | succ k ih => unfold customSeqBinding; em_npi [ih]

set_option maxHeartbeats 1000000 in
theorem npi_common (fuel : Nat) (keys : List KeyEvent) (key : KeyEvent) (n : Nat) (p : Bool) :
    NPI cfg (common cfg fuel keys key n p) := by
  have h1 := fun keys n p => npi_customSeqBinding cfg fuel keys n p
  have h0 : NPI cfg (common.fallback cfg fuel keys n p) := by unfold common.fallback; em_npi [h1]
  unfold common
  em_npi [h1]

theorem npi_emacsDigitLoop (hvi : cfg.vi = false) (hnp : cfg.hinterPanicAt = none) (negative : Bool) (fuel : Nat)
    (mag : Option Nat) : NPI cfg (emacsDigitLoop S U cfg negative fuel mag) := by
  have r1 := npi_refreshLine S U cfg hnp
  have r2 := fun p => npi_refreshPromptAndLine S U cfg hnp p
  induction fuel generalizing mag with
  | zero => unfold emacsDigitLoop; em_npi
  | succ k ih => unfold emacsDigitLoop; em_npi [r2, ih]

theorem npi_emacs (hvi : cfg.vi = false) (hnp : cfg.hinterPanicAt = none) (fuel : Nat) (key : KeyEvent) :
    NPI cfg (emacs S U cfg fuel key) := by
  have h1 := fun ng m => npi_emacsDigitLoop S U cfg hvi hnp ng fuel m
  have h2 := fun keys key n p => npi_common cfg fuel keys key n p
  have h3 := fun keys n p => npi_customSeqBinding cfg fuel keys n p
  unfold emacs emacsDigitArgument emacsNumArgs emacs.charSearchCmd
  em_npi [h1, h2, h3]


/-! ### vi -/

theorem npi_viDigitLoop (hnp : cfg.hinterPanicAt = none) (fuel : Nat) : NPI cfg (viDigitLoop S U cfg fuel) := by
  have r1 := npi_refreshLine S U cfg hnp
  have r2 := fun p => npi_refreshPromptAndLine S U cfg hnp p
  induction fuel with
  | zero => unfold viDigitLoop; em_npi
  | succ k ih =>
    unfold viDigitLoop
    em_npi [r2, ih]
    -- the digit is appended with saturation: still not negative
    all_goals
      rename_i s hs hv _
      first
        | exact satMulAdd_nonneg (hs hv) (digitVal_nonneg _)
        | exact hs hv

theorem npi_viArgDigit (hnp : cfg.hinterPanicAt = none) (fuel : Nat) (d : Char) :
    NPI cfg (viArgDigit S U cfg fuel d) := by
  have h := npi_viDigitLoop S U cfg hnp fuel
  unfold viArgDigit; em_npi

theorem npi_viCharSearch (c : Char) : NPI cfg (viCharSearch c) := by
  unfold viCharSearch; em_npi

theorem npi_viCmdMotion (hvi : cfg.vi = true) (hnp : cfg.hinterPanicAt = none) (fuel : Nat) (key : KeyEvent)
    (n : Nat) : NPI cfg (viCmdMotion S U cfg fuel key n) := by
  have h1 := fun d => npi_viArgDigit S U cfg hnp fuel d
  have h2 := npi_viNumArgs cfg hvi
  have h3 := fun c => npi_viCharSearch cfg c
  unfold viCmdMotion
  em_npi [h1, h3]

theorem npi_viCommand (hvi : cfg.vi = true) (hnp : cfg.hinterPanicAt = none) (fuel : Nat) (key : KeyEvent) :
    NPI cfg (viCommand S U cfg fuel key) := by
  have h1 := fun d => npi_viArgDigit S U cfg hnp fuel d
  have h2 := npi_viNumArgs cfg hvi
  have h3 := fun c => npi_viCharSearch cfg c
  have h4 := fun key n => npi_viCmdMotion S U cfg hvi hnp fuel key n
  have h5 := fun keys key n p => npi_common cfg fuel keys key n p
  unfold viCommand
  em_npi [h1, h3, h4, h5]

theorem npi_viInsert (hvi : cfg.vi = true) (hnp : cfg.hinterPanicAt = none) (fuel : Nat) (key : KeyEvent) :
    NPI cfg (viInsert S U cfg fuel key) := by
  have h4 := fun key => npi_viCommand S U cfg hvi hnp fuel key
  have h5 := fun keys key n p => npi_common cfg fuel keys key n p
  unfold viInsert
  em_npi [h4, h5]

/-- **`next_cmd`, both modes** (helpers that do not panic): it keeps `NumI`, and its only panic is D43 -/
theorem npi_nextCmd (hnp : cfg.hinterPanicAt = none) (fuel : Nat) (sea iep : Bool) :
    NPI cfg (nextCmd S U cfg fuel sea iep) := by
  by_cases hvi : cfg.vi = true
  · have h2 := fun key => npi_viInsert S U cfg hvi hnp fuel key
    have h3 := fun key => npi_viCommand S U cfg hvi hnp fuel key
    unfold nextCmd waitForInput
    simp only [hvi, Bool.not_true, Bool.false_eq_true, if_false, if_true]
    em_npi [h2, h3]
  · have hvf : cfg.vi = false := by simpa using hvi
    have h1 := fun key => npi_emacs S U cfg hvf hnp fuel key
    unfold nextCmd waitForInput
    simp only [hvf, Bool.not_false, Bool.false_eq_true, if_false, if_true]
    em_npi [h1]

end
end Rl
