/- Helper lemmas for the history-file model (properties C10, C12). -/
import Rl.HistFile
import Rl.Lemmas.History
namespace Rl

/-! ### UTF-8 encoding -/

theorem utf8Bytes_length (c : Char) : (utf8Bytes c).length = c.utf8Size := by
  unfold utf8Bytes Char.utf8Size
  simp only [UInt32.le_iff_toNat_le, Char.toNat]
  generalize c.val.toNat = n
  by_cases h1 : n < 128
  · have : n ≤ 127 := by omega
    simp [h1, this]
  · by_cases h2 : n < 2048
    · have a : ¬ n ≤ 127 := by omega
      have b : n ≤ 2047 := by omega
      simp [h1, h2, a, b]
    · by_cases h3 : n < 65536
      · have a : ¬ n ≤ 127 := by omega
        have b : ¬ n ≤ 2047 := by omega
        have d : n ≤ 65535 := by omega
        simp [h1, h2, h3, a, b, d]
      · have a : ¬ n ≤ 127 := by omega
        have b : ¬ n ≤ 2047 := by omega
        have d : ¬ n ≤ 65535 := by omega
        simp [h1, h2, h3, a, b, d]

theorem bytesOf_length (t : Text) : (bytesOf t).length = blen t := by
  induction t with
  | nil => rfl
  | cons c t ih => simp [bytesOf, List.flatMap_cons, utf8Bytes_length] at *; omega

theorem bytesOf_append (a b : Text) : bytesOf (a ++ b) = bytesOf a ++ bytesOf b := by
  simp [bytesOf]

/-- the first byte of a character's encoding is an ASCII code only for that character -/
theorem utf8Bytes_head_ascii (d : Char) (b : Nat) (hb : b < 128) (h : (utf8Bytes d)[0]? = some b) :
    d = Char.ofNat b := by
  unfold utf8Bytes at h
  by_cases h1 : d.toNat < 128
  · simp [h1] at h
    rw [← h, Char.ofNat_toNat]
  · by_cases h2 : d.toNat < 2048
    · simp [h1, h2] at h; omega
    · by_cases h3 : d.toNat < 65536
      · simp [h1, h2, h3] at h; omega
      · simp [h1, h2, h3] at h; omega

theorem utf8Bytes_head_some (d : Char) : ∃ b, (utf8Bytes d)[0]? = some b := by
  have := utf8Bytes_length d
  have hp := Char.utf8Size_pos d
  cases hu : utf8Bytes d with
  | nil => rw [hu] at this; simp at this; omega
  | cons b _ => exact ⟨b, rfl⟩

/-! ### `str::find(char)` and slicing -/

theorem hfFindChar_none {c : Char} {t : Text} (h : hfFindChar c t = none) : c ∉ t := by
  induction t with
  | nil => simp
  | cons d t ih =>
    simp only [hfFindChar] at h
    split at h
    · simp at h
    · rename_i hd
      cases hf : hfFindChar c t with
      | none => simp [ih hf]; exact fun h' => hd h'.symm
      | some k => simp [hf] at h

theorem hfFindChar_some {c : Char} {t : Text} {i : Nat} (h : hfFindChar c t = some i) :
    ∃ pre rest, t = pre ++ c :: rest ∧ c ∉ pre ∧ i = blen pre := by
  induction t generalizing i with
  | nil => simp [hfFindChar] at h
  | cons d t ih =>
    simp only [hfFindChar] at h
    split at h
    · rename_i hd
      simp at h; subst h; subst hd
      exact ⟨[], t, rfl, by simp, rfl⟩
    · rename_i hd
      cases hf : hfFindChar c t with
      | none => simp [hf] at h
      | some k =>
        simp [hf] at h
        obtain ⟨pre, rest, h1, h2, h3⟩ := ih hf
        refine ⟨d :: pre, rest, by simp [h1], ?_, by simp [← h, h3]; omega⟩
        simp [h2]; exact fun h' => hd h'.symm

theorem sliceTo_append (a b : Text) : hfSliceTo (a ++ b) (blen a) = some a := by
  simp [hfSliceTo, splitAtByte_append]

theorem sliceFrom_append (a b : Text) : hfSliceFrom (a ++ b) (blen a) = some b := by
  simp [hfSliceFrom, splitAtByte_append]

theorem byteAt_append (a : Text) (d : Char) (b : Text) :
    byteAt (a ++ d :: b) (blen a) = (utf8Bytes d)[0]? := by
  unfold byteAt
  have hd : 0 < (utf8Bytes d).length := by rw [utf8Bytes_length]; exact Char.utf8Size_pos d
  rw [bytesOf_append, List.getElem?_append_right (by rw [bytesOf_length]; exact Nat.le_refl _),
    bytesOf_length, Nat.sub_self]
  show (utf8Bytes d ++ bytesOf b)[0]? = _
  rw [List.getElem?_append_left hd]

/-! ### The unescape loop, character level -/

/-- what the unescape loop computes, read off character by character; `none` = a bad escape
    (the loop then keeps the raw line) -/
def unescChars : Text → Option Text
  | [] => some []
  | c :: t =>
    if c = '\\' then
      match t with
      | [] => some []
      | d :: t' =>
        if d = 'n' then (unescChars t').map ('\n' :: ·)
        else if d = 'r' then (unescChars t').map ('\r' :: ·)
        else if d = '\\' then (unescChars t').map ('\\' :: ·)
        else none
    else (unescChars t).map (c :: ·)

theorem unescChars_cons_ne {c : Char} (hc : c ≠ '\\') (t : Text) :
    unescChars (c :: t) = (unescChars t).map (c :: ·) := by
  cases t <;> simp [unescChars, hc]

theorem unescChars_bs_nil : unescChars ['\\'] = some [] := by
  simp [unescChars]

theorem unescChars_bs_cons (d : Char) (t : Text) :
    unescChars ('\\' :: d :: t) =
      if d = 'n' then (unescChars t).map ('\n' :: ·)
      else if d = 'r' then (unescChars t).map ('\r' :: ·)
      else if d = '\\' then (unescChars t).map ('\\' :: ·)
      else none := by
  simp [unescChars]

theorem unescChars_no_bs {t : Text} (h : '\\' ∉ t) : unescChars t = some t := by
  induction t with
  | nil => rfl
  | cons c t ih =>
    simp at h
    have hc : c ≠ '\\' := fun h' => h.1 h'.symm
    simp [unescChars_cons_ne hc, ih h.2]

theorem unescChars_append {pre : Text} (h : '\\' ∉ pre) (t : Text) :
    unescChars (pre ++ t) = (unescChars t).map (pre ++ ·) := by
  induction pre with
  | nil => simp
  | cons c pre ih =>
    simp at h
    have hc : c ≠ '\\' := fun h' => h.1 h'.symm
    simp [unescChars_cons_ne hc, ih h.2]
    cases unescChars t <;> simp

theorem unescLoop_eq (line : Text) : ∀ (fuel : Nat) (str : Text) (copy : Option Text),
    str.length < fuel → (copy = none → line = str) →
    unescLoop line fuel str copy =
      some (match unescChars str with | some u => copy.getD [] ++ u | none => line) := by
  intro fuel
  induction fuel with
  | zero => intro str copy h; omega
  | succ fuel ih =>
    intro str copy hf hc
    simp only [unescLoop]
    cases hfind : hfFindChar '\\' str with
    | none =>
      have hn := hfFindChar_none hfind
      simp only [unescChars_no_bs hn]
      cases copy with
      | none => simp [hc rfl]
      | some s => simp
    | some i =>
      obtain ⟨pre, rest, hstr, hpre, hi⟩ := hfFindChar_some hfind
      subst hstr hi
      simp only [sliceTo_append]
      have hlen : blen (pre ++ '\\' :: rest) = blen pre + 1 + blen rest := by
        simp [show ('\\' : Char).utf8Size = 1 from rfl]; omega
      rw [unescChars_append hpre]
      cases rest with
      | nil =>
        have : ¬ (blen pre + 1 < blen (pre ++ ['\\'])) := by rw [hlen]; simp
        simp only [this, if_false, unescChars_bs_nil]
        simp
      | cons d rest' =>
        have hlt : blen pre + 1 < blen (pre ++ '\\' :: d :: rest') := by
          rw [hlen]; have := Char.utf8Size_pos d; simp; omega
        simp only [hlt, if_true]
        have hb : byteAt (pre ++ '\\' :: d :: rest') (blen pre + 1) = (utf8Bytes d)[0]? := by
          have := byteAt_append (pre ++ ['\\']) d rest'
          simpa [show ('\\' : Char).utf8Size = 1 from rfl] using this
        rw [hb]
        obtain ⟨b, hb0⟩ := utf8Bytes_head_some d
        rw [hb0]
        simp only
        -- slicing after an ASCII escape character
        have hslice : d.utf8Size = 1 →
            hfSliceFrom (pre ++ '\\' :: d :: rest') (blen pre + 1 + 1) = some rest' := by
          intro hd
          have := sliceFrom_append (pre ++ ['\\', d]) rest'
          simpa [show ('\\' : Char).utf8Size = 1 from rfl, hd, Nat.add_assoc] using this
        have hlen' : rest'.length < fuel := by simp at hf; omega
        rw [unescChars_bs_cons]
        have ih' := fun s => ih rest' (some s) hlen' (by simp)
        by_cases h1 : b = 110
        · have hd : d = 'n' := by
            have := utf8Bytes_head_ascii d b (by omega) hb0; rw [this, h1]
          subst hd
          simp [h1, hslice rfl, ih']
          cases unescChars rest' <;> simp
        · by_cases h2 : b = 114
          · have hd : d = 'r' := by
              have := utf8Bytes_head_ascii d b (by omega) hb0; rw [this, h2]
            subst hd
            simp [h2, hslice rfl, ih']
            cases unescChars rest' <;> simp
          · by_cases h3 : b = 92
            · have hd : d = '\\' := by
                have := utf8Bytes_head_ascii d b (by omega) hb0; rw [this, h3]
              subst hd
              simp [h3, hslice rfl, ih']
              cases unescChars rest' <;> simp
            · have hn : d ≠ 'n' := by
                intro hd; subst hd; simp [utf8Bytes] at hb0; exact h1 hb0.symm
              have hr : d ≠ 'r' := by
                intro hd; subst hd; simp [utf8Bytes] at hb0; exact h2 hb0.symm
              have hs : d ≠ '\\' := by
                intro hd; subst hd; simp [utf8Bytes] at hb0; exact h3 hb0.symm
              simp [h1, h2, h3, hn, hr, hs]

/-- the unescape loop never panics, and computes `unescChars` with the raw line as fallback -/
theorem unescape_eq (line : Text) : unescape line = some ((unescChars line).getD line) := by
  unfold unescape
  rw [unescLoop_eq line _ line none (by omega) (fun _ => rfl)]
  cases unescChars line <;> simp

/-! ### escaping -/

theorem unescChars_esc (e : Text) : unescChars (escEntry e) = some e := by
  induction e with
  | nil => rfl
  | cons c t ih =>
    simp only [escEntry]
    split
    · rename_i h; subst h; simp [unescChars_bs_cons, ih]
    · split
      · rename_i h; subst h; simp [unescChars_bs_cons, ih]
      · split
        · rename_i h; subst h; simp [unescChars_bs_cons, ih]
        · rename_i h3; simp [unescChars_cons_ne h3, ih]

theorem esc_no_nl (e : Text) : '\n' ∉ escEntry e := by
  induction e with
  | nil => simp [escEntry]
  | cons c t ih =>
    simp only [escEntry]
    split
    · simp [ih]
    · split
      · simp [ih]
      · split
        · simp [ih]
        · rename_i h1 _ _; simp [ih]; exact fun h => h1 h.symm

theorem esc_no_cr (e : Text) : '\r' ∉ escEntry e := by
  induction e with
  | nil => simp [escEntry]
  | cons c t ih =>
    simp only [escEntry]
    split
    · simp [ih]
    · split
      · simp [ih]
      · split
        · simp [ih]
        · rename_i _ h2 _; simp [ih]; exact fun h => h2 h.symm

theorem esc_eq_nil {e : Text} : escEntry e = [] ↔ e = [] := by
  cases e with
  | nil => simp [escEntry]
  | cons c t => simp only [escEntry]; split <;> (try split) <;> (try split) <;> simp

/-- every prefix of an escaped entry unescapes (dangling backslash dropped) to a prefix of the entry -/
theorem unescChars_esc_prefix (e : Text) : ∀ p : Text, p <+: escEntry e →
    ∃ e', e' <+: e ∧ unescChars p = some e' := by
  induction e with
  | nil =>
    intro p hp
    simp [escEntry] at hp; subst hp
    exact ⟨[], List.prefix_refl _, rfl⟩
  | cons c t ih =>
    intro p hp
    -- a two-character escape
    have two : ∀ (x : Char), (x = 'n' ∨ x = 'r' ∨ x = '\\') → ∀ y : Char,
        unescChars ('\\' :: x :: escEntry t) = (unescChars (escEntry t)).map (y :: ·) →
        (∀ q, unescChars ('\\' :: x :: q) = (unescChars q).map (y :: ·)) →
        y = c → p <+: '\\' :: x :: escEntry t → ∃ e', e' <+: c :: t ∧ unescChars p = some e' := by
      intro x _ y _ hq hy hp'
      subst hy
      cases p with
      | nil => exact ⟨[], List.nil_prefix, rfl⟩
      | cons a p1 =>
        rw [List.cons_prefix_cons] at hp'
        obtain ⟨ha, hp1⟩ := hp'
        subst ha
        cases p1 with
        | nil => exact ⟨[], List.nil_prefix, unescChars_bs_nil⟩
        | cons a2 p2 =>
          rw [List.cons_prefix_cons] at hp1
          obtain ⟨ha2, hp2⟩ := hp1
          subst ha2
          obtain ⟨e', he', hu⟩ := ih p2 hp2
          exact ⟨y :: e', by simpa [List.cons_prefix_cons] using he', by rw [hq, hu]; rfl⟩
    simp only [escEntry] at hp
    split at hp
    · rename_i h
      exact two 'n' (Or.inl rfl) '\n' (by simp [unescChars_bs_cons]) (fun q => by simp [unescChars_bs_cons]) h.symm hp
    · split at hp
      · rename_i h
        exact two 'r' (Or.inr (Or.inl rfl)) '\r' (by simp [unescChars_bs_cons]) (fun q => by simp [unescChars_bs_cons]) h.symm hp
      · split at hp
        · rename_i h
          exact two '\\' (Or.inr (Or.inr rfl)) '\\' (by simp [unescChars_bs_cons]) (fun q => by simp [unescChars_bs_cons]) h.symm hp
        · rename_i h3
          cases p with
          | nil => exact ⟨[], List.nil_prefix, rfl⟩
          | cons a p1 =>
            rw [List.cons_prefix_cons] at hp
            obtain ⟨ha, hp1⟩ := hp
            subst ha
            obtain ⟨e', he', hu⟩ := ih p1 hp1
            exact ⟨a :: e', by simpa [List.cons_prefix_cons] using he', by rw [unescChars_cons_ne h3, hu]; rfl⟩

/-! ### lines -/

def nlAtom : Atom := .chr '\n'

theorem splitLines_line (l : List Atom) (hl : Atom.chr '\n' ∉ l) (rest : List Atom) :
    splitLines (l ++ Atom.chr '\n' :: rest) = (l, true) :: splitLines rest := by
  induction l with
  | nil => simp [splitLines]
  | cons a l ih =>
    simp at hl
    have ha : a ≠ Atom.chr '\n' := fun h => hl.1 h.symm
    simp only [List.cons_append, splitLines, ha, if_false, ih hl.2]

theorem splitLines_last (l : List Atom) (hl : Atom.chr '\n' ∉ l) (hne : l ≠ []) :
    splitLines l = [(l, false)] := by
  induction l with
  | nil => exact absurd rfl hne
  | cons a l ih =>
    simp at hl
    have ha : a ≠ Atom.chr '\n' := fun h => hl.1 h.symm
    simp only [splitLines, ha, if_false]
    cases l with
    | nil => simp [splitLines]
    | cons b l' => rw [ih (by simpa using hl.2) (by simp)]

theorem mem_atomsOf {c : Char} {t : Text} : Atom.chr c ∈ atomsOf t ↔ c ∈ t := by
  simp [atomsOf]

theorem atomsOf_append (a b : Text) : atomsOf (a ++ b) = atomsOf a ++ atomsOf b := by
  simp [atomsOf]

theorem lineText_atomsOf (t : Text) : lineText (atomsOf t) = some t := by
  induction t with
  | nil => rfl
  | cons c t ih => simp only [atomsOf, List.map_cons, lineText] at *; simp [ih]

theorem lineText_append_atomsOf (t : Text) (l : List Atom) :
    lineText (atomsOf t ++ l) = (lineText l).map (t ++ ·) := by
  induction t with
  | nil => simp [atomsOf]
  | cons c t ih =>
    simp only [atomsOf, List.map_cons, List.cons_append, lineText] at *
    rw [ih]; cases lineText l <;> simp

theorem stripCr_of_not_mem {t : Text} (h : '\r' ∉ t) : stripCr t = t := by
  unfold stripCr
  split
  · rename_i hl
    exact absurd (List.mem_of_getLast? hl) h
  · rfl

theorem decodeLine_atomsOf (t : Text) (term : Bool) (h : '\r' ∉ t) :
    decodeLine (atomsOf t) term = some t := by
  simp [decodeLine, lineText_atomsOf, stripCr_of_not_mem h]

/-- the lines `save_to` writes, as `lines()` items -/
def v2Lines (es : List Text) : List (List Atom × Bool) := es.map (fun e => (atomsOf (escEntry e), true))

theorem splitLines_linesOf (es : List Text) (rest : List Atom) :
    splitLines (atomsOf (linesOf es) ++ rest) = v2Lines es ++ splitLines rest := by
  induction es with
  | nil => simp [linesOf, atomsOf, v2Lines]
  | cons e es ih =>
    have : atomsOf (linesOf (e :: es)) ++ rest
        = atomsOf (escEntry e) ++ Atom.chr '\n' :: (atomsOf (linesOf es) ++ rest) := by
      simp [linesOf, atomsOf]
    rw [this, splitLines_line _ (by rw [mem_atomsOf]; exact esc_no_nl e), ih]
    simp [v2Lines]

theorem fileOf_atoms (es : List Text) (rest : List Atom) :
    splitLines (atomsOf (fileOf es) ++ rest) = (atomsOf header, true) :: (v2Lines es ++ splitLines rest) := by
  have : atomsOf (fileOf es) ++ rest = atomsOf header ++ Atom.chr '\n' :: (atomsOf (linesOf es) ++ rest) := by
    simp [fileOf, atomsOf]
  rw [this, splitLines_line _ (by rw [mem_atomsOf]; decide), splitLines_linesOf]

/-! ### the store under `add` -/

theorem FileHist.add_mem (ws : Char → Bool) (f : FileHist) (l : Text) :
    (f.add ws l).1.mem = (f.mem.add ws l).1 ∧ (f.add ws l).2 = (f.mem.add ws l).2 := by
  unfold FileHist.add
  cases hm : f.mem.add ws l with
  | mk m ok =>
    cases ok
    · simp; unfold MemHist.add at hm; split at hm <;> simp_all
    · simp

/-- all of `es` are accepted when added in order -/
def acceptAll (ws : Char → Bool) (h : FileHist) : List Text → Bool
  | [] => true
  | e :: es => (h.add ws e).2 && acceptAll ws (h.add ws e).1 es

/-- loading the lines that `save_to` wrote for non-empty entries = adding the entries -/
theorem loadLines_v2 (ws : Char → Bool) (es : List Text) (hne : ∀ e ∈ es, e ≠ [])
    (tail : List (List Atom × Bool)) (h : FileHist) (app : Bool) :
    loadLines ws true (v2Lines es ++ tail) h app
      = loadLines ws true tail (addAll ws h es) (app && acceptAll ws h es) := by
  induction es generalizing h app with
  | nil => simp [v2Lines, addAll, acceptAll]
  | cons e es ih =>
    have he : e ≠ [] := hne e (by simp)
    have hesc : escEntry e ≠ [] := fun h' => he (esc_eq_nil.mp h')
    simp only [v2Lines, List.map_cons, List.cons_append, loadLines]
    rw [decodeLine_atomsOf _ _ (esc_no_cr e)]
    simp only [List.isEmpty_iff, hesc, if_false, if_true, unescape_eq, unescChars_esc, Option.getD_some]
    have := ih (fun e' h' => hne e' (by simp [h'])) (h.add ws e).1 (app && (h.add ws e).2)
    simp only [v2Lines] at this
    rw [this]
    simp [addAll, acceptAll, Bool.and_assoc]

/-- What a history with these settings can hold: at most `max` entries, none empty, none
    starting with a blank if ignore-space, no two equal neighbours if ignore-dups. -/
def Storable (ws : Char → Bool) (max : Nat) (isp idp : Bool) (es : List Text) : Prop :=
  es.length ≤ max ∧
  (∀ e ∈ es, e ≠ [] ∧ (isp = true → ∀ c t, e = c :: t → ws c = false)) ∧
  (idp = true → ∀ l1 a b l2, es = l1 ++ a :: b :: l2 → a ≠ b)

theorem Storable.nonempty {ws max isp idp es} (h : Storable ws max isp idp es) : ∀ e ∈ es, e ≠ [] :=
  fun e he => (h.2.1 e he).1

/-- adding, in order, entries that continue a storable list appends them all -/
theorem addAll_storable (ws : Char → Bool) (es pre : List Text) (h : FileHist)
    (hpre : h.mem.entries = pre)
    (hs : Storable ws h.mem.maxLen h.mem.ignoreSpace h.mem.ignoreDups (pre ++ es)) :
    (addAll ws h es).mem.entries = pre ++ es ∧ acceptAll ws h es = true ∧
    (addAll ws h es).mem.maxLen = h.mem.maxLen ∧ (addAll ws h es).mem.ignoreSpace = h.mem.ignoreSpace ∧
    (addAll ws h es).mem.ignoreDups = h.mem.ignoreDups := by
  induction es generalizing pre h with
  | nil => simp [addAll, acceptAll, hpre]
  | cons e es ih =>
    obtain ⟨hlen, hall, hdup⟩ := hs
    have hmem := (FileHist.add_mem ws h e)
    have he := hall e (by simp)
    -- `e` is not ignored
    have hig : h.mem.ignore ws e = false := by
      unfold MemHist.ignore
      have hm : h.mem.maxLen ≠ 0 := by simp at hlen; omega
      have hm' : (h.mem.maxLen == 0) = false := by simp [hm]
      simp only [hm', Bool.false_eq_true, if_false]
      cases e with
      | nil => exact absurd rfl he.1
      | cons c t =>
        have hsp : (h.mem.ignoreSpace && ws c) = false := by
          cases hi : h.mem.ignoreSpace
          · rfl
          · simp [he.2 hi c t rfl]
        simp only [List.isEmpty_cons, List.head?_cons, hsp, Bool.or_self, Bool.false_eq_true, if_false]
        cases hd : h.mem.ignoreDups
        · simp
        · simp only [if_true]
          cases hl : h.mem.entries.getLast? with
          | none => rfl
          | some s =>
            simp only [beq_eq_false_iff_ne, ne_eq]
            intro hse
            subst hse
            rw [hpre] at hl
            obtain ⟨l1, hl1⟩ : ∃ l1, pre = l1 ++ [c :: t] := by
              have := List.getLast?_eq_some_iff.mp hl
              obtain ⟨l1, h1⟩ := this
              exact ⟨l1, h1⟩
            exact hdup hd l1 (c :: t) (c :: t) es (by simp [hl1]) rfl
    have hadd : h.mem.add ws e = (h.mem.insert e, true) := by simp [MemHist.add, hig]
    have hins : (h.mem.insert e).entries = pre ++ [e] := by
      unfold MemHist.insert
      have : (pre.length == h.mem.maxLen) = false := by
        simp at hlen ⊢; omega
      simp only [hpre, this, Bool.false_eq_true, if_false]
    have h1 : (h.add ws e).1.mem = h.mem.insert e := by rw [hmem.1, hadd]
    have h2 : (h.add ws e).2 = true := by rw [hmem.2, hadd]
    have hcfg : (h.add ws e).1.mem.maxLen = h.mem.maxLen ∧ (h.add ws e).1.mem.ignoreSpace = h.mem.ignoreSpace
        ∧ (h.add ws e).1.mem.ignoreDups = h.mem.ignoreDups := by
      rw [h1]; simp [MemHist.insert]
    have := ih (pre ++ [e]) (h.add ws e).1 (by rw [h1, hins])
      (by rw [hcfg.1, hcfg.2.1, hcfg.2.2, List.append_assoc]; exact ⟨hlen, hall, hdup⟩)
    simp only [addAll, acceptAll, h2, Bool.true_and]
    obtain ⟨a1, a2, a3, a4, a5⟩ := this
    refine ⟨by simpa using a1, a2, ?_, ?_, ?_⟩
    · rw [a3, hcfg.1]
    · rw [a4, hcfg.2.1]
    · rw [a5, hcfg.2.2]

theorem decodeLine_header (term : Bool) : decodeLine (atomsOf header) term = some header :=
  decodeLine_atomsOf header term (by decide)

/-- loading a file that starts with what `save_to` wrote for `es` = adding `es`, then going on
    with the rest of the file as V2 lines -/
theorem loadFrom_fileOf (ws : Char → Bool) (es : List Text) (hne : ∀ e ∈ es, e ≠ [])
    (tail : List Atom) (h : FileHist) :
    loadFrom ws (atomsOf (fileOf es) ++ tail) h
      = loadLines ws true (splitLines tail) (addAll ws h es) (acceptAll ws h es) := by
  unfold loadFrom
  rw [fileOf_atoms]
  simp only [decodeLine_header, if_true]
  rw [loadLines_v2 ws es hne]
  simp

theorem add_nil (ws : Char → Bool) (h : FileHist) : h.add ws [] = (h, false) := by
  have : h.mem.ignore ws [] = true := by unfold MemHist.ignore; split <;> simp
  simp [FileHist.add, MemHist.add, this]

/-! ### legacy files -/

def plainLines (ls : List Text) : List (List Atom × Bool) := ls.map (fun l => (atomsOf l, true))

/-- the text of a header-less file whose lines are `ls`, every line terminated -/
def legacyText (ls : List Text) : Text := ls.flatMap (fun l => l ++ ['\n'])

theorem splitLines_legacy (ls : List Text) (hnl : ∀ l ∈ ls, '\n' ∉ l) :
    splitLines (atomsOf (legacyText ls)) = plainLines ls := by
  induction ls with
  | nil => simp [legacyText, atomsOf, plainLines, splitLines]
  | cons l ls ih =>
    have : atomsOf (legacyText (l :: ls)) = atomsOf l ++ Atom.chr '\n' :: atomsOf (legacyText ls) := by
      simp [legacyText, atomsOf]
    rw [this, splitLines_line _ (by rw [mem_atomsOf]; exact hnl l (by simp)),
      ih (fun l' h' => hnl l' (by simp [h']))]
    simp [plainLines]

theorem stripCr_of_getLast {t : Text} (h : t.getLast? ≠ some '\r') : stripCr t = t := by
  unfold stripCr; simp [h]

theorem loadLines_legacy (ws : Char → Bool) (ls : List Text) (hcr : ∀ l ∈ ls, l.getLast? ≠ some '\r')
    (h : FileHist) :
    loadLines ws false (plainLines ls) h false
      = { h := { addAll ws h ls with newEntries := 0 }, status := .ok, appendable := false } := by
  induction ls generalizing h with
  | nil => simp [plainLines, loadLines, addAll]
  | cons l ls ih =>
    simp only [plainLines, List.map_cons, loadLines, decodeLine, lineText_atomsOf, Option.map_some, if_true,
      stripCr_of_getLast (hcr l (by simp))]
    have ih' := ih (fun l' h' => hcr l' (by simp [h']))
    simp only [plainLines] at ih'
    cases l with
    | nil => simp [addAll, add_nil, ih']
    | cons c t => simp [addAll, ih']

/-! ### no panic; a load only adds -/

theorem loadLines_no_panic (ws : Char → Bool) (v2 : Bool) (ls : List (List Atom × Bool)) (h : FileHist)
    (app : Bool) : (loadLines ws v2 ls h app).status ≠ .panic := by
  induction ls generalizing h app with
  | nil => simp [loadLines]
  | cons l ls ih =>
    obtain ⟨l, term⟩ := l
    simp only [loadLines]
    split
    · simp
    · split
      · exact ih _ _
      · cases v2
        · simp only [Bool.false_eq_true, if_false]; exact ih _ _
        · simp only [if_true, unescape_eq]; exact ih _ _

theorem loadLines_only_adds (ws : Char → Bool) (v2 : Bool) (ls : List (List Atom × Bool)) (h : FileHist)
    (app : Bool) : ∃ added, (loadLines ws v2 ls h app).h.mem = (addAll ws h added).mem := by
  induction ls generalizing h app with
  | nil => exact ⟨[], by simp [loadLines, addAll]⟩
  | cons l ls ih =>
    obtain ⟨l, term⟩ := l
    simp only [loadLines]
    split
    · exact ⟨[], rfl⟩
    · split
      · exact ih _ _
      · cases v2
        · simp only [Bool.false_eq_true, if_false]
          rename_i line _ _
          obtain ⟨a, ha⟩ := ih (h.add ws line).1 (app && (h.add ws line).2)
          exact ⟨line :: a, by simpa [addAll] using ha⟩
        · simp only [if_true, unescape_eq]
          rename_i line _ _
          obtain ⟨a, ha⟩ := ih (h.add ws ((unescChars line).getD line)).1
            (app && (h.add ws ((unescChars line).getD line)).2)
          exact ⟨((unescChars line).getD line) :: a, by simpa [addAll] using ha⟩

/-! ### an undecodable line stops the load and keeps what the lines before it produced -/

theorem loadLines_bad_line (ws : Char → Bool) (v2 : Bool) (L1 : List (List Atom × Bool))
    (b : List Atom) (term : Bool) (L2 : List (List Atom × Bool)) (hb : lineText b = none)
    (h : FileHist) (app : Bool) :
    (loadLines ws v2 (L1 ++ (b, term) :: L2) h app).h.mem = (loadLines ws v2 L1 h app).h.mem ∧
    ((loadLines ws v2 L1 h app).status = .ok →
      (loadLines ws v2 (L1 ++ (b, term) :: L2) h app).status = .invalidData) := by
  induction L1 generalizing h app with
  | nil => simp [loadLines, decodeLine, hb]
  | cons l L1 ih =>
    obtain ⟨l, t⟩ := l
    simp only [List.cons_append, loadLines]
    split
    · simp
    · split
      · exact ih _ _
      · cases v2
        · simp only [Bool.false_eq_true, if_false]; exact ih _ _
        · simp only [if_true, unescape_eq]; exact ih _ _

theorem splitLines_complete (l x : List Atom) :
    splitLines (l ++ Atom.chr '\n' :: x) = splitLines (l ++ [Atom.chr '\n']) ++ splitLines x := by
  induction l with
  | nil => simp [splitLines]
  | cons a l ih =>
    simp only [List.cons_append, splitLines]
    split
    · simp [ih]
    · rw [ih]
      cases hs : splitLines (l ++ [Atom.chr '\n']) with
      | nil =>
        exfalso
        have : ∀ l : List Atom, splitLines (l ++ [Atom.chr '\n']) ≠ [] := by
          intro l
          induction l with
          | nil => simp [splitLines]
          | cons a l ih =>
            simp only [List.cons_append, splitLines]
            split
            · simp
            · cases h' : splitLines (l ++ [Atom.chr '\n']) with
              | nil => exact absurd h' ih
              | cons p ps => obtain ⟨p1, p2⟩ := p; simp
        exact this l hs
      | cons p ps => obtain ⟨p1, p2⟩ := p; simp

/-! ### byte prefixes of a written file -/

theorem prefix_append_cases {α} {p A B : List α} (h : p <+: A ++ B) :
    p <+: A ∨ ∃ p', p = A ++ p' ∧ p' <+: B := by
  induction A generalizing p with
  | nil => exact Or.inr ⟨p, rfl, by simpa using h⟩
  | cons a A ih =>
    cases p with
    | nil => exact Or.inl List.nil_prefix
    | cons x p =>
      rw [List.cons_append, List.cons_prefix_cons] at h
      obtain ⟨hx, hp⟩ := h
      subst hx
      rcases ih hp with h1 | ⟨p', h1, h2⟩
      · exact Or.inl (by rw [List.cons_prefix_cons]; exact ⟨rfl, h1⟩)
      · exact Or.inr ⟨p', by rw [h1]; rfl, h2⟩

/-- the first `k` bytes of a text file: a character prefix, then possibly the leading bytes of
    the character that was cut -/
theorem cutAtoms_atomsOf (t : Text) : ∀ k : Nat, ∃ p bads, p <+: t ∧
    cutAtoms (atomsOf t) k = atomsOf p ++ bads ∧ (∀ a ∈ bads, ∃ b, a = Atom.bad b) := by
  induction t with
  | nil =>
    intro k
    refine ⟨[], [], List.prefix_refl _, ?_, by simp⟩
    cases k <;> simp [atomsOf, cutAtoms]
  | cons c t ih =>
    intro k
    cases k with
    | zero => exact ⟨[], [], List.nil_prefix, by simp [atomsOf, cutAtoms], by simp⟩
    | succ k =>
      simp only [atomsOf, List.map_cons, cutAtoms]
      split
      · obtain ⟨p, bads, h1, h2, h3⟩ := ih (k + 1 - c.utf8Size)
        refine ⟨c :: p, bads, by rw [List.cons_prefix_cons]; exact ⟨rfl, h1⟩, ?_, h3⟩
        simp only [atomsOf] at h2
        simp [h2]
      · refine ⟨[], ((utf8Bytes c).take (k + 1)).map Atom.bad, List.nil_prefix, by simp, ?_⟩
        intro a ha
        simp only [List.mem_map] at ha
        obtain ⟨b, _, hb⟩ := ha
        exact ⟨b, hb.symm⟩

theorem linesOf_append (a b : List Text) : linesOf (a ++ b) = linesOf a ++ linesOf b := by
  simp [linesOf]

/-- a character prefix of the written lines = some complete lines, then a prefix of the next
    escaped entry -/
theorem prefix_linesOf (es : List Text) : ∀ p : Text, p <+: linesOf es →
    ∃ j q, j ≤ es.length ∧ p = linesOf (es.take j) ++ q ∧
      (q = [] ∨ ∃ e, es[j]? = some e ∧ q <+: escEntry e) := by
  induction es with
  | nil =>
    intro p hp
    simp [linesOf] at hp
    exact ⟨0, [], by simp, by simp [hp, linesOf], Or.inl rfl⟩
  | cons e es ih =>
    intro p hp
    have hl : linesOf (e :: es) = (escEntry e ++ ['\n']) ++ linesOf es := by simp [linesOf]
    rw [hl] at hp
    rcases prefix_append_cases hp with h1 | ⟨p', h1, h2⟩
    · rcases prefix_append_cases h1 with h3 | ⟨p'', h3, h4⟩
      · exact ⟨0, p, by simp, by simp [linesOf], Or.inr ⟨e, by simp, h3⟩⟩
      · -- p = esc e ++ p'' with p'' a prefix of the line feed
        have : p'' = [] ∨ p'' = ['\n'] := by
          cases p'' with
          | nil => exact Or.inl rfl
          | cons x xs =>
            rw [List.cons_prefix_cons] at h4
            obtain ⟨hx, hxs⟩ := h4
            have : xs = [] := List.prefix_nil.mp hxs
            exact Or.inr (by rw [hx, this])
        rcases this with h5 | h5
        · subst h5
          exact ⟨0, p, by simp, by simp [linesOf], Or.inr ⟨e, by simp, by rw [h3]; simp⟩⟩
        · subst h5
          exact ⟨1, [], by simp, by simp [h3, linesOf], Or.inl rfl⟩
    · obtain ⟨j, q, hj, hpq, hq⟩ := ih p' h2
      refine ⟨j + 1, q, by simp; omega, ?_, ?_⟩
      · rw [h1, hpq]; simp [linesOf]
      · rcases hq with hq | ⟨e', he', hq⟩
        · exact Or.inl hq
        · exact Or.inr ⟨e', by simpa using he', hq⟩

theorem Storable.take {ws max isp idp es} (h : Storable ws max isp idp es) (j : Nat) :
    Storable ws max isp idp (es.take j) := by
  obtain ⟨h1, h2, h3⟩ := h
  refine ⟨by simp; omega, fun e he => h2 e (List.mem_of_mem_take he), ?_⟩
  intro hd l1 a b l2 heq
  have : es = l1 ++ a :: b :: (l2 ++ es.drop j) := by
    conv => lhs; rw [← List.take_append_drop j es, heq]
    simp
  exact h3 hd l1 a b _ this

theorem lineText_bads (q : Text) (bads : List Atom) (hb : ∀ a ∈ bads, ∃ b, a = Atom.bad b) :
    lineText (atomsOf q ++ bads) = if bads = [] then some q else none := by
  rw [lineText_append_atomsOf]
  cases bads with
  | nil => simp [lineText]
  | cons a bs =>
    obtain ⟨b, hb'⟩ := hb a (by simp)
    subst hb'
    simp [lineText]

/-- one `add` below the limit: refused, or appended at the end -/
theorem add_entries (ws : Char → Bool) (h : FileHist) (l : Text) (hlt : h.mem.entries.length < h.mem.maxLen) :
    (h.add ws l).1.mem.entries = h.mem.entries ∨ (h.add ws l).1.mem.entries = h.mem.entries ++ [l] := by
  rw [(FileHist.add_mem ws h l).1]
  unfold MemHist.add
  split
  · exact Or.inl rfl
  · right
    have : (h.mem.entries.length == h.mem.maxLen) = false := by simp; omega
    simp [MemHist.insert, this]

theorem cutAtoms_ascii (c : Char) (hc : c.utf8Size = 1) (t : List Atom) (k : Nat) :
    cutAtoms (Atom.chr c :: t) (k + 1) = Atom.chr c :: cutAtoms t k := by
  simp [cutAtoms, hc]

theorem cutAtoms_fileOf (es : List Text) (k : Nat) :
    cutAtoms (atomsOf (fileOf es)) (k + 4)
      = atomsOf header ++ Atom.chr '\n' :: cutAtoms (atomsOf (linesOf es)) k := by
  simp only [fileOf, header, atomsOf, List.map_cons, List.cons_append, List.nil_append, List.map_nil]
  rw [show k + 4 = (k + 3) + 1 from rfl, cutAtoms_ascii _ rfl,
      show k + 3 = (k + 2) + 1 from rfl, cutAtoms_ascii _ rfl,
      show k + 2 = (k + 1) + 1 from rfl, cutAtoms_ascii _ rfl,
      cutAtoms_ascii _ rfl]

/-! ### every history built with fixed settings is storable -/

theorem storable_add (ws : Char → Bool) (h : FileHist)
    (hs : Storable ws h.mem.maxLen h.mem.ignoreSpace h.mem.ignoreDups h.mem.entries) (l : Text) :
    Storable ws (h.add ws l).1.mem.maxLen (h.add ws l).1.mem.ignoreSpace (h.add ws l).1.mem.ignoreDups
      (h.add ws l).1.mem.entries := by
  rw [(FileHist.add_mem ws h l).1]
  unfold MemHist.add
  split
  · exact hs
  · rename_i hig
    have hig : h.mem.ignore ws l = false := by simpa using hig
    obtain ⟨h1, h2, h3⟩ := hs
    -- what "not ignored" means
    unfold MemHist.ignore at hig
    have hm : h.mem.maxLen ≠ 0 := by intro hm; simp [hm] at hig
    have hm' : (h.mem.maxLen == 0) = false := by simp [hm]
    simp only [hm', Bool.false_eq_true, if_false] at hig
    have hl : l ≠ [] := by intro hl; subst hl; simp at hig
    obtain ⟨c, t, rfl⟩ : ∃ c t, l = c :: t := by
      cases l with
      | nil => exact absurd rfl hl
      | cons c t => exact ⟨c, t, rfl⟩
    have hsp : h.mem.ignoreSpace = true → ws c = false := by
      intro hi; cases hw : ws c
      · rfl
      · simp [hi, hw] at hig
    have hdup : h.mem.ignoreDups = true → h.mem.entries.getLast? ≠ some (c :: t) := by
      intro hd hlast
      cases hi : h.mem.ignoreSpace <;> cases hw : ws c <;> simp [hi, hw, hd, hlast] at hig
    -- the kept part is a suffix of the old entries
    obtain ⟨dropped, X, hX, hXdef⟩ : ∃ dropped X, h.mem.entries = dropped ++ X ∧
        (h.mem.insert (c :: t)).entries = X ++ [c :: t] ∧ X.length + 1 ≤ h.mem.maxLen := by
      unfold MemHist.insert
      by_cases he : h.mem.entries.length = h.mem.maxLen
      · refine ⟨h.mem.entries.take 1, h.mem.entries.drop 1, (List.take_append_drop 1 _).symm, by simp [he], ?_⟩
        simp; omega
      · refine ⟨[], h.mem.entries, by simp, by simp [he], by omega⟩
    refine ⟨?_, ?_, ?_⟩
    · show (h.mem.insert (c :: t)).entries.length ≤ (h.mem.insert (c :: t)).maxLen
      rw [hXdef.1]; simp [MemHist.insert]; exact hXdef.2
    · intro e he
      show _ ∧ ((h.mem.insert (c :: t)).ignoreSpace = true → _)
      rw [show (h.mem.insert (c :: t)).entries = X ++ [c :: t] from hXdef.1] at he
      rcases List.mem_append.mp he with he | he
      · exact h2 e (by rw [hX]; exact List.mem_append_right _ he)
      · simp at he; subst he
        exact ⟨by simp, fun hi c' t' heq => by
          simp at heq; rw [← heq.1]; exact hsp hi⟩
    · intro hd l1 a b l2 heq
      have hd' : h.mem.ignoreDups = true := hd
      rw [show (h.mem.insert (c :: t)).entries = X ++ [c :: t] from hXdef.1] at heq
      rcases List.eq_nil_or_concat l2 with hl2 | ⟨l2', z, hl2⟩
      · subst hl2
        -- `b` is the new line, `a` the last old entry
        have : X ++ [c :: t] = (l1 ++ [a]) ++ [b] := by simpa using heq
        obtain ⟨hXa, hb⟩ := List.append_inj' this rfl
        simp at hb; subst hb
        intro hab; subst hab
        apply hdup hd'
        rw [hX, hXa]; simp
      · subst hl2
        have : X ++ [c :: t] = (l1 ++ a :: b :: l2') ++ [z] := by simpa using heq
        obtain ⟨hXa, _⟩ := List.append_inj' this rfl
        exact h3 hd' (dropped ++ l1) a b l2' (by rw [hX, hXa]; simp)

theorem storable_reachable (ws : Char → Bool) (max : Nat) (isp idp : Bool) (ls : List Text) :
    Storable ws max isp idp (addAll ws (FileHist.new max isp idp) ls).mem.entries := by
  suffices ∀ h : FileHist, Storable ws h.mem.maxLen h.mem.ignoreSpace h.mem.ignoreDups h.mem.entries →
      Storable ws (addAll ws h ls).mem.maxLen (addAll ws h ls).mem.ignoreSpace (addAll ws h ls).mem.ignoreDups
        (addAll ws h ls).mem.entries ∧ (addAll ws h ls).mem.maxLen = h.mem.maxLen ∧
        (addAll ws h ls).mem.ignoreSpace = h.mem.ignoreSpace ∧ (addAll ws h ls).mem.ignoreDups = h.mem.ignoreDups by
    have h0 := this (FileHist.new max isp idp) (by
      refine ⟨by simp [FileHist.new, MemHist.new], by simp [FileHist.new, MemHist.new], ?_⟩
      intro _ l1 a b l2 h; simp [FileHist.new, MemHist.new] at h)
    obtain ⟨a, b, c, d⟩ := h0
    rw [b, c, d] at a
    simpa [FileHist.new, MemHist.new] using a
  induction ls with
  | nil => intro h hs; exact ⟨hs, rfl, rfl, rfl⟩
  | cons l ls ih =>
    intro h hs
    have h1 := storable_add ws h hs l
    obtain ⟨a, b, c, d⟩ := ih (h.add ws l).1 h1
    have hcfg : (h.add ws l).1.mem.maxLen = h.mem.maxLen ∧ (h.add ws l).1.mem.ignoreSpace = h.mem.ignoreSpace
        ∧ (h.add ws l).1.mem.ignoreDups = h.mem.ignoreDups := by
      rw [(FileHist.add_mem ws h l).1]; unfold MemHist.add; split <;> simp [MemHist.insert]
    exact ⟨a, by simp only [addAll]; rw [b, hcfg.1], by simp only [addAll]; rw [c, hcfg.2.1],
      by simp only [addAll]; rw [d, hcfg.2.2]⟩

/-- every character prefix that fits into the first `k` bytes survives the cut -/
theorem cutAtoms_prefix_max (p0 : Text) : ∀ (t : Text) (k : Nat), p0 <+: t → blen p0 ≤ k →
    atomsOf p0 <+: cutAtoms (atomsOf t) k := by
  induction p0 with
  | nil => intro t k _ _; exact List.nil_prefix
  | cons c p0 ih =>
    intro t k hp hk
    cases t with
    | nil => simp at hp
    | cons c' t =>
      rw [List.cons_prefix_cons] at hp
      obtain ⟨hc, hp⟩ := hp
      subst hc
      have hpos := Char.utf8Size_pos c
      simp only [blen_cons] at hk
      obtain ⟨k', rfl⟩ : ∃ k', k = k' + 1 := ⟨k - 1, by omega⟩
      have hle : c.utf8Size ≤ k' + 1 := by omega
      simp only [atomsOf, List.map_cons, cutAtoms, hle, if_true]
      rw [List.cons_prefix_cons]
      exact ⟨rfl, ih t _ hp (by omega)⟩

theorem count_nl_atomsOf_of_not_mem {t : Text} (h : '\n' ∉ t) :
    (atomsOf t).count (Atom.chr '\n') = 0 := by
  rw [List.count_eq_zero]
  rw [mem_atomsOf]; exact h

theorem count_nl_linesOf (es : List Text) : (atomsOf (linesOf es)).count (Atom.chr '\n') = es.length := by
  induction es with
  | nil => simp [linesOf, atomsOf]
  | cons e es ih =>
    have : atomsOf (linesOf (e :: es)) = atomsOf (escEntry e) ++ Atom.chr '\n' :: atomsOf (linesOf es) := by
      simp [linesOf, atomsOf]
    rw [this, List.count_append, List.count_cons_self, ih, count_nl_atomsOf_of_not_mem (esc_no_nl e)]
    simp

theorem splitLines_legacy_tail (ls : List Text) (hnl : ∀ l ∈ ls, '\n' ∉ l) (rest : List Atom) :
    splitLines (atomsOf (legacyText ls) ++ rest) = plainLines ls ++ splitLines rest := by
  induction ls with
  | nil => simp [legacyText, atomsOf, plainLines]
  | cons l ls ih =>
    have : atomsOf (legacyText (l :: ls)) ++ rest
        = atomsOf l ++ Atom.chr '\n' :: (atomsOf (legacyText ls) ++ rest) := by
      simp [legacyText, atomsOf]
    rw [this, splitLines_line _ (by rw [mem_atomsOf]; exact hnl l (by simp)),
      ih (fun l' h' => hnl l' (by simp [h']))]
    simp [plainLines]

theorem loadLines_legacy_tail (ws : Char → Bool) (ls : List Text) (hcr : ∀ l ∈ ls, l.getLast? ≠ some '\r')
    (tail : List (List Atom × Bool)) (h : FileHist) :
    loadLines ws false (plainLines ls ++ tail) h false = loadLines ws false tail (addAll ws h ls) false := by
  induction ls generalizing h with
  | nil => simp [plainLines, addAll]
  | cons l ls ih =>
    simp only [plainLines, List.map_cons, List.cons_append, loadLines, decodeLine, lineText_atomsOf,
      Option.map_some, if_true, stripCr_of_getLast (hcr l (by simp))]
    have ih' := ih (fun l' h' => hcr l' (by simp [h']))
    simp only [plainLines] at ih'
    cases l with
    | nil => simp [addAll, add_nil, ih']
    | cons c t => simp [addAll, ih']

theorem addAll_append (ws : Char → Bool) (h : FileHist) (a b : List Text) :
    addAll ws h (a ++ b) = addAll ws (addAll ws h a) b := by
  induction a generalizing h with
  | nil => rfl
  | cons x a ih => simp [addAll, ih]

end Rl
