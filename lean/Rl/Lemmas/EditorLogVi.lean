/-
  The undo-log invariant through the sub-loops (completion, incremental search) in BOTH modes — in
  particular vi mode, where a key that leaves insert mode inside a sub-loop closes every undo group
  (`end()` pops the sub-loop's `Begin`), so that the listener may merge into the entry below the mark
  (finding D49).  Part 1: `next_cmd` changes the log by marker operations only (`MkK`).
-/
import Rl.Lemmas.EditorLog
namespace Rl
open EM

/-- `m` keeps every predicate on the undo log that `begin` and `end` keep -/
structure MkK (P : Changeset → Prop) {α : Type} (m : EM α) : Prop where
  h : ∀ s, P s.changes → wp m (fun _ s' => P s'.changes) (fun _ _ => True) s

namespace MkK
variable {P : Changeset → Prop} {α β : Type}

theorem pure (a : α) : MkK P (pure a : EM α) := ⟨fun _ h => h⟩
theorem bind {m : EM α} {f : α → EM β} (hm : MkK P m) (hf : ∀ a, MkK P (f a)) : MkK P (m >>= f) :=
  ⟨fun s hs => by rw [wp_bind]; exact wp_mono (hm.h s hs) (fun a s1 h1 => (hf a).h s1 h1) (fun _ _ h => h)⟩
theorem bind' {m : Ed → Except (Outcome × Ed) (α × Ed)} {f : α → EM β} (hm : MkK P (m : EM α))
    (hf : ∀ a, MkK P (f a)) : MkK P (@Bind.bind EM _ α β m f) := bind hm hf
theorem ite {c : Prop} [Decidable c] {a b : EM α} (ha : MkK P a) (hb : MkK P b) : MkK P (if c then a else b) := by
  split <;> assumption
theorem exit (o : Outcome) : MkK P (EM.exit o : EM α) := ⟨fun _ _ => trivial⟩
theorem get : MkK P EM.get := ⟨fun _ h => h⟩
theorem read (g : Ed → α) : MkK P (fun s => .ok (g s, s) : EM α) := ⟨fun _ h => h⟩
theorem liftP (e : Except Panic α) : MkK P (EM.liftP e) := by
  constructor; intro s hs; unfold wp EM.liftP; cases e <;> simp only [] <;> first | exact hs | trivial
theorem of_core {m : EM α} (hk : Keeps Ed.core m) : MkK P m :=
  ⟨fun s h => wp_mono (hk.wp s) (fun _ s' hc => by rw [(Ed.core_eq hc).2.2.1]; exact h) (fun _ _ _ => trivial)⟩

end MkK

/-- a predicate on the log that the group markers keep -/
structure MarkerClosed (P : Changeset → Prop) : Prop where
  begin : ∀ c, P c → P c.begin.1
  end_ : ∀ c, P c → P c.end_.1

theorem mkK_changesBegin {P : Changeset → Prop} (hP : MarkerClosed P) : MkK P changesBegin :=
  ⟨fun s h => by rw [wp_changesBegin]; exact hP.begin _ h⟩
theorem mkK_changesEnd {P : Changeset → Prop} (hP : MarkerClosed P) : MkK P changesEnd :=
  ⟨fun s h => by rw [wp_changesEnd]; exact hP.end_ _ h⟩

macro "em_mk_step" : tactic => `(tactic| first
  | intro _
  | with_reducible (first
    | exact MkK.pure _
    | apply MkK.bind
    | apply MkK.bind'
    | apply MkK.ite
    | assumption
    | exact MkK.exit _
    | exact MkK.liftP _
    | exact MkK.get
    | exact MkK.read _)
  | ((with_reducible apply MkK.of_core) <;> (with_reducible (first
      | exact keeps_refreshLine _ _ _ | exact keeps_refreshLineWithMsg _ _ _ _
      | exact keeps_refreshPromptAndLine _ _ _ _ | exact keeps_moveCursor _ _ _
      | exact keeps_highlightCharStep _ | exact keeps_updateHint _
      | exact keeps_setRefreshLayout _ _ _ _ _ | exact keeps_logRender _
      | exact keeps_getLine | exact keeps_getHistIdx | exact keeps_getPromptCol
      | exact keeps_lineEmpty | exact keeps_hasHint | exact keeps_nextKey _
      | exact keeps_nextChar)))
  | split
  | dsimp only)

syntax "em_mk" ("[" term,* "]")? : tactic
macro_rules
  | `(tactic| em_mk) => `(tactic| repeat' em_mk_step)
  | `(tactic| em_mk [$ts,*]) =>
    `(tactic| repeat' (first | (with_reducible first $[| apply $ts]*) | em_mk_step))

section
variable (S : Segmenter) (U : UData) (cfg : EdCfg) {P : Changeset → Prop} (hP : MarkerClosed P)
include hP

theorem mkK_doingInsert : MkK P doingInsert := by
  have b := mkK_changesBegin hP
  unfold doingInsert; em_mk
theorem mkK_doneInserting : MkK P doneInserting := by
  have e := mkK_changesEnd hP
  unfold doneInserting; em_mk

theorem mkK_viCommand (fuel : Nat) (key : KeyEvent) : MkK P (viCommand S U cfg fuel key) := by
  have h1 := fun d => MkK.of_core (P := P) (keeps_viArgDigit S U cfg fuel d)
  have h2 := MkK.of_core (P := P) keeps_viNumArgs
  have h3 := fun c => MkK.of_core (P := P) (keeps_viCharSearch c)
  have h4 := fun key n => MkK.of_core (P := P) (keeps_viCmdMotion S U cfg fuel key n)
  have h5 := fun keys key n p => MkK.of_core (P := P) (keeps_common cfg fuel keys key n p)
  have h6 := fun keys n p => MkK.of_core (P := P) (keeps_customBinding cfg keys n p)
  have h7 := fun k => MkK.of_core (P := P) (keeps_termBinding k)
  have h8 := MkK.of_core (P := P) keeps_lastCharSearch
  have h9 := MkK.of_core (P := P) keeps_getLastCmd
  have h10 := fun m => MkK.of_core (P := P) (keeps_setInputMode m)
  have h11 := fun c => MkK.of_core (P := P) (keeps_setLastCmd c)
  have h12 := fun c n => MkK.of_core (P := P) (keeps_redoCmd c n)
  have h13 := mkK_doingInsert hP
  have h14 := mkK_doneInserting hP
  unfold viCommand
  em_mk [h1, h3, h4, h5, h6, h7, h10, h11, h12]

theorem mkK_viInsert (fuel : Nat) (key : KeyEvent) : MkK P (viInsert S U cfg fuel key) := by
  have h4 := fun key => mkK_viCommand S U cfg hP fuel key
  have h5 := fun keys key n p => MkK.of_core (P := P) (keeps_common cfg fuel keys key n p)
  have h6 := fun keys n p => MkK.of_core (P := P) (keeps_customBinding cfg keys n p)
  have h7 := fun k => MkK.of_core (P := P) (keeps_termBinding k)
  have h9 := MkK.of_core (P := P) keeps_getLastCmd
  have h10 := fun m => MkK.of_core (P := P) (keeps_setInputMode m)
  have h11 := fun c => MkK.of_core (P := P) (keeps_setLastCmd c)
  have h12 := fun c n => MkK.of_core (P := P) (keeps_redoCmd c n)
  have h13 := mkK_doingInsert hP
  have h14 := mkK_doneInserting hP
  have h15 := MkK.of_core (P := P) keeps_cursorAtEnd
  unfold viInsert
  em_mk [h4, h5, h6, h7, h10, h11, h12]

/-- **`next_cmd` changes the undo log by group-marker operations only** (both modes) -/
theorem mkK_nextCmd (fuel : Nat) (sea iep : Bool) : MkK P (nextCmd S U cfg fuel sea iep) := by
  have h1 := fun key => MkK.of_core (P := P) (keeps_emacs S U cfg fuel key)
  have h2 := fun key => mkK_viInsert S U cfg hP fuel key
  have h3 := fun key => mkK_viCommand S U cfg hP fuel key
  have h4 := fun sea => MkK.of_core (P := P) (keeps_waitForInput sea)
  have b := mkK_changesBegin hP
  have e := mkK_changesEnd hP
  unfold nextCmd
  em_mk [h1, h2, h3, h4]

end
end Rl
