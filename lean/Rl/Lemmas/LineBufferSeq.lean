/-
  Sequences of public line-buffer operations (C03): `Op.runAll` runs a list of method calls one after
  another on the state the previous call left and concatenates the notifications; `Op.Admissible` says
  that every call is inside the contract of the explicit-index primitives IN THE STATE IT IS MADE IN.
  Generic lifting lemmas from one step to sequences.
-/
import Rl.LineBuffer
import Rl.Spec.LineBuffer
import Rl.Lemmas.LineBuffer
import Rl.Lemmas.LineBufferSafe
open Rl Rl.Spec
set_option linter.unusedVariables false

namespace Rl

/-- run a list of public method calls one after another; the answer is the list of the answers, the
    notifications are concatenated; the first panic aborts -/
def Op.runAll (S : Segmenter) (U : UData) : List Op → LM (List Ret)
  | [] => pure []
  | op :: ops => do
    let r ← Op.run S U op
    let rs ← Op.runAll S U ops
    return r :: rs

/-- every call of the list is made with arguments inside the contract of the explicit-index primitives
    (`Op.argsValid`, evaluated in the state the call is made in), and `insert_str` is not called with an
    index before the cursor (the one hypothesis of `C03_op_total_wf_replay_all_partial`) -/
def Op.Admissible (S : Segmenter) (U : UData) : List Op → LB → Prop
  | [], _ => True
  | op :: ops, lb =>
    Op.argsValid lb op = true ∧ (∀ i t, op = .insertStr i t → lb.pos ≤ i) ∧
      ∀ r lb' ns, Op.run S U op lb = .ok (r, lb', ns) → Op.Admissible S U ops lb'

theorem Op.runAll_nil (S : Segmenter) (U : UData) (lb : LB) : Op.runAll S U [] lb = .ok ([], lb, []) := rfl

theorem Op.runAll_cons_ok {S : Segmenter} {U : UData} {op : Op} {ops : List Op} {lb lb1 lb2 : LB}
    {r : Ret} {rs : List Ret} {n1 n2 : List Notif}
    (h1 : Op.run S U op lb = .ok (r, lb1, n1)) (h2 : Op.runAll S U ops lb1 = .ok (rs, lb2, n2)) :
    Op.runAll S U (op :: ops) lb = .ok (r :: rs, lb2, n1 ++ n2) := by
  show (Op.run S U op >>= fun r => Op.runAll S U ops >>= fun rs => pure (r :: rs)) lb = _
  simp [LM.bind_apply, h1, h2]

/-- inversion of a successful run of a non-empty list -/
theorem Op.runAll_cons_inv {S : Segmenter} {U : UData} {op : Op} {ops : List Op} {lb lb2 : LB}
    {rs : List Ret} {ns : List Notif} (h : Op.runAll S U (op :: ops) lb = .ok (rs, lb2, ns)) :
    ∃ r lb1 n1 rs' n2, Op.run S U op lb = .ok (r, lb1, n1) ∧ Op.runAll S U ops lb1 = .ok (rs', lb2, n2) ∧
      rs = r :: rs' ∧ ns = n1 ++ n2 := by
  have h' : (Op.run S U op >>= fun r => Op.runAll S U ops >>= fun rs => pure (r :: rs)) lb = .ok (rs, lb2, ns) := h
  obtain ⟨r, lb1, n1, n2, hm, hf, rfl⟩ := LM.bind_ok h'
  obtain ⟨rs', lb3, n3, n4, hm2, hf2, rfl⟩ := LM.bind_ok hf
  simp only [LM.pure_apply, Except.ok.injEq, Prod.mk.injEq] at hf2
  obtain ⟨rfl, rfl, rfl⟩ := hf2
  exact ⟨r, lb1, n1, rs', n3, hm, hm2, rfl, by simp⟩

/-- a successful run of `a ++ b` is a successful run of `a` followed by one of `b` -/
theorem Op.runAll_append_inv {S : Segmenter} {U : UData} : ∀ (a : List Op) {b : List Op} {lb lb2 : LB}
    {rs : List Ret} {ns : List Notif}, Op.runAll S U (a ++ b) lb = .ok (rs, lb2, ns) →
    ∃ ra lb1 na rb nb, Op.runAll S U a lb = .ok (ra, lb1, na) ∧ Op.runAll S U b lb1 = .ok (rb, lb2, nb) ∧
      rs = ra ++ rb ∧ ns = na ++ nb
  | [], b, lb, lb2, rs, ns, h => ⟨[], lb, [], rs, ns, rfl, h, rfl, rfl⟩
  | op :: a, b, lb, lb2, rs, ns, h => by
    obtain ⟨r, lb1, n1, rs', n2, h1, h2, rfl, rfl⟩ := Op.runAll_cons_inv (ops := a ++ b) h
    obtain ⟨ra, lbm, na, rb, nb, h3, h4, rfl, rfl⟩ := Op.runAll_append_inv a h2
    exact ⟨r :: ra, lbm, n1 ++ na, rb, nb, Op.runAll_cons_ok h1 h3, h4, rfl, by simp⟩

/-- admissibility is prefix-closed -/
theorem Op.Admissible.prefix {S : Segmenter} {U : UData} : ∀ (a : List Op) {b : List Op} {lb : LB},
    Op.Admissible S U (a ++ b) lb → Op.Admissible S U a lb
  | [], _, _, _ => trivial
  | op :: a, b, lb, h => ⟨h.1, h.2.1, fun r lb' ns hr => Op.Admissible.prefix a (h.2.2 r lb' ns hr)⟩

/-- a state invariant that every single call preserves is preserved by every successful sequence -/
theorem Op.runAll_invariant {S : Segmenter} {U : UData} (I : LB → Prop) (P : Op → Prop)
    (step : ∀ op lb r lb' ns, P op → I lb → Op.run S U op lb = .ok (r, lb', ns) → I lb') :
    ∀ (ops : List Op) (lb lb' : LB) (rs : List Ret) (ns : List Notif), (∀ op ∈ ops, P op) → I lb →
      Op.runAll S U ops lb = .ok (rs, lb', ns) → I lb'
  | [], lb, lb', rs, ns, _, hi, h => by
    rw [Op.runAll_nil] at h; cases h; exact hi
  | op :: ops, lb, lb', rs, ns, hp, hi, h => by
    obtain ⟨r, lb1, n1, rs', n2, h1, h2, _, _⟩ := Op.runAll_cons_inv h
    exact Op.runAll_invariant I P step ops lb1 lb' rs' n2 (fun o ho => hp o (List.mem_cons_of_mem _ ho))
      (step op lb r lb1 n1 (hp op List.mem_cons_self) hi h1) h2

/-- the notifications of a successful sequence replay the first text to the last -/
theorem Op.runAll_replay {S : Segmenter} {U : UData} : ∀ (ops : List Op) (lb lb' : LB) (rs : List Ret)
    (ns : List Notif), Op.runAll S U ops lb = .ok (rs, lb', ns) → replay ns lb.buf = some lb'.buf
  | [], lb, lb', rs, ns, h => by
    rw [Op.runAll_nil] at h; cases h; rfl
  | op :: ops, lb, lb', rs, ns, h => by
    obtain ⟨r, lb1, n1, rs', n2, h1, h2, _, rfl⟩ := Op.runAll_cons_inv h
    rw [replay_append, (Replays.run S U op).h lb r lb1 n1 h1]
    exact Op.runAll_replay ops lb1 lb' rs' n2 h2

/-- with a fixed capacity that the text fits, `growCap` is the identity -/
theorem growCap_fit {cap n : Nat} (h : n ≤ cap) : growCap cap n = cap := by
  unfold growCap; split <;> omega

end Rl
