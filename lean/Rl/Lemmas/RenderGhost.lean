/-
  C02, composition over histories: the ghost state that runs next to the replay of a render log, the
  coherence predicate, and the invariant step (moved here from `Rl/Props/C02.lean` so that the lemmas about the
  editor model's log, `Rl/Lemmas/RenderLog.lean`, can use them; the property theorems stay in `Props/C02.lean`).
-/
import Rl.Layout
import Rl.Term
import Rl.Render
import Rl.Spec.Screen
import Rl.Lemmas.Layout
import Rl.Lemmas.Term
import Rl.Lemmas.Render
open Rl Rl.Spec

/-- every grapheme of `s` is of the quantified kind -/
def C02_Plain (S : Segmenter) (R : RCfg) (s : Text) : Prop := ∀ g ∈ S.seg s, PlainG R g

/-- the same invariant in the vocabulary of the terminal only (`Rl.Synced`): `t` shows the text, the
    believed cursor / end positions are where a terminal stands after printing `prompt ++ before` /
    the whole text from the origin (`col = cols` ⇔ wrap pending), and the text is made of line breaks and
    non-control characters.  This is the invariant the theorems below preserve; it needs no hypothesis on
    how the old text is segmented. -/
def C02_Synced (R : RCfg) (t : Term) (l : Layout) (prompt before after hint : Text) : Prop :=
  Synced R t l (prompt ++ (before ++ after) ++ hint) (prompt ++ before)

/-- a blank terminal tracks the origin -/
theorem Rl.blank_tracks (R : RCfg) (hc : 2 ≤ R.cols) : Tracks R {} (Term.blank R.cols) :=
  ⟨rfl, rfl, rfl, Or.inl ⟨by show 0 < R.cols; omega, rfl, rfl⟩⟩

/-- **Full repaint.**  From any state in which the terminal shows what the renderer believes, the bytes of
    `refresh_line` (clear the old rows, print prompt ++ line ++ hint from the origin, own newline iff the
    wrap is pending, move up, CR, move right) lead to the terminal showing the new state — whatever was on
    the screen before, nothing of it is left. The prompt, the two halves of the line and the hint are
    measured piecewise by `compute_layout`, so each piece is of the quantified kind. -/
theorem Rl.full_refresh_synced (S : Segmenter) (R : RCfg) (t : Term) (old new : Layout)
    (prompt b a h prompt' b' a' : Text) (h' : Option Text) (dflt : Bool) (bytes : Text)
    (hc : 2 ≤ R.cols) (hs : C02_Synced R t old prompt b a h)
    (hp' : C02_Plain S R prompt') (hb' : C02_Plain S R b') (ha' : C02_Plain S R a')
    (hh' : C02_Plain S R (h'.getD []))
    (hl : computeLayout S R (calculatePosition S R prompt' {}) dflt (b' ++ a') (blen b') h' = .ok new)
    (hbytes : refreshLineBytes R prompt' (b' ++ a') h' old new = .ok bytes) :
    C02_Synced R (t.feed R.cw bytes) new prompt' b' a' (h'.getD []) := by
  have hps := tracks_calc S R hc prompt' _ _ hp' (Rl.blank_tracks R hc)
  obtain ⟨_, hcur, hend⟩ := layout_tracks S R hc prompt' b' a' h' _ dflt new hps hb' ha' hh' hl
  rw [refreshLineBytes_ok hbytes]
  have hplain : PlainT (prompt' ++ (b' ++ a') ++ h'.getD []) :=
    plainT_append (plainT_append (plainT_of_seg S R _ hp')
      (plainT_append (plainT_of_seg S R _ hb') (plainT_of_seg S R _ ha'))) (plainT_of_seg S R _ hh')
  exact synced_refresh hc hs hplain ⟨a' ++ h'.getD [], by simp [List.append_assoc]⟩ hcur hend

/-- **Fast path = full refresh**: under the guard of `edit_insert`, writing the one character gives the
    screen (and the believed layout) a full repaint of `prompt ++ line ++ [ch]` would give. -/
theorem Rl.fast_path_synced (R : RCfg) (t : Term) (l : Layout) (prompt b : Text) (ch : Char) (n : Nat)
    (hint : Option Text) (nph hl : Bool)
    (hc : 2 ≤ R.cols) (hs : C02_Synced R t l prompt b [] [])
    (hguard : fastPathGuard R l ch n hint nph hl = true) (hch : isC0Control ch = false) :
    C02_Synced R (t.feed R.cw [ch])
      { l with cursor := { l.cursor with col := l.cursor.col + R.cw ch },
               end_ := { l.end_ with col := l.end_.col + R.cw ch } } prompt (b ++ [ch]) [] [] := by
  unfold fastPathGuard at hguard
  simp only [Bool.and_eq_true, decide_eq_true_eq, bne_iff_ne, ne_eq] at hguard
  obtain ⟨⟨⟨⟨_, hw⟩, hlt⟩, _⟩, _⟩ := hguard
  unfold C02_Synced at *
  simp only [List.append_nil] at hs ⊢
  rw [← List.append_assoc]
  exact synced_fast hc ch hs hch hw hlt

structure C02_Shown where
  prompt : Text := []
  before : Text := []
  after : Text := []
  hint : Text := []

def C02_next (S : Segmenter) (R : RCfg) (prompt : Text) (s : RS) (g : C02_Shown) : RenderOp → C02_Shown
  | .refresh p line pos info =>
    match splitAtByte line pos with
    | some (b, a) => ⟨p.getD prompt, b, a, info.getD []⟩
    | none => g
  | .moveCursor line pos hl =>
    match splitAtByte line pos with
    | some (b, a) =>
      if s.layout.cursor == calculatePosition S R b s.promptSize then { g with before := b, after := a }
      else if hl then ⟨prompt, b, a, []⟩ else { g with before := b, after := a }
    | none => g
  | .insert ch n push line pos hint nph hl =>
    if push && fastPathGuard R s.layout ch n hint nph hl then ⟨g.prompt, g.before ++ [ch], [], []⟩
    else match splitAtByte line pos with
      | some (b, a) => ⟨prompt, b, a, hint.getD []⟩
      | none => g
  | .clearScreen => ⟨[], [], [], []⟩
  | .moveToEnd => ⟨g.prompt, g.before ++ g.after ++ g.hint, [], []⟩
  | .sync _ _ _ => g
  | .writeln => g

/-- the prompt of an incremental search: `(reverse-i-search)`text': ` or `(failed reverse-i-search)`text': ` -/
def C02_searchPrompt (buf : Text) (ok : Bool) : Text :=
  (if ok then "(reverse-i-search)`" else "(failed reverse-i-search)`").toList ++ buf ++ "': ".toList

def C02_IsSearchPrompt (p : Text) : Prop := ∃ buf ok, p = C02_searchPrompt buf ok

def C02_PlainSplit (S : Segmenter) (R : RCfg) (line : Text) (pos : Nat) (info : Option Text) : Prop :=
  ∀ b a, splitAtByte line pos = some (b, a) →
    C02_Plain S R b ∧ C02_Plain S R a ∧ C02_Plain S R (info.getD [])

def C02_StepOK (S : Segmenter) (R : RCfg) (prompt : Text) (s : RS) (g : C02_Shown) : RenderOp → Prop
  | .refresh p line pos info => C02_Plain S R (p.getD prompt) ∧ C02_PlainSplit S R line pos info
  | .moveCursor line pos _ =>
    g.prompt = prompt ∧ g.before ++ g.after = line ∧ C02_PlainSplit S R line pos none
  | .insert ch n push line pos hint nph hl =>
    ((push && fastPathGuard R s.layout ch n hint nph hl) = true →
      g.after = [] ∧ g.hint = [] ∧ isC0Control ch = false) ∧ C02_PlainSplit S R line pos hint
  | .clearScreen => True
  | .moveToEnd => True
  | .sync line pos hint =>
    (g.prompt = prompt ∨ C02_IsSearchPrompt g.prompt) ∧
    splitAtByte line pos = some (g.before, g.after) ∧ (g.hint = hint.getD [] ∨ g.hint = [])
  | .writeln => False

/-- every operation of the log is issued in a situation the theorem covers -/
def C02_Coherent (S : Segmenter) (R : RCfg) (prompt : Text) : RS → C02_Shown → List RenderOp → Prop
  | _, _, [] => True
  | s, g, op :: rest =>
    C02_StepOK S R prompt s g op ∧
    match s.apply S R prompt op with
    | .ok s' => C02_Coherent S R prompt s' (C02_next S R prompt s g op) rest
    | .error _ => True

/-- the invariant of the composition: the terminal that has interpreted everything written so far shows the
    ghost state as the renderer believes -/
structure C02_Inv (S : Segmenter) (R : RCfg) (prompt : Text) (s : RS) (g : C02_Shown) : Prop where
  synced : C02_Synced R ((Term.blank R.cols).feed R.cw s.all) s.layout g.prompt g.before g.after g.hint
  psize : s.promptSize = calculatePosition S R prompt {}

theorem Rl.inv_refresh (S : Segmenter) (R : RCfg) (prompt : Text) (hc : 2 ≤ R.cols) (s s' : RS) (g : C02_Shown)
    (hinv : C02_Inv S R prompt s g) (p : Text) (dflt : Bool) (line : Text) (pos : Nat) (info : Option Text)
    (hp : C02_Plain S R p) (hsplit : C02_PlainSplit S R line pos info)
    (h : s.refresh S R p (calculatePosition S R p {}) dflt line pos info = .ok s') :
    ∃ b a, splitAtByte line pos = some (b, a) ∧ C02_Inv S R prompt s' ⟨p, b, a, info.getD []⟩ := by
  obtain ⟨nl, bytes, b, a, hs, hl, hb, e1, e2, e3⟩ := refresh_ok h
  obtain ⟨hp1, hp2, hp3⟩ := hsplit b a hs
  obtain ⟨rfl, rfl⟩ := splitAtByte_some hs
  refine ⟨b, a, hs, ⟨?_, e3.trans hinv.psize⟩⟩
  rw [e2, Term.feed_append, e1]
  exact Rl.full_refresh_synced S R _ s.layout nl g.prompt g.before g.after g.hint p b a info dflt bytes hc
    hinv.synced hp hp1 hp2 hp3 hl hb

theorem Rl.inv_step (S : Segmenter) (R : RCfg) (prompt : Text) (hc : 2 ≤ R.cols)
    (hprompt : C02_Plain S R prompt) (s s' : RS) (g : C02_Shown) (op : RenderOp)
    (hinv : C02_Inv S R prompt s g) (hok : C02_StepOK S R prompt s g op)
    (happ : s.apply S R prompt op = .ok s') :
    C02_Inv S R prompt s' (C02_next S R prompt s g op) := by
  have hpt : Tracks R s.promptSize ((Term.blank R.cols).feed R.cw prompt) := by
    rw [hinv.psize]; exact tracks_calc S R hc _ _ _ hprompt (Rl.blank_tracks R hc)
  cases op with
  | refresh p line pos info =>
    obtain ⟨hp, hsplit⟩ := hok
    cases p with
    | none =>
      simp only [RS.apply] at happ
      rw [hinv.psize] at happ
      obtain ⟨b, a, hs, hi⟩ := Rl.inv_refresh S R prompt hc s s' g hinv prompt true line pos info hp hsplit happ
      simp only [C02_next, hs, Option.getD_none]
      exact hi
    | some p =>
      simp only [RS.apply] at happ
      obtain ⟨b, a, hs, hi⟩ := Rl.inv_refresh S R prompt hc s s' g hinv p false line pos info hp hsplit happ
      simp only [C02_next, hs, Option.getD_some]
      exact hi
  | moveCursor line pos hl =>
    obtain ⟨hgp, hline, hsplit⟩ := hok
    simp only [RS.apply, RS.moveCursor] at happ
    cases hs : splitAtByte line pos with
    | none => rw [hs] at happ; cases happ
    | some ba =>
      obtain ⟨b, a⟩ := ba
      rw [hs] at happ
      simp only [] at happ
      obtain ⟨hp1, hp2, _⟩ := hsplit b a hs
      obtain ⟨hla, _⟩ := splitAtByte_some hs
      have htr : Tracks R (calculatePosition S R b s.promptSize)
          ((Term.blank R.cols).feed R.cw (g.prompt ++ b)) := by
        rw [hgp, Term.feed_append]; exact tracks_calc S R hc _ _ _ hp1 hpt
      have htext : g.prompt ++ (g.before ++ g.after) ++ g.hint = g.prompt ++ (b ++ a) ++ g.hint := by
        rw [hline, hla]
      have hsy := hinv.synced
      unfold C02_Synced at hsy
      rw [htext] at hsy
      simp only [C02_next, hs]
      by_cases hsame : s.layout.cursor = calculatePosition S R b s.promptSize
      · have hbeq : (s.layout.cursor == calculatePosition S R b s.promptSize) = true := by simpa using hsame
        rw [if_pos hbeq] at happ
        injection happ with happ
        subst happ
        rw [if_pos hbeq]
        refine ⟨?_, hinv.psize⟩
        exact synced_same hsy _ (by rw [hsame]; exact htr) ⟨a ++ g.hint, by simp [List.append_assoc]⟩
      · have hbeq : ¬ (s.layout.cursor == calculatePosition S R b s.promptSize) = true := by simpa using hsame
        rw [if_neg hbeq] at happ
        rw [if_neg hbeq]
        cases hl with
        | true =>
          simp only [if_true] at happ ⊢
          rw [hinv.psize] at happ
          have hsplit' : C02_PlainSplit S R line pos none := hsplit
          obtain ⟨b', a', hs', hi⟩ := Rl.inv_refresh S R prompt hc s s' g hinv prompt true line pos none
            hprompt hsplit' happ
          rw [hs] at hs'
          injection hs' with hs'
          injection hs' with e1 e2
          subst e1; subst e2
          exact hi
        | false =>
          simp only [Bool.false_eq_true, if_false] at happ ⊢
          split at happ
          · cases happ
          · injection happ with happ
            subst happ
            refine ⟨?_, hinv.psize⟩
            show Synced R ((Term.blank R.cols).feed R.cw (RS.all (s.emit _))) _ _ _
            rw [RS.all_emit, Term.feed_append]
            exact (synced_move hc hsy _ _ htr ⟨a ++ g.hint, by simp [List.append_assoc]⟩).congr rfl rfl
  | insert ch n push line pos hint nph hl =>
    obtain ⟨hfast, hsplit⟩ := hok
    simp only [RS.apply, RS.insert] at happ
    by_cases hg : (push && fastPathGuard R s.layout ch n hint nph hl) = true
    · obtain ⟨ga, gh, hch⟩ := hfast hg
      rw [if_pos hg] at happ
      simp only [C02_next, hg, if_true]
      split at happ
      · cases happ
      · injection happ with happ
        subst happ
        have hguard : fastPathGuard R s.layout ch n hint nph hl = true := by
          simp only [Bool.and_eq_true] at hg; exact hg.2
        refine ⟨?_, hinv.psize⟩
        have hsy := hinv.synced
        rw [ga, gh] at hsy
        show C02_Synced R ((Term.blank R.cols).feed R.cw (RS.all (s.emit _))) _ _ _ _ _
        rw [RS.all_emit, Term.feed_append]
        exact Rl.fast_path_synced R _ s.layout g.prompt g.before ch n hint nph hl hc hsy hguard hch
    · rw [if_neg hg] at happ
      rw [hinv.psize] at happ
      obtain ⟨b, a, hs, hi⟩ := Rl.inv_refresh S R prompt hc s s' g hinv prompt true line pos hint
        hprompt hsplit happ
      simp only [C02_next, hg, hs]
      exact hi
  | clearScreen =>
    simp only [RS.apply] at happ
    injection happ with happ
    subst happ
    refine ⟨?_, hinv.psize⟩
    show Synced R ((Term.blank R.cols).feed R.cw (RS.all (s.emit _))) _ _ _
    rw [RS.all_emit, Term.feed_append]
    exact synced_clear hc _ s.layout hinv.synced.cols hinv.synced.ps
  | moveToEnd =>
    simp only [RS.apply] at happ
    have hsy := hinv.synced
    unfold C02_Synced at hsy
    have htext : g.prompt ++ (g.before ++ g.after ++ g.hint ++ []) ++ [] =
        g.prompt ++ (g.before ++ g.after) ++ g.hint := by simp [List.append_assoc]
    have hbef : g.prompt ++ (g.before ++ g.after ++ g.hint) =
        g.prompt ++ (g.before ++ g.after) ++ g.hint := by simp [List.append_assoc]
    simp only [C02_next]
    by_cases hsame : s.layout.cursor = s.layout.end_
    · have hbeq : (s.layout.cursor == s.layout.end_) = true := by simpa using hsame
      rw [if_pos hbeq] at happ
      injection happ with happ
      subst happ
      refine ⟨?_, hinv.psize⟩
      unfold C02_Synced
      rw [htext, hbef]
      exact synced_same hsy _ (by rw [hsame]; exact hsy.end_) ⟨[], by simp⟩
    · have hbeq : ¬ (s.layout.cursor == s.layout.end_) = true := by simpa using hsame
      rw [if_neg hbeq] at happ
      injection happ with happ
      subst happ
      refine ⟨?_, hinv.psize⟩
      unfold C02_Synced
      rw [htext, hbef]
      show Synced R ((Term.blank R.cols).feed R.cw (RS.all (s.emit _))) _ _ _
      rw [RS.all_emit, Term.feed_append]
      exact synced_move hc hsy _ _ hsy.end_ ⟨[], by simp⟩
  | sync line pos hint =>
    simp only [RS.apply] at happ
    injection happ with happ
    subst happ
    refine ⟨?_, hinv.psize⟩
    have : RS.all { s with out := [], segs := s.out :: s.segs } = s.all := by
      simp [RS.all]
    simp only [C02_next]
    rw [this]
    exact hinv.synced
  | writeln => exact absurd hok (by simp [C02_StepOK])

