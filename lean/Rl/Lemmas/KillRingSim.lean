/-
  The reference ring of the property text (C06: "cycling through the most recent kills (at most the
  ring size) and never through anything else") and the simulation between it and the model of
  `src/kill_ring.rs` (after the D33 repair: the yank-pop position `yankIndex` is kept apart from
  `index`, the slot of the most recent kill).
-/
import Rl.Lemmas.KillRing
open Rl Rl.KillRing

/-- reference ring of the property text: the kills, most recent first (at most `cap`), and how far
    yank-pop has rotated; a new kill always becomes the most recent one and ends the rotation -/
structure SRing where
  kills : List Text
  rot : Nat
  last : KAction
  cap : Nat

def SRing.step (r : SRing) : KOp → SRing × Option (Option Text)
  | .kill t d =>
    if r.cap == 0 then ({ r with last := .kill }, none)
    else if r.last == .kill then
      match r.kills with
      | x :: xs => ({ r with kills := mergeSlot d x t :: xs }, none)
      | [] => (r, none)
    else ({ r with kills := (t :: r.kills).take r.cap, rot := 0, last := .kill }, none)
  | .yank =>
    match r.kills[r.rot]? with
    | some x => ({ r with last := .yank (blen x) }, some (some x))
    | none => (r, some none)
  | .yankPop =>
    match r.last with
    | .yank _ =>
      if r.kills.isEmpty then (r, some none)
      else
        let i := (r.rot + 1) % r.kills.length
        match r.kills[i]? with
        | some x => ({ r with rot := i, last := .yank (blen x) }, some (some x))
        | none => (r, some none)
    | _ => (r, some none)
  | .reset => ({ r with last := .other }, none)
  | _ => (r, none)

def SRing.obs (r : SRing) : List KOp → List (Option Text)
  | [] => []
  | op :: ops =>
    match r.step op with
    | (r', some o) => o :: SRing.obs r' ops
    | (r', none) => SRing.obs r' ops

/-- what yank / yank-pop return along a sequence of ring operations in the model -/
def modelObs (k : KillRing) : List KOp → List (Option Text)
  | [] => []
  | op :: ops =>
    match op with
    | .yank => match k.yank with
      | .ok (k', o) => o :: modelObs k' ops
      | .error _ => []
    | .yankPop => match k.yankPop with
      | .ok (k', o) => o.map (·.2) :: modelObs k' ops
      | .error _ => []
    | op => match op.run k with
      | .ok k' => modelObs k' ops
      | .error _ => []

/-- operations that come through the listener (deletions, start/stop killing) rather than from a command -/
def KOp.isListener : KOp → Bool
  | .onDelete _ _ | .startKilling | .stopKilling => true
  | _ => false


/-! ### the simulation -/

/-- slot of the `i`-th most recent kill in the circular buffer (`i < len`, `idx < len`) -/
def slotOf (len idx i : Nat) : Nat := if i ≤ idx then idx - i else idx + len - i

theorem slotOf_lt {len idx i : Nat} (hi : i < len) (hx : idx < len) : slotOf len idx i < len := by
  unfold slotOf; split <;> omega

theorem slotOf_zero (len idx : Nat) : slotOf len idx 0 = idx := by simp [slotOf]

theorem slotOf_ne {len idx i : Nat} (hi : i < len) (hx : idx < len) (h0 : 0 < i) : slotOf len idx i ≠ idx := by
  unfold slotOf; split <;> omega

/-- one yank-pop: the model steps the yank position back cyclically, the reference ring rotates by one -/
theorem slotOf_pop {len idx rot : Nat} (hx : idx < len) (hr : rot < len) :
    (if (slotOf len idx rot == 0) = true then len - 1 else slotOf len idx rot - 1) =
      slotOf len idx ((rot + 1) % len) := by
  by_cases h : rot + 1 < len
  · rw [Nat.mod_eq_of_lt h]
    unfold slotOf
    by_cases h1 : rot ≤ idx
    · by_cases h2 : rot + 1 ≤ idx
      · have : ¬ (idx - rot = 0) := by omega
        simp [h1, h2, this]; omega
      · have : idx - rot = 0 := by omega
        simp [h1, h2, this]; omega
    · have h2 : ¬ rot + 1 ≤ idx := by omega
      have : ¬ (idx + len - rot = 0) := by omega
      simp [h1, h2, this]; omega
  · have hl : rot + 1 = len := by omega
    rw [hl, Nat.mod_self]
    unfold slotOf
    by_cases h1 : rot ≤ idx
    · have : idx - rot = 0 := by omega
      simp [h1, this]; omega
    · have : ¬ (idx + len - rot = 0) := by omega
      simp [h1, this]; omega

/-- the model ring `k` and the reference ring `r` hold the same kills in the same order of recency,
    and point at the same one -/
structure Sim (k : KillRing) (r : SRing) : Prop where
  wf : WF k
  cap : r.cap = k.cap
  last : r.last = k.lastAction
  len : r.kills.length = k.slots.length
  kills : ∀ i, i < k.slots.length → r.kills[i]? = k.slots[slotOf k.slots.length k.index i]?
  rot : k.slots ≠ [] → r.rot < k.slots.length
  yidx : k.slots ≠ [] → k.yankIndex = slotOf k.slots.length k.index r.rot
  /-- while the ring is not full the most recent kill is in the last slot -/
  fill : k.slots ≠ [] → k.slots.length < k.cap → k.index + 1 = k.slots.length

theorem Sim.new (size : Nat) : Sim (KillRing.new size) { kills := [], rot := 0, last := .other, cap := size } :=
  ⟨wf_new size, rfl, rfl, rfl, by intro i hi; simp [KillRing.new] at hi, by simp [KillRing.new],
   by simp [KillRing.new], by simp [KillRing.new]⟩

theorem Sim.reset {k : KillRing} {r : SRing} (h : Sim k r) : Sim k.reset (r.step .reset).1 :=
  ⟨wf_reset h.wf, h.cap, rfl, h.len, h.kills, h.rot, h.yidx, h.fill⟩

theorem Sim.yank {k : KillRing} {r : SRing} (h : Sim k r) :
    ∃ k' o, k.yank = .ok (k', o) ∧ (r.step .yank).2 = some o ∧ Sim k' (r.step .yank).1 := by
  rcases yank_ok h.wf with ⟨he, hy⟩ | ⟨s, hs, hy⟩
  · have hk : r.kills = [] := by
      have := h.len; rw [he] at this; exact List.eq_nil_of_length_eq_zero this
    refine ⟨k, none, hy, ?_, ?_⟩
    · simp [SRing.step, hk]
    · simp only [SRing.step, hk, List.getElem?_nil]; exact h
  · have hne : k.slots ≠ [] := by intro h0; rw [h0] at hs; simp at hs
    have hr := h.rot hne
    have hkr : r.kills[r.rot]? = some s := by rw [h.kills _ hr, ← h.yidx hne]; exact hs
    refine ⟨_, some s, hy, ?_, ?_⟩
    · simp [SRing.step, hkr]
    · simp only [SRing.step, hkr]
      obtain ⟨k1, r1, he1, hw1, _, _⟩ := wf_yank h.wf
      rw [hy] at he1; cases he1
      exact ⟨hw1, h.cap, rfl, h.len, h.kills, h.rot, h.yidx, h.fill⟩

theorem Sim.yankPop {k : KillRing} {r : SRing} (h : Sim k r) :
    ∃ k' o, k.yankPop = .ok (k', o) ∧ (r.step .yankPop).2 = some (o.map (·.2)) ∧ Sim k' (r.step .yankPop).1 := by
  cases hla : k.lastAction with
  | kill =>
    have hl : r.last = .kill := by rw [h.last, hla]
    exact ⟨k, none, by simp [KillRing.yankPop, hla], by simp [SRing.step, hl], by simp only [SRing.step, hl]; exact h⟩
  | other =>
    have hl : r.last = .other := by rw [h.last, hla]
    exact ⟨k, none, by simp [KillRing.yankPop, hla], by simp [SRing.step, hl], by simp only [SRing.step, hl]; exact h⟩
  | yank size =>
    have hl : r.last = .yank size := by rw [h.last, hla]
    by_cases he : k.slots = []
    · have hk : r.kills = [] := by
        have := h.len; rw [he] at this; exact List.eq_nil_of_length_eq_zero this
      exact ⟨k, none, by simp [KillRing.yankPop, hla, he], by simp [SRing.step, hl, hk],
        by simp only [SRing.step, hl, hk, List.isEmpty_nil, if_true]; exact h⟩
    · obtain ⟨s, hs, hp⟩ := yankPop_ok h.wf size hla he
      have hx := h.wf.idx_lt he
      have hr := h.rot he
      have hlen : 0 < k.slots.length := List.length_pos_iff.mpr he
      have hne : r.kills.isEmpty = false := by
        cases hk : r.kills with
        | nil => have := h.len; rw [hk] at this; simp at this; omega
        | cons a b => rfl
      have hi : (r.rot + 1) % r.kills.length < k.slots.length := by rw [h.len]; exact Nat.mod_lt _ hlen
      have hslot : prevIdx k = slotOf k.slots.length k.index ((r.rot + 1) % r.kills.length) := by
        unfold prevIdx
        rw [h.yidx he, h.len]
        exact slotOf_pop hx hr
      have hkr : r.kills[(r.rot + 1) % r.kills.length]? = some s := by
        rw [h.kills _ hi, ← hslot]; exact hs
      refine ⟨_, some (size, s), hp, ?_, ?_⟩
      · simp [SRing.step, hl, hne, hkr]
      · simp only [SRing.step, hl, hne, Bool.false_eq_true, if_false, hkr]
        obtain ⟨k1, r1, he1, hw1, _, _⟩ := wf_yankPop h.wf
        rw [hp] at he1; cases he1
        exact ⟨hw1, h.cap, rfl, h.len, h.kills, fun _ => hi, fun _ => hslot, h.fill⟩

/-- a fresh kill into a full ring overwrites the oldest slot: every other kill is one step older -/
theorem slotOf_next {len idx j : Nat} (hx : idx < len) (hj : j + 1 < len) :
    slotOf len (if idx + 1 = len then 0 else idx + 1) (j + 1) = slotOf len idx j ∧
      slotOf len idx j ≠ (if idx + 1 = len then 0 else idx + 1) := by
  unfold slotOf
  by_cases h1 : idx + 1 = len
  · simp only [h1, if_true]
    by_cases h2 : j ≤ idx
    · have h3 : ¬ j + 1 ≤ 0 := by omega
      simp only [h2, h3, if_true, if_false]; omega
    · omega
  · simp only [h1, if_false]
    by_cases h2 : j ≤ idx
    · have h3 : j + 1 ≤ idx + 1 := by omega
      simp only [h2, h3, if_true]; omega
    · have h3 : ¬ j + 1 ≤ idx + 1 := by omega
      simp only [h2, h3, if_false]; omega

theorem Sim.kill {k : KillRing} {r : SRing} (h : Sim k r) (t : Text) (d : KMode) :
    ∃ k', k.kill t d = .ok k' ∧ Sim k' (r.step (.kill t d)).1 := by
  obtain ⟨k', he, hw', hcap', _⟩ := wf_kill h.wf t d
  refine ⟨k', he, ?_⟩
  by_cases hc0 : k.cap = 0
  · -- a disabled ring: only the last action changes
    rw [kill_cap0 hc0] at he; cases he
    have : (r.cap == 0) = true := by rw [h.cap]; simp [hc0]
    simp only [SRing.step, this, if_true]
    exact ⟨hw', h.cap, rfl, h.len, h.kills, h.rot, h.yidx, h.fill⟩
  have hc : 0 < k.cap := by omega
  have hrc : (r.cap == 0) = false := by rw [h.cap]; simp; omega
  by_cases hk : k.lastAction = .kill
  · -- the kill sequence goes on: the most recent kill grows
    have hne := h.wf.kill_ne hk hc
    have hx := h.wf.idx_lt hne
    obtain ⟨s, hs, hcont⟩ := kill_cont h.wf hk hc t d
    rw [hcont] at he; cases he
    have hrl : (r.last == KAction.kill) = true := by rw [h.last, hk]; rfl
    have h0 : r.kills[0]? = some s := by
      rw [h.kills 0 (by omega), slotOf_zero]; exact hs
    cases hkl : r.kills with
    | nil => rw [hkl] at h0; simp at h0
    | cons x xs =>
      rw [hkl] at h0
      have hxs : x = s := by simpa using h0
      subst hxs
      simp only [SRing.step, hrc, Bool.false_eq_true, if_false, hrl, if_true, hkl]
      refine ⟨hw', h.cap, h.last, ?_, ?_, ?_, ?_, ?_⟩
      · simp only [List.length_cons, List.length_set]; rw [← h.len, hkl]; rfl
      · intro i hi
        simp only [List.length_set] at hi ⊢
        cases i with
        | zero => simp [slotOf_zero, hx]
        | succ j =>
          have hold := h.kills (j + 1) hi
          rw [hkl] at hold
          simp only [List.getElem?_cons_succ] at hold ⊢
          rw [hold, List.getElem?_set_ne (Ne.symm (slotOf_ne hi hx (by omega)))]
      · intro _; simpa using h.rot hne
      · intro _; simpa using h.yidx hne
      · intro _; simpa using h.fill hne
  · -- a new kill: it becomes the most recent one and ends the rotation
    obtain ⟨k1, he1, hla1, hidx1, hs1, hcap1, _, hsl1, hlen1, hlt1⟩ := kill_fresh h.wf hk hc t d
    rw [he] at he1; cases he1
    have hyi := kill_fresh_yank hk hc he
    have hrl : (r.last == KAction.kill) = false := by
      rw [h.last]; cases hla : k.lastAction <;> simp_all
    simp only [SRing.step, hrc, Bool.false_eq_true, if_false, hrl]
    by_cases hfull : k.slots.length < k.cap
    · -- not full: the text is pushed
      have hnext : nextIdx k = k.slots.length := by
        unfold nextIdx
        by_cases hemp : k.slots = []
        · have h0 := h.wf.idx_zero hemp
          simp [hemp, h0]
        · have hf := h.fill hemp hfull
          have hne : k.slots.isEmpty = false := by simpa using hemp
          have hw : ¬ (k.index = k.cap - 1) := by omega
          simp [hne, hw]; omega
      have hsl : k'.slots = k.slots ++ [t] := by
        rcases hsl1 with h1 | h1
        · exact h1
        · exfalso; rw [h1, hidx1, hnext] at hlt1; simp at hlt1
      have htake : (t :: r.kills).take r.cap = t :: r.kills := by
        apply List.take_of_length_le; simp only [List.length_cons, h.len, h.cap]; omega
      rw [htake]
      refine ⟨hw', h.cap.trans hcap'.symm, hla1.symm, ?_, ?_, ?_, ?_, ?_⟩
      · simp [hsl, h.len]
      · intro i hi
        rw [hsl] at hi ⊢
        simp only [List.length_append, List.length_cons, List.length_nil] at hi ⊢
        rw [hidx1, hnext]
        cases i with
        | zero => simp [slotOf_zero]
        | succ j =>
          have hj : j < k.slots.length := by omega
          have hemp : k.slots ≠ [] := by intro h0; rw [h0] at hj; simp at hj
          have hf := h.fill hemp hfull
          have hold := h.kills j hj
          have e1 : slotOf k.slots.length k.index j = k.index - j := by unfold slotOf; simp; omega
          have e2 : slotOf (k.slots.length + 0 + 1) k.slots.length (j + 1) = k.index - j := by
            unfold slotOf
            have : j + 1 ≤ k.slots.length := by omega
            simp only [this, if_true]; omega
          simp only [List.getElem?_cons_succ, Nat.add_zero] at e2 ⊢
          rw [hold, e1, e2, List.getElem?_append_left (by omega)]
      · intro _; simp [hsl]
      · intro _; rw [hyi]; simp [slotOf_zero]
      · intro _ _; rw [hidx1, hnext, hsl]; simp
    · -- full: the oldest kill is overwritten
      have hlen : k.slots.length = k.cap := by have := h.wf.len_le; omega
      have hne : k.slots ≠ [] := by intro h0; rw [h0] at hlen; simp at hlen; omega
      have hx := h.wf.idx_lt hne
      have hsl : k'.slots = k.slots.set (nextIdx k) t := by
        rcases hsl1 with h1 | h1
        · exfalso; rw [h1] at hlen1; simp at hlen1; omega
        · exact h1
      have hnx : nextIdx k = (if k.index + 1 = k.slots.length then 0 else k.index + 1) := by
        unfold nextIdx
        have hne' : k.slots.isEmpty = false := by simpa using hne
        by_cases hw : k.index = k.cap - 1
        · have : k.index + 1 = k.slots.length := by omega
          rw [if_pos this]; simp [hw]
        · have : ¬ k.index + 1 = k.slots.length := by omega
          simp [hw, hne', this]
      have hnlt : nextIdx k < k.slots.length := by rw [hnx]; split <;> omega
      have htake : (t :: r.kills).take r.cap = t :: r.kills.take (k.slots.length - 1) := by
        have : r.cap = (k.slots.length - 1) + 1 := by rw [h.cap]; omega
        rw [this, List.take_succ_cons]
      rw [htake]
      refine ⟨hw', h.cap.trans hcap'.symm, hla1.symm, ?_, ?_, ?_, ?_, ?_⟩
      · simp only [List.length_cons, List.length_take, hsl, List.length_set, h.len]; omega
      · intro i hi
        rw [hsl] at hi ⊢
        simp only [List.length_set] at hi ⊢
        rw [hidx1]
        cases i with
        | zero => simp [slotOf_zero, hnlt]
        | succ j =>
          have hj : j < k.slots.length := by omega
          have hold := h.kills j hj
          obtain ⟨e1, e2⟩ := slotOf_next (len := k.slots.length) (idx := k.index) (j := j) hx hi
          rw [← hnx] at e1 e2
          simp only [List.getElem?_cons_succ]
          rw [List.getElem?_take_of_lt (by omega), hold, e1, List.getElem?_set_ne (Ne.symm e2)]
      · intro _; simp only [hsl, List.length_set]; omega
      · intro _; rw [hyi]; simp [slotOf_zero]
      · intro _ hlt; exfalso; rw [hsl, List.length_set, hcap'] at hlt; omega

theorem SRing.step_kill_snd (r : SRing) (t : Text) (d : KMode) : (r.step (.kill t d)).2 = none := by
  simp only [SRing.step]
  split
  · rfl
  · split
    · split <;> rfl
    · rfl

/-- **The model answers like the reference ring**: along any sequence of commands (kills, yanks,
    yank-pops, other commands), every yank and yank-pop of the model returns what the reference ring
    of the property text returns. -/
theorem sim_obs (ops : List KOp) (hall : ops.all (fun op => !op.isListener) = true)
    (k : KillRing) (r : SRing) (h : Sim k r) : modelObs k ops = SRing.obs r ops := by
  induction ops generalizing k r with
  | nil => rfl
  | cons op ops ih =>
    simp only [List.all_cons, Bool.and_eq_true] at hall
    obtain ⟨hop, hrest⟩ := hall
    cases op with
    | kill t d =>
      obtain ⟨k', he, hs⟩ := h.kill t d
      have h2 := SRing.step_kill_snd r t d
      cases hst : r.step (.kill t d) with
      | mk r' o =>
        rw [hst] at h2 hs
        simp only at h2 hs
        subst h2
        simp only [modelObs, KOp.run, he, SRing.obs, hst]
        exact ih hrest k' r' hs
    | yank =>
      obtain ⟨k', o, he, ho, hs⟩ := h.yank
      cases hst : r.step .yank with
      | mk r' o' =>
        rw [hst] at ho hs
        simp only at ho hs
        subst ho
        simp only [modelObs, he, SRing.obs, hst]
        rw [ih hrest k' r' hs]
    | yankPop =>
      obtain ⟨k', o, he, ho, hs⟩ := h.yankPop
      cases hst : r.step .yankPop with
      | mk r' o' =>
        rw [hst] at ho hs
        simp only at ho hs
        subst ho
        simp only [modelObs, he, SRing.obs, hst]
        rw [ih hrest k' r' hs]
    | reset =>
      have hs := h.reset
      cases hst : r.step .reset with
      | mk r' o =>
        have h2 : o = none := by
          have : (r.step .reset).2 = none := rfl
          rw [hst] at this; exact this
        rw [hst] at hs
        simp only at hs
        subst h2
        simp only [modelObs, KOp.run, SRing.obs, hst]
        exact ih hrest _ r' hs
    | onDelete t d => simp [KOp.isListener] at hop
    | startKilling => simp [KOp.isListener] at hop
    | stopKilling => simp [KOp.isListener] at hop
