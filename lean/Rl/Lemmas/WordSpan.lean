/-
  C04: kills and copies by word movements cover exactly the declarative span, phrased with the
  executable oracles `checkKill` / `checkCopy` (the decomposition form is `C04_deleteWord_is_span` …).
-/
import Rl.Lemmas.CharSearch
import Rl.Lemmas.KillSpan
set_option linter.unusedVariables false
namespace Rl
open Rl.Spec

theorem pos_eq_len_of_empty {lb : LB} (h : WF lb) (hemp : lb.buf.isEmpty = true) : lb.pos = 0 ∧ lb.len = 0 := by
  have hb : lb.buf = [] := by simpa using hemp
  have := h.le_len
  simp [hb] at this
  exact ⟨this, by simp [LB.len, hb]⟩

theorem kill_forwardWord_is_span (S : Segmenter) (U : UData) (lb lb' : LB) (n : Nat) (a : At) (d : Word)
    (r : Bool) (ns : List Notif) (h : WF lb) (hrun : LB.kill S U (.forwardWord n a d) lb = .ok (r, lb', ns)) :
    checkKill S U lb (.forwardWord n a d) lb'.buf lb'.pos ns = none := by
  have hk : LB.kill S U (.forwardWord n a d) =
      (do LM.notify .startKill; let k ← LB.deleteWord S U a d n; LM.notify .stopKill; pure k) := rfl
  rw [hk] at hrun
  obtain ⟨ns0, hm, hkt⟩ := killWrapped_inv hrun
  rw [checkKill_congr hkt]
  clear hrun hkt hk
  unfold LB.deleteWord at hm
  by_cases hemp : lb.buf.isEmpty = true
  · obtain ⟨h0, hl0⟩ := pos_eq_len_of_empty h hemp
    have hnone : LB.nextWordPosR S U lb lb.pos a d n true = .ok none := by
      unfold LB.nextWordPosR; simp [h0, hl0]; rfl
    simp [LM.bind_apply, LM.ro, hnone] at hm
    obtain ⟨_, rfl, rfl⟩ := hm
    exact checkKill_nothing (by simp [spanOf, hemp]) rfl
  have hemp' : lb.buf.isEmpty = false := by simpa using hemp
  by_cases hj : n = 0 ∨ a = .beforeEnd
  · refine checkKill_unjudged ?_
    rcases hj with rfl | rfl <;> simp [spanOf, hemp']
  have hn : n ≠ 0 := fun e => hj (Or.inl e)
  have ha : a ≠ .beforeEnd := fun e => hj (Or.inr e)
  have hab : (a == At.beforeEnd) = false := by cases a <;> simp at ha ⊢
  have hr := nextWordPosR_target S U lb a d n true h ha hn
  simp only [Bool.not_true] at hr
  cases ht : wordTargetFwd S U lb.buf lb.pos a d n false with
  | none =>
    rw [ht] at hr
    simp [LM.bind_apply, LM.ro, hr] at hm
    obtain ⟨_, rfl, rfl⟩ := hm
    exact checkKill_nothing (by simp [spanOf, hemp', hn, hab, ht]) rfl
  | some t =>
    rw [ht] at hr
    obtain ⟨hb, hle⟩ := wordTargetFwd_boundary S U lb a d n false h t ht
    obtain ⟨x, y, z, hd, hbuf, hx, hy⟩ := drain_ok .forward h hb hle
    simp [LM.bind_apply, LM.ro, hr, LM.get, hd] at hm
    obtain ⟨_, rfl, rfl⟩ := hm
    exact cs_checkKill_mk (a := lb.pos) (b := t) (x := x) (y := y) (z := z)
      (by simp [spanOf, mkSpan, hemp', hn, hab, ht]) hbuf hx hy rfl (by simp [killedText]) rfl

theorem kill_backwardWord_is_span (S : Segmenter) (U : UData) (lb lb' : LB) (n : Nat) (d : Word)
    (r : Bool) (ns : List Notif) (h : WF lb) (hrun : LB.kill S U (.backwardWord n d) lb = .ok (r, lb', ns)) :
    checkKill S U lb (.backwardWord n d) lb'.buf lb'.pos ns = none := by
  have hk : LB.kill S U (.backwardWord n d) =
      (do LM.notify .startKill; let k ← LB.deletePrevWord S U d n; LM.notify .stopKill; pure k) := rfl
  rw [hk] at hrun
  obtain ⟨ns0, hm, hkt⟩ := killWrapped_inv hrun
  rw [checkKill_congr hkt]
  clear hrun hkt hk
  unfold LB.deletePrevWord at hm
  by_cases hemp : lb.buf.isEmpty = true
  · obtain ⟨h0, hl0⟩ := pos_eq_len_of_empty h hemp
    have hnone : LB.prevWordPos S U lb lb.pos d n = .ok none := by
      unfold LB.prevWordPos; simp [h0]; rfl
    simp [LM.bind_apply, LM.ro, hnone] at hm
    obtain ⟨_, rfl, rfl⟩ := hm
    exact checkKill_nothing (by simp [spanOf, hemp]) rfl
  have hemp' : lb.buf.isEmpty = false := by simpa using hemp
  by_cases hn : n = 0
  · subst hn
    exact checkKill_unjudged (by simp [spanOf, hemp'])
  have hr := prevWordPos_eq S U lb d n h hn
  cases ht : wordTargetBwd S U lb.buf lb.pos d n with
  | none =>
    rw [ht] at hr
    simp [LM.bind_apply, LM.ro, hr] at hm
    obtain ⟨_, rfl, rfl⟩ := hm
    exact checkKill_nothing (by simp [spanOf, hemp', hn, ht]) rfl
  | some t =>
    rw [ht] at hr
    obtain ⟨hb, hle⟩ := wordTargetBwd_boundary S U lb d n h t ht
    obtain ⟨x, y, z, hd, hbuf, hx, hy⟩ := drain_ok .backward hb h hle
    simp [LM.bind_apply, LM.ro, hr, LM.get, hd, LM.setPos] at hm
    obtain ⟨_, rfl, rfl⟩ := hm
    exact cs_checkKill_mk (a := t) (b := lb.pos) (x := x) (y := y) (z := z)
      (by simp [spanOf, mkSpan, hemp', hn, ht]) hbuf hx hy rfl (by simp [killedText]) rfl

theorem copy_forwardWord_is_span (S : Segmenter) (U : UData) (lb : LB) (n : Nat) (a : At) (d : Word)
    (r : Option Text) (h : WF lb) (hrun : LB.copy S U lb (.forwardWord n a d) = .ok r) :
    checkCopy S U lb (.forwardWord n a d) (.optText r) = none := by
  by_cases hemp : lb.buf.isEmpty = true
  · simp [LB.copy, hemp, pure, Except.pure] at hrun
    subst hrun
    exact checkCopy_nothing (by simp [spanOf, hemp])
  have hemp' : lb.buf.isEmpty = false := by simpa using hemp
  by_cases hj : n = 0 ∨ a = .beforeEnd
  · refine checkCopy_unjudged ?_
    rcases hj with rfl | rfl <;> simp [spanOf, hemp']
  have hn : n ≠ 0 := fun e => hj (Or.inl e)
  have ha : a ≠ .beforeEnd := fun e => hj (Or.inr e)
  have hab : (a == At.beforeEnd) = false := by cases a <;> simp at ha ⊢
  have hr := nextWordPosR_target S U lb a d n true h ha hn
  simp only [Bool.not_true] at hr
  cases ht : wordTargetFwd S U lb.buf lb.pos a d n false with
  | none =>
    rw [ht] at hr
    simp [LB.copy, hemp', hr, bind, Except.bind, pure, Except.pure] at hrun
    subst hrun
    exact checkCopy_nothing (by simp [spanOf, hemp', hn, hab, ht])
  | some t =>
    rw [ht] at hr
    obtain ⟨hb, hle⟩ := wordTargetFwd_boundary S U lb a d n false h t ht
    obtain ⟨x, y, z, hs3, hbuf, hx, hy⟩ := split3_of_boundaries h hb hle
    simp [LB.copy, hemp', hr, slice, hs3, bind, Except.bind, pure, Except.pure] at hrun
    subst hrun
    exact cs_checkCopy_mk (a := lb.pos) (b := t) (by simp [spanOf, mkSpan, hemp', hn, hab, ht]) hbuf hx hy

theorem copy_backwardWord_is_span (S : Segmenter) (U : UData) (lb : LB) (n : Nat) (d : Word)
    (r : Option Text) (h : WF lb) (hrun : LB.copy S U lb (.backwardWord n d) = .ok r) :
    checkCopy S U lb (.backwardWord n d) (.optText r) = none := by
  by_cases hemp : lb.buf.isEmpty = true
  · simp [LB.copy, hemp, pure, Except.pure] at hrun
    subst hrun
    exact checkCopy_nothing (by simp [spanOf, hemp])
  have hemp' : lb.buf.isEmpty = false := by simpa using hemp
  by_cases hn : n = 0
  · subst hn
    exact checkCopy_unjudged (by simp [spanOf, hemp'])
  have hr := prevWordPos_eq S U lb d n h hn
  cases ht : wordTargetBwd S U lb.buf lb.pos d n with
  | none =>
    rw [ht] at hr
    simp [LB.copy, hemp', hr, bind, Except.bind, pure, Except.pure] at hrun
    subst hrun
    exact checkCopy_nothing (by simp [spanOf, hemp', hn, ht])
  | some t =>
    rw [ht] at hr
    obtain ⟨hb, hle⟩ := wordTargetBwd_boundary S U lb d n h t ht
    obtain ⟨x, y, z, hs3, hbuf, hx, hy⟩ := split3_of_boundaries hb h hle
    simp [LB.copy, hemp', hr, slice, hs3, bind, Except.bind, pure, Except.pure] at hrun
    subst hrun
    exact cs_checkCopy_mk (a := t) (b := lb.pos) (by simp [spanOf, mkSpan, hemp', hn, ht]) hbuf hx hy

end Rl
