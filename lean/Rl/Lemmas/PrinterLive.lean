/- Helper lemmas for the gap-filling theorems of Rl/Props/C19.lean: the raw-mode flag tracks the
   editing thread's program counter; which steps can touch the channel / a printer's hand. -/
import Rl.Printer
import Rl.Lemmas.Printer
set_option linter.unusedSimpArgs false
set_option linter.unusedVariables false
namespace Rl.Printer

/-- the shared flag is `true` exactly while the editing thread is between the two flag stores -/
def RawInv (s : Sys) : Prop := s.raw = true ↔ s.epc ≠ .outside

theorem rawInv_init : RawInv init := by simp [RawInv, init]

theorem rawInv_step {s s' : Sys} (l : Label) (hi : RawInv s) (h : step s l = some s') : RawInv s' := by
  unfold RawInv at hi ⊢
  cases l with
  | eKey =>
    simp only [step] at h; split at h <;> cases h
    · rename_i k ks hpc hk
      cases k <;> simp_all [keyMain]
    · rename_i k ks hpc hk
      cases k <;> simp_all [keySub]
  | _ =>
    simp only [step] at h
    all_goals (try split at h)
    all_goals (first | (cases h) | skip)
    all_goals (simp_all)

theorem reach_rawInv {s : Sys} (h : Reach s) : RawInv s := by
  induction h with
  | init => exact rawInv_init
  | step l _ hs ih => exact rawInv_step l ih hs

/-- the labels of the editing thread -/
def edLabels : List Label :=
  [.eStoreTrue, .eMarkOn, .ePrompt, .eKey, .eWake, .eReadByte, .eRecv, .eShow, .eMarkOff, .eStoreFalse]

/-- the labels of the environment (application and keyboard) -/
def Label.isEnv : Label → Bool
  | .issue _ _ | .cmdRead | .keyWrite _ | .keyArrive => true
  | _ => false


def Label.isEd : Label → Bool
  | .eStoreTrue | .eMarkOn | .ePrompt | .eKey | .eWake | .eReadByte | .eRecv | .eShow | .eMarkOff
  | .eStoreFalse => true
  | _ => false

/-- the delivery phase of message `m`: the reader is in the main loop with no key pending, the
    message is in the channel with its wake-up byte in the pipe, or the reader is already on its way
    (`select` returned / byte read / message in hand) -/
def Deliv (m : Msg) (s : Sys) : Prop :=
  (s.epc = .waiting ∧ s.keys = [] ∧ 1 ≤ s.pipe ∧ s.chan = some m) ∨
  (s.epc = .woken ∧ 1 ≤ s.pipe ∧ s.chan = some m) ∨
  (s.epc = .gotByte ∧ s.chan = some m) ∨
  s.epc = .showing m

/-- editor steps still needed before `m` is on the terminal -/
def dphase (s : Sys) : Nat :=
  match s.epc with
  | .waiting => 4 | .woken => 3 | .gotByte => 2 | .showing _ => 1 | _ => 0

/-- every step appends to the terminal output -/
theorem out_step {s s' : Sys} (l : Label) (h : step s l = some s') : ∃ ev, s'.out = s.out ++ ev := by
  cases l with
  | eKey =>
    simp only [step] at h; split at h <;> cases h
    · rename_i k ks _ _; cases k <;> exact ⟨[], by simp [keyMain]⟩
    · rename_i k ks _ _; cases k <;> exact ⟨[], by simp [keySub]⟩
  | _ =>
    simp only [step] at h
    all_goals (try split at h)
    all_goals (first | (cases h) | skip)
    all_goals (first | exact ⟨_, rfl⟩ | exact ⟨[], (List.append_nil _).symm⟩)

theorem out_run : ∀ (ls : List Label) (s s' : Sys), run s ls = some s' → ∃ ev, s'.out = s.out ++ ev
  | [], s, s', h => by simp [run] at h; subst h; exact ⟨[], by simp⟩
  | l :: ls, s, s', h => by
    simp only [run] at h
    cases hl : step s l with
    | none => simp [hl] at h
    | some s1 =>
      rw [hl] at h
      obtain ⟨e1, h1⟩ := out_step l hl
      obtain ⟨e2, h2⟩ := out_run ls s1 s' h
      exact ⟨e1 ++ e2, by rw [h2, h1, List.append_assoc]⟩

/-- one step in the delivery phase: the phase persists (an editor step moves it one stage on), or
    the step is `eShow` and puts `m` on the terminal -/
theorem deliv_step {m : Msg} {s s' : Sys} (l : Label) (hd : Deliv m s) (hk : l ≠ .keyArrive)
    (h : step s l = some s') :
    (Deliv m s' ∧ dphase s' + (if l.isEd then 1 else 0) = dphase s) ∨
    (l = .eShow ∧ s'.out = s.out ++ [.shown m] ∧ s'.epc = .waiting ∧ s'.chan = s.chan ∧ s'.line = s.line) := by
  unfold Deliv at hd ⊢
  cases l with
  | keyArrive => exact absurd rfl hk
  | eKey =>
    simp only [step] at h; split at h <;> cases h
    · rename_i k ks hpc hkk
      rcases hd with hd | hd | hd | hd <;> simp_all
    · rename_i k ks hpc hkk
      rcases hd with hd | hd | hd | hd <;> simp_all
  | _ =>
    simp only [step] at h
    all_goals (try split at h)
    all_goals (first | (cases h) | skip)
    all_goals (rcases hd with hd | hd | hd | hd)
    all_goals (simp_all [dphase, Label.isEd] <;> omega)

theorem dphase_le (s : Sys) : dphase s ≤ 4 := by unfold dphase; split <;> omega

theorem deliv_run {m : Msg} : ∀ (ls : List Label) (s s' : Sys), Deliv m s → Label.keyArrive ∉ ls →
    run s ls = some s' →
    (Deliv m s' ∧ dphase s' + (ls.filter Label.isEd).length = dphase s) ∨
      Ev.shown m ∈ s'.out.drop s.out.length
  | [], s, s', hd, _, h => by simp [run] at h; subst h; exact Or.inl ⟨hd, by simp⟩
  | l :: ls, s, s', hd, hk, h => by
    simp only [run] at h
    cases hl : step s l with
    | none => simp [hl] at h
    | some s1 =>
      rw [hl] at h
      simp only [Option.bind_some] at h
      have hk1 : l ≠ .keyArrive := fun e => hk (by simp [e])
      have hk2 : Label.keyArrive ∉ ls := fun e => hk (by simp [e])
      obtain ⟨e1, he1⟩ := out_step l hl
      rcases deliv_step l hd hk1 hl with ⟨hd1, hph⟩ | ⟨_, ho, _⟩
      · rcases deliv_run ls s1 s' hd1 hk2 h with ⟨hd2, hph2⟩ | hsh
        · left
          refine ⟨hd2, ?_⟩
          simp only [List.filter_cons]
          split <;> simp_all <;> omega
        · right
          rw [he1, List.length_append, ← List.drop_drop] at hsh
          exact List.mem_of_mem_drop hsh
      · right
        obtain ⟨e2, he2⟩ := out_run ls s1 s' h
        rw [he2, ho, List.append_assoc, List.drop_left]
        simp

/-- in the delivery phase exactly the next editor step is enabled: the reader is not blocked -/
theorem deliv_enabled {m : Msg} {s : Sys} (hd : Deliv m s) :
    ∃ e, e.isEd = true ∧ (step s e).isSome = true := by
  rcases hd with ⟨he, hk, hp, hc⟩ | ⟨he, hp, hc⟩ | ⟨he, hc⟩ | he
  · obtain ⟨p, hp'⟩ : ∃ p, s.pipe = p + 1 := ⟨s.pipe - 1, by omega⟩
    exact ⟨.eWake, rfl, by simp [step, he, hk, hp']⟩
  · obtain ⟨p, hp'⟩ : ∃ p, s.pipe = p + 1 := ⟨s.pipe - 1, by omega⟩
    exact ⟨.eReadByte, rfl, by simp [step, he, hp']⟩
  · exact ⟨.eRecv, rfl, by simp [step, he, hc]⟩
  · exact ⟨.eShow, rfl, by simp [step, he]⟩

end Rl.Printer
