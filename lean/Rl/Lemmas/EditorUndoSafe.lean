/-
  C17: `Undo`.  `Changeset::undo` applies `Change::undo` to the line; each application either panics
  (a slice off the text) or leaves the cursor on a character boundary and the buffer growable.  Under
  the C05 log invariant (the stack replays to the text of the line) it does not panic
  (`C05_undo_past_text`), so `Undo` is safe from the read invariant WHEN the log invariant holds;
  carrying the log invariant through every command and sub-loop is what remains open.
-/
import Rl.Lemmas.EditorRead
import Rl.Props.C05
namespace Rl
open EM

section
variable (S : Segmenter) (U : UData) (cfg : EdCfg)

/-- a successful `Change::undo` leaves a well-formed, still growable buffer -/
theorem undoOn_wf_grow {ch : Change} {lb lb' : LB} (h : ch.undoOn S U lb = .ok lb') :
    WF lb' ∧ lb'.canGrow = lb.canGrow := by
  cases ch with
  | begin => cases h
  | end_ => cases h
  | insert idx text =>
    simp only [Change.undoOn] at h
    cases hd : LB.deleteRange S U idx (idx + blen text) lb with
    | error e => rw [hd] at h; cases h
    | ok r =>
      obtain ⟨u, l, ns⟩ := r
      rw [hd] at h; cases h
      refine ⟨?_, (Grow.deleteRange S U _ _).h _ _ _ _ hd⟩
      -- `delete_range`: `set_pos(idx)` then the drain
      unfold LB.deleteRange at hd
      obtain ⟨a, lb1, n1, n2, h1, h2, _⟩ := LM.bind_ok hd
      unfold LB.setPosChecked at h1
      split at h1
      · cases h1
        obtain ⟨y, lb2, m1, m2, h3, h4, _⟩ := LM.bind_ok h2
        cases h4
        unfold LB.drain at h3
        cases hs : split3 lb.buf idx (idx + blen text) with
        | error e => simp [hs] at h3
        | ok t =>
          obtain ⟨x, y', z⟩ := t
          simp only [hs] at h3
          cases h3
          obtain ⟨hb, hx, _⟩ := split3_ok hs
          show IsBoundary (x ++ z) idx
          rw [hx]; exact isBoundary_mid x z
      · cases h1
  | delete idx text =>
    simp only [Change.undoOn] at h
    cases hi : LB.insertStr S U idx text lb with
    | error e => rw [hi] at h; cases h
    | ok r =>
      obtain ⟨u, l, ns⟩ := r
      rw [hi] at h
      simp only [] at h
      cases hp : LB.setPosChecked S U (idx + blen text) l with
      | error e => rw [hp] at h; cases h
      | ok r2 =>
        obtain ⟨u2, l2, ns2⟩ := r2
        rw [hp] at h; cases h
        refine ⟨?_, ((Grow.setPosChecked S U _).h _ _ _ _ hp).trans ((Grow.insertStr S U _ _).h _ _ _ _ hi)⟩
        unfold LB.insertStr at hi
        cases hs : splitAtByte lb.buf idx with
        | none => simp [hs] at hi
        | some xz =>
          obtain ⟨x, z⟩ := xz
          simp only [hs] at hi
          cases hi
          unfold LB.setPosChecked at hp
          split at hp
          · cases hp
            obtain ⟨_, hx⟩ := splitAtByte_some hs
            show IsBoundary (x ++ text ++ z) (idx + blen text)
            exact ⟨x ++ text, z, rfl, by simp [hx]⟩
          · cases hp
  | replace idx old new =>
    simp only [Change.undoOn] at h
    cases hr : LB.replace S U idx (idx + blen new) old lb with
    | error e => rw [hr] at h; cases h
    | ok r =>
      obtain ⟨u, l, ns⟩ := r
      rw [hr] at h; cases h
      refine ⟨?_, (Grow.replace S U _ _ _).h _ _ _ _ hr⟩
      unfold LB.replace at hr
      cases hs : split3 lb.buf idx (idx + blen new) with
      | error e => simp [hs] at hr
      | ok t =>
        obtain ⟨x, y, z⟩ := t
        simp only [hs] at hr
        cases hr
        obtain ⟨_, hx, _⟩ := split3_ok hs
        show IsBoundary (x ++ old ++ z) (idx + blen old)
        exact ⟨x ++ old, z, rfl, by simp [hx]⟩


/-- the line `Changeset::undo` hands back is the old one or a well-formed one, and still growable -/
theorem undoLoop_wf_grow (n : Nat) : ∀ (us redos : List Change) (lb : LB) (wfb : Int) (count : Nat)
    (undone : Bool) (level : Nat) (r : List Change × List Change × LB × Bool × Nat),
    Changeset.undoLoop S U n us redos lb wfb count undone level = .ok r →
    (r.2.2.1 = lb ∨ WF r.2.2.1) ∧ r.2.2.1.canGrow = lb.canGrow := by
  intro us
  induction us with
  | nil =>
    intro redos lb wfb count undone level r h
    simp only [Changeset.undoLoop] at h
    cases h
    exact ⟨.inl rfl, rfl⟩
  | cons ch rest ih =>
    intro redos lb wfb count undone level r h
    -- one step, then either stop or go on from the stepped line
    have key : ∀ (lb1 : LB) (w1 : Int) (u1 : Bool) (l1 : Nat),
        ((lb1 = lb ∨ WF lb1) ∧ lb1.canGrow = lb.canGrow) →
        (if w1 ≤ 0 then
          if count + 1 ≥ n then .ok (rest, ch :: redos, lb1, u1, l1)
          else Changeset.undoLoop S U n rest (ch :: redos) lb1 w1 (count + 1) u1 l1
        else Changeset.undoLoop S U n rest (ch :: redos) lb1 w1 count u1 l1) = .ok r →
        (r.2.2.1 = lb ∨ WF r.2.2.1) ∧ r.2.2.1.canGrow = lb.canGrow := by
      intro lb1 w1 u1 l1 ⟨h1, hg1⟩ hk
      have fin : ∀ r' : List Change × List Change × LB × Bool × Nat, ((r'.2.2.1 = lb1 ∨ WF r'.2.2.1) ∧ r'.2.2.1.canGrow = lb1.canGrow) →
          (r'.2.2.1 = lb ∨ WF r'.2.2.1) ∧ r'.2.2.1.canGrow = lb.canGrow := by
        intro r' ⟨ha, hb⟩
        refine ⟨?_, hb.trans hg1⟩
        rcases ha with ha | ha
        · rw [ha]; exact h1
        · exact .inr ha
      split at hk
      · split at hk
        · cases hk; exact ⟨h1, hg1⟩
        · exact fin r (ih _ _ _ _ _ _ _ hk)
      · exact fin r (ih _ _ _ _ _ _ _ hk)
    simp only [Changeset.undoLoop] at h
    cases ch with
    | begin =>
      by_cases hw : 0 < wfb
      · simp only [hw, if_true] at h
        exact key lb _ _ _ ⟨.inl rfl, rfl⟩ h
      · simp only [hw, if_false] at h
        exact key lb _ _ _ ⟨.inl rfl, rfl⟩ h
    | end_ =>
      simp only [] at h
      exact key lb _ _ _ ⟨.inl rfl, rfl⟩ h
    | insert idx text =>
      simp only [] at h
      cases hu : (Change.insert idx text).undoOn S U lb with
      | error e => rw [hu] at h; cases h
      | ok lb1 =>
        rw [hu] at h
        obtain ⟨hw, hg⟩ := undoOn_wf_grow S U hu
        exact key lb1 _ _ _ ⟨.inr hw, hg⟩ h
    | delete idx text =>
      simp only [] at h
      cases hu : (Change.delete idx text).undoOn S U lb with
      | error e => rw [hu] at h; cases h
      | ok lb1 =>
        rw [hu] at h
        obtain ⟨hw, hg⟩ := undoOn_wf_grow S U hu
        exact key lb1 _ _ _ ⟨.inr hw, hg⟩ h
    | replace idx old new =>
      simp only [] at h
      cases hu : (Change.replace idx old new).undoOn S U lb with
      | error e => rw [hu] at h; cases h
      | ok lb1 =>
        rw [hu] at h
        obtain ⟨hw, hg⟩ := undoOn_wf_grow S U hu
        exact key lb1 _ _ _ ⟨.inr hw, hg⟩ h


/-- the C05 log invariant: the undo stack, replayed oldest change first from some text, gives the
    text of the line -/
def UndoLogInv (s : Ed) : Prop := ∃ t0, replayLog s.changes.undos.reverse t0 = some s.line.buf

/-- `Undo` from the read invariant, WHEN the log invariant holds: it does not panic
    (`C05_undo_past_text`), the cursor is on a boundary again, the line is still growable, and the
    log invariant holds again -/
theorem rsafe_undo (hnp : cfg.hinterPanicAt = none) (n : Nat) {s : Ed} (h : RdInv cfg s) (hl : UndoLogInv s) :
    wp (execute S U cfg (.undo n)) (fun _ s' => RdInv cfg s' ∧ UndoLogInv s') PE s := by
  obtain ⟨t0, hlog⟩ := hl
  obtain ⟨c', l', undone, hu, hlog', _⟩ := C05_undo_past_text S U s.changes s.line n t0 hlog
  have hwg : (l' = s.line ∨ WF l') ∧ l'.canGrow = s.line.canGrow := by
    unfold Changeset.undo at hu
    cases hloop : Changeset.undoLoop S U n s.changes.undos s.changes.redos s.line 0 0 false s.changes.level with
    | error e => rw [hloop] at hu; cases hu
    | ok r =>
      obtain ⟨us, rs, lb2, ud, lv⟩ := r
      rw [hloop] at hu
      cases hu
      exact undoLoop_wf_grow S U n _ _ _ _ _ _ _ _ hloop
  have hw : WF l' := by
    rcases hwg.1 with he | hw
    · rw [he]; exact h.1.line
    · exact hw
  have he : execute S U cfg (.undo n) = (do
      pure ()
      let s ← EM.get
      match s.changes.undo S U s.line n with
      | .ok (c, l, undone) => do
        EM.set { s with changes := c, line := l }
        if undone then refreshLine S U cfg
        pure .proceed
      | .error _ => EM.exit .panic) := rfl
  rw [he]
  simp only [wp_bind, wp_pure, wp_get, hu, wp_set]
  have h1 : RdInv cfg ({ s with changes := c', line := l' } : Ed) :=
    ⟨EdWF.mk' hw h.1.saved h.1.ring, hwg.2.trans h.2.1, h.2.2⟩
  have hl1 : UndoLogInv ({ s with changes := c', line := l' } : Ed) := ⟨t0, hlog'⟩
  split
  · simp only [wp_bind, wp_pure]
    refine wp_refreshLine_inv S U cfg hnp h1 fun s2 h2 hc2 => ?_
    refine ⟨h2, ?_⟩
    obtain ⟨e1, _, e3, _⟩ := Ed.core_eq hc2
    obtain ⟨t, ht⟩ := hl1
    exact ⟨t, by rw [e1, e3]; exact ht⟩
  · simp only [wp_pure]
    exact ⟨h1, hl1⟩

end
end Rl
