/-
  Helper lemmas for the C04 "a kill / copy covers exactly the span" theorems: how the executable
  oracles `checkKill` / `checkCopy` of `Rl/Spec/Motion.lean` are discharged once the declarative span
  is known.
-/
import Rl.Lemmas.Motion
namespace Rl
open Rl.Spec

theorem removeSpan_mid (x y z : Text) :
    removeSpan (x ++ y ++ z) (blen x) (blen x + blen y) = some (x ++ z, y) := by
  unfold removeSpan; rw [split3_append]

/-- the declarative span is `[a, b)`, the old text is `x ++ y ++ z` with `y` the span, the new text is
    `x ++ z`, the reported text is `y` and the cursor is on `a`: the oracle is satisfied -/
theorem checkKill_span {S : Segmenter} {U : UData} {old : LB} {mvt : Movement} {a b : Nat} {x y z : Text}
    {buf : Text} {pos : Nat} {ns : List Notif}
    (hs : spanOf S U old.buf old.pos mvt false = .span a b)
    (hb : old.buf = x ++ y ++ z) (ha : a = blen x) (hb2 : b = blen x + blen y)
    (hbuf : buf = x ++ z) (hk : killedText ns = y) (hp : pos = a) :
    checkKill S U old mvt buf pos ns = none := by
  unfold checkKill
  rw [hs]
  simp only [hb, ha, hb2, removeSpan_mid, hbuf, hk, hp]
  simp

theorem checkKill_nothing {S : Segmenter} {U : UData} {old : LB} {mvt : Movement}
    {buf : Text} {pos : Nat} {ns : List Notif}
    (hs : spanOf S U old.buf old.pos mvt false = .nothing) (hbuf : buf = old.buf) :
    checkKill S U old mvt buf pos ns = none := by
  unfold checkKill
  rw [hs]
  simp [hbuf]

theorem checkKill_unjudged {S : Segmenter} {U : UData} {old : LB} {mvt : Movement}
    {buf : Text} {pos : Nat} {ns : List Notif}
    (hs : spanOf S U old.buf old.pos mvt false = .unjudged) :
    checkKill S U old mvt buf pos ns = none := by
  unfold checkKill
  rw [hs]

theorem checkCopy_span {S : Segmenter} {U : UData} {old : LB} {mvt : Movement} {a b : Nat} {x y z : Text}
    (hs : spanOf S U old.buf old.pos mvt true = .span a b)
    (hb : old.buf = x ++ y ++ z) (ha : a = blen x) (hb2 : b = blen x + blen y) :
    checkCopy S U old mvt (.optText (some y)) = none := by
  unfold checkCopy
  rw [hs]
  simp only [hb, ha, hb2, removeSpan_mid]
  simp

theorem checkCopy_nothing {S : Segmenter} {U : UData} {old : LB} {mvt : Movement}
    (hs : spanOf S U old.buf old.pos mvt true = .nothing) :
    checkCopy S U old mvt (.optText none) = none := by
  unfold checkCopy
  rw [hs]
  simp

theorem checkCopy_unjudged {S : Segmenter} {U : UData} {old : LB} {mvt : Movement} {r : Ret}
    (hs : spanOf S U old.buf old.pos mvt true = .unjudged) :
    checkCopy S U old mvt r = none := by
  unfold checkCopy
  rw [hs]

/-- the span constructor of `spanOf` -/
def mkSpan (a b : Nat) : SpanRes := if a < b then .span a b else .nothing

end Rl
