/-
  Helper lemmas for C01: the `EM` monad of the editor model (bind / pure evaluation, "the text is
  not changed" as a compositional predicate), the numeric-argument arithmetic, and the denotation of
  a resolved documented action as a `Cmd`.
-/
import Rl.Editor
import Rl.Spec.Doc
import Rl.Lemmas.LineBuffer
import Rl.Lemmas.LineBufferSafe
import Rl.Lemmas.EditorM
import Rl.Lemmas.EditorOps
namespace Rl
open Rl.Spec Rl.Spec.Doc

theorem EM.map_unit_apply {α : Type} (m : EM α) (s : Ed) :
    (do let _ ← m; pure () : EM Unit) s = match m s with | .error e => .error e | .ok (_, s') => .ok ((), s') := rfl

/-- a state reader written as a lambda, followed by a continuation -/
theorem EM.bind_read {α β : Type} (g : Ed → α) (f : α → EM β) (s : Ed) :
    ((fun s => Except.ok (g s, s) : EM α) >>= f) s = f (g s) s := rfl

/-! ### counts -/

/-- count and direction of a pending `num_args` value (`0` = no argument = 1) -/
def countOf (a : Int) : Nat × Bool :=
  let a := if a == 0 then 1 else a
  if a < 0 then (a.natAbs, false) else (a.toNat, true)

theorem emacsNumArgs_eq (s : Ed) :
    emacsNumArgs s = .ok (countOf s.inp.numArgs, { s with inp := { s.inp with numArgs := 0 } }) := by
  simp only [emacsNumArgs, takeNumArgs, EM.bind_apply, countOf]
  by_cases h0 : s.inp.numArgs = 0
  · simp [h0, EM.pure_apply]
  · by_cases h1 : s.inp.numArgs < 0 <;> simp [h0, h1, EM.pure_apply]

theorem viNumArgs_eq (s : Ed) (h : 0 ≤ s.inp.numArgs) :
    viNumArgs s = .ok ((countOf s.inp.numArgs).1, { s with inp := { s.inp with numArgs := 0 } }) := by
  simp only [viNumArgs, takeNumArgs, EM.bind_apply, countOf]
  by_cases h0 : s.inp.numArgs = 0
  · (simp [h0]) <;> rfl
  · have : ¬ s.inp.numArgs < 0 := by omega
    (simp [h0, this]) <;> rfl

/-- the model's magnitude accumulation is the spec's `argValue` fold -/
theorem foldl_digitAccum_some (ds : List Nat) (v : Nat) :
    ds.foldl digitAccum (some v) = some (ds.foldl (fun v d => if v < 1000 then 10 * v + d else v) v) := by
  induction ds generalizing v with
  | nil => rfl
  | cons d ds ih =>
    simp only [List.foldl_cons, digitAccum, Option.getD_some]
    rw [ih]
    congr 2
    split <;> omega

theorem foldl_digitAccum_none (d : Nat) (ds : List Nat) :
    (d :: ds).foldl digitAccum none = some (argValue (d :: ds)) := by
  simp only [List.foldl_cons, digitAccum, Option.getD_none, argValue]
  rw [foldl_digitAccum_some]

/-! ### the `Cmd` a resolved documented action denotes -/

def Spec.Doc.Act.toCmd : Act → Option Cmd
  | .insert n c => some (.selfInsert n c)
  | .move m => some (.move m)
  | .kill m => some (.kill m)
  | .change m => some (.replace m none)
  | .yankOnly m => some (.viYankTo m)
  | .editWord .uppercase => some .upcaseWord
  | .editWord .lowercase => some .downcaseWord
  | .editWord .capitalize => some .capitalizeWord
  | .transposeChars => some .transposeChars
  | .replaceChar n c => some (.replaceChar n c)
  | .toInsert (some m) => some (.move m)
  | .toInsert none => some .noop
  | .toCommand => some (.move (.backwardChar 1))
  | .accept => some (.acceptOrInsertLine true)
  | .eof => some .endOfFile
  | .interrupt => some .interrupt
  | .nothing => some .noop
  | .unjudged => none

/-! ### "does not change the text" -/

/-- `m` leaves the edited text alone, whether it returns or exits -/
def TextPure {α : Type} (m : EM α) : Prop :=
  ∀ s, match m s with
       | .ok (_, s') => s'.line.buf = s.line.buf
       | .error (_, s') => s'.line.buf = s.line.buf

namespace TextPure
variable {α β : Type}

theorem bind {m : EM α} {f : α → EM β} (hm : TextPure m) (hf : ∀ a, TextPure (f a)) : TextPure (m >>= f) := by
  intro s
  have h1 := hm s
  rw [EM.bind_apply]
  cases hms : m s with
  | error e => obtain ⟨o, s'⟩ := e; rw [hms] at h1; exact h1
  | ok r =>
    obtain ⟨a, s1⟩ := r
    rw [hms] at h1
    have h2 := hf a s1
    simp only at h1 ⊢
    cases hfs : f a s1 with
    | error e => obtain ⟨o, s'⟩ := e; rw [hfs] at h2; simp only at h2 ⊢; rw [h2, h1]
    | ok r => obtain ⟨b, s2⟩ := r; rw [hfs] at h2; simp only at h2 ⊢; rw [h2, h1]

theorem pure (a : α) : TextPure (Pure.pure a : EM α) := fun _ => rfl

theorem modify (f : Ed → Ed) (h : ∀ s, (f s).line.buf = s.line.buf) : TextPure (EM.modify f) := fun s => h s

theorem exit (o : Outcome) : TextPure (EM.exit o : EM α) := fun _ => rfl

theorem ite {c : Prop} [Decidable c] {a b : EM α} (ha : TextPure a) (hb : TextPure b) :
    TextPure (if c then a else b) := by split <;> assumption

/-- a line-buffer motion run without listener -/
theorem lbQuiet {op : LM α} (h : PosOnly op) : TextPure (Rl.lbQuiet op) := by
  intro s
  unfold Rl.lbQuiet
  cases hop : op s.line with
  | error e => rfl
  | ok r =>
    obtain ⟨a, l, ns⟩ := r
    exact (h.h _ _ _ _ hop).1

theorem highlightCharStep (cfg : EdCfg) : TextPure (Rl.highlightCharStep cfg) := by
  intro s
  unfold Rl.highlightCharStep
  by_cases h1 : cfg.hasHelper = true
  · by_cases h2 : cfg.highlightChar s.line.buf s.line.pos = true
    · simp [h1, h2]
    · by_cases h3 : s.highlightChar = true <;> simp [h1, h2, h3]
  · simp [h1]

theorem logRender (f : Ed → RenderOp) : TextPure (Rl.logRender f) := modify _ (fun _ => rfl)

theorem moveCursor (S : Segmenter) (U : UData) (cfg : EdCfg) : TextPure (Rl.moveCursor S U cfg) := by
  unfold Rl.moveCursor
  refine bind (fun _ => rfl) (fun s => ?_)
  refine ite (logRender _) ?_
  refine bind (highlightCharStep cfg) (fun hl => ?_)
  dsimp only
  refine ite ?_ ?_
  · exact bind (modify _ (fun _ => rfl)) (fun _ => logRender _)
  · exact bind (modify _ (fun _ => rfl)) (fun _ => logRender _)

theorem editMove (S : Segmenter) (U : UData) (cfg : EdCfg) {op : LM Bool} (h : PosOnly op) :
    TextPure (Rl.editMove S U cfg op) := by
  unfold Rl.editMove
  exact bind (lbQuiet h) (fun b => by cases b <;> simp <;> first | exact moveCursor S U cfg | exact pure _)

theorem getLine : TextPure Rl.getLine := fun _ => rfl
theorem getPromptCol : TextPure Rl.getPromptCol := fun _ => rfl

end TextPure
/-! ### the accepting commands and one iteration of the read loop (C01_outcome) -/

theorem execute_endOfFile (S : Segmenter) (U : UData) (cfg : EdCfg) :
    execute S U cfg .endOfFile = withPreAccept S U cfg (do
      let empty ← lineEmpty
      if empty then EM.exit .eof else if cfg.vi then pure .submit else pure .proceed) := by
  unfold execute withPreAccept
  simp only []

/-- one iteration of the main loop for a command that needs no sub-loop -/
theorem mainLoop_step (S : Segmenter) (U : UData) (cfg : EdCfg) (fuel : Nat) (s s1 : Ed) (cmd : Cmd)
    (hnext : nextCmd S U cfg (fuel + 1) false false s = .ok (cmd, s1))
    (hc1 : cmd ≠ .complete) (hc2 : cmd ≠ .reverseSearchHistory) (hc3 : cmd ≠ .suspend) (hc4 : cmd ≠ .quotedInsert) :
    mainLoop S U cfg (fuel + 2) s =
      (do match ← execute S U cfg cmd with
          | .proceed => mainLoop S U cfg (fuel + 1)
          | .submit => pure ())
        (if cmd.shouldResetKillRing then { s1 with ring := s1.ring.reset } else s1) := by
  rw [mainLoop]
  by_cases hr : cmd.shouldResetKillRing = true <;>
    (simp [EM.bind_apply, hnext, preCmds, hc1, hc2, hc3, hc4, hr, EM.modify]; try rfl)



/-- `next_cmd` in emacs mode: read one key, run the emacs keymap on it -/
theorem nextCmd_emacs (S : Segmenter) (U : UData) (cfg : EdCfg) (hvi : cfg.vi = false) (fuel : Nat) (s s0 s1 : Ed)
    (k : KeyEvent) (cmd : Cmd) (hk : nextKey false s = .ok (k, s0))
    (he : emacs S U cfg fuel k s0 = .ok (cmd, s1)) (hnr : ∀ m t, cmd ≠ .replace m t) :
    nextCmd S U cfg fuel false false s = .ok (cmd, s1) := by
  unfold nextCmd
  simp [hvi, EM.bind_apply, waitForInput, hk, he, EM.bind_read]
  first | done | (cases cmd <;> simp_all)


theorem commonTable_right : ∀ e ∈ commonTable, e.1 = key .right → e.2 = .move .charRight := by decide


theorem EM.bind_assoc' {α β γ : Type} (m : EM α) (f : α → EM β) (g : β → EM γ) :
    (m >>= f) >>= g = m >>= fun a => f a >>= g := by
  funext s
  simp only [EM.bind_apply]
  cases m s with
  | error e => rfl
  | ok r => rfl


end Rl
