/-
  Helper lemmas for C03/C04: the mutation monad `LM`, compositional predicates over it
  (`Replays`: the notifications written rebuild the new text from the old one; `PosOnly`: nothing but
  the cursor changes and nothing is notified), slicing and segmentation boundaries.
-/
import Rl.LineBuffer
import Rl.Spec.LineBuffer
import Rl.Spec.Motion
namespace Rl
open Rl.Spec

/-! ### replay -/

theorem replay_append (a b : List Notif) (t : Text) :
    replay (a ++ b) t = (replay a t).bind (replay b) := by
  induction a generalizing t with
  | nil => simp [replay]
  | cons n a ih =>
    simp only [List.cons_append, replay]
    cases replayOne t n with
    | none => simp
    | some t' => simp [ih]

theorem split3_ok {t : Text} {a b : Nat} {x y z : Text} (h : split3 t a b = .ok (x, y, z)) :
    t = x ++ y ++ z ∧ a = blen x ∧ b = blen x + blen y := by
  unfold split3 at h
  split at h
  · split at h
    · rename_i ab c hs
      split at h
      · rename_i x' y' hs'
        cases h
        obtain ⟨h1, h2⟩ := splitAtByte_some hs
        obtain ⟨h3, h4⟩ := splitAtByte_some hs'
        subst h1 h3
        simp at h2
        exact ⟨by simp, h4, by omega⟩
      · cases h
    · cases h
  · cases h

theorem split3_append (x y z : Text) : split3 (x ++ y ++ z) (blen x) (blen x + blen y) = .ok (x, y, z) := by
  unfold split3
  have h1 : splitAtByte (x ++ y ++ z) (blen x + blen y) = some (x ++ y, z) := by
    have := splitAtByte_append (x ++ y) z
    simpa using this
  have h2 : splitAtByte (x ++ y) (blen x) = some (x, y) := splitAtByte_append x y
  rw [h1]
  simp only [h2]
  simp

theorem isPrefixOf_append_self (y z : Text) : y.isPrefixOf (y ++ z) = true := by
  rw [List.isPrefixOf_iff_prefix]; exact List.prefix_append y z

theorem removeAt_mid (x y z : Text) : removeAt (x ++ y ++ z) (blen x) y = some (x ++ z) := by
  unfold removeAt
  have : splitAtByte (x ++ y ++ z) (blen x) = some (x, y ++ z) := by
    have := splitAtByte_append x (y ++ z); simpa using this
  rw [this]
  simp [isPrefixOf_append_self]

theorem insertAt_mid (x z s : Text) : insertAt (x ++ z) (blen x) s = some (x ++ s ++ z) := by
  unfold insertAt
  simp [splitAtByte_append]

/-! ### the monad -/

namespace LM

@[simp] theorem pure_apply {α : Type} (a : α) (lb : LB) : (pure a : LM α) lb = .ok (a, lb, []) := rfl

theorem bind_apply {α β : Type} (m : LM α) (f : α → LM β) (lb : LB) :
    (m >>= f) lb = match m lb with
      | .error e => .error e
      | .ok (a, lb1, n1) =>
        match f a lb1 with
        | .error e => .error e
        | .ok (b, lb2, n2) => .ok (b, lb2, n1 ++ n2) := rfl

/-- inversion of a successful bind -/
theorem bind_ok {α β : Type} {m : LM α} {f : α → LM β} {lb lb2 : LB} {b : β} {ns : List Notif}
    (h : (m >>= f) lb = .ok (b, lb2, ns)) :
    ∃ a lb1 n1 n2, m lb = .ok (a, lb1, n1) ∧ f a lb1 = .ok (b, lb2, n2) ∧ ns = n1 ++ n2 := by
  rw [bind_apply] at h
  split at h
  · cases h
  · rename_i a lb1 n1 hm
    split at h
    · cases h
    · rename_i b' lb2' n2 hf
      cases h
      exact ⟨a, lb1, n1, n2, hm, hf, rfl⟩

end LM

/-- the notifications written by `m` rebuild the new text from the old one -/
structure Replays {α : Type} (m : LM α) : Prop where
  h : ∀ lb r lb' ns, m lb = .ok (r, lb', ns) → replay ns lb.buf = some lb'.buf

/-- `m` changes nothing but the cursor and notifies nothing -/
structure PosOnly {α : Type} (m : LM α) : Prop where
  h : ∀ lb r lb' ns, m lb = .ok (r, lb', ns) →
    lb'.buf = lb.buf ∧ lb'.cap = lb.cap ∧ lb'.canGrow = lb.canGrow ∧ ns = []

namespace Replays
variable {α β : Type}

theorem bind {m : LM α} {f : α → LM β} (hm : Replays m) (hf : ∀ a, Replays (f a)) : Replays (m >>= f) := by
  constructor
  intro lb r lb' ns h
  obtain ⟨a, lb1, n1, n2, h1, h2, rfl⟩ := LM.bind_ok h
  rw [replay_append, hm.h _ _ _ _ h1]
  simpa using (hf a).h _ _ _ _ h2

theorem pure (a : α) : Replays (pure a : LM α) := by
  constructor; intro lb r lb' ns h; cases h; rfl

theorem get : Replays LM.get := by
  constructor; intro lb r lb' ns h; cases h; rfl

theorem setPos (p : Nat) : Replays (LM.setPos p) := by
  constructor; intro lb r lb' ns h; cases h; rfl

theorem ro (f : LB → Except Panic α) : Replays (LM.ro f) := by
  constructor; intro lb r lb' ns h
  unfold LM.ro at h
  split at h
  · cases h; rfl
  · cases h

theorem lift (e : Except Panic α) : Replays (LM.lift e) := by
  constructor; intro lb r lb' ns h
  unfold LM.lift at h
  split at h
  · cases h; rfl
  · cases h

theorem panic : Replays (LM.panic : LM α) := by
  constructor; intro lb r lb' ns h; cases h

theorem startKill : Replays (LM.notify .startKill) := by
  constructor; intro lb r lb' ns h; cases h; rfl

theorem stopKill : Replays (LM.notify .stopKill) := by
  constructor; intro lb r lb' ns h; cases h; rfl

theorem drain (a b : Nat) (d : Direction) : Replays (LB.drain a b d) := by
  constructor; intro lb r lb' ns h
  unfold LB.drain at h
  split at h
  · rename_i x y z hs
    cases h
    obtain ⟨ht, ha, _⟩ := split3_ok hs
    simp only [replay, replayOne, ht, ha, removeAt_mid]
  · cases h

theorem insertStr (S : Segmenter) (U : UData) (i : Nat) (s : Text) : Replays (LB.insertStr S U i s) := by
  constructor; intro lb r lb' ns h
  unfold LB.insertStr at h
  split at h
  · rename_i x z hs
    cases h
    obtain ⟨ht, hi⟩ := splitAtByte_some hs
    simp only [replay, replayOne, ht, hi, insertAt_mid]
  · cases h

theorem insertCharAtPos (c : Char) : Replays (LB.insertCharAtPos c) := by
  constructor; intro lb r lb' ns h
  unfold LB.insertCharAtPos at h
  split at h
  · rename_i x z hs
    cases h
    obtain ⟨ht, hi⟩ := splitAtByte_some hs
    simp only [replay, replayOne, ht, hi, insertAt_mid]
  · cases h

theorem setPosChecked (S : Segmenter) (U : UData) (p : Nat) : Replays (LB.setPosChecked S U p) := by
  constructor; intro lb r lb' ns h
  unfold LB.setPosChecked at h
  split at h
  · cases h; rfl
  · cases h

theorem replace (S : Segmenter) (U : UData) (a b : Nat) (t : Text) : Replays (LB.replace S U a b t) := by
  constructor; intro lb r lb' ns h
  unfold LB.replace at h
  split at h
  · rename_i x y z hs
    cases h
    obtain ⟨ht, ha, _⟩ := split3_ok hs
    simp only [replay, replayOne, ht, ha, removeAt_mid, insertAt_mid]
  · cases h

end Replays

namespace PosOnly
variable {α β : Type}

theorem bind {m : LM α} {f : α → LM β} (hm : PosOnly m) (hf : ∀ a, PosOnly (f a)) : PosOnly (m >>= f) := by
  constructor
  intro lb r lb' ns h
  obtain ⟨a, lb1, n1, n2, h1, h2, rfl⟩ := LM.bind_ok h
  obtain ⟨a1, a2, a3, a4⟩ := hm.h _ _ _ _ h1
  obtain ⟨b1, b2, b3, b4⟩ := (hf a).h _ _ _ _ h2
  exact ⟨by rw [b1, a1], by rw [b2, a2], by rw [b3, a3], by simp [a4, b4]⟩

theorem pure (a : α) : PosOnly (pure a : LM α) := by
  constructor; intro lb r lb' ns h; cases h; exact ⟨rfl, rfl, rfl, rfl⟩

theorem get : PosOnly LM.get := by
  constructor; intro lb r lb' ns h; cases h; exact ⟨rfl, rfl, rfl, rfl⟩

theorem setPos (p : Nat) : PosOnly (LM.setPos p) := by
  constructor; intro lb r lb' ns h; cases h; exact ⟨rfl, rfl, rfl, rfl⟩

theorem ro (f : LB → Except Panic α) : PosOnly (LM.ro f) := by
  constructor; intro lb r lb' ns h
  unfold LM.ro at h
  split at h
  · cases h; exact ⟨rfl, rfl, rfl, rfl⟩
  · cases h

theorem lift (e : Except Panic α) : PosOnly (LM.lift e) := by
  constructor; intro lb r lb' ns h
  unfold LM.lift at h
  split at h
  · cases h; exact ⟨rfl, rfl, rfl, rfl⟩
  · cases h

theorem panic : PosOnly (LM.panic : LM α) := by
  constructor; intro lb r lb' ns h; cases h

theorem setPosChecked (S : Segmenter) (U : UData) (p : Nat) : PosOnly (LB.setPosChecked S U p) := by
  constructor; intro lb r lb' ns h
  unfold LB.setPosChecked at h
  split at h
  · cases h; exact ⟨rfl, rfl, rfl, rfl⟩
  · cases h

end PosOnly

/-- extensible: lemmas about already-treated methods (added with `macro_rules`) -/
syntax "lm_extra" : tactic
macro_rules | `(tactic| lm_extra) => `(tactic| fail "no rule")

/-- one structural step of a compositional proof over a `do` block -/
macro "lm_step" : tactic => `(tactic| first
  | with_reducible apply Replays.bind | with_reducible apply Replays.pure | with_reducible apply Replays.get
  | with_reducible apply Replays.setPos
  | with_reducible apply Replays.ro | with_reducible apply Replays.lift | with_reducible apply Replays.panic
  | with_reducible apply Replays.startKill
  | with_reducible apply Replays.stopKill | with_reducible apply Replays.drain
  | with_reducible apply Replays.insertStr
  | with_reducible apply Replays.setPosChecked | with_reducible apply Replays.replace
  | with_reducible apply Replays.insertCharAtPos
  | with_reducible apply PosOnly.bind | with_reducible apply PosOnly.pure | with_reducible apply PosOnly.get
  | with_reducible apply PosOnly.setPos
  | with_reducible apply PosOnly.ro | with_reducible apply PosOnly.lift | with_reducible apply PosOnly.panic
  | with_reducible apply PosOnly.setPosChecked
  | assumption
  | lm_extra
  | intro _
  | dsimp only
  | split)

macro "lm_auto" : tactic => `(tactic| repeat (any_goals lm_step))



/-! ### every public method replays -/

namespace Replays

theorem drainAround (a b c : Nat) : Replays (LB.drainAround a b c) := by
  unfold LB.drainAround; lm_auto

macro_rules | `(tactic| lm_extra) => `(tactic| with_reducible apply Replays.drainAround)

theorem indentInserts (S : Segmenter) (U : UData) (index amount fuel off : Nat) :
    Replays (LB.indentInserts S U index amount fuel off) := by
  induction fuel generalizing off with
  | zero => unfold LB.indentInserts; lm_auto
  | succ k ih => unfold LB.indentInserts; lm_auto; all_goals exact ih _

macro_rules | `(tactic| lm_extra) => `(tactic| with_reducible apply Replays.indentInserts)

macro_rules | `(tactic| lm_extra) => `(tactic| with_reducible apply Replays.indentInserts)

theorem indentLines (S : Segmenter) (U : UData) (amount : Nat) (ls : List Text) (index : Nat) :
    Replays (LB.indentLines S U amount ls index) := by
  induction ls generalizing index with
  | nil => unfold LB.indentLines; lm_auto
  | cons l ls ih =>
    unfold LB.indentLines; lm_auto; all_goals exact ih _

macro_rules | `(tactic| lm_extra) => `(tactic| with_reducible apply Replays.indentLines)

theorem dedentLines (ws : Char → Bool) (amount : Nat) (ls : List Text) (index : Nat) :
    Replays (LB.dedentLines ws amount ls index) := by
  induction ls generalizing index with
  | nil => unfold LB.dedentLines; lm_auto
  | cons l ls ih => unfold LB.dedentLines; lm_auto; all_goals exact ih _

macro_rules | `(tactic| lm_extra) => `(tactic| with_reducible apply Replays.dedentLines)

theorem update (S : Segmenter) (U : UData) (b : _) (p : _) :
    Replays (LB.update S U b p) := by
  unfold LB.update; lm_auto

macro_rules | `(tactic| lm_extra) => `(tactic| with_reducible apply Replays.update)

theorem insert (S : Segmenter) (U : UData) (c : _) (n : _) :
    Replays (LB.insert S U c n) := by
  unfold LB.insert; lm_auto

macro_rules | `(tactic| lm_extra) => `(tactic| with_reducible apply Replays.insert)

theorem yank (S : Segmenter) (U : UData) (t : _) (n : _) :
    Replays (LB.yank S U t n) := by
  unfold LB.yank; lm_auto

macro_rules | `(tactic| lm_extra) => `(tactic| with_reducible apply Replays.yank)

theorem yankPop (S : Segmenter) (U : UData) (k : _) (t : _) :
    Replays (LB.yankPop S U k t) := by
  unfold LB.yankPop; lm_auto

macro_rules | `(tactic| lm_extra) => `(tactic| with_reducible apply Replays.yankPop)

theorem moveBackward (S : Segmenter) (U : UData) (n : _) :
    Replays (LB.moveBackward S U n) := by
  unfold LB.moveBackward; lm_auto

macro_rules | `(tactic| lm_extra) => `(tactic| with_reducible apply Replays.moveBackward)

theorem moveForward (S : Segmenter) (U : UData) (n : _) :
    Replays (LB.moveForward S U n) := by
  unfold LB.moveForward; lm_auto

macro_rules | `(tactic| lm_extra) => `(tactic| with_reducible apply Replays.moveForward)

theorem moveBufferStart (S : Segmenter) (U : UData) :
    Replays (LB.moveBufferStart S U ) := by
  unfold LB.moveBufferStart; lm_auto

macro_rules | `(tactic| lm_extra) => `(tactic| with_reducible apply Replays.moveBufferStart)

theorem moveBufferEnd (S : Segmenter) (U : UData) :
    Replays (LB.moveBufferEnd S U ) := by
  unfold LB.moveBufferEnd; lm_auto

macro_rules | `(tactic| lm_extra) => `(tactic| with_reducible apply Replays.moveBufferEnd)

theorem moveHome (S : Segmenter) (U : UData) :
    Replays (LB.moveHome S U ) := by
  unfold LB.moveHome; lm_auto

macro_rules | `(tactic| lm_extra) => `(tactic| with_reducible apply Replays.moveHome)

theorem moveToFirstPrint (S : Segmenter) (U : UData) :
    Replays (LB.moveToFirstPrint S U) := by
  unfold LB.moveToFirstPrint; lm_auto

macro_rules | `(tactic| lm_extra) => `(tactic| with_reducible apply Replays.moveToFirstPrint)

theorem moveEnd (S : Segmenter) (U : UData) :
    Replays (LB.moveEnd S U ) := by
  unfold LB.moveEnd; lm_auto

macro_rules | `(tactic| lm_extra) => `(tactic| with_reducible apply Replays.moveEnd)

theorem delete (S : Segmenter) (U : UData) (n : _) :
    Replays (LB.delete S U n) := by
  unfold LB.delete; lm_auto

macro_rules | `(tactic| lm_extra) => `(tactic| with_reducible apply Replays.delete)

theorem backspace (S : Segmenter) (U : UData) (n : _) :
    Replays (LB.backspace S U n) := by
  unfold LB.backspace; lm_auto

macro_rules | `(tactic| lm_extra) => `(tactic| with_reducible apply Replays.backspace)

theorem killLine (S : Segmenter) (U : UData) :
    Replays (LB.killLine S U ) := by
  unfold LB.killLine; lm_auto

macro_rules | `(tactic| lm_extra) => `(tactic| with_reducible apply Replays.killLine)

theorem killBuffer (S : Segmenter) (U : UData) :
    Replays (LB.killBuffer S U ) := by
  unfold LB.killBuffer; lm_auto

macro_rules | `(tactic| lm_extra) => `(tactic| with_reducible apply Replays.killBuffer)

theorem discardLine (S : Segmenter) (U : UData) :
    Replays (LB.discardLine S U ) := by
  unfold LB.discardLine; lm_auto

macro_rules | `(tactic| lm_extra) => `(tactic| with_reducible apply Replays.discardLine)

theorem discardBuffer (S : Segmenter) (U : UData) :
    Replays (LB.discardBuffer S U ) := by
  unfold LB.discardBuffer; lm_auto

macro_rules | `(tactic| lm_extra) => `(tactic| with_reducible apply Replays.discardBuffer)

theorem transposeChars (S : Segmenter) (U : UData) :
    Replays (LB.transposeChars S U ) := by
  unfold LB.transposeChars; lm_auto

macro_rules | `(tactic| lm_extra) => `(tactic| with_reducible apply Replays.transposeChars)

theorem moveToPrevWord (S : Segmenter) (U : UData) (d : _) (n : _) :
    Replays (LB.moveToPrevWord S U d n) := by
  unfold LB.moveToPrevWord; lm_auto

macro_rules | `(tactic| lm_extra) => `(tactic| with_reducible apply Replays.moveToPrevWord)

theorem deletePrevWord (S : Segmenter) (U : UData) (d : _) (n : _) :
    Replays (LB.deletePrevWord S U d n) := by
  unfold LB.deletePrevWord; lm_auto

macro_rules | `(tactic| lm_extra) => `(tactic| with_reducible apply Replays.deletePrevWord)

theorem moveToNextWord (S : Segmenter) (U : UData) (a : _) (d : _) (n : _) :
    Replays (LB.moveToNextWord S U a d n) := by
  unfold LB.moveToNextWord; lm_auto

macro_rules | `(tactic| lm_extra) => `(tactic| with_reducible apply Replays.moveToNextWord)

theorem moveToLineUp (S : Segmenter) (U : UData) (n : _) (pc : _) :
    Replays (LB.moveToLineUp S U n pc) := by
  unfold LB.moveToLineUp; lm_auto

macro_rules | `(tactic| lm_extra) => `(tactic| with_reducible apply Replays.moveToLineUp)

theorem moveToLineDown (S : Segmenter) (U : UData) (n : _) (pc : _) :
    Replays (LB.moveToLineDown S U n pc) := by
  unfold LB.moveToLineDown; lm_auto

macro_rules | `(tactic| lm_extra) => `(tactic| with_reducible apply Replays.moveToLineDown)

theorem moveTo (S : Segmenter) (U : UData) (cs : _) (n : _) :
    Replays (LB.moveTo S U cs n) := by
  unfold LB.moveTo; lm_auto

macro_rules | `(tactic| lm_extra) => `(tactic| with_reducible apply Replays.moveTo)

theorem deleteWord (S : Segmenter) (U : UData) (a : _) (d : _) (n : _) :
    Replays (LB.deleteWord S U a d n) := by
  unfold LB.deleteWord; lm_auto

macro_rules | `(tactic| lm_extra) => `(tactic| with_reducible apply Replays.deleteWord)

theorem deleteTo (S : Segmenter) (U : UData) (cs : _) (n : _) :
    Replays (LB.deleteTo S U cs n) := by
  unfold LB.deleteTo; lm_auto

macro_rules | `(tactic| lm_extra) => `(tactic| with_reducible apply Replays.deleteTo)

theorem editWord (S : Segmenter) (U : UData) (a : _) :
    Replays (LB.editWord S U a) := by
  unfold LB.editWord; lm_auto

macro_rules | `(tactic| lm_extra) => `(tactic| with_reducible apply Replays.editWord)

theorem transposeWords (S : Segmenter) (U : UData) (n : _) :
    Replays (LB.transposeWords S U n) := by
  unfold LB.transposeWords; lm_auto

macro_rules | `(tactic| lm_extra) => `(tactic| with_reducible apply Replays.transposeWords)

theorem deleteRange (S : Segmenter) (U : UData) (a : _) (b : _) :
    Replays (LB.deleteRange S U a b) := by
  unfold LB.deleteRange; lm_auto

macro_rules | `(tactic| lm_extra) => `(tactic| with_reducible apply Replays.deleteRange)

theorem kill (S : Segmenter) (U : UData) (m : _) :
    Replays (LB.kill S U m) := by
  unfold LB.kill; lm_auto

macro_rules | `(tactic| lm_extra) => `(tactic| with_reducible apply Replays.kill)

theorem indent (S : Segmenter) (U : UData) (m : Movement) (k : Nat) (d : Bool) :
    Replays (LB.indent S U m k d) := by
  unfold LB.indent; lm_auto

macro_rules | `(tactic| lm_extra) => `(tactic| with_reducible apply Replays.indent)

end Replays

/-- C03, clause 3, for every operation: whenever a public method returns, the notifications it sent
    replay the old text into the new text -/
theorem Replays.run (S : Segmenter) (U : UData) (op : Op) : Replays (Op.run S U op) := by
  cases op <;> unfold Op.run
  case update b p => lm_auto
  case insert c n => lm_auto
  case yank t n => lm_auto
  case yankPop k t => lm_auto
  case moveBackward n => lm_auto
  case moveForward n => lm_auto
  case moveBufferStart => lm_auto
  case moveBufferEnd => lm_auto
  case moveHome => lm_auto
  case moveToFirstPrint => lm_auto
  case moveEnd => lm_auto
  case isEndOfInput => lm_auto
  case delete n => lm_auto
  case backspace n => lm_auto
  case killLine => lm_auto
  case killBuffer => lm_auto
  case discardLine => lm_auto
  case discardBuffer => lm_auto
  case transposeChars => lm_auto
  case moveToPrevWord d n => lm_auto
  case deletePrevWord d n => lm_auto
  case moveToNextWord a d n => lm_auto
  case deleteWord a d n => lm_auto
  case moveToLineUp n pc => lm_auto
  case moveToLineDown n pc => lm_auto
  case moveTo cs n => lm_auto
  case deleteTo cs n => lm_auto
  case editWord a => lm_auto
  case transposeWords n => lm_auto
  case replace a b t => lm_auto
  case insertStr i t => lm_auto
  case deleteRange a b => lm_auto
  case copy m => lm_auto
  case kill m => lm_auto
  case indent m k d => lm_auto
  case setPos p => lm_auto
  case nextPos n => lm_auto

/-! ### motions change nothing but the cursor -/

namespace PosOnly

theorem moveBackward (S : Segmenter) (U : UData) (n : _) :
    PosOnly (LB.moveBackward S U n) := by
  unfold LB.moveBackward; lm_auto

macro_rules | `(tactic| lm_extra) => `(tactic| with_reducible apply PosOnly.moveBackward)

theorem moveForward (S : Segmenter) (U : UData) (n : _) :
    PosOnly (LB.moveForward S U n) := by
  unfold LB.moveForward; lm_auto

macro_rules | `(tactic| lm_extra) => `(tactic| with_reducible apply PosOnly.moveForward)

theorem moveBufferStart (S : Segmenter) (U : UData) :
    PosOnly (LB.moveBufferStart S U ) := by
  unfold LB.moveBufferStart; lm_auto

macro_rules | `(tactic| lm_extra) => `(tactic| with_reducible apply PosOnly.moveBufferStart)

theorem moveBufferEnd (S : Segmenter) (U : UData) :
    PosOnly (LB.moveBufferEnd S U ) := by
  unfold LB.moveBufferEnd; lm_auto

macro_rules | `(tactic| lm_extra) => `(tactic| with_reducible apply PosOnly.moveBufferEnd)

theorem moveHome (S : Segmenter) (U : UData) :
    PosOnly (LB.moveHome S U ) := by
  unfold LB.moveHome; lm_auto

macro_rules | `(tactic| lm_extra) => `(tactic| with_reducible apply PosOnly.moveHome)

theorem moveToFirstPrint (S : Segmenter) (U : UData) :
    PosOnly (LB.moveToFirstPrint S U) := by
  unfold LB.moveToFirstPrint; lm_auto

macro_rules | `(tactic| lm_extra) => `(tactic| with_reducible apply PosOnly.moveToFirstPrint)

theorem moveEnd (S : Segmenter) (U : UData) :
    PosOnly (LB.moveEnd S U ) := by
  unfold LB.moveEnd; lm_auto

macro_rules | `(tactic| lm_extra) => `(tactic| with_reducible apply PosOnly.moveEnd)

theorem moveToPrevWord (S : Segmenter) (U : UData) (d : _) (n : _) :
    PosOnly (LB.moveToPrevWord S U d n) := by
  unfold LB.moveToPrevWord; lm_auto

macro_rules | `(tactic| lm_extra) => `(tactic| with_reducible apply PosOnly.moveToPrevWord)

theorem moveToNextWord (S : Segmenter) (U : UData) (a : _) (d : _) (n : _) :
    PosOnly (LB.moveToNextWord S U a d n) := by
  unfold LB.moveToNextWord; lm_auto

macro_rules | `(tactic| lm_extra) => `(tactic| with_reducible apply PosOnly.moveToNextWord)

theorem moveToLineUp (S : Segmenter) (U : UData) (n : _) (pc : _) :
    PosOnly (LB.moveToLineUp S U n pc) := by
  unfold LB.moveToLineUp; lm_auto

macro_rules | `(tactic| lm_extra) => `(tactic| with_reducible apply PosOnly.moveToLineUp)

theorem moveToLineDown (S : Segmenter) (U : UData) (n : _) (pc : _) :
    PosOnly (LB.moveToLineDown S U n pc) := by
  unfold LB.moveToLineDown; lm_auto

macro_rules | `(tactic| lm_extra) => `(tactic| with_reducible apply PosOnly.moveToLineDown)

theorem moveTo (S : Segmenter) (U : UData) (cs : _) (n : _) :
    PosOnly (LB.moveTo S U cs n) := by
  unfold LB.moveTo; lm_auto

macro_rules | `(tactic| lm_extra) => `(tactic| with_reducible apply PosOnly.moveTo)

end PosOnly

/-- C03, clause 4, for every motion / query / copy: nothing but the cursor changes and the listener
    is not called -/
theorem PosOnly.run (S : Segmenter) (U : UData) (op : Op) (h : Op.isMotionOrCopy op = true) :
    PosOnly (Op.run S U op) := by
  cases op <;> simp [Op.isMotionOrCopy] at h <;> (unfold Op.run; lm_auto)

end Rl
