/-
  C02: the render log of the editor model is coherent.  Part 1 — the renderer side.

  * positions only grow (`calcPos_le`), so `compute_layout` / `refresh_line` never panic on a cursor that is
    on a character boundary (`rs_refresh_total`);
  * `RepFrom` / `Rep`: the replay of a log, operation by operation, together with the ghost state and the
    coherence obligations (`C02_StepOK`); `Rep` implies `C02_Coherent`, a replay without panic and the screen
    invariant `C02_Inv`;
  * one lemma per logged operation: from a replayed log to the log extended by the operation.
-/
import Rl.Lemmas.RenderGhost
namespace Rl

/-! ### positions only grow -/

theorem Pos.le_refl (a : Pos) : a.le a = true := by simp [Pos.le]

theorem Pos.le_trans {a b c : Pos} (h1 : a.le b = true) (h2 : b.le c = true) : a.le c = true := by
  simp only [Pos.le, Bool.or_eq_true, decide_eq_true_eq, Bool.and_eq_true, beq_iff_eq] at *
  omega

theorem posStep_le (R : RCfg) (st : Pos × Nat) (g : Text) : st.1.le (posStep R st g).1 = true := by
  unfold posStep
  split
  · simp [Pos.le]
  · simp only []
    generalize (if (g == ['\t']) = true then (R.tabStop - st.1.col % R.tabStop, st.2)
      else widthEsc R.gw g st.2) = we
    split
    · simp [Pos.le]
    · simp [Pos.le]

theorem posLoop_le (R : RCfg) (gs : List Text) : ∀ st : Pos × Nat, st.1.le (posLoop R gs st).1 = true := by
  induction gs with
  | nil => intro st; exact Pos.le_refl _
  | cons g gs ih =>
    intro st
    exact Pos.le_trans (posStep_le R st g) (ih (posStep R st g))

theorem calcPos_le (S : Segmenter) (R : RCfg) (s : Text) (p : Pos) :
    p.le (calculatePosition S R s p) = true :=
  posLoop_le R (S.seg s) (p, 0)

theorem onScreen_row_le (R : RCfg) {a b : Pos} (h : a.le b = true) : (onScreen R a).row ≤ (onScreen R b).row := by
  simp only [Pos.le, Bool.or_eq_true, decide_eq_true_eq, Bool.and_eq_true, beq_iff_eq] at h
  unfold onScreen
  split <;> split <;> (try dsimp only) <;> omega

/-! ### `State::refresh` never panics on a boundary -/

section
variable (S : Segmenter) (R : RCfg)

theorem computeLayout_total (psize : Pos) (dflt : Bool) (b a : Text) (info : Option Text) :
    ∃ e, computeLayout S R psize dflt (b ++ a) (blen b) info =
        .ok { promptSize := psize, defaultPrompt := dflt, cursor := calculatePosition S R b psize, end_ := e } ∧
      (calculatePosition S R b psize).le e = true := by
  unfold computeLayout
  rw [splitAtByte_append]
  have h1 := calcPos_le S R b psize
  have h2 : (calculatePosition S R b psize).le
      (if (blen b == blen (b ++ a)) = true then calculatePosition S R b psize
       else calculatePosition S R a (calculatePosition S R b psize)) = true := by
    split
    · exact Pos.le_refl _
    · exact calcPos_le S R a _
  simp only []
  generalize (if (blen b == blen (b ++ a)) = true then calculatePosition S R b psize
       else calculatePosition S R a (calculatePosition S R b psize)) = e0 at h2 ⊢
  cases info with
  | none =>
    simp only []
    split
    next h => rw [h1, h2] at h; simp at h
    next => exact ⟨_, rfl, h2⟩
  | some i =>
    simp only []
    have h3 := Pos.le_trans h2 (calcPos_le S R i _)
    split
    next h => rw [h1, h3] at h; simp at h
    next => exact ⟨_, rfl, h3⟩

theorem refreshLineBytes_total (p line : Text) (info : Option Text) (old new : Layout)
    (h : new.cursor.le new.end_ = true) : ∃ bytes, refreshLineBytes R p line info old new = .ok bytes := by
  unfold refreshLineBytes
  simp only []
  have := onScreen_row_le R h
  rw [if_neg (by omega)]
  exact ⟨_, rfl⟩

/-- `State::refresh` with the cursor on a character boundary: it returns, and what the new layout is -/
theorem rs_refresh_total (rs : RS) (p : Text) (psize : Pos) (dflt : Bool) (b a : Text) (info : Option Text) :
    ∃ rs', rs.refresh S R p psize dflt (b ++ a) (blen b) info = .ok rs' ∧
      rs'.layout.cursor = calculatePosition S R b psize ∧ rs'.layout.promptSize = psize ∧
      rs'.layout.promptSize.le rs'.layout.cursor = true ∧ rs'.layout.cursor.le rs'.layout.end_ = true ∧
      rs'.promptSize = rs.promptSize := by
  obtain ⟨e, hl, hle⟩ := computeLayout_total S R psize dflt b a info
  obtain ⟨bytes, hb⟩ := refreshLineBytes_total R p (b ++ a) info rs.layout
    { promptSize := psize, defaultPrompt := dflt, cursor := calculatePosition S R b psize, end_ := e } hle
  let nl : Layout :=
    { promptSize := psize, defaultPrompt := dflt, cursor := calculatePosition S R b psize, end_ := e }
  refine ⟨{ (rs.emit bytes) with layout := nl }, ?_, rfl, rfl, calcPos_le S R b psize, hle, rfl⟩
  unfold RS.refresh
  rw [hl]
  simp only [bind, Except.bind]
  rw [hb]
  rfl

end

/-! ### replaying a log -/

section
variable (S : Segmenter) (R : RCfg) (prompt : Text)

/-- the replay of `ops` (oldest first) from `(s0, g0)` runs without panic, every operation is issued in a
    situation `C02_StepOK` covers, and it ends in `(rs, g)` -/
inductive RepFrom : RS → C02_Shown → List RenderOp → RS → C02_Shown → Prop
  | nil (s0 : RS) (g0 : C02_Shown) : RepFrom s0 g0 [] s0 g0
  | cons {s0 s1 rs : RS} {g0 g : C02_Shown} {op : RenderOp} {rest : List RenderOp}
      (hok : C02_StepOK S R prompt s0 g0 op) (happ : s0.apply S R prompt op = .ok s1)
      (hrest : RepFrom s1 (C02_next S R prompt s0 g0 op) rest rs g) : RepFrom s0 g0 (op :: rest) rs g

variable {S R prompt}

theorem RepFrom.snoc {s0 rs rs' : RS} {g0 g : C02_Shown} {ops : List RenderOp} {op : RenderOp}
    (h : RepFrom S R prompt s0 g0 ops rs g) (hok : C02_StepOK S R prompt rs g op)
    (happ : rs.apply S R prompt op = .ok rs') :
    RepFrom S R prompt s0 g0 (ops ++ [op]) rs' (C02_next S R prompt rs g op) := by
  induction h with
  | nil s0 g0 => exact RepFrom.cons hok happ (RepFrom.nil _ _)
  | cons hok' happ' _ ih => exact RepFrom.cons hok' happ' (ih hok happ)

theorem RepFrom.coherent {s0 rs : RS} {g0 g : C02_Shown} {ops : List RenderOp}
    (h : RepFrom S R prompt s0 g0 ops rs g) :
    C02_Coherent S R prompt s0 g0 ops ∧ RS.run S R prompt s0 ops = (rs, false) := by
  induction h with
  | nil s0 g0 => exact ⟨trivial, rfl⟩
  | cons hok happ _ ih =>
    refine ⟨⟨hok, ?_⟩, ?_⟩
    · rw [happ]; exact ih.1
    · simp only [RS.run, happ]; exact ih.2

theorem RepFrom.inv (hc : 2 ≤ R.cols) (hprompt : C02_Plain S R prompt) {s0 rs : RS} {g0 g : C02_Shown}
    {ops : List RenderOp} (h : RepFrom S R prompt s0 g0 ops rs g) (h0 : C02_Inv S R prompt s0 g0) :
    C02_Inv S R prompt rs g := by
  induction h with
  | nil s0 g0 => exact h0
  | cons hok happ _ ih => exact ih (inv_step S R prompt hc hprompt _ _ _ _ h0 hok happ)

/-- prefixes of a coherent log are coherent and replay without panic -/
theorem RepFrom.prefix {s0 rs : RS} {g0 g : C02_Shown} {a b : List RenderOp}
    (h : RepFrom S R prompt s0 g0 (a ++ b) rs g) : ∃ rs1 g1, RepFrom S R prompt s0 g0 a rs1 g1 := by
  induction a generalizing s0 g0 with
  | nil => exact ⟨_, _, RepFrom.nil _ _⟩
  | cons op a ih =>
    cases h with
    | cons hok happ hrest =>
      obtain ⟨rs1, g1, h1⟩ := ih hrest
      exact ⟨rs1, g1, RepFrom.cons hok happ h1⟩

variable (S R prompt)

/-- the replay of a log kept most recent first (as `Ed.render` is), from the start of the read -/
def Rep (log : List RenderOp) (rs : RS) (g : C02_Shown) : Prop :=
  RepFrom S R prompt (RS.init S R prompt) {} log.reverse rs g

variable {S R prompt}

theorem Rep.nil : Rep S R prompt [] (RS.init S R prompt) {} := RepFrom.nil _ _

theorem Rep.cons {log : List RenderOp} {rs rs' : RS} {g : C02_Shown} {op : RenderOp}
    (h : Rep S R prompt log rs g) (hok : C02_StepOK S R prompt rs g op)
    (happ : rs.apply S R prompt op = .ok rs') :
    Rep S R prompt (op :: log) rs' (C02_next S R prompt rs g op) := by
  unfold Rep
  rw [List.reverse_cons]
  exact RepFrom.snoc h hok happ

theorem init_inv (hc : 2 ≤ R.cols) : C02_Inv S R prompt (RS.init S R prompt) {} :=
  have hb := blank_tracks R hc
  ⟨⟨rfl, rfl, rfl, rfl, rfl, hb, hb, (by intro x hx; cases hx), ⟨[], rfl⟩⟩, rfl⟩

theorem Rep.inv (hc : 2 ≤ R.cols) (hprompt : C02_Plain S R prompt) {log : List RenderOp} {rs : RS}
    {g : C02_Shown} (h : Rep S R prompt log rs g) : C02_Inv S R prompt rs g :=
  RepFrom.inv hc hprompt h (init_inv hc)

end
/-! ### what the editor model needs to know of the replayed renderer, and one lemma per logged operation -/

section
variable (S : Segmenter) (R : RCfg) (prompt : Text)

/-- the texts of a logged operation are of the quantified kind and its cursor is on a character boundary
    (the latter is the line-buffer invariant of C03 / C17) -/
def OpFine : RenderOp → Prop
  | .refresh p line pos info =>
    C02_Plain S R (p.getD prompt) ∧ (∃ b a, splitAtByte line pos = some (b, a)) ∧ C02_PlainSplit S R line pos info
  | .moveCursor line pos _ => (∃ b a, splitAtByte line pos = some (b, a)) ∧ C02_PlainSplit S R line pos none
  | .insert _ _ _ line pos hint _ _ =>
    (∃ b a, splitAtByte line pos = some (b, a)) ∧ C02_PlainSplit S R line pos hint
  | _ => True

def LogFine (log : List RenderOp) : Prop := ∀ op ∈ log, OpFine S R prompt op

/-- the text half of `OpFine`: the logged texts are of the quantified kind (an input restriction) -/
def OpPlain : RenderOp → Prop
  | .refresh p line pos info => C02_Plain S R (p.getD prompt) ∧ C02_PlainSplit S R line pos info
  | .moveCursor line pos _ => C02_PlainSplit S R line pos none
  | .insert _ _ _ line pos hint _ _ => C02_PlainSplit S R line pos hint
  | _ => True

/-- the cursor half of `OpFine`: the logged cursor is on a character boundary of the logged line (what the
    line-buffer invariant of C03 / C17, `WF s.line`, says of the state in which the renderer was called) -/
def OpBd : RenderOp → Prop
  | .refresh _ line pos _ => IsBoundary line pos
  | .moveCursor line pos _ => IsBoundary line pos
  | .insert _ _ _ line pos _ _ _ => IsBoundary line pos
  | _ => True

def LogPlain (log : List RenderOp) : Prop := ∀ op ∈ log, OpPlain S R prompt op
def LogBd (log : List RenderOp) : Prop := ∀ op ∈ log, OpBd op

theorem opFine_iff (op : RenderOp) : OpFine S R prompt op ↔ OpPlain S R prompt op ∧ OpBd op := by
  cases op <;> simp only [OpFine, OpPlain, OpBd, isBoundary_iff_split, and_true] <;> constructor <;>
    (intro h; first | exact ⟨⟨h.1, h.2.2⟩, h.2.1⟩ | exact ⟨h.1.1, h.2, h.1.2⟩ | exact ⟨h.2, h.1⟩ | exact h)

theorem logFine_iff (log : List RenderOp) :
    LogFine S R prompt log ↔ LogPlain S R prompt log ∧ LogBd log := by
  constructor
  · intro h
    exact ⟨fun op ho => ((opFine_iff S R prompt op).1 (h op ho)).1, fun op ho => ((opFine_iff S R prompt op).1 (h op ho)).2⟩
  · intro h op ho
    exact (opFine_iff S R prompt op).2 ⟨h.1 op ho, h.2 op ho⟩

/-- between a change of the line and the repaint: the log replays, the believed cursor is known -/
def DirtyP (log : List RenderOp) (lc : Pos) : Prop :=
  ∃ rs g, Rep S R prompt log rs g ∧ rs.layout.cursor = lc ∧ C02_Plain S R g.hint

/-- the screen shows the read's own prompt and the text `buf` (with `hint` or no hint) -/
structure ShownCore (log : List RenderOp) (lc : Pos) (buf : Text) (hint : Option Text) (rs : RS) (g : C02_Shown) :
    Prop where
  rep : Rep S R prompt log rs g
  cur : rs.layout.cursor = lc
  hplain : C02_Plain S R g.hint
  own : g.prompt = prompt
  text : g.before ++ g.after = buf
  hint : g.hint = hint.getD [] ∨ g.hint = []
  le1 : rs.layout.promptSize.le rs.layout.cursor = true
  le2 : rs.layout.cursor.le rs.layout.end_ = true

def TextShownP (log : List RenderOp) (lc : Pos) (buf : Text) (hint : Option Text) : Prop :=
  ∃ rs g, ShownCore S R prompt log lc buf hint rs g

/-- … and the cursor is shown at byte `pos` -/
def ShownP (log : List RenderOp) (lc : Pos) (buf : Text) (pos : Nat) (hint : Option Text) : Prop :=
  ∃ rs g, ShownCore S R prompt log lc buf hint rs g ∧ splitAtByte buf pos = some (g.before, g.after)

/-- some prompt — the read's own, or that of an incremental search —, the line and the cursor are shown -/
def ShownA (log : List RenderOp) (lc : Pos) (buf : Text) (pos : Nat) (hint : Option Text) : Prop :=
  ∃ rs g, Rep S R prompt log rs g ∧ rs.layout.cursor = lc ∧ C02_Plain S R g.hint ∧
    (g.prompt = prompt ∨ C02_IsSearchPrompt g.prompt) ∧
    splitAtByte buf pos = some (g.before, g.after) ∧ (g.hint = hint.getD [] ∨ g.hint = [])

variable {S R prompt}

theorem ShownP.any {log : List RenderOp} {lc : Pos} {buf : Text} {pos : Nat} {hint : Option Text}
    (h : ShownP S R prompt log lc buf pos hint) : ShownA S R prompt log lc buf pos hint := by
  obtain ⟨rs, g, hc, hs⟩ := h
  exact ⟨rs, g, hc.rep, hc.cur, hc.hplain, Or.inl hc.own, hs, hc.hint⟩

theorem ShownA.dirty {log : List RenderOp} {lc : Pos} {buf : Text} {pos : Nat} {hint : Option Text}
    (h : ShownA S R prompt log lc buf pos hint) : DirtyP S R prompt log lc := by
  obtain ⟨rs, g, hr, hc, hp, _⟩ := h; exact ⟨rs, g, hr, hc, hp⟩

theorem ShownP.text {log : List RenderOp} {lc : Pos} {buf : Text} {pos : Nat} {hint : Option Text}
    (h : ShownP S R prompt log lc buf pos hint) : TextShownP S R prompt log lc buf hint := by
  obtain ⟨rs, g, hc, _⟩ := h; exact ⟨rs, g, hc⟩

theorem TextShownP.dirty {log : List RenderOp} {lc : Pos} {buf : Text} {hint : Option Text}
    (h : TextShownP S R prompt log lc buf hint) : DirtyP S R prompt log lc := by
  obtain ⟨rs, g, hc⟩ := h; exact ⟨rs, g, hc.rep, hc.cur, hc.hplain⟩

theorem plain_nil : C02_Plain S R [] := by
  intro g hg
  have hf := S.flatten_eq []
  have hne := S.ne_nil [] g hg
  have : g ∈ (S.seg []) := hg
  cases hs : S.seg [] with
  | nil => rw [hs] at hg; cases hg
  | cons x xs =>
    rw [hs] at hf
    simp at hf
    have := S.ne_nil [] x (by rw [hs]; simp)
    exact absurd hf.1 this

set_option linter.unusedSectionVars false
variable (hc : 2 ≤ R.cols) (hprompt : C02_Plain S R prompt)
include hc hprompt

/-- a repaint under the read's own prompt -/
theorem dirty_refresh_own {log : List RenderOp} {lc : Pos} (h : DirtyP S R prompt log lc) (b a : Text)
    (info : Option Text) (hfine : OpFine S R prompt (.refresh none (b ++ a) (blen b) info)) :
    ShownP S R prompt (.refresh none (b ++ a) (blen b) info :: log)
      (calculatePosition S R b (calculatePosition S R prompt {})) (b ++ a) (blen b) info := by
  obtain ⟨rs, g, hrep, _, _⟩ := h
  have hinv := hrep.inv hc hprompt
  obtain ⟨rs', happ, h1, h2, h3, h4, _⟩ := rs_refresh_total S R rs prompt rs.promptSize true b a info
  obtain ⟨hp, _, hsplit⟩ := hfine
  have hstep : rs.apply S R prompt (.refresh none (b ++ a) (blen b) info) = .ok rs' := happ
  have hrep' := hrep.cons (op := .refresh none (b ++ a) (blen b) info) ⟨hp, hsplit⟩ hstep
  have hnext : C02_next S R prompt rs g (.refresh none (b ++ a) (blen b) info) = ⟨prompt, b, a, info.getD []⟩ := by
    simp [C02_next, splitAtByte_append]
  rw [hnext] at hrep'
  refine ⟨rs', _, ⟨hrep', ?_, (hsplit b a (splitAtByte_append b a)).2.2, rfl, rfl, Or.inl rfl, h3, h4⟩,
    splitAtByte_append b a⟩
  rw [h1, hinv.psize]

/-- a repaint under a dynamic prompt -/
theorem dirty_refresh_dyn {log : List RenderOp} {lc : Pos} (h : DirtyP S R prompt log lc) (p b a : Text)
    (info : Option Text) (hfine : OpFine S R prompt (.refresh (some p) (b ++ a) (blen b) info)) :
    ∃ rs g, Rep S R prompt (.refresh (some p) (b ++ a) (blen b) info :: log) rs g ∧
      rs.layout.cursor = calculatePosition S R b (calculatePosition S R p {}) ∧ C02_Plain S R g.hint ∧
      g.prompt = p ∧ splitAtByte (b ++ a) (blen b) = some (g.before, g.after) ∧ g.hint = info.getD [] := by
  obtain ⟨rs, g, hrep, _, _⟩ := h
  obtain ⟨rs', happ, h1, _⟩ := rs_refresh_total S R rs p (calculatePosition S R p {}) false b a info
  obtain ⟨hp, _, hsplit⟩ := hfine
  have hstep : rs.apply S R prompt (.refresh (some p) (b ++ a) (blen b) info) = .ok rs' := happ
  have hrep' := hrep.cons (op := .refresh (some p) (b ++ a) (blen b) info) ⟨hp, hsplit⟩ hstep
  have hnext : C02_next S R prompt rs g (.refresh (some p) (b ++ a) (blen b) info) = ⟨p, b, a, info.getD []⟩ := by
    simp [C02_next, splitAtByte_append]
  rw [hnext] at hrep'
  exact ⟨rs', _, hrep', h1, (hsplit b a (splitAtByte_append b a)).2.2, rfl, splitAtByte_append b a, rfl⟩

/-- a callback while some prompt is shown -/
theorem any_sync {log : List RenderOp} {lc : Pos} {buf : Text} {pos : Nat} {hint : Option Text}
    (h : ShownA S R prompt log lc buf pos hint) :
    ShownA S R prompt (.sync buf pos hint :: log) lc buf pos hint := by
  obtain ⟨rs, g, hrep, hcur, hpl, hpr, hs, hh⟩ := h
  have hok : C02_StepOK S R prompt rs g (.sync buf pos hint) := ⟨hpr, hs, hh⟩
  have happ : rs.apply S R prompt (.sync buf pos hint) = .ok { rs with out := [], segs := rs.out :: rs.segs } := rfl
  exact ⟨_, _, hrep.cons hok happ, hcur, hpl, hpr, hs, hh⟩

/-- the new cursor of a cursor-only move is not beyond the believed end -/
theorem cursor_le_end {rs : RS} {g : C02_Shown} (hinv : C02_Inv S R prompt rs g) (hown : g.prompt = prompt)
    (b a : Text) (htext : g.before ++ g.after = b ++ a) (hb : C02_Plain S R b) (ha : C02_Plain S R a)
    (hh : C02_Plain S R g.hint) :
    (calculatePosition S R b rs.promptSize).le rs.layout.end_ = true := by
  have hps := tracks_calc S R hc prompt _ _ hprompt (blank_tracks R hc)
  have t1 := tracks_calc S R hc b _ _ hb hps
  have t2 := tracks_calc S R hc a _ _ ha t1
  have t3 := tracks_calc S R hc g.hint _ _ hh t2
  have hend := hinv.synced.end_
  rw [hown, htext] at hend
  rw [← Term.feed_append, ← Term.feed_append, ← Term.feed_append] at t3
  have e : prompt ++ (b ++ (a ++ g.hint)) = prompt ++ (b ++ a) ++ g.hint := by simp [List.append_assoc]
  rw [e] at t3
  have := tracks_unique hend t3
  rw [this, hinv.psize]
  exact Pos.le_trans (calcPos_le S R a _) (calcPos_le S R g.hint _)

/-- `move_cursor`, whichever of its three ways it goes -/
theorem shown_moveCursor {log : List RenderOp} {lc : Pos} {hint : Option Text} (b a : Text)
    (h : TextShownP S R prompt log lc (b ++ a) hint) (hl : Bool)
    (hfine : OpFine S R prompt (.moveCursor (b ++ a) (blen b) hl)) :
    ShownP S R prompt (.moveCursor (b ++ a) (blen b) hl :: log)
      (calculatePosition S R b (calculatePosition S R prompt {})) (b ++ a) (blen b) hint := by
  obtain ⟨rs, g, hcore⟩ := h
  have hinv := hcore.rep.inv hc hprompt
  obtain ⟨_, hsplit⟩ := hfine
  obtain ⟨hpb, hpa, _⟩ := hsplit b a (splitAtByte_append b a)
  have hok : C02_StepOK S R prompt rs g (.moveCursor (b ++ a) (blen b) hl) := ⟨hcore.own, hcore.text, hsplit⟩
  have hps := hinv.psize
  by_cases hsame : rs.layout.cursor = calculatePosition S R b rs.promptSize
  · -- nothing is written
    have hbeq : (rs.layout.cursor == calculatePosition S R b rs.promptSize) = true := by simpa using hsame
    have happ : rs.apply S R prompt (.moveCursor (b ++ a) (blen b) hl) = .ok rs := by
      simp only [RS.apply, RS.moveCursor, splitAtByte_append, hbeq, if_true]
    have hrep' := hcore.rep.cons hok happ
    have hnext : C02_next S R prompt rs g (.moveCursor (b ++ a) (blen b) hl) = { g with before := b, after := a } := by
      simp only [C02_next, splitAtByte_append, hbeq, if_true]
    rw [hnext] at hrep'
    exact ⟨rs, _, ⟨hrep', by rw [hsame, hps], hcore.hplain, hcore.own, rfl, hcore.hint, hcore.le1, hcore.le2⟩,
      splitAtByte_append b a⟩
  · have hbeq : ¬ (rs.layout.cursor == calculatePosition S R b rs.promptSize) = true := by simpa using hsame
    cases hl with
    | true =>
      obtain ⟨rs', happ', h1, h2, h3, h4, _⟩ := rs_refresh_total S R rs prompt rs.promptSize true b a none
      have happ : rs.apply S R prompt (.moveCursor (b ++ a) (blen b) true) = .ok rs' := by
        simp only [RS.apply, RS.moveCursor, splitAtByte_append, hbeq, if_false, if_true]
        exact happ'
      have hrep' := hcore.rep.cons hok happ
      have hnext : C02_next S R prompt rs g (.moveCursor (b ++ a) (blen b) true) = ⟨prompt, b, a, []⟩ := by
        simp only [C02_next, splitAtByte_append, hbeq, if_false, if_true, Bool.false_eq_true]
      rw [hnext] at hrep'
      exact ⟨rs', _, ⟨hrep', by rw [h1, hps], plain_nil, rfl, rfl, Or.inr rfl, h3, h4⟩, splitAtByte_append b a⟩
    | false =>
      have hle2 := cursor_le_end hc hprompt hinv hcore.own b a hcore.text hpb hpa hcore.hplain
      have hle1 : rs.promptSize.le (calculatePosition S R b rs.promptSize) = true := calcPos_le S R b _
      have happ : rs.apply S R prompt (.moveCursor (b ++ a) (blen b) false) = .ok
          { (rs.emit (moveCursorBytes R rs.layout.cursor (calculatePosition S R b rs.promptSize))) with
            layout := { rs.layout with promptSize := rs.promptSize, cursor := calculatePosition S R b rs.promptSize } } := by
        simp only [RS.apply, RS.moveCursor, splitAtByte_append, hbeq, if_false, Bool.false_eq_true]
        rw [if_neg (by simp [hle1, hle2])]
      have hrep' := hcore.rep.cons hok happ
      have hnext : C02_next S R prompt rs g (.moveCursor (b ++ a) (blen b) false) = { g with before := b, after := a } := by
        simp only [C02_next, splitAtByte_append, hbeq, if_false, Bool.false_eq_true]
      rw [hnext] at hrep'
      exact ⟨_, _, ⟨hrep', by simp only []; rw [hps], hcore.hplain, hcore.own, rfl, hcore.hint, hle1, hle2⟩,
        splitAtByte_append b a⟩

/-- a callback: nothing changes -/
theorem shown_sync {log : List RenderOp} {lc : Pos} {buf : Text} {pos : Nat} {hint : Option Text}
    (h : ShownP S R prompt log lc buf pos hint) :
    ShownP S R prompt (.sync buf pos hint :: log) lc buf pos hint := by
  obtain ⟨rs, g, hcore, hs⟩ := h
  have hok : C02_StepOK S R prompt rs g (.sync buf pos hint) := ⟨Or.inl hcore.own, hs, hcore.hint⟩
  have happ : rs.apply S R prompt (.sync buf pos hint) = .ok { rs with out := [], segs := rs.out :: rs.segs } := rfl
  have hrep' := hcore.rep.cons hok happ
  exact ⟨_, _, ⟨hrep', hcore.cur, hcore.hplain, hcore.own, hcore.text, hcore.hint, hcore.le1, hcore.le2⟩, hs⟩

theorem dirty_clearScreen {log : List RenderOp} {lc : Pos} (h : DirtyP S R prompt log lc) :
    DirtyP S R prompt (.clearScreen :: log) {} := by
  obtain ⟨rs, g, hrep, _, _⟩ := h
  have happ : rs.apply S R prompt .clearScreen =
      .ok { (rs.emit clearScreenBytes) with layout := { rs.layout with cursor := {}, end_ := {} } } := rfl
  exact ⟨_, _, hrep.cons (op := .clearScreen) trivial happ, rfl, plain_nil⟩

theorem dirty_moveToEnd {log : List RenderOp} {lc : Pos} (h : DirtyP S R prompt log lc) :
    ∃ rs g, Rep S R prompt (.moveToEnd :: log) rs g := by
  obtain ⟨rs, g, hrep, _, _⟩ := h
  by_cases hsame : (rs.layout.cursor == rs.layout.end_) = true
  · have happ : rs.apply S R prompt .moveToEnd = .ok rs := by simp only [RS.apply, hsame, if_true]
    exact ⟨_, _, hrep.cons (op := .moveToEnd) trivial happ⟩
  · have happ : rs.apply S R prompt .moveToEnd =
        .ok { (rs.emit (moveCursorBytes R rs.layout.cursor rs.layout.end_)) with
              layout := { rs.layout with cursor := rs.layout.end_ } } := by
      simp only [RS.apply, hsame, Bool.false_eq_true, if_false]
    exact ⟨_, _, hrep.cons (op := .moveToEnd) trivial happ⟩

/-- `edit_insert` when the renderer repaints (`push = false`, a guard that fails, or a highlight change) -/
theorem dirty_insert_slow {log : List RenderOp} {lc : Pos} (h : DirtyP S R prompt log lc) (ch : Char) (n : Nat)
    (push : Bool) (b a : Text) (hint : Option Text) (nph hl : Bool)
    (hslow : (push && (n == 1 && R.cw ch != 0 && decide (lc.col + R.cw ch < R.cols) && (hint.isNone && nph) && !hl)) = false)
    (hfine : OpFine S R prompt (.insert ch n push (b ++ a) (blen b) hint nph hl)) :
    ShownP S R prompt (.insert ch n push (b ++ a) (blen b) hint nph hl :: log)
      (calculatePosition S R b (calculatePosition S R prompt {})) (b ++ a) (blen b) hint := by
  obtain ⟨rs, g, hrep, hcur, _⟩ := h
  have hinv := hrep.inv hc hprompt
  obtain ⟨rs', happ', h1, h2, h3, h4, _⟩ := rs_refresh_total S R rs prompt rs.promptSize true b a hint
  obtain ⟨_, hsplit⟩ := hfine
  have hg : (push && fastPathGuard R rs.layout ch n hint nph hl) = false := by
    unfold fastPathGuard; rw [hcur]; exact hslow
  have happ : rs.apply S R prompt (.insert ch n push (b ++ a) (blen b) hint nph hl) = .ok rs' := by
    simp only [RS.apply, RS.insert, hg, Bool.false_eq_true, if_false]
    exact happ'
  have hok : C02_StepOK S R prompt rs g (.insert ch n push (b ++ a) (blen b) hint nph hl) :=
    ⟨fun h => (by rw [hg] at h; cases h), hsplit⟩
  have hrep' := hrep.cons hok happ
  have hnext : C02_next S R prompt rs g (.insert ch n push (b ++ a) (blen b) hint nph hl) =
      ⟨prompt, b, a, hint.getD []⟩ := by
    simp only [C02_next, hg, Bool.false_eq_true, if_false, splitAtByte_append]
  rw [hnext] at hrep'
  refine ⟨rs', _, ⟨hrep', by rw [h1, hinv.psize], (hsplit b a (splitAtByte_append b a)).2.2, rfl, rfl,
    Or.inl rfl, h3, h4⟩, splitAtByte_append b a⟩

/-- the fast path of `edit_insert`: one character appended at the end of a hint-less line -/
theorem shown_insert_fast {log : List RenderOp} {lc : Pos} {buf : Text}
    (h : ShownP S R prompt log lc buf (blen buf) none) (ch : Char) (hch : isC0Control ch = false)
    (hguard : (R.cw ch != 0 && decide (lc.col + R.cw ch < R.cols)) = true)
    (hfine : OpFine S R prompt (.insert ch 1 true (buf ++ [ch]) (blen (buf ++ [ch])) none true false)) :
    ShownP S R prompt (.insert ch 1 true (buf ++ [ch]) (blen (buf ++ [ch])) none true false :: log)
      { lc with col := lc.col + R.cw ch } (buf ++ [ch]) (blen (buf ++ [ch])) none := by
  obtain ⟨rs, g, hcore, hs⟩ := h
  obtain ⟨_, hsplit⟩ := hfine
  -- the cursor is at the end: nothing after it on the screen
  have hsp : (g.before, g.after) = (buf, []) := by
    have := splitAtByte_append buf []
    rw [List.append_nil] at this
    rw [this] at hs
    injection hs with hs
    exact hs.symm
  have hbef : g.before = buf := (Prod.mk.inj hsp).1
  have haft : g.after = [] := (Prod.mk.inj hsp).2
  have hhint : g.hint = [] := by rcases hcore.hint with h | h <;> simpa using h
  have hg : (true && fastPathGuard R rs.layout ch 1 none true false) = true := by
    unfold fastPathGuard; rw [hcore.cur]; simpa using hguard
  have hok : C02_StepOK S R prompt rs g (.insert ch 1 true (buf ++ [ch]) (blen (buf ++ [ch])) none true false) :=
    ⟨fun _ => ⟨haft, hhint, hch⟩, hsplit⟩
  have hle1 := hcore.le1
  have hle2 := hcore.le2
  have e1 : rs.layout.promptSize.le { rs.layout.cursor with col := rs.layout.cursor.col + R.cw ch } = true := by
    simp only [Pos.le, Bool.or_eq_true, decide_eq_true_eq, Bool.and_eq_true, beq_iff_eq] at hle1 ⊢; omega
  have e2 : ({ rs.layout.cursor with col := rs.layout.cursor.col + R.cw ch } : Pos).le
      { rs.layout.end_ with col := rs.layout.end_.col + R.cw ch } = true := by
    simp only [Pos.le, Bool.or_eq_true, decide_eq_true_eq, Bool.and_eq_true, beq_iff_eq] at hle2 ⊢; omega
  have happ : rs.apply S R prompt (.insert ch 1 true (buf ++ [ch]) (blen (buf ++ [ch])) none true false) = .ok
      { (rs.emit [ch]) with layout :=
        { rs.layout with cursor := { rs.layout.cursor with col := rs.layout.cursor.col + R.cw ch },
                         end_ := { rs.layout.end_ with col := rs.layout.end_.col + R.cw ch } } } := by
    simp only [RS.apply, RS.insert, hg, if_true]
    rw [if_neg (by simp [e1, e2])]
  have hrep' := hcore.rep.cons hok happ
  have hnext : C02_next S R prompt rs g (.insert ch 1 true (buf ++ [ch]) (blen (buf ++ [ch])) none true false) =
      ⟨g.prompt, g.before ++ [ch], [], []⟩ := by
    simp only [C02_next, hg, if_true]
  rw [hnext, hbef] at hrep'
  refine ⟨_, _, ⟨hrep', by simp only []; rw [hcore.cur], plain_nil, hcore.own, by simp, Or.inr rfl, e1, e2⟩, ?_⟩
  · have := splitAtByte_append (buf ++ [ch]) []
    simpa using this

end
end Rl
