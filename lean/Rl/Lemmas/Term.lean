/-
  Cell-level lemmas about the terminal emulator (`Rl/Term.lean`), used by the C02 screen-content theorems:
    * the canonical view: `Grid.canon` equality is pointwise equality of what the cells show;
    * `Grid.get` of `set` / `setCont` / `eraseLineFrom` / `eraseBelow`;
    * the CSI parser reads the decimal digits of `n` as `n`;
    * printing a text over a visibly blank screen gives the screen that printing it on a blank terminal
      gives (`Rel`, `rel_feed`), and printing one cell-occupying character keeps two visibly equal
      screens visibly equal (`VRel`).
-/
import Rl.Term
namespace Rl

/-! ### lists: `dropTrailing` -/

theorem getD_append_default {α : Type} (l : List α) (d : α) (i : Nat) :
    (l ++ [d]).getD i d = l.getD i d := by
  simp only [List.getD_eq_getElem?_getD]
  by_cases h : i < l.length
  · rw [List.getElem?_append_left h]
  · have h1 : l.length ≤ i := by omega
    rw [List.getElem?_append_right h1, List.getElem?_eq_none h1]
    cases hk : i - l.length with
    | zero => simp
    | succ k => simp

theorem dropTrailing_getD {α : Type} (p : α → Bool) (d : α) (hp : ∀ x, p x = true → x = d)
    (l : List α) (i : Nat) : (dropTrailing p l).getD i d = l.getD i d := by
  unfold dropTrailing
  have key : ∀ m : List α, ((m.dropWhile p).reverse).getD i d = m.reverse.getD i d := by
    intro m
    induction m with
    | nil => rfl
    | cons x m ih =>
      rw [List.dropWhile_cons]
      by_cases hx : p x = true
      · rw [if_pos hx, ih, List.reverse_cons, hp x hx, getD_append_default]
      · rw [if_neg hx]
  have := key l.reverse
  rwa [List.reverse_reverse] at this

theorem dropTrailing_last {α : Type} (p : α → Bool) (l : List α) (x : α)
    (h : (dropTrailing p l).getLast? = some x) : p x = false := by
  unfold dropTrailing at h
  rw [List.getLast?_reverse] at h
  have key : ∀ m : List α, (m.dropWhile p).head? = some x → p x = false := by
    intro m
    induction m with
    | nil => intro h; simp at h
    | cons y m ih =>
      rw [List.dropWhile_cons]
      by_cases hy : p y = true
      · rw [if_pos hy]; exact ih
      · rw [if_neg hy]; intro h
        simp at h; subst h; simpa using hy
  exact key _ h

/-- two lists without trailing default that agree pointwise (with default) are equal -/
theorem eq_of_getD_eq {α : Type} (d : α) (l1 l2 : List α)
    (h1 : ∀ x, l1.getLast? = some x → x ≠ d) (h2 : ∀ x, l2.getLast? = some x → x ≠ d)
    (h : ∀ i, l1.getD i d = l2.getD i d) : l1 = l2 := by
  have hlen : ∀ (a b : List α), (∀ x, b.getLast? = some x → x ≠ d) →
      (∀ i, a.getD i d = b.getD i d) → b.length ≤ a.length := by
    intro a b hb hab
    by_cases hlt : a.length < b.length
    · exfalso
      have hi := hab (b.length - 1)
      have hb1 : b.length - 1 < b.length := by omega
      rw [List.getD_eq_getElem?_getD, List.getD_eq_getElem?_getD,
        List.getElem?_eq_none (by omega), List.getElem?_eq_getElem hb1] at hi
      simp only [Option.getD_none, Option.getD_some] at hi
      have := hb (b[b.length - 1]) (by rw [List.getLast?_eq_getElem?, List.getElem?_eq_getElem hb1])
      exact this hi.symm
    · omega
  have hl : l1.length = l2.length :=
    Nat.le_antisymm (hlen l2 l1 h1 (fun i => (h i).symm)) (hlen l1 l2 h2 h)
  apply List.ext_getElem hl
  intro i hi1 hi2
  have := h i
  rw [List.getD_eq_getElem?_getD, List.getD_eq_getElem?_getD,
    List.getElem?_eq_getElem hi1, List.getElem?_eq_getElem hi2] at this
  simpa using this

theorem dropTrailing_eq_iff {α : Type} (p : α → Bool) (d : α) (hp : ∀ x, p x = true ↔ x = d)
    (l1 l2 : List α) :
    dropTrailing p l1 = dropTrailing p l2 ↔ ∀ i, l1.getD i d = l2.getD i d := by
  constructor
  · intro h i
    rw [← dropTrailing_getD p d (fun x hx => (hp x).1 hx) l1 i,
        ← dropTrailing_getD p d (fun x hx => (hp x).1 hx) l2 i, h]
  · intro h
    apply eq_of_getD_eq d
    · intro x hx hd
      have := dropTrailing_last p l1 x hx
      rw [(hp x).2 hd] at this
      exact absurd this (by simp)
    · intro x hx hd
      have := dropTrailing_last p l2 x hx
      rw [(hp x).2 hd] at this
      exact absurd this (by simp)
    · intro i
      rw [dropTrailing_getD p d (fun x hx => (hp x).1 hx) l1 i,
          dropTrailing_getD p d (fun x hx => (hp x).1 hx) l2 i, h]

/-! ### the canonical view is the pointwise view -/

/-- what an observer sees of a cell -/
def vcell (x : Cell) : Text × Bool := (x.vis, x.cont)

theorem vcell_default : vcell {} = ([], false) := by decide

theorem map_getD {α β : Type} (f : α → β) (l : List α) (d : α) (i : Nat) :
    (l.map f).getD i (f d) = f (l.getD i d) := by
  simp only [List.getD_eq_getElem?_getD, List.getElem?_map]
  cases l[i]? <;> rfl

theorem rowCanon_eq_iff (r1 r2 : List Cell) :
    rowCanon r1 = rowCanon r2 ↔ ∀ c, vcell (r1.getD c {}) = vcell (r2.getD c {}) := by
  unfold rowCanon
  rw [dropTrailing_eq_iff _ (([], false) : Text × Bool)]
  · constructor
    · intro h c
      have := h c
      rw [← vcell_default] at this
      rw [show (fun x : Cell => (x.vis, x.cont)) = vcell from rfl, map_getD, map_getD] at this
      exact this
    · intro h c
      rw [← vcell_default, show (fun x : Cell => (x.vis, x.cont)) = vcell from rfl, map_getD, map_getD]
      exact h c
  · intro x
    obtain ⟨a, b⟩ := x
    cases a <;> cases b <;> simp

theorem rowCanon_nil : rowCanon [] = [] := by decide

theorem Grid.get_eq (g : Grid) (r c : Nat) : g.get r c = (g.getD r []).getD c {} := by
  simp [Grid.get, List.getD_eq_getElem?_getD]

/-- **Canonical equality is pointwise visible equality.** -/
theorem canon_eq_iff (g1 g2 : Grid) :
    g1.canon = g2.canon ↔ ∀ r c, vcell (g1.get r c) = vcell (g2.get r c) := by
  unfold Grid.canon
  rw [dropTrailing_eq_iff _ ([] : List (Text × Bool))]
  · have hrow : ∀ (g : Grid) r, (g.map rowCanon).getD r [] = rowCanon (g.getD r []) := by
      intro g r
      have := map_getD rowCanon g [] r
      rwa [rowCanon_nil] at this
    constructor
    · intro h r c
      have := h r
      rw [hrow, hrow, rowCanon_eq_iff] at this
      rw [Grid.get_eq, Grid.get_eq]
      exact this c
    · intro h r
      rw [hrow, hrow, rowCanon_eq_iff]
      intro c
      rw [← Grid.get_eq, ← Grid.get_eq]
      exact h r c
  · intro x
    cases x <;> simp

/-! ### `Grid.get` of the grid updates -/

theorem rowSet_get (row : List Cell) (c : Nat) (x : Cell) (c' : Nat) :
    (rowSet row c x)[c']?.getD {} = if c' = c then x else row[c']?.getD {} := by
  fun_induction rowSet row c x generalizing c' with
  | case1 x => cases c' <;> simp
  | case2 c x ih =>
    cases c' with
    | zero => simp
    | succ k => simpa using ih k
  | case3 y t x => cases c' <;> simp
  | case4 y t c x ih =>
    cases c' with
    | zero => simp
    | succ k => simpa using ih k

theorem modifyRow_get (g : Grid) (r : Nat) (f : List Cell → List Cell) (r' : Nat) :
    ((g.modifyRow r f)[r']?).getD [] = if r' = r then f ((g[r]?).getD []) else (g[r']?).getD [] := by
  fun_induction Grid.modifyRow g r f generalizing r' with
  | case1 f => cases r' <;> simp
  | case2 r f ih =>
    cases r' with
    | zero => simp
    | succ k => simpa using ih k
  | case3 row t f => cases r' <;> simp
  | case4 row t r f ih =>
    cases r' with
    | zero => simp
    | succ k => simpa using ih k

theorem Grid.get_set (g : Grid) (r c : Nat) (x : Cell) (r' c' : Nat) :
    (g.set r c x).get r' c' = if r' = r ∧ c' = c then x else g.get r' c' := by
  unfold Grid.set Grid.get
  rw [modifyRow_get]
  by_cases hr : r' = r
  · subst hr
    rw [if_pos rfl, rowSet_get]
    by_cases hc : c' = c <;> simp [hc]
  · simp [hr]

theorem Grid.get_eraseLineFrom (g : Grid) (r c r' c' : Nat) :
    (g.eraseLineFrom r c).get r' c' = if r' = r ∧ c ≤ c' then {} else g.get r' c' := by
  unfold Grid.eraseLineFrom Grid.get
  rw [modifyRow_get]
  by_cases hr : r' = r
  · subst hr
    rw [if_pos rfl]
    by_cases hc : c ≤ c'
    · have : ¬ c' < c := by omega
      simp [hc, List.getElem?_take, this]
    · have : c' < c := by omega
      simp [hc, this]
  · simp [hr]

theorem Grid.get_eraseBelow (g : Grid) (r c r' c' : Nat) :
    (g.eraseBelow r c).get r' c' = if r < r' ∨ (r' = r ∧ c ≤ c') then {} else g.get r' c' := by
  unfold Grid.eraseBelow Grid.get
  rw [modifyRow_get]
  by_cases hr : r' = r
  · subst hr
    rw [if_pos rfl]
    have h1 : (List.take (r' + 1) g)[r']? = g[r']? := by
      rw [List.getElem?_take]; simp
    rw [h1]
    by_cases hc : c ≤ c'
    · have : ¬ c' < c := by omega
      simp [hc, List.getElem?_take, this]
    · have : c' < c := by omega
      simp [hc, this]
  · rw [if_neg hr, List.getElem?_take]
    by_cases hlt : r < r'
    · have : ¬ r' < r + 1 := by omega
      simp [hlt, this]
    · have : r' < r + 1 := by omega
      simp [hlt, this, hr]

theorem setCont_get (g : Grid) (r c k r' c' : Nat) :
    (setCont g r c k).get r' c' =
      if r' = r ∧ c ≤ c' ∧ c' < c + k then { cont := true } else g.get r' c' := by
  induction k generalizing g c with
  | zero =>
    have : ¬ (r' = r ∧ c ≤ c' ∧ c' < c + 0) := by omega
    rw [setCont, if_neg this]
  | succ k ih =>
    rw [setCont, ih, Grid.get_set]
    by_cases hr : r' = r
    · by_cases h1 : c' = c
      · simp [hr, h1]
      · by_cases h2 : c + 1 ≤ c' ∧ c' < c + 1 + k
        · have : c ≤ c' ∧ c' < c + (k + 1) := by omega
          simp [hr, h2, this]
        · have : ¬ (c ≤ c' ∧ c' < c + (k + 1)) := by omega
          simp [hr, h1, h2, this]
    · simp [hr]

/-! ### single steps and the parameter accumulator of the CSI parser -/

theorem Term.with_ps_ground (t : Term) (h : t.ps = .ground) : { t with ps := .ground } = t := by
  cases t; simp at h; subst h; rfl

theorem step_newline (cw : Char → Nat) (t : Term) (h : t.ps = .ground) :
    t.step cw '\n' = { t with cr := t.cr + 1, cc := 0, pending := false } := by
  simp [Term.step, h, isC0Control, Term.control]

theorem step_cr (cw : Char → Nat) (t : Term) (h : t.ps = .ground) :
    t.step cw '\r' = { t with cc := 0, pending := false } := by
  simp [Term.step, h, isC0Control, Term.control]

theorem step_plain (cw : Char → Nat) (t : Term) (ch : Char) (h : t.ps = .ground)
    (hc : isC0Control ch = false) : t.step cw ch = t.print (cw ch) ch := by
  simp [Term.step, h, hc]

theorem digit_le (ch : Char) (h : ch.isDigit = true) :
    ('0' ≤ ch && ch ≤ '9') = true ∧ ch ≠ '?' := by
  simp only [Char.isDigit, Bool.and_eq_true, decide_eq_true_eq] at h
  refine ⟨?_, ?_⟩
  · simp only [Bool.and_eq_true, decide_eq_true_eq, Char.le_def]
    exact h
  · rintro rfl; revert h; decide

/-- the parameter accumulator reads decimal digits (`Nat.ofDigitChars` is core's left fold) -/
theorem feed_digits (cw : Char → Nat) (ds : Text) (hd : ∀ c ∈ ds, c.isDigit = true) :
    ∀ (t : Term) (priv : Bool) (params : List Nat) (n : Nat),
      ({ t with ps := .csi priv params (some n) } : Term).feed cw ds =
        { t with ps := .csi priv params (some (Nat.ofDigitChars 10 ds n)) } := by
  induction ds with
  | nil => intro t priv params n; rfl
  | cons d ds ih =>
    intro t priv params n
    obtain ⟨h1, h2⟩ := digit_le d (hd d List.mem_cons_self)
    have hstep : ({ t with ps := .csi priv params (some n) } : Term).step cw d =
        { t with ps := .csi priv params (some (n * 10 + (d.toNat - '0'.toNat))) } := by
      simp [Term.step, h1, h2]
    show (({ t with ps := .csi priv params (some n) } : Term).step cw d).feed cw ds = _
    rw [hstep, ih (fun c hc => hd c (List.mem_cons_of_mem _ hc)), Nat.ofDigitChars_cons,
      Nat.mul_comm 10 n]

/-! ### printing over a visibly blank screen -/

/-- a character of the texts the property quantifies over: a line break or a non-control character -/
def PlainC (c : Char) : Prop := c = '\n' ∨ isC0Control c = false

def PlainT (s : Text) : Prop := ∀ c ∈ s, PlainC c

/-- columns `< lim` of the cursor row are the ones the cursor has passed over -/
def Term.lim (t : Term) : Nat := t.cc + (if t.pending then 1 else 0)

/-- the row where following output goes: a pending wrap counts as the next row -/
def Term.orow (t : Term) : Nat := t.cr + (if t.pending then 1 else 0)

/-- `t1` is `t2` except that cells which are blank in `t2` may be *visibly* blank in `t1` (a written
    space, say) — but not in the cursor row left of the cursor, where zero-width characters attach -/
structure Rel (t1 t2 : Term) : Prop where
  cols : t1.cols = t2.cols
  cr : t1.cr = t2.cr
  cc : t1.cc = t2.cc
  pending : t1.pending = t2.pending
  ps1 : t1.ps = .ground
  ps2 : t2.ps = .ground
  cells : ∀ r c, t1.grid.get r c = t2.grid.get r c ∨
    (vcell (t1.grid.get r c) = ([], false) ∧ vcell (t2.grid.get r c) = ([], false) ∧
      ¬ (r = t1.cr ∧ c < t1.lim))

theorem rel_print {t1 t2 : Term} (h : Rel t1 t2) (w : Nat) (hw : w ≠ 0) (ch : Char) :
    Rel (t1.print w ch) (t2.print w ch) := by
  obtain ⟨hcols, hcr, hcc, hpend, hps1, hps2, hcells⟩ := h
  unfold Term.print
  simp only [hw, beq_iff_eq, if_false]
  rw [← hcols, ← hcr, ← hcc, ← hpend]
  have key : ∀ (wrap : Bool), (t1.pending || decide (t1.cc + w > t1.cols)) = wrap →
      ∀ r c L, r = (if wrap = true then t1.cr + 1 else t1.cr) → c = (if wrap = true then 0 else t1.cc) →
      ((L = t1.cols - 1 + 1 ∧ c + w ≥ t1.cols) ∨ L = c + w) →
      ∀ r' c',
      (setCont (t1.grid.set r c { g := [ch] }) r (c + 1) (w - 1)).get r' c' =
        (setCont (t2.grid.set r c { g := [ch] }) r (c + 1) (w - 1)).get r' c' ∨
      (vcell ((setCont (t1.grid.set r c { g := [ch] }) r (c + 1) (w - 1)).get r' c') = ([], false) ∧
       vcell ((setCont (t2.grid.set r c { g := [ch] }) r (c + 1) (w - 1)).get r' c') = ([], false) ∧
        ¬ (r' = r ∧ c' < L)) := by
    intro wrap hwrap r c L hr hc hL r' c'
    rw [setCont_get, setCont_get, Grid.get_set, Grid.get_set]
    by_cases hA : r' = r ∧ c + 1 ≤ c' ∧ c' < c + 1 + (w - 1)
    · left; rw [if_pos hA, if_pos hA]
    · rw [if_neg hA, if_neg hA]
      by_cases hB : r' = r ∧ c' = c
      · left; rw [if_pos hB, if_pos hB]
      · rw [if_neg hB, if_neg hB]
        rcases hcells r' c' with heq | ⟨b1, b2, hex⟩
        · left; exact heq
        · right
          refine ⟨b1, b2, ?_⟩
          rintro ⟨hr', hlt⟩
          cases wrap with
          | true =>
            simp only [if_true] at hr hc
            subst hc
            rcases hL with ⟨hL1, hL2⟩ | hL1 <;> omega
          | false =>
            simp only [Bool.false_eq_true, if_false] at hr hc
            have hp : t1.pending = false := by
              cases hpd : t1.pending <;> simp [hpd] at hwrap ⊢
            have hfit : ¬ t1.cc + w > t1.cols := by
              simp [hp] at hwrap; omega
            apply hex
            refine ⟨by omega, ?_⟩
            unfold Term.lim
            simp only [hp, Bool.false_eq_true, if_false]
            rcases hL with ⟨hL1, hL2⟩ | hL1 <;> omega
  generalize hwrap : (t1.pending || decide (t1.cc + w > t1.cols)) = wrap
  generalize hr : (if wrap = true then t1.cr + 1 else t1.cr) = r
  generalize hc : (if wrap = true then 0 else t1.cc) = c
  by_cases hfull : c + w ≥ t1.cols
  · simp only [hfull, if_true]
    exact ⟨rfl, rfl, rfl, rfl, hps1, hps2,
      key wrap hwrap r c (t1.cols - 1 + 1) hr.symm hc.symm (Or.inl ⟨rfl, hfull⟩)⟩
  · simp only [hfull, if_false]
    refine ⟨rfl, rfl, rfl, rfl, hps1, hps2, ?_⟩
    have := key wrap hwrap r c (c + w) hr.symm hc.symm (Or.inr rfl)
    simpa [Term.lim] using this

theorem rel_attach {t1 t2 : Term} (h : Rel t1 t2) (ch : Char) :
    Rel (t1.attach ch) (t2.attach ch) := by
  obtain ⟨hcols, hcr, hcc, hpend, hps1, hps2, hcells⟩ := h
  have hac : t2.attachCol = t1.attachCol := by unfold Term.attachCol; rw [hcc, hpend]
  unfold Term.attach
  rw [hac]
  cases hcol : t1.attachCol with
  | none => exact ⟨hcols, hcr, hcc, hpend, hps1, hps2, hcells⟩
  | some c0 =>
    have hc0 : c0 < t1.lim := by
      unfold Term.attachCol at hcol
      unfold Term.lim
      by_cases hp : t1.pending = true
      · simp [hp] at hcol ⊢; omega
      · by_cases hz : t1.cc = 0
        · simp [hp, hz] at hcol
        · simp [hp, hz] at hcol ⊢; omega
    have exact_of : ∀ c, c ≤ c0 → t1.grid.get t1.cr c = t2.grid.get t1.cr c := by
      intro c hc
      rcases hcells t1.cr c with heq | ⟨_, _, hex⟩
      · exact heq
      · exact absurd ⟨rfl, by omega⟩ hex
    simp only []
    rw [← hcr, ← exact_of c0 (Nat.le_refl _)]
    generalize hcdef : (if ((t1.grid.get t1.cr c0).cont && decide (c0 > 0)) = true then c0 - 1 else c0) = c
    have hcle : c ≤ c0 := by rw [← hcdef]; split <;> omega
    rw [← exact_of c hcle]
    refine ⟨hcols, rfl, hcc, hpend, hps1, hps2, ?_⟩
    intro r' c'
    rw [Grid.get_set, Grid.get_set]
    by_cases hB : r' = t1.cr ∧ c' = c
    · left; rw [if_pos hB, if_pos hB]
    · rw [if_neg hB, if_neg hB]; exact hcells r' c'

theorem rel_step (cw : Char → Nat) {t1 t2 : Term} (h : Rel t1 t2) (ch : Char) (hp : PlainC ch) :
    Rel (t1.step cw ch) (t2.step cw ch) := by
  rcases hp with rfl | hc
  · rw [step_newline cw t1 h.ps1, step_newline cw t2 h.ps2]
    obtain ⟨hcols, hcr, hcc, hpend, hps1, hps2, hcells⟩ := h
    refine ⟨hcols, by simp [hcr], rfl, rfl, hps1, hps2, ?_⟩
    intro r c
    rcases hcells r c with heq | ⟨b1, b2, _⟩
    · left; exact heq
    · right; exact ⟨b1, b2, by simp [Term.lim]⟩
  · rw [step_plain cw t1 ch h.ps1 hc, step_plain cw t2 ch h.ps2 hc]
    by_cases hw : cw ch = 0
    · have e : ∀ t : Term, t.print 0 ch = t.attach ch := by intro t; simp [Term.print]
      rw [hw, e, e]
      exact rel_attach h ch
    · exact rel_print h _ hw ch

theorem rel_feed (cw : Char → Nat) (s : Text) (hs : PlainT s) :
    ∀ {t1 t2 : Term}, Rel t1 t2 → Rel (t1.feed cw s) (t2.feed cw s) := by
  induction s with
  | nil => intro t1 t2 h; exact h
  | cons c s ih =>
    intro t1 t2 h
    exact ih (fun x hx => hs x (List.mem_cons_of_mem _ hx)) (rel_step cw h c (hs c List.mem_cons_self))

/-- what `Rel` gives at the end: the same cursor and visibly the same screen -/
theorem Rel.canon {t1 t2 : Term} (h : Rel t1 t2) : t1.grid.canon = t2.grid.canon := by
  rw [canon_eq_iff]
  intro r c
  rcases h.cells r c with heq | ⟨b1, b2, _⟩
  · rw [heq]
  · rw [b1, b2]

/-! ### printing a plain text: nothing below the cursor row, rows only grow -/

def BelowBlank (t : Term) : Prop := ∀ r c, t.cr < r → t.grid.get r c = {}

structure PlainInv (t t' : Term) : Prop where
  ps : t'.ps = .ground
  below : BelowBlank t'
  orow : t.orow ≤ t'.orow
  cols : t'.cols = t.cols

theorem plainInv_step (cw : Char → Nat) (t : Term) (hps : t.ps = .ground) (hb : BelowBlank t)
    (ch : Char) (hp : PlainC ch) : PlainInv t (t.step cw ch) := by
  rcases hp with rfl | hc
  · rw [step_newline cw t hps]
    refine ⟨hps, ?_, ?_, rfl⟩
    · intro r c hr
      exact hb r c (by simp at hr; omega)
    · simp only [Term.orow]; split <;> simp
  · rw [step_plain cw t ch hps hc]
    by_cases hw : cw ch = 0
    · have e : t.print 0 ch = t.attach ch := by simp [Term.print]
      rw [hw, e]
      unfold Term.attach
      cases t.attachCol with
      | none => exact ⟨hps, hb, Nat.le_refl _, rfl⟩
      | some c0 =>
        refine ⟨hps, ?_, Nat.le_refl _, rfl⟩
        intro r c hr
        simp only [] at hr ⊢
        rw [Grid.get_set, if_neg (by omega)]
        exact hb r c hr
    · unfold Term.print
      simp only [hw, beq_iff_eq, if_false]
      generalize hwrap : (t.pending || decide (t.cc + cw ch > t.cols)) = wrap
      have hr : t.orow ≤ (if wrap = true then t.cr + 1 else t.cr) := by
        unfold Term.orow
        cases wrap with
        | true => simp; split <;> omega
        | false =>
          have hp : t.pending = false := by
            cases hpd : t.pending <;> simp [hpd] at hwrap ⊢
          simp [hp]
      have hr0 : t.cr ≤ (if wrap = true then t.cr + 1 else t.cr) := by split <;> omega
      generalize (if wrap = true then t.cr + 1 else t.cr) = r at hr hr0
      generalize (if wrap = true then 0 else t.cc) = c
      have hbelow : ∀ r' c', r < r' →
          (setCont (t.grid.set r c { g := [ch] }) r (c + 1) (cw ch - 1)).get r' c' = {} := by
        intro r' c' h
        rw [setCont_get, Grid.get_set, if_neg (by omega), if_neg (by omega)]
        exact hb r' c' (by omega)
      split
      · exact ⟨hps, hbelow, by simp only [Term.orow] at hr ⊢; simp; omega, rfl⟩
      · exact ⟨hps, hbelow, by simp only [Term.orow] at hr ⊢; simp; omega, rfl⟩

theorem plainInv_feed (cw : Char → Nat) (s : Text) (hs : PlainT s) :
    ∀ (t : Term), t.ps = .ground → BelowBlank t → PlainInv t (t.feed cw s) := by
  induction s with
  | nil => intro t hps hb; exact ⟨hps, hb, Nat.le_refl _, rfl⟩
  | cons c s ih =>
    intro t hps hb
    have h1 := plainInv_step cw t hps hb c (hs c List.mem_cons_self)
    have h2 := ih (fun x hx => hs x (List.mem_cons_of_mem _ hx)) _ h1.ps h1.below
    exact ⟨h2.ps, h2.below, Nat.le_trans h1.orow h2.orow, h2.cols.trans h1.cols⟩

theorem belowBlank_blank (cols : Nat) : BelowBlank (Term.blank cols) := by
  intro r c _
  simp [Term.blank, Grid.get]

/-! ### visibly equal screens stay visibly equal under a character that occupies cells -/

structure VRel (t1 t2 : Term) : Prop where
  cols : t1.cols = t2.cols
  cr : t1.cr = t2.cr
  cc : t1.cc = t2.cc
  pending : t1.pending = t2.pending
  ps1 : t1.ps = .ground
  ps2 : t2.ps = .ground
  cells : ∀ r c, vcell (t1.grid.get r c) = vcell (t2.grid.get r c)

theorem vrel_print {t1 t2 : Term} (h : VRel t1 t2) (w : Nat) (hw : w ≠ 0) (ch : Char) :
    VRel (t1.print w ch) (t2.print w ch) := by
  obtain ⟨hcols, hcr, hcc, hpend, hps1, hps2, hcells⟩ := h
  unfold Term.print
  simp only [hw, beq_iff_eq, if_false]
  rw [← hcols, ← hcr, ← hcc, ← hpend]
  generalize (t1.pending || decide (t1.cc + w > t1.cols)) = wrap
  generalize (if wrap = true then t1.cr + 1 else t1.cr) = r
  generalize (if wrap = true then 0 else t1.cc) = c
  have key : ∀ r' c',
      vcell ((setCont (t1.grid.set r c { g := [ch] }) r (c + 1) (w - 1)).get r' c') =
      vcell ((setCont (t2.grid.set r c { g := [ch] }) r (c + 1) (w - 1)).get r' c') := by
    intro r' c'
    rw [setCont_get, setCont_get, Grid.get_set, Grid.get_set]
    split
    · rfl
    · split
      · rfl
      · exact hcells r' c'
  split
  · exact ⟨rfl, rfl, rfl, rfl, hps1, hps2, key⟩
  · exact ⟨rfl, rfl, rfl, rfl, hps1, hps2, key⟩

theorem vrel_step (cw : Char → Nat) {t1 t2 : Term} (h : VRel t1 t2) (ch : Char)
    (hp : ch = '\n' ∨ (isC0Control ch = false ∧ cw ch ≠ 0)) :
    VRel (t1.step cw ch) (t2.step cw ch) := by
  rcases hp with rfl | ⟨hc, hw⟩
  · rw [step_newline cw t1 h.ps1, step_newline cw t2 h.ps2]
    exact ⟨h.cols, by simp [h.cr], rfl, rfl, h.ps1, h.ps2, h.cells⟩
  · rw [step_plain cw t1 ch h.ps1 hc, step_plain cw t2 ch h.ps2 hc]
    exact vrel_print h _ hw ch

theorem VRel.canon {t1 t2 : Term} (h : VRel t1 t2) : t1.grid.canon = t2.grid.canon :=
  (canon_eq_iff _ _).2 h.cells

end Rl
