/-
  C17: no command makes the edited line's buffer non-growable (`line.canGrow`): a frame fact about
  `execute` and the edit functions, by the structural tactic of Rl/Lemmas/EditorM.lean over the
  `Grow` facts of Rl/Lemmas/LineBufferGrow.lean.
-/
import Rl.Lemmas.EditorM
import Rl.Lemmas.EditorFrame
import Rl.Lemmas.LineBufferGrow
namespace Rl
open EM

/-- the projection: may the edited line reallocate? -/
def Ed.grow (s : Ed) : Bool := s.line.canGrow

theorem Keeps.grow_of_nc {α : Type} {m : EM α} (h : Keeps Ed.coreNC m) : Keeps Ed.grow m :=
  Keeps.comp (fun c : CoreNC => c.line.canGrow) h

theorem Keeps.grow_of_core {α : Type} {m : EM α} (h : Keeps Ed.core m) : Keeps Ed.grow m :=
  Keeps.grow_of_nc h.nc

section
variable (S : Segmenter) (U : UData) (cfg : EdCfg)

theorem keeps_grow_lb {α : Type} {op : LM α} (h : Grow op) : Keeps Ed.grow (lb S U op) := by
  constructor; intro s; unfold lb
  cases ho : op s.line with
  | error e => rfl
  | ok r => obtain ⟨a, l, ns⟩ := r; exact h.h _ _ _ _ ho

theorem keeps_grow_lbQuiet {α : Type} {op : LM α} (h : Grow op) : Keeps Ed.grow (lbQuiet op) := by
  constructor; intro s; unfold lbQuiet
  cases ho : op s.line with
  | error e => rfl
  | ok r => obtain ⟨a, l, ns⟩ := r; exact h.h _ _ _ _ ho

theorem keeps_grow_lbKill {α : Type} {op : LM α} (h : Grow op) : Keeps Ed.grow (lbKill S U op) := by
  constructor; intro s; unfold lbKill
  cases ho : op s.line with
  | error e => rfl
  | ok r =>
    obtain ⟨a, l, ns⟩ := r
    simp only []
    cases lbKill.go ns s.ring with
    | error e => rfl
    | ok k => exact h.h _ _ _ _ ho

theorem keeps_grow_backup : Keeps Ed.grow (backup S U) := by
  constructor; intro s; unfold backup
  cases LB.update S U s.line.buf s.line.pos s.saved with
  | error e => rfl
  | ok r => obtain ⟨_, sv, _⟩ := r; rfl

theorem keeps_grow_ringYank : Keeps Ed.grow ringYank := by
  constructor; intro s; unfold ringYank
  cases s.ring.yank with
  | error e => rfl
  | ok r => rfl

theorem keeps_grow_ringYankPop : Keeps Ed.grow ringYankPop := by
  constructor; intro s; unfold ringYankPop
  cases s.ring.yankPop with
  | error e => rfl
  | ok r => rfl

theorem keeps_grow_ringKill (t : Text) : Keeps Ed.grow (ringKill t) := by
  constructor; intro s; unfold ringKill
  cases s.ring.kill t .append with
  | error e => rfl
  | ok r => rfl

theorem keeps_grow_ringYankCount (n : Nat) : Keeps Ed.grow (ringYankCount n) := ⟨fun _ => rfl⟩
theorem keeps_grow_setHistIdx (i : Nat) : Keeps Ed.grow (setHistIdx i) := ⟨fun _ => rfl⟩
theorem keeps_grow_truncateChanges (m : Nat) : Keeps Ed.grow (truncateChanges m) := ⟨fun _ => rfl⟩

end

/-- the `Grow` fact of a line-buffer call, found among the per-method lemmas -/
macro "gr_leaf" : tactic => `(tactic| first
  | exact Grow.insert _ _ _ _ | exact Grow.yank _ _ _ _ | exact Grow.yankPop _ _ _ _
  | exact Grow.update _ _ _ _ | exact Grow.delete _ _ _ | exact Grow.replace _ _ _ _ _
  | exact Grow.insertStr _ _ _ _ | exact Grow.kill _ _ _ | exact Grow.indent _ _ _ _ _
  | exact Grow.transposeChars _ _ | exact Grow.editWord _ _ _ | exact Grow.transposeWords _ _ _
  | exact Grow.moveBackward _ _ _ | exact Grow.moveForward _ _ _ | exact Grow.moveHome _ _
  | exact Grow.moveEnd _ _ | exact Grow.moveBufferStart _ _ | exact Grow.moveBufferEnd _ _
  | exact Grow.moveToPrevWord _ _ _ _ | exact Grow.moveToNextWord _ _ _ _ _
  | exact Grow.moveToLineUp _ _ _ _ | exact Grow.moveToLineDown _ _ _ _ | exact Grow.moveTo _ _ _ _
  | exact Grow.setPosChecked _ _ _ | exact Grow.moveToFirstPrint _ _
  | assumption)

macro "em_grow_step" : tactic => `(tactic| first
  | intro _
  | with_reducible (first
    | exact Keeps.pure _
    | apply Keeps.bind
    | apply Keeps.bind'
    | apply Keeps.ite
    | assumption
    | exact Keeps.exit _
    | exact Keeps.liftP _
    | exact Keeps.get
    | exact Keeps.read _
    | exact keeps_grow_backup _ _ | exact keeps_grow_ringYank | exact keeps_grow_ringYankPop
    | exact keeps_grow_ringKill _ | exact keeps_grow_ringYankCount _ | exact keeps_grow_setHistIdx _
    | exact keeps_grow_truncateChanges _)
  | ((with_reducible apply keeps_grow_lb) <;> gr_leaf)
  | ((with_reducible apply keeps_grow_lbQuiet) <;> gr_leaf)
  | ((with_reducible apply keeps_grow_lbKill) <;> gr_leaf)
  | ((with_reducible apply Keeps.modify) <;> (intro _; rfl))
  | ((with_reducible apply Keeps.grow_of_nc) <;> (with_reducible (first
      | exact keeps_changesBegin | exact keeps_changesEnd | exact keeps_doingInsert | exact keeps_doneInserting
      | exact (keeps_refreshLine _ _ _).nc | exact (keeps_refreshLineWithMsg _ _ _ _).nc
      | exact (keeps_refreshPromptAndLine _ _ _ _).nc | exact (keeps_moveCursor _ _ _).nc
      | exact (keeps_highlightCharStep _).nc | exact (keeps_updateHint _).nc
      | exact (keeps_setRefreshLayout _ _ _ _ _).nc | exact (keeps_logRender _).nc
      | exact keeps_getLine.nc | exact keeps_getHistIdx.nc | exact keeps_getPromptCol.nc
      | exact keeps_lineEmpty.nc | exact keeps_hasHint.nc | exact (keeps_nextKey _).nc
      | exact keeps_nextChar.nc | exact keeps_nextCmd _ _ _ _ _ _)))
  | split
  | dsimp only)

syntax "em_grow" ("[" term,* "]")? : tactic
macro_rules
  | `(tactic| em_grow) => `(tactic| repeat' em_grow_step)
  | `(tactic| em_grow [$ts,*]) =>
    `(tactic| repeat' (first | (with_reducible first $[| apply $ts]*) | em_grow_step))

section
variable (S : Segmenter) (U : UData) (cfg : EdCfg)

theorem keeps_grow_editInsert (c : Char) (n : Nat) : Keeps Ed.grow (editInsert S U cfg c n) := by
  unfold editInsert; em_grow

theorem keeps_grow_validate : Keeps Ed.grow (validate S U cfg) := by
  unfold validate; em_grow


theorem keeps_grow_restore : Keeps Ed.grow (restore S U) := by
  unfold restore; em_grow
theorem keeps_grow_showEntry (b : Text) (p : Nat) : Keeps Ed.grow (showEntry S U b p) := by
  unfold showEntry; em_grow
theorem keeps_grow_editMove {op : LM Bool} (h : Grow op) : Keeps Ed.grow (editMove S U cfg op) := by
  unfold editMove; em_grow
theorem keeps_grow_grouped {op : LM Bool} (h : Grow op) : Keeps Ed.grow (grouped S U cfg op) := by
  unfold grouped; em_grow
theorem keeps_grow_editYank (t : Text) (a : Anchor) (n : Nat) : Keeps Ed.grow (editYank S U cfg t a n) := by
  unfold editYank; em_grow
theorem keeps_grow_editYankPop (k : Nat) (t : Text) : Keeps Ed.grow (editYankPop S U cfg k t) := by
  unfold editYankPop; em_grow
theorem keeps_grow_editKill (m : Movement) : Keeps Ed.grow (editKill S U cfg m) := by
  unfold editKill; em_grow
theorem keeps_grow_editInsertText (t : Text) : Keeps Ed.grow (editInsertText S U cfg t) := by
  unfold editInsertText; em_grow
theorem keeps_grow_editReplaceChar (c : Char) (n : Nat) : Keeps Ed.grow (editReplaceChar S U cfg c n) := by
  unfold editReplaceChar; em_grow
theorem keeps_grow_editOverwriteChar (c : Char) : Keeps Ed.grow (editOverwriteChar S U cfg c) := by
  unfold editOverwriteChar; em_grow
theorem keeps_grow_completeHintLine : Keeps Ed.grow (completeHintLine S U cfg) := by
  unfold completeHintLine; em_grow
theorem keeps_grow_editHistoryNext (prev : Bool) : Keeps Ed.grow (editHistoryNext S U cfg prev) := by
  have h1 := keeps_grow_restore S U
  have h2 := fun b p => keeps_grow_showEntry S U b p
  unfold editHistoryNext; em_grow [h2]
theorem keeps_grow_editHistory (first : Bool) : Keeps Ed.grow (editHistory S U cfg first) := by
  have h1 := keeps_grow_restore S U
  have h2 := fun b p => keeps_grow_showEntry S U b p
  unfold editHistory; em_grow [h2]
theorem keeps_grow_editHistorySearch (d : Dir) : Keeps Ed.grow (editHistorySearch S U cfg d) := by
  have h2 := fun b p => keeps_grow_showEntry S U b p
  unfold editHistorySearch; em_grow [h2]
theorem keeps_grow_execAccept (aim : Bool) : Keeps Ed.grow (execAccept S U cfg aim) := by
  have h1 := keeps_grow_validate S U cfg
  have h2 := fun c n => keeps_grow_editInsert S U cfg c n
  unfold execAccept; em_grow [h2]

/-- the `Undo` branch of `execute` (the only one that rewrites the line outside the `lb` wrappers) -/
def IsUndo : Cmd → Bool | .undo _ => true | _ => false

/-- **no command but `Undo` can make the line non-growable** (and `Undo` does not either, through
    `Change::undo`'s `delete_range` / `insert_str` / `replace`; that branch is among the open ones) -/
theorem keeps_grow_execute (cmd : Cmd) (hc : IsUndo cmd = false) : Keeps Ed.grow (execute S U cfg cmd) := by
  have a1 := fun c n => keeps_grow_editInsert S U cfg c n
  have a2 := keeps_grow_validate S U cfg
  have a3 := fun t a n => keeps_grow_editYank S U cfg t a n
  have a4 := fun k t => keeps_grow_editYankPop S U cfg k t
  have a5 := fun m => keeps_grow_editKill S U cfg m
  have a6 := fun t => keeps_grow_editInsertText S U cfg t
  have a7 := fun c n => keeps_grow_editReplaceChar S U cfg c n
  have a8 := fun c => keeps_grow_editOverwriteChar S U cfg c
  have a9 := keeps_grow_completeHintLine S U cfg
  have a10 := fun p => keeps_grow_editHistoryNext S U cfg p
  have a11 := fun p => keeps_grow_editHistory S U cfg p
  have a12 := fun d => keeps_grow_editHistorySearch S U cfg d
  have a13 := fun a => keeps_grow_execAccept S U cfg a
  have m1 : ∀ {op : LM Bool}, Grow op → Keeps Ed.grow (editMove S U cfg op) := fun h => keeps_grow_editMove S U cfg h
  have g1 : ∀ {op : LM Bool}, Grow op → Keeps Ed.grow (grouped S U cfg op) := fun h => keeps_grow_grouped S U cfg h
  cases cmd <;> simp only [IsUndo, Bool.true_eq_false] at hc <;> unfold execute
  case move m => cases m <;> (em_grow [a1, a3, a4, a5, a6, a7, a8, a10, a11, a12, a13] <;> (first | (apply m1; gr_leaf) | skip))
  all_goals (em_grow [a1, a3, a4, a5, a6, a7, a8, a10, a11, a12, a13] <;> (first | (apply g1; gr_leaf) | skip))

end
end Rl
