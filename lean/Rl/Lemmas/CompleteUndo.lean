/-
  C14, "one Undo after an accepted completion restores the pre-completion text" (emacs mode):
  the undo log of the circular completion loop is ONE group — `End :: body ++ Begin :: log before`,
  no marker inside `body` — and it replays to the accepted line.
-/
import Rl.Lemmas.EditorLog
import Rl.Lemmas.CompleteLoop
namespace Rl
open EM
variable (S : Segmenter) (U : UData) (cfg : EdCfg)

/-- the undo log inside a completion started on the log `c0`: `extra ++ Begin :: c0.undos` with no
    marker in `extra`, one level above `c0` -/
def GroupLog (c0 c : Changeset) (extra : List Change) : Prop :=
  c.undos = extra ++ .begin :: c0.undos ∧ (∀ ch ∈ extra, ch.isMarker = false) ∧ c.level = c0.level + 1

theorem GroupLog.start (c0 : Changeset) : GroupLog c0 c0.begin.1 [] :=
  ⟨rfl, fun _ h => (by cases h), rfl⟩

theorem GroupLog.notif {c0 c : Changeset} {extra : List Change} (h : GroupLog c0 c extra) (n : Notif) :
    ∃ extra', GroupLog c0 (c.onNotif S U.alnum n) extra' ∧ (extra ≠ [] → extra' ≠ []) := by
  obtain ⟨hu, hm, hl⟩ := h
  have hlv : (c.onNotif S U.alnum n).level = c0.level + 1 := by rw [Changeset.onNotif_level]; exact hl
  rcases Changeset.onNotif_shape S U.alnum c n with h1 | ⟨ch, hch, h1⟩ | ⟨hd, rest, ch, hu', hm1, hm2, h1⟩
  · exact ⟨extra, ⟨by rw [h1, hu], hm, hlv⟩, id⟩
  · refine ⟨ch :: extra, ⟨by rw [h1, hu]; rfl, ?_, hlv⟩, fun _ => List.cons_ne_nil _ _⟩
    intro x hx
    rcases List.mem_cons.mp hx with rfl | hx
    · exact hch
    · exact hm x hx
  · cases extra with
    | nil =>
      rw [hu] at hu'
      simp only [List.nil_append, List.cons.injEq] at hu'
      rw [← hu'.1] at hm1; simp [Change.isMarker] at hm1
    | cons e extra' =>
      rw [hu] at hu'
      simp only [List.cons_append, List.cons.injEq] at hu'
      obtain ⟨rfl, rfl⟩ := hu'
      refine ⟨ch :: extra', ⟨by rw [h1]; rfl, ?_, hlv⟩, fun _ => List.cons_ne_nil _ _⟩
      intro x hx
      rcases List.mem_cons.mp hx with rfl | hx
      · exact hm2
      · exact hm x (List.mem_cons_of_mem _ hx)

theorem GroupLog.notifs {c0 c : Changeset} {extra : List Change} (h : GroupLog c0 c extra) (ns : List Notif) :
    ∃ extra', GroupLog c0 (c.onNotifs S U.alnum ns) extra' ∧ (extra ≠ [] → extra' ≠ []) := by
  unfold Changeset.onNotifs
  induction ns generalizing c extra with
  | nil => exact ⟨extra, h, id⟩
  | cons n ns ih =>
    obtain ⟨e1, h1, hn1⟩ := h.notif S U n
    obtain ⟨e2, h2, hn2⟩ := ih h1
    exact ⟨e2, h2, fun hne => hn2 (hn1 hne)⟩

/-- a `replace` notification always leaves something in the group -/
theorem GroupLog.repl {c0 c : Changeset} {extra : List Change} (h : GroupLog c0 c extra) (i : Nat) (o n : Text) :
    ∃ extra', GroupLog c0 (c.onNotifs S U.alnum [.repl i o n]) extra' ∧ extra' ≠ [] := by
  obtain ⟨e1, h1, _⟩ := h.notif S U (.repl i o n)
  refine ⟨e1, h1, ?_⟩
  intro he
  subst he
  have hu := h1.1
  simp only [Changeset.onNotif, Changeset.replace_undos, List.nil_append] at hu
  split at hu
  · split at hu <;> cases hu
  · cases hu

/-- closing the group (level of the log before: 0): `End` goes on top of the non-empty body -/
theorem GroupLog.end_ {c0 c : Changeset} {extra : List Change} (h : GroupLog c0 c extra) (hl0 : c0.level = 0)
    (hne : extra ≠ []) :
    c.end_.1.undos = .end_ :: extra ++ .begin :: c0.undos ∧ c.end_.1.level = 0 := by
  obtain ⟨hu, hm, hl⟩ := h
  cases extra with
  | nil => exact absurd rfl hne
  | cons e ex =>
    have hme := hm e (List.mem_cons_self ..)
    simp only [Changeset.end_, hl, hl0, hu, Nat.zero_add]
    cases e <;> simp [Change.isMarker] at hme <;> simp [Changeset.endLoop]

theorem GroupLog.begin_end_ {c0 c : Changeset} {extra : List Change} (h : GroupLog c0 c extra) (hl0 : c0.level = 0)
    (hne : extra ≠ []) :
    c.begin.1.end_.1.undos = .end_ :: extra ++ .begin :: c0.undos ∧ c.begin.1.end_.1.level = 0 := by
  obtain ⟨hu, hm, hl⟩ := h
  cases extra with
  | nil => exact absurd rfl hne
  | cons e ex =>
    have hme := hm e (List.mem_cons_self ..)
    simp only [Changeset.end_, Changeset.begin, hl, hl0, hu, Nat.zero_add]
    cases e <;> simp [Change.isMarker] at hme <;> simp [Changeset.endLoop]

/-- `next_cmd` in emacs mode: the line is untouched; the undo log is untouched, or one group is opened
    and the command is a (bound) `Replace` -/
theorem wp_nextCmd_emacs_line_changes (hvi : cfg.vi = false) {fuel : Nat} {sea iep : Bool} {s : Ed}
    {Q : Cmd → Ed → Prop}
    (hq : ∀ c s', s'.line = s.line →
      (s'.changes = s.changes ∨ (s'.changes = s.changes.begin.1 ∧ ∃ a b, c = .replace a b)) → Q c s') :
    wp (nextCmd S U cfg fuel sea iep) Q (fun _ _ => True) s := by
  have tail : ∀ (key : KeyEvent) (s1 : Ed), s1.changes = s.changes → s1.line = s.line →
      wp (do
        let inCommand ← (fun s => .ok (s.inp.inputMode == .command, s) : EM Bool)
        let cmd ← emacs S U cfg fuel key
        match cmd with
        | .replace _ _ => do let _ ← changesBegin; pure cmd
        | _ => pure cmd) Q (fun _ _ => True) s1 := by
    intro key s1 h1 hl1
    rw [wp_bind', wp_read, wp_bind]
    refine wp_mono ((keeps_emacs S U cfg fuel key).wp s1) ?_ (fun _ _ _ => trivial)
    intro cmd s2 h2
    have hc2 : s2.changes = s.changes := by rw [(Ed.core_eq h2).2.2.1]; exact h1
    have hl2 : s2.line = s.line := by rw [(Ed.core_eq h2).1]; exact hl1
    split
    · rw [wp_bind, wp_changesBegin, wp_pure]
      exact hq _ _ hl2 (Or.inr ⟨by show s2.changes.begin.1 = _; rw [hc2], _, _, rfl⟩)
    · rw [wp_pure]; exact hq _ _ hl2 (Or.inl hc2)
  unfold nextCmd waitForInput
  simp only [hvi, Bool.not_false, Bool.false_eq_true, if_false, if_true]
  split <;>
  · rw [wp_bind]
    refine wp_mono ((keeps_nextKey _).wp s) ?_ (fun _ _ _ => trivial)
    intro key s1 h1
    have t := tail key s1 (Ed.core_eq h1).2.2.1 (Ed.core_eq h1).1
    simp only [wp_bind, wp_bind'] at t ⊢
    exact t

/-- loop-head invariant for the accepted completion -/
def AccI (c0 : Changeset) (t0 : Text) (s : Ed) (extra : List Change) : Prop :=
  GroupLog c0 s.changes extra ∧ s.line.canGrow = true ∧ replayLog s.changes.undos.reverse t0 = some s.line.buf

/-- what an accepted completion leaves in the log -/
def AccPost (c0 : Changeset) (t0 : Text) (r : Option Cmd) (s' : Ed) : Prop :=
  ∀ cmd, r = some cmd → ∃ body, body ≠ [] ∧ (∀ ch ∈ body, ch.isMarker = false) ∧
    s'.changes.undos = .end_ :: body ++ .begin :: c0.undos ∧ s'.changes.level = 0 ∧
    replayLog s'.changes.undos.reverse t0 = some s'.line.buf

/-- circular completion in emacs mode, accepted: the log is the log before plus ONE closed group -/
theorem completeCircular_accept_log (hvi : cfg.vi = false) (c0 : Changeset) (t0 : Text) (hl0 : c0.level = 0)
    (start : Nat) (cands : List Text) (backup : Text) (backupPos : Nat) :
    ∀ (fuel mark i : Nat) (s : Ed) (extra : List Change), AccI c0 t0 s extra →
      (extra ≠ [] ∨ i < cands.length) →
      wp (completeCircular S U cfg start cands mark backup backupPos fuel i) (AccPost c0 t0) (fun _ _ => True) s := by
  intro fuel
  induction fuel with
  | zero => intro mark i s extra _ _; unfold completeCircular; exact trivial
  | succ fuel ih =>
    intro mark i s extra hs hne
    unfold completeCircular
    have rest : ∀ (s1 : Ed) (e1 : List Change), AccI c0 t0 s1 e1 → e1 ≠ [] →
        wp (do
          refreshLine S U cfg
          let cmd ← nextCmd S U cfg fuel true true
          let mark ← lowerMark mark
          match cmd with
          | .complete => completeCircular S U cfg start cands mark backup backupPos fuel (compNext cands.length i)
          | .completeBackward => completeCircular S U cfg start cands mark backup backupPos fuel (compPrev cands.length i)
          | .abort => do
            if i < cands.length then do
              lb S U (LB.update S U backup backupPos)
              refreshLine S U cfg
            truncateChanges mark
            pure none
          | _ => do
            let _ ← changesEnd
            pure (some cmd)) (AccPost c0 t0) (fun _ _ => True) s1 := by
      intro s1 e1 hs1 hne1
      simp only [wp_bind]
      refine wp_refreshLine S U cfg (fun s2 hc2 => ?_) (fun _ _ _ => trivial)
      obtain ⟨l2, _, c2, _⟩ := Ed.core_eq hc2
      refine wp_nextCmd_emacs_line_changes S U cfg hvi (fun cmd s3 l3 hch => ?_)
      rw [wp_lowerMark]
      have hsame : s3.changes = s2.changes → AccI c0 t0 s3 e1 := by
        intro e
        obtain ⟨g1, g2, g3⟩ := hs1
        exact ⟨by rw [e, c2]; exact g1, by rw [l3, l2]; exact g2, by rw [e, c2, l3, l2]; exact g3⟩
      split
      · rcases hch with e | ⟨_, a, b, hab⟩
        · exact ih _ _ s3 e1 (hsame e) (Or.inl hne1)
        · cases hab
      · rcases hch with e | ⟨_, a, b, hab⟩
        · exact ih _ _ s3 e1 (hsame e) (Or.inl hne1)
        · cases hab
      · split
        · simp only [wp_bind]
          refine wp_lb_any S U (fun a l ns ho => ?_) trivial
          refine wp_refreshLine S U cfg (fun s5 _ => ?_) (fun _ _ _ => trivial)
          simp only [truncateChanges, wp_modify, wp_pure]
          intro cmd h; cases h
        · simp only [wp_pure, wp_bind, truncateChanges, wp_modify]
          intro cmd h; cases h
      · simp only [wp_bind, wp_changesEnd, wp_pure]
        intro cmd' _
        obtain ⟨g1, g2, g3⟩ := hs1
        rcases hch with e | ⟨e, _⟩
        · obtain ⟨u1, u2⟩ := g1.end_ hl0 hne1
          refine ⟨e1, hne1, g1.2.1, by show s3.changes.end_.1.undos = _; rw [e, c2]; exact u1,
            by show s3.changes.end_.1.level = _; rw [e, c2]; exact u2, ?_⟩
          show replayLog s3.changes.end_.1.undos.reverse t0 = some s3.line.buf
          rw [e, c2, l3, l2]
          exact (C05_log_markers s1.changes t0 _ g3).2
        · obtain ⟨u1, u2⟩ := g1.begin_end_ hl0 hne1
          refine ⟨e1, hne1, g1.2.1, by show s3.changes.end_.1.undos = _; rw [e, c2]; exact u1,
            by show s3.changes.end_.1.level = _; rw [e, c2]; exact u2, ?_⟩
          show replayLog s3.changes.end_.1.undos.reverse t0 = some s3.line.buf
          rw [e, c2, l3, l2]
          exact (C05_log_markers s1.changes.begin.1 t0 _ (C05_log_markers s1.changes t0 _ g3).1).2
    simp only []
    obtain ⟨g1, g2, g3⟩ := hs
    by_cases hlt : i < cands.length
    · rw [if_pos hlt]
      have hci : cands[i]? = some cands[i] := by simp [hlt]
      rw [hci]
      simp only [wp_bind, wp_getLine]
      refine wp_lb_any S U (fun a l ns ho => ?_) trivial
      have hns : ∃ y, ns = [.repl start y cands[i]] := by
        unfold LB.replace at ho
        split at ho
        · cases ho; exact ⟨_, rfl⟩
        · cases ho
      obtain ⟨y, rfl⟩ := hns
      obtain ⟨e1, h1, hn1⟩ := g1.repl S U start y cands[i]
      have hs' : AccI c0 t0 ({ s with line := l, changes := s.changes.onNotifs S U.alnum [.repl start y cands[i]] } : Ed) e1 :=
        ⟨h1, (LB.replace_canGrow S U ho).trans g2,
          C05_log_replay S U.alnum s.changes _ t0 s.line.buf l.buf g3
            (replayNotifs_of_replay _ ((Replays.replace S U _ _ _).h _ _ _ _ ho))⟩
      have t := rest _ e1 hs' hn1
      simp only [wp_bind] at t ⊢
      exact t
    · rw [if_neg hlt]
      simp only [wp_bind]
      refine wp_lb_any S U (fun a l ns ho => ?_) trivial
      obtain ⟨e1, h1, hn1⟩ := g1.notifs S U ns
      have hs' : AccI c0 t0 ({ s with line := l, changes := s.changes.onNotifs S U.alnum ns } : Ed) e1 :=
        ⟨h1, LB.update_keeps_canGrow S U ho g2,
          C05_log_replay S U.alnum s.changes ns t0 s.line.buf l.buf g3
            (replayNotifs_of_replay ns ((Replays.update S U backup backupPos).h _ _ _ _ ho))⟩
      have t := rest _ e1 hs' (hn1 (hne.resolve_right hlt))
      simp only [wp_bind] at t ⊢
      exact t

/-- **one Undo takes back one closed group**: on a log `End :: body ++ Begin :: rest` (no marker in
    `body`) that replays from `t0` to the text of the line, while `rest` replays from `t0` to `t`,
    `undo 1` succeeds, leaves the text `t` and the stack `rest` -/
theorem undo_one_group (c : Changeset) (body rest : List Change) (t0 t : Text) (lb : LB)
    (hu : c.undos = .end_ :: body ++ .begin :: rest) (hm : ∀ ch ∈ body, ch.isMarker = false)
    (hlog : replayLog c.undos.reverse t0 = some lb.buf) (hrest : replayLog rest.reverse t0 = some t) :
    ∃ c' lb' undone, c.undo S U lb 1 = .ok (c', lb', undone) ∧ lb'.buf = t ∧ c'.undos = rest := by
  have hnest' : ∀ b : List Change, (∀ ch ∈ b, ch.isMarker = false) → Nested b := by
    intro b
    induction b with
    | nil => intro _; exact .nil
    | cons ch l ih =>
      intro hb
      exact .change ch l (hb ch (List.mem_cons_self ..)) (ih (fun x hx => hb x (List.mem_cons_of_mem _ hx)))
  have hnest : Nested body := hnest' body hm
  have hsplit : c.undos = (.end_ :: body ++ [.begin]) ++ rest := by rw [hu]; simp
  rw [hsplit] at hlog
  obtain ⟨lb', h1, h2⟩ := undoAll_replay S U _ rest t0 lb.buf lb hlog rfl
  rw [hrest] at h2
  obtain ⟨lvl, h3⟩ := C05_undo_unit_model S U _ rest c.redos (UndoUnit.group body hnest) lb lb' c.level h1
  refine ⟨{ level := lvl, undos := rest, redos := (Change.end_ :: body ++ [Change.begin]).reverse ++ c.redos }, lb',
    (Change.end_ :: body ++ [Change.begin]).any (fun c => !c.isMarker), ?_, (Option.some.inj h2).symm, rfl⟩
  unfold Changeset.undo
  rw [hsplit, h3]
end Rl
