/-
  `At::BeforeEnd` word targets (vi `e` / `E`) for a count of 1: the model's `next_word_pos` computes the
  declarative target.  (Counts > 1 are the known finding F-C04-vi-e-count.)
-/
import Rl.Lemmas.Motion
namespace Rl
open Rl.Spec

/-- offsets of the clusters `x` with `P x y` for adjacent clusters `x y` -/
def pairOffsL (P : Text → Text → Bool) : List (Nat × Text) → List Nat
  | [] => []
  | [_] => []
  | (i, x) :: (j, y) :: r => if P x y then i :: pairOffsL P ((j, y) :: r) else pairOffsL P ((j, y) :: r)

/-- inner loop of `next_word_pos` for `At::BeforeEnd`, Vi / Big words: finds the first pair, answers the
    offset of its first cluster -/
theorem nwInner_beforeEnd (U : UData) (d : Word) (hd : d ≠ .emacs) (g : Nat × Text) (L : List (Nat × Text)) :
    match pairOffsL (isEndOfWord U d) (g :: L) with
    | [] => ∃ gi, LB.nwInner U .beforeEnd d g L = .out gi ∧ some gi = (g :: L).getLast?
    | i :: _ => ∃ gi rest, LB.nwInner U .beforeEnd d g L = .found i gi rest := by
  have hde : (d == Word.emacs) = false := by cases d <;> simp at hd ⊢
  induction L generalizing g with
  | nil => simp [pairOffsL, LB.nwInner]
  | cons h r ih =>
    obtain ⟨i, x⟩ := g
    obtain ⟨j, y⟩ := h
    by_cases hp : isEndOfWord U d x y = true
    · simp only [pairOffsL, hp, if_true]
      exact ⟨(i, x), r, by simp [LB.nwInner, hp, hde]⟩
    · have hp' : isEndOfWord U d x y = false := by simpa using hp
      have := ih (j, y)
      simp only [pairOffsL, hp', Bool.false_eq_true, if_false]
      cases hq : pairOffsL (isEndOfWord U d) ((j, y) :: r) with
      | nil =>
        rw [hq] at this
        simp only at this ⊢
        obtain ⟨gi, h1, h2⟩ := this
        exact ⟨gi, by simp [LB.nwInner, hp', h1], by rw [h2]; simp⟩
      | cons j' js =>
        rw [hq] at this
        simp only at this ⊢
        obtain ⟨gi, rest, h1⟩ := this
        exact ⟨gi, rest, by simp [LB.nwInner, hp', h1]⟩

theorem pairOffsL_gidxGo (P : Text → Text → Bool) (o k : Nat) (gs : List Text) :
    pairOffsL P (gidxGo o gs) = (pairIdx P k gs).map (fun j => o + offOf gs (j - k - 1)) := by
  induction gs generalizing o k with
  | nil => simp [pairIdx, gidxGo, pairOffsL]
  | cons x t ih =>
    cases t with
    | nil => simp [pairIdx, gidxGo, pairOffsL]
    | cons y r =>
      have hih := ih (o + blen x) (k + 1)
      have hmap : (pairIdx P (k + 1) (y :: r)).map (fun j => o + blen x + offOf (y :: r) (j - (k + 1) - 1)) =
          (pairIdx P (k + 1) (y :: r)).map (fun j => o + offOf (x :: y :: r) (j - k - 1)) := by
        apply List.map_congr_left
        intro j hj
        have := pairIdx_ge P (k + 1) (y :: r) j hj
        have he : j - k - 1 = (j - (k + 1) - 1) + 1 := by omega
        rw [he, offOf_cons_succ]; omega
      simp only [gidxGo] at hih ⊢
      simp only [pairOffsL, pairIdx]
      split
      · simp only [List.map_cons, hih, hmap]
        congr 1
        have : k + 1 - k - 1 = 0 := by omega
        rw [this]; simp [offOf]
      · rw [hih, hmap]

/-- the word ends at cluster index ≥ 2 are the word ends of the tail -/
theorem pairIdx_filter_ge2 (P : Text → Text → Bool) (g0 : Text) (t : List Text) :
    (pairIdx P 0 (g0 :: t)).filter (· ≥ 2) = pairIdx P 1 t := by
  have hall : (pairIdx P 1 t).filter (· ≥ 2) = pairIdx P 1 t := by
    apply List.filter_eq_self.mpr
    intro j hj
    have := pairIdx_ge P 1 t j hj
    simp; omega
  cases t with
  | nil => simp [pairIdx]
  | cons y r =>
    simp only [pairIdx]
    split
    · simp only [Nat.zero_add]
      rw [List.filter_cons_of_neg (by simp), hall]
    · simpa using hall

/-- vi `e` / `E` with a count of 1: the model's `next_word_pos(pos, BeforeEnd, Vi|Big, 1)` is the declarative
    target — the start of the last cluster of the first word that ends at least one cluster after the cursor
    cluster; with no such word end, the start of the last cluster of the text; nowhere when the cursor is on
    the last cluster or at the end -/
theorem nextWordPos_beforeEnd_one (S : Segmenter) (U : UData) (lb : LB) (d : Word) (h : WF lb)
    (hd : d ≠ .emacs) :
    LB.nextWordPos S U lb lb.pos .beforeEnd d 1 =
      .ok (wordTargetFwd S U lb.buf lb.pos .beforeEnd d 1 true) := by
  obtain ⟨x, s, hb, hp⟩ := h.split
  have hsp : splitAtByte lb.buf lb.pos = some (x, s) := by rw [hb, hp]; exact splitAtByte_append x s
  have hsf : sliceFrom lb.buf lb.pos = .ok s := by rw [hb, hp]; exact sliceFrom_mid x s
  have hde : (d == Word.emacs) = false := by cases d <;> simp at hd ⊢
  unfold LB.nextWordPos LB.nextWordPosR wordTargetFwd splitAt?
  by_cases hs : s = []
  · have hlen : lb.pos = lb.len := by simp [LB.len, hb, hp, hs]
    have hsp' : splitAtByte lb.buf lb.len = some (x, []) := by rw [← hlen, ← hs]; exact hsp
    simp [hlen, hsp']
    rfl
  · have hne : (lb.pos == lb.len) = false := by
      have : lb.pos ≠ lb.len := by
        intro he; apply hs
        have : blen s = 0 := by simp [LB.len, hb, hp] at he; omega
        exact blen_eq_zero.mp this
      simpa using this
    have hgne : ∀ g ∈ S.seg s, g ≠ [] := S.ne_nil s
    have hse : s.isEmpty = false := by simpa using hs
    have e1 : (At.beforeEnd == At.beforeEnd) = true := by decide
    have e2 : (At.beforeEnd == At.afterEnd) = false := by decide
    cases hseg : S.seg s with
    | nil => exact absurd hseg (seg_ne_nil S hs)
    | cons g0 t =>
      have hg0 : 0 < blen g0 := blen_pos_of_ne_nil (hgne g0 (by rw [hseg]; simp))
      simp only [hne, hsf, hsp, bind, Except.bind, pure, Except.pure, hse, gidx, hseg, gidxGo, e1, e2, hde,
        if_true, List.head?_cons, List.drop_succ_cons, List.drop_zero, pairIdx_filter_ge2,
        Bool.false_eq_true, if_false, Bool.or_false, Bool.not_true]
      cases t with
      | nil => simp [LB.nwOuter, pairIdx, gidxGo]
      | cons g1 t' =>
        have hin := nwInner_beforeEnd U d hd (0 + blen g0, g1) (gidxGo (0 + blen g0 + blen g1) t')
        have hC := pairOffsL_gidxGo (isEndOfWord U d) (0 + blen g0) 1 (g1 :: t')
        simp only [gidxGo] at hC
        rw [hC] at hin
        cases hpi : pairIdx (isEndOfWord U d) 1 (g1 :: t') with
        | nil =>
          rw [hpi] at hin
          simp only [List.map_nil] at hin
          obtain ⟨gi, h1, h2⟩ := hin
          simp only [LB.nwOuter, h1, gidxGo]
          have hl := gidxGo_getLast? (0 + blen g0) (g1 :: t')
          simp only [gidxGo] at hl
          rw [hl] at h2
          cases hlast : (g1 :: t').getLast? with
          | none => simp at hlast
          | some gl =>
            rw [hlast] at h2
            simp only [Option.map_some, Option.some.injEq] at h2
            subst h2
            have hoff : offOf (g0 :: g1 :: t') (t'.length + 1) = blen g0 + offOf (g1 :: t') t'.length :=
              offOf_cons_succ _ _ _
            have hg0' : blen g0 ≠ 0 := by omega
            simp [hoff, hg0']
            omega
        | cons j js =>
          rw [hpi] at hin
          simp only [List.map_cons] at hin
          obtain ⟨gi, rest, h1⟩ := hin
          simp only [LB.nwOuter, h1, gidxGo]
          have hj : 2 ≤ j := pairIdx_ge _ 1 _ j (by rw [hpi]; simp)
          have he : j - 1 = (j - 1 - 1) + 1 := by omega
          have hoff : offOf (g0 :: g1 :: t') (j - 1) = blen g0 + offOf (g1 :: t') (j - 1 - 1) := by
            rw [he, offOf_cons_succ]; simp
          have hg0' : blen g0 ≠ 0 := by omega
          simp [hoff, hg0']
          omega

end Rl
