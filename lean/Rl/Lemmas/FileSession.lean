/-
  Helper lemmas for property C11 (sessions sharing one history file): Rl/FileSession.lean.
-/
import Rl.FileSession
import Rl.Spec.FileSession
import Rl.Lemmas.History
import Rl.Lemmas.HistFile
import Rl.Props.C09
namespace Rl.FS
open Rl Rl.Spec

/-! ### state updates -/

@[simp] theorem setSess_same (s : Sys) (i : Nat) (x : Sess) : (s.setSess i x).sess i = x := by
  simp [Sys.setSess]
theorem setSess_other (s : Sys) {i j : Nat} (x : Sess) (h : j ≠ i) : (s.setSess i x).sess j = s.sess j := by
  simp [Sys.setSess, h]
@[simp] theorem setSess_file (s : Sys) (i : Nat) (x : Sess) : (s.setSess i x).file = s.file := rfl
@[simp] theorem setSess_clock (s : Sys) (i : Nat) (x : Sess) : (s.setSess i x).clock = s.clock := rfl
@[simp] theorem write_file (s : Sys) (c : List Atom) (mt : Nat) :
    (s.write c mt).file = some { content := c, mtime := mt } := rfl
@[simp] theorem write_sess (s : Sys) (c : List Atom) (mt : Nat) : (s.write c mt).sess = s.sess := rfl
@[simp] theorem write_clock (s : Sys) (c : List Atom) (mt : Nat) : (s.write c mt).clock = max s.clock mt := rfl

/-! ### entries are never empty -/

def NonEmpty (es : List Text) : Prop := ∀ e ∈ es, e ≠ []

theorem NonEmpty.append {a b : List Text} (ha : NonEmpty a) (hb : NonEmpty b) : NonEmpty (a ++ b) := by
  intro e he
  rcases List.mem_append.mp he with h | h
  · exact ha e h
  · exact hb e h

theorem NonEmpty.drop {a : List Text} (ha : NonEmpty a) (k : Nat) : NonEmpty (a.drop k) :=
  fun e he => ha e (List.mem_of_mem_drop he)

theorem mem_add_nonempty (ws : Char → Bool) (m : MemHist) (l : Text) (h : NonEmpty m.entries) :
    NonEmpty (m.add ws l).1.entries := by
  unfold MemHist.add
  split
  · exact h
  · rename_i hig
    have hl : l ≠ [] := by
      intro hl; subst hl
      apply hig
      unfold MemHist.ignore; split <;> simp
    simp only [MemHist.insert]
    apply NonEmpty.append
    · split
      · exact h.drop 1
      · exact h
    · intro e he; simp at he; subst he; exact hl

theorem add_nonempty (ws : Char → Bool) (f : FileHist) (l : Text) (h : NonEmpty f.mem.entries) :
    NonEmpty (f.add ws l).1.mem.entries := by
  rw [(FileHist.add_mem ws f l).1]; exact mem_add_nonempty ws f.mem l h

theorem addAll_nonempty (ws : Char → Bool) (ls : List Text) (f : FileHist) (h : NonEmpty f.mem.entries) :
    NonEmpty (addAll ws f ls).mem.entries := by
  induction ls generalizing f with
  | nil => exact h
  | cons l ls ih => exact ih _ (add_nonempty ws f l h)

theorem newOnes_nonempty (f : FileHist) (h : NonEmpty f.mem.entries) : NonEmpty (newOnes f) :=
  h.drop _

/-- `addAll` looks at the `mem` part only -/
theorem addAll_mem_congr (ws : Char → Bool) (ls : List Text) (f g : FileHist) (h : f.mem = g.mem) :
    (addAll ws f ls).mem = (addAll ws g ls).mem := by
  induction ls generalizing f g with
  | nil => exact h
  | cons l ls ih =>
    apply ih
    rw [(FileHist.add_mem ws f l).1, (FileHist.add_mem ws g l).1, h]

/-- the file `fileOf es` followed by the lines of `news` is the file of `es ++ news` -/
theorem fileOf_append_lines (es news : List Text) :
    atomsOf (fileOf es) ++ atomsOf (linesOf news) = atomsOf (fileOf (es ++ news)) := by
  simp [fileOf, linesOf, atomsOf]

/-- loading a file this library wrote: status ok, the entries are added one by one -/
theorem loadFrom_fileOf_ok (ws : Char → Bool) (es : List Text) (hne : NonEmpty es) (h : FileHist) :
    loadFrom ws (atomsOf (fileOf es)) h
      = { h := { addAll ws h es with newEntries := 0 }, status := .ok, appendable := acceptAll ws h es } := by
  have := loadFrom_fileOf ws es hne [] h
  rw [List.append_nil] at this
  rw [this]
  simp [splitLines, loadLines]

/-! ### the file is always one this library wrote -/

/-- the file holds exactly what `save_to` writes for `es` -/
def FileIs (s : Sys) (es : List Text) : Prop := ∃ m, s.file = some { content := atomsOf (fileOf es), mtime := m }

def WellFormed (s : Sys) : Prop :=
  (s.file = none ∨ ∃ es, FileIs s es ∧ NonEmpty es) ∧ ∀ i, NonEmpty (s.sess i).fh.mem.entries

/-- What `append` by session `x` makes of a file holding `es` with modification time `fm`:
    the entries of the new file and the size `update_path` records. -/
def appendOut (ws : Char → Bool) (x : Sess) (fm : Nat) (es : List Text) : List Text × Nat :=
  let h := x.fh
  if h.newEntries == h.mem.maxLen then (h.mem.entries, h.mem.entries.length)
  else if canJustAppend x { content := atomsOf (fileOf es), mtime := fm } then
    (es ++ newOnes h, (x.pathInfo.map (·.2)).getD 0 + h.newEntries)
  else
    let other := addAll ws { addAll ws (freshHist h) es with newEntries := 0 } (newOnes h)
    (other.mem.entries, other.mem.entries.length)

/-- the state after a write of the entries `es'` by session `i` -/
def Sys.wrote (s : Sys) (i : Nat) (es' : List Text) (mt size : Nat) : Sys :=
  (s.write (atomsOf (fileOf es')) mt).setSess i
    { fh := { (s.sess i).fh with newEntries := 0 }, pathInfo := some (mt, size) }

theorem save_eq (s : Sys) (i mt : Nat)
    (hnew : ((s.sess i).fh.mem.entries.isEmpty || (s.sess i).fh.newEntries == 0) = false) :
    s.save i mt = (s.wrote i (s.sess i).fh.mem.entries mt (s.sess i).fh.mem.entries.length, .ok) := by
  simp only [Sys.save, hnew, Bool.false_eq_true, if_false, Sys.saveWrite, Sys.wrote]

/-- `append` on a file this library wrote, when there is something new: one write -/
theorem append_eq (ws : Char → Bool) (s : Sys) (i mt fm : Nat) (es : List Text)
    (hf : s.file = some { content := atomsOf (fileOf es), mtime := fm }) (hne : NonEmpty es)
    (hnew : ((s.sess i).fh.mem.entries.isEmpty || (s.sess i).fh.newEntries == 0) = false) :
    s.append ws i mt
      = (s.wrote i (appendOut ws (s.sess i) fm es).1 mt (appendOut ws (s.sess i) fm es).2, .ok) := by
  unfold Sys.append appendOut
  simp only [hnew, Bool.false_eq_true, if_false, hf]
  by_cases hmax : ((s.sess i).fh.newEntries == (s.sess i).fh.mem.maxLen) = true
  · simp only [hmax, if_true]; exact save_eq s i mt hnew
  · simp only [hmax, Bool.false_eq_true, if_false]
    unfold Sys.appendLocked
    by_cases hc : canJustAppend (s.sess i) { content := atomsOf (fileOf es), mtime := fm } = true
    · simp only [hc, if_true, Sys.wrote, fileOf_append_lines]
    · simp only [hc, Bool.false_eq_true, if_false, loadFrom_fileOf_ok ws es hne, Sys.wrote]
      simp

/-- `append` when there is no file: a `save` -/
theorem append_missing (ws : Char → Bool) (s : Sys) (i mt : Nat) (hf : s.file = none)
    (hnew : ((s.sess i).fh.mem.entries.isEmpty || (s.sess i).fh.newEntries == 0) = false) :
    s.append ws i mt = (s.wrote i (s.sess i).fh.mem.entries mt (s.sess i).fh.mem.entries.length, .ok) := by
  unfold Sys.append
  simp only [hnew, Bool.false_eq_true, if_false, hf]
  exact save_eq s i mt hnew

theorem append_nothing (ws : Char → Bool) (s : Sys) (i mt : Nat)
    (hnew : ((s.sess i).fh.mem.entries.isEmpty || (s.sess i).fh.newEntries == 0) = true) :
    s.append ws i mt = (s, .ok) := by
  unfold Sys.append; simp only [hnew, if_true]

theorem save_nothing (s : Sys) (i mt : Nat)
    (hnew : ((s.sess i).fh.mem.entries.isEmpty || (s.sess i).fh.newEntries == 0) = true) :
    s.save i mt = (s, .ok) := by
  unfold Sys.save; simp only [hnew, if_true]

theorem appendOut_nonempty (ws : Char → Bool) (x : Sess) (fm : Nat) (es : List Text)
    (hx : NonEmpty x.fh.mem.entries) (hes : NonEmpty es) : NonEmpty (appendOut ws x fm es).1 := by
  unfold appendOut
  by_cases h1 : (x.fh.newEntries == x.fh.mem.maxLen) = true
  · simp only [h1, if_true]; exact hx
  · simp only [h1, Bool.false_eq_true, if_false]
    by_cases h2 : canJustAppend x { content := atomsOf (fileOf es), mtime := fm } = true
    · simp only [h2, if_true]; exact hes.append (newOnes_nonempty _ hx)
    · simp only [h2, Bool.false_eq_true, if_false]
      apply addAll_nonempty
      apply addAll_nonempty
      simp [freshHist, FileHist.new, MemHist.new, NonEmpty]

theorem wrote_wellFormed (s : Sys) (i : Nat) (es' : List Text) (mt size : Nat)
    (hw : WellFormed s) (hes : NonEmpty es') : WellFormed (s.wrote i es' mt size) := by
  refine ⟨Or.inr ⟨es', ⟨mt, rfl⟩, hes⟩, fun j => ?_⟩
  by_cases hj : j = i
  · subst hj; simp only [Sys.wrote, setSess_same]; exact hw.2 j
  · simp only [Sys.wrote, setSess_other _ _ hj, write_sess]; exact hw.2 j

theorem setSess_wellFormed (s : Sys) (i : Nat) (x : Sess) (hw : WellFormed s)
    (hx : NonEmpty x.fh.mem.entries) : WellFormed (s.setSess i x) := by
  refine ⟨hw.1, fun j => ?_⟩
  by_cases hj : j = i
  · subst hj; simpa using hx
  · rw [setSess_other _ _ hj]; exact hw.2 j

theorem newFlag (s : Sys) (i : Nat) :
    ((s.sess i).fh.mem.entries.isEmpty || (s.sess i).fh.newEntries == 0) = true ∨
    ((s.sess i).fh.mem.entries.isEmpty || (s.sess i).fh.newEntries == 0) = false := by
  cases ((s.sess i).fh.mem.entries.isEmpty || (s.sess i).fh.newEntries == 0) <;> simp

theorem append_wellFormed (ws : Char → Bool) (s : Sys) (i mt : Nat) (hw : WellFormed s) :
    WellFormed (s.append ws i mt).1 ∧ (s.append ws i mt).2 = .ok := by
  rcases newFlag s i with hnew | hnew
  · rw [append_nothing ws s i mt hnew]; exact ⟨hw, rfl⟩
  · rcases hw.1 with hnone | ⟨es, ⟨fm, hf⟩, hne⟩
    · rw [append_missing ws s i mt hnone hnew]
      exact ⟨wrote_wellFormed s i _ mt _ hw (hw.2 i), rfl⟩
    · rw [append_eq ws s i mt fm es hf hne hnew]
      exact ⟨wrote_wellFormed s i _ mt _ hw (appendOut_nonempty ws _ fm es (hw.2 i) hne), rfl⟩

theorem save_wellFormed (s : Sys) (i mt : Nat) (hw : WellFormed s) :
    WellFormed (s.save i mt).1 ∧ (s.save i mt).2 = .ok := by
  rcases newFlag s i with hnew | hnew
  · rw [save_nothing s i mt hnew]; exact ⟨hw, rfl⟩
  · rw [save_eq s i mt hnew]
    exact ⟨wrote_wellFormed s i _ mt _ hw (hw.2 i), rfl⟩

theorem load_wellFormed (ws : Char → Bool) (s : Sys) (i : Nat) (hw : WellFormed s) :
    WellFormed (s.load ws i).1 ∧ ((s.load ws i).2 = .ok ∨ (s.file = none ∧ (s.load ws i).2 = .io)) := by
  rcases hw.1 with hnone | ⟨es, ⟨fm, hf⟩, hne⟩
  · refine ⟨?_, Or.inr ⟨hnone, ?_⟩⟩ <;> simp only [Sys.load, hnone]
    exact hw
  · simp only [Sys.load, hf, loadFrom_fileOf_ok ws es hne, if_true]
    have hx : NonEmpty (addAll ws (s.sess i).fh es).mem.entries := addAll_nonempty ws es _ (hw.2 i)
    split
    · exact ⟨setSess_wellFormed s i _ hw hx, Or.inl rfl⟩
    · exact ⟨setSess_wellFormed s i _ hw hx, Or.inl rfl⟩

theorem add_wellFormed (ws : Char → Bool) (s : Sys) (i : Nat) (l : Text) (hw : WellFormed s) :
    WellFormed (s.add ws i l).1 :=
  setSess_wellFormed s i _ hw (add_nonempty ws _ l (hw.2 i))

theorem touch_wellFormed (s : Sys) (mt : Nat) (hw : WellFormed s) : WellFormed (s.touch mt) := by
  rcases hw.1 with hnone | ⟨es, ⟨fm, hf⟩, hne⟩
  · simp only [Sys.touch, hnone]; exact hw
  · simp only [Sys.touch, hf]
    exact ⟨Or.inr ⟨es, ⟨mt, rfl⟩, hne⟩, hw.2⟩

theorem step_wellFormed (ws : Char → Bool) (s : Sys) (op : Op) (hw : WellFormed s) :
    WellFormed (s.step ws op).1 := by
  cases op with
  | load i => exact (load_wellFormed ws s i hw).1
  | add i l => exact add_wellFormed ws s i l hw
  | append i mt => exact (append_wellFormed ws s i mt hw).1
  | save i mt => exact (save_wellFormed s i mt hw).1
  | touch mt => exact touch_wellFormed s mt hw

theorem run_wellFormed (ws : Char → Bool) (ops : List Op) (s : Sys) (hw : WellFormed s) :
    WellFormed (s.run ws ops) := by
  induction ops generalizing s with
  | nil => exact hw
  | cons op ops ih => exact ih _ (step_wellFormed ws s op hw)

/-! ### the store, as the declarative acceptance rule -/

def cfgOf (m : MemHist) : Spec.FS.Cfg := { max := m.maxLen, isp := m.ignoreSpace, idp := m.ignoreDups }

theorem refused_eq_ignore (ws : Char → Bool) (h : MemHist) (l : Text) :
    Spec.refused ws { entries := h.entries, max := h.maxLen, ignoreSpace := h.ignoreSpace,
                      ignoreDups := h.ignoreDups } l = h.ignore ws l := by
  unfold Spec.refused MemHist.ignore
  cases l with
  | nil => simp
  | cons c t =>
    by_cases hm : h.maxLen = 0
    · simp [hm]
    · cases hsp : h.ignoreSpace <;> cases hd : h.ignoreDups <;> simp [hm]
      · cases hl : h.entries.getLast? <;> simp [eq_comm]
        rename_i v; by_cases hv : v = c :: t <;> simp [hv]
      · cases hw : ws c <;> simp
        cases hl : h.entries.getLast? <;> simp [eq_comm]
        rename_i v; by_cases hv : v = c :: t <;> simp [hv]

theorem mem_add_spec (ws : Char → Bool) (m : MemHist) (hi : m.entries.length ≤ m.maxLen) (l : Text) :
    (m.add ws l).1.entries = (Spec.FS.accept ws (cfgOf m) m.entries l).getD m.entries ∧
    (m.add ws l).2 = (Spec.FS.accept ws (cfgOf m) m.entries l).isSome ∧
    cfgOf (m.add ws l).1 = cfgOf m ∧ (m.add ws l).1.entries.length ≤ (m.add ws l).1.maxLen := by
  have hr := refused_eq_ignore ws m l
  unfold Spec.FS.accept cfgOf
  simp only [hr]
  cases hg : m.ignore ws l
  · have ha : (m.add ws l).2 = true := by simp [MemHist.add, hg]
    have hacc := C09_add_accepted ws m l hi ha
    have hadd' : m.add ws l = (m.insert l, true) := by simp [MemHist.add, hg]
    have hm : m.maxLen ≠ 0 := fun hm => by
      have := ignore_of_max_zero ws m l hm; rw [hg] at this; cases this
    refine ⟨by simpa using hacc, by simp [ha], ?_, ?_⟩
    · rw [hadd']; simp [MemHist.insert]
    · rw [hadd']; exact insert_inv hi hm l
  · have hadd' : m.add ws l = (m, false) := by simp [MemHist.add, hg]
    rw [hadd']; simp [hi]

/-- adding lines one by one = folding the declarative rule -/
theorem addAll_spec (ws : Char → Bool) (ls : List Text) (f : FileHist)
    (hi : f.mem.entries.length ≤ f.mem.maxLen) :
    (addAll ws f ls).mem.entries = Spec.FS.addsTo ws (cfgOf f.mem) f.mem.entries ls ∧
    cfgOf (addAll ws f ls).mem = cfgOf f.mem ∧
    (addAll ws f ls).mem.entries.length ≤ (addAll ws f ls).mem.maxLen := by
  induction ls generalizing f with
  | nil => exact ⟨rfl, rfl, hi⟩
  | cons l ls ih =>
    have hm := (FileHist.add_mem ws f l).1
    obtain ⟨h1, _, h3, h4⟩ := mem_add_spec ws f.mem hi l
    have := ih (f.add ws l).1 (by rw [hm]; exact h4)
    simp only [addAll]
    rw [hm] at this
    refine ⟨?_, ?_, this.2.2⟩
    · rw [this.1, h3, h1]; simp [Spec.FS.addsTo]
    · rw [this.2.1, h3]

theorem addsTo_append (ws : Char → Bool) (c : Spec.FS.Cfg) (m a b : List Text) :
    Spec.FS.addsTo ws c m (a ++ b) = Spec.FS.addsTo ws c (Spec.FS.addsTo ws c m a) b := by
  simp [Spec.FS.addsTo, List.foldl_append]

/-! ### the shape of an append -/

/-- what the code maintains about one session: the size bound of the store and `new_entries <= len` -/
def SessOk (x : Sess) : Prop :=
  x.fh.mem.entries.length ≤ x.fh.mem.maxLen ∧ x.fh.newEntries ≤ x.fh.mem.entries.length

theorem newOnes_length (f : FileHist) (h : f.newEntries ≤ f.mem.entries.length) :
    (newOnes f).length = f.newEntries := by
  simp [newOnes]; omega

theorem slow_entries (ws : Char → Bool) (h : FileHist) (es news : List Text) :
    (addAll ws { addAll ws (freshHist h) es with newEntries := 0 } news).mem
      = (addAll ws (freshHist h) (es ++ news)).mem := by
  rw [addAll_append]
  exact addAll_mem_congr ws news _ _ rfl

theorem appendOut_cases (ws : Char → Bool) (x : Sess) (fm : Nat) (es : List Text) (hx : SessOk x) :
    (appendOut ws x fm es).1 = es ++ newOnes x.fh ∨
    (appendOut ws x fm es).1 = Spec.FS.addsTo ws (cfgOf x.fh.mem) [] (es ++ newOnes x.fh) ∨
    ((newOnes x.fh).length = x.fh.mem.maxLen ∧ (appendOut ws x fm es).1 = newOnes x.fh) := by
  unfold appendOut
  by_cases h1 : (x.fh.newEntries == x.fh.mem.maxLen) = true
  · simp only [h1, if_true]
    right; right
    have h1' : x.fh.newEntries = x.fh.mem.maxLen := by simpa using h1
    have hlen : x.fh.mem.entries.length = x.fh.newEntries := by have := hx.1; have := hx.2; omega
    refine ⟨by rw [newOnes_length _ hx.2, h1'], ?_⟩
    simp [newOnes, hlen]
  · simp only [h1, Bool.false_eq_true, if_false]
    by_cases h2 : canJustAppend x { content := atomsOf (fileOf es), mtime := fm } = true
    · simp only [h2, if_true]; left; trivial
    · simp only [h2, Bool.false_eq_true, if_false]
      right; left
      rw [slow_entries]
      have := addAll_spec ws (es ++ newOnes x.fh) (freshHist x.fh)
        (by simp [freshHist, FileHist.new, MemHist.new])
      rw [this.1]
      simp [freshHist, FileHist.new, MemHist.new, cfgOf]

theorem appendOut_shapeOk (ws : Char → Bool) (x : Sess) (fm : Nat) (es : List Text) (hx : SessOk x) :
    Spec.FS.shapeOk ws (cfgOf x.fh.mem) es (newOnes x.fh) (appendOut ws x fm es).1 = true := by
  unfold Spec.FS.shapeOk
  rcases appendOut_cases ws x fm es hx with h | h | ⟨h1, h2⟩
  · simp [h]
  · simp [h]
  · simp [h1, h2, cfgOf]

/-- while nothing has to go (limit not reached, no equal neighbours under ignore-dups, nothing the
    store refuses) the new file is exactly the old entries followed by the new ones -/
theorem appendOut_fits (ws : Char → Bool) (x : Sess) (fm : Nat) (es : List Text) (hx : SessOk x)
    (hs : Storable ws x.fh.mem.maxLen x.fh.mem.ignoreSpace x.fh.mem.ignoreDups (es ++ newOnes x.fh)) :
    (appendOut ws x fm es).1 = es ++ newOnes x.fh := by
  unfold appendOut
  by_cases h1 : (x.fh.newEntries == x.fh.mem.maxLen) = true
  · simp only [h1, if_true]
    have h1' : x.fh.newEntries = x.fh.mem.maxLen := by simpa using h1
    have hlen : x.fh.mem.entries.length = x.fh.newEntries := by have := hx.1; have := hx.2; omega
    have hn : newOnes x.fh = x.fh.mem.entries := by simp [newOnes, hlen]
    have hl := hs.1
    rw [List.length_append, hn] at hl
    have : es = [] := List.eq_nil_of_length_eq_zero (by omega)
    rw [hn, this]; rfl
  · simp only [h1, Bool.false_eq_true, if_false]
    by_cases h2 : canJustAppend x { content := atomsOf (fileOf es), mtime := fm } = true
    · simp only [h2, if_true]
    · simp only [h2, Bool.false_eq_true, if_false]
      rw [slow_entries]
      have := addAll_storable ws (es ++ newOnes x.fh) [] (freshHist x.fh) rfl
        (by simpa [freshHist, FileHist.new, MemHist.new] using hs)
      simpa using this.1

/-! ### `SessOk` is an invariant -/

def Good (s : Sys) : Prop := WellFormed s ∧ ∀ i, SessOk (s.sess i)

theorem add_sessOk (ws : Char → Bool) (f : FileHist) (l : Text)
    (h : f.mem.entries.length ≤ f.mem.maxLen ∧ f.newEntries ≤ f.mem.entries.length) :
    (f.add ws l).1.mem.entries.length ≤ (f.add ws l).1.mem.maxLen ∧
    (f.add ws l).1.newEntries ≤ (f.add ws l).1.mem.entries.length ∧
    cfgOf (f.add ws l).1.mem = cfgOf f.mem := by
  obtain ⟨_, _, h3, h4⟩ := mem_add_spec ws f.mem h.1 l
  have hm := (FileHist.add_mem ws f l).1
  refine ⟨by rw [hm]; exact h4, ?_, by rw [hm]; exact h3⟩
  unfold FileHist.add
  cases hadd : f.mem.add ws l with
  | mk m ok =>
    cases ok
    · simpa using h.2
    · simp only [if_true]; omega

theorem setSess_good (s : Sys) (i : Nat) (x : Sess) (hg : Good s)
    (hx : NonEmpty x.fh.mem.entries) (hx' : SessOk x) : Good (s.setSess i x) := by
  refine ⟨setSess_wellFormed s i x hg.1 hx, fun j => ?_⟩
  by_cases hj : j = i
  · subst hj; simpa using hx'
  · rw [setSess_other _ _ hj]; exact hg.2 j

theorem wrote_good (s : Sys) (i : Nat) (es' : List Text) (mt size : Nat)
    (hg : Good s) (hes : NonEmpty es') : Good (s.wrote i es' mt size) := by
  refine ⟨wrote_wellFormed s i es' mt size hg.1 hes, fun j => ?_⟩
  by_cases hj : j = i
  · subst hj; simp only [Sys.wrote, setSess_same, SessOk]; exact ⟨(hg.2 j).1, Nat.zero_le _⟩
  · simp only [Sys.wrote, setSess_other _ _ hj, write_sess]; exact hg.2 j

theorem step_good (ws : Char → Bool) (s : Sys) (op : Op) (hg : Good s) : Good (s.step ws op).1 := by
  cases op with
  | load i =>
    simp only [Sys.step]
    rcases hg.1.1 with hnone | ⟨es, ⟨fm, hf⟩, hne⟩
    · simp only [Sys.load, hnone]; exact hg
    · simp only [Sys.load, hf, loadFrom_fileOf_ok ws es hne, if_true]
      have hx : NonEmpty (addAll ws (s.sess i).fh es).mem.entries := addAll_nonempty ws es _ (hg.1.2 i)
      have hb := (addAll_spec ws es (s.sess i).fh (hg.2 i).1).2.2
      split
      · exact setSess_good s i _ hg hx ⟨hb, Nat.zero_le _⟩
      · exact setSess_good s i _ hg hx ⟨hb, Nat.zero_le _⟩
  | add i l =>
    have h := add_sessOk ws (s.sess i).fh l (hg.2 i)
    exact setSess_good s i _ hg (add_nonempty ws _ l (hg.1.2 i)) ⟨h.1, h.2.1⟩
  | append i mt =>
    simp only [Sys.step]
    rcases newFlag s i with hnew | hnew
    · rw [append_nothing ws s i mt hnew]; exact hg
    · rcases hg.1.1 with hnone | ⟨es, ⟨fm, hf⟩, hne⟩
      · rw [append_missing ws s i mt hnone hnew]
        exact wrote_good s i _ mt _ hg (hg.1.2 i)
      · rw [append_eq ws s i mt fm es hf hne hnew]
        exact wrote_good s i _ mt _ hg (appendOut_nonempty ws _ fm es (hg.1.2 i) hne)
  | save i mt =>
    simp only [Sys.step]
    rcases newFlag s i with hnew | hnew
    · rw [save_nothing s i mt hnew]; exact hg
    · rw [save_eq s i mt hnew]
      exact wrote_good s i _ mt _ hg (hg.1.2 i)
  | touch mt => exact ⟨touch_wellFormed s mt hg.1, by
      intro j; simp only [Sys.step, Sys.touch]; split <;> exact hg.2 j⟩

theorem run_good (ws : Char → Bool) (ops : List Op) (s : Sys) (hg : Good s) : Good (s.run ws ops) := by
  induction ops generalizing s with
  | nil => exact hg
  | cons op ops ih => exact ih _ (step_good ws s op hg)

theorem init_good (es : List Text) (m : Nat) (cfg : Nat → Nat × Bool × Bool) (hne : NonEmpty es) :
    Good (Sys.init (some { content := atomsOf (fileOf es), mtime := m }) cfg) := by
  refine ⟨⟨Or.inr ⟨es, ⟨m, rfl⟩, hne⟩, fun i => ?_⟩, fun i => ?_⟩
  · simp [Sys.init, FileHist.new, MemHist.new, NonEmpty]
  · simp [Sys.init, FileHist.new, MemHist.new, SessOk]

theorem init_good_missing (cfg : Nat → Nat × Bool × Bool) : Good (Sys.init none cfg) := by
  refine ⟨⟨Or.inl rfl, fun i => ?_⟩, fun i => ?_⟩
  · simp [Sys.init, FileHist.new, MemHist.new, NonEmpty]
  · simp [Sys.init, FileHist.new, MemHist.new, SessOk]

/-! ### frame: a step of another session leaves session `i` alone; the file never disappears -/

theorem wrote_file_some (s : Sys) (i : Nat) (es' : List Text) (mt size : Nat) :
    (s.wrote i es' mt size).file.isSome = true := rfl

theorem step_file_some (ws : Char → Bool) (s : Sys) (op : Op) (hw : WellFormed s)
    (h : s.file.isSome = true) : (s.step ws op).1.file.isSome = true := by
  cases op with
  | load i =>
    simp only [Sys.step, Sys.load]
    split
    · rename_i hn; rw [hn] at h; cases h
    · rename_i f hf
      split
      · split <;> simp [hf]
      · simp [hf]
  | add i l => exact h
  | append i mt =>
    simp only [Sys.step]
    rcases newFlag s i with hnew | hnew
    · rw [append_nothing ws s i mt hnew]; exact h
    · rcases hw.1 with hnone | ⟨es, ⟨fm, hf⟩, hne⟩
      · rw [hnone] at h; cases h
      · rw [append_eq ws s i mt fm es hf hne hnew]; rfl
  | save i mt =>
    simp only [Sys.step]
    rcases newFlag s i with hnew | hnew
    · rw [save_nothing s i mt hnew]; exact h
    · rw [save_eq s i mt hnew]; rfl
  | touch mt =>
    simp only [Sys.step, Sys.touch]
    split
    · rename_i hn; rw [hn] at h; cases h
    · rfl

theorem run_file_some (ws : Char → Bool) (ops : List Op) (s : Sys) (hw : WellFormed s)
    (h : s.file.isSome = true) : (s.run ws ops).file.isSome = true := by
  induction ops generalizing s with
  | nil => exact h
  | cons op ops ih => exact ih _ (step_wellFormed ws s op hw) (step_file_some ws s op hw h)

/-- the operation is one of session `i` -/
def opOf (i : Nat) : Op → Bool
  | .load j | .add j _ | .append j _ | .save j _ => j == i
  | .touch _ => false

theorem load_other (ws : Char → Bool) (s : Sys) {i j : Nat} (h : i ≠ j) : (s.load ws j).1.sess i = s.sess i := by
  unfold Sys.load
  cases hf : s.file with
  | none => rfl
  | some f =>
    simp only []
    split
    · split <;> exact setSess_other _ _ h
    · exact setSess_other _ _ h

theorem save_other (s : Sys) {i j : Nat} (mt : Nat) (h : i ≠ j) : (s.save j mt).1.sess i = s.sess i := by
  rcases newFlag s j with hnew | hnew
  · rw [save_nothing s j mt hnew]
  · rw [save_eq s j mt hnew]; simp only [Sys.wrote]; rw [setSess_other _ _ h]; rfl

theorem append_other (ws : Char → Bool) (s : Sys) {i j : Nat} (mt : Nat) (h : i ≠ j) :
    (s.append ws j mt).1.sess i = s.sess i := by
  unfold Sys.append
  simp only []
  split
  · rfl
  · cases hf : s.file with
    | none => exact save_other s mt h
    | some f =>
      simp only []
      split
      · exact save_other s mt h
      · unfold Sys.appendLocked
        simp only []
        split
        · simp only []; rw [setSess_other _ _ h]; rfl
        · split
          · rfl
          · simp only []; rw [setSess_other _ _ h]; rfl

/-- a step that is not one of session `i` leaves session `i` exactly as it is -/
theorem step_other (ws : Char → Bool) (s : Sys) (i : Nat) (op : Op) (h : opOf i op = false) :
    ((s.step ws op).1.sess i) = s.sess i := by
  cases op with
  | load j =>
    have hij : i ≠ j := by intro e; subst e; simp [opOf] at h
    exact load_other ws s hij
  | add j l =>
    have hij : i ≠ j := by intro e; subst e; simp [opOf] at h
    exact setSess_other _ _ hij
  | append j mt =>
    have hij : i ≠ j := by intro e; subst e; simp [opOf] at h
    exact append_other ws s mt hij
  | save j mt =>
    have hij : i ≠ j := by intro e; subst e; simp [opOf] at h
    exact save_other s mt hij
  | touch mt => simp only [Sys.step, Sys.touch]; split <;> rfl

/-! ### the size bound when modification times are distinguishable -/

theorem canJustAppend_iff (x : Sess) (f : FileVal) :
    canJustAppend x f = true ↔ ∃ pm size, x.pathInfo = some (pm, size) ∧ pm = f.mtime ∧
      size < x.fh.mem.maxLen ∧ size + x.fh.newEntries ≤ x.fh.mem.maxLen := by
  unfold canJustAppend
  cases hp : x.pathInfo with
  | none => simp
  | some p =>
    obtain ⟨pm, size⟩ := p
    simp only [Option.some.injEq, Prod.mk.injEq]
    constructor
    · intro h
      refine ⟨pm, size, ⟨rfl, rfl⟩, ?_⟩
      simp at h
      omega
    · rintro ⟨pm', size', ⟨rfl, rfl⟩, h1, h2, h3⟩
      simp; omega

theorem acceptAll_length (ws : Char → Bool) (es : List Text) (f : FileHist)
    (hi : f.mem.entries.length ≤ f.mem.maxLen) (ha : acceptAll ws f es = true) :
    (addAll ws f es).mem.entries.length = min (f.mem.entries.length + es.length) f.mem.maxLen := by
  induction es generalizing f with
  | nil => simp [addAll]; omega
  | cons e es ih =>
    simp only [acceptAll, Bool.and_eq_true] at ha
    have hm := FileHist.add_mem ws f e
    have hacc := C09_add_accepted ws f.mem e hi (by rw [← hm.2]; exact ha.1)
    obtain ⟨_, _, h3, h4⟩ := mem_add_spec ws f.mem hi e
    have hmax : (f.add ws e).1.mem.maxLen = f.mem.maxLen := by
      rw [hm.1]; have := congrArg Spec.FS.Cfg.max h3; simpa [cfgOf] using this
    have hlen : (f.add ws e).1.mem.entries.length = min (f.mem.entries.length + 1) f.mem.maxLen := by
      rw [hm.1, hacc]; simp [Spec.takeLast]; omega
    have := ih (f.add ws e).1 (by rw [hm.1]; exact h4) ha.2
    simp only [addAll, List.length_cons]
    rw [this, hlen, hmax]; omega

/-- every remembered (modification time, size) pair that still matches the file is right about
    the number of entries (or already says "full") -/
def Accurate (s : Sys) : Prop :=
  ∃ F fm, s.file = some { content := atomsOf (fileOf F), mtime := fm } ∧ NonEmpty F ∧ fm ≤ s.clock ∧
    ∀ j pm size, (s.sess j).pathInfo = some (pm, size) →
      pm ≤ s.clock ∧ (pm = fm → size = F.length ∨ (s.sess j).fh.mem.maxLen ≤ size)

/-- the step gets a modification time distinguishable from all earlier ones; loads happen at the
    start of a session; nobody touches the file from outside -/
def Dist (s : Sys) : Op → Prop
  | .append _ mt | .save _ mt => s.clock < mt
  | .touch _ => False
  | .load i => (s.sess i).fh.mem.entries = []
  | .add _ _ => True

def DistRun (ws : Char → Bool) : Sys → List Op → Prop
  | _, [] => True
  | s, op :: ops => Dist s op ∧ DistRun ws (s.step ws op).1 ops

theorem wrote_accurate (s : Sys) (i : Nat) (es' : List Text) (mt size : Nat) (hacc : Accurate s)
    (hes : NonEmpty es') (hmt : s.clock < mt)
    (hsize : size = es'.length ∨ (s.sess i).fh.mem.maxLen ≤ size) : Accurate (s.wrote i es' mt size) := by
  obtain ⟨F, fm, hf, hne, hfm, hall⟩ := hacc
  refine ⟨es', mt, rfl, hes, ?_, fun j pm sz hp => ?_⟩
  · simp only [Sys.wrote, setSess_clock, write_clock]; omega
  · by_cases hj : j = i
    · subst hj
      simp only [Sys.wrote, setSess_same, Option.some.injEq, Prod.mk.injEq] at hp
      obtain ⟨rfl, rfl⟩ := hp
      simp only [Sys.wrote, setSess_same, setSess_clock, write_clock]
      exact ⟨by omega, fun _ => hsize⟩
    · simp only [Sys.wrote, setSess_other _ _ hj, write_sess, setSess_clock, write_clock] at hp ⊢
      have := (hall j pm sz hp).1
      exact ⟨by omega, fun h => by omega⟩

theorem appendOut_bound (ws : Char → Bool) (s : Sys) (i fm : Nat) (F : List Text) (hg : Good s)
    (hall : ∀ pm size, (s.sess i).pathInfo = some (pm, size) →
      (pm = fm → size = F.length ∨ (s.sess i).fh.mem.maxLen ≤ size)) :
    (appendOut ws (s.sess i) fm F).1.length ≤ (s.sess i).fh.mem.maxLen ∧
    (appendOut ws (s.sess i) fm F).2 = (appendOut ws (s.sess i) fm F).1.length := by
  unfold appendOut
  by_cases h1 : ((s.sess i).fh.newEntries == (s.sess i).fh.mem.maxLen) = true
  · simp only [h1, if_true]; exact ⟨(hg.2 i).1, trivial⟩
  · simp only [h1, Bool.false_eq_true, if_false]
    by_cases h2 : canJustAppend (s.sess i) { content := atomsOf (fileOf F), mtime := fm } = true
    · simp only [h2, if_true]
      obtain ⟨pm, size, hp, hpm, hlt, hle⟩ := (canJustAppend_iff _ _).mp h2
      have hsz : size = F.length := by
        rcases hall pm size hp hpm with h | h
        · exact h
        · omega
      simp only [hp, Option.map_some, Option.getD_some, List.length_append,
        newOnes_length _ (hg.2 i).2]
      omega
    · simp only [h2, Bool.false_eq_true, if_false]
      have hs := addAll_spec ws F (freshHist (s.sess i).fh) (by simp [freshHist, FileHist.new, MemHist.new])
      have hs2 := addAll_spec ws (newOnes (s.sess i).fh)
        { addAll ws (freshHist (s.sess i).fh) F with newEntries := 0 } hs.2.2
      have hmax := congrArg Spec.FS.Cfg.max hs2.2.1
      have hmax1 := congrArg Spec.FS.Cfg.max hs.2.1
      simp only [cfgOf] at hmax hmax1
      refine ⟨?_, trivial⟩
      have := hs2.2.2
      rw [hmax, hmax1] at this
      simpa [freshHist, FileHist.new, MemHist.new] using this

theorem step_accurate (ws : Char → Bool) (s : Sys) (op : Op) (hg : Good s) (hacc : Accurate s)
    (hd : Dist s op) : Accurate (s.step ws op).1 := by
  obtain ⟨F, fm, hf, hne, hfm, hall⟩ := hacc
  cases op with
  | touch mt => exact absurd hd (by simp [Dist])
  | add i l =>
    refine ⟨F, fm, hf, hne, hfm, fun j pm size hp => ?_⟩
    by_cases hj : j = i
    · subst hj
      simp only [Sys.step, Sys.add, setSess_same, setSess_clock] at hp ⊢
      have := hall j pm size hp
      have hc := (add_sessOk ws (s.sess j).fh l (hg.2 j)).2.2
      have hmax := congrArg Spec.FS.Cfg.max hc
      simp only [cfgOf] at hmax
      rw [hmax]; exact this
    · simp only [Sys.step, Sys.add, setSess_other _ _ hj, setSess_clock] at hp ⊢
      exact hall j pm size hp
  | load i =>
    simp only [Dist] at hd
    simp only [Sys.step, Sys.load, hf, loadFrom_fileOf_ok ws F hne, if_true]
    have hsp := addAll_spec ws F (s.sess i).fh (hg.2 i).1
    have hmax := congrArg Spec.FS.Cfg.max hsp.2.1
    simp only [cfgOf] at hmax
    split
    · rename_i happ
      refine ⟨F, fm, hf, hne, hfm, fun j pm size hp => ?_⟩
      by_cases hj : j = i
      · subst hj
        simp only [setSess_same, Option.some.injEq, Prod.mk.injEq, setSess_clock] at hp ⊢
        obtain ⟨rfl, rfl⟩ := hp
        refine ⟨hfm, fun _ => ?_⟩
        have hl := acceptAll_length ws F (s.sess j).fh (hg.2 j).1 happ
        rw [hd] at hl ⊢
        simp only [List.length_nil, Nat.zero_add, Nat.sub_zero] at hl ⊢
        rw [hl, hmax]
        by_cases hle : F.length ≤ (s.sess j).fh.mem.maxLen
        · left; omega
        · right; omega
      · simp only [setSess_other _ _ hj, setSess_clock] at hp ⊢
        exact hall j pm size hp
    · refine ⟨F, fm, hf, hne, hfm, fun j pm size hp => ?_⟩
      by_cases hj : j = i
      · subst hj; simp at hp
      · simp only [setSess_other _ _ hj, setSess_clock] at hp ⊢
        exact hall j pm size hp
  | append i mt =>
    simp only [Dist] at hd
    simp only [Sys.step]
    rcases newFlag s i with hnew | hnew
    · rw [append_nothing ws s i mt hnew]; exact ⟨F, fm, hf, hne, hfm, hall⟩
    · rw [append_eq ws s i mt fm F hf hne hnew]
      have hb := appendOut_bound ws s i fm F hg (fun pm size hp => (hall i pm size hp).2)
      exact wrote_accurate s i _ mt _ ⟨F, fm, hf, hne, hfm, hall⟩
        (appendOut_nonempty ws _ fm F (hg.1.2 i) hne) hd (Or.inl hb.2)
  | save i mt =>
    simp only [Dist] at hd
    simp only [Sys.step]
    rcases newFlag s i with hnew | hnew
    · rw [save_nothing s i mt hnew]; exact ⟨F, fm, hf, hne, hfm, hall⟩
    · rw [save_eq s i mt hnew]
      exact wrote_accurate s i _ mt _ ⟨F, fm, hf, hne, hfm, hall⟩ (hg.1.2 i) hd (Or.inl rfl)

theorem run_accurate (ws : Char → Bool) (ops : List Op) (s : Sys) (hg : Good s) (hacc : Accurate s)
    (hd : DistRun ws s ops) : Accurate (s.run ws ops) ∧ Good (s.run ws ops) := by
  induction ops generalizing s with
  | nil => exact ⟨hacc, hg⟩
  | cons op ops ih =>
    exact ih _ (step_good ws s op hg) (step_accurate ws s op hg hacc hd.1) hd.2

theorem init_accurate (es : List Text) (m : Nat) (cfg : Nat → Nat × Bool × Bool) (hne : NonEmpty es) :
    Accurate (Sys.init (some { content := atomsOf (fileOf es), mtime := m }) cfg) :=
  ⟨es, m, rfl, hne, by simp [Sys.init], fun j pm size hp => by simp [Sys.init] at hp⟩

/-- the number of entries is determined by the file -/
theorem fileOf_length_inj {a b : List Text} (h : atomsOf (fileOf a) = atomsOf (fileOf b)) :
    a.length = b.length := by
  have ha := count_nl_linesOf a
  have hb := count_nl_linesOf b
  have : (atomsOf (fileOf a)).count (Atom.chr '\n') = (atomsOf (fileOf b)).count (Atom.chr '\n') := by rw [h]
  have hsplit : ∀ es : List Text, (atomsOf (fileOf es)).count (Atom.chr '\n')
      = 1 + (atomsOf (linesOf es)).count (Atom.chr '\n') := by
    intro es
    have : atomsOf (fileOf es) = atomsOf header ++ Atom.chr '\n' :: atomsOf (linesOf es) := by
      simp [fileOf, atomsOf]
    rw [this, List.count_append, List.count_cons_self]
    have : (atomsOf header).count (Atom.chr '\n') = 0 := by decide
    omega
  rw [hsplit a, hsplit b] at this
  omega

/-! ### the settings of a session never change -/

theorem wrote_cfg (s : Sys) (i : Nat) (es' : List Text) (mt size j : Nat) :
    cfgOf ((s.wrote i es' mt size).sess j).fh.mem = cfgOf (s.sess j).fh.mem := by
  by_cases hj : j = i
  · subst hj; simp [Sys.wrote]
  · simp [Sys.wrote, setSess_other _ _ hj]

theorem step_cfg (ws : Char → Bool) (s : Sys) (op : Op) (hg : Good s) (j : Nat) :
    cfgOf ((s.step ws op).1.sess j).fh.mem = cfgOf (s.sess j).fh.mem := by
  by_cases hop : opOf j op = false
  · rw [step_other ws s j op hop]
  · cases op with
    | touch mt => simp [opOf] at hop
    | load i =>
      have : i = j := by simpa [opOf] using hop
      subst this
      simp only [Sys.step]
      rcases hg.1.1 with hnone | ⟨es, ⟨fm, hf⟩, hne⟩
      · simp only [Sys.load, hnone]
      · simp only [Sys.load, hf, loadFrom_fileOf_ok ws es hne, if_true]
        have := (addAll_spec ws es (s.sess i).fh (hg.2 i).1).2.1
        split <;> simpa using this
    | add i l =>
      have : i = j := by simpa [opOf] using hop
      subst this
      simpa [Sys.step, Sys.add] using (add_sessOk ws (s.sess i).fh l (hg.2 i)).2.2
    | append i mt =>
      simp only [Sys.step]
      rcases newFlag s i with hnew | hnew
      · rw [append_nothing ws s i mt hnew]
      · rcases hg.1.1 with hnone | ⟨es, ⟨fm, hf⟩, hne⟩
        · rw [append_missing ws s i mt hnone hnew]; exact wrote_cfg ..
        · rw [append_eq ws s i mt fm es hf hne hnew]; exact wrote_cfg ..
    | save i mt =>
      simp only [Sys.step]
      rcases newFlag s i with hnew | hnew
      · rw [save_nothing s i mt hnew]
      · rw [save_eq s i mt hnew]; exact wrote_cfg ..

theorem run_cfg (ws : Char → Bool) (ops : List Op) (s : Sys) (hg : Good s) (j : Nat) :
    cfgOf ((s.run ws ops).sess j).fh.mem = cfgOf (s.sess j).fh.mem := by
  induction ops generalizing s with
  | nil => rfl
  | cons op ops ih => rw [Sys.run, ih _ (step_good ws s op hg), step_cfg ws s op hg]

theorem run_maxLen (ws : Char → Bool) (ops : List Op) (file : Option FileVal)
    (cfg : Nat → Nat × Bool × Bool) (hg : Good (Sys.init file cfg)) (j : Nat) :
    (((Sys.init file cfg).run ws ops).sess j).fh.mem.maxLen = (cfg j).1 := by
  have := congrArg Spec.FS.Cfg.max (run_cfg ws ops _ hg j)
  simpa [cfgOf, Sys.init, FileHist.new, MemHist.new] using this

end Rl.FS
