/-
  Refinement lemmas for C20, part 4: the model's session bookkeeping, and the simulation between
  the model and the declarative store over every operation.
-/
import Rl.Lemmas.SqliteRefine3
namespace Rl.Sq
open Rl Rl.Spec.Sq

/-- `Good` plus: with the index on no two rows share (session, line); session ids in use are
    bounded by the `session` table's largest id -/
structure Good2 (h : Hist) : Prop where
  good : Good h
  nodup : h.db.index = true → (h.db.rows.map key).Nodup
  sid : h.sessionId ≤ h.db.sessions
  sess : ∀ x ∈ h.db.rows.map key, x.1 ≤ h.db.sessions

theorem createSession_sessions {h : Hist} (hinit : h.db.init = true) (hidx : h.db.index = h.ignoreDups) :
    h.createSession.db.sessions = (if h.sessionId = 0 then h.db.sessions + 1 else h.db.sessions) := by
  obtain ⟨⟨init, sessions, rows, index⟩, ml, isp, idp, sid, rid⟩ := h
  simp only at hinit hidx
  subst hinit; subst hidx
  by_cases hs : sid = 0
  · subst hs
    cases index <;> by_cases hr : rid = 0 <;>
      simp [Hist.createSession, Hist.checkSchema, Hist.setIgnoreDupsIndex, Hist.updateRowId, hr]
  · simp [Hist.createSession, hs]

theorem add_good2 (ws : Char → Bool) {h : Hist} (hg : Good2 h) (l : Text) : Good2 (h.add ws l).1 := by
  obtain ⟨a1, _, a3⟩ := add_abs ws hg.good l
  have hse := createSession_sessions hg.good.inv.init hg.good.idx
  obtain ⟨_, _, e3, _, _, e6⟩ := createSession_full hg.good.inv.init hg.good.idx
  have hent := congrArg (·.entries) a1
  unfold Spec.Sq.addLine at hent
  rw [refused_abs] at hent
  unfold Hist.add at a3 hent ⊢
  cases hig : h.ignore ws l
  · simp only [hig, Bool.false_eq_true, if_false] at a3 hent ⊢
    have hsid : (h.createSession.addEntry l).1.sessionId = h.sidOf := by simp [Hist.addEntry, e3]
    have hss : (h.createSession.addEntry l).1.db.sessions = h.createSession.db.sessions := by simp [Hist.addEntry]
    have hdu : (h.createSession.addEntry l).1.ignoreDups = h.ignoreDups := by simp [Hist.addEntry, e6]
    have hk : (h.createSession.addEntry l).1.db.rows.map key =
        (if h.ignoreDups = true then (h.db.rows.map key).filter (· != (h.sidOf, l)) else h.db.rows.map key)
          ++ [(h.sidOf, l)] := hent
    have hle : h.db.sessions ≤ h.createSession.db.sessions ∧ h.sidOf ≤ h.createSession.db.sessions := by
      rw [hse]; unfold Hist.sidOf
      have := hg.sid
      split <;> omega
    refine ⟨a3, ?_, by rw [hsid, hss]; exact hle.2, ?_⟩
    · intro hi
      rw [a3.idx, hdu] at hi
      rw [hk]
      simp only [hi, if_true]
      have hn := hg.nodup (by rw [hg.good.idx]; exact hi)
      refine List.nodup_append.mpr ⟨hn.filter _, by simp, ?_⟩
      intro a ha b hb
      simp at hb; subst hb
      intro heq; subst heq
      simp at ha
    · intro x hx
      rw [hk] at hx
      rw [hss]
      rcases List.mem_append.mp hx with hx | hx
      · have : x ∈ h.db.rows.map key := by
          split at hx
          · exact (List.mem_filter.mp hx).1
          · exact hx
        have := hg.sess x this
        omega
      · simp at hx; subst hx; exact hle.2
  · simp only [if_true]; exact hg

theorem addAll_good2 (ws : Char → Bool) {h : Hist} (hg : Good2 h) (ls : List Text) : Good2 (addAll ws h ls).1 := by
  induction ls generalizing h with
  | nil => exact hg
  | cons l ls ih => simp only [addAll]; exact ih (add_good2 ws hg l)

theorem setIgnoreDups_misc (h : Hist) (b : Bool) :
    (h.setIgnoreDups b).db.sessions = h.db.sessions ∧ (h.setIgnoreDups b).sessionId = h.sessionId := by
  obtain ⟨⟨init, sessions, rows, index⟩, ml, isp, idp, sid, rid⟩ := h
  cases b <;> cases idp <;> cases index <;> by_cases hdup : hasDup rows = true <;>
    simp [Hist.setIgnoreDups, Hist.setIgnoreDupsIndex, hdup]

theorem openDb_misc (c : Cfg) (db : Db) :
    (Hist.openDb c db).db.sessions = db.sessions ∧ (Hist.openDb c db).sessionId = 0 := by
  obtain ⟨init, sessions, rows, index⟩ := db
  obtain ⟨ml, isp, idp⟩ := c
  cases init <;> cases idp <;> cases index <;> by_cases hdup : hasDup rows = true <;>
    simp [Hist.openDb, Hist.checkSchema, Hist.setIgnoreDupsIndex, hdup, Hist.updateRowId]

theorem openDb_good2 (c : Cfg) {h : Hist} (hg : Good2 h) : Good2 (Hist.openDb c h.db) := by
  have g := openDb_good c hg.good.inv
  have ha := congrArg (·.entries) (openDb_abs hg.good.inv hg.nodup c)
  have hd := congrArg (·.ignoreDups) (openDb_abs hg.good.inv hg.nodup c)
  simp only [Hist.abs] at ha hd
  obtain ⟨m1, m2⟩ := openDb_misc c h.db
  refine ⟨g, ?_, by rw [m2]; exact Nat.zero_le _, ?_⟩
  · intro hi
    rw [g.idx, hd] at hi
    rw [ha]; simp only [hi, if_true]
    exact collapse_nodup _
  · intro x hx
    rw [ha] at hx
    rw [m1]
    apply hg.sess
    split at hx
    · exact mem_collapse _ _ hx
    · exact hx

/-- operations that only read leave everything but the cached row id alone -/
def Same2 (h h' : Hist) : Prop :=
  h'.db = h.db ∧ h'.ignoreDups = h.ignoreDups ∧ h'.sessionId = h.sessionId ∧ h'.maxLen = h.maxLen ∧
  h'.ignoreSpace = h.ignoreSpace

theorem bump_same2 (h : Hist) (k : Nat) : Same2 h (h.bump k) := by
  unfold Hist.bump Same2; split <;> simp

theorem get_same2 (h : Hist) (i : Nat) (d : Dir) : Same2 h (h.get i d).1 := by
  unfold Hist.get
  split
  · exact ⟨rfl, rfl, rfl, rfl, rfl⟩
  · split
    · exact bump_same2 h _
    · exact ⟨rfl, rfl, rfl, rfl, rfl⟩

theorem searchMatch_same2 (fts : Text → Text → Bool) (h : Hist) (t : Text) (s : Nat) (d : Dir)
    (sw : Bool) : Same2 h (h.searchMatch fts t s d sw).1 := by
  unfold Hist.searchMatch
  split
  · exact ⟨rfl, rfl, rfl, rfl, rfl⟩
  · split
    · exact ⟨rfl, rfl, rfl, rfl, rfl⟩
    · simp only
      split
      · exact bump_same2 h _
      · exact ⟨rfl, rfl, rfl, rfl, rfl⟩

theorem hint_same2 (fts : Text → Text → Bool) (h : Hist) (t : Text) (p : Nat) :
    Same2 h (h.hint fts t p).1 := by
  unfold Hist.hint
  split
  · exact ⟨rfl, rfl, rfl, rfl, rfl⟩
  · simp only
    have := searchMatch_same2 fts h t (if (h.len == h.len) = true then h.len - 1 else h.len) .reverse true
    unfold Hist.startsWith
    generalize Hist.searchMatch fts h t _ Dir.reverse true = res at this
    rcases res with ⟨h', _ | ⟨i, e, p'⟩⟩
    · exact this
    · simp only
      split
      · exact this
      · split <;> exact this

theorem Same2.abs {h h' : Hist} (hs : Same2 h h') : h'.abs = h.abs := by
  obtain ⟨h1, h2, h3, h4, h5⟩ := hs
  simp [Hist.abs, Hist.sidOf, h1, h2, h3, h4, h5]

theorem Good2.of_same {h h' : Hist} (hg : Good2 h) (hi : Inv h') (hs : Same2 h h') : Good2 h' := by
  obtain ⟨h1, h2, h3, h4, h5⟩ := hs
  exact ⟨hg.good.of_same hi ⟨h1, h2⟩, by rw [h1]; exact hg.nodup, by rw [h1, h3]; exact hg.sid,
    by rw [h1]; exact hg.sess⟩

theorem fresh_good2 (c : Cfg) : Good2 (Hist.openDb c {}) := by
  have g := fresh_good c
  obtain ⟨m1, m2⟩ := openDb_misc c {}
  have hr : (Hist.openDb c {}).db.rows = [] := by
    obtain ⟨ml, isp, idp⟩ := c
    cases idp <;> simp [Hist.openDb, Hist.checkSchema, Hist.setIgnoreDupsIndex, hasDup]
  exact ⟨g, by rw [hr]; intro _; exact List.nodup_nil, by rw [m2]; exact Nat.zero_le _, by rw [hr]; simp⟩

theorem fresh_sim (c : Cfg) :
    Sim (Hist.openDb c {}).abs { max := c.maxLen, ignoreSpace := c.ignoreSpace, ignoreDups := c.ignoreDups } := by
  obtain ⟨ml, isp, idp⟩ := c
  refine ⟨?_, ?_, ?_, by simp, fun _ => 1, ?_, ?_, by simp [InjOn]⟩ <;>
    cases idp <;>
    simp [Hist.abs, Hist.openDb, Hist.checkSchema, Hist.setIgnoreDupsIndex, hasDup, Hist.sidOf, ren]

end Rl.Sq
