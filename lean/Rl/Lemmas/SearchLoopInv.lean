/-
  The incremental-search loop (`searchLoop` in Rl/Editor.lean) as a small automaton over
  (search text, index, direction, success flag, shown text, cursor), and the proof that the model's
  loop is a run of that automaton (`searchLoop_refines`).  Used by C08.
-/
import Rl.Lemmas.EditorLoops
namespace Rl

/-- the loop variables of `reverse_incremental_search` together with the text and cursor shown -/
structure SearchVars where
  sb : Text
  hi : Nat
  d : Dir
  succ : Bool
  buf : Text
  pos : Nat
deriving DecidableEq, Repr

/-- one history search from the loop, started at `hi`: on a hit the entry and the match offset become
    text and cursor, the index moves to the hit; on a miss text, cursor AND index (`c.hi`, the entry on
    display) stay and the flag drops -/
def searchTry (cfg : EdCfg) (c : SearchVars) (sb : Text) (hi : Nat) (d : Dir) : SearchVars :=
  match (memHist cfg).search sb hi d with
  | some (i, e, off) => { sb := sb, hi := i, d := d, succ := true, buf := e, pos := off }
  | none => { sb := sb, hi := c.hi, d := d, succ := false, buf := c.buf, pos := c.pos }

/-- the effect of one decoded command on the loop variables; `none` = the command is not a search
    key (it ends the loop: `abort` restores, everything else is handed back) -/
def searchKey (cfg : EdCfg) (c : SearchVars) : Cmd → Option SearchVars
  | .selfInsert _ ch => some (searchTry cfg c (c.sb ++ [ch]) c.hi c.d)
  | .kill (.backwardChar _) => some { c with sb := c.sb.dropLast }
  | .reverseSearchHistory =>
    some (if c.hi > 0 then searchTry cfg c c.sb (c.hi - 1) .reverse
          else { c with d := .reverse, succ := false })
  | .forwardSearchHistory =>
    some (if c.hi + 1 < cfg.hist.length then searchTry cfg c c.sb (c.hi + 1) .forward
          else { c with d := .forward, succ := false })
  | _ => none

/-- a sequence of search keys -/
def searchRun (cfg : EdCfg) : SearchVars → List Cmd → Option SearchVars
  | c, [] => some c
  | c, k :: ks =>
    match searchKey cfg c k with
    | some c' => searchRun cfg c' ks
    | none => none

variable (S : Segmenter) (U : UData) (cfg : EdCfg)

theorem LB.update_ok_line {b : Text} {p : Nat} {lb lb' : LB} {r : Unit} {ns : List Notif}
    (h : LB.update S U b p lb = .ok (r, lb', ns)) (hg : lb.canGrow = true) :
    lb'.buf = b ∧ lb'.pos = p ∧ lb'.canGrow = true := by
  by_cases hp : p ≤ blen b
  · rw [LB.update_canGrow S U b p lb hg hp] at h
    cases h; exact ⟨rfl, rfl, hg⟩
  · exfalso
    unfold LB.update at h
    simp [hp, LM.bind_apply, LM.panic] at h

/-- what the loop guarantees when it hands a command back, relative to the loop variables `c` -/
def SearchPost (c : SearchVars) (r : Option Cmd) (s' : Ed) : Prop :=
  ∀ cmd, r = some cmd →
    ∃ keys cf, searchRun cfg c keys = some cf ∧ searchKey cfg cf cmd = none ∧ cmd ≠ .abort ∧
      s'.line.buf = cf.buf ∧ s'.line.pos = cf.pos ∧ s'.line.canGrow = true

theorem SearchPost.step {c c' : SearchVars} {k : Cmd} (hk : searchKey cfg c k = some c')
    {r : Option Cmd} {s' : Ed} (h : SearchPost cfg c' r s') : SearchPost cfg c r s' := by
  intro cmd hr
  obtain ⟨keys, cf, h1, h2⟩ := h cmd hr
  refine ⟨k :: keys, cf, ?_, h2⟩
  simp only [searchRun, hk]
  exact h1

/-- **refinement**: whenever the model's loop, started with loop variables `c` on a state showing
    `c.buf` / `c.pos`, hands a command back, the keys it consumed form a run of the automaton from `c`
    to some `cf`, the command is not a search key and not `abort`, and the line and cursor handed
    back are exactly those of `cf`. -/
theorem searchLoop_refines (backup : Text) (backupPos : Nat) :
    ∀ (fuel mark : Nat) (c : SearchVars) (s : Ed), s.line.canGrow = true → s.line.buf = c.buf → s.line.pos = c.pos →
      wp (searchLoop S U cfg mark backup backupPos fuel c.sb c.hi c.d c.succ)
        (SearchPost cfg c) (fun _ _ => True) s := by
  intro fuel
  induction fuel with
  | zero => intro mark c s _ _ _; unfold searchLoop; exact trivial
  | succ fuel ih =>
    intro mark c s hg hb hpos
    unfold searchLoop
    simp only [wp_bind]
    refine wp_refreshPromptAndLine S U cfg (fun s2 hc2 => ?_) (fun _ _ _ => trivial)
    obtain ⟨l2, _⟩ := Ed.core_eq hc2
    refine wp_nextCmd S U cfg (fun cmd s3 hc3 => ?_) (fun _ _ _ => trivial)
    rw [wp_lowerMark]
    obtain ⟨l3, _⟩ := Ed.coreNC_eq hc3
    have hg3 : s3.line.canGrow = true := by rw [l3, l2]; exact hg
    have hb3 : s3.line.buf = c.buf := by rw [l3, l2]; exact hb
    have hp3 : s3.line.pos = c.pos := by rw [l3, l2]; exact hpos
    have hds : ∀ (mark : Nat) (sb : Text) (hi : Nat) (d : Dir),
        wp (match (memHist cfg).search sb hi d with
            | some (idx, entry, pos) => do
              lb S U (LB.update S U entry pos)
              searchLoop S U cfg mark backup backupPos fuel sb idx d true
            | none => searchLoop S U cfg mark backup backupPos fuel sb c.hi d false)
          (SearchPost cfg (searchTry cfg c sb hi d)) (fun _ _ => True) s3 := by
      intro mark sb hi d
      unfold searchTry
      cases (memHist cfg).search sb hi d with
      | none => exact ih mark ⟨sb, c.hi, d, false, c.buf, c.pos⟩ s3 hg3 hb3 hp3
      | some r =>
        obtain ⟨idx, entry, pos⟩ := r
        simp only [wp_bind]
        refine wp_lb_any S U (fun a l ns h => ?_) trivial
        obtain ⟨e1, e2, e3⟩ := LB.update_ok_line S U h hg3
        exact ih mark ⟨sb, idx, d, true, entry, pos⟩ _ e3 e1 e2
    split
    · rename_i n ch
      exact wp_mono (hds _ _ _ _) (fun _ _ h => SearchPost.step cfg (k := .selfInsert n ch) rfl h) (fun _ _ h => h)
    · rename_i n
      exact wp_mono (ih _ { c with sb := c.sb.dropLast } s3 hg3 hb3 hp3)
        (fun _ _ h => SearchPost.step cfg (k := .kill (.backwardChar n)) rfl h) (fun _ _ h => h)
    · split
      · rename_i hlt
        exact wp_mono (hds _ _ _ _)
          (fun _ _ h => SearchPost.step cfg (k := .reverseSearchHistory)
            (by simp only [searchKey, if_pos hlt]) h) (fun _ _ h => h)
      · rename_i hlt
        exact wp_mono (ih _ { c with d := .reverse, succ := false } s3 hg3 hb3 hp3)
          (fun _ _ h => SearchPost.step cfg (k := .reverseSearchHistory)
            (by simp only [searchKey, if_neg hlt]) h) (fun _ _ h => h)
    · split
      · rename_i hlt
        exact wp_mono (hds _ _ _ _)
          (fun _ _ h => SearchPost.step cfg (k := .forwardSearchHistory)
            (by simp only [searchKey, if_pos hlt]) h) (fun _ _ h => h)
      · rename_i hlt
        exact wp_mono (ih _ { c with d := .forward, succ := false } s3 hg3 hb3 hp3)
          (fun _ _ h => SearchPost.step cfg (k := .forwardSearchHistory)
            (by simp only [searchKey, if_neg hlt]) h) (fun _ _ h => h)
    · simp only [wp_bind]
      refine wp_lb_any S U (fun a l ns h => ?_) trivial
      refine wp_refreshLine S U cfg (fun s4 hc4 => ?_) (fun _ _ _ => trivial)
      simp only [truncateChanges, wp_modify, wp_pure]
      intro cmd h; cases h
    · simp only [wp_bind]
      refine wp_refreshLine S U cfg (fun s4 hc4 => ?_) (fun _ _ _ => trivial)
      obtain ⟨l4, _⟩ := Ed.core_eq hc4
      simp only [wp_changesEnd, wp_pure]
      intro cmd' h
      cases h
      refine ⟨[], c, rfl, ?_, ?_, ?_, ?_, ?_⟩
      · unfold searchKey
        split <;> first | rfl | (exfalso; simp_all)
      · intro h; simp_all
      · show s4.line.buf = c.buf
        rw [l4]; exact hb3
      · show s4.line.pos = c.pos
        rw [l4]; exact hp3
      · show s4.line.canGrow = true
        rw [l4]; exact hg3

/-! ### what an iteration displays -/

/-- the search prompt: "(reverse-i-search)`text': " while the flag is set, "(failed reverse-i-search)`text': " otherwise -/
def searchPrompt (succ : Bool) (sb : Text) : Text :=
  (if succ then "(reverse-i-search)`" else "(failed reverse-i-search)`").toList ++ sb ++ "': ".toList

theorem updateHint_keeps_display (s : Ed) :
    match updateHint cfg s with
    | .ok (_, s') => s'.line = s.line ∧ s'.render = s.render
    | .error _ => True := by
  unfold updateHint
  by_cases h1 : cfg.hasHelper = true
  · by_cases h2 : (cfg.hinterPanicAt == some (cfg.hintCallsBase + (s.hintCalls + 1))) = true
    · simp only [h1, h2, if_true]
    · simp only [h1, h2, if_true, if_false, Bool.false_eq_true]; constructor <;> first | rfl | trivial
  · simp only [h1, if_false, Bool.false_eq_true]; constructor <;> first | rfl | trivial

theorem highlightCharStep_keeps_display (s : Ed) :
    ∃ b s', highlightCharStep cfg s = .ok (b, s') ∧ s'.line = s.line ∧ s'.render = s.render := by
  unfold highlightCharStep
  by_cases h1 : cfg.hasHelper = true
  · by_cases h2 : cfg.highlightChar s.line.buf s.line.pos = true
    · simp only [h1, h2, if_true]; exact ⟨_, _, rfl, rfl, rfl⟩
    · by_cases h3 : s.highlightChar = true
      · simp only [h1, h2, h3, if_true, if_false, Bool.false_eq_true]; exact ⟨_, _, rfl, rfl, rfl⟩
      · simp only [h1, h2, h3, if_true, if_false, Bool.false_eq_true]; exact ⟨_, _, rfl, rfl, rfl⟩
  · simp only [h1, if_false, Bool.false_eq_true]; exact ⟨_, _, rfl, rfl, rfl⟩

/-- `refresh_prompt_and_line(prompt)` pushes exactly one record onto the render log: a refresh with
    that prompt, the current text and the current cursor; the line itself is untouched -/
theorem refreshPromptAndLine_display (p : Text) (s : Ed) :
    wp (refreshPromptAndLine S U cfg p)
      (fun _ s' => s'.line = s.line ∧ ∃ h, s'.render = .refresh (some p) s.line.buf s.line.pos h :: s.render)
      (fun _ _ => True) s := by
  unfold refreshPromptAndLine
  rw [wp_bind]
  have h0 := updateHint_keeps_display cfg s
  unfold wp
  cases hu : updateHint cfg s with
  | error e => trivial
  | ok r =>
    obtain ⟨u, s1⟩ := r
    rw [hu] at h0
    obtain ⟨b, s2, h2, hl2, hr2⟩ := highlightCharStep_keeps_display cfg s1
    show wp _ _ _ s1
    rw [wp_bind]
    refine wp_of_eq_ok h2 ?_
    simp only [wp_bind, wp_setRefreshLayout, wp_logRender]
    refine ⟨hl2.trans h0.1, s2.hint, ?_⟩
    show _ :: s2.render = _
    rw [hr2, h0.2, hl2, h0.1]

/-- every iteration of the search loop starts by displaying the search prompt for its variables -/
theorem searchLoop_starts_with_display (mark : Nat) (backup : Text) (backupPos : Nat) (fuel : Nat)
    (sb : Text) (hi : Nat) (d : Dir) (succ : Bool) :
    ∃ k : Unit → EM (Option Cmd),
      searchLoop S U cfg mark backup backupPos (fuel + 1) sb hi d succ =
        (refreshPromptAndLine S U cfg (searchPrompt succ sb) >>= k) := by
  unfold searchLoop
  exact ⟨_, rfl⟩
end Rl
