/-
  C06 at the EDITOR level: what `execute (.kill m)` does to the kill ring, for every editor state.
  * `execute_kill_ok`: a `Kill` that returns has run `LineBuffer::kill` on the line and fanned its
    notifications out to the ring (`lbKill.go`); nothing else touches line or ring.
  * character deletions (`Kill(ForwardChar n)`, `Kill(BackwardChar n)`) leave the ring alone;
  * `cmdStep` / `cmdSteps`: the main loop's treatment of a decoded command (reset decision, then `execute`)
    and of a list of them.
-/
import Rl.Lemmas.EditorKillReports
namespace Rl
open EM

/-! ### what a kill sequence has accumulated, and how the listener's notifications extend it -/

namespace KillRing

/-- the text the running kill sequence has accumulated: the current slot while the last action is a
    kill, nothing otherwise (the next kill opens a slot of its own) -/
def accOf (k : KillRing) : Text :=
  if k.lastAction = .kill then (k.slots[k.index]?).getD [] else []

/-- where a deleted text goes relative to what has been accumulated: behind it (forward), before it
    (backward), or around it (`delete_around`: the part left of the cursor before, the rest behind) -/
def accDel (acc t : Text) : Direction → Text
  | .forward => acc ++ t
  | .backward => t ++ acc
  | .around n => (cutBytes t n).1 ++ acc ++ (cutBytes t n).2

theorem kill_acc {k : KillRing} (h : WF k) (hc : 0 < k.cap) (text : Text) (dir : KMode) :
    ∃ k', k.kill text dir = .ok k' ∧ WF k' ∧ k'.cap = k.cap ∧ k'.killing = k.killing ∧
      k'.lastAction = .kill ∧ accOf k' = mergeSlot dir (accOf k) text := by
  by_cases hk : k.lastAction = .kill
  · obtain ⟨s, hs, he⟩ := kill_cont h hk hc text dir
    obtain ⟨k', he', hw, hcap, hkl⟩ := wf_kill h text dir
    rw [he] at he'; cases he'
    have hl := h.idx_lt (h.kill_ne hk hc)
    have hs' : s = k.slots[k.index] := by
      rw [List.getElem?_eq_getElem hl] at hs; exact (Option.some.inj hs).symm
    refine ⟨_, he, hw, hcap, hkl, hk, ?_⟩
    simp [accOf, hk, hs', hl]
  · obtain ⟨k', he, ha, hi, hs, hcap, hkl, _⟩ := kill_fresh h hk hc text dir
    obtain ⟨k'', he', hw, _⟩ := wf_kill h text dir
    rw [he] at he'; cases he'
    refine ⟨k', he, hw, hcap, hkl, ha, ?_⟩
    simp only [accOf, ha, hk, if_true, if_false, hs, Option.getD_some]
    cases dir <;> simp [mergeSlot]

theorem onDelete_acc {k : KillRing} (h : WF k) (hc : 0 < k.cap) (hk : k.killing = true) (t : Text) (d : Direction) :
    ∃ k', k.onDelete t d = .ok k' ∧ WF k' ∧ k'.cap = k.cap ∧ k'.killing = true ∧
      accOf k' = accDel (accOf k) t d := by
  unfold onDelete
  simp only [hk, Bool.not_true, Bool.false_eq_true, if_false]
  cases d with
  | forward =>
    obtain ⟨k', he, hw, hcap, hkl, _, ha⟩ := kill_acc h hc t .append
    exact ⟨k', he, hw, hcap, hkl.trans hk, by simpa [mergeSlot, accDel] using ha⟩
  | backward =>
    obtain ⟨k', he, hw, hcap, hkl, _, ha⟩ := kill_acc h hc t .prepend
    exact ⟨k', he, hw, hcap, hkl.trans hk, by simpa [mergeSlot, accDel] using ha⟩
  | around n =>
    simp only []
    have h1 : ∃ k1, (if (cutBytes t n).1.isEmpty then .ok k else k.kill (cutBytes t n).1 .prepend) = Except.ok k1
        ∧ WF k1 ∧ k1.cap = k.cap ∧ k1.killing = true ∧ accOf k1 = (cutBytes t n).1 ++ accOf k := by
      split
      · rename_i he
        have : (cutBytes t n).1 = [] := by simpa using he
        exact ⟨k, rfl, h, rfl, hk, by simp [this]⟩
      · obtain ⟨k', he, hw, hcap, hkl, _, ha⟩ := kill_acc h hc (cutBytes t n).1 .prepend
        exact ⟨k', he, hw, hcap, hkl.trans hk, by simpa [mergeSlot] using ha⟩
    obtain ⟨k1, he1, hw1, hc1, hk1, ha1⟩ := h1
    rw [he1]
    simp only []
    split
    · rename_i he
      have : (cutBytes t n).2 = [] := by simpa using he
      exact ⟨k1, rfl, hw1, hc1, hk1, by simp [accDel, this, ha1]⟩
    · obtain ⟨k', he, hw, hcap, hkl, _, ha⟩ := kill_acc hw1 (by omega) (cutBytes t n).2 .append
      exact ⟨k', he, hw, by rw [hcap, hc1], hkl.trans hk1, by simp [mergeSlot, accDel, ha, ha1]⟩

/-- during a kill sequence one yank returns exactly what the sequence has accumulated -/
theorem yank_acc {k : KillRing} (h : WF k) (hc : 0 < k.cap) (hk : k.lastAction = .kill) :
    ∃ k2, k.yank = .ok (k2, some (accOf k)) ∧ k2.lastAction = .yank (blen (accOf k)) ∧
      k2.slots = k.slots ∧ k2.index = k.index := by
  have hne := h.kill_ne hk hc
  have hl := h.idx_lt hne
  rcases yank_ok h with ⟨h0, _⟩ | ⟨s, hs, hy⟩
  · exact absurd h0 hne
  · rw [h.kill_yidx hk hc, List.getElem?_eq_getElem hl] at hs
    have : accOf k = s := by
      simp only [accOf, hk, if_true, List.getElem?_eq_getElem hl, Option.getD_some]
      exact Option.some.inj hs
    rw [this]
    exact ⟨_, hy, rfl, rfl, rfl⟩

end KillRing
open KillRing

/-- the listener's view of one notification: (killing?, accumulated text) -/
def accNotif (st : Bool × Text) : Notif → Bool × Text
  | .startKill => (true, st.2)
  | .stopKill => (false, st.2)
  | .del _ t d => if st.1 then (true, accDel st.2 t d) else st
  | _ => st

/-- **the fan-out accumulates**: whatever notifications a line-buffer operation emits, the ring comes out of
    `edit_kill`'s fan-out without panic, within its invariant, and the text its kill sequence has accumulated
    is the fold of the deletions reported between `start_killing` and `stop_killing`: forward deletions
    behind, backward deletions before, `delete_around` around what was there -/
theorem lbKill_go_acc : ∀ (ns : List Notif) {k : KillRing}, KillRing.WF k → 0 < k.cap →
    ∃ k', lbKill.go ns k = .ok k' ∧ KillRing.WF k' ∧ k'.cap = k.cap ∧
      (k'.killing, accOf k') = ns.foldl accNotif (k.killing, accOf k) := by
  intro ns
  induction ns with
  | nil => intro k h _; exact ⟨k, lbKill_go_nil k, h, rfl, rfl⟩
  | cons n rest ih =>
    intro k h hc
    have step : ∃ k1, ringNotif k n = .ok k1 ∧ KillRing.WF k1 ∧ k1.cap = k.cap ∧
        (k1.killing, accOf k1) = accNotif (k.killing, accOf k) n := by
      cases n with
      | startKill => exact ⟨k.startKilling, rfl, wf_startKilling h, rfl, rfl⟩
      | stopKill => exact ⟨k.stopKilling, rfl, wf_stopKilling h, rfl, rfl⟩
      | del i t d =>
        by_cases hk : k.killing = true
        · obtain ⟨k1, he, hw, hcap, hkl, ha⟩ := onDelete_acc h hc hk t d
          exact ⟨k1, he, hw, hcap, by simp [accNotif, hk, hkl, ha]⟩
        · have hk' : k.killing = false := by simpa using hk
          exact ⟨k, by simp [ringNotif, onDelete, hk'], h, rfl, by simp [accNotif, hk']⟩
      | insChar i c => exact ⟨k, rfl, h, rfl, rfl⟩
      | insStr i s => exact ⟨k, rfl, h, rfl, rfl⟩
      | repl i o nw => exact ⟨k, rfl, h, rfl, rfl⟩
    obtain ⟨k1, he1, hw1, hc1, ha1⟩ := step
    obtain ⟨k', he, hw, hcap, ha⟩ := ih hw1 (by omega)
    refine ⟨k', ?_, hw, by omega, ?_⟩
    · rw [lbKill_go_cons, he1]; exact he
    · rw [List.foldl_cons, ← ha1]; exact ha

section
variable (S : Segmenter) (U : UData) (cfg : EdCfg)

/-- the main loop's treatment of one decoded command (`lib.rs:732-734` + `command::execute`): the
    reset decision `Cmd::should_reset_kill_ring`, then `execute` -/
def cmdStep (cmd : Cmd) : EM Status := do
  if cmd.shouldResetKillRing then modify (fun s => { s with ring := s.ring.reset })
  execute S U cfg cmd

/-- a list of decoded commands, one after the other (a `submit` answer is ignored: the caller decides) -/
def cmdSteps : List Cmd → EM Unit
  | [] => pure ()
  | c :: cs => do let _ ← cmdStep S U cfg c; cmdSteps cs

theorem execute_kill_eq (m : Movement) :
    execute S U cfg (.kill m) = (do editKill S U cfg m; pure .proceed) := by
  cases m <;> rfl

/-- a character kill's notifications pass through the ring's listener without effect -/
theorem lbKill_go_dels (ns : List Notif) (hd : ∀ x ∈ ns, ∃ i s d, x = .del i s d)
    (k : KillRing) (hf : k.killing = false) : lbKill.go ns k = .ok k := by
  induction ns with
  | nil => rfl
  | cons x ns ih =>
    obtain ⟨i, s, d, rfl⟩ := hd _ (List.mem_cons_self ..)
    have : ringNotif k (.del i s d) = .ok k := by simp [ringNotif, KillRing.onDelete, hf]
    simp only [lbKill.go, this]
    exact ih (fun y hy => hd y (List.mem_cons_of_mem _ hy))

/-- what a `Kill` command does, for every state: it answers `proceed` with line and ring those of
    `LineBuffer::kill` + the fan-out; its only exits are panics (of the line buffer / the ring: state
    untouched; of the hinter during the refresh: line and ring already updated) -/
theorem wp_execute_kill' (m : Movement) (s : Ed) (Q : Status → Ed → Prop) (E : Outcome → Ed → Prop)
    (h0 : E .panic s)
    (h1 : ∀ r l ns k s', LB.kill S U m s.line = .ok (r, l, ns) → lbKill.go ns s.ring = .ok k →
      s'.line = l → s'.ring = k → Q .proceed s' ∧ E .panic s') :
    wp (execute S U cfg (.kill m)) Q E s := by
  rw [execute_kill_eq]
  unfold editKill
  simp only [wp_bind, wp_pure]
  unfold wp lbKill
  cases ho : LB.kill S U m s.line with
  | error e => exact h0
  | ok r3 =>
    obtain ⟨r, l, ns⟩ := r3
    simp only []
    cases hgo : lbKill.go ns s.ring with
    | error e => exact h0
    | ok k =>
      simp only []
      have hq := fun s' => h1 r l ns k s' ho hgo
      cases r with
      | false =>
        show wp (pure ()) (fun _ s' => Q .proceed s') E _
        rw [wp_pure]; exact (hq _ rfl rfl).1
      | true =>
        show wp (refreshLine S U cfg) (fun _ s' => Q .proceed s') E _
        refine wp_refreshLine S U cfg (fun s3 hc3 => ?_) (fun s3 hc3 _ => ?_)
        · exact (hq s3 (Ed.core_eq hc3).1 (Ed.core_eq hc3).2.2.2.1).1
        · exact (hq s3 (Ed.core_eq hc3).1 (Ed.core_eq hc3).2.2.2.1).2

/-- the same, as a statement about line and ring in every outcome -/
theorem wp_execute_kill (m : Movement) (s : Ed) (Q : LB → KillRing → Prop)
    (h0 : Q s.line s.ring)
    (h1 : ∀ r l ns k, LB.kill S U m s.line = .ok (r, l, ns) → lbKill.go ns s.ring = .ok k → Q l k) :
    wp (execute S U cfg (.kill m)) (fun _ s' => Q s'.line s'.ring) (fun _ s' => Q s'.line s'.ring) s := by
  refine wp_execute_kill' S U cfg m s _ _ h0 (fun r l ns k s' ho hgo hl hr => ?_)
  rw [hl, hr]; exact ⟨h1 r l ns k ho hgo, h1 r l ns k ho hgo⟩

/-! ### runs of kill commands -/

/-- `LineBuffer::kill` for a list of movements, one after the other: the final line and all the
    notifications in order (`none` if one of them panics) -/
def killsRun : List Movement → LB → Option (LB × List Notif)
  | [], lb => some (lb, [])
  | m :: ms, lb =>
    match LB.kill S U m lb with
    | .ok (_, lb', ns) =>
      (match killsRun ms lb' with
       | some (l, ns') => some (l, ns ++ ns')
       | none => none)
    | .error _ => none

theorem cmdStep_kill_eq (m : Movement) (hm : (Cmd.kill m).shouldResetKillRing = false) :
    cmdStep S U cfg (.kill m) = execute S U cfg (.kill m) := by
  unfold cmdStep; rw [hm]; rfl

/-- **a run of kill commands through the main-loop step accumulates**: for every state whose ring is within
    its invariant (capacity > 0) and every list of kill movements other than the two character movements,
    if the run returns then the line is what the successive `LineBuffer::kill`s leave, and the ring's
    accumulated text is the fold of all their reported deletions over what it had accumulated before -/
theorem wp_cmdSteps_kills : ∀ (ms : List Movement) (s : Ed),
    (∀ m ∈ ms, (Cmd.kill m).shouldResetKillRing = false) → KillRing.WF s.ring → 0 < s.ring.cap →
    wp (cmdSteps S U cfg (ms.map Cmd.kill))
      (fun _ s' => ∃ ns, killsRun S U ms s.line = some (s'.line, ns) ∧ KillRing.WF s'.ring ∧
        s'.ring.cap = s.ring.cap ∧
        (s'.ring.killing, accOf s'.ring) = ns.foldl accNotif (s.ring.killing, accOf s.ring))
      (fun _ _ => True) s := by
  intro ms
  induction ms with
  | nil =>
    intro s _ hw _
    show wp (pure ()) _ _ s
    rw [wp_pure]; exact ⟨[], rfl, hw, rfl, rfl⟩
  | cons m ms ih =>
    intro s hall hw hc
    show wp (do let _ ← cmdStep S U cfg (.kill m); cmdSteps S U cfg (ms.map Cmd.kill)) _ _ s
    rw [wp_bind, cmdStep_kill_eq S U cfg m (hall m (List.mem_cons_self ..))]
    refine wp_execute_kill' S U cfg m s _ _ trivial (fun r l ns k s' ho hgo hl hr => ⟨?_, trivial⟩)
    obtain ⟨k', hgo', hw', hc', ha'⟩ := lbKill_go_acc ns hw hc
    rw [hgo] at hgo'; cases hgo'
    have hw1 : KillRing.WF s'.ring := hr ▸ hw'
    have hc1 : 0 < s'.ring.cap := by rw [hr, hc']; exact hc
    refine wp_mono (ih s' (fun x hx => hall x (List.mem_cons_of_mem _ hx)) hw1 hc1) ?_ (fun _ _ _ => trivial)
    rintro _ s2 ⟨ns2, hrun, hw2, hc2, ha2⟩
    refine ⟨ns ++ ns2, ?_, hw2, by rw [hc2, hr, hc'], ?_⟩
    · simp only [killsRun, ho]
      rw [hl] at hrun; rw [hrun]
    · rw [List.foldl_append, ← ha', ← hr]; exact ha2

/-! ### commands that must not touch what the ring stores -/

/-- the ring stores the same: equal, or equal up to the reset of the last action -/
def SameStore (k k' : KillRing) : Prop := k' = k ∨ k' = k.reset

theorem SameStore.trans {a b c : KillRing} (h1 : SameStore a b) (h2 : SameStore b c) : SameStore a c := by
  rcases h1 with rfl | rfl <;> rcases h2 with rfl | rfl
  · exact Or.inl rfl
  · exact Or.inr rfl
  · exact Or.inr rfl
  · exact Or.inr rfl

theorem SameStore.fields {k k' : KillRing} (h : SameStore k k') :
    k'.slots = k.slots ∧ k'.index = k.index ∧ k'.yankIndex = k.yankIndex ∧ k'.cap = k.cap ∧
      k'.killing = k.killing := by
  rcases h with rfl | rfl <;> exact ⟨rfl, rfl, rfl, rfl, rfl⟩

/-- a character deletion or a command that does not use the ring -/
def Cmd.ringInert : Cmd → Bool
  | .kill (.forwardChar _) | .kill (.backwardChar _) => true
  | c => !c.usesRing

/-- `execute` of a character deletion: the ring is exactly what it was, in every outcome -/
theorem wp_execute_charKill (m : Movement) (hm : (∃ n, m = .forwardChar n) ∨ ∃ n, m = .backwardChar n)
    (s : Ed) (hf : s.ring.killing = false) :
    wp (execute S U cfg (.kill m)) (fun _ s' => s'.ring = s.ring) (fun _ s' => s'.ring = s.ring) s := by
  refine wp_execute_kill S U cfg m s (fun _ k => k = s.ring) rfl (fun r l ns k ho hgo => ?_)
  have hd : ∀ x ∈ ns, ∃ i t d, x = .del i t d := by
    rcases hm with ⟨n, rfl⟩ | ⟨n, rfl⟩
    · exact LB.kill_forwardChar_notifs S U n _ _ r ns ho
    · exact LB.kill_backwardChar_notifs S U n _ _ r ns ho
  rw [lbKill_go_dels ns hd s.ring hf] at hgo
  cases hgo; rfl

theorem wp_execute_inert (c : Cmd) (hc : c.ringInert = true) (s : Ed) (hf : s.ring.killing = false) :
    wp (execute S U cfg c) (fun _ s' => s'.ring = s.ring) (fun _ s' => s'.ring = s.ring) s := by
  by_cases hu : c.usesRing = false
  · exact (keeps_ring_execute S U cfg c hu).wp s
  · cases c with
    | kill m =>
      cases m with
      | forwardChar n => exact wp_execute_charKill S U cfg _ (Or.inl ⟨n, rfl⟩) s hf
      | backwardChar n => exact wp_execute_charKill S U cfg _ (Or.inr ⟨n, rfl⟩) s hf
      | _ => simp [Cmd.ringInert, Cmd.usesRing] at hc
    | _ => simp_all [Cmd.ringInert, Cmd.usesRing]

theorem wp_cmdStep_inert (c : Cmd) (hc : c.ringInert = true) (s : Ed) (hf : s.ring.killing = false) :
    wp (cmdStep S U cfg c) (fun _ s' => SameStore s.ring s'.ring) (fun _ s' => SameStore s.ring s'.ring) s := by
  unfold cmdStep
  cases hr : c.shouldResetKillRing with
  | false =>
    show wp (execute S U cfg c) _ _ s
    exact wp_mono (wp_execute_inert S U cfg c hc s hf) (fun _ _ h => Or.inl h) (fun _ _ h => Or.inl h)
  | true =>
    show wp (do modify (fun s => { s with ring := s.ring.reset }); execute S U cfg c) _ _ s
    rw [wp_bind, wp_modify]
    exact wp_mono (wp_execute_inert S U cfg c hc { s with ring := s.ring.reset } hf)
      (fun _ _ h => Or.inr h) (fun _ _ h => Or.inr h)

/-- **any run of character deletions and commands that do not use the ring leaves what the ring stores
    alone**, in every outcome (only the last action may have been reset) -/
theorem wp_cmdSteps_inert : ∀ (cs : List Cmd) (s : Ed), (∀ c ∈ cs, c.ringInert = true) → s.ring.killing = false →
    wp (cmdSteps S U cfg cs) (fun _ s' => SameStore s.ring s'.ring) (fun _ s' => SameStore s.ring s'.ring) s := by
  intro cs
  induction cs with
  | nil => intro s _ _; show wp (pure ()) _ _ s; rw [wp_pure]; exact Or.inl rfl
  | cons c cs ih =>
    intro s hall hf
    show wp (do let _ ← cmdStep S U cfg c; cmdSteps S U cfg cs) _ _ s
    rw [wp_bind]
    refine wp_mono (wp_cmdStep_inert S U cfg c (hall c (List.mem_cons_self ..)) s hf) ?_ (fun _ _ h => h)
    intro _ s1 h1
    have hf1 : s1.ring.killing = false := by rw [h1.fields.2.2.2.2]; exact hf
    exact wp_mono (ih s1 (fun x hx => hall x (List.mem_cons_of_mem _ hx)) hf1)
      (fun _ _ h => h1.trans h) (fun _ _ h => h1.trans h)

/-! ### `Yank` through `execute` -/

/-- `execute (Yank n anchor)` on a non-empty ring within its invariant: the text handed to the line is the
    slot at the yank position, and in every outcome the ring is the old one with last action
    `Yank (blen text * n)`: the byte length of all `n` copies -/
theorem wp_execute_yank (n : Nat) (a : Anchor) (s : Ed) (hw : KillRing.WF s.ring) (hne : s.ring.slots ≠ []) :
    ∃ t, s.ring.slots[s.ring.yankIndex]? = some t ∧
      wp (execute S U cfg (.yank n a))
        (fun _ s' => s'.ring = { s.ring with lastAction := .yank (blen t * n) })
        (fun _ s' => s'.ring = { s.ring with lastAction := .yank (blen t * n) }) s := by
  rcases KillRing.yank_ok hw with ⟨h0, _⟩ | ⟨t, ht, hy⟩
  · exact absurd h0 hne
  · refine ⟨t, ht, ?_⟩
    unfold execute
    simp only [wp_bind]
    unfold wp ringYank
    rw [hy]
    simp only []
    show wp (do ringYankCount n; editYank S U cfg t a n; pure Status.proceed)
      (fun _ s' => s'.ring = { s.ring with lastAction := .yank (blen t * n) })
      (fun _ s' => s'.ring = { s.ring with lastAction := .yank (blen t * n) }) _
    rw [wp_bind, wp_ringYankCount, wp_bind]
    refine wp_mono ((keeps_ring_editYank S U cfg t a n).wp _) ?_ ?_
    · intro _ s' h
      rw [wp_pure]
      have h' : s'.ring = _ := h
      rw [h']; simp [KillRing.yankCount, Ed.ringOf]
    · intro _ s' h
      have h' : s'.ring = _ := h
      rw [h']; simp [KillRing.yankCount, Ed.ringOf]

end
end Rl
