/- Helper lemmas for property C18 (Rl/Props/C18.lean). -/
import Rl.Direct
import Rl.Spec.Direct
namespace Rl.Direct
open Rl.Spec.Direct

/-! ### the backspace loop is the stack evaluation -/


theorem applyGo_eq (w : Nat → Nat) (gs : List Text) (st : List Text)
    (hw : ∀ g ∈ gs, w (blen g) = blen g) :
    applyGo w gs st.reverse.flatten (st.map blen) = some (stackGo st gs).reverse.flatten := by
  induction gs generalizing st with
  | nil => simp [applyGo, stackGo]
  | cons g gs ih =>
    have hw' : ∀ g ∈ gs, w (blen g) = blen g := fun x hx => hw x (List.mem_cons_of_mem _ hx)
    by_cases hg : g = [bs]
    · cases st with
      | nil => simpa [applyGo, stackGo, hg] using ih [] hw'
      | cons s st' =>
        have h1 : (s :: st').reverse.flatten = st'.reverse.flatten ++ s := by simp
        have h2 : blen s ≤ blen (st'.reverse.flatten ++ s) := by simp
        have h3 : blen (st'.reverse.flatten ++ s) - blen s = blen st'.reverse.flatten := by simp
        simp only [applyGo, stackGo, hg, if_true, List.map_cons, h1, h2, h3, splitAtByte_append,
          List.tail_cons]
        exact ih st' hw'
    · have h1 : st.reverse.flatten ++ g = (g :: st).reverse.flatten := by simp
      have h2 : w (blen g) = blen g := hw g (List.mem_cons_self ..)
      simp only [applyGo, stackGo, hg, if_false, h1, h2]
      exact ih (g :: st) hw'

/-! ### `read_line` -/


/-- `readLines` without the accumulator -/
def rawLines : Text → List Text
  | [] => []
  | c :: t =>
    if c = '\n' then [c] :: rawLines t
    else
      match rawLines t with
      | l :: ls => (c :: l) :: ls
      | [] => [[c]]

theorem readLinesGo_eq (cur t : Text) :
    readLinesGo cur t =
      match rawLines t with
      | l :: ls => (cur.reverse ++ l) :: ls
      | [] => if cur = [] then [] else [cur.reverse] := by
  induction t generalizing cur with
  | nil => simp [readLinesGo, rawLines]
  | cons c t ih =>
    by_cases hc : c = '\n'
    · simp only [readLinesGo, rawLines, hc, if_true]
      have := ih []
      simp only [List.reverse_nil, List.nil_append, if_true] at this
      rw [this]
      cases rawLines t <;> simp
    · simp only [readLinesGo, rawLines, hc, if_false]
      rw [ih]
      cases rawLines t <;> simp

theorem readLines_eq (t : Text) : readLines t = rawLines t := by
  simp only [readLines, readLinesGo_eq]
  cases rawLines t <;> simp

theorem rawLines_ne_nil (t : Text) : ∀ l ∈ rawLines t, l ≠ [] := by
  induction t with
  | nil => simp [rawLines]
  | cons c t ih =>
    simp only [rawLines]
    split
    · intro l hl
      simp at hl
      rcases hl with rfl | hl
      · simp
      · exact ih l hl
    · split
      · rename_i l ls h
        intro x hx
        simp at hx
        rcases hx with rfl | hx
        · simp
        · exact ih x (by rw [h]; exact List.mem_cons_of_mem _ hx)
      · simp

theorem rawLines_flatten (t : Text) : (rawLines t).flatten = t := by
  induction t with
  | nil => simp [rawLines]
  | cons c t ih =>
    simp only [rawLines]
    split
    · simp [ih]
    · split
      · rename_i l ls h
        rw [h] at ih
        simp at ih ⊢
        exact ih
      · rename_i h
        rw [h] at ih
        simp at ih
        simp [ih]


/-! ### stripping the terminator -/

/-- content and terminator of a raw line, as `stripKept` sees it with nothing kept -/
def lineOf (l : Text) : Text × Term :=
  match stripKept [] l with
  | (c, tr, tn) => (c, if tn then (if tr then .crlf else .lf) else .none)

def termOf (tr tn : Bool) : Term := if tn then (if tr then .crlf else .lf) else .none

theorem getLast?_append_ne (a l : List Char) (h : l ≠ []) : (a ++ l).getLast? = l.getLast? := by
  obtain ⟨d, l', rfl⟩ := List.exists_cons_of_ne_nil h
  rw [List.getLast?_append, List.getLast?_cons]
  simp

theorem blen_lt_append (a b : Text) : blen a < blen (a ++ b) ↔ b ≠ [] := by
  simp only [blen_append]
  constructor
  · intro h hb; subst hb; simp at h
  · intro h; have := blen_pos_of_ne_nil h; omega

theorem stripKept_append (input l : Text) (hl : l ≠ []) :
    stripKept input l = (input ++ (stripKept [] l).1, (stripKept [] l).2) := by
  have h1 : (input ++ l).getLast? = l.getLast? := getLast?_append_ne _ _ hl
  have h2 : (input ++ l).dropLast = input ++ l.dropLast := List.dropLast_append_of_ne_nil hl
  unfold stripKept popIf
  simp only [h1, h2, List.nil_append, blen_nil]
  by_cases hn : l.getLast? = some '\n'
  · simp only [hn, if_true]
    by_cases hd : l.dropLast = []
    · simp [hd]
    · have h3 : (input ++ l.dropLast).getLast? = l.dropLast.getLast? := getLast?_append_ne _ _ hd
      have h4 : (input ++ l.dropLast).dropLast = input ++ l.dropLast.dropLast := List.dropLast_append_of_ne_nil hd
      have h5 : blen input < blen (input ++ l.dropLast) := (blen_lt_append _ _).mpr hd
      have h6 : 0 < blen l.dropLast := blen_pos_of_ne_nil hd
      simp only [h3, h4, h5, h6, true_and]
      split <;> simp
  · simp [hn]

/-- how the first line changes when a non-LF character is put in front of the stream -/
def consH (c : Char) : List (Text × Term) → List (Text × Term)
  | [] => [([c], .none)]
  | (x, k) :: r => (if c = '\r' ∧ x = [] ∧ k = .lf then ([], .crlf) else (c :: x, k)) :: r

theorem lineOf_cons (c : Char) (l : Text) (hl : l ≠ []) :
    lineOf (c :: l) = (if c = '\r' ∧ (lineOf l).1 = [] ∧ (lineOf l).2 = .lf then ([], .crlf)
                       else (c :: (lineOf l).1, (lineOf l).2)) := by
  obtain ⟨d, l', rfl⟩ := List.exists_cons_of_ne_nil hl
  unfold lineOf stripKept popIf
  simp only [List.nil_append, blen_nil, List.getLast?_cons_cons, List.dropLast_cons_cons]
  by_cases hn : (d :: l').getLast? = some '\n'
  · simp only [hn, if_true]
    by_cases hd : (d :: l').dropLast = []
    · have hp : 0 < c.utf8Size := Char.utf8Size_pos c
      have hp2 : 0 < '\r'.utf8Size := by decide
      by_cases hr : c = '\r' <;> simp [hd, hr, hp, hp2]
    · obtain ⟨e, m, hm⟩ := List.exists_cons_of_ne_nil hd
      have hp : 0 < blen (e :: m) := blen_pos_of_ne_nil (by simp)
      have hp' : 0 < blen (c :: e :: m) := blen_pos_of_ne_nil (by simp)
      simp only [hm, List.getLast?_cons_cons, List.dropLast_cons_cons, hp, hp', true_and]
      by_cases hr : (e :: m).getLast? = some '\r'
      · simp [hr]
      · simp [hr]
  · simp [hn]

theorem lineOf_single (c : Char) (hc : c ≠ '\n') : lineOf [c] = ([c], .none) := by
  simp [lineOf, stripKept, popIf, hc]

theorem lineOf_lf : lineOf ['\n'] = ([], .lf) := by
  simp [lineOf, stripKept, popIf]

theorem map_lineOf_cons (c : Char) (t : Text) (hc : c ≠ '\n') :
    (rawLines (c :: t)).map lineOf = consH c ((rawLines t).map lineOf) := by
  simp only [rawLines, hc, if_false]
  have hne := rawLines_ne_nil t
  cases h : rawLines t with
  | nil => simp [consH, lineOf_single c hc]
  | cons l ls =>
    have : l ≠ [] := hne l (by simp [h])
    simp only [List.map_cons, consH, lineOf_cons c l this]


/-! ### the spec's `lines` obeys the same recursion -/

theorem splitLF_ne_nil (t : Text) : splitLF t ≠ [] := by
  cases t with
  | nil => simp [splitLF]
  | cons c t =>
    simp only [splitLF]
    split
    · simp
    · split <;> simp

theorem lines_nil : lines [] = [] := by simp [lines, splitLF]

theorem lines_lf (t : Text) : lines ('\n' :: t) = ([], .lf) :: lines t := by
  obtain ⟨q, qs, h⟩ := List.exists_cons_of_ne_nil (splitLF_ne_nil t)
  simp [lines, splitLF, h, terminated]

theorem terminated_cons (c : Char) (q : Text) :
    terminated (c :: q) = (if c = '\r' ∧ (terminated q).1 = [] ∧ (terminated q).2 = .lf then ([], .crlf)
                           else (c :: (terminated q).1, (terminated q).2)) := by
  cases q with
  | nil => by_cases hr : c = '\r' <;> simp [terminated, hr]
  | cons d q' =>
    simp only [terminated, List.getLast?_cons_cons, List.dropLast_cons_cons]
    by_cases hr : (d :: q').getLast? = some '\r'
    · simp [hr]
    · simp [hr]

theorem lines_cons (c : Char) (t : Text) (hc : c ≠ '\n') : lines (c :: t) = consH c (lines t) := by
  obtain ⟨q, qs, h⟩ := List.exists_cons_of_ne_nil (splitLF_ne_nil t)
  simp only [lines, splitLF, hc, if_false, h]
  cases qs with
  | nil =>
    by_cases hq : q = []
    · simp [hq, consH]
    · simp [hq, consH]
  | cons q' qs' =>
    simp only [List.dropLast_cons_cons, List.map_cons, List.getLast?_cons_cons, List.cons_append, consH,
      terminated_cons c q]


/-! ### refinement of the reads -/


theorem map_lineOf_rawLines (t : Text) : (rawLines t).map lineOf = lines t := by
  induction t with
  | nil => simp [rawLines, lines_nil]
  | cons c t ih =>
    by_cases hc : c = '\n'
    · subst hc
      rw [lines_lf, ← ih]
      simp [rawLines, lineOf_lf]
    · rw [map_lineOf_cons c t hc, lines_cons c t hc, ih]

theorem applyBackspace_eq (S : Segmenter) (t : Text) :
    applyBackspaceW id S t = some (removeBackspaces S t) := by
  have := applyGo_eq id (S.seg t) [] (fun _ _ => rfl)
  simpa [applyBackspaceW, removeBackspaces, stackEval] using this

theorem stripKept_lineOf (input l : Text) (hl : l ≠ []) :
    ∃ tr tn, stripKept input l = (input ++ (lineOf l).1, tr, tn) ∧
      (if tr then ['\r'] else []) ++ (if tn then ['\n'] else []) = (lineOf l).2.text := by
  rw [stripKept_append input l hl]
  refine ⟨(stripKept [] l).2.1, (stripKept [] l).2.2, ?_, ?_⟩
  · simp [lineOf]
  · unfold lineOf stripKept popIf
    simp only [List.nil_append]
    by_cases hn : l.getLast? = some '\n'
    · by_cases hr : 0 < blen l.dropLast ∧ l.dropLast.getLast? = some '\r'
      · simp [hn, hr, Term.text]
      · simp [hn, hr, Term.text]
    · simp [hn, Term.text]

/-- one read without validator -/
theorem readlineDirectW_none (S : Segmenter) (input l : Text) (ls : List Text) (hl : l ≠ []) :
    readlineDirectW id S none input (l :: ls) = (.line (removeBackspaces S (input ++ (lineOf l).1)), ls) := by
  obtain ⟨tr, tn, h1, _⟩ := stripKept_lineOf input l hl
  simp [readlineDirectW, hl, h1, applyBackspace_eq]

theorem sessionW_none (S : Segmenter) (ls : List Text) (hne : ∀ l ∈ ls, l ≠ []) (fuel : Nat)
    (hf : ls.length < fuel) :
    sessionW id S none fuel ls = ls.map (fun l => .line (removeBackspaces S (lineOf l).1)) ++ [.eof] := by
  induction ls generalizing fuel with
  | nil =>
    obtain ⟨f, rfl⟩ : ∃ f, fuel = f + 1 := ⟨fuel - 1, by omega⟩
    simp [sessionW, readlineDirectW]
  | cons l ls ih =>
    obtain ⟨f, rfl⟩ : ∃ f, fuel = f + 1 := ⟨fuel - 1, by omega⟩
    have hl : l ≠ [] := hne l (by simp)
    simp only [sessionW, readlineDirectW_none S [] l ls hl, List.nil_append, List.map_cons, List.cons_append]
    rw [ih (fun x hx => hne x (by simp [hx])) f (by simp at hf; omega)]

/-- one read with a validator refines the spec's `readV` -/
theorem readlineDirectW_some (S : Segmenter) (V : Text → Verdict) (ls : List Text)
    (hne : ∀ l ∈ ls, l ≠ []) (acc : Text) :
    (readlineDirectW id S (some V) acc ls).1 = (readV S V acc (ls.map lineOf)).1 ∧
    (readlineDirectW id S (some V) acc ls).2.map lineOf = (readV S V acc (ls.map lineOf)).2 ∧
    ∃ used, ls = used ++ (readlineDirectW id S (some V) acc ls).2 := by
  induction ls generalizing acc with
  | nil => simp [readlineDirectW, readV]
  | cons l ls ih =>
    have hl : l ≠ [] := hne l (by simp)
    have hne' : ∀ x ∈ ls, x ≠ [] := fun x hx => hne x (by simp [hx])
    obtain ⟨tr, tn, h1, h2⟩ := stripKept_lineOf acc l hl
    simp only [readlineDirectW, hl, if_false, h1, applyBackspace_eq, List.map_cons, readV]
    cases hv : V (removeBackspaces S (acc ++ (lineOf l).1)) with
    | valid => exact ⟨rfl, rfl, [l], rfl⟩
    | error => exact ⟨rfl, rfl, [l], rfl⟩
    | invalidMsg =>
      obtain ⟨a, b, u, hu⟩ := ih hne' (removeBackspaces S (acc ++ (lineOf l).1))
      exact ⟨a, b, l :: u, by simpa using hu⟩
    | invalidNone =>
      obtain ⟨a, b, u, hu⟩ := ih hne' (removeBackspaces S (acc ++ (lineOf l).1))
      exact ⟨a, b, l :: u, by simpa using hu⟩
    | incomplete =>
      simp only [List.append_assoc] at h2 ⊢
      rw [h2]
      obtain ⟨a, b, u, hu⟩ := ih hne' (removeBackspaces S (acc ++ (lineOf l).1) ++ (lineOf l).2.text)
      exact ⟨a, b, l :: u, by simpa using hu⟩



theorem readV_ne_panic (S : Segmenter) (V : Text → Verdict) (acc : Text) (l : List (Text × Term)) :
    (readV S V acc l).1 ≠ .panic := by
  induction l generalizing acc with
  | nil => simp [readV]
  | cons x xs ihx =>
    obtain ⟨c, t⟩ := x
    simp only [readV]
    split <;> simp_all

/-- no read panics -/
theorem readlineDirectW_ne_panic (S : Segmenter) (V : Option (Text → Verdict)) (ls : List Text)
    (hne : ∀ l ∈ ls, l ≠ []) (acc : Text) :
    (readlineDirectW id S V acc ls).1 ≠ .panic := by
  cases V with
  | none =>
    cases ls with
    | nil => simp [readlineDirectW]
    | cons l ls => rw [readlineDirectW_none S acc l ls (hne l (by simp))]; simp
  | some V =>
    rw [(readlineDirectW_some S V ls hne acc).1]
    exact readV_ne_panic S V acc _

/-- the lines a read leaves are a proper suffix unless it reports end of file -/
theorem readV_rest (S : Segmenter) (V : Text → Verdict) (acc : Text) (l : List (Text × Term)) :
    (readV S V acc l).1 = .eof ∨ (readV S V acc l).2.length < l.length := by
  induction l generalizing acc with
  | nil => simp [readV]
  | cons x xs ih =>
    obtain ⟨c, t⟩ := x
    simp only [readV]
    split
    · simp
    · simp
    all_goals
      rename_i hv
      first
      | (rcases ih (removeBackspaces S (acc ++ c) ++ t.text) with h | h
         · exact Or.inl h
         · exact Or.inr (by simp; omega))
      | (rcases ih (removeBackspaces S (acc ++ c)) with h | h
         · exact Or.inl h
         · exact Or.inr (by simp; omega))

/-- with enough fuel the spec's result sequence ends with end of file -/
theorem results_some_last (S : Segmenter) (V : Text → Verdict) (fuel : Nat) (l : List (Text × Term))
    (hf : l.length < fuel) : (results S (some V) fuel l).getLast? = some .eof := by
  induction fuel generalizing l with
  | zero => omega
  | succ f ih =>
    simp only [results]
    rcases readV_rest S V [] l with h | h
    · generalize readV S V [] l = m at h
      obtain ⟨r, rest⟩ := m
      simp only at h; subst h; simp
    · generalize readV S V [] l = m at h
      obtain ⟨r, rest⟩ := m
      simp only at h
      have := ih rest (by omega)
      cases r with
      | eof => simp
      | _ =>
        simp only
        rw [List.getLast?_cons]
        simp [this]

/-! ### accumulation under a validator, declaratively -/

/-- `Accum S V acc used l`: starting with kept text `acc`, consuming exactly the lines `used` makes
    the validator accept the text `l`: every earlier verdict was Incomplete (line break kept) or
    Invalid (text unchanged), the last one Valid. -/
inductive Accum (S : Segmenter) (V : Text → Verdict) : Text → List (Text × Term) → Text → Prop
  | accept (acc c t) : V (removeBackspaces S (acc ++ c)) = .valid →
      Accum S V acc [(c, t)] (removeBackspaces S (acc ++ c))
  | incomplete (acc c t ls l) : V (removeBackspaces S (acc ++ c)) = .incomplete →
      Accum S V (removeBackspaces S (acc ++ c) ++ t.text) ls l → Accum S V acc ((c, t) :: ls) l
  | invalid (acc c t ls l) :
      (V (removeBackspaces S (acc ++ c)) = .invalidMsg ∨ V (removeBackspaces S (acc ++ c)) = .invalidNone) →
      Accum S V (removeBackspaces S (acc ++ c)) ls l → Accum S V acc ((c, t) :: ls) l

theorem readV_line (S : Segmenter) (V : Text → Verdict) (acc : Text) (ls : List (Text × Term))
    (l : Text) (rest : List (Text × Term)) (h : readV S V acc ls = (.line l, rest)) :
    V l = .valid ∧ ∃ used, ls = used ++ rest ∧ Accum S V acc used l := by
  induction ls generalizing acc with
  | nil => simp [readV] at h
  | cons x xs ih =>
    obtain ⟨c, t⟩ := x
    simp only [readV] at h
    split at h
    · rename_i hv
      simp only [Prod.mk.injEq, DResult.line.injEq] at h
      obtain ⟨rfl, rfl⟩ := h
      exact ⟨hv, [(c, t)], rfl, .accept acc c t hv⟩
    · simp at h
    · rename_i hv
      obtain ⟨h1, used, h2, h3⟩ := ih _ h
      exact ⟨h1, (c, t) :: used, by simp [h2], .incomplete acc c t used l hv h3⟩
    · rename_i hv
      obtain ⟨h1, used, h2, h3⟩ := ih _ h
      exact ⟨h1, (c, t) :: used, by simp [h2], .invalid acc c t used l (Or.inl hv) h3⟩
    · rename_i hv
      obtain ⟨h1, used, h2, h3⟩ := ih _ h
      exact ⟨h1, (c, t) :: used, by simp [h2], .invalid acc c t used l (Or.inr hv) h3⟩

theorem readV_err (S : Segmenter) (V : Text → Verdict) (acc : Text) (ls : List (Text × Term))
    (rest : List (Text × Term)) (h : readV S V acc ls = (.err, rest)) : ∃ x, V x = .error := by
  induction ls generalizing acc with
  | nil => simp [readV] at h
  | cons x xs ih =>
    obtain ⟨c, t⟩ := x
    simp only [readV] at h
    split at h
    · simp at h
    · rename_i hv; exact ⟨_, hv⟩
    all_goals exact ih _ h


/-! ### sessions -/


theorem mem_of_suffix {α} {ls used rest : List α} (h : ls = used ++ rest) : ∀ x ∈ rest, x ∈ ls := by
  intro x hx; rw [h]; exact List.mem_append_right _ hx

/-- a session with a validator refines the spec's `results` (same fuel) -/
theorem sessionW_some (S : Segmenter) (V : Text → Verdict) (fuel : Nat) (ls : List Text)
    (hne : ∀ l ∈ ls, l ≠ []) :
    sessionW id S (some V) fuel ls = results S (some V) fuel (ls.map lineOf) := by
  induction fuel generalizing ls with
  | zero => simp [sessionW, results]
  | succ f ih =>
    obtain ⟨h1, h2, used, h3⟩ := readlineDirectW_some S V ls hne []
    simp only [sessionW, results]
    generalize hm : readlineDirectW id S (some V) [] ls = m at h1 h2 h3
    generalize hs : readV S V [] (ls.map lineOf) = sp at h1 h2
    obtain ⟨r, rest⟩ := m
    obtain ⟨r', rest'⟩ := sp
    simp only at h1 h2 h3
    subst h1 h2
    have hne' : ∀ x ∈ rest, x ≠ [] := fun x hx => hne x (mem_of_suffix h3 x hx)
    cases r with
    | eof => rfl
    | panic =>
      -- impossible: the spec never yields panic, but equality of the displayed lists suffices
      exact absurd (by rw [hs]) (readV_ne_panic S V [] (ls.map lineOf))
    | line t => simp [ih rest hne']
    | err => simp [ih rest hne']



/-! ### what the stack evaluation means -/

theorem stackGo_append (st : List Text) (a b : List Text) :
    stackGo st (a ++ b) = stackGo (stackGo st a) b := by
  induction a generalizing st with
  | nil => rfl
  | cons g a ih =>
    simp only [List.cons_append, stackGo]
    split <;> exact ih _

theorem stackEval_push (gs : List Text) (g : Text) (hg : g ≠ [bs]) :
    stackEval (gs ++ [g]) = stackEval gs ++ [g] := by
  simp [stackEval, stackGo_append, stackGo, hg]

theorem stackEval_pop (gs : List Text) :
    stackEval (gs ++ [[bs]]) = (stackEval gs).dropLast := by
  simp [stackEval, stackGo_append, stackGo]

theorem stackGo_no_bs (st gs : List Text) (h : ∀ g ∈ gs, g ≠ [bs]) :
    stackGo st gs = gs.reverse ++ st := by
  induction gs generalizing st with
  | nil => simp [stackGo]
  | cons g gs ih =>
    have hg : g ≠ [bs] := h g (by simp)
    simp only [stackGo, hg, if_false]
    rw [ih _ (fun x hx => h x (by simp [hx]))]
    simp

theorem stackEval_no_bs (gs : List Text) (h : ∀ g ∈ gs, g ≠ [bs]) : stackEval gs = gs := by
  simp [stackEval, stackGo_no_bs [] gs h]

/-! ### what `lines` means -/

/-- a stream is its lines, each followed by its terminator -/
def unlines (ls : List (Text × Term)) : Text := (ls.map (fun l => l.1 ++ l.2.text)).flatten

theorem unlines_consH (c : Char) (ls : List (Text × Term)) :
    ls ≠ [] → unlines (consH c ls) = c :: unlines ls := by
  intro hne
  cases ls with
  | nil => exact absurd rfl hne
  | cons x r =>
    obtain ⟨x, k⟩ := x
    simp only [consH]
    split
    · rename_i hc
      obtain ⟨rfl, rfl, rfl⟩ := hc
      simp [unlines, Term.text]
    · simp [unlines]

theorem lines_eq_nil (t : Text) : lines t = [] ↔ t = [] := by
  constructor
  · intro h
    cases t with
    | nil => rfl
    | cons c t =>
      by_cases hc : c = '\n'
      · subst hc; rw [lines_lf] at h; simp at h
      · rw [lines_cons c t hc] at h
        cases hl : lines t with
        | nil => simp [hl, consH] at h
        | cons x r => obtain ⟨x, k⟩ := x; simp [hl, consH] at h
  · rintro rfl; exact lines_nil

theorem unlines_lines (t : Text) : unlines (lines t) = t := by
  induction t with
  | nil => simp [lines_nil, unlines]
  | cons c t ih =>
    by_cases hc : c = '\n'
    · subst hc; rw [lines_lf]; simp [unlines, Term.text] at ih ⊢; exact ih
    · rw [lines_cons c t hc]
      by_cases hl : lines t = []
      · have : t = [] := (lines_eq_nil t).mp hl
        subst this
        simp [lines_nil, consH, unlines, Term.text]
      · rw [unlines_consH c _ hl, ih]

theorem consH_append (c : Char) (a b : List (Text × Term)) (ha : a ≠ []) :
    consH c (a ++ b) = consH c a ++ b := by
  cases a with
  | nil => exact absurd rfl ha
  | cons x r => obtain ⟨x, k⟩ := x; simp [consH]

theorem lines_unterminated (last : Text) (h1 : last ≠ []) (h2 : '\n' ∉ last) :
    lines last = [(last, .none)] := by
  induction last with
  | nil => exact absurd rfl h1
  | cons c t ih =>
    have hc : c ≠ '\n' := fun h => h2 (by simp [h])
    rw [lines_cons c t hc]
    by_cases ht : t = []
    · subst ht; simp [lines_nil, consH]
    · rw [ih ht (fun h => h2 (List.mem_cons_of_mem _ h))]
      simp [consH]

/-- a final unterminated line is a line of its own -/
theorem lines_append_unterminated (pre last : Text) (hp : pre = [] ∨ pre.getLast? = some '\n')
    (h1 : last ≠ []) (h2 : '\n' ∉ last) :
    lines (pre ++ last) = lines pre ++ [(last, .none)] := by
  induction pre with
  | nil => simp [lines_nil, lines_unterminated last h1 h2]
  | cons c pre ih =>
    have hp' : pre = [] ∨ pre.getLast? = some '\n' := by
      by_cases hpre : pre = []
      · exact Or.inl hpre
      · right
        rcases hp with hp | hp
        · simp at hp
        · obtain ⟨d, p', rfl⟩ := List.exists_cons_of_ne_nil hpre
          simpa [List.getLast?_cons_cons] using hp
    by_cases hc : c = '\n'
    · subst hc
      simp only [List.cons_append, lines_lf, ih hp']
    · have hpre : pre ≠ [] := by
        rintro rfl
        rcases hp with hp | hp
        · simp at hp
        · simp at hp; exact hc hp
      simp only [List.cons_append]
      rw [lines_cons c _ hc, lines_cons c _ hc, ih hp',
        consH_append c _ _ (fun h => hpre ((lines_eq_nil pre).mp h))]


theorem results_some_no_panic (S : Segmenter) (V : Text → Verdict) (fuel : Nat) (l : List (Text × Term)) :
    DResult.panic ∉ results S (some V) fuel l := by
  induction fuel generalizing l with
  | zero => simp [results]
  | succ f ih =>
    simp only [results]
    have hp := readV_ne_panic S V [] l
    generalize readV S V [] l = m at hp
    obtain ⟨r, rest⟩ := m
    cases r with
    | panic => simp at hp
    | eof => simp
    | line t => simpa using ih rest
    | err => simpa using ih rest

theorem bracketsGo_eq (st : List Char) (t : Text) : bracketsGo st t = brackets st t := by
  induction t generalizing st with
  | nil => cases st <;> simp [bracketsGo, brackets]
  | cons c t ih =>
    simp only [bracketsGo, brackets, isOpen, isClose, pairs, List.mem_cons, List.not_mem_nil, or_false,
      Bool.or_eq_true, decide_eq_true_eq, Prod.mk.injEq, Bool.and_eq_true, ih, or_assoc]
    cases st <;> rfl


theorem consH_no_lf (c : Char) (hc : c ≠ '\n') (ls : List (Text × Term))
    (h : ∀ l ∈ ls, '\n' ∉ l.1) : ∀ l ∈ consH c ls, '\n' ∉ l.1 := by
  cases ls with
  | nil => simp [consH, hc.symm]
  | cons x r =>
    obtain ⟨x, k⟩ := x
    intro l hl
    simp only [consH, List.mem_cons] at hl
    rcases hl with rfl | hl
    · split
      · simp
      · have := h (x, k) (by simp)
        simp at this ⊢
        exact ⟨hc.symm, this⟩
    · exact h l (by simp [hl])

theorem lines_no_lf (t : Text) : ∀ l ∈ lines t, '\n' ∉ l.1 := by
  induction t with
  | nil => simp [lines_nil]
  | cons c t ih =>
    by_cases hc : c = '\n'
    · subst hc; rw [lines_lf]
      intro l hl
      simp only [List.mem_cons] at hl
      rcases hl with rfl | hl
      · simp
      · exact ih l hl
    · rw [lines_cons c t hc]; exact consH_no_lf c hc _ ih

/-- only the last line can lack a terminator, and then it is not empty -/
theorem lines_shape (t : Text) :
    ∃ a tail, lines t = a ++ tail ∧ (∀ x ∈ a, x.2 ≠ .none) ∧
      (tail = [] ∨ ∃ last, last ≠ [] ∧ tail = [(last, .none)]) := by
  refine ⟨(splitLF t).dropLast.map terminated, _, rfl, ?_, ?_⟩
  · intro x hx
    simp only [List.mem_map] at hx
    obtain ⟨p, -, rfl⟩ := hx
    unfold terminated
    split <;> simp
  · by_cases h : (splitLF t).getLast?.getD [] = []
    · left; simp [h]
    · right; exact ⟨_, h, by simp [h]⟩


end Rl.Direct
