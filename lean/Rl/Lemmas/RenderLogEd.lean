/-
  C02: the render log of the editor model is coherent.  Part 2 — the editor side, primitives.

  Invariants of the editor state relative to the replay of its log (`Rl/Lemmas/RenderLog.lean`), each under the
  assumption that the logged texts are of the quantified kind and the logged cursors on character boundaries
  (`LogFine`):
    `LogOK`  the log replays coherently (what is left at an early exit);
    `LogInv` … and the renderer's believed cursor is the editor's `layoutCursor` (between a change and its repaint);
    `TSh`    … and the screen shows the read's own prompt and the current text;
    `Sh`     … and the cursor.
  One `wp` lemma per logging primitive: the three refreshes, `moveCursor`, `editInsert`, the callback.
-/
import Rl.Editor
import Rl.Lemmas.EditorM
import Rl.Lemmas.LineBufferSafe
import Rl.Lemmas.RenderLog
namespace Rl
open EM

section
variable (S : Segmenter) (U : UData) (cfg : EdCfg)

def LogOK (s : Ed) : Prop :=
  LogFine S (edR U cfg) cfg.prompt s.render → ∃ rs g, Rep S (edR U cfg) cfg.prompt s.render rs g

def LogInv (s : Ed) : Prop :=
  LogFine S (edR U cfg) cfg.prompt s.render → DirtyP S (edR U cfg) cfg.prompt s.render s.layoutCursor

def TSh (s : Ed) : Prop :=
  LogFine S (edR U cfg) cfg.prompt s.render →
    TextShownP S (edR U cfg) cfg.prompt s.render s.layoutCursor s.line.buf s.hint

def Sh (s : Ed) : Prop :=
  LogFine S (edR U cfg) cfg.prompt s.render →
    ShownP S (edR U cfg) cfg.prompt s.render s.layoutCursor s.line.buf s.line.pos s.hint

/-- some prompt (the own one, or a search prompt), the line and the cursor are shown -/
def ShA (s : Ed) : Prop :=
  LogFine S (edR U cfg) cfg.prompt s.render →
    ShownA S (edR U cfg) cfg.prompt s.render s.layoutCursor s.line.buf s.line.pos s.hint

variable {S U cfg}

theorem Sh.any {s : Ed} (h : Sh S U cfg s) : ShA S U cfg s := fun hf => (h hf).any
theorem ShA.inv {s : Ed} (h : ShA S U cfg s) : LogInv S U cfg s := fun hf => (h hf).dirty

theorem Sh.tsh {s : Ed} (h : Sh S U cfg s) : TSh S U cfg s := fun hf => (h hf).text
theorem TSh.inv {s : Ed} (h : TSh S U cfg s) : LogInv S U cfg s := fun hf => (h hf).dirty
theorem Sh.inv {s : Ed} (h : Sh S U cfg s) : LogInv S U cfg s := h.tsh.inv
theorem LogInv.ok {s : Ed} (h : LogInv S U cfg s) : LogOK S U cfg s := fun hf => by
  obtain ⟨rs, g, hr, _⟩ := h hf; exact ⟨rs, g, hr⟩
theorem Sh.ok {s : Ed} (h : Sh S U cfg s) : LogOK S U cfg s := h.inv.ok

theorem LogOK.of_eq {s s' : Ed} (h : LogOK S U cfg s) (hr : s'.render = s.render) : LogOK S U cfg s' := by
  unfold LogOK at *; rw [hr]; exact h

theorem LogInv.of_eq {s s' : Ed} (h : LogInv S U cfg s) (hr : s'.render = s.render)
    (hl : s'.layoutCursor = s.layoutCursor) : LogInv S U cfg s' := by
  unfold LogInv at *; rw [hr, hl]; exact h

theorem TSh.of_eq {s s' : Ed} (h : TSh S U cfg s) (hr : s'.render = s.render)
    (hl : s'.layoutCursor = s.layoutCursor) (hb : s'.line.buf = s.line.buf) (hh : s'.hint = s.hint) :
    TSh S U cfg s' := by
  unfold TSh at *; rw [hr, hl, hb, hh]; exact h

theorem Sh.of_eq {s s' : Ed} (h : Sh S U cfg s) (hr : s'.render = s.render)
    (hl : s'.layoutCursor = s.layoutCursor) (hb : s'.line.buf = s.line.buf) (hp : s'.line.pos = s.line.pos)
    (hh : s'.hint = s.hint) : Sh S U cfg s' := by
  unfold Sh at *; rw [hr, hl, hb, hp, hh]; exact h

/-- the keys of the invariants -/
def Ed.lk (s : Ed) : List RenderOp × Pos := (s.render, s.layoutCursor)
def Ed.sk (s : Ed) : List RenderOp × Pos × Text × Nat × Option Text :=
  (s.render, s.layoutCursor, s.line.buf, s.line.pos, s.hint)

theorem LogInv.of_lk {s s' : Ed} (h : LogInv S U cfg s) (hk : s'.lk = s.lk) : LogInv S U cfg s' := by
  simp only [Ed.lk, Prod.mk.injEq] at hk; exact h.of_eq hk.1 hk.2

theorem Sh.of_sk {s s' : Ed} (h : Sh S U cfg s) (hk : s'.sk = s.sk) : Sh S U cfg s' := by
  simp only [Ed.sk, Prod.mk.injEq] at hk; exact h.of_eq hk.1 hk.2.1 hk.2.2.1 hk.2.2.2.1 hk.2.2.2.2

theorem ShA.of_sk {s s' : Ed} (h : ShA S U cfg s) (hk : s'.sk = s.sk) : ShA S U cfg s' := by
  simp only [Ed.sk, Prod.mk.injEq] at hk
  unfold ShA at *
  rw [hk.1, hk.2.1, hk.2.2.1, hk.2.2.2.1, hk.2.2.2.2]; exact h

theorem logFine_cons {R : RCfg} {p : Text} {op : RenderOp} {log : List RenderOp}
    (h : LogFine S R p (op :: log)) : OpFine S R p op ∧ LogFine S R p log :=
  ⟨h op List.mem_cons_self, fun o ho => h o (List.mem_cons_of_mem _ ho)⟩

/-! ### the hint and highlight steps change display fields only -/

theorem updateHint_cases (s : Ed) :
    (∃ h n, updateHint cfg s = .ok ((), { s with hint := h, hintCalls := n })) ∨
    (∃ n, updateHint cfg s = .error (.panic, { s with hintCalls := n })) := by
  unfold updateHint
  split
  · simp only []
    split
    · exact Or.inr ⟨_, rfl⟩
    · exact Or.inl ⟨_, _, rfl⟩
  · exact Or.inl ⟨none, s.hintCalls, rfl⟩

theorem highlightCharStep_cases (s : Ed) :
    ∃ b hc', highlightCharStep cfg s = .ok (b, { s with highlightChar := hc' }) := by
  unfold highlightCharStep
  split
  · simp only []
    split
    · exact ⟨_, _, rfl⟩
    · split
      · exact ⟨_, _, rfl⟩
      · exact ⟨false, s.highlightChar, rfl⟩
  · exact ⟨false, s.highlightChar, rfl⟩

theorem cursorFor_split {s : Ed} {b a : Text} (psize : Pos) (h : splitAtByte s.line.buf s.line.pos = some (b, a)) :
    cursorFor S U cfg psize s = calculatePosition S (edR U cfg) b psize := by
  unfold cursorFor; rw [h]

variable (hc : 2 ≤ cfg.cols) (hprompt : C02_Plain S (edR U cfg) cfg.prompt)
include hc hprompt
set_option linter.unusedSectionVars false

/-- a repaint under the read's own prompt, as the editor model records it -/
theorem sh_refresh {s s' : Ed} (h : LogInv S U cfg s) (info : Option Text)
    (hr : s'.render = .refresh none s.line.buf s.line.pos info :: s.render)
    (hl : s'.layoutCursor = cursorFor S U cfg (promptSizeOf S U cfg cfg.prompt) s)
    (hline : s'.line = s.line) (hh : s'.hint = info) : Sh S U cfg s' := by
  intro hf
  rw [hr] at hf
  obtain ⟨hop, hf'⟩ := logFine_cons hf
  obtain ⟨b, a, hs⟩ := hop.2.1
  obtain ⟨e1, e2⟩ := splitAtByte_some hs
  have := dirty_refresh_own (S := S) (R := edR U cfg) (prompt := cfg.prompt) hc hprompt (h hf') b a info
    (by rw [← e1, ← e2]; exact hop)
  rw [hr, hl, hline, hh, cursorFor_split _ hs, e1, e2]
  exact this

theorem wp_refreshLine_sh {s : Ed} (h : LogInv S U cfg s) :
    wp (refreshLine S U cfg) (fun _ s' => Sh S U cfg s') (fun _ s' => LogOK S U cfg s') s := by
  unfold refreshLine
  rw [wp_bind]
  rcases updateHint_cases (cfg := cfg) s with ⟨h1, n1, e1⟩ | ⟨n1, e1⟩
  · refine wp_of_eq_ok e1 ?_
    rw [wp_bind]
    obtain ⟨b, hc', e2⟩ := highlightCharStep_cases (cfg := cfg) { s with hint := h1, hintCalls := n1 }
    refine wp_of_eq_ok e2 ?_
    simp only [wp_bind, wp_setRefreshLayout, wp_logRender]
    exact sh_refresh hc hprompt (s := { s with hint := h1, hintCalls := n1, highlightChar := hc' })
      (h.of_eq rfl rfl) h1 rfl rfl rfl rfl
  · unfold wp; rw [e1]; exact h.ok.of_eq rfl

theorem wp_refreshLineWithMsg_sh {s : Ed} (h : LogInv S U cfg s) :
    wp (refreshLineWithMsg S U cfg none) (fun _ s' => Sh S U cfg s') (fun _ s' => LogOK S U cfg s') s := by
  unfold refreshLineWithMsg
  simp only [wp_bind, wp_modify]
  obtain ⟨b, hc', e2⟩ := highlightCharStep_cases (cfg := cfg) { s with hint := none }
  refine wp_of_eq_ok e2 ?_
  simp only [wp_bind, wp_setRefreshLayout, wp_logRender]
  exact sh_refresh hc hprompt (s := { s with hint := none, highlightChar := hc' })
    (h.of_eq rfl rfl) none rfl rfl rfl rfl

/-- a repaint under a dynamic prompt, as the editor model records it -/
theorem inv_refreshDyn {s s' : Ed} (h : LogInv S U cfg s) (p : Text) (info : Option Text)
    (hr : s'.render = .refresh (some p) s.line.buf s.line.pos info :: s.render)
    (hl : s'.layoutCursor = cursorFor S U cfg (promptSizeOf S U cfg p) s) : LogInv S U cfg s' := by
  intro hf
  rw [hr] at hf
  obtain ⟨hop, hf'⟩ := logFine_cons hf
  obtain ⟨b, a, hs⟩ := hop.2.1
  obtain ⟨e1, e2⟩ := splitAtByte_some hs
  obtain ⟨rs, g, hrep, hcur, hpl, _⟩ := dirty_refresh_dyn (S := S) (R := edR U cfg) (prompt := cfg.prompt) hc hprompt
    (h hf') p b a info (by rw [← e1, ← e2]; exact hop)
  rw [hr, hl, cursorFor_split _ hs, e1, e2]
  exact ⟨rs, g, hrep, hcur, hpl⟩

/-- a repaint under the prompt of an incremental search: that prompt, the line and the cursor are shown -/
theorem sha_refreshDyn {s s' : Ed} (h : LogInv S U cfg s) (p : Text) (hp : C02_IsSearchPrompt p) (info : Option Text)
    (hr : s'.render = .refresh (some p) s.line.buf s.line.pos info :: s.render)
    (hl : s'.layoutCursor = cursorFor S U cfg (promptSizeOf S U cfg p) s)
    (hline : s'.line = s.line) (hh : s'.hint = info) : ShA S U cfg s' := by
  intro hf
  rw [hr] at hf
  obtain ⟨hop, hf'⟩ := logFine_cons hf
  obtain ⟨b, a, hs⟩ := hop.2.1
  obtain ⟨e1, e2⟩ := splitAtByte_some hs
  obtain ⟨rs, g, hrep, hcur, hpl, hpr, hsp, hhi⟩ := dirty_refresh_dyn (S := S) (R := edR U cfg) (prompt := cfg.prompt)
    hc hprompt (h hf') p b a info (by rw [← e1, ← e2]; exact hop)
  rw [hr, hl, hline, hh, cursorFor_split _ hs, e1, e2]
  exact ⟨rs, g, hrep, hcur, hpl, Or.inr (by rw [hpr]; exact hp), hsp, Or.inl hhi⟩

theorem wp_refreshPromptAndLine_sha {s : Ed} (p : Text) (hp : C02_IsSearchPrompt p) (h : LogInv S U cfg s) :
    wp (refreshPromptAndLine S U cfg p) (fun _ s' => ShA S U cfg s')
      (fun _ s' => LogOK S U cfg s') s := by
  unfold refreshPromptAndLine
  rw [wp_bind]
  rcases updateHint_cases (cfg := cfg) s with ⟨h1, n1, e1⟩ | ⟨n1, e1⟩
  · refine wp_of_eq_ok e1 ?_
    rw [wp_bind]
    obtain ⟨b, hc', e2⟩ := highlightCharStep_cases (cfg := cfg) { s with hint := h1, hintCalls := n1 }
    refine wp_of_eq_ok e2 ?_
    simp only [wp_bind, wp_setRefreshLayout, wp_logRender]
    exact sha_refreshDyn hc hprompt (s := { s with hint := h1, hintCalls := n1, highlightChar := hc' })
      (h.of_eq rfl rfl) p hp h1 rfl rfl rfl rfl
  · unfold wp; rw [e1]; exact h.ok.of_eq rfl

/-- a repaint under a dynamic prompt (`(arg: n)`): the log stays coherent; the own prompt is off the screen
    until the next `refreshLine` -/
theorem wp_refreshPromptAndLine_loginv {s : Ed} (p : Text) (h : LogInv S U cfg s) :
    wp (refreshPromptAndLine S U cfg p) (fun _ s' => LogInv S U cfg s')
      (fun _ s' => LogOK S U cfg s') s := by
  unfold refreshPromptAndLine
  rw [wp_bind]
  rcases updateHint_cases (cfg := cfg) s with ⟨h1, n1, e1⟩ | ⟨n1, e1⟩
  · refine wp_of_eq_ok e1 ?_
    rw [wp_bind]
    obtain ⟨b, hc', e2⟩ := highlightCharStep_cases (cfg := cfg) { s with hint := h1, hintCalls := n1 }
    refine wp_of_eq_ok e2 ?_
    simp only [wp_bind, wp_setRefreshLayout, wp_logRender]
    exact inv_refreshDyn hc hprompt (s := { s with hint := h1, hintCalls := n1, highlightChar := hc' })
      (h.of_eq rfl rfl) p h1 rfl rfl
  · unfold wp; rw [e1]; exact h.ok.of_eq rfl

/-- `move_cursor`: from "the text is shown" to "text and cursor are shown" -/
theorem sh_moveCursor {s s' : Ed} (h : TSh S U cfg s) (hl : Bool)
    (hr : s'.render = .moveCursor s.line.buf s.line.pos hl :: s.render)
    (hlc : s'.layoutCursor = cursorFor S U cfg (promptSizeOf S U cfg cfg.prompt) s)
    (hline : s'.line = s.line) (hh : s'.hint = s.hint) : Sh S U cfg s' := by
  intro hf
  rw [hr] at hf
  obtain ⟨hop, hf'⟩ := logFine_cons hf
  obtain ⟨b, a, hs⟩ := hop.1
  obtain ⟨e1, e2⟩ := splitAtByte_some hs
  have h0 := h hf'
  rw [e1] at h0
  have := shown_moveCursor (S := S) (R := edR U cfg) (prompt := cfg.prompt) hc hprompt b a h0 hl
    (by rw [← e1, ← e2]; exact hop)
  rw [hr, hlc, hline, hh, cursorFor_split _ hs, e1, e2]
  exact this

theorem wp_moveCursor_sh {s : Ed} (h : TSh S U cfg s) :
    wp (moveCursor S U cfg) (fun _ s' => Sh S U cfg s') (fun _ s' => LogOK S U cfg s') s := by
  unfold moveCursor
  simp only [wp_bind, wp_get]
  by_cases hsame : (s.layoutCursor == cursorFor S U cfg (promptSizeOf S U cfg cfg.prompt) s) = true
  · rw [if_pos hsame, wp_logRender]
    exact sh_moveCursor hc hprompt h false rfl (by simpa using hsame) rfl rfl
  · rw [if_neg hsame, wp_bind]
    obtain ⟨b, hc', e2⟩ := highlightCharStep_cases (cfg := cfg) s
    refine wp_of_eq_ok e2 ?_
    cases b with
    | true =>
      simp only [if_true, wp_bind, wp_setRefreshLayout, wp_logRender]
      exact sh_moveCursor hc hprompt h true rfl rfl rfl rfl
    | false =>
      simp only [Bool.false_eq_true, if_false, wp_bind, wp_modify, wp_logRender]
      exact sh_moveCursor hc hprompt h false rfl rfl rfl rfl

/-- the callback (`Event::Any`) -/
theorem wp_customBinding_sh {s : Ed} (keys : List KeyEvent) (n : Nat) (p : Bool) (h : Sh S U cfg s) :
    wp (customBinding cfg keys n p) (fun _ s' => Sh S U cfg s') (fun _ s' => LogOK S U cfg s') s := by
  cases hfind : cfg.binds.find? (fun b => b.1 == keys) with
  | some bc =>
    obtain ⟨x, c⟩ := bc
    have e : customBinding cfg keys n p s = .ok (some c, s) := by unfold customBinding; rw [hfind]
    exact wp_of_eq_ok e h
  | none =>
    have e : customBinding cfg keys n p s = .ok (none, { s with
        obs := { line := s.line.buf, pos := s.line.pos, mode := modeName cfg s, hasHint := s.hint.isSome,
                 keys, n, positive := p } :: s.obs,
        render := .sync s.line.buf s.line.pos s.hint :: s.render }) := by
      unfold customBinding; rw [hfind]
    refine wp_of_eq_ok e ?_
    intro hf
    obtain ⟨_, hf'⟩ := logFine_cons hf
    exact shown_sync hc hprompt (h hf')

/-- the callback while a search prompt may be on display -/
theorem wp_customBinding_sha {s : Ed} (keys : List KeyEvent) (n : Nat) (p : Bool) (h : ShA S U cfg s) :
    wp (customBinding cfg keys n p) (fun _ s' => ShA S U cfg s') (fun _ s' => LogOK S U cfg s') s := by
  cases hfind : cfg.binds.find? (fun b => b.1 == keys) with
  | some bc =>
    obtain ⟨x, c⟩ := bc
    have e : customBinding cfg keys n p s = .ok (some c, s) := by unfold customBinding; rw [hfind]
    exact wp_of_eq_ok e h
  | none =>
    have e : customBinding cfg keys n p s = .ok (none, { s with
        obs := { line := s.line.buf, pos := s.line.pos, mode := modeName cfg s, hasHint := s.hint.isSome,
                 keys, n, positive := p } :: s.obs,
        render := .sync s.line.buf s.line.pos s.hint :: s.render }) := by
      unfold customBinding; rw [hfind]
    refine wp_of_eq_ok e ?_
    intro hf
    obtain ⟨_, hf'⟩ := logFine_cons hf
    exact any_sync hc hprompt (h hf')

/-! ### `edit_insert` -/

theorem sh_insert_slow {s s' : Ed} (h : LogInv S U cfg s) (ch : Char) (n : Nat) (push : Bool) (info : Option Text)
    (nph hl : Bool)
    (hr : s'.render = .insert ch n push s.line.buf s.line.pos info nph hl :: s.render)
    (hlc : s'.layoutCursor = cursorFor S U cfg (promptSizeOf S U cfg cfg.prompt) s)
    (hline : s'.line = s.line) (hh : s'.hint = info)
    (hslow : (push && (n == 1 && U.cwidth ch != 0 && decide (s.layoutCursor.col + U.cwidth ch < cfg.cols) &&
      (info.isNone && nph) && !hl)) = false) : Sh S U cfg s' := by
  intro hf
  rw [hr] at hf
  obtain ⟨hop, hf'⟩ := logFine_cons hf
  obtain ⟨b, a, hs⟩ := hop.1
  obtain ⟨e1, e2⟩ := splitAtByte_some hs
  have := dirty_insert_slow (S := S) (R := edR U cfg) (prompt := cfg.prompt) hc hprompt (h hf') ch n push b a info
    nph hl hslow (by rw [← e1, ← e2]; exact hop)
  rw [hr, hlc, hline, hh, cursorFor_split _ hs, e1, e2]
  exact this

theorem wp_editInsert_sh (hctl : ∀ c, isC0Control c = true → U.cwidth c = 0) {s : Ed} (ch : Char) (n : Nat)
    (h : Sh S U cfg s) :
    wp (editInsert S U cfg ch n) (fun _ s' => Sh S U cfg s') (fun _ s' => LogOK S U cfg s') s := by
  unfold editInsert
  rw [wp_bind]
  cases hins : LB.insert S U ch n s.line with
  | error e => rw [wp, lb_error S U hins]; exact h.ok
  | ok r =>
    obtain ⟨a, l, ns⟩ := r
    refine wp_lb S U hins ?_
    generalize hs0 : ({ s with line := l, changes := s.changes.onNotifs S U.alnum ns } : Ed) = s0
    have r0 : s0.render = s.render := by rw [← hs0]
    have c0 : s0.layoutCursor = s.layoutCursor := by rw [← hs0]
    have t0 : s0.hint = s.hint := by rw [← hs0]
    have l0 : s0.line = l := by rw [← hs0]
    have hinv0 : LogInv S U cfg s0 := h.inv.of_eq r0 c0
    rw [insert_eval] at hins
    by_cases ht : s.line.mustTruncate (s.line.len + ch.utf8Size * n) = true
    · rw [if_pos ht] at hins
      injection hins with hins
      simp only [Prod.mk.injEq] at hins
      obtain ⟨rfl, rfl, rfl⟩ := hins
      exact h.of_eq r0 c0 (by rw [l0]) (by rw [l0]) t0
    · rw [if_neg ht] at hins
      cases hs : splitAtByte s.line.buf s.line.pos with
      | none => rw [hs] at hins; cases hins
      | some xz =>
        obtain ⟨x, z⟩ := xz
        rw [hs] at hins
        injection hins with hins
        simp only [Prod.mk.injEq] at hins
        obtain ⟨rfl, hl, _⟩ := hins
        have lb0 : s0.line.buf = x ++ List.replicate n ch ++ z := by rw [l0, ← hl]
        have lp0 : s0.line.pos = s.line.pos + ch.utf8Size * n := by rw [l0, ← hl]
        simp only [wp_bind, wp_get]
        rcases updateHint_cases (cfg := cfg) s0 with ⟨h1, n1, e1⟩ | ⟨n1, e1⟩
        · refine wp_of_eq_ok e1 ?_
          cases hpush : (s.line.pos == s.line.len) with
          | false =>
            simp only [Bool.false_eq_true, if_false, wp_bind]
            obtain ⟨b, hc', e2⟩ := highlightCharStep_cases (cfg := cfg) { s0 with hint := h1, hintCalls := n1 }
            refine wp_of_eq_ok e2 ?_
            simp only [wp_setRefreshLayout, wp_logRender]
            exact sh_insert_slow hc hprompt (s := { s0 with hint := h1, hintCalls := n1, highlightChar := hc' })
              (hinv0.of_eq rfl rfl) ch n false h1 s0.hint.isNone b rfl rfl rfl rfl (by simp)
          | true =>
            simp only [if_true, wp_bind, wp_get, wp_ite]
            split
            next hguard =>
              obtain ⟨b, hc', e2⟩ := highlightCharStep_cases (cfg := cfg) { s0 with hint := h1, hintCalls := n1 }
              refine wp_of_eq_ok e2 ?_
              cases b with
              | true =>
                simp only [if_true, wp_bind, wp_setRefreshLayout, wp_logRender]
                exact sh_insert_slow hc hprompt (s := { s0 with hint := h1, hintCalls := n1, highlightChar := hc' })
                  (hinv0.of_eq rfl rfl) ch n true h1 s0.hint.isNone true rfl rfl rfl rfl (by simp)
              | false =>
                simp only [Bool.false_eq_true, if_false, wp_bind, wp_modify, wp_logRender]
                -- the fast path
                simp only [Bool.and_eq_true, beq_iff_eq, bne_iff_ne, ne_eq, decide_eq_true_eq] at hguard
                obtain ⟨⟨⟨hn1, hw⟩, hlt⟩, hh1, hnph⟩ := hguard
                subst hn1
                have hpos : s.line.pos = blen s.line.buf := by simpa [LB.len] using hpush
                have hxz : x = s.line.buf ∧ z = [] := by
                  have := splitAtByte_append s.line.buf []
                  rw [List.append_nil, ← hpos, hs] at this
                  injection this with this
                  simp only [Prod.mk.injEq] at this
                  exact ⟨this.1, this.2⟩
                obtain ⟨hx, hz⟩ := hxz
                have hhint : s.hint = none := by
                  rw [t0] at hnph
                  cases hsh : s.hint with
                  | none => rfl
                  | some t => rw [hsh] at hnph; simp at hnph
                have hh1' : h1 = none := by
                  cases h1 with
                  | none => rfl
                  | some t => simp at hh1
                subst hh1'
                have hch : isC0Control ch = false := by
                  cases hcc : isC0Control ch with
                  | false => rfl
                  | true => exact absurd (hctl ch hcc) hw
                have hbuf : s0.line.buf = s.line.buf ++ [ch] := by rw [lb0, hx, hz]; simp
                have hnewpos : s0.line.pos = blen (s.line.buf ++ [ch]) := by rw [lp0, hpos]; simp
                intro hf
                simp only [hbuf, hnewpos, r0, c0, t0, hhint, Option.isNone_none] at hf ⊢
                obtain ⟨hop, hf'⟩ := logFine_cons hf
                have h0 := h hf'
                rw [hpos, hhint] at h0
                exact shown_insert_fast (S := S) (R := edR U cfg) (prompt := cfg.prompt) hc hprompt h0 ch hch
                  (by simp only [Bool.and_eq_true, bne_iff_ne, ne_eq, decide_eq_true_eq]; exact ⟨hw, by rw [← c0]; exact hlt⟩) hop
            next hguard =>
              simp only [wp_bind, wp_setRefreshLayout, wp_logRender]
              refine sh_insert_slow hc hprompt (s := { s0 with hint := h1, hintCalls := n1 })
                (hinv0.of_eq rfl rfl) ch n true h1 s0.hint.isNone false rfl rfl rfl rfl ?_
              simp only [Bool.not_false, Bool.and_true, Bool.true_and]
              have : ¬ (n == 1 && U.cwidth ch != 0 && decide (s0.layoutCursor.col + U.cwidth ch < cfg.cols) &&
                  (h1.isNone && s0.hint.isNone)) = true := hguard
              exact Bool.eq_false_iff.mpr this
        · unfold wp; rw [e1]; exact hinv0.ok.of_eq rfl

end
end Rl
