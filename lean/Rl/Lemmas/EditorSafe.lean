/-
  No-panic / invariant-preservation facts for `execute` (property C17): from a state satisfying
  `EdWF` (cursor of the line and of the saved line on a character boundary — `WF` of C03 —, history
  index within the history) each covered command returns or exits without the `panic` outcome, and
  the state it leaves satisfies `EdWF` again.  Built from the `C03_*_total_wf` theorems.
-/
import Rl.Lemmas.EditorM
import Rl.Lemmas.EditorOps
import Rl.Props.C03
import Rl.Lemmas.KillRingSafe
namespace Rl
open EM

/-- the invariant on the part of the state `execute` can panic on -/
structure CoreWF (cfg : EdCfg) (c : CoreNC) : Prop where
  line : WF c.line
  saved : WF c.saved
  ring : RingOK c.ring

def EdWF (cfg : EdCfg) (s : Ed) : Prop := CoreWF cfg s.coreNC

theorem EdWF.of_core {cfg : EdCfg} {s s' : Ed} (h : EdWF cfg s) (hc : s'.core = s.core) : EdWF cfg s' := by
  unfold EdWF Ed.coreNC; rw [hc]; exact h

theorem EdWF.of_coreNC {cfg : EdCfg} {s s' : Ed} (h : EdWF cfg s) (hc : s'.coreNC = s.coreNC) : EdWF cfg s' := by
  unfold EdWF; rw [hc]; exact h

theorem EdWF.mk' {cfg : EdCfg} {s : Ed} (h1 : WF s.line) (h2 : WF s.saved)
    (h4 : RingOK s.ring) : EdWF cfg s := ⟨h1, h2, h4⟩

/-- a line-buffer operation that is total on well-formed buffers and keeps them well formed -/
def LMSafe {α : Type} (op : LM α) : Prop := ∀ lb, WF lb → ∃ r lb' ns, op lb = .ok (r, lb', ns) ∧ WF lb'

/-- the post- and exit-conditions of C17: the invariant again, and never the panic outcome -/
abbrev Safe {α : Type} (cfg : EdCfg) (m : EM α) (s : Ed) : Prop :=
  wp m (fun _ s' => EdWF cfg s') (fun o _ => o ≠ .panic) s

section
variable (S : Segmenter) (U : UData) (cfg : EdCfg)

theorem wp_lb_safe {α : Type} {op : LM α} (hop : LMSafe op) {s : Ed} (h : EdWF cfg s)
    {Q : α → Ed → Prop} {E : Outcome → Ed → Prop}
    (hq : ∀ a s', EdWF cfg s' → s'.saved = s.saved → s'.histIdx = s.histIdx → s'.ring = s.ring → Q a s') :
    wp (lb S U op) Q E s := by
  obtain ⟨r, l, ns, ho, hw⟩ := hop s.line h.line
  exact wp_lb S U ho (hq _ _ ⟨hw, h.saved, h.ring⟩ rfl rfl rfl)

theorem wp_lbQuiet_safe {α : Type} {op : LM α} (hop : LMSafe op) {s : Ed} (h : EdWF cfg s)
    {Q : α → Ed → Prop} {E : Outcome → Ed → Prop}
    (hq : ∀ a s', EdWF cfg s' → s'.saved = s.saved → s'.histIdx = s.histIdx → s'.ring = s.ring → Q a s') :
    wp (lbQuiet op) Q E s := by
  obtain ⟨r, l, ns, ho, hw⟩ := hop s.line h.line
  exact wp_lbQuiet ho (hq _ _ ⟨hw, h.saved, h.ring⟩ rfl rfl rfl)

/-- (for helpers that do not panic) -/
theorem safe_refreshLine (hnp : cfg.hinterPanicAt = none) {s : Ed} (h : EdWF cfg s) :
    Safe cfg (refreshLine S U cfg) s :=
  wp_refreshLine_np S U cfg hnp fun _ hc => h.of_core hc

theorem safe_moveCursor {s : Ed} (h : EdWF cfg s) : Safe cfg (moveCursor S U cfg) s :=
  wp_moveCursor S U cfg fun _ hc => h.of_core hc

theorem safe_pure {α : Type} (a : α) {s : Ed} (h : EdWF cfg s) : Safe cfg (pure a : EM α) s := h

/-- sequencing two safe steps -/
theorem Safe.bind {α β : Type} {m : EM α} {f : α → EM β} {s : Ed}
    (hm : Safe cfg m s) (hf : ∀ a s', EdWF cfg s' → Safe cfg (f a) s') : Safe cfg (m >>= f) s := by
  unfold Safe; rw [wp_bind]
  exact wp_mono hm (fun a s' h => hf a s' h) (fun _ _ h => h)

theorem safe_editMove {op : LM Bool} (hop : LMSafe op) {s : Ed} (h : EdWF cfg s) :
    Safe cfg (editMove S U cfg op) s := by
  unfold Safe editMove
  rw [wp_bind]
  refine wp_lbQuiet_safe cfg hop h fun b s' h' _ _ _ => ?_
  split
  · exact safe_moveCursor S U cfg h'
  · exact h'

theorem safe_grouped {op : LM Bool} (hop : LMSafe op) (hnp : cfg.hinterPanicAt = none) {s : Ed} (h : EdWF cfg s) :
    Safe cfg (grouped S U cfg op) s := by
  unfold Safe grouped
  simp only [wp_bind, wp_changesBegin]
  refine wp_lb_safe S U cfg hop (s := { s with changes := s.changes.begin.1 }) h fun b s' h' _ _ _ => ?_
  simp only [wp_changesEnd]
  split
  · exact safe_refreshLine S U cfg hnp h'
  · exact h'

theorem safe_editInsert (hnp : cfg.hinterPanicAt = none) (c : Char) (n : Nat) {s : Ed} (h : EdWF cfg s) : Safe cfg (editInsert S U cfg c n) s := by
  refine wp_mono (editInsert_spec_np S U cfg hnp c n s) ?_ ?_
  · intro _ s' ⟨r, l, ns, hi, hc⟩
    obtain ⟨r', l', ns', hi', hw⟩ := C03_insert_total_wf S U c n s.line h.line
    rw [hi] at hi'; cases hi'
    have : EdWF cfg ({ s with line := l, changes := s.changes.onNotifs S U.alnum ns } : Ed) := ⟨hw, h.saved, h.ring⟩
    exact this.of_core hc
  · intro o s' ⟨_, _, e, he⟩
    obtain ⟨r', l', ns', hi', _⟩ := C03_insert_total_wf S U c n s.line h.line
    rw [he] at hi'; cases hi'

/-! ### the line-buffer operations `execute` uses are safe (C03) -/

theorem lmsafe_of3 {α : Type} {op : LM α}
    (h : ∀ lb, WF lb → ∃ r lb', op lb = .ok (r, lb', []) ∧ WF lb' ∧ lb'.buf = lb.buf) : LMSafe op :=
  fun lb hw => let ⟨r, lb', h1, h2, _⟩ := h lb hw; ⟨r, lb', [], h1, h2⟩

theorem lmsafe_moveHome : LMSafe (LB.moveHome S U) := lmsafe_of3 (C03_moveHome_total_wf S U)
theorem lmsafe_moveEnd : LMSafe (LB.moveEnd S U) := lmsafe_of3 (C03_moveEnd_total_wf S U)
theorem lmsafe_moveToFirstPrint : LMSafe (LB.moveToFirstPrint S U) :=
  lmsafe_of3 (C03_moveToFirstPrint_total_wf S U)
theorem lmsafe_moveBackward (n : Nat) : LMSafe (LB.moveBackward S U n) :=
  lmsafe_of3 fun lb h => C03_moveBackward_total_wf S U lb n h
theorem lmsafe_moveForward (n : Nat) : LMSafe (LB.moveForward S U n) :=
  lmsafe_of3 fun lb h => C03_moveForward_total_wf S U lb n h
theorem lmsafe_moveBufferStart : LMSafe (LB.moveBufferStart S U) :=
  lmsafe_of3 fun lb _ => C03_moveBufferStart_total_wf S U lb
theorem lmsafe_moveBufferEnd : LMSafe (LB.moveBufferEnd S U) := lmsafe_of3 (C03_moveBufferEnd_total_wf S U)

theorem lmsafe_moveToPrevWord (w : Word) (n : Nat) : LMSafe (LB.moveToPrevWord S U w n) :=
  lmsafe_of3 fun lb h => C03_moveToPrevWord_total_wf S U w n lb h
theorem lmsafe_moveToNextWord (a : At) (w : Word) (n : Nat) : LMSafe (LB.moveToNextWord S U a w n) :=
  lmsafe_of3 fun lb h => C03_moveToNextWord_total_wf S U a w n lb h
theorem lmsafe_moveTo (cs : CharSearch) (n : Nat) : LMSafe (LB.moveTo S U cs n) :=
  lmsafe_of3 fun lb h => C03_moveTo_total_wf S U cs n lb h
theorem lmsafe_moveToLineUp (n pc : Nat) : LMSafe (LB.moveToLineUp S U n pc) :=
  lmsafe_of3 fun lb h => C03_moveToLineUp_total_wf S U n pc lb h
theorem lmsafe_moveToLineDown (n pc : Nat) : LMSafe (LB.moveToLineDown S U n pc) :=
  lmsafe_of3 fun lb h => C03_moveToLineDown_total_wf S U n pc lb h

theorem lmsafe_transposeChars : LMSafe (LB.transposeChars S U) :=
  fun lb h => C03_transposeChars_total_wf S U lb h
theorem lmsafe_editWord (a : WordAction) : LMSafe (LB.editWord S U a) :=
  fun lb h => C03_editWord_total_wf S U a lb h
theorem lmsafe_transposeWords (n : Nat) : LMSafe (LB.transposeWords S U n) :=
  fun lb h => C03_transposeWords_total_wf S U n lb h
theorem lmsafe_yank (t : Text) (n : Nat) : LMSafe (LB.yank S U t n) :=
  fun lb h => C03_yank_total_wf S U t n lb h

theorem safe_editYank (t : Text) (a : Anchor) (n : Nat) (hnp : cfg.hinterPanicAt = none) {s : Ed} (h : EdWF cfg s) :
    Safe cfg (editYank S U cfg t a n) s := by
  -- the paste and, on refusal, `set_pos(pos)`: from a state whose line still holds the text of `s`
  have tail : ∀ (l1 : LB), WF l1 → l1.buf = s.line.buf →
      wp (do match ← lb S U (LB.yank S U t n) with
             | some _ => do
               if cfg.vi then do let _ ← lbQuiet (LB.moveBackward S U 1); Pure.pure ()
               refreshLine S U cfg
             | none => lbQuiet (LB.setPosChecked S U s.line.pos) : EM Unit)
        (fun _ s' => EdWF cfg s') (fun o _ => o ≠ .panic) ({ s with line := l1 } : Ed) := by
    intro l1 hw1 hb1
    have h1 : EdWF cfg ({ s with line := l1 } : Ed) := ⟨hw1, h.saved, h.ring⟩
    obtain ⟨r, l2, ns, hy, hw2⟩ := C03_yank_total_wf S U t n l1 hw1
    rw [wp_bind]
    refine wp_lb S U (s := { s with line := l1 }) hy ?_
    have h2 : EdWF cfg ({ s with line := l2, changes := s.changes.onNotifs S U.alnum ns } : Ed) :=
      ⟨hw2, h.saved, h.ring⟩
    cases r with
    | some b =>
      simp only []
      split
      · simp only [wp_bind]
        refine wp_lbQuiet_safe cfg (lmsafe_moveBackward S U 1) h2 fun _ s3 h3 _ _ _ => ?_
        exact safe_refreshLine S U cfg hnp h3
      · exact safe_refreshLine S U cfg hnp h2
    | none =>
      simp only []
      -- a refused paste left the line as it was
      have hl2 : l2 = l1 := by
        rw [yank_eval] at hy
        split at hy
        · cases hy; rfl
        · split at hy <;> cases hy
      subst hl2
      have hle : s.line.pos ≤ l2.len := by
        have := IsBoundary.le_len h.line
        show s.line.pos ≤ blen l2.buf
        rw [hb1]; exact this
      have hs3 : LB.setPosChecked S U s.line.pos l2 = .ok ((), { l2 with pos := s.line.pos }, []) := by
        simp [LB.setPosChecked, hle]
      refine wp_lbQuiet (s := { s with line := l2, changes := s.changes.onNotifs S U.alnum ns }) hs3 ?_
      refine ⟨?_, h.saved, h.ring⟩
      show IsBoundary l2.buf s.line.pos
      rw [hb1]; exact h.line
  unfold Safe editYank
  rw [wp_bind, wp_get]
  simp only []
  split
  · rw [wp_bind]
    obtain ⟨r1, l1, hmf, hw1, hb1⟩ := C03_moveForward_total_wf S U s.line 1 h.line
    refine wp_lbQuiet hmf ?_
    exact tail l1 hw1 hb1
  · exact tail s.line h.line rfl

theorem safe_completeHintLine (hnp : cfg.hinterPanicAt = none) {s : Ed} (h : EdWF cfg s) : Safe cfg (completeHintLine S U cfg) s := by
  unfold Safe completeHintLine
  rw [wp_bind', wp_read]
  cases hh : s.hint with
  | none => exact h
  | some t =>
    simp only [wp_bind]
    refine wp_lbQuiet_safe cfg (lmsafe_moveEnd S U) h fun _ s1 h1 _ _ _ => ?_
    refine wp_lb_safe S U cfg (lmsafe_yank S U t 1) h1 fun _ s2 h2 _ _ _ => ?_
    exact safe_refreshLine S U cfg hnp h2

/-- `validate` and the accepting commands, for a validator that does not itself panic -/
theorem safe_validate (hv : ∀ t, cfg.validator t ≠ .panic) {s : Ed} (h : EdWF cfg s) :
    wp (validate S U cfg) (fun _ s' => EdWF cfg s') (fun o _ => o ≠ .panic) s := by
  refine wp_mono (validate_spec S U cfg s) ?_ ?_
  · intro v s' ⟨h1, h2, h3, h4, _⟩
    exact EdWF.mk' (by rw [h1]; exact h.line) (by rw [h2]; exact h.saved)
      (by rw [h3]; exact h.ring)
  · intro o s' ⟨_, _, h3⟩
    rcases h3 with ⟨rfl, _⟩ | ⟨_, hp⟩
    · intro hh; cases hh
    · exact absurd hp (hv _)

theorem safe_execAccept (hv : ∀ t, cfg.validator t ≠ .panic) (hnp : cfg.hinterPanicAt = none) (aim : Bool) {s : Ed} (h : EdWF cfg s) :
    Safe cfg (execAccept S U cfg aim) s := by
  refine wp_mono (execAccept_spec S U cfg aim s) ?_ ?_
  · intro st s' ⟨_, _, h2, h3, h4, hm⟩
    have hl : WF s'.line := by
      cases ha : acceptActOf U cfg aim s with
      | submit => rw [ha] at hm; rw [hm.2]; exact h.line
      | stay => rw [ha] at hm; rw [hm.2]; exact h.line
      | insertNewline =>
        rw [ha] at hm
        obtain ⟨_, r, ns, hi⟩ := hm
        obtain ⟨r', l', ns', hi', hw⟩ := C03_insert_total_wf S U '\n' 1 s.line h.line
        rw [hi] at hi'; cases hi'; exact hw
    exact EdWF.mk' hl (by rw [h2]; exact h.saved) (by rw [h3]; exact h.ring)
  · intro o s' hE
    rcases hE with ⟨_, h3⟩ | ⟨_, hne, _⟩
    · rcases h3 with ⟨rfl, _⟩ | ⟨_, _, hp⟩ | ⟨_, _, _, e, he⟩
      · intro hh; cases hh
      · exact absurd hp (hv _)
      · obtain ⟨r', l', ns', hi', _⟩ := C03_insert_total_wf S U '\n' 1 s.line h.line
        rw [he] at hi'; cases hi'
    · exact absurd hnp hne

theorem safe_withPreAccept {α : Type} {k : EM α} {s : Ed} (h : EdWF cfg s)
    (hk : ∀ s1, EdWF cfg s1 → Safe cfg k s1) : Safe cfg (withPreAccept S U cfg k) s :=
  wp_withPreAccept S U cfg fun s1 hc => hk s1 (h.of_core hc)


/-! ### kill ring: `edit_kill`, `Yank`, `ViYankTo` under the ring bounds invariant -/

theorem ringNotif_ok {k : KillRing} (h : RingOK k) (n : Notif) : ∃ k', ringNotif k n = .ok k' ∧ RingOK k' := by
  cases n with
  | startKill => exact ⟨_, rfl, h.startKilling⟩
  | stopKill => exact ⟨_, rfl, h.stopKilling⟩
  | del i t d => exact h.onDelete_ok t d
  | insChar i c => exact ⟨k, rfl, h⟩
  | insStr i t => exact ⟨k, rfl, h⟩
  | repl i o n => exact ⟨k, rfl, h⟩

theorem lbKill_go_ok : ∀ (ns : List Notif) {k : KillRing}, RingOK k →
    ∃ k', lbKill.go ns k = .ok k' ∧ RingOK k' := by
  intro ns
  induction ns with
  | nil => intro k h; exact ⟨k, rfl, h⟩
  | cons n rest ih =>
    intro k h
    obtain ⟨k1, h1, hk1⟩ := ringNotif_ok h n
    obtain ⟨k2, h2, hk2⟩ := ih hk1
    refine ⟨k2, ?_, hk2⟩
    unfold lbKill.go
    rw [h1]; exact h2

theorem wp_lbKill_safe {α : Type} {op : LM α} (hop : LMSafe op) {s : Ed} (h : EdWF cfg s)
    {Q : α → Ed → Prop} {E : Outcome → Ed → Prop}
    (hq : ∀ a s', EdWF cfg s' → Q a s') : wp (lbKill S U op) Q E s := by
  obtain ⟨r, l, ns, ho, hw⟩ := hop s.line h.line
  have hr : RingOK s.ring := h.ring
  obtain ⟨k', hg, hk'⟩ := lbKill_go_ok ns hr
  unfold wp lbKill
  rw [ho]
  simp only [hg]
  refine hq _ _ ?_
  exact EdWF.mk' hw h.saved hk'

theorem lmsafe_kill (mvt : Movement) : LMSafe (LB.kill S U mvt) :=
  fun lb h => C03_kill_total_wf S U mvt lb h

theorem safe_editKill (mvt : Movement) (hnp : cfg.hinterPanicAt = none) {s : Ed} (h : EdWF cfg s) :
    Safe cfg (editKill S U cfg mvt) s := by
  unfold Safe editKill
  rw [wp_bind]
  refine wp_lbKill_safe S U cfg (lmsafe_kill S U mvt) h fun b s' h' => ?_
  split
  · exact safe_refreshLine S U cfg hnp h'
  · exact h'

theorem safe_editInsertText (t : Text) (hnp : cfg.hinterPanicAt = none) {s : Ed} (h : EdWF cfg s) :
    Safe cfg (editInsertText S U cfg t) s := by
  unfold Safe editInsertText
  split
  · exact h
  · simp only [wp_bind, wp_getLine]
    obtain ⟨r, l, ns, hi, hw⟩ := C03_insertStr_total_wf S U s.line.pos t s.line h.line h.line (Nat.le_refl _)
    refine wp_lb S U hi ?_
    exact safe_refreshLine S U cfg hnp (EdWF.mk' hw h.saved h.ring)

theorem wp_ringYank_safe {s : Ed} (h : EdWF cfg s) {Q : Option Text → Ed → Prop} {E : Outcome → Ed → Prop}
    (hq : ∀ t s', EdWF cfg s' → Q t s') : wp ringYank Q E s := by
  have hr : RingOK s.ring := h.ring
  obtain ⟨k', t, hy, hk'⟩ := hr.yank_ok
  unfold wp ringYank
  rw [hy]
  refine hq _ _ ?_
  exact EdWF.mk' h.line h.saved hk'

theorem wp_ringYankPop_safe {s : Ed} (h : EdWF cfg s) {Q : Option (Nat × Text) → Ed → Prop}
    {E : Outcome → Ed → Prop} (hq : ∀ t s', EdWF cfg s' → Q t s') : wp ringYankPop Q E s := by
  have hr : RingOK s.ring := h.ring
  obtain ⟨k', t, hy, hk'⟩ := hr.yankPop_ok
  unfold wp ringYankPop
  rw [hy]
  refine hq _ _ ?_
  exact EdWF.mk' h.line h.saved hk'

theorem safe_ringKill (t : Text) {s : Ed} (h : EdWF cfg s) : Safe cfg (ringKill t) s := by
  have hr : RingOK s.ring := h.ring
  obtain ⟨k', hy, hk'⟩ := hr.kill_ok t .append
  unfold Safe wp ringKill
  rw [hy]
  exact EdWF.mk' h.line h.saved hk'.reset

end
end Rl
