/-
  C01_execute_refines, third part: the case changes M-u / M-l / M-c (`LineBuffer::edit_word` against
  `Doc.editWordWant`) and C-t (`transpose_chars` against `Doc.transposeWant`).
-/
import Rl.Lemmas.ExecRefines2
set_option linter.unusedVariables false
set_option linter.unusedSimpArgs false
namespace Rl
open EM Rl.Spec Rl.Spec.Doc

section
variable (S : Segmenter) (U : UData)

/-! ### list lemmas: the first cluster with a property, the first end of a word -/

/-- `grapheme_indices().find(p)`: the offset of the first cluster satisfying `P` -/
theorem gidxGo_find (P : Text → Bool) (o : Nat) (gs : List Text) :
    ((gidxGo o gs).find? (fun x => P x.2)).map (·.1) =
      if (gs.dropWhile (fun g => !P g)).isEmpty then none
      else some (o + offOf gs (gs.takeWhile (fun g => !P g)).length) := by
  induction gs generalizing o with
  | nil => simp [gidxGo]
  | cons g gs ih =>
    by_cases hp : P g = true
    · simp [gidxGo, hp, offOf]
    · have hp' : P g = false := by simpa using hp
      simp only [gidxGo, List.find?_cons, hp', List.dropWhile_cons, List.takeWhile_cons, Bool.not_false,
        if_true, List.length_cons]
      rw [ih]
      split
      · rfl
      · congr 1
        simp [offOf]; omega

/-- in a run `w ++ r` of clusters, `w` non-empty and alphanumeric, `r` empty or starting with a
    non-alphanumeric cluster: the first emacs end-of-word is after `w`, if anything follows -/
theorem pairIdx_endOfWord_head (j0 : Nat) (w r : List Text) (hw : w ≠ []) (hall : ∀ g ∈ w, g.all U.alnum = true)
    (hr : ∀ g, r.head? = some g → g.all U.alnum = false) :
    (pairIdx (isEndOfWord U .emacs) j0 (w ++ r)).head? = if r.isEmpty then none else some (j0 + w.length) := by
  induction w generalizing j0 with
  | nil => exact absurd rfl hw
  | cons a w ih =>
    cases w with
    | nil =>
      cases r with
      | nil => simp [pairIdx]
      | cons b r =>
        have ha := hall a (by simp)
        have hb := hr b rfl
        simp [pairIdx, isEndOfWord, isWordChar, ha, hb]
    | cons b w =>
      have ha := hall a (by simp)
      have hb := hall b (by simp)
      have hstep : pairIdx (isEndOfWord U .emacs) j0 (a :: b :: w ++ r) =
          pairIdx (isEndOfWord U .emacs) (j0 + 1) (b :: w ++ r) := by
        simp [pairIdx, isEndOfWord, isWordChar, ha, hb]
      rw [hstep, ih (j0 + 1) (by simp) (fun g hg => hall g (by simp [hg]))]
      split
      · rfl
      · simp; omega

theorem takeWhile_append_dropWhile_head {α : Type} (p : α → Bool) (l : List α) :
    ∀ g, (l.dropWhile p).head? = some g → p g = false := by
  intro g hg
  induction l with
  | nil => simp at hg
  | cons a l ih =>
    by_cases ha : p a = true
    · simp [List.dropWhile_cons, ha] at hg; exact ih hg
    · simp [List.dropWhile_cons, ha] at hg; subst hg; simpa using ha

theorem drop_takeWhile_length {α : Type} (p : α → Bool) (l : List α) :
    l.drop (l.takeWhile p).length = l.dropWhile p := by
  induction l with
  | nil => rfl
  | cons a l ih => by_cases ha : p a = true <;> simp [List.takeWhile_cons, List.dropWhile_cons, ha, ih]

theorem take_takeWhile_length {α : Type} (p : α → Bool) (l : List α) :
    l.take (l.takeWhile p).length = l.takeWhile p := by
  induction l with
  | nil => rfl
  | cons a l ih => by_cases ha : p a = true <;> simp [List.takeWhile_cons, ha, ih]

theorem offOf_takeWhile (p : Text → Bool) (gs : List Text) :
    offOf gs (gs.takeWhile p).length = blen (gs.takeWhile p).flatten := by
  unfold offOf
  rw [take_takeWhile_length]

/-! ### `skip_whitespace`: the first alphanumeric cluster at or after the cursor -/

theorem skipWhitespace_eq (lb : LB) (pre suf : Text) (hb : lb.buf = pre ++ suf) (hp : lb.pos = blen pre) :
    LB.skipWhitespace S U lb = .ok (
      if ((S.seg suf).dropWhile (fun g => !g.all U.alnum)).isEmpty then none
      else some (blen (pre ++ ((S.seg suf).takeWhile (fun g => !g.all U.alnum)).flatten))) := by
  unfold LB.skipWhitespace
  by_cases he : lb.pos = lb.len
  · have hs : suf = [] := by
      have : blen suf = 0 := by simp [LB.len, hb, hp] at he; omega
      exact blen_eq_zero.mp this
    subst hs
    simp [he, seg_nil]; rfl
  · have he' : (lb.pos == lb.len) = false := by simpa using he
    have hsf : sliceFrom lb.buf lb.pos = .ok suf := by rw [hb, hp]; exact sliceFrom_mid pre suf
    have hf := gidxGo_find (fun g => g.all U.alnum) 0 (S.seg suf)
    simp only [he', Bool.false_eq_true, if_false, hsf, bind, Except.bind, pure, Except.pure]
    congr 1
    have hm : ∀ o : Option (Nat × Text), o.map (fun x => match x with | (i, _) => i + lb.pos) =
        (o.map (·.1)).map (· + lb.pos) := by intro o; cases o <;> rfl
    have hfn : (fun (x : Nat × Text) => match x with | (_, g) => g.all U.alnum) = (fun x => x.2.all U.alnum) := by
      funext x; rfl
    rw [hm, hfn]
    unfold gidx
    rw [hf]
    split
    · rfl
    · simp [offOf_takeWhile, hp]; omega

theorem mem_takeWhile_p {α : Type} (p : α → Bool) (l : List α) : ∀ a ∈ l.takeWhile p, p a = true := by
  induction l with
  | nil => intro a ha; simp at ha
  | cons b l ih =>
    intro a ha
    by_cases hb : p b = true
    · simp [List.takeWhile_cons, hb] at ha
      rcases ha with rfl | ha
      · exact hb
      · exact ih a ha
    · simp [List.takeWhile_cons, hb] at ha

/-! ### the end of the word that starts at a given alphanumeric cluster -/

theorem nextWordPos_word (lb : LB) (x : Text) (dw : List Text) (hb : lb.buf = x ++ dw.flatten)
    (hseg : S.seg dw.flatten = dw) (g0 : Text) (tl : List Text) (hdw : dw = g0 :: tl)
    (hA : g0.all U.alnum = true) :
    LB.nextWordPos S U lb (blen x) .afterEnd .emacs 1 =
      .ok (some (blen x + blen (dw.takeWhile (fun g => g.all U.alnum)).flatten)) := by
  have hw1 : WF ({ lb with pos := blen x } : LB) := ⟨x, dw.flatten, hb, rfl⟩
  have h1 : LB.nextWordPos S U lb (blen x) .afterEnd .emacs 1 =
      LB.nextWordPosR S U ({ lb with pos := blen x } : LB) ({ lb with pos := blen x } : LB).pos .afterEnd .emacs 1 false := rfl
  rw [h1, nextWordPosR_afterEnd S U _ .emacs 1 false hw1 (by simp)]
  congr 1
  have hsp : splitAt? lb.buf (blen x) = some (x, dw.flatten) := by
    unfold splitAt?; rw [hb]; exact splitAtByte_append x _
  have hg0 : g0 ≠ [] := S.ne_nil dw.flatten g0 (by rw [hseg, hdw]; simp)
  have hne : dw.flatten.isEmpty = false := by
    rw [hdw]; cases g0 with
    | nil => exact absurd rfl hg0
    | cons c t => simp
  have hsplit := List.takeWhile_append_dropWhile (p := fun g : Text => g.all U.alnum) (l := dw)
  have hwne : dw.takeWhile (fun g => g.all U.alnum) ≠ [] := by
    rw [hdw]; simp [List.takeWhile_cons, hA]
  have hhead := pairIdx_endOfWord_head U 0 (dw.takeWhile (fun g => g.all U.alnum))
    (dw.dropWhile (fun g => g.all U.alnum)) hwne
    (fun g hg => mem_takeWhile_p (fun g : Text => g.all U.alnum) dw g hg)
    (fun g hg => by
      have := takeWhile_append_dropWhile_head (fun g : Text => g.all U.alnum) dw g hg
      simpa using this)
  rw [hsplit] at hhead
  simp only [wordTargetFwd, hsp, hne, Bool.false_eq_true, if_false, hseg, Nat.sub_self]
  have h0 : ∀ l : List Nat, l[0]? = l.head? := by intro l; cases l <;> rfl
  rw [h0, List.head?_map, hhead]
  by_cases hr : (dw.dropWhile (fun g => g.all U.alnum)).isEmpty = true
  · have hrn : dw.dropWhile (fun g => g.all U.alnum) = [] := by simpa using hr
    have hall : dw.takeWhile (fun g => g.all U.alnum) = dw := by
      have := hsplit; rw [hrn] at this; simpa using this
    simp [hr, hall, hb]
  · simp [hr, Nat.zero_add, offOf_takeWhile]

/-! ### `edit_word` against `editWordWant` -/

/-- **M-u / M-l / M-c** at the level of the line buffer: `edit_word` returns, and text and cursor are
    those of `editWordWant` (stable segmenter; no further side condition: the cursor is set
    numerically to the end of the replacement) -/
theorem editWord_refines (hS : S.Stable) (mode : Mode) (a : WordAction) (lb : LB) (h : WF lb) :
    ∃ r l ns, LB.editWord S U a lb = .ok (r, l, ns) ∧
      ((Act.editWord a).apply S U mode lb.buf lb.pos).holds l := by
  obtain ⟨pre, suf, hb, hp⟩ := h.split
  have hsp : splitAt? lb.buf lb.pos = some (pre, suf) := by
    unfold splitAt?; rw [hb, hp]; exact splitAtByte_append pre suf
  have hskip := skipWhitespace_eq S U lb pre suf hb hp
  have hdt := drop_takeWhile_length (fun g : Text => !g.all U.alnum) (S.seg suf)
  by_cases hd : ((S.seg suf).dropWhile (fun g => !g.all U.alnum)).isEmpty = true
  · -- no word after the cursor: nothing happens
    rw [if_pos hd] at hskip
    have hdn : (S.seg suf).dropWhile (fun g => !g.all U.alnum) = [] := by simpa using hd
    refine ⟨false, lb, [], by simp [LB.editWord, LM.bind_apply, LM.ro, hskip], ?_⟩
    simp [Act.apply, editWordWant, hsp, hdt, hdn, seg_nil, Want.holds]
  · rw [if_neg hd] at hskip
    generalize hdw : (S.seg suf).dropWhile (fun g => !g.all U.alnum) = dw at *
    generalize hsk : (S.seg suf).takeWhile (fun g => !g.all U.alnum) = skip at *
    cases dw with
    | nil => simp at hd
    | cons g0 tl =>
      have hA : g0.all U.alnum = true := by
        have := takeWhile_append_dropWhile_head (fun g : Text => !g.all U.alnum) (S.seg suf) g0 (by rw [hdw]; rfl)
        simpa using this
      have hseg : S.seg (g0 :: tl).flatten = g0 :: tl := by
        have := (hS suf skip.length).2
        rw [hdt] at this
        exact this
      have hsuf : suf = skip.flatten ++ (g0 :: tl).flatten := by
        have := List.takeWhile_append_dropWhile (p := fun g : Text => !g.all U.alnum) (l := S.seg suf)
        rw [hsk, hdw] at this
        rw [← List.flatten_append, this, S.flatten_eq]
      have hbuf : lb.buf = (pre ++ skip.flatten) ++ (g0 :: tl).flatten := by rw [hb, hsuf]; simp
      have hnw := nextWordPos_word S U lb (pre ++ skip.flatten) (g0 :: tl) hbuf hseg g0 tl rfl hA
      generalize hwd : ((g0 :: tl).takeWhile (fun g => g.all U.alnum)) = w at *
      generalize hrd : ((g0 :: tl).dropWhile (fun g => g.all U.alnum)) = rr at *
      have hwr : (g0 :: tl).flatten = w.flatten ++ rr.flatten := by
        have := List.takeWhile_append_dropWhile (p := fun g : Text => g.all U.alnum) (l := g0 :: tl)
        rw [hwd, hrd] at this
        rw [← List.flatten_append, this]
      have hwne : w.flatten ≠ [] := by
        have hg0 : g0 ≠ [] := S.ne_nil _ g0 (by rw [hseg]; simp)
        have : w = g0 :: (tl.takeWhile (fun g => g.all U.alnum)) := by
          rw [← hwd]; simp [List.takeWhile_cons, hA]
        rw [this]
        cases g0 with
        | nil => exact absurd rfl hg0
        | cons c t => simp
      have hwpos := blen_pos_of_ne_nil hwne
      have hbuf3 : lb.buf = (pre ++ skip.flatten) ++ w.flatten ++ rr.flatten := by rw [hbuf, hwr]; simp
      have hdr := drain_at (pre ++ skip.flatten) w.flatten rr.flatten .forward lb hbuf3
      have hins := insertStr_at S U (pre ++ skip.flatten) rr.flatten (mapWord S U a w.flatten)
        ({ lb with buf := (pre ++ skip.flatten) ++ rr.flatten } : LB) rfl
      have hne : (blen (pre ++ skip.flatten) == blen (pre ++ skip.flatten) + blen w.flatten) = false := by
        simp; omega
      have hk : ∃ l ns, LB.editWord S U a lb = .ok (true, l, ns) ∧
          l.buf = (pre ++ skip.flatten) ++ mapWord S U a w.flatten ++ rr.flatten ∧
          l.pos = blen (pre ++ skip.flatten) + blen (mapWord S U a w.flatten) := by
        unfold LB.editWord
        simp only [LM.bind_apply, LM.ro, hskip, hnw, hne, Bool.false_eq_true, if_false, hdr]
        cases a with
        | uppercase =>
          simp only [mapWord] at hins ⊢
          simp only [LM.bind_apply, LM.pure_apply, hins, LM.setPos]
          exact ⟨_, _, rfl, rfl, rfl⟩
        | lowercase =>
          simp only [mapWord] at hins ⊢
          simp only [LM.bind_apply, LM.pure_apply, hins, LM.setPos]
          exact ⟨_, _, rfl, rfl, rfl⟩
        | capitalize =>
          obtain ⟨g, r, hg, hgr, _⟩ := seg_head S hwne
          have hsl : sliceFrom w.flatten (blen g) = .ok r := by rw [hgr]; exact sliceFrom_mid g r
          have hdrop : w.flatten.drop g.length = r := by rw [hgr]; simp
          simp only [mapWord, hg, hdrop] at hins ⊢
          simp only [LM.bind_apply, LM.pure_apply, LM.lift, hsl, hins, LM.setPos]
          exact ⟨_, _, rfl, rfl, rfl⟩
      obtain ⟨l, ns, hk1, hk2, hk3⟩ := hk
      refine ⟨true, l, ns, hk1, ?_⟩
      have hword : ((S.seg (g0 :: tl).flatten).takeWhile (fun g => g.all U.alnum)).flatten = w.flatten := by
        rw [hseg, hwd]
      have hpost : (g0 :: tl).flatten.drop w.flatten.length = rr.flatten := by rw [hwr]; simp
      have hemp : w.flatten.isEmpty = false := by
        cases hq : w.flatten with
        | nil => exact absurd hq hwne
        | cons c t => rfl
      simp only [Act.apply, editWordWant, hsp, hsk, hdt, hword, hpost, hemp, Bool.false_eq_true, if_false, Want.holds]
      constructor
      · intro t ht
        cases ht
        rw [hk2]
      · intro q hq
        cases hq
        rw [hk3]; simp [Nat.add_assoc]

/-! ### C-t: `transpose_chars` against `transposeWant` -/

theorem getLast_dropLast_flatten {gs : List Text} {g : Text} (h : gs.getLast? = some g) :
    gs.flatten = gs.dropLast.flatten ++ g := by
  have : gs = gs.dropLast ++ [g] := by
    cases hq : gs with
    | nil => rw [hq] at h; simp at h
    | cons a t =>
      have hne : a :: t ≠ [] := by simp
      rw [hq] at h
      have hl : (a :: t).getLast hne = g := by
        rw [List.getLast?_eq_some_getLast hne] at h; exact Option.some.inj h
      rw [← hl]; exact (List.dropLast_concat_getLast hne).symm
  conv => lhs; rw [this]
  simp

/-- the four steps of `transpose_chars` once the cursor stands between the clusters `g1` and `g2`:
    delete `g2`, step back over `g1`, re-insert `g2`, step forward over `g1`.  `hside`: `g1` is
    still a cluster when the text after `g2` follows it directly (the last step re-segments). -/
theorem transpose_core (lb : LB) (pre' g1 g2 rest : Text) (hb : lb.buf = pre' ++ g1 ++ g2 ++ rest)
    (hp : lb.pos = blen (pre' ++ g1)) (hg : lb.canGrow = true) (hg1 : g1 ≠ []) (hg2 : g2 ≠ [])
    (h1 : (S.seg (pre' ++ g1)).getLast? = some g1) (h2 : (S.seg (g2 ++ rest)).head? = some g2)
    (hside : (S.seg (g1 ++ rest)).head? = some g1)
    (htP : ¬ (lb.pos = 0 ∨ (S.seg lb.buf).length < 2)) (hne' : ¬ lb.pos = lb.len) :
    ∃ l ns, LB.transposeChars S U lb = .ok (true, l, ns) ∧
      l.buf = pre' ++ g2 ++ g1 ++ rest ∧ l.pos = blen (pre' ++ g2 ++ g1) := by
  have hwf : WF lb := ⟨pre' ++ g1, g2 ++ rest, by rw [hb]; simp, hp⟩
  have hp2 := blen_pos_of_ne_nil hg2
  have hp1 := blen_pos_of_ne_nil hg1
  -- delete(1)
  obtain ⟨r0, l0, n0, hd0, _⟩ := C03_delete_total_wf S U lb 1 hwf
  have hct : charTargetFwd S lb.buf lb.pos 1 = some (lb.pos + blen g2) := by
    have hsp : splitAtByte lb.buf lb.pos = some (pre' ++ g1, g2 ++ rest) := by
      rw [hb, hp]; have := splitAtByte_append (pre' ++ g1) (g2 ++ rest); simpa using this
    cases hseg : S.seg (g2 ++ rest) with
    | nil => rw [hseg] at h2; simp at h2
    | cons a t =>
      rw [hseg] at h2; simp at h2; subst h2
      simp [charTargetFwd, splitAt?, hsp, hseg, offOf]
  have hdel : LB.delete S U 1 lb = .ok (some g2, { lb with buf := pre' ++ g1 ++ rest }, n0) := by
    rcases delete_spec S U lb l0 1 r0 n0 hwf (by simp) hd0 with ⟨he, _, _, _⟩ | ⟨t, x, y, z, ht, hlt, hbuf, hx, hy, hl0, hns, hr⟩
    · exfalso
      have : lb.len = blen (pre' ++ g1) + blen g2 + blen rest := by simp [LB.len, hb]; omega
      omega
    · rw [hct] at ht
      have htt : t = lb.pos + blen g2 := (Option.some.inj ht).symm
      have hx' : blen x = blen (pre' ++ g1) := by omega
      have hsplit : x ++ (y ++ z) = (pre' ++ g1) ++ (g2 ++ rest) := by rw [← List.append_assoc, ← hbuf, hb]; simp
      obtain ⟨hxe, hyz⟩ := cs_append_inj_blen hsplit hx'
      have hyl : blen y = blen g2 := by omega
      obtain ⟨hye, hze⟩ := cs_append_inj_blen hyz hyl
      rw [hd0, hr, hl0, hxe, hye, hze]
  -- move_backward(1): over g1
  have hw1 : WF ({ lb with buf := pre' ++ g1 ++ rest } : LB) := ⟨pre' ++ g1, rest, rfl, hp⟩
  obtain ⟨r1, l1, hmb, hmv1⟩ := moveBackward_refines S U _ 1 hw1 (by simp)
  have hcb : charTargetBwd S (pre' ++ g1 ++ rest) lb.pos 1 = some (blen pre') := by
    have hsp : splitAtByte (pre' ++ g1 ++ rest) lb.pos = some (pre' ++ g1, rest) := by
      rw [hp]; exact splitAtByte_append (pre' ++ g1) rest
    have hfl := getLast_dropLast_flatten h1
    rw [S.flatten_eq] at hfl
    have hdl : (S.seg (pre' ++ g1)).dropLast.flatten = pre' := List.append_cancel_right hfl.symm
    have hlen : 0 < (S.seg (pre' ++ g1)).length := by
      cases hq : S.seg (pre' ++ g1) with
      | nil => rw [hq] at h1; simp at h1
      | cons a t => simp
    simp only [charTargetBwd, splitAt?, hsp, Option.bind, bind, pure]
    congr 1
    have : min 1 (S.seg (pre' ++ g1)).length = 1 := by omega
    rw [this]
    unfold offOf
    rw [← List.dropLast_eq_take, hdl]
  unfold MovedTo at hmv1
  simp only [hcb, Option.getD_some] at hmv1
  subst hmv1
  -- yank(g2, 1)
  have hy := yank_eval S U g2 1 ({ lb with buf := pre' ++ g1 ++ rest, pos := blen pre' } : LB)
  have hcond : (g2.isEmpty || ({ lb with buf := pre' ++ g1 ++ rest, pos := blen pre' } : LB).mustTruncate
      (({ lb with buf := pre' ++ g1 ++ rest, pos := blen pre' } : LB).len + blen g2 * 1)) = false := by
    have : g2.isEmpty = false := by cases g2 with | nil => exact absurd rfl hg2 | cons c t => rfl
    simp [this, LB.mustTruncate, hg]
  have hsp3 : splitAtByte (pre' ++ g1 ++ rest) (blen pre') = some (pre', g1 ++ rest) := by
    have := splitAtByte_append pre' (g1 ++ rest); simpa using this
  rw [hcond] at hy
  simp only [Bool.false_eq_true, if_false, hsp3, yankText, if_true, Nat.mul_one] at hy
  -- move_forward(1): over g1 again
  have hw3 : WF (⟨pre' ++ g2 ++ (g1 ++ rest), blen pre' + blen g2, growCap lb.cap (blen (pre' ++ g1 ++ rest) + blen g2), lb.canGrow⟩ : LB) :=
    ⟨pre' ++ g2, g1 ++ rest, by simp, by simp⟩
  obtain ⟨r3, l3, hmf, hmv3⟩ := moveForward_refines S U _ 1 hw3 (by simp)
  have hcf : charTargetFwd S (pre' ++ g2 ++ (g1 ++ rest)) (blen pre' + blen g2) 1 = some (blen pre' + blen g2 + blen g1) := by
    have hsp : splitAtByte (pre' ++ g2 ++ (g1 ++ rest)) (blen pre' + blen g2) = some (pre' ++ g2, g1 ++ rest) := by
      have := splitAtByte_append (pre' ++ g2) (g1 ++ rest); simpa using this
    cases hseg : S.seg (g1 ++ rest) with
    | nil => rw [hseg] at hside; simp at hside
    | cons a t =>
      rw [hseg] at hside; simp at hside; subst hside
      unfold charTargetFwd splitAt?
      rw [hsp]
      simp [hseg, offOf]
  unfold MovedTo at hmv3
  simp only [hcf, Option.getD_some] at hmv3
  subst hmv3
  unfold LB.transposeChars
  have htB : (lb.pos == 0 || decide ((S.seg lb.buf).length < 2)) = false := by simpa using htP
  have hendB : (lb.pos == lb.len) = false := by simpa using hne'
  simp only [LM.bind_apply, LM.get, LM.pure_apply, htB, hendB, Bool.false_eq_true, if_false, hdel, hmb, hy, hmf]
  exact ⟨_, _, rfl, by simp, by simp; omega⟩

/-- the situations in which `C01_execute_refines_transpose` speaks: nothing to transpose (cursor at 0
    or fewer than two clusters), or the cursor strictly inside the text between the clusters `g1` and
    `g2`, with the re-segmentation side condition: `g1` is still a cluster when the text after `g2`
    follows it directly.  (Cursor at the end of the text — the last two clusters — is not covered.) -/
def JudgedTranspose (buf : Text) (pos : Nat) : Prop :=
  (pos = 0 ∨ (S.seg buf).length < 2) ∨
  (pos ≠ blen buf ∧ ∃ pre' g1 g2 rest, buf = pre' ++ g1 ++ g2 ++ rest ∧ pos = blen (pre' ++ g1) ∧ g1 ≠ [] ∧ g2 ≠ [] ∧
    (S.seg (pre' ++ g1)).getLast? = some g1 ∧ (S.seg (g2 ++ rest)).head? = some g2 ∧
    (S.seg (g1 ++ rest)).head? = some g1)

theorem transposeChars_refines (mode : Mode) (lb : LB) (h : WF lb) (hg : lb.canGrow = true)
    (hj : JudgedTranspose S lb.buf lb.pos) :
    ∃ r l ns, LB.transposeChars S U lb = .ok (r, l, ns) ∧
      (Act.transposeChars.apply S U mode lb.buf lb.pos).holds l := by
  by_cases htriv : (lb.pos == 0 || decide ((S.seg lb.buf).length < 2)) = true
  · have htP : lb.pos = 0 ∨ (S.seg lb.buf).length < 2 := by simpa using htriv
    refine ⟨false, lb, [], by simp [LB.transposeChars, LM.bind_apply, LM.get, htP], ?_⟩
    simp [Act.apply, transposeWant, htriv, Want.holds]
  · rcases hj with ht | ⟨hne, pre', g1, g2, rest, hb, hp, hg1, hg2, h1, h2, hside⟩
    · exfalso; apply htriv
      rcases ht with h0 | h2' <;> simp [*]
    · have hend : (lb.pos == lb.len) = false := by simpa [LB.len] using hne
      obtain ⟨l, ns, hk, hbuf, hpos⟩ := transpose_core S U lb pre' g1 g2 rest hb hp hg hg1 hg2 h1 h2 hside
        (by simpa using htriv) (by simpa using hend)
      refine ⟨true, l, ns, ?_, ?_⟩
      · exact hk
      · have htriv' : (lb.pos == 0 || decide ((S.seg lb.buf).length < 2)) = false := by simpa using htriv
        have hend' : (lb.pos == blen lb.buf) = false := by simpa using hne
        have hsp : splitAt? lb.buf lb.pos = some (pre' ++ g1, g2 ++ rest) := by
          unfold splitAt?; rw [hb, hp]
          have := splitAtByte_append (pre' ++ g1) (g2 ++ rest); simpa using this
        have htake : (pre' ++ g1).take ((pre' ++ g1).length - g1.length) = pre' := by simp
        have hdrop : (g2 ++ rest).drop g2.length = rest := by simp
        simp only [Act.apply, transposeWant, htriv', hend', Bool.false_eq_true, if_false, hsp, h1, h2, htake, hdrop, Want.holds]
        exact ⟨fun t ht => by cases ht; exact hbuf, fun q hq => by cases hq; exact hpos⟩

variable (cfg : EdCfg)

def wordCmd : WordAction → Cmd
  | .uppercase => .upcaseWord | .lowercase => .downcaseWord | .capitalize => .capitalizeWord

/-- **M-u / M-l / M-c**: the next word is case-mapped as documented, the cursor ends after it; without
    a word nothing changes -/
theorem execute_case_refines (hS : S.Stable) (hnp : cfg.hinterPanicAt = none) (mode : Mode) (a : WordAction)
    (s : Ed) (hwf : WF s.line) :
    wp (execute S U cfg (wordCmd a)) (Refined S U (.editWord a) mode s) (fun _ _ => False) s := by
  obtain ⟨r, l, ns, hk, hh⟩ := editWord_refines S U hS mode a s.line hwf
  have fin : wp (do grouped S U cfg (LB.editWord S U a); pure Status.proceed : EM Status)
      (Refined S U (.editWord a) mode s) (fun _ _ => False) s := by
    simp only [wp_bind, wp_pure]
    exact wp_grouped_line S U cfg hnp hk fun s' hl => ⟨rfl, hl ▸ hh⟩
  cases a <;> exact fin

/-- **C-t**: in the situations of `JudgedTranspose` the two clusters around the cursor are exchanged
    and the cursor ends after the pair (or nothing happens when there is nothing to transpose) -/
theorem execute_transpose_refines (hnp : cfg.hinterPanicAt = none) (mode : Mode) (s : Ed) (hwf : WF s.line)
    (hg : s.line.canGrow = true) (hj : JudgedTranspose S s.line.buf s.line.pos) :
    wp (execute S U cfg .transposeChars) (Refined S U .transposeChars mode s) (fun _ _ => False) s := by
  obtain ⟨r, l, ns, hk, hh⟩ := transposeChars_refines S U mode s.line hwf hg hj
  show wp (do grouped S U cfg (LB.transposeChars S U); pure Status.proceed : EM Status) _ _ s
  simp only [wp_bind, wp_pure]
  exact wp_grouped_line S U cfg hnp hk fun s' hl => ⟨rfl, hl ▸ hh⟩

/-- coverage of `C01_execute_refines`, final form: `CoveredAt` plus the case changes (always) and
    transpose-chars in the situations of `JudgedTranspose` -/
def CoveredFull (a : Act) (buf : Text) (pos : Nat) : Prop :=
  match a with
  | .editWord _ => True
  | .transposeChars => JudgedTranspose S buf pos
  | a => CoveredAt S a buf pos

theorem execute_refines_full (hS : S.Stable) (hnl : S.NlAlone) (hnp : cfg.hinterPanicAt = none) (mode : Mode)
    (a : Act) (c : Cmd) (hc : a.toCmd = some c) (s : Ed) (hcov : CoveredFull S a s.line.buf s.line.pos)
    (hwf : WF s.line) (hg : s.line.canGrow = true) (hr : RingOK s.ring) :
    wp (execute S U cfg c) (RefinedAct S U a mode s) (fun _ _ => False) s := by
  cases a with
  | editWord w =>
    have : c = wordCmd w := by cases w <;> (cases hc; rfl)
    subst this
    exact execute_case_refines S U cfg hS hnp mode w s hwf
  | transposeChars =>
    cases hc
    exact execute_transpose_refines S U cfg hnp mode s hwf hg hcov
  | _ => exact execute_refines_all S U cfg hS hnl hnp mode _ c hc s hcov hwf hg hr

theorem key_to_effect_full {km : EM Cmd} (hS : S.Stable) (hnl : S.NlAlone) (hnp : cfg.hinterPanicAt = none) (mode : Mode)
    (a : Act) (c : Cmd) (hc : a.toCmd = some c) (s s1 : Ed) (hcov : CoveredFull S a s.line.buf s.line.pos)
    (hwf : WF s.line) (hg : s.line.canGrow = true) (hr : RingOK s.ring)
    (hkm : km s = .ok (c, s1)) (hl : s1.line = s.line) (hring : s1.ring = s.ring) :
    wp (do let cmd ← km; execute S U cfg cmd) (RefinedAct S U a mode s) (fun _ _ => False) s := by
  rw [wp_bind]
  refine wp_of_eq_ok hkm ?_
  have := execute_refines_full S U cfg hS hnl hnp mode a c hc s1 (hl ▸ hcov) (hl ▸ hwf) (hl ▸ hg) (hring ▸ hr)
  rw [refinedAct_congr S U a mode hl] at this
  exact this

end
end Rl
