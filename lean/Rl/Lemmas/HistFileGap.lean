/-
  Helper lemmas for the gap-filling theorems of C10 / C12: exact characterisation of the
  `invalid-data` outcome of `load_from`, and the shape of a file produced by `save` followed by
  any number of `append` batches.
-/
import Rl.HistFile
import Rl.Lemmas.HistFile
namespace Rl

theorem lineText_none_iff (l : List Atom) : lineText l = none ↔ ∃ b, Atom.bad b ∈ l := by
  induction l with
  | nil => simp [lineText]
  | cons a t ih =>
    cases a with
    | chr c => simp [lineText, ih]
    | bad b => simp [lineText]

theorem bad_mem_splitLines (b : Nat) (f : List Atom) :
    Atom.bad b ∈ f ↔ ∃ p ∈ splitLines f, Atom.bad b ∈ p.1 := by
  induction f with
  | nil => simp [splitLines]
  | cons a t ih =>
    simp only [splitLines]
    split
    · rename_i h; subst h; simp [ih]
    · split
      · rename_i hs
        rw [hs] at ih
        simp at ih
        simp [ih]
      · rename_i l term rest hs
        rw [hs] at ih
        simp only [List.mem_cons, ih]
        constructor
        · rintro (h | ⟨p, hp | hp, hb⟩)
          · exact ⟨_, Or.inl rfl, by simp [h]⟩
          · subst hp; exact ⟨_, Or.inl rfl, by simp [hb]⟩
          · exact ⟨p, Or.inr hp, hb⟩
        · rintro ⟨p, hp | hp, hb⟩
          · subst hp
            simp only [List.mem_cons] at hb
            rcases hb with hb | hb
            · exact Or.inl hb
            · exact Or.inr ⟨_, Or.inl rfl, hb⟩
          · exact Or.inr ⟨p, Or.inr hp, hb⟩

theorem loadLines_status_iff (ws : Char → Bool) (v2 : Bool) (ls : List (List Atom × Bool))
    (h : FileHist) (app : Bool) :
    (loadLines ws v2 ls h app).status = .invalidData ↔ ∃ p ∈ ls, lineText p.1 = none := by
  induction ls generalizing h app with
  | nil => simp [loadLines]
  | cons l ls ih =>
    obtain ⟨l, term⟩ := l
    simp only [loadLines, decodeLine]
    cases hl : lineText l with
    | none => simp [hl]
    | some t =>
      simp only [Option.map_some, List.mem_cons, exists_eq_or_imp, hl]
      cases v2
      · simp only [Bool.false_eq_true, if_false]
        repeat' split
        all_goals (rw [ih]; simp)
      · simp only [if_true, unescape_eq]
        repeat' split
        all_goals (rw [ih]; simp)

theorem loadFrom_status_iff (ws : Char → Bool) (f : List Atom) (h : FileHist) :
    (loadFrom ws f h).status = .invalidData ↔ ∃ b, Atom.bad b ∈ f := by
  have key : (∃ b, Atom.bad b ∈ f) ↔ ∃ p ∈ splitLines f, lineText p.1 = none := by
    constructor
    · rintro ⟨b, hb⟩
      obtain ⟨p, hp, hb'⟩ := (bad_mem_splitLines b f).mp hb
      exact ⟨p, hp, (lineText_none_iff _).mpr ⟨b, hb'⟩⟩
    · rintro ⟨p, hp, hn⟩
      obtain ⟨b, hb⟩ := (lineText_none_iff _).mp hn
      exact ⟨b, (bad_mem_splitLines b f).mpr ⟨p, hp, hb⟩⟩
  rw [key]
  unfold loadFrom
  split
  · rename_i hs; simp [hs]
  · rename_i l term rest hs
    rw [hs]
    simp only [decodeLine]
    cases hl : lineText l with
    | none => simp [hl]
    | some t =>
      simp only [Option.map_some, List.mem_cons, exists_eq_or_imp, hl]
      repeat' split
      all_goals (rw [loadLines_status_iff]; simp)

theorem loadFrom_only_adds (ws : Char → Bool) (f : List Atom) (h : FileHist) :
    ∃ added, (loadFrom ws f h).h.mem = (addAll ws h added).mem := by
  unfold loadFrom
  split
  · exact ⟨[], rfl⟩
  · split
    · exact ⟨[], rfl⟩
    · split
      · exact loadLines_only_adds ws _ _ _ _
      · rename_i line _ _
        obtain ⟨a, ha⟩ := loadLines_only_adds ws false _ (h.add ws line).1 false
        exact ⟨line :: a, by simpa [addAll] using ha⟩

/-- the file after `save` of `es` and then any number of fast-path `append`s of batches -/
def appendedFile (es : List Text) (batches : List (List Text)) : List Atom :=
  atomsOf (fileOf es) ++ batches.flatMap (fun b => atomsOf (linesOf b))

theorem appendedFile_eq (es : List Text) (batches : List (List Text)) :
    appendedFile es batches = atomsOf (fileOf (es ++ batches.flatten)) := by
  induction batches generalizing es with
  | nil => simp [appendedFile]
  | cons b bs ih =>
    have := ih (es ++ b)
    simp only [appendedFile, List.flatMap_cons, List.flatten_cons] at this ⊢
    rw [← List.append_assoc es, ← this]
    simp [fileOf, linesOf, atomsOf]

/-- a cut leaves a broken character exactly when it falls strictly inside the text and not on a
    character boundary -/
theorem cutAtoms_bad_iff (t : Text) : ∀ k : Nat, (∃ b, Atom.bad b ∈ cutAtoms (atomsOf t) k) ↔
    (k < blen t ∧ ¬ ∃ p, p <+: t ∧ blen p = k) := by
  induction t with
  | nil => intro k; cases k <;> simp [atomsOf, cutAtoms]
  | cons c t ih =>
    intro k
    have hpos := Char.utf8Size_pos c
    cases k with
    | zero =>
      simp only [atomsOf, List.map_cons, cutAtoms, List.not_mem_nil, exists_false, false_iff, not_and]
      intro _ hno; exact hno ⟨[], List.nil_prefix, rfl⟩
    | succ k =>
      simp only [atomsOf, List.map_cons, cutAtoms]
      split
      · rename_i hle
        have := ih (k + 1 - c.utf8Size)
        simp only [atomsOf] at this
        simp only [List.mem_cons, reduceCtorEq, false_or, this, blen_cons]
        constructor
        · rintro ⟨h1, h2⟩
          refine ⟨by omega, ?_⟩
          rintro ⟨p, hp, hb⟩
          cases p with
          | nil => simp at hb
          | cons d p =>
            rw [List.cons_prefix_cons] at hp
            obtain ⟨rfl, hp⟩ := hp
            exact h2 ⟨p, hp, by simp at hb; omega⟩
        · rintro ⟨h1, h2⟩
          refine ⟨by omega, ?_⟩
          rintro ⟨p, hp, hb⟩
          exact h2 ⟨c :: p, by rw [List.cons_prefix_cons]; exact ⟨rfl, hp⟩, by simp; omega⟩
      · rename_i hgt
        have hlen : 0 < ((utf8Bytes c).take (k + 1)).length := by
          rw [List.length_take, utf8Bytes_length]; omega
        constructor
        · intro _
          refine ⟨by simp; omega, ?_⟩
          rintro ⟨p, hp, hb⟩
          cases p with
          | nil => simp at hb
          | cons d p =>
            rw [List.cons_prefix_cons] at hp
            obtain ⟨rfl, hp⟩ := hp
            simp at hb; omega
        · intro _
          cases hq : (utf8Bytes c).take (k + 1) with
          | nil => rw [hq] at hlen; simp at hlen
          | cons b bs => exact ⟨b, by simp⟩

theorem cutAtoms_of_size_le : ∀ (f : List Atom) (k : Nat), atomsSize f ≤ k → cutAtoms f k = f := by
  intro f
  induction f with
  | nil => intro k _; cases k <;> rfl
  | cons a t ih =>
    intro k hk
    have hsz : atomsSize (a :: t) = a.size + atomsSize t := by simp [atomsSize]
    rw [hsz] at hk
    cases a with
    | bad b =>
      simp only [Atom.size] at hk
      obtain ⟨k', rfl⟩ : ∃ k', k = k' + 1 := ⟨k - 1, by omega⟩
      simp only [cutAtoms]
      rw [ih k' (by omega)]
    | chr c =>
      simp only [Atom.size] at hk
      have hpos := Char.utf8Size_pos c
      obtain ⟨k', rfl⟩ : ∃ k', k = k' + 1 := ⟨k - 1, by omega⟩
      simp only [cutAtoms]
      rw [if_pos (by omega), ih _ (by omega)]

/-- `FileHistory::load` on an existing file: status and resulting history are those of `load_from` -/
theorem World.load_some (ws : Char → Bool) (w : World) (f : List Atom) (hf : w.file = some f) :
    (w.load ws).2 = (loadFrom ws f w.sess.fh).status ∧
    (w.load ws).1.sess.fh = (loadFrom ws f w.sess.fh).h := by
  simp only [World.load, hf]
  split
  · rename_i h; split <;> simp [h]
  · simp

end Rl
